(** Lemmas about KdqDet.v (kdq-tree detectors): the nearest-rank quantile, the streaming machine
    (closed form of every reachable state as a function of the current epoch's inputs, counter =
    run length, clean slate, lifecycle) and the batch machine (decision, adoption of the drifted
    batch, clean slate, counters).  The oracles [trunc], [rint], [kl] and the bootstrap lists are
    universally quantified throughout. *)
From MV Require Import Base Num Lifecycle KdqTree KdqTree_Proofs KdqDet.
From Coq Require Import ZifyBool Permutation Sorted.

Section Quantile.
Context {N : Num}.
Local Open Scope num_scope.
Notation F := (F N).
Variable rint : F -> Z.
Variable L : OrdLaws N.

Definition fle (a b : F) : Prop := fleb a b = true.

Lemma fle_refl (a : F) : fle a a.
Proof. apply (leb_refl N L). Qed.
Lemma fle_trans (a b c : F) : fle a b -> fle b c -> fle a c.
Proof. apply (leb_trans N L). Qed.
Lemma fle_total (a b : F) : fle a b \/ fle b a.
Proof. apply (leb_total N L). Qed.
Lemma flt_iff (a b : F) : fltb a b = true <-> fleb b a = false.
Proof. rewrite (ltb_leb N L). destruct (fleb b a); simpl; split; congruence. Qed.
Lemma nle_le (a b : F) : fleb a b = false -> fle b a.
Proof. intros H. destruct (fle_total a b) as [H1|H1]; [unfold fle in H1; congruence | exact H1]. Qed.

(** ---------- insertion sort: a sorted permutation ---------- *)
Lemma insert_perm (x : F) (l : list F) : Permutation (insert x l) (x :: l).
Proof.
  induction l as [|y t IH]; simpl; [apply Permutation_refl|].
  destruct (fleb x y); [apply Permutation_refl|].
  eapply Permutation_trans; [apply perm_skip; exact IH | apply perm_swap].
Qed.

Lemma fsort_perm (l : list F) : Permutation (fsort l) l.
Proof.
  induction l as [|x t IH]; simpl; [constructor|].
  eapply Permutation_trans; [apply insert_perm | apply perm_skip; exact IH].
Qed.

Lemma fsort_length (l : list F) : length (fsort l) = length l.
Proof. apply Permutation_length, fsort_perm. Qed.

Lemma insert_sorted (x : F) (l : list F) : StronglySorted fle l -> StronglySorted fle (insert x l).
Proof.
  induction 1 as [|y t Hs IH Hall]; simpl; [repeat constructor|].
  destruct (fleb x y) eqn:E.
  - constructor; [constructor; assumption|].
    constructor; [exact E|]. eapply Forall_impl; [|exact Hall]. intros z Hz. eapply fle_trans; eassumption.
  - constructor; [exact IH|].
    eapply Permutation_Forall; [apply Permutation_sym, insert_perm|].
    constructor; [apply nle_le; exact E | exact Hall].
Qed.

Lemma fsort_sorted (l : list F) : StronglySorted fle (fsort l).
Proof. induction l as [|x t IH]; simpl; [constructor | apply insert_sorted; exact IH]. Qed.

(** in a sorted list the element at a smaller index is smaller *)
Lemma sorted_nth_mono (s : list F) (d : F) : StronglySorted fle s ->
  forall i j, (i <= j)%nat -> (j < length s)%nat -> fle (nth i s d) (nth j s d).
Proof.
  induction 1 as [|a t Hs IH Hall]; intros i j Hij Hj; simpl in Hj; [lia|].
  destruct i as [|i], j as [|j]; simpl; try lia.
  - apply fle_refl.
  - rewrite Forall_forall in Hall. apply Hall. apply nth_In. lia.
  - apply IH; lia.
Qed.

(** ---------- ranks ---------- *)
Lemma count_perm (f : F -> bool) (l l' : list F) : Permutation l l' -> len (filter f l) = len (filter f l').
Proof.
  unfold len. induction 1; simpl; try reflexivity.
  - destruct (f x); simpl; lia.
  - destruct (f x), (f y); simpl; lia.
  - lia.
Qed.

Lemma count_mono (f g : F -> bool) (l : list F) : (forall x, f x = true -> g x = true) ->
  (len (filter f l) <= len (filter g l))%Z.
Proof.
  intros H. unfold len. apply inj_le. induction l as [|x t IH]; simpl; [lia|].
  destruct (f x) eqn:Ef; [rewrite (H x Ef); simpl; lia|]. destruct (g x); simpl; lia.
Qed.

Lemma count_lt_zero (a : F) (t : list F) : Forall (fle a) t -> count_lt t a = 0%Z.
Proof.
  unfold count_lt, len. induction 1 as [|x t Hx Ht IH]; simpl; [reflexivity|].
  assert (E : fltb x a = false).
  { destruct (fltb x a) eqn:E; [|reflexivity]. apply flt_iff in E. unfold fle in Hx. congruence. }
  rewrite E. exact IH.
Qed.

Lemma count_lt_cons (x : F) (t : list F) (v : F) : count_lt (x :: t) v = ((if fltb x v then 1 else 0) + count_lt t v)%Z.
Proof. unfold count_lt, len. cbn [filter]. destruct (fltb x v); cbn [length]; lia. Qed.
Lemma count_le_cons (x : F) (t : list F) (v : F) : count_le (x :: t) v = ((if fleb x v then 1 else 0) + count_le t v)%Z.
Proof. unfold count_le, len. cbn [filter]. destruct (fleb x v); cbn [length]; lia. Qed.
Lemma count_lt_nonneg (l : list F) (v : F) : (0 <= count_lt l v)%Z.
Proof. unfold count_lt, len. lia. Qed.
Lemma count_le_nonneg (l : list F) (v : F) : (0 <= count_le l v)%Z.
Proof. unfold count_le, len. lia. Qed.

Lemma sorted_rank_lt (s : list F) (d : F) : StronglySorted fle s -> forall k, (k < length s)%nat ->
  (count_lt s (nth k s d) <= Z.of_nat k)%Z.
Proof.
  induction 1 as [|a t Hs IH Hall]; intros k Hk; simpl in Hk; [lia|].
  destruct k as [|k]; simpl nth.
  - rewrite count_lt_cons. rewrite (count_lt_zero a t Hall).
    assert (E : fltb a a = false).
    { destruct (fltb a a) eqn:E; [|reflexivity]. apply flt_iff in E. rewrite (fle_refl a) in E. discriminate. }
    rewrite E. lia.
  - rewrite count_lt_cons. specialize (IH k ltac:(lia)). destruct (fltb a (nth k t d)); lia.
Qed.

Lemma sorted_rank_le (s : list F) (d : F) : StronglySorted fle s -> forall k, (k < length s)%nat ->
  (Z.of_nat k < count_le s (nth k s d))%Z.
Proof.
  induction 1 as [|a t Hs IH Hall]; intros k Hk; simpl in Hk; [lia|].
  destruct k as [|k]; simpl nth.
  - rewrite count_le_cons, (fle_refl a). pose proof (count_le_nonneg t a). lia.
  - rewrite count_le_cons. specialize (IH k ltac:(lia)).
    assert (E : fleb a (nth k t d) = true).
    { rewrite Forall_forall in Hall. apply Hall. apply nth_In. lia. }
    rewrite E. lia.
Qed.

(** the virtual index is a valid position *)
Definition rank_ok (l : list F) (q : F) : Prop := (0 <= qrank rint (len l) q < len l)%Z.

Lemma rank_nat (l : list F) (q : F) : rank_ok l q -> (Z.to_nat (qrank rint (len l) q) < length (fsort l))%nat.
Proof. unfold rank_ok, len. rewrite fsort_length. lia. Qed.

(** [quantile_nearest] returns an element of the list whose rank is the virtual index *)
Lemma quantile_nearest_spec (l : list F) (q : F) : rank_ok l q ->
  let k := qrank rint (len l) q in
  let v := quantile_nearest rint l q in
  In v l /\ (count_lt l v <= k)%Z /\ (k < count_le l v)%Z.
Proof.
  intros Hr k v. pose proof (rank_nat l q Hr) as Hn.
  assert (Hk : k = Z.of_nat (Z.to_nat k)) by (unfold rank_ok in Hr; unfold k; lia).
  unfold v, quantile_nearest. fold k. repeat split.
  - eapply Permutation_in; [apply fsort_perm | apply nth_In; exact Hn].
  - unfold count_lt. rewrite <- (count_perm _ _ _ (fsort_perm l)).
    pose proof (sorted_rank_lt (fsort l) f0 (fsort_sorted l) _ Hn) as P. unfold count_lt in P. unfold k in *. lia.
  - unfold count_le. rewrite <- (count_perm _ _ _ (fsort_perm l)).
    pose proof (sorted_rank_le (fsort l) f0 (fsort_sorted l) _ Hn) as P. unfold count_le in P. unfold k in *. lia.
Qed.

(** the checker accepts the model's own value ... *)
Lemma quantile_nearest_ok (l : list F) (q : F) : rank_ok l q -> quantile_ok rint l q (quantile_nearest rint l q) = true.
Proof.
  intros Hr. destruct (quantile_nearest_spec l q Hr) as (Hin & Hlt & Hle).
  unfold quantile_ok. unfold rank_ok in Hr.
  repeat (apply andb_true_iff; split); try lia.
  apply existsb_exists. exists (quantile_nearest rint l q). split; [exact Hin|].
  rewrite (fle_refl _). reflexivity.
Qed.

(** ... and whatever it accepts is order-equivalent to the model's value (the same number) and has
    the stated rank *)
Lemma quantile_ok_sound (l : list F) (q v : F) : quantile_ok rint l q v = true ->
  let k := qrank rint (len l) q in
  rank_ok l q /\ (exists x, In x l /\ fle x v /\ fle v x) /\
  (count_lt l v <= k)%Z /\ (k < count_le l v)%Z /\
  fle v (quantile_nearest rint l q) /\ fle (quantile_nearest rint l q) v.
Proof.
  intros H k. unfold quantile_ok in H. fold k in H.
  repeat (apply andb_true_iff in H; destruct H as [H ?]).
  assert (Hr : rank_ok l q) by (unfold rank_ok; fold k; lia).
  destruct (quantile_nearest_spec l q Hr) as (Hin & Hlt & Hle). fold k in Hlt, Hle.
  set (u := quantile_nearest rint l q) in *.
  split; [exact Hr|]. split.
  { apply existsb_exists in H2. destruct H2 as (x & Hx & Hb). apply andb_true_iff in Hb. exists x. tauto. }
  split; [lia|]. split; [lia|]. split.
  - (* v <= u, otherwise everything <= u lies strictly below v *)
    destruct (fleb v u) eqn:E; [exact E|]. exfalso.
    assert (Hm : (count_le l u <= count_lt l v)%Z).
    { apply count_mono. intros x Hx. apply flt_iff.
      destruct (fleb v x) eqn:E2; [|reflexivity]. rewrite (fle_trans v x u E2 Hx) in E. discriminate. }
    lia.
  - destruct (fleb u v) eqn:E; [exact E|]. exfalso.
    assert (Hm : (count_le l v <= count_lt l u)%Z).
    { apply count_mono. intros x Hx. apply flt_iff.
      destruct (fleb u x) eqn:E2; [|reflexivity]. rewrite (fle_trans u x v E2 Hx) in E. discriminate. }
    lia.
Qed.

(** a larger rank gives a larger (or equal) value *)
Lemma quantile_rank_mono (l : list F) (q1 q2 : F) :
  (0 <= qrank rint (len l) q1 <= qrank rint (len l) q2)%Z -> (qrank rint (len l) q2 < len l)%Z ->
  fle (quantile_nearest rint l q1) (quantile_nearest rint l q2).
Proof.
  intros H1 H2. unfold quantile_nearest.
  apply sorted_nth_mono; [apply fsort_sorted | lia |]. rewrite fsort_length. unfold len in *. lia.
Qed.

(** monotone in alpha: a smaller alpha never gives a smaller critical value, provided its virtual
    index is at least as large (next lemma: true whenever the arithmetic is monotone) *)
Lemma critical_value_antitone (l : list F) (a1 a2 : F) :
  (0 <= qrank rint (len l) (qlevel a2) <= qrank rint (len l) (qlevel a1))%Z ->
  (qrank rint (len l) (qlevel a1) < len l)%Z ->
  fle (critical_value rint a2 l) (critical_value rint a1 l).
Proof. intros H1 H2. unfold critical_value. apply quantile_rank_mono; assumption. Qed.

(** the virtual index is antitone in alpha under monotone arithmetic: [1 - .] reverses the order,
    multiplication by a non-negative number and [rint] preserve it *)
Section RankLaws.
Hypothesis sub_anti : forall a b : F, fle a b -> fle (f1 - b) (f1 - a).
Hypothesis mul_mono : forall c a b : F, fle f0 c -> fle a b -> fle (c * a) (c * b).
Hypothesis ofZ_nonneg : forall z : Z, (0 <= z)%Z -> fle f0 (fofZ z).
Hypothesis rint_mono : forall a b : F, fle a b -> (rint a <= rint b)%Z.

Lemma qrank_antitone (n : Z) (a1 a2 : F) : (1 <= n)%Z -> fle a1 a2 ->
  (qrank rint n (qlevel a2) <= qrank rint n (qlevel a1))%Z.
Proof.
  intros Hn H. unfold qrank, qlevel. apply rint_mono. apply mul_mono; [apply ofZ_nonneg; lia|].
  apply sub_anti. exact H.
Qed.

Lemma critical_value_antitone_laws (l : list F) (a1 a2 : F) : l <> [] -> fle a1 a2 ->
  (0 <= qrank rint (len l) (qlevel a2))%Z -> (qrank rint (len l) (qlevel a1) < len l)%Z ->
  fle (critical_value rint a2 l) (critical_value rint a1 l).
Proof.
  intros Hl H H0 H1. apply critical_value_antitone; [|exact H1]. split; [exact H0|].
  apply qrank_antitone; [|exact H]. destruct l; [congruence|]. unfold len. simpl length. lia.
Qed.
End RankLaws.

End Quantile.

(** ====================================================================== generic list helpers *)
Fixpoint scanl {A B} (f : A -> B -> A) (a : A) (l : list B) : list A :=
  match l with [] => [] | x :: t => f a x :: scanl f (f a x) t end.

Lemma scanl_length {A B} (f : A -> B -> A) l : forall a, length (scanl f a l) = length l.
Proof. induction l as [|x t IH]; intros a; simpl; [reflexivity | rewrite IH; reflexivity]. Qed.

Lemma scanl_snoc {A B} (f : A -> B -> A) l x : forall a,
  scanl f a (l ++ [x]) = scanl f a l ++ [f (fold_left f l a) x].
Proof. induction l as [|y t IH]; intros a; simpl; [reflexivity | rewrite IH; reflexivity]. Qed.

Lemma last_cons_dflt {A} (l : list A) : forall x d, last (x :: l) d = last l x.
Proof.
  induction l as [|y l' IH]; intros x d; [reflexivity|].
  change (last (x :: y :: l') d) with (last (y :: l') d). rewrite (IH y d), (IH y x). reflexivity.
Qed.

Lemma last_scanl {A B} (f : A -> B -> A) l : forall a, last (scanl f a l) a = fold_left f l a.
Proof.
  induction l as [|y t IH]; intros a; [reflexivity|].
  simpl scanl. simpl fold_left. rewrite last_cons_dflt. apply IH.
Qed.

(** length of the longest prefix / suffix all of whose elements satisfy [P] *)
Fixpoint prefix_run {A} (P : A -> bool) (l : list A) : nat :=
  match l with [] => O | x :: t => if P x then S (prefix_run P t) else O end.
Definition suffix_run {A} (P : A -> bool) (l : list A) : nat := prefix_run P (rev l).

Lemma suffix_run_snoc {A} (P : A -> bool) l x :
  suffix_run P (l ++ [x]) = if P x then S (suffix_run P l) else O.
Proof. unfold suffix_run. rewrite rev_app_distr. reflexivity. Qed.

(** what the number means: the last [suffix_run P l] elements satisfy [P] and the one before them
    (if there is one) does not *)
Lemma prefix_run_spec {A} (P : A -> bool) l :
  exists l2 l1, l = l2 ++ l1 /\ length l2 = prefix_run P l /\ forallb P l2 = true /\
                match l1 with [] => True | y :: _ => P y = false end.
Proof.
  induction l as [|x t (l2 & l1 & E & Hl & Hall & Hnext)]; simpl.
  - exists [], []. repeat split.
  - destruct (P x) eqn:Ex.
    + exists (x :: l2), l1. subst t. simpl. rewrite Ex, Hall, Hl. repeat split. exact Hnext.
    + exists [], (x :: t). repeat split. exact Ex.
Qed.

Lemma suffix_run_spec {A} (P : A -> bool) l :
  exists l1 l2, l = l1 ++ l2 /\ length l2 = suffix_run P l /\ forallb P l2 = true /\
                (l1 = [] \/ exists l1' y, l1 = l1' ++ [y] /\ P y = false).
Proof.
  destruct (prefix_run_spec P (rev l)) as (l2 & l1 & E & Hl & Hall & Hnext).
  exists (rev l1), (rev l2). repeat split.
  - rewrite <- rev_app_distr, <- E, rev_involutive. reflexivity.
  - rewrite rev_length. exact Hl.
  - rewrite forallb_forall in *. intros y Hy. apply Hall. apply in_rev. exact Hy.
  - destruct l1 as [|y l1']; [left; reflexivity|]. right. exists (rev l1'), y. split; [reflexivity | exact Hnext].
Qed.

(** ====================================================================== counts of a filled tree *)
Section TreeCounts.
Context {N : Num}.
Local Open Scope num_scope.
Notation F := (F N).
Notation tree := (tree N).
Notation point := (point N).

Lemma lcounts_odflt id (t : tree) : lcounts id t = map odflt (leaf_counts id t).
Proof. reflexivity. Qed.

Lemma zadd_assoc : forall a b c, zadd (zadd a b) c = zadd a (zadd b c).
Proof.
  induction a as [|x a IH]; intros [|y b] [|z c]; simpl; try reflexivity.
  rewrite IH. f_equal. lia.
Qed.

Lemma zadd_zeros_r l : zadd l (repeat 0%Z (length l)) = l.
Proof. induction l as [|x l IH]; simpl; [reflexivity|]. rewrite IH. f_equal. lia. Qed.

Lemma upper_app ax (mid : F) (a b : list point) : upper ax mid (a ++ b) = upper ax mid a ++ upper ax mid b.
Proof. unfold upper. apply filter_app. Qed.
Lemma lower_app ax (mid : F) (a b : list point) : lower ax mid (a ++ b) = lower ax mid a ++ lower ax mid b.
Proof. unfold lower. apply filter_app. Qed.

(** leaf membership counts are additive in the sample ... *)
Lemma leaf_arrivals_app (t : tree) : forall a b : list point,
  leaf_arrivals (a ++ b) t = zadd (leaf_arrivals a t) (leaf_arrivals b t).
Proof.
  induction t as [| c |ax mid c l IHl r IHr]; intros a b; simpl.
  - reflexivity.
  - rewrite len_app. reflexivity.
  - rewrite lower_app, upper_app, IHl, IHr. symmetry. apply zadd_app.
    rewrite !length_leaf_arrivals. reflexivity.
Qed.

Lemma leaf_arrivals_nil (t : tree) : leaf_arrivals [] t = repeat 0%Z (nleaves t).
Proof.
  induction t as [| c |ax mid c l IHl r IHr]; simpl; try reflexivity.
  change (lower ax mid []) with (@nil point). change (upper ax mid []) with (@nil point).
  rewrite IHl, IHr, repeat_app. reflexivity.
Qed.

(** ... and depend on the splits only, not on the counts stored in the tree *)
Lemma leaf_arrivals_fill (t : tree) : forall (d d' : list point) id reset,
  leaf_arrivals d (fill d' t id reset) = leaf_arrivals d t.
Proof.
  induction t as [| c |ax mid c l IHl r IHr]; intros d d' id reset; simpl; try reflexivity.
  rewrite IHl, IHr. reflexivity.
Qed.

Lemma nleaves_fill (t : tree) : forall (d : list point) id reset, nleaves (fill d t id reset) = nleaves t.
Proof.
  induction t as [| c |ax mid c l IHl r IHr]; intros d id reset; simpl; try reflexivity.
  rewrite IHl, IHr. reflexivity.
Qed.

Lemma leaves_fill_nonempty (t : tree) (d : list point) id reset : leaves t <> [] -> leaves (fill d t id reset) <> [].
Proof.
  intros H E. apply H. apply length_zero_iff_nil. apply length_zero_iff_nil in E.
  rewrite length_leaves in *. rewrite nleaves_fill in E. exact E.
Qed.

Lemma leaf_counts_fill_other (t : tree) : forall (d : list point) id reset id', id' <> id ->
  leaf_counts id' (fill d t id reset) = leaf_counts id' t.
Proof.
  unfold leaf_counts. induction t as [| c |ax mid c l IHl r IHr]; intros d id reset id' H; simpl.
  - reflexivity.
  - rewrite lookup_bump_other by exact H. reflexivity.
  - rewrite !map_app, IHl, IHr by exact H. reflexivity.
Qed.

Definition fillstep1 (t : tree) (x : point) : tree := fill [x] t 1 false.

(** filling samples one at a time (accumulating) adds their leaf membership counts *)
Lemma fold_fill_counts : forall (l : list point) (t : tree),
  lcounts 1 (fold_left fillstep1 l t) = zadd (lcounts 1 t) (leaf_arrivals l t).
Proof.
  induction l as [|x l IH]; intros t.
  - simpl. rewrite leaf_arrivals_nil, lcounts_odflt.
    replace (nleaves t) with (length (map odflt (leaf_counts 1 t))).
    + symmetry. apply zadd_zeros_r.
    + unfold leaf_counts. rewrite !map_length. apply length_leaves.
  - simpl fold_left. rewrite IH. unfold fillstep1 at 1 2.
    rewrite leaf_arrivals_fill, !lcounts_odflt, leaf_counts_fill_acc, zadd_assoc.
    change (x :: l) with ([x] ++ l). rewrite leaf_arrivals_app. reflexivity.
Qed.

Lemma fold_fill_counts0 : forall (l : list point) (t : tree),
  leaf_counts 0 (fold_left fillstep1 l t) = leaf_counts 0 t.
Proof.
  induction l as [|x l IH]; intros t; [reflexivity|].
  simpl. rewrite IH. apply leaf_counts_fill_other. discriminate.
Qed.

Lemma fold_fill_has_id id : forall (l : list point) (t : tree), has_id id t -> has_id id (fold_left fillstep1 l t).
Proof.
  induction l as [|x l IH]; intros t H; [exact H|]. simpl. apply IH. apply fill_has_id_other. exact H.
Qed.

Lemma fold_fill_has_id1 : forall (l : list point) (t : tree), l <> [] -> has_id 1 (fold_left fillstep1 l t).
Proof.
  intros [|x l] t H; [congruence|]. simpl. apply fold_fill_has_id. apply fill_has_id.
Qed.

Lemma fold_fill_leaves : forall (l : list point) (t : tree), leaves t <> [] -> leaves (fold_left fillstep1 l t) <> [].
Proof.
  induction l as [|x l IH]; intros t H; [exact H|]. simpl. apply IH. apply leaves_fill_nonempty. exact H.
Qed.

Lemma all_some_app {A} (a b : list (option A)) :
  all_some (a ++ b) = match all_some a, all_some b with Some x, Some y => Some (x ++ y) | _, _ => None end.
Proof.
  induction a as [|[v|] a IH]; simpl.
  - destruct (all_some b); reflexivity.
  - rewrite IH. destruct (all_some a), (all_some b); reflexivity.
  - reflexivity.
Qed.

Lemma all_some_has_id id (t : tree) : has_id id t -> all_some (leaf_counts id t) = Some (lcounts id t).
Proof.
  unfold lcounts, leaf_counts. induction t as [| c |ax mid c l IHl r IHr]; simpl.
  - reflexivity.
  - intros H. destruct (lookup id c); [reflexivity | congruence].
  - intros (_ & Hl & Hr). rewrite !map_app, all_some_app, (IHl Hl), (IHr Hr). reflexivity.
Qed.

(** kl_distance in terms of integer leaf counts *)
Lemma kl_distance_counts (kl : list F -> list F -> F) (t : tree) id1 id2 :
  leaves t <> [] -> has_id id1 t -> has_id id2 t ->
  kl_distance kl t id1 id2 = Some (kl (distn (lcounts id1 t)) (distn (lcounts id2 t))).
Proof.
  intros Hl H1 H2. unfold kl_distance, kl_args.
  destruct (leaves t) eqn:E; [congruence|].
  rewrite (all_some_has_id id1 t H1), (all_some_has_id id2 t H2). reflexivity.
Qed.

(** a tree that comes out of [build_node] carries counts for id 0 ("build") only *)
Section Built.
Variable m : Z.
Variable cub : Z.
Variable mins : list F.

Lemma build_node_ids : forall fuel (data : list point) depth,
  let t := fst (build_node m cub mins fuel data depth) in
  has_id 0 t /\ forall id, id <> 0%Z -> lcounts id t = repeat 0%Z (nleaves t).
Proof.
  induction fuel as [|fuel IH]; intros data depth.
  - destruct data as [|q d]; [rewrite build_node_nil; simpl; split; [exact I | reflexivity]|].
    destruct (Z.eq_dec m 0) as [Em|Em]; [rewrite build_node_nocols by exact Em; simpl; split; [exact I | reflexivity]|].
    destruct (stop_rule m cub mins (q :: d) depth) eqn:Es.
    + rewrite build_node_stop by (try discriminate; assumption). simpl. split; [discriminate|].
      intros id Hid. unfold lcounts, leaf_counts. simpl. destruct id; [congruence | reflexivity | reflexivity].
    + rewrite build_node_O by (try discriminate; assumption). simpl. split; [exact I | reflexivity].
  - destruct data as [|q d]; [rewrite build_node_nil; simpl; split; [exact I | reflexivity]|].
    destruct (Z.eq_dec m 0) as [Em|Em]; [rewrite build_node_nocols by exact Em; simpl; split; [exact I | reflexivity]|].
    destruct (stop_rule m cub mins (q :: d) depth) eqn:Es.
    + rewrite build_node_stop by (try discriminate; assumption). simpl. split; [discriminate|].
      intros id Hid. unfold lcounts, leaf_counts. simpl. destruct id; [congruence | reflexivity | reflexivity].
    + rewrite build_node_S by (try discriminate; assumption). cbv zeta.
      pose proof (IH (lower (axis_of m depth) (midpoint (axis_of m depth) (q :: d)) (q :: d)) (depth + 1)%Z) as I1.
      pose proof (IH (upper (axis_of m depth) (midpoint (axis_of m depth) (q :: d)) (q :: d)) (depth + 1)%Z) as I2.
      destruct (build_node m cub mins fuel (lower _ _ _) _) as [l fl].
      destruct (build_node m cub mins fuel (upper _ _ _) _) as [r fr].
      simpl in *. destruct I1 as [A1 B1], I2 as [A2 B2]. split.
      * repeat split; try assumption. discriminate.
      * intros id Hid. specialize (B1 id Hid). specialize (B2 id Hid).
        unfold lcounts, leaf_counts in *. simpl. rewrite !map_app, B1, B2, repeat_app. reflexivity.
Qed.
End Built.

Lemma kbuild_ids trunc (p : kdq_params N) (data : list point) :
  let t := fst (kbuild trunc p data) in
  has_id 0 t /\ lcounts 1 t = repeat 0%Z (nleaves t).
Proof.
  unfold kbuild, build.
  destruct (build_node_ids (k_m p) (k_cub p) (min_sizes trunc (k_clb p) (k_m p) data) (kfuel data) data 0) as [A B].
  split; [exact A | apply B; discriminate].
Qed.

(** the reference tree, then [l] test samples filled one at a time: the "build" counts are those of
    the reference, the "test" counts are the leaf membership counts of [l], and the divergence is
    the oracle applied to the two corrected distributions *)
Lemma filled_reference (kl : list F -> list F -> F) trunc (p : kdq_params N) (ref l : list point) :
  let t0 := fst (kbuild trunc p ref) in
  let t := fold_left fillstep1 l t0 in
  lcounts 0 t = lcounts 0 t0 /\ lcounts 1 t = leaf_arrivals l t0 /\
  (l <> [] -> leaves t0 <> [] ->
   divergence kl t = Some (kl (distn (lcounts 0 t0)) (distn (leaf_arrivals l t0)))).
Proof.
  intros t0 t. destruct (kbuild_ids trunc p ref) as [H0 H1]. fold t0 in H0, H1.
  assert (E0 : lcounts 0 t = lcounts 0 t0) by (unfold lcounts, t; rewrite fold_fill_counts0; reflexivity).
  assert (E1 : lcounts 1 t = leaf_arrivals l t0).
  { unfold t. rewrite fold_fill_counts, H1, <- (length_leaf_arrivals l t0). apply zadd_zeros. }
  split; [exact E0|]. split; [exact E1|]. intros Hl Hne.
  unfold divergence. rewrite kl_distance_counts.
  - rewrite E0, E1. reflexivity.
  - apply fold_fill_leaves. exact Hne.
  - apply fold_fill_has_id. exact H0.
  - apply fold_fill_has_id1. exact Hl.
Qed.

End TreeCounts.

(** ====================================================================== KdqTreeStreaming *)
Ltac klia := lia.

Section Stream.
Context {N : Num}.
Local Open Scope num_scope.
Notation F := (F N).
Notation tree := (tree N).
Notation point := (point N).
Variable trunc : F -> F.
Variable rint : F -> Z.
Variable kl : list F -> list F -> F.
Variable p : kdq_params N.

Notation upd := (ks_update trunc rint kl p).
Notation evl := (ks_evaluate trunc rint kl p).
Notation states := (ks_states trunc rint kl p).
Notation trace := (ks_trace trunc rint kl p).
Notation runs := (ks_run trunc rint kl p).

(** ---------- counters ---------- *)
Lemma evl_total s x b : s_total (evl s x b) = s_total s.
Proof.
  unfold ks_evaluate, ks_set_reference. destruct (s_tree s).
  - destruct (k_w p <=? s_tsize s + 1)%Z; [destruct (above _ _)|]; reflexivity.
  - destruct (len (s_ref s ++ [x]) =? k_w p)%Z; reflexivity.
Qed.

Lemma upd_total s x : s_total (upd s x) = (s_total s + 1)%Z.
Proof. unfold ks_update. rewrite evl_total. destruct (is_drift (s_ds s)); reflexivity. Qed.

Lemma runs_total : forall xs s, s_total (runs s xs) = (s_total s + len xs)%Z.
Proof.
  induction xs as [|x xs IH]; intros s; unfold len; simpl; [klia|].
  unfold ks_run in *. simpl. rewrite IH, upd_total. unfold len. klia.
Qed.

(** ---------- shifting the total: the machine never reads it ---------- *)
Definition ks_shift (k : Z) (s : kstream N) : kstream N :=
  mk_ks (s_total s + k) (s_since s) (s_ds s) (s_ref s) (s_tree s) (s_tsize s) (s_crit s) (s_tdist s)
        (s_counter s) (s_oof s) (s_bootq s).

Lemma evl_shift k s x b : evl (ks_shift k s) x b = ks_shift k (evl s x b).
Proof.
  unfold ks_evaluate, ks_set_reference, ks_shift. simpl. destruct (s_tree s).
  - destruct (k_w p <=? s_tsize s + 1)%Z; [destruct (above _ _)|]; reflexivity.
  - destruct (len (s_ref s ++ [x]) =? k_w p)%Z; reflexivity.
Qed.

Lemma upd_shift k s x : upd (ks_shift k s) x = ks_shift k (upd s x).
Proof.
  unfold ks_update. rewrite <- evl_shift. f_equal.
  unfold ks_shift, ks_reset. simpl. destruct (is_drift (s_ds s)); simpl; f_equal; klia.
Qed.

Lemma states_shift k : forall xs s, states (ks_shift k s) xs = map (ks_shift k) (states s xs).
Proof. induction xs as [|x xs IH]; intros s; simpl; [reflexivity|]. rewrite upd_shift, IH. reflexivity. Qed.

Lemma upd_after_drift s x : is_drift (s_ds s) = true -> upd s x = upd (ks_reset s) x.
Proof. intros H. unfold ks_update. rewrite H. reflexivity. Qed.

Lemma reset_is_shifted_init s : ks_reset s = ks_shift (s_total s) ks_init.
Proof. reflexivity. Qed.

(** clean slate, on whole states: after a reported drift every later state is the state of a newly
    constructed detector fed the later inputs only, with the total shifted *)
Lemma states_clean_slate s xs : is_drift (s_ds s) = true ->
  states s xs = map (ks_shift (s_total s)) (states ks_init xs).
Proof.
  intros H. destruct xs as [|x xs]; [reflexivity|]. simpl.
  rewrite (upd_after_drift s x H), reset_is_shifted_init, upd_shift, states_shift. reflexivity.
Qed.

Lemma trace_states : forall xs s, trace s xs = map ks_observe (states s xs).
Proof. induction xs as [|x xs IH]; intros s; simpl; [reflexivity | rewrite IH; reflexivity]. Qed.

Lemma observe_shift k s : ks_observe (ks_shift k s) = shift_obs k (ks_observe s).
Proof. reflexivity. Qed.

Lemma trace_clean_slate s xs : is_drift (s_ds s) = true ->
  trace s xs = map (shift_obs (s_total s)) (trace ks_init xs).
Proof.
  intros H. rewrite !trace_states, (states_clean_slate s xs H), !map_map.
  apply map_ext. intros a. apply observe_shift.
Qed.

(** ---------- the current epoch as a function of its inputs ---------- *)
Definition kw : nat := Z.to_nat (k_w p).
Definition dflt_sx : sx N := ([], []).

Definition ep_ref (h : list (sx N)) : list point := firstn kw (map fst h).
Definition ep_test (h : list (sx N)) : list point := skipn kw (map fst h).
Definition ep_build (h : list (sx N)) : tree * bool := kbuild trunc p (ep_ref h).
Definition ep_t0 (h : list (sx N)) : tree := fst (ep_build h).
Definition ep_trees (h : list (sx N)) : list tree := scanl fillstep1 (ep_t0 h) (ep_test h).
Definition ep_crit (h : list (sx N)) : option F :=
  Some (critical_value rint (k_alpha p) (snd (nth (kw - 1) h dflt_sx))).
(** divergences of the evaluated samples: from the [window_size]-th test sample on *)
Definition ep_evald (h : list (sx N)) : list (option F) :=
  skipn (kw - 1) (map (divergence kl) (ep_trees h)).
Definition ep_cnt (h : list (sx N)) : Z := Z.of_nat (suffix_run (above (ep_crit h)) (ep_evald h)).

Definition spec_stream (tot : Z) (h : list (sx N)) : kstream N :=
  if (length h <? kw)%nat
  then mk_ks tot (len h) DNone (map fst h) None 0 None None 0 false None
  else mk_ks tot (len (ep_test h))
             (if (1 <=? ep_cnt h)%Z && (k_pers p * fofZ (k_w p) <? fofZ (ep_cnt h)) then DDrift else DNone)
             [] (Some (last (ep_trees h) (ep_t0 h))) (len (ep_test h)) (ep_crit h)
             (last (ep_evald h) None) (ep_cnt h) (snd (ep_build h))
             (Some (lcounts 0 (ep_t0 h), k_w p)).

Hypothesis w_pos : (1 <= k_w p)%Z.

Lemma kw_pos : (1 <= kw)%nat.
Proof. unfold kw. klia. Qed.
Lemma kw_Z : k_w p = Z.of_nat kw.
Proof. unfold kw. klia. Qed.

Lemma spec_total tot h : s_total (spec_stream tot h) = tot.
Proof. unfold spec_stream. destruct (length h <? kw)%nat; reflexivity. Qed.

Lemma spec_nil tot : spec_stream tot [] = mk_ks tot 0 DNone [] None 0 None None 0 false None.
Proof.
  unfold spec_stream. pose proof kw_pos. destruct (Nat.ltb_spec (length (@nil (sx N))) kw) as [_|H0]; [reflexivity|].
  simpl in H0. klia.
Qed.

Lemma init_spec : ks_init = spec_stream 0 [].
Proof. rewrite spec_nil. reflexivity. Qed.

Lemma reset_spec tot h : ks_reset (spec_stream tot h) = spec_stream tot [].
Proof.
  unfold ks_reset. rewrite spec_total. unfold spec_stream at 1.
  pose proof kw_pos. destruct (Nat.ltb_spec (length (@nil (sx N))) kw) as [_|H0]; [reflexivity|].
  simpl in H0. klia.
Qed.

(** snoc lemmas, reference window complete *)
Section Snoc.
Variable h : list (sx N).
Variable x : sx N.
Hypothesis full : (kw <= length h)%nat.

Lemma ep_ref_snoc : ep_ref (h ++ [x]) = ep_ref h.
Proof.
  unfold ep_ref. rewrite map_app, firstn_app, map_length.
  replace (kw - length h)%nat with O by klia. simpl. apply app_nil_r.
Qed.
Lemma ep_test_snoc : ep_test (h ++ [x]) = ep_test h ++ [fst x].
Proof.
  unfold ep_test. rewrite map_app, skipn_app, map_length.
  replace (kw - length h)%nat with O by klia. reflexivity.
Qed.
Lemma ep_t0_snoc : ep_t0 (h ++ [x]) = ep_t0 h.
Proof. unfold ep_t0, ep_build. rewrite ep_ref_snoc. reflexivity. Qed.
Lemma ep_build_snoc : ep_build (h ++ [x]) = ep_build h.
Proof. unfold ep_build. rewrite ep_ref_snoc. reflexivity. Qed.
Lemma ep_crit_snoc : ep_crit (h ++ [x]) = ep_crit h.
Proof. unfold ep_crit. pose proof kw_pos. rewrite app_nth1 by klia. reflexivity. Qed.
Lemma ep_trees_snoc :
  ep_trees (h ++ [x]) = ep_trees h ++ [fillstep1 (last (ep_trees h) (ep_t0 h)) (fst x)].
Proof. unfold ep_trees. rewrite ep_test_snoc, ep_t0_snoc, scanl_snoc, last_scanl. reflexivity. Qed.
Lemma ep_trees_length : length (ep_trees h) = length (ep_test h).
Proof. unfold ep_trees. apply scanl_length. Qed.
Lemma ep_test_length : length (ep_test h) = (length h - kw)%nat.
Proof. unfold ep_test. rewrite skipn_length, map_length. reflexivity. Qed.

(** the new sample is evaluated: at least [window_size] test samples *)
Lemma ep_evald_snoc_eval : (kw <= length (ep_test h) + 1)%nat ->
  ep_evald (h ++ [x]) = ep_evald h ++ [divergence kl (fillstep1 (last (ep_trees h) (ep_t0 h)) (fst x))].
Proof.
  intros H. unfold ep_evald. rewrite ep_trees_snoc, map_app, skipn_app, map_length, ep_trees_length.
  replace (kw - 1 - length (ep_test h))%nat with O by klia. reflexivity.
Qed.
Lemma ep_evald_snoc_skip : (length (ep_test h) + 1 < kw)%nat ->
  ep_evald (h ++ [x]) = [] /\ ep_evald h = [].
Proof.
  intros H. unfold ep_evald. split; apply skipn_all2.
  - rewrite ep_trees_snoc, map_length, app_length, ep_trees_length. simpl. klia.
  - rewrite map_length, ep_trees_length. klia.
Qed.
End Snoc.

(** one update of a state in closed form gives the closed form of the extended epoch *)
Lemma spec_step_nodrift tot h x : is_drift (s_ds (spec_stream tot h)) = false ->
  upd (spec_stream tot h) x = spec_stream (tot + 1) (h ++ [x]).
Proof.
  intros Hnd. pose proof kw_pos as Hp. pose proof kw_Z as HZ.
  unfold ks_update. rewrite Hnd.
  unfold spec_stream in *. rewrite app_length. simpl length.
  destruct (Nat.ltb_spec (length h) kw) as [Hlt|Hge].
  - (* still collecting the reference window *)
    unfold ks_evaluate. cbn [s_tree s_ref s_total s_since s_ds s_tsize s_crit s_tdist s_counter s_oof s_bootq].
    unfold len. rewrite app_length, map_length. simpl length.
    destruct (Z.eqb_spec (Z.of_nat (length h + 1)) (k_w p)) as [E|E].
    + assert (Hl : (length h + 1 = kw)%nat) by klia.
      destruct (Nat.ltb_spec (length h + 1) kw) as [?|_]; [klia|].
      unfold ks_set_reference, ks_reset. cbn [s_total s_since s_ds s_tsize s_tdist s_counter].
      assert (Eref : ep_ref (h ++ [x]) = map fst h ++ [fst x]).
      { unfold ep_ref. rewrite map_app. apply firstn_all2. rewrite app_length, map_length. simpl. klia. }
      assert (Etest : ep_test (h ++ [x]) = []).
      { unfold ep_test. apply skipn_all2. rewrite map_length, app_length. simpl. klia. }
      assert (Etrees : ep_trees (h ++ [x]) = []) by (unfold ep_trees; rewrite Etest; reflexivity).
      assert (Eev : ep_evald (h ++ [x]) = []).
      { unfold ep_evald. rewrite Etrees. simpl. destruct (kw - 1)%nat; reflexivity. }
      assert (Ecnt : ep_cnt (h ++ [x]) = 0%Z) by (unfold ep_cnt; rewrite Eev; reflexivity).
      assert (Ecrit : ep_crit (h ++ [x]) = Some (critical_value rint (k_alpha p) (snd x))).
      { unfold ep_crit. rewrite app_nth2 by klia. replace (kw - 1 - length h)%nat with O by klia. reflexivity. }
      rewrite Etest, Etrees, Eev, Ecnt, Ecrit. unfold ep_t0, ep_build. rewrite Eref. reflexivity.
    + destruct (Nat.ltb_spec (length h + 1) kw) as [_|?]; [|klia].
      rewrite map_app. simpl map. f_equal. rewrite ?app_length. simpl length. klia.
  - (* the tree exists: the sample joins the test window *)
    destruct (Nat.ltb_spec (length h + 1) kw) as [?|_]; [klia|].
    assert (Hds : (if (1 <=? ep_cnt h)%Z && (k_pers p * fofZ (k_w p) <? fofZ (ep_cnt h)) then DDrift else DNone) = DNone).
    { cbn [s_ds] in Hnd. destruct ((1 <=? ep_cnt h)%Z && (k_pers p * fofZ (k_w p) <? fofZ (ep_cnt h))); [discriminate | reflexivity]. }
    rewrite Hds.
    unfold ks_evaluate. cbn [s_tree s_ref s_total s_since s_ds s_tsize s_crit s_tdist s_counter s_oof s_bootq].
    rewrite (ep_test_snoc h x Hge), (ep_t0_snoc h x Hge), (ep_build_snoc h x Hge), (ep_crit_snoc h x Hge).
    rewrite (ep_trees_snoc h x Hge), last_last.
    change (fill [fst x] (last (ep_trees h) (ep_t0 h)) 1 false) with (fillstep1 (last (ep_trees h) (ep_t0 h)) (fst x)).
    set (t' := fillstep1 (last (ep_trees h) (ep_t0 h)) (fst x)).
    assert (Elen : len (ep_test h ++ [fst x]) = (len (ep_test h) + 1)%Z).
    { unfold len. rewrite app_length. simpl. klia. }
    rewrite Elen.
    destruct (Z.leb_spec (k_w p) (len (ep_test h) + 1)) as [Hev|Hev].
    + assert (Hev' : (kw <= length (ep_test h) + 1)%nat) by (unfold len in Hev; klia).
      assert (Ecnt : ep_cnt (h ++ [x]) =
                     if above (ep_crit h) (divergence kl t') then (ep_cnt h + 1)%Z else 0%Z).
      { unfold ep_cnt. rewrite (ep_evald_snoc_eval h x Hge Hev'), (ep_crit_snoc h x Hge), suffix_run_snoc.
        fold t'. destruct (above (ep_crit h) (divergence kl t')); [klia | reflexivity]. }
      rewrite Ecnt, (ep_evald_snoc_eval h x Hge Hev'), last_last. fold t'.
      destruct (above (ep_crit h) (divergence kl t')).
      * assert (H1 : (1 <=? ep_cnt h + 1)%Z = true) by (unfold ep_cnt; klia).
        rewrite H1. cbn [andb]. reflexivity.
      * reflexivity.
    + assert (Hev' : (length (ep_test h) + 1 < kw)%nat) by (unfold len in Hev; klia).
      destruct (ep_evald_snoc_skip h x Hge Hev') as [E1 E2].
      assert (Ecnt : ep_cnt (h ++ [x]) = 0%Z /\ ep_cnt h = 0%Z).
      { unfold ep_cnt. rewrite (ep_crit_snoc h x Hge), E1, E2. split; reflexivity. }
      destruct Ecnt as [Ec1 Ec2]. rewrite Ec1, Ec2, E1, E2. reflexivity.
Qed.

Lemma spec_step tot h x :
  upd (spec_stream tot h) x =
  spec_stream (tot + 1) (if is_drift (s_ds (spec_stream tot h)) then [x] else h ++ [x]).
Proof.
  destruct (is_drift (s_ds (spec_stream tot h))) eqn:Hd.
  - rewrite (upd_after_drift _ x Hd), reset_spec.
    change [x] with ([] ++ [x]). apply spec_step_nodrift.
    rewrite spec_nil. reflexivity.
  - apply spec_step_nodrift. exact Hd.
Qed.

(** the inputs of the current epoch: everything since the update that followed the last drift *)
Fixpoint epoch_hist (s : kstream N) (h : list (sx N)) (xs : list (sx N)) : list (sx N) :=
  match xs with
  | [] => h
  | x :: t => epoch_hist (upd s x) (if is_drift (s_ds s) then [x] else h ++ [x]) t
  end.

Lemma closed_form_from : forall xs s h, s = spec_stream (s_total s) h ->
  runs s xs = spec_stream (s_total s + len xs) (epoch_hist s h xs).
Proof.
  induction xs as [|x xs IH]; intros s h Hs.
  - unfold len. simpl. rewrite Z.add_0_r. exact Hs.
  - unfold ks_run. simpl fold_left. fold (runs (upd s x) xs).
    assert (Hstep : upd s x = spec_stream (s_total (upd s x)) (if is_drift (s_ds s) then [x] else h ++ [x])).
    { rewrite upd_total. rewrite Hs at 1. rewrite spec_step. rewrite <- Hs. reflexivity. }
    rewrite (IH _ _ Hstep), upd_total. simpl epoch_hist. f_equal. unfold len. simpl length. klia.
Qed.

(** every reachable state is the closed form of its epoch *)
Lemma closed_form xs :
  runs ks_init xs = spec_stream (len xs) (epoch_hist ks_init [] xs).
Proof. rewrite (closed_form_from xs ks_init []); [reflexivity | apply init_spec]. Qed.

(** ---------- consequences of the closed form ---------- *)
Lemma prefix_run_le {A} (P : A -> bool) l : (prefix_run P l <= length l)%nat.
Proof. induction l as [|x t IH]; simpl; [lia|]. destruct (P x); lia. Qed.
Lemma suffix_run_le {A} (P : A -> bool) l : (suffix_run P l <= length l)%nat.
Proof. unfold suffix_run. rewrite <- rev_length. apply prefix_run_le. Qed.

Lemma ep_evald_length h : length (ep_evald h) = (length (ep_test h) - (kw - 1))%nat.
Proof. unfold ep_evald, ep_trees. rewrite skipn_length, map_length, scanl_length. reflexivity. Qed.

Lemma ep_cnt_bound h : (0 <= ep_cnt h <= Z.of_nat (length (ep_test h) - (kw - 1)))%Z.
Proof.
  unfold ep_cnt. pose proof (suffix_run_le (above (ep_crit h)) (ep_evald h)) as H.
  rewrite ep_evald_length in H. klia.
Qed.

Lemma epoch_hist_length : forall xs s h, (length (epoch_hist s h xs) <= length h + length xs)%nat.
Proof.
  induction xs as [|x xs IH]; intros s h; simpl; [klia|].
  specialize (IH (upd s x) (if is_drift (s_ds s) then [x] else h ++ [x])).
  destruct (is_drift (s_ds s)); [simpl in IH | rewrite app_length in IH; simpl in IH]; klia.
Qed.

(** the drift state of a closed-form state *)
Lemma spec_ds tot h :
  s_ds (spec_stream tot h) = DDrift <->
  (1 <= s_counter (spec_stream tot h))%Z /\
  fltb (k_pers p * fofZ (k_w p)) (fofZ (s_counter (spec_stream tot h))) = true.
Proof.
  unfold spec_stream. destruct (length h <? kw)%nat; cbn [s_ds s_counter].
  - split; [discriminate | intros [H _]; klia].
  - destruct (Z.leb_spec 1 (ep_cnt h)) as [H1|H1]; cbn [andb].
    + destruct (k_pers p * fofZ (k_w p) <? fofZ (ep_cnt h)); split; try discriminate; try tauto.
      intros [_ H]; discriminate.
    + split; [discriminate | intros [H _]; klia].
Qed.

Lemma spec_not_warn tot h : s_ds (spec_stream tot h) <> DWarn.
Proof.
  unfold spec_stream. destruct (length h <? kw)%nat; cbn [s_ds]; [discriminate|].
  destruct ((1 <=? ep_cnt h)%Z && (k_pers p * fofZ (k_w p) <? fofZ (ep_cnt h))); discriminate.
Qed.

(** no alarm before two full windows of the epoch *)
Lemma spec_silent tot h : s_ds (spec_stream tot h) = DDrift -> (2 * kw <= length h)%nat.
Proof.
  intros H. apply spec_ds in H. destruct H as [H _]. revert H.
  unfold spec_stream. destruct (Nat.ltb_spec (length h) kw) as [Hlt|Hge]; cbn [s_counter]; [klia|].
  pose proof (ep_cnt_bound h) as B. rewrite (ep_test_length h) in B. klia.
Qed.

Lemma spec_counter tot h :
  s_counter (spec_stream tot h) = Z.of_nat (suffix_run (above (ep_crit h)) (ep_evald h)).
Proof.
  unfold spec_stream. destruct (Nat.ltb_spec (length h) kw) as [Hlt|Hge]; cbn [s_counter]; [|reflexivity].
  assert (E : ep_evald h = []).
  { unfold ep_evald, ep_trees, ep_test. rewrite (@skipn_all2 _ kw (map fst h)) by (rewrite map_length; klia). simpl.
    destruct (kw - 1)%nat; reflexivity. }
  rewrite E. reflexivity.
Qed.

Lemma spec_since tot h :
  s_since (spec_stream tot h) = if (length h <? kw)%nat then len h else (len h - k_w p)%Z.
Proof.
  unfold spec_stream. destruct (Nat.ltb_spec (length h) kw) as [Hlt|Hge]; cbn [s_since]; [reflexivity|].
  unfold len. rewrite (ep_test_length h). pose proof kw_Z. klia.
Qed.

(** one update: where samples_since_reset goes *)
Lemma upd_since s x :
  s_since (upd s x) =
  let s0 := if is_drift (s_ds s) then ks_reset s else s in
  match s_tree s0 with
  | None => if (len (s_ref s0) + 1 =? k_w p)%Z then 0%Z else (s_since s0 + 1)%Z
  | Some _ => (s_since s0 + 1)%Z
  end.
Proof.
  unfold ks_update. cbv zeta. set (s0 := if is_drift (s_ds s) then ks_reset s else s).
  unfold ks_evaluate. cbn [s_tree s_ref s_since s_tsize].
  destruct (s_tree s0).
  - destruct (k_w p <=? s_tsize s0 + 1)%Z; [destruct (above _ _)|]; reflexivity.
  - rewrite len_app. change (len [fst x]) with 1%Z.
    destruct (len (s_ref s0) + 1 =? k_w p)%Z; reflexivity.
Qed.

Lemma scanl_nth {A B} (f : A -> B -> A) (d : A) : forall l a i, (i < length l)%nat ->
  nth i (scanl f a l) d = fold_left f (firstn (S i) l) a.
Proof.
  induction l as [|x l IH]; intros a i Hi; simpl in Hi; [klia|].
  destruct i as [|i]; [reflexivity|]. simpl scanl. simpl nth. rewrite IH by klia. reflexivity.
Qed.

(** the closed form, field by field *)
Lemma closed_form_fields xs :
  let s := runs ks_init xs in
  let h := epoch_hist ks_init [] xs in
  s_total s = len xs /\
  ((length h < kw)%nat ->
     s_tree s = None /\ s_ref s = map fst h /\ s_since s = len h /\ s_ds s = DNone /\
     s_counter s = 0%Z /\ s_tsize s = 0%Z /\ s_crit s = None /\ s_tdist s = None) /\
  ((kw <= length h)%nat ->
     let t0 := fst (kbuild trunc p (firstn kw (map fst h))) in
     let test := skipn kw (map fst h) in
     s_tree s = Some (fold_left fillstep1 test t0) /\ s_ref s = [] /\
     s_tsize s = len test /\ s_since s = len test /\
     s_crit s = Some (critical_value rint (k_alpha p) (snd (nth (kw - 1) h dflt_sx))) /\
     s_bootq s = Some (lcounts 0 t0, k_w p) /\
     s_oof s = snd (kbuild trunc p (firstn kw (map fst h))) /\
     s_tdist s = last (ep_evald h) None).
Proof.
  cbv zeta. rewrite closed_form. set (h := epoch_hist ks_init [] xs).
  split; [apply spec_total|]. unfold spec_stream. split; intros H.
  - destruct (Nat.ltb_spec (length h) kw) as [_|?]; [|klia]. cbn. repeat split.
  - destruct (Nat.ltb_spec (length h) kw) as [?|_]; [klia|]. cbn.
    unfold ep_trees. rewrite last_scanl. repeat split.
Qed.

(** the epoch is a suffix of the inputs: everything (there was no drift), or what came after the
    last update that reported a drift *)
Lemma epoch_hist_suffix : forall xs s h,
  epoch_hist s h xs = h ++ xs \/
  exists pre, xs = pre ++ epoch_hist s h xs /\ is_drift (s_ds (runs s pre)) = true.
Proof.
  induction xs as [|x xs IH]; intros s h; simpl.
  - left. rewrite app_nil_r. reflexivity.
  - destruct (IH (upd s x) (if is_drift (s_ds s) then [x] else h ++ [x])) as [E|(pre & E & Hd)].
    + destruct (is_drift (s_ds s)) eqn:Ed.
      * right. exists []. split; [rewrite E; reflexivity | exact Ed].
      * left. rewrite E, <- app_assoc. reflexivity.
    + right. exists (x :: pre). split; [simpl; f_equal; exact E | exact Hd].
Qed.

End Stream.

(** ====================================================================== KdqTreeBatch *)
Section Batch.
Context {N : Num}.
Local Open Scope num_scope.
Notation F := (F N).
Notation tree := (tree N).
Notation point := (point N).
Variable trunc : F -> F.
Variable rint : F -> Z.
Variable kl : list F -> list F -> F.
Variable p : kdq_params N.

Notation isr := (kb_inner_set_reference trunc rint p).
Notation bupd := (kb_update trunc rint kl p).
Notation bapp := (kb_apply trunc rint kl p).
Notation brun := (kb_run trunc rint kl p).
Notation btrace := (kb_trace trunc rint kl p).
Notation bstates := (kb_states trunc rint kl p).
Notation crit_of B := (Some (critical_value rint (k_alpha p) B)).

(** ---------- fill with reset=True forgets earlier fills ---------- *)
Lemma set_count_absorb id v v' c : set_count id v (set_count id v' c) = set_count id v c.
Proof.
  induction c as [|[k w] c IH]; simpl.
  - rewrite Z.eqb_refl. reflexivity.
  - destruct (Z.eqb_spec k id) as [E|E]; simpl.
    + destruct (Z.eqb_spec k id); [reflexivity | contradiction].
    + destruct (Z.eqb_spec k id); [contradiction|]. rewrite IH. reflexivity.
Qed.

Lemma bump_reset_set id k c : bump id true k c = set_count id k c.
Proof. unfold bump. destruct (lookup id c); reflexivity. Qed.

Lemma fill_reset_absorb (t : tree) : forall (x y : list point) id,
  fill x (fill y t id true) id true = fill x t id true.
Proof.
  induction t as [| c |ax mid c l IHl r IHr]; intros x y id; simpl.
  - reflexivity.
  - rewrite !bump_reset_set, set_count_absorb. reflexivity.
  - rewrite !bump_reset_set, set_count_absorb, IHl, IHr. reflexivity.
Qed.

(** the tree is the reference tree, possibly holding the counts of the last batch *)
Definition based_on (t0 t : tree) : Prop := t = t0 \/ exists y : list point, t = fill y t0 1 true.

Lemma based_on_fill t0 t (x : list point) : based_on t0 t -> fill x t 1 true = fill x t0 1 true.
Proof. intros [->|[y ->]]; [reflexivity | apply fill_reset_absorb]. Qed.

(** counts and divergence of the reference tree filled with one batch *)
Lemma filled_batch (ref x : list point) :
  let t0 := fst (kbuild trunc p ref) in
  let t := fill x t0 1 true in
  lcounts 0 t = lcounts 0 t0 /\ lcounts 1 t = leaf_arrivals x t0 /\
  (leaves t0 <> [] ->
   divergence kl t = Some (kl (distn (lcounts 0 t0)) (distn (leaf_arrivals x t0)))).
Proof.
  intros t0 t. destruct (kbuild_ids trunc p ref) as [H0 _]. fold t0 in H0.
  assert (E0 : lcounts 0 t = lcounts 0 t0).
  { unfold lcounts, t. rewrite leaf_counts_fill_other by discriminate. reflexivity. }
  assert (E1 : lcounts 1 t = leaf_arrivals x t0) by (unfold t; rewrite lcounts_odflt; apply leaf_counts_fill_reset).
  split; [exact E0|]. split; [exact E1|]. intros Hne.
  unfold divergence. rewrite kl_distance_counts.
  - rewrite E0, E1. reflexivity.
  - apply leaves_fill_nonempty. exact Hne.
  - apply fill_has_id_other. exact H0.
  - apply fill_has_id.
Qed.

(** ---------- well-formed states: a drift state always holds the drifted batch ---------- *)
Definition kb_wf (s : kbatch N) : Prop :=
  (b_ds s = DDrift -> b_refdata s <> None) /\ b_ds s <> DWarn.

Lemma kb_init_wf : kb_wf kb_init.
Proof. split; simpl; discriminate. Qed.

Lemma isr_wf s x : kb_wf (isr s x).
Proof. split; simpl; discriminate. Qed.

Lemma wf_nodrift s : kb_wf s -> is_drift (b_ds s) = false -> b_ds s = DNone.
Proof. intros [_ H] Hd. destruct (b_ds s); [reflexivity | contradiction | discriminate]. Qed.

(** the state the body of update() starts from *)
Definition bpre (s : kbatch N) (x : bx N) : kbatch N :=
  if is_drift (b_ds s)
  then match b_refdata s with Some r => isr s (r, snd x) | None => s end
  else s.

Lemma bpre_none s x : kb_wf s -> b_ds (bpre s x) = DNone.
Proof.
  intros Hw. unfold bpre. destruct (is_drift (b_ds s)) eqn:Hd; [|apply wf_nodrift; assumption].
  destruct (b_refdata s) eqn:Er; [reflexivity|].
  destruct Hw as [H _]. destruct (b_ds s); try discriminate. exfalso. apply H; [reflexivity | exact Er].
Qed.

Lemma bupd_eq s x :
  bupd s x =
  let s0 := bpre s x in
  match b_tree s0 with
  | None => isr (mk_kb (b_total s0 + 1) (b_since s0 + 1) (b_ds s0) None (b_crit s0) (b_tdist s0)
                       (b_refdata s0) (b_oof s0) (b_bootq s0)) x
  | Some t =>
      let t' := fill (fst x) t 1 true in
      if above (b_crit s0) (divergence kl t')
      then mk_kb (b_total s0 + 1) (b_since s0 + 1) DDrift (Some t') (b_crit s0) (divergence kl t')
                 (Some (fst x)) (b_oof s0) (b_bootq s0)
      else mk_kb (b_total s0 + 1) (b_since s0 + 1) (b_ds s0) (Some t') (b_crit s0) (divergence kl t')
                 (b_refdata s0) (b_oof s0) (b_bootq s0)
  end.
Proof. reflexivity. Qed.

Lemma bupd_wf s x : kb_wf s -> kb_wf (bupd s x).
Proof.
  intros Hw. rewrite bupd_eq. cbv zeta. pose proof (bpre_none s x Hw) as Hn.
  destruct (b_tree (bpre s x)); [|apply isr_wf].
  destruct (above _ _); split; simpl; try discriminate; rewrite Hn; discriminate.
Qed.

Lemma bapp_wf s o : kb_wf s -> kb_wf (bapp s o).
Proof. intros Hw. destruct o; [apply isr_wf | apply bupd_wf; exact Hw]. Qed.

Lemma brun_wf : forall ops s, kb_wf s -> kb_wf (brun s ops).
Proof.
  induction ops as [|o ops IH]; intros s Hw; [exact Hw|]. unfold kb_run in *. simpl. apply IH. apply bapp_wf. exact Hw.
Qed.

(** ---------- counters ---------- *)
Lemma bpre_total s x : b_total (bpre s x) = b_total s.
Proof. unfold bpre. destruct (is_drift (b_ds s)); [destruct (b_refdata s)|]; reflexivity. Qed.

Lemma bupd_total s x : b_total (bupd s x) = (b_total s + 1)%Z.
Proof.
  rewrite bupd_eq. cbv zeta. rewrite <- (bpre_total s x).
  destruct (b_tree (bpre s x)); [destruct (above _ _)|]; reflexivity.
Qed.

Lemma isr_total s x : b_total (isr s x) = b_total s.
Proof. reflexivity. Qed.

Definition nupdates (ops : list (bop N)) : Z :=
  len (filter (fun o => match o with BUpdate _ => true | BSetRef _ => false end) ops).

Lemma brun_total : forall ops s, b_total (brun s ops) = (b_total s + nupdates ops)%Z.
Proof.
  induction ops as [|o ops IH]; intros s; unfold nupdates, len in *; simpl; [lia|].
  unfold kb_run in *. simpl. rewrite IH. destruct o; simpl; [lia|]. rewrite bupd_total. lia.
Qed.

(** batches_since_reset: 0 after set_reference and after the first update of a detector without
    reference (the reset inside _inner_set_reference comes after the increment); 1 after the
    update that follows a drift; + 1 otherwise *)
Lemma bupd_since s x : kb_wf s ->
  b_since (bupd s x) =
  if is_drift (b_ds s) then 1%Z
  else match b_tree s with None => 0%Z | Some _ => (b_since s + 1)%Z end.
Proof.
  intros Hw. rewrite bupd_eq. cbv zeta. unfold bpre.
  destruct (is_drift (b_ds s)) eqn:Hd.
  - destruct (b_refdata s) eqn:Er.
    + cbn [b_tree kb_inner_set_reference b_since b_crit]. destruct (above _ _); reflexivity.
    + destruct Hw as [H _]. destruct (b_ds s); try discriminate. exfalso. apply H; [reflexivity | exact Er].
  - destruct (b_tree s); [destruct (above _ _)|]; reflexivity.
Qed.

Lemma brun_since_bounds : forall ops s, kb_wf s -> (0 <= b_since s <= b_total s)%Z ->
  (0 <= b_since (brun s ops) <= b_total (brun s ops))%Z.
Proof.
  induction ops as [|o ops IH]; intros s Hw Hb; [exact Hb|]. unfold kb_run in *. simpl.
  apply IH; [apply bapp_wf; exact Hw|]. destruct o as [x|x].
  - simpl. lia.
  - cbn [kb_apply]. rewrite (bupd_since s x Hw), bupd_total.
    destruct (is_drift (b_ds s)); [lia|]. destruct (b_tree s); lia.
Qed.

(** ---------- which reference is in force ---------- *)
Definition next_ref (s : kbatch N) (cur : option (list point * list F)) (o : bop N)
  : option (list point * list F) :=
  match o with
  | BSetRef x => Some x
  | BUpdate x =>
      if is_drift (b_ds s)
      then match b_refdata s with Some r => Some (r, snd x) | None => cur end
      else match cur with None => Some x | Some c => Some c end
  end.

Fixpoint cur_ref (s : kbatch N) (cur : option (list point * list F)) (ops : list (bop N))
  : option (list point * list F) :=
  match ops with
  | [] => cur
  | o :: t => cur_ref (bapp s o) (next_ref s cur o) t
  end.

Definition binv (s : kbatch N) (cur : option (list point * list F)) : Prop :=
  kb_wf s /\
  match cur with
  | None => b_tree s = None /\ b_ds s = DNone
  | Some (R, B) =>
      let b := kbuild trunc p R in
      exists t, b_tree s = Some t /\ based_on (fst b) t /\ b_crit s = crit_of B /\
                b_oof s = snd b /\ b_bootq s = Some (lcounts 0 (fst b), zsum (lcounts 0 (fst b)))
  end.

Lemma binv_init : binv kb_init None.
Proof. split; [apply kb_init_wf | split; reflexivity]. Qed.

Lemma binv_isr s x : binv (isr s x) (Some x).
Proof.
  split; [apply isr_wf|]. destruct x as [R B]. cbv zeta. eexists. split; [reflexivity|].
  split; [left; reflexivity|]. repeat split.
Qed.

Lemma binv_step s cur o : binv s cur -> binv (bapp s o) (next_ref s cur o).
Proof.
  intros [Hw Hc]. destruct o as [x|x]; [apply binv_isr|].
  cbn [kb_apply next_ref]. split; [apply bupd_wf; exact Hw|].
  rewrite bupd_eq. cbv zeta. unfold bpre.
  destruct (is_drift (b_ds s)) eqn:Hd.
  - (* after a drift: the drifted batch is adopted *)
    destruct (b_refdata s) as [r|] eqn:Er.
    + cbn [b_tree kb_inner_set_reference b_crit b_total b_since b_ds b_tdist b_refdata b_oof b_bootq].
      destruct (above _ _); eexists; (split; [reflexivity|]); (split; [right; eexists; reflexivity|]); repeat split.
    + destruct Hw as [H _]. destruct (b_ds s); try discriminate. exfalso. apply H; [reflexivity | exact Er].
  - destruct cur as [[R B]|].
    + destruct Hc as (t & Ht & Hb & Hcr & Ho & Hq). rewrite Ht.
      cbv zeta. rewrite (based_on_fill _ _ (fst x) Hb).
      destruct (above _ _); eexists; (split; [reflexivity|]); (split; [right; eexists; reflexivity|]);
        cbn [b_crit b_oof b_bootq]; repeat split; assumption.
    + destruct Hc as [Ht _]. rewrite Ht. destruct (binv_isr
        (mk_kb (b_total s + 1) (b_since s + 1) (b_ds s) None (b_crit s) (b_tdist s) (b_refdata s) (b_oof s) (b_bootq s)) x)
        as [_ H]. exact H.
Qed.

(** every reachable state holds the tree of the reference in force (possibly with the counts of the
    last batch), and the bound computed from the bootstrap list drawn when that reference was built *)
Lemma binv_run : forall ops s cur, binv s cur -> binv (brun s ops) (cur_ref s cur ops).
Proof.
  induction ops as [|o ops IH]; intros s cur H; [exact H|]. unfold kb_run in *. simpl.
  apply IH. apply binv_step. exact H.
Qed.

(** ---------- the decision ---------- *)
Lemma bupd_decide s R B x : binv s (Some (R, B)) -> b_ds s <> DDrift ->
  let t0 := fst (kbuild trunc p R) in
  let d := divergence kl (fill (fst x) t0 1 true) in
  let s' := bupd s x in
  b_tree s' = Some (fill (fst x) t0 1 true) /\ b_tdist s' = d /\ b_crit s' = crit_of B /\
  (b_ds s' = DDrift <-> above (crit_of B) d = true) /\
  (b_ds s' = DDrift -> b_refdata s' = Some (fst x)) /\
  b_total s' = (b_total s + 1)%Z /\ b_since s' = (b_since s + 1)%Z.
Proof.
  intros [Hw (t & Ht & Hb & Hcr & _)] Hnd t0 d s'.
  assert (Hd : is_drift (b_ds s) = false) by (destruct (b_ds s); try reflexivity; congruence).
  unfold s'. rewrite bupd_eq. cbv zeta. unfold bpre. rewrite Hd, Ht, Hcr.
  rewrite (based_on_fill _ _ (fst x) Hb). fold t0. fold d.
  pose proof (wf_nodrift s Hw Hd) as Hn.
  destruct (above (crit_of B) d) eqn:Ea; cbn [b_tree b_tdist b_crit b_ds b_refdata b_total b_since];
    repeat split; try reflexivity; try congruence; try (rewrite Hn; discriminate); intros; discriminate.
Qed.

(** ... in terms of leaf counts *)
Lemma bupd_decide_counts s R B x : binv s (Some (R, B)) -> b_ds s <> DDrift ->
  let t0 := fst (kbuild trunc p R) in
  leaves t0 <> [] ->
  let d := kl (distn (lcounts 0 t0)) (distn (leaf_arrivals (fst x) t0)) in
  let s' := bupd s x in
  b_tdist s' = Some d /\
  (b_ds s' = DDrift <-> fltb (critical_value rint (k_alpha p) B) d = true).
Proof.
  intros Hi Hnd t0 Hne d s'.
  destruct (bupd_decide s R B x Hi Hnd) as (_ & Htd & _ & Hds & _).
  destruct (filled_batch R (fst x)) as (_ & _ & Hdiv). specialize (Hdiv Hne).
  cbv zeta in *. unfold s', d, t0. rewrite Htd, Hds, Hdiv. split; reflexivity.
Qed.

(** the update after a drift: the drifted batch becomes the reference, counters restart, and the new
    batch is judged against it *)
Lemma bupd_after_drift s r x : kb_wf s -> b_ds s = DDrift -> b_refdata s = Some r ->
  bupd s x = bupd (isr s (r, snd x)) x.
Proof.
  intros Hw Hd Er. rewrite !bupd_eq. cbv zeta. unfold bpre. rewrite Hd, Er. reflexivity.
Qed.

(** ---------- clean slate: lock-step with a twin that has seen [k] fewer batches ---------- *)
Definition btwin (k : Z) (a b : kbatch N) : Prop :=
  b_total a = (b_total b + k)%Z /\ b_since a = b_since b /\ b_ds a = b_ds b /\ b_tree a = b_tree b /\
  b_crit a = b_crit b /\ b_tdist a = b_tdist b /\ b_oof a = b_oof b /\ b_bootq a = b_bootq b /\
  (b_ds b = DDrift -> b_refdata a = b_refdata b).

Lemma btwin_isr k a b x : b_total a = (b_total b + k)%Z -> btwin k (isr a x) (isr b x).
Proof. intros H. unfold btwin. simpl. repeat split; try assumption; discriminate. Qed.

Lemma btwin_step k a b o : btwin k a b -> btwin k (bapp a o) (bapp b o).
Proof.
  intros (Ht & Hs & Hd & Htr & Hc & Htd & Ho & Hq & Hr). destruct o as [x|x]; [apply btwin_isr; exact Ht|].
  cbn [kb_apply]. rewrite !bupd_eq. cbv zeta. unfold bpre. rewrite Hd.
  destruct (is_drift (b_ds b)) eqn:Edb.
  - assert (Hdb : b_ds b = DDrift) by (destruct (b_ds b); simpl in Edb; congruence).
    rewrite (Hr Hdb). destruct (b_refdata b) as [r|] eqn:Erb.
    + cbn [b_tree kb_inner_set_reference b_crit b_total b_since b_ds b_tdist b_refdata b_oof b_bootq].
      destruct (above _ _); unfold btwin; simpl; repeat split; try lia; try discriminate; try reflexivity.
    + rewrite Htr. destruct (b_tree b).
      * rewrite Hc. destruct (above _ _); unfold btwin; simpl; repeat split; try lia; try assumption; try reflexivity.
        rewrite Erb. exact Hr.
      * apply btwin_isr. simpl. lia.
  - rewrite Htr. destruct (b_tree b).
    + rewrite Hc. destruct (above _ _); unfold btwin; simpl; repeat split; try lia; try assumption; try reflexivity.
    + apply btwin_isr. simpl. lia.
Qed.

Lemma btwin_observe k a b : btwin k a b -> kb_observe a = shift_obs k (kb_observe b).
Proof.
  intros (Ht & Hs & Hd & _). unfold kb_observe, shift_obs. simpl. rewrite Ht, Hs, Hd. reflexivity.
Qed.

Lemma btwin_trace k : forall ops a b, btwin k a b -> btrace a ops = map (shift_obs k) (btrace b ops).
Proof.
  induction ops as [|o ops IH]; intros a b H; simpl; [reflexivity|].
  pose proof (btwin_step k a b o H) as H'. rewrite (btwin_observe k _ _ H'). f_equal. apply IH. exact H'.
Qed.

(** the divergence, bound and tree of the twin agree as well *)
Lemma btwin_states k : forall ops a b, btwin k a b -> Forall2 (btwin k) (bstates a ops) (bstates b ops).
Proof.
  induction ops as [|o ops IH]; intros a b H; simpl; [constructor|].
  pose proof (btwin_step k a b o H) as H'. constructor; [exact H' | apply IH; exact H'].
Qed.

(** after set_reference (explicit, on any state) the future is that of a new detector given the same
    reference *)
Lemma clean_slate_set_reference s x ops :
  btrace (isr s x) ops = map (shift_obs (b_total s)) (btrace (isr kb_init x) ops).
Proof. apply btwin_trace. apply btwin_isr. simpl. lia. Qed.

(** after a drift the future is that of a new detector whose reference is the drifted batch *)
Lemma clean_slate_batch s r x ops : kb_wf s -> b_ds s = DDrift -> b_refdata s = Some r ->
  btrace s (BUpdate x :: ops) =
  map (shift_obs (b_total s)) (btrace (isr kb_init (r, snd x)) (BUpdate x :: ops)).
Proof.
  intros Hw Hd Er. rewrite <- clean_slate_set_reference. simpl.
  rewrite (bupd_after_drift s r x Hw Hd Er). reflexivity.
Qed.

(** a reported drift always leaves the drifted batch in ref_data *)
Lemma bupd_drift_refdata s x : kb_wf s -> b_ds (bupd s x) = DDrift -> b_refdata (bupd s x) = Some (fst x).
Proof.
  intros Hw. rewrite bupd_eq. cbv zeta. pose proof (bpre_none s x Hw) as Hn.
  destruct (b_tree (bpre s x)); [|simpl; discriminate].
  destruct (above _ _); simpl; [reflexivity | rewrite Hn; discriminate].
Qed.

(** the update that follows a drift, spelled out *)
Lemma bupd_after_drift_state s r x : kb_wf s -> b_ds s = DDrift -> b_refdata s = Some r ->
  let t0 := fst (kbuild trunc p r) in
  let d := divergence kl (fill (fst x) t0 1 true) in
  let s' := bupd s x in
  b_tree s' = Some (fill (fst x) t0 1 true) /\ b_tdist s' = d /\ b_crit s' = crit_of (snd x) /\
  (b_ds s' = DDrift <-> above (crit_of (snd x)) d = true) /\
  b_total s' = (b_total s + 1)%Z /\ b_since s' = 1%Z.
Proof.
  intros Hw Hd Er. cbv zeta. rewrite (bupd_after_drift s r x Hw Hd Er).
  destruct (bupd_decide (isr s (r, snd x)) r (snd x) x (binv_isr s (r, snd x)) ltac:(simpl; discriminate))
    as (A & B & C & D & _ & E & G).
  repeat split; try assumption; apply D.
Qed.

End Batch.
