(** Lemmas about KdqDet.v (kdq-tree detectors): the nearest-rank quantile, the streaming machine
    (closed form of every reachable state as a function of the current epoch's inputs, counter =
    run length, clean slate, lifecycle) and the batch machine (decision, adoption of the drifted
    batch, clean slate, counters).  The oracles [trunc], [rint], [kl] and the bootstrap lists are
    universally quantified throughout. *)
From MV Require Import Base Num Lifecycle KdqTree KdqTree_Proofs KdqDet.
From Coq Require Import ZifyBool Permutation Sorted.

Section Quantile.
Context {N : Num}.
Local Open Scope num_scope.
Notation F := (F N).
Variable rint : F -> Z.
Variable L : OrdLaws N.

Definition fle (a b : F) : Prop := fleb a b = true.

Lemma fle_refl (a : F) : fle a a.
Proof. apply (leb_refl N L). Qed.
Lemma fle_trans (a b c : F) : fle a b -> fle b c -> fle a c.
Proof. apply (leb_trans N L). Qed.
Lemma fle_total (a b : F) : fle a b \/ fle b a.
Proof. apply (leb_total N L). Qed.
Lemma flt_iff (a b : F) : fltb a b = true <-> fleb b a = false.
Proof. rewrite (ltb_leb N L). destruct (fleb b a); simpl; split; congruence. Qed.
Lemma nle_le (a b : F) : fleb a b = false -> fle b a.
Proof. intros H. destruct (fle_total a b) as [H1|H1]; [unfold fle in H1; congruence | exact H1]. Qed.

(** ---------- insertion sort: a sorted permutation ---------- *)
Lemma insert_perm (x : F) (l : list F) : Permutation (insert x l) (x :: l).
Proof.
  induction l as [|y t IH]; simpl; [apply Permutation_refl|].
  destruct (fleb x y); [apply Permutation_refl|].
  eapply Permutation_trans; [apply perm_skip; exact IH | apply perm_swap].
Qed.

Lemma fsort_perm (l : list F) : Permutation (fsort l) l.
Proof.
  induction l as [|x t IH]; simpl; [constructor|].
  eapply Permutation_trans; [apply insert_perm | apply perm_skip; exact IH].
Qed.

Lemma fsort_length (l : list F) : length (fsort l) = length l.
Proof. apply Permutation_length, fsort_perm. Qed.

Lemma insert_sorted (x : F) (l : list F) : StronglySorted fle l -> StronglySorted fle (insert x l).
Proof.
  induction 1 as [|y t Hs IH Hall]; simpl; [repeat constructor|].
  destruct (fleb x y) eqn:E.
  - constructor; [constructor; assumption|].
    constructor; [exact E|]. eapply Forall_impl; [|exact Hall]. intros z Hz. eapply fle_trans; eassumption.
  - constructor; [exact IH|].
    eapply Permutation_Forall; [apply Permutation_sym, insert_perm|].
    constructor; [apply nle_le; exact E | exact Hall].
Qed.

Lemma fsort_sorted (l : list F) : StronglySorted fle (fsort l).
Proof. induction l as [|x t IH]; simpl; [constructor | apply insert_sorted; exact IH]. Qed.

(** in a sorted list the element at a smaller index is smaller *)
Lemma sorted_nth_mono (s : list F) (d : F) : StronglySorted fle s ->
  forall i j, (i <= j)%nat -> (j < length s)%nat -> fle (nth i s d) (nth j s d).
Proof.
  induction 1 as [|a t Hs IH Hall]; intros i j Hij Hj; simpl in Hj; [lia|].
  destruct i as [|i], j as [|j]; simpl; try lia.
  - apply fle_refl.
  - rewrite Forall_forall in Hall. apply Hall. apply nth_In. lia.
  - apply IH; lia.
Qed.

(** ---------- ranks ---------- *)
Lemma count_perm (f : F -> bool) (l l' : list F) : Permutation l l' -> len (filter f l) = len (filter f l').
Proof.
  unfold len. induction 1; simpl; try reflexivity.
  - destruct (f x); simpl; lia.
  - destruct (f x), (f y); simpl; lia.
  - lia.
Qed.

Lemma count_mono (f g : F -> bool) (l : list F) : (forall x, f x = true -> g x = true) ->
  (len (filter f l) <= len (filter g l))%Z.
Proof.
  intros H. unfold len. apply inj_le. induction l as [|x t IH]; simpl; [lia|].
  destruct (f x) eqn:Ef; [rewrite (H x Ef); simpl; lia|]. destruct (g x); simpl; lia.
Qed.

Lemma count_lt_zero (a : F) (t : list F) : Forall (fle a) t -> count_lt t a = 0%Z.
Proof.
  unfold count_lt, len. induction 1 as [|x t Hx Ht IH]; simpl; [reflexivity|].
  assert (E : fltb x a = false).
  { destruct (fltb x a) eqn:E; [|reflexivity]. apply flt_iff in E. unfold fle in Hx. congruence. }
  rewrite E. exact IH.
Qed.

Lemma count_lt_cons (x : F) (t : list F) (v : F) : count_lt (x :: t) v = ((if fltb x v then 1 else 0) + count_lt t v)%Z.
Proof. unfold count_lt, len. cbn [filter]. destruct (fltb x v); cbn [length]; lia. Qed.
Lemma count_le_cons (x : F) (t : list F) (v : F) : count_le (x :: t) v = ((if fleb x v then 1 else 0) + count_le t v)%Z.
Proof. unfold count_le, len. cbn [filter]. destruct (fleb x v); cbn [length]; lia. Qed.
Lemma count_lt_nonneg (l : list F) (v : F) : (0 <= count_lt l v)%Z.
Proof. unfold count_lt, len. lia. Qed.
Lemma count_le_nonneg (l : list F) (v : F) : (0 <= count_le l v)%Z.
Proof. unfold count_le, len. lia. Qed.

Lemma sorted_rank_lt (s : list F) (d : F) : StronglySorted fle s -> forall k, (k < length s)%nat ->
  (count_lt s (nth k s d) <= Z.of_nat k)%Z.
Proof.
  induction 1 as [|a t Hs IH Hall]; intros k Hk; simpl in Hk; [lia|].
  destruct k as [|k]; simpl nth.
  - rewrite count_lt_cons. rewrite (count_lt_zero a t Hall).
    assert (E : fltb a a = false).
    { destruct (fltb a a) eqn:E; [|reflexivity]. apply flt_iff in E. rewrite (fle_refl a) in E. discriminate. }
    rewrite E. lia.
  - rewrite count_lt_cons. specialize (IH k ltac:(lia)). destruct (fltb a (nth k t d)); lia.
Qed.

Lemma sorted_rank_le (s : list F) (d : F) : StronglySorted fle s -> forall k, (k < length s)%nat ->
  (Z.of_nat k < count_le s (nth k s d))%Z.
Proof.
  induction 1 as [|a t Hs IH Hall]; intros k Hk; simpl in Hk; [lia|].
  destruct k as [|k]; simpl nth.
  - rewrite count_le_cons, (fle_refl a). pose proof (count_le_nonneg t a). lia.
  - rewrite count_le_cons. specialize (IH k ltac:(lia)).
    assert (E : fleb a (nth k t d) = true).
    { rewrite Forall_forall in Hall. apply Hall. apply nth_In. lia. }
    rewrite E. lia.
Qed.

(** the virtual index is a valid position *)
Definition rank_ok (l : list F) (q : F) : Prop := (0 <= qrank rint (len l) q < len l)%Z.

Lemma rank_nat (l : list F) (q : F) : rank_ok l q -> (Z.to_nat (qrank rint (len l) q) < length (fsort l))%nat.
Proof. unfold rank_ok, len. rewrite fsort_length. lia. Qed.

(** [quantile_nearest] returns an element of the list whose rank is the virtual index *)
Lemma quantile_nearest_spec (l : list F) (q : F) : rank_ok l q ->
  let k := qrank rint (len l) q in
  let v := quantile_nearest rint l q in
  In v l /\ (count_lt l v <= k)%Z /\ (k < count_le l v)%Z.
Proof.
  intros Hr k v. pose proof (rank_nat l q Hr) as Hn.
  assert (Hk : k = Z.of_nat (Z.to_nat k)) by (unfold rank_ok in Hr; unfold k; lia).
  unfold v, quantile_nearest. fold k. repeat split.
  - eapply Permutation_in; [apply fsort_perm | apply nth_In; exact Hn].
  - unfold count_lt. rewrite <- (count_perm _ _ _ (fsort_perm l)).
    pose proof (sorted_rank_lt (fsort l) f0 (fsort_sorted l) _ Hn) as P. unfold count_lt in P. unfold k in *. lia.
  - unfold count_le. rewrite <- (count_perm _ _ _ (fsort_perm l)).
    pose proof (sorted_rank_le (fsort l) f0 (fsort_sorted l) _ Hn) as P. unfold count_le in P. unfold k in *. lia.
Qed.

(** the checker accepts the model's own value ... *)
Lemma quantile_nearest_ok (l : list F) (q : F) : rank_ok l q -> quantile_ok rint l q (quantile_nearest rint l q) = true.
Proof.
  intros Hr. destruct (quantile_nearest_spec l q Hr) as (Hin & Hlt & Hle).
  unfold quantile_ok. unfold rank_ok in Hr.
  repeat (apply andb_true_iff; split); try lia.
  apply existsb_exists. exists (quantile_nearest rint l q). split; [exact Hin|].
  rewrite (fle_refl _). reflexivity.
Qed.

(** ... and whatever it accepts is order-equivalent to the model's value (the same number) and has
    the stated rank *)
Lemma quantile_ok_sound (l : list F) (q v : F) : quantile_ok rint l q v = true ->
  let k := qrank rint (len l) q in
  rank_ok l q /\ (exists x, In x l /\ fle x v /\ fle v x) /\
  (count_lt l v <= k)%Z /\ (k < count_le l v)%Z /\
  fle v (quantile_nearest rint l q) /\ fle (quantile_nearest rint l q) v.
Proof.
  intros H k. unfold quantile_ok in H. fold k in H.
  repeat (apply andb_true_iff in H; destruct H as [H ?]).
  assert (Hr : rank_ok l q) by (unfold rank_ok; fold k; lia).
  destruct (quantile_nearest_spec l q Hr) as (Hin & Hlt & Hle). fold k in Hlt, Hle.
  set (u := quantile_nearest rint l q) in *.
  split; [exact Hr|]. split.
  { apply existsb_exists in H2. destruct H2 as (x & Hx & Hb). apply andb_true_iff in Hb. exists x. tauto. }
  split; [lia|]. split; [lia|]. split.
  - (* v <= u, otherwise everything <= u lies strictly below v *)
    destruct (fleb v u) eqn:E; [exact E|]. exfalso.
    assert (Hm : (count_le l u <= count_lt l v)%Z).
    { apply count_mono. intros x Hx. apply flt_iff.
      destruct (fleb v x) eqn:E2; [|reflexivity]. rewrite (fle_trans v x u E2 Hx) in E. discriminate. }
    lia.
  - destruct (fleb u v) eqn:E; [exact E|]. exfalso.
    assert (Hm : (count_le l v <= count_lt l u)%Z).
    { apply count_mono. intros x Hx. apply flt_iff.
      destruct (fleb u x) eqn:E2; [|reflexivity]. rewrite (fle_trans u x v E2 Hx) in E. discriminate. }
    lia.
Qed.

(** a larger rank gives a larger (or equal) value *)
Lemma quantile_rank_mono (l : list F) (q1 q2 : F) :
  (0 <= qrank rint (len l) q1 <= qrank rint (len l) q2)%Z -> (qrank rint (len l) q2 < len l)%Z ->
  fle (quantile_nearest rint l q1) (quantile_nearest rint l q2).
Proof.
  intros H1 H2. unfold quantile_nearest.
  apply sorted_nth_mono; [apply fsort_sorted | lia |]. rewrite fsort_length. unfold len in *. lia.
Qed.

(** monotone in alpha: a smaller alpha never gives a smaller critical value, provided its virtual
    index is at least as large (next lemma: true whenever the arithmetic is monotone) *)
Lemma critical_value_antitone (l : list F) (a1 a2 : F) :
  (0 <= qrank rint (len l) (qlevel a2) <= qrank rint (len l) (qlevel a1))%Z ->
  (qrank rint (len l) (qlevel a1) < len l)%Z ->
  fle (critical_value rint a2 l) (critical_value rint a1 l).
Proof. intros H1 H2. unfold critical_value. apply quantile_rank_mono; assumption. Qed.

(** the virtual index is antitone in alpha under monotone arithmetic: [1 - .] reverses the order,
    multiplication by a non-negative number and [rint] preserve it *)
Section RankLaws.
Hypothesis sub_anti : forall a b : F, fle a b -> fle (f1 - b) (f1 - a).
Hypothesis mul_mono : forall c a b : F, fle f0 c -> fle a b -> fle (c * a) (c * b).
Hypothesis ofZ_nonneg : forall z : Z, (0 <= z)%Z -> fle f0 (fofZ z).
Hypothesis rint_mono : forall a b : F, fle a b -> (rint a <= rint b)%Z.

Lemma qrank_antitone (n : Z) (a1 a2 : F) : (1 <= n)%Z -> fle a1 a2 ->
  (qrank rint n (qlevel a2) <= qrank rint n (qlevel a1))%Z.
Proof.
  intros Hn H. unfold qrank, qlevel. apply rint_mono. apply mul_mono; [apply ofZ_nonneg; lia|].
  apply sub_anti. exact H.
Qed.

Lemma critical_value_antitone_laws (l : list F) (a1 a2 : F) : l <> [] -> fle a1 a2 ->
  (0 <= qrank rint (len l) (qlevel a2))%Z -> (qrank rint (len l) (qlevel a1) < len l)%Z ->
  fle (critical_value rint a2 l) (critical_value rint a1 l).
Proof.
  intros Hl H H0 H1. apply critical_value_antitone; [|exact H1]. split; [exact H0|].
  apply qrank_antitone; [|exact H]. destruct l; [congruence|]. unfold len. simpl length. lia.
Qed.
End RankLaws.

End Quantile.
