(** C17 / LFR: the hypothesis of the monotonicity theorem, as a boolean evaluated on the oracle rows logged
    from the two runs of the implementation (same labels, same seed schedule, two detect levels), and its
    soundness: when the check returns true the logged inputs satisfy [Forall2 lfr_xrel]. *)
From MV Require Import Base Num NumLaws NumFloat Lifecycle Lfr Lfr_Mono Corr_C06.
From Coq Require Import PrimFloat FloatAxioms.

Definition feq (a b : float) : bool := PrimFloat.Leibniz.eqb a b.
Lemma feq_true a b : feq a b = true -> a = b.
Proof. apply FloatAxioms.Leibniz.eqb_spec. Qed.

Definition brel_b (b1 b2 : @bounds NumFloat) : bool :=
  feq (lb_warn b1) (lb_warn b2) && feq (ub_warn b1) (ub_warn b2) &&
  PrimFloat.leb (lb_detect b2) (lb_detect b1) && PrimFloat.leb (ub_detect b1) (ub_detect b2).

Definition orel_b (o1 o2 : @oracle_row NumFloat) : bool :=
  let '(e1, d1, k1, s1) := o1 in let '(e2, d2, k2, s2) := o2 in
  feq e1 e2 && (d1 =? d2)%Z && feq k1 k2 &&
  match s1, s2 with
  | Some b1, Some b2 => brel_b b1 b2
  | None, None => true
  | _, _ => false
  end.

Fixpoint forall2b {A B} (f : A -> B -> bool) (l1 : list A) (l2 : list B) : bool :=
  match l1, l2 with
  | [], [] => true
  | a :: t1, b :: t2 => f a b && forall2b f t1 t2
  | _, _ => false
  end.

Lemma forall2b_sound {A B} (f : A -> B -> bool) (R : A -> B -> Prop) :
  (forall a b, f a b = true -> R a b) -> forall l1 l2, forall2b f l1 l2 = true -> Forall2 R l1 l2.
Proof.
  intros Hf. induction l1 as [|a t1 IH]; intros [|b t2] H; simpl in H; try discriminate; [constructor|].
  apply andb_true_iff in H. destruct H as [H1 H2]. constructor; [exact (Hf _ _ H1) | exact (IH _ H2)].
Qed.

Definition xrel_b (x1 x2 : @lfr_input NumFloat) : bool :=
  let '(yt1, yp1, o1) := x1 in let '(yt2, yp2, o2) := x2 in
  Bool.eqb yt1 yt2 && Bool.eqb yp1 yp2 && forall2b orel_b o1 o2.

Definition lfr_related_b (xs1 xs2 : list (@lfr_input NumFloat)) : bool := forall2b xrel_b xs1 xs2.

Lemma brel_b_sound b1 b2 : brel_b b1 b2 = true -> brel b1 b2.
Proof.
  unfold brel_b, brel. intros H. repeat (apply andb_true_iff in H; destruct H as [H ?]).
  repeat split; try (apply feq_true; assumption); assumption.
Qed.

Lemma orel_b_sound o1 o2 : orel_b o1 o2 = true -> orel o1 o2.
Proof.
  destruct o1 as [[[e1 d1] k1] s1], o2 as [[[e2 d2] k2] s2]. unfold orel_b, orel. simpl. intros H.
  apply andb_true_iff in H. destruct H as [H Hs]. apply andb_true_iff in H. destruct H as [H Hk].
  apply andb_true_iff in H. destruct H as [He Hd].
  split; [apply feq_true; exact He|]. split; [apply Z.eqb_eq; exact Hd|]. split; [apply feq_true; exact Hk|].
  destruct s1, s2; try discriminate; [apply brel_b_sound; exact Hs | exact I].
Qed.

Lemma xrel_b_sound x1 x2 : xrel_b x1 x2 = true -> lfr_xrel x1 x2.
Proof.
  destruct x1 as [[yt1 yp1] o1], x2 as [[yt2 yp2] o2]. unfold xrel_b, lfr_xrel. simpl. intros H.
  apply andb_true_iff in H. destruct H as [H Ho]. apply andb_true_iff in H. destruct H as [H1 H2].
  split; [apply Bool.eqb_prop; exact H1|]. split; [apply Bool.eqb_prop; exact H2|].
  exact (forall2b_sound orel_b orel orel_b_sound _ _ Ho).
Qed.

Theorem lfr_related_b_sound xs1 xs2 : lfr_related_b xs1 xs2 = true -> Forall2 lfr_xrel xs1 xs2.
Proof. exact (forall2b_sound xrel_b lfr_xrel xrel_b_sound xs1 xs2). Qed.

(** what the harness evaluates on the logged inputs of the two runs, cut after the looser run's first drift
    ([mkb] of Corr_C06 builds the bounds records) *)
Definition chk_lfr_pair (xs1 xs2 : list (@lfr_input NumFloat)) : bool := lfr_related_b xs1 xs2.

(** ---- the same for a pair of warning levels (run 1 = looser warning), over the whole run ---- *)
Definition wbrel_b (b1 b2 : @bounds NumFloat) : bool :=
  feq (lb_detect b1) (lb_detect b2) && feq (ub_detect b1) (ub_detect b2) &&
  PrimFloat.leb (lb_warn b2) (lb_warn b1) && PrimFloat.leb (ub_warn b1) (ub_warn b2).
Definition worel_b (o1 o2 : @oracle_row NumFloat) : bool :=
  let '(e1, d1, k1, s1) := o1 in let '(e2, d2, k2, s2) := o2 in
  feq e1 e2 && (d1 =? d2)%Z && feq k1 k2 &&
  match s1, s2 with
  | Some b1, Some b2 => wbrel_b b1 b2
  | None, None => true
  | _, _ => false
  end.
Definition wxrel_b (x1 x2 : @lfr_input NumFloat) : bool :=
  let '(yt1, yp1, o1) := x1 in let '(yt2, yp2, o2) := x2 in
  Bool.eqb yt1 yt2 && Bool.eqb yp1 yp2 && forall2b worel_b o1 o2.
Definition chk_lfr_wpair (xs1 xs2 : list (@lfr_input NumFloat)) : bool := forall2b wxrel_b xs1 xs2.

Lemma wbrel_b_sound b1 b2 : wbrel_b b1 b2 = true -> wbrel b1 b2.
Proof.
  unfold wbrel_b, wbrel. intros H. repeat (apply andb_true_iff in H; destruct H as [H ?]).
  repeat split; try (apply feq_true; assumption); assumption.
Qed.
Lemma worel_b_sound o1 o2 : worel_b o1 o2 = true -> worel o1 o2.
Proof.
  destruct o1 as [[[e1 d1] k1] s1], o2 as [[[e2 d2] k2] s2]. unfold worel_b, worel. simpl. intros H.
  apply andb_true_iff in H. destruct H as [H Hs]. apply andb_true_iff in H. destruct H as [H Hk].
  apply andb_true_iff in H. destruct H as [He Hd].
  split; [apply feq_true; exact He|]. split; [apply Z.eqb_eq; exact Hd|]. split; [apply feq_true; exact Hk|].
  destruct s1, s2; try discriminate; [apply wbrel_b_sound; exact Hs | exact I].
Qed.
Lemma wxrel_b_sound x1 x2 : wxrel_b x1 x2 = true -> lfr_wxrel x1 x2.
Proof.
  destruct x1 as [[yt1 yp1] o1], x2 as [[yt2 yp2] o2]. unfold wxrel_b, lfr_wxrel. simpl. intros H.
  apply andb_true_iff in H. destruct H as [H Ho]. apply andb_true_iff in H. destruct H as [H1 H2].
  split; [apply Bool.eqb_prop; exact H1|]. split; [apply Bool.eqb_prop; exact H2|].
  exact (forall2b_sound worel_b worel worel_b_sound _ _ Ho).
Qed.
Theorem chk_lfr_wpair_sound xs1 xs2 : chk_lfr_wpair xs1 xs2 = true -> Forall2 lfr_wxrel xs1 xs2.
Proof. exact (forall2b_sound wxrel_b lfr_wxrel wxrel_b_sound xs1 xs2). Qed.
