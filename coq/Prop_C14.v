(** C14 — uniform input validation; rejected inputs do no harm; containers don't matter.
    Statements only (model: Validate.v, proofs: Validate_Proofs.v).  All theorems are structural:
    case analysis on the container and induction over call histories; no axioms.

    Vocabulary (Validate_Proofs.v):
      wf st            stored names imply that the stored width is their number (an invariant of
                       every run, C14_wf_invariant; true of a new detector)
      width_ok st w    no width stored, or w is the stored width
      names_ok st x    x is not a DataFrame, or no names stored, or x carries exactly the stored names
      names_compat y x y and x are not DataFrames with different column names
      batch_gap st x   x is a DataFrame, no names are stored, a width different from x's is stored
    The unchanged tree refuted C14_*_reject_no_change (S9, S10) and the streaming width rule (S12);
    those were repaired in /repo.  S12 for BatchDetector is NOT repaired (a test of the suite
    requires the acceptance): the batch statements are the `_partial` ones and
    C14_batch_width_after_array_refuted is the witness. *)
From MV Require Import Base Validate Validate_Proofs.

(** ---- accepts_iff, streaming ---------------------------------------------------------------- *)

(** one call: exactly one row, the stored width, the stored names *)
Theorem C14_stream_accepts_iff : forall st x, wf st ->
  (is_accept (validate_X_stream st x) = true <->
   fst (coerce_stream x) = 1 /\ width_ok st (snd (coerce_stream x)) /\ names_ok st x).
Proof. exact stream_accepts_iff. Qed.

(** what an accepted call returns and stores *)
Theorem C14_stream_accept_effect : forall st x shp s, wf st ->
  validate_X_stream st x = Accept shp s ->
  shp = coerce_stream x /\ input_col_dim s = Some (snd (coerce_stream x)) /\
  input_cols s = match x with InDF ns _ => Some ns | _ => input_cols st end.
Proof. exact stream_accept_effect. Qed.

(** whatever mix of containers preceded: after ANY history of calls on a new detector, an input is
    accepted iff it has one row, the width of every input accepted so far, and, if it is a
    DataFrame, the names of every DataFrame accepted so far *)
Theorem C14_stream_accepts_iff_history : forall h x,
  let acc := accepted_inputs validate_X_stream v_init h in
  (is_accept (validate_X_stream (final validate_X_stream v_init h) x) = true <->
   fst (coerce_stream x) = 1 /\
   Forall (fun y => snd (coerce_stream y) = snd (coerce_stream x)) acc /\
   Forall (fun y => names_compat y x) acc).
Proof. exact stream_history_rule. Qed.

(** ADWIN / CUSUM / PageHinkley: additionally exactly one column *)
Theorem C14_univariate_accepts_iff : forall st x, wf st ->
  (is_accept (validate_univariate st x) = true <->
   fst (coerce_stream x) = 1 /\ snd (coerce_stream x) = 1 /\
   width_ok st (snd (coerce_stream x)) /\ names_ok st x).
Proof. exact uni_accepts_iff. Qed.

Theorem C14_univariate_accepts_iff_history : forall h x,
  let acc := accepted_inputs validate_univariate v_init h in
  (is_accept (validate_univariate (final validate_univariate v_init h) x) = true <->
   fst (coerce_stream x) = 1 /\ snd (coerce_stream x) = 1 /\
   Forall (fun y => names_compat y x) acc).
Proof. exact uni_history_rule. Qed.

(** ---- accepts_iff, batch (partial: S12) -------------------------------------------------------- *)

(** the exact rule of the code: a DataFrame is not width-checked while no names are stored *)
Theorem C14_batch_accepts_exact : forall st x, wf st ->
  (is_accept (validate_X_batch st x) = true <->
   1 < fst (coerce_batch x) /\ names_ok st x /\
   (width_ok st (snd (coerce_batch x)) \/ (is_df x = true /\ input_cols st = None))).
Proof. exact batch_accepts_exact. Qed.

(** the property's rule, for every call except "first DataFrame after arrays, of another width" *)
Theorem C14_batch_accepts_iff_partial : forall st x, wf st -> ~ batch_gap st x ->
  (is_accept (validate_X_batch st x) = true <->
   1 < fst (coerce_batch x) /\ width_ok st (snd (coerce_batch x)) /\ names_ok st x).
Proof. exact batch_accepts_iff_partial. Qed.

Theorem C14_batch_accept_effect : forall st x shp s, wf st ->
  validate_X_batch st x = Accept shp s ->
  shp = coerce_batch x /\ input_col_dim s = Some (snd (coerce_batch x)) /\
  input_cols s = match x with InDF ns _ => Some ns | _ => input_cols st end.
Proof. exact batch_accept_effect. Qed.

(** history form, for histories none of whose calls falls into the gap *)
Theorem C14_batch_accepts_iff_history_partial : forall h x,
  nogap_run validate_X_batch batch_gap v_init h ->
  ~ batch_gap (final validate_X_batch v_init h) x ->
  let acc := accepted_inputs validate_X_batch v_init h in
  (is_accept (validate_X_batch (final validate_X_batch v_init h) x) = true <->
   1 < fst (coerce_batch x) /\
   Forall (fun y => snd (coerce_batch y) = snd (coerce_batch x)) acc /\
   Forall (fun y => names_compat y x) acc).
Proof. exact batch_history_rule_partial. Qed.

(** the excluded case read off the history: a DataFrame, only non-DataFrame inputs accepted so far
    (at least one), and its width is not theirs *)
Theorem C14_batch_gap_meaning : forall h x,
  nogap_run validate_X_batch batch_gap v_init h ->
  let acc := accepted_inputs validate_X_batch v_init h in
  (batch_gap (final validate_X_batch v_init h) x <->
   is_df x = true /\ acc <> [] /\ Forall (fun y => is_df y = false) acc /\
   ~ Forall (fun y => snd (coerce_batch y) = snd (coerce_batch x)) acc).
Proof. exact batch_gap_meaning. Qed.

(** ... and in that case the full statement is false: the call IS accepted and replaces the width *)
Theorem C14_batch_gap_accepts : forall st x, wf st -> batch_gap st x -> 1 < fst (coerce_batch x) ->
  is_accept (validate_X_batch st x) = true /\
  input_col_dim (state_of (validate_X_batch st x)) <> input_col_dim st.
Proof. exact batch_gap_accepts. Qed.

(** the known finding S12-batch: array 6x1, then DataFrame 2x3 is accepted by BatchDetector
    (test_batch_validation_X_dimensions requires it); StreamingDetector refuses the analogue *)
Theorem C14_batch_width_after_array_refuted :
  let st := final validate_X_batch v_init [InArr2 6 1] in
  input_col_dim st = Some 1 /\
  validate_X_batch st (InDF [0; 1; 2] 2) = Accept (2, 3) (mkV (Some [0; 1; 2]) (Some 3)) /\
  validate_X_stream (final validate_X_stream v_init [InArr2 1 1]) (InDF [0; 1; 2] 1)
    = Reject (mkV None (Some 1)).
Proof. exact batch_width_after_array_refuted. Qed.

(** CDBD: the early guard makes it univariate *)
Theorem C14_cdbd_accepts_exact : forall st x, wf st ->
  (is_accept (validate_cdbd st x) = true <->
   snd (coerce_batch x) = 1 /\ 1 < fst (coerce_batch x) /\ names_ok st x /\
   (width_ok st (snd (coerce_batch x)) \/ (is_df x = true /\ input_cols st = None))).
Proof. exact cdbd_accepts_exact. Qed.

(** HDDDM / CDBD with detect_batch = 1: set_reference additionally wants three rows (half of the reference
    is fed back as a test batch); a shorter reference is refused and changes nothing *)
Theorem C14_hdm1_reference_accepts_exact : forall st x, wf st ->
  (is_accept (validate_reference_min3 st x) = true <->
   3 <= fst (coerce_batch x) /\ names_ok st x /\
   (width_ok st (snd (coerce_batch x)) \/ (is_df x = true /\ input_cols st = None))).
Proof. exact min3_accepts_exact. Qed.

(** ---- labels --------------------------------------------------------------------------------------- *)
Theorem C14_validate_y_stream_iff : forall y, validate_y_stream y = true <-> size_of y = 1.
Proof. exact y_stream_iff. Qed.

Theorem C14_validate_y_batch_iff : forall y,
  validate_y_batch y = true <->
  match y with
  | InDF ns r => r <> 1 /\ zlen ns = 1
  | InArr2 r c => r <> 1 /\ c = 1
  | _ => False
  end.
Proof. exact y_batch_iff. Qed.

(** ---- reject_no_change ---------------------------------------------------------------------------- *)

(** a refused X leaves both attributes as they were: both base classes, the univariate guard (which
    undoes what the base class stored) and CDBD *)
Theorem C14_reject_no_change : forall st x s,
  (validate_X_stream st x = Reject s -> s = st) /\
  (validate_X_batch st x = Reject s -> s = st) /\
  (validate_univariate st x = Reject s -> s = st) /\
  (validate_cdbd st x = Reject s -> s = st) /\
  (validate_reference_min3 st x = Reject s -> s = st).
Proof.
  intros st x s.
  exact (conj (stream_reject_no_change st x s) (conj (batch_reject_no_change st x s)
        (conj (uni_reject_no_change st x s) (conj (cdbd_reject_no_change st x s)
        (min3_reject_no_change st x s))))).
Qed.

(** _validate_input as the detectors of the library call it (X alone or labels alone) *)
Theorem C14_validate_input_reject_no_change : forall vX vy st x yt yp s,
  (forall st x s, vX st x = Reject s -> s = st) ->
  (x = None \/ (yt = None /\ yp = None)) ->
  validate_input vX vy st x yt yp = (false, s) -> s = st.
Proof. exact validate_input_reject_no_change. Qed.

(** with X and labels in one call (done by no detector) the statement is false *)
Theorem C14_validate_input_X_and_y_refuted :
  validate_input validate_X_stream validate_y_stream v_init (Some (In1D 2)) (Some (In1D 2)) None
  = (false, mkV None (Some 2)).
Proof. exact validate_input_both_refuted. Qed.

(** the side condition [wf] of the single-call theorems holds in every reachable state: after any
    history of update / set_reference calls of any of the six usages *)
Theorem C14_wf_invariant : forall k h, wf (final_calls k v_init h).
Proof. intros k h. exact (wf_final_calls k h v_init wf_init). Qed.

(** ---- rejected_call_invisible -------------------------------------------------------------------- *)
(** The detector as a machine (Validate.v, Section Machine): any state type D, any payload type P,
    any reset prologue [pre] that is idempotent (reset-if-drift is: after it drift_state is None),
    any body; [k] ranges over the six usages of the validators and [sel p] says whether the call with
    payload p is set_reference (which matters for HDDDM / CDBD with detect_batch = 1). *)

(** one rejected call injected at any position of any history: the outputs after all accepted calls
    (before and after it) are those of the history without it *)
Theorem C14_rejected_call_invisible : forall k (D P : Type) (sel : P -> bool) (pre : D -> D) (body : D -> Z * Z -> P -> D),
  (forall d, pre (pre d) = pre d) ->
  let V := fun p => call_validator k (sel p) in
  forall h1 c h2 m,
  snd (m_update (user_early k) pre V body (m_final (user_early k) pre V body m h1) c) = false ->
  m_trace (user_early k) pre V body m (h1 ++ c :: h2) = m_trace (user_early k) pre V body m (h1 ++ h2).
Proof.
  intros k D P sel pre body Hp V.
  exact (rejected_call_invisible D P (user_early k) pre V body Hp (fun p => call_reject_no_change k (sel p))).
Qed.

(** any number of rejected calls: erase them all; every remaining call is accepted, the outputs are
    the same and the final states agree up to a reset that is still pending *)
Theorem C14_rejected_calls_invisible : forall k (D P : Type) (sel : P -> bool) (pre : D -> D) (body : D -> Z * Z -> P -> D),
  (forall d, pre (pre d) = pre d) ->
  let V := fun p => call_validator k (sel p) in
  forall h m,
  let E := m_erase (user_early k) pre V body m h in
  m_trace (user_early k) pre V body m h = m_trace (user_early k) pre V body m E /\
  Forall (fun b => b = true) (m_verdicts (user_early k) pre V body m E) /\
  sim D pre (m_final (user_early k) pre V body m h) (m_final (user_early k) pre V body m E).
Proof.
  intros k D P sel pre body Hp V h m.
  exact (rejected_calls_invisible D P (user_early k) pre V body Hp (fun p => call_reject_no_change k (sel p)) h m).
Qed.

(** not counted: when no reset is pending a rejected call changes nothing at all *)
Theorem C14_rejected_call_not_counted : forall k (D P : Type) (sel : P -> bool) (pre : D -> D) (body : D -> Z * Z -> P -> D) m c,
  let V := fun p => call_validator k (sel p) in
  pre (m_d m) = m_d m ->
  snd (m_update (user_early k) pre V body m c) = false ->
  fst (m_update (user_early k) pre V body m c) = m.
Proof.
  intros k D P sel pre body m c V.
  exact (rejected_no_effect D P (user_early k) pre V body (fun p => call_reject_no_change k (sel p)) m c).
Qed.

(** the hypothesis is satisfiable: counters and drift_state of detector.py with reset-if-drift *)
Example C14_machine_hypothesis_satisfiable :
  (forall d, toy_pre (toy_pre d) = toy_pre d) /\
  (* ADWIN-like run: two samples, the second alarms; then a 3-column row is refused (and performs
     the pending reset), then a sample is accepted: same outputs as without the refused call *)
  let V := fun _ : bool => call_validator KStreamUni false in
  let h1 := [(InScalar, false); (In1D 1, true)] in
  let bad := (InArr2 1 3, false) in
  let h2 := [(InSeries 1, false)] in
  let m := mkM v_init (mkToy 0 0 DNone) in
  m_verdicts (user_early KStreamUni) toy_pre V toy_body m (h1 ++ bad :: h2) = [true; true; false; true] /\
  m_trace (user_early KStreamUni) toy_pre V toy_body m (h1 ++ bad :: h2)
    = [mkToy 1 1 DNone; mkToy 2 2 DDrift; mkToy 3 1 DNone].
Proof. split; [exact toy_pre_idem|]. split; reflexivity. Qed.

(** ---- container_irrelevant ----------------------------------------------------------------------- *)

(** scalar / list / 1-D and 2-D ndarray / Series: a validator sees only the shape of the coerced
    array, for all six usages, update and set_reference, in every state *)
Theorem C14_container_irrelevant : forall k r x y, is_df x = false -> is_df y = false ->
  user_coerce k x = user_coerce k y ->
  user_early k x = user_early k y /\ forall st, call_validator k r st x = call_validator k r st y.
Proof.
  intros k r x y Hx Hy E.
  destruct (nondf_indistinguishable k bool (fun b => b) x y Hx Hy E) as [H1 H2].
  split; [exact H1|]. intros st. exact (H2 r st).
Qed.

(** hence whole histories: same values (payloads), indistinguishable containers, call by call:
    same verdicts, same outputs, same final state *)
Theorem C14_container_irrelevant_history : forall k (D P : Type) (sel : P -> bool) (pre : D -> D) (body : D -> Z * Z -> P -> D) h1 h2 m,
  let V := fun p => call_validator k (sel p) in
  Forall2 (fun c1 c2 => snd c1 = snd c2 /\
                        (fst c1 = fst c2 \/
                         (is_df (fst c1) = false /\ is_df (fst c2) = false /\
                          user_coerce k (fst c1) = user_coerce k (fst c2)))) h1 h2 ->
  m_trace (user_early k) pre V body m h1 = m_trace (user_early k) pre V body m h2 /\
  m_verdicts (user_early k) pre V body m h1 = m_verdicts (user_early k) pre V body m h2 /\
  m_final (user_early k) pre V body m h1 = m_final (user_early k) pre V body m h2.
Proof. exact container_irrelevant_history. Qed.

(** DataFrames too, for the streaming classes: if all DataFrames of the two histories carry one list
    of names [ns], replacing any input by any container of the same coerced shape (DataFrame by array
    or array by DataFrame) changes neither verdicts nor outputs; only the stored names differ *)
Theorem C14_container_irrelevant_dataframe_stream : forall ns (D P : Type) (pre : D -> D) (body : D -> Z * Z -> P -> D) h1 h2 d,
  Forall2 (fun c1 c2 => snd c1 = snd c2 /\ named ns (fst c1) /\ named ns (fst c2) /\
                        coerce_stream (fst c1) = coerce_stream (fst c2)) h1 h2 ->
  m_trace (fun _ => false) pre (fun _ : P => validate_X_stream) body (mkM v_init d) h1 =
  m_trace (fun _ => false) pre (fun _ : P => validate_X_stream) body (mkM v_init d) h2 /\
  m_verdicts (fun _ => false) pre (fun _ : P => validate_X_stream) body (mkM v_init d) h1 =
  m_verdicts (fun _ => false) pre (fun _ : P => validate_X_stream) body (mkM v_init d) h2.
Proof.
  intros ns D P pre body h1 h2 d F.
  apply (df_container_irrelevant validate_X_stream (fun _ => True) stream_spec_for_sim
           (fun _ _ _ => conj (fun H => H) (fun H => H)) ns D P pre body h1 h2
           (mkM v_init d) (mkM v_init d) (vsim_init ns) eq_refl F).
Qed.

Theorem C14_container_irrelevant_dataframe_univariate : forall ns (D P : Type) (pre : D -> D) (body : D -> Z * Z -> P -> D) h1 h2 d,
  Forall2 (fun c1 c2 => snd c1 = snd c2 /\ named ns (fst c1) /\ named ns (fst c2) /\
                        coerce_stream (fst c1) = coerce_stream (fst c2)) h1 h2 ->
  m_trace (fun _ => false) pre (fun _ : P => validate_univariate) body (mkM v_init d) h1 =
  m_trace (fun _ => false) pre (fun _ : P => validate_univariate) body (mkM v_init d) h2 /\
  m_verdicts (fun _ => false) pre (fun _ : P => validate_univariate) body (mkM v_init d) h1 =
  m_verdicts (fun _ => false) pre (fun _ : P => validate_univariate) body (mkM v_init d) h2.
Proof.
  intros ns D P pre body h1 h2 d F.
  apply (df_container_irrelevant validate_univariate (fun x => snd (coerce_stream x) = 1) uni_spec_for_sim
           (fun x y E => conj (fun H => eq_trans (f_equal snd (eq_sym E)) H)
                              (fun H => eq_trans (f_equal snd E) H)) ns D P pre body h1 h2
           (mkM v_init d) (mkM v_init d) (vsim_init ns) eq_refl F).
Qed.

(** for the batch class this last statement is false (again S12): same shapes, different verdicts *)
Theorem C14_batch_dataframe_vs_array_refuted :
  Forall2 (fun x y => coerce_batch x = coerce_batch y) gap_history_df gap_history_arr /\
  verdicts validate_X_batch v_init gap_history_df = [true; true] /\
  verdicts validate_X_batch v_init gap_history_arr = [true; false].
Proof. exact batch_df_vs_array_refuted. Qed.

(** ---- the checker of the correspondence is the verified validator --------------------------------- *)
Theorem C14_checker_is_the_validator : forall k r st x seen acc cols dim known,
  let c := mkCall r (Some x) None None [(true, x, seen)] acc cols dim known in
  fst (fst (call_model k st c)) = negb (user_early k x) && is_accept (call_validator k r st x) /\
  snd (fst (call_model k st c)) = if user_early k x then st else state_of (call_validator k r st x).
Proof. exact call_model_single. Qed.

Print Assumptions C14_stream_accepts_iff.
Print Assumptions C14_stream_accept_effect.
Print Assumptions C14_stream_accepts_iff_history.
Print Assumptions C14_univariate_accepts_iff.
Print Assumptions C14_univariate_accepts_iff_history.
Print Assumptions C14_batch_accepts_exact.
Print Assumptions C14_batch_accepts_iff_partial.
Print Assumptions C14_batch_accept_effect.
Print Assumptions C14_batch_accepts_iff_history_partial.
Print Assumptions C14_batch_gap_meaning.
Print Assumptions C14_batch_gap_accepts.
Print Assumptions C14_batch_width_after_array_refuted.
Print Assumptions C14_cdbd_accepts_exact.
Print Assumptions C14_validate_y_stream_iff.
Print Assumptions C14_validate_y_batch_iff.
Print Assumptions C14_reject_no_change.
Print Assumptions C14_validate_input_reject_no_change.
Print Assumptions C14_validate_input_X_and_y_refuted.
Print Assumptions C14_wf_invariant.
Print Assumptions C14_rejected_call_invisible.
Print Assumptions C14_rejected_calls_invisible.
Print Assumptions C14_rejected_call_not_counted.
Print Assumptions C14_container_irrelevant.
Print Assumptions C14_container_irrelevant_history.
Print Assumptions C14_container_irrelevant_dataframe_stream.
Print Assumptions C14_container_irrelevant_dataframe_univariate.
Print Assumptions C14_batch_dataframe_vs_array_refuted.
Print Assumptions C14_checker_is_the_validator.
Print Assumptions C14_hdm1_reference_accepts_exact.
