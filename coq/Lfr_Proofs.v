(** Theorems about the Linear Four Rates kernel (every arithmetic instance, every oracle answer). *)
From MV Require Import Base Num Lifecycle Lifecycle_Proofs Lfr.

Section LfrProofs.
Context {N : Num}.

(** ---------- confusion matrix of the epoch ---------- *)
Definition feed_conf (c : conf) (ys : list (bool * bool)) : conf :=
  fold_left (fun c y => conf_add c (fst y) (snd y)) ys c.
Definition cnt (f : bool * bool -> bool) (ys : list (bool * bool)) : Z := Z.of_nat (length (filter f ys)).

Lemma cnt_cons f y ys : cnt f (y :: ys) = (if f y then 1 else 0) + cnt f ys.
Proof. unfold cnt. simpl. destruct (f y); simpl length; lia. Qed.

(** each cell = its start value + the number of (y_true, y_pred) pairs of that kind *)
Lemma feed_conf_counts : forall ys c,
  c_tp (feed_conf c ys) = c_tp c + cnt (fun y => fst y && snd y) ys /\
  c_tn (feed_conf c ys) = c_tn c + cnt (fun y => negb (fst y) && negb (snd y)) ys /\
  c_fp (feed_conf c ys) = c_fp c + cnt (fun y => negb (fst y) && snd y) ys /\
  c_fn (feed_conf c ys) = c_fn c + cnt (fun y => fst y && negb (snd y)) ys.
Proof.
  induction ys as [|[yt yp] ys IH]; intros c.
  - unfold feed_conf, cnt; simpl. repeat split; lia.
  - unfold feed_conf in *. cbn [fold_left fst snd]. destruct (IH (conf_add c yt yp)) as (H1 & H2 & H3 & H4).
    rewrite H1, H2, H3, H4, !cnt_cons. cbn [fst snd].
    destruct yt, yp; cbn [conf_add c_tp c_tn c_fp c_fn andb negb]; repeat split; lia.
Qed.

Local Open Scope num_scope.
(** ---------- the loop over tracked rates ---------- *)
Definition new_stat (p : @lfr_params N) (agree : bool) (oldc newc : conf) (r : rstats) (rt : rate) : F N :=
  if negb (feqb (@rate_of N newc rt) (@rate_of N oldc rt))
  then l_eta p * rget r rt + (f1 - l_eta p) * (if agree then f1 else f0)
  else rget r rt.

Lemma rget_rset_same (r : @rstats N) rt v : rget (rset r rt v) rt = v.
Proof. destruct rt; reflexivity. Qed.
Lemma rget_rset_other (r : @rstats N) rt rt' v : rate_eqb rt rt' = false -> rget (rset r rt v) rt' = rget r rt'.
Proof. destruct rt, rt'; simpl; intros; try discriminate; reflexivity. Qed.

(** a rate that is not tracked keeps its statistic, whatever the oracle says *)
Lemma lfr_rates_untracked (p : @lfr_params N) gated agree oldc newc rt :
  forall rs orc r ca ok w a, (forall x, In x rs -> rate_eqb x rt = false) ->
  rget (fst (fst (fst (fst (lfr_rates p gated agree oldc newc rs orc r ca ok w a))))) rt = rget r rt.
Proof.
  induction rs as [|x rs IH]; intros orc r ca ok w a Hnot; simpl; [reflexivity|].
  assert (Hx : rate_eqb x rt = false) by (apply Hnot; left; reflexivity).
  assert (Hrs : forall y, In y rs -> rate_eqb y rt = false) by (intros y Hy; apply Hnot; right; exact Hy).
  destruct gated.
  - destruct orc as [|[[[est den] key] sim] orc'].
    + rewrite IH by exact Hrs. apply rget_rset_other. exact Hx.
    + destruct (cache_find key den ca), sim; rewrite IH by exact Hrs; apply rget_rset_other; exact Hx.
  - rewrite IH by exact Hrs. apply rget_rset_other. exact Hx.
Qed.

(** outside the gate (burn-in, or off the subsample grid) nothing is flagged and no oracle is consulted *)
Lemma lfr_rates_ungated (p : @lfr_params N) agree oldc newc :
  forall rs orc r ca ok w a,
  let res := lfr_rates p false agree oldc newc rs orc r ca ok w a in
  snd (fst (fst (fst res))) = ca /\ snd (fst res) = w /\ snd res = a.
Proof.
  induction rs as [|x rs IH]; intros orc r ca ok w a; simpl; [repeat split|]. apply IH.
Qed.

(** flags only ever switch on, and an alarm needs a tracked rate whose statistic lies outside the
    detect bounds it was compared with (cached or freshly simulated) *)
Lemma lfr_rates_alarm (p : @lfr_params N) gated agree oldc newc :
  forall rs orc r ca ok w a,
  snd (lfr_rates p gated agree oldc newc rs orc r ca ok w a) = true ->
  a = true \/
  exists rt b r0, In rt rs /\ gated = true /\
    outside (new_stat p agree oldc newc r0 rt) (lb_detect b) (ub_detect b) = true.
Proof.
  induction rs as [|x rs IH]; intros orc r ca ok w a H; simpl in H; [left; exact H|].
  fold (new_stat p agree oldc newc r x) in H.
  destruct gated.
  - destruct orc as [|[[[est den] key] sim] orc'].
    + apply IH in H. destruct H as [H | (rt & b & r0 & Hin & Hg & Ho)]; [left; exact H|].
      right. exists rt, b, r0. repeat split; try assumption. right; exact Hin.
    + destruct (cache_find key den ca) as [b|], sim as [b'|]; apply IH in H;
        (destruct H as [H | (rt & b0 & r0 & Hin & Hg & Ho)];
         [ try (apply orb_true_iff in H as [H|H]; [left; exact H | right; eexists x, _, r; repeat split; [left; reflexivity | exact H]]);
           try (left; exact H)
         | right; exists rt, b0, r0; repeat split; try assumption; right; exact Hin ]).
  - apply IH in H. destruct H as [H | (rt & b & r0 & Hin & Hg & Ho)]; [left; exact H | discriminate].
Qed.

(** ---------- the kernel ---------- *)
Lemma lfr_step_decides (p : @lfr_params N) e n x : exists d, snd (lfr_step p e n x) = Some d.
Proof.
  unfold lfr_step. destruct x as [[yt yp] orc].
  destruct (lfr_rates _ _ _ _ _ _ _ _ _ _ _ _) as [[[[r ca] ok] w] a]. eexists; reflexivity.
Qed.

Lemma lfr_step_conf (p : @lfr_params N) e n yt yp orc :
  l_conf (fst (lfr_step p e n (yt, yp, orc))) = conf_add (l_conf e) yt yp.
Proof.
  unfold lfr_step. destruct (lfr_rates _ _ _ _ _ _ _ _ _ _ _ _) as [[[[r ca] ok] w] a]. reflexivity.
Qed.

(** during burn-in and off the subsample grid the state is None and the cache is untouched *)
Lemma lfr_step_ungated (p : @lfr_params N) e n x : lfr_gated p n = false ->
  snd (lfr_step p e n x) = Some DNone /\ l_cache (fst (lfr_step p e n x)) = l_cache e.
Proof.
  intros Hg. unfold lfr_step. destruct x as [[yt yp] orc]. rewrite Hg.
  pose proof (lfr_rates_ungated p (Bool.eqb yt yp) (l_conf e) (conf_add (l_conf e) yt yp)
                (l_tracked p) orc (l_r e) (l_cache e) (l_oracle_ok e) false false) as H.
  cbv zeta in H.
  destruct (lfr_rates _ _ _ _ _ _ _ _ _ _ _ _) as [[[[r ca] ok] w] a]. simpl in H.
  destruct H as (H1 & H2 & H3). subst. split; reflexivity.
Qed.

(** drift needs: past burn-in, on the subsample grid, and a *tracked* rate outside its detect bounds *)
Lemma lfr_drift_needs (p : @lfr_params N) e n yt yp orc :
  snd (lfr_step p e n (yt, yp, orc)) = Some DDrift ->
  (l_burn_in p < n)%Z /\ (n mod l_subsample p = 0)%Z /\
  exists rt b r0, In rt (l_tracked p) /\
    outside (new_stat p (Bool.eqb yt yp) (l_conf e) (conf_add (l_conf e) yt yp) r0 rt) (lb_detect b) (ub_detect b) = true.
Proof.
  unfold lfr_step. intros H.
  destruct (lfr_rates p (lfr_gated p n) (Bool.eqb yt yp) (l_conf e) (conf_add (l_conf e) yt yp)
              (l_tracked p) orc (l_r e) (l_cache e) (l_oracle_ok e) false false) as [[[[r ca] ok] w] a] eqn:E.
  simpl in H. destruct a; [|destruct w; discriminate].
  assert (Ha : snd (lfr_rates p (lfr_gated p n) (Bool.eqb yt yp) (l_conf e) (conf_add (l_conf e) yt yp)
              (l_tracked p) orc (l_r e) (l_cache e) (l_oracle_ok e) false false) = true) by (rewrite E; reflexivity).
  apply lfr_rates_alarm in Ha. destruct Ha as [Ha | (rt & b & r0 & Hin & Hg & Ho)]; [discriminate|].
  unfold lfr_gated in Hg. apply andb_true_iff in Hg as [G1 G2].
  apply Z.ltb_lt in G1. apply Z.eqb_eq in G2. repeat split; try assumption. exists rt, b, r0. split; assumption.
Qed.

(** statistics of untracked rates never move *)
Lemma lfr_step_untracked (p : @lfr_params N) e n x rt :
  (forall y, In y (l_tracked p) -> rate_eqb y rt = false) ->
  rget (l_r (fst (lfr_step p e n x))) rt = rget (l_r e) rt.
Proof.
  intros Hnot. unfold lfr_step. destruct x as [[yt yp] orc].
  pose proof (lfr_rates_untracked p (lfr_gated p n) (Bool.eqb yt yp) (l_conf e) (conf_add (l_conf e) yt yp) rt
                (l_tracked p) orc (l_r e) (l_cache e) (l_oracle_ok e) false false Hnot) as H.
  destruct (lfr_rates _ _ _ _ _ _ _ _ _ _ _ _) as [[[[r ca] ok] w] a]. exact H.
Qed.

(** with nothing tracked the detector never leaves None *)
Lemma lfr_nothing_tracked (p : @lfr_params N) e n x : l_tracked p = [] -> snd (lfr_step p e n x) = Some DNone.
Proof. intros H. unfold lfr_step. destruct x as [[yt yp] orc]. rewrite H. reflexivity. Qed.

End LfrProofs.

(** ---------- the bounds cache: the first simulated answer for a key is the one used ever after ---------- *)
Section Cache.
Context {N : Num}.
(** equality used for keys respects itself (true of the reals, and of IEEE [==]: it never holds for NaN) *)
Hypothesis feqb_cong : forall a b : F N, feqb a b = true -> forall c, feqb a c = feqb b c.

Lemma cache_find_cong (k k' : F N) d (ca : @cache N) : feqb k k' = true -> cache_find k d ca = cache_find k' d ca.
Proof.
  intros H. induction ca as [|[[k0 d0] b0] t IH]; [reflexivity|]. simpl.
  rewrite (feqb_cong k k' H k0), IH. reflexivity.
Qed.

Lemma cache_find_insert_other (k k' : F N) d d' b' b (ca : @cache N) :
  cache_find k' d' ca = None -> cache_find k d ca = Some b -> cache_find k d ((k', d', b') :: ca) = Some b.
Proof.
  intros Hn Hs. simpl. destruct (feqb k k') eqn:E; simpl; [|exact Hs].
  destruct (Z.eqb_spec d d') as [->|Hd]; simpl; [|exact Hs].
  rewrite (cache_find_cong k k' d' ca E) in Hs. congruence.
Qed.

Lemma lfr_rates_cache_stable (p : @lfr_params N) gated agree oldc newc k d b :
  forall rs orc r ca ok w a, cache_find k d ca = Some b ->
  cache_find k d (snd (fst (fst (fst (lfr_rates p gated agree oldc newc rs orc r ca ok w a))))) = Some b.
Proof.
  induction rs as [|x rs IH]; intros orc r ca ok w a H; simpl; [exact H|].
  destruct gated.
  - destruct orc as [|[[[est den] key] sim] orc']; [apply IH; exact H|].
    destruct (cache_find key den ca) as [b0|] eqn:Ec, sim as [b1|]; try (apply IH; exact H).
    apply IH. apply cache_find_insert_other; assumption.
  - apply IH. exact H.
Qed.

(** once bounds for a (rounded rate, denominator) key are in the cache, every later update of every
    later epoch finds exactly those bounds *)
Theorem lfr_cache_first_answer_wins (p : @lfr_params N) k d b e n x :
  cache_find k d (l_cache e) = Some b ->
  cache_find k d (l_cache (fst (lfr_step p e n x))) = Some b /\
  cache_find k d (l_cache (lfr_reset e)) = Some b.
Proof.
  intros H. split; [|exact H].
  unfold lfr_step. destruct x as [[yt yp] orc].
  pose proof (lfr_rates_cache_stable p (lfr_gated p n) (Bool.eqb yt yp) (l_conf e) (conf_add (l_conf e) yt yp) k d b
                (l_tracked p) orc (l_r e) (l_cache e) (l_oracle_ok e) false false H) as Hs.
  destruct (lfr_rates _ _ _ _ _ _ _ _ _ _ _ _) as [[[[r ca] ok] w] a]. exact Hs.
Qed.
End Cache.
