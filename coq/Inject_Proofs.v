(** Lemmas about the injector models of [Inject.v]. Statements of record are in [Prop_C20.v]. *)
From MV Require Import Base Num Inject.
From Coq Require Import ZifyBool Sorted.

(** * observation vocabulary used in the statements (plain [nat] positions) *)
Definition cell {A : Type} (d : list (list A)) (i j : nat) : option A :=
  match nth_error d i with Some r => nth_error r j | None => None end.
Definition shape {A : Type} (d : list (list A)) : list nat := map (@length A) d.
Definition inw (from to : Z) (i : nat) : bool := in_win from to (Z.of_nat i).
Definition rect {A : Type} (w : nat) (d : list (list A)) : Prop := Forall (fun r => length r = w) d.

(** * lists by position *)
Lemma list_ext {B : Type} : forall l l' : list B,
  (forall n, nth_error l n = nth_error l' n) -> l = l'.
Proof.
  induction l as [|x l IH]; intros [|y l'] H.
  - reflexivity.
  - specialize (H 0%nat). discriminate.
  - specialize (H 0%nat). discriminate.
  - f_equal.
    + specialize (H 0%nat). simpl in H. congruence.
    + apply IH. intro n. exact (H (S n)).
Qed.

Lemma nth_nth_error {B : Type} : forall (l : list B) n d,
  nth n l d = match nth_error l n with Some x => x | None => d end.
Proof. induction l as [|x l IH]; intros [|n] d; simpl; auto. Qed.

Lemma nthZ_spec {B : Type} (i : Z) (l : list B) (d : B) :
  nthZ i l d = if i <? 0 then d
               else match nth_error l (Z.to_nat i) with Some x => x | None => d end.
Proof. unfold nthZ. destruct (i <? 0); auto. apply nth_nth_error. Qed.

Lemma nthZ_of_nat {B : Type} (n : nat) (l : list B) (d : B) :
  nthZ (Z.of_nat n) l d = match nth_error l n with Some x => x | None => d end.
Proof.
  rewrite nthZ_spec. destruct (Z.of_nat n <? 0) eqn:E; [lia|]. now rewrite Nat2Z.id.
Qed.

Lemma length_mapi_from {B C : Type} (f : Z -> B -> C) : forall l i,
  length (mapi_from f i l) = length l.
Proof. induction l; intros; simpl; auto. Qed.

Lemma nth_error_mapi_from {B C : Type} (f : Z -> B -> C) : forall l i n,
  nth_error (mapi_from f i l) n = option_map (f (i + Z.of_nat n)) (nth_error l n).
Proof.
  induction l as [|x l IH]; intros i [|n]; simpl; auto.
  - now rewrite Z.add_0_r.
  - rewrite IH. do 2 f_equal. lia.
Qed.

Lemma nth_error_mapi {B C : Type} (f : Z -> B -> C) l n :
  nth_error (mapi f l) n = option_map (f (Z.of_nat n)) (nth_error l n).
Proof. unfold mapi. now rewrite nth_error_mapi_from. Qed.

Lemma length_mapi {B C : Type} (f : Z -> B -> C) l : length (mapi f l) = length l.
Proof. apply length_mapi_from. Qed.

Lemma mapi_id {B : Type} (f : Z -> B -> B) l :
  (forall n x, nth_error l n = Some x -> f (Z.of_nat n) x = x) -> mapi f l = l.
Proof.
  intro H. apply list_ext. intro n. rewrite nth_error_mapi.
  destruct (nth_error l n) eqn:E; simpl; auto. now rewrite (H n b E).
Qed.

Lemma mapi_mapi {B C D : Type} (f : Z -> C -> D) (g : Z -> B -> C) l :
  mapi f (mapi g l) = mapi (fun i x => f i (g i x)) l.
Proof.
  apply list_ext. intro n. rewrite !nth_error_mapi. now destruct (nth_error l n).
Qed.

Lemma mapi_ext_in {B C : Type} (f g : Z -> B -> C) l :
  (forall n x, nth_error l n = Some x -> f (Z.of_nat n) x = g (Z.of_nat n) x) -> mapi f l = mapi g l.
Proof.
  intro H. apply list_ext. intro n. rewrite !nth_error_mapi.
  destruct (nth_error l n) eqn:E; simpl; auto. now rewrite (H n b E).
Qed.

Lemma in_sel_from {B : Type} (p : Z -> bool) : forall (l : list B) k x,
  In x (sel_from p k l) <-> exists n, nth_error l n = Some x /\ p (k + Z.of_nat n) = true.
Proof.
  induction l as [|y l IH]; intros k x; simpl.
  - split; [tauto|]. intros [[|n] [H _]]; discriminate.
  - destruct (p k) eqn:E; simpl; rewrite IH; split.
    + intros [->|[n [H1 H2]]].
      * exists 0%nat. simpl. now rewrite Z.add_0_r.
      * exists (S n). simpl. split; auto. now replace (k + Z.pos (Pos.of_succ_nat n)) with (k + 1 + Z.of_nat n) by lia.
    + intros [[|n] [H1 H2]]; simpl in *.
      * left. congruence.
      * right. exists n. split; auto. now replace (k + 1 + Z.of_nat n) with (k + Z.pos (Pos.of_succ_nat n)) by lia.
    + intros [n [H1 H2]]. exists (S n). simpl. split; auto.
      now replace (k + Z.pos (Pos.of_succ_nat n)) with (k + 1 + Z.of_nat n) by lia.
    + intros [[|n] [H1 H2]]; simpl in *.
      * rewrite Z.add_0_r in H2. congruence.
      * exists n. split; auto. now replace (k + 1 + Z.of_nat n) with (k + Z.pos (Pos.of_succ_nat n)) by lia.
Qed.

Lemma in_idx_from {B : Type} (q : Z -> B -> bool) : forall (l : list B) k i,
  In i (idx_from q k l) <->
  exists n x, i = k + Z.of_nat n /\ nth_error l n = Some x /\ q i x = true.
Proof.
  induction l as [|y l IH]; intros k i; simpl.
  - split; [tauto|]. intros [[|n] [x [_ [H _]]]]; discriminate.
  - assert (R : In i (idx_from q (k + 1) l) <->
                exists n x, i = k + Z.of_nat (S n) /\ nth_error l n = Some x /\ q i x = true).
    { rewrite IH. split; intros [n [x [H1 H2]]]; exists n, x; split; auto; lia. }
    destruct (q k y) eqn:E; simpl; rewrite R; split.
    + intros [<-|[n [x H]]].
      * exists 0%nat, y. simpl. repeat split; auto; lia.
      * exists (S n), x. exact H.
    + intros [[|n] [x [H1 [H2 H3]]]].
      * left. simpl in *. lia.
      * right. exists n, x. auto.
    + intros [n [x H]]. exists (S n), x. exact H.
    + intros [[|n] [x [H1 [H2 H3]]]].
      * simpl in *. replace i with k in H3 by lia. congruence.
      * exists n, x. auto.
Qed.

(** * the window combinators *)
Lemma in_win_cls (from to i : Z) : ((i <? to) && (from <=? i)) = in_win from to i.
Proof. unfold in_win. apply andb_comm. Qed.

Lemma length_on_window {A : Type} from to g (d : list (list A)) :
  length (on_window from to g d) = length d.
Proof. apply length_mapi. Qed.

Lemma nth_error_on_window {A : Type} from to g (d : list (list A)) n :
  nth_error (on_window from to g d) n =
  option_map (fun r => if inw from to n then g (Z.of_nat n) r else r) (nth_error d n).
Proof. unfold on_window. now rewrite nth_error_mapi. Qed.

Lemma shape_on_window {A : Type} from to g (d : list (list A)) :
  (forall i r, length (g i r) = length r) -> shape (on_window from to g d) = shape d.
Proof.
  intro H. apply list_ext. intro n. unfold shape.
  rewrite !nth_error_map, nth_error_on_window.
  destruct (nth_error d n); simpl; auto. destruct (inw from to n); auto; try now rewrite H.
Qed.

Lemma on_window_outside {A : Type} from to g (d : list (list A)) n :
  inw from to n = false -> nth_error (on_window from to g d) n = nth_error d n.
Proof. intro H. rewrite nth_error_on_window, H. now destruct (nth_error d n). Qed.

Lemma on_window_twice {A : Type} from to g h (d : list (list A)) :
  on_window from to g (on_window from to h d) = on_window from to (fun i r => g i (h i r)) d.
Proof.
  unfold on_window. rewrite mapi_mapi. apply mapi_ext_in. intros n x _.
  now destruct (in_win from to (Z.of_nat n)).
Qed.

Lemma on_window_id {A : Type} from to g (d : list (list A)) :
  (forall i r, g i r = r) -> on_window from to g d = d.
Proof.
  intro H. unfold on_window. apply mapi_id. intros n x _.
  destruct (in_win from to (Z.of_nat n)); auto.
Qed.

Lemma length_upd_col {A : Type} col (f : A -> A) r : length (upd_col col f r) = length r.
Proof. apply length_mapi. Qed.

Lemma nth_error_upd_col {A : Type} col (f : A -> A) r j :
  nth_error (upd_col col f r) j =
  option_map (fun x => if Z.of_nat j =? col then f x else x) (nth_error r j).
Proof. unfold upd_col. now rewrite nth_error_mapi. Qed.

Lemma upd_col_twice {A : Type} col (f g : A -> A) r :
  upd_col col f (upd_col col g r) = upd_col col (fun x => f (g x)) r.
Proof.
  unfold upd_col. rewrite mapi_mapi. apply mapi_ext_in. intros n x _.
  now destruct (Z.of_nat n =? col).
Qed.

Lemma upd_col_id {A : Type} col (f : A -> A) r : (forall x, f x = x) -> upd_col col f r = r.
Proof.
  intro H. unfold upd_col. apply mapi_id. intros n x _. destruct (Z.of_nat n =? col); auto.
Qed.

(** every injector of the form "rewrite one column inside the window" *)
Definition col_update {A : Type} (from to col : Z) (f : Z -> A -> A) (d : list (list A)) :=
  on_window from to (fun i => upd_col col (f i)) d.

Lemma cell_col_update {A : Type} from to col (f : Z -> A -> A) d i j :
  cell (col_update from to col f d) i j =
  option_map (fun x => if inw from to i && (Z.of_nat j =? col) then f (Z.of_nat i) x else x)
             (cell d i j).
Proof.
  unfold cell, col_update. rewrite nth_error_on_window.
  destruct (nth_error d i) as [r|]; simpl; auto.
  destruct (inw from to i); simpl.
  - rewrite nth_error_upd_col. reflexivity.
  - now destruct (nth_error r j).
Qed.

Lemma shape_col_update {A : Type} from to col (f : Z -> A -> A) d :
  shape (col_update from to col f d) = shape d.
Proof. apply shape_on_window. intros. apply length_upd_col. Qed.

Lemma col_update_frame {A : Type} from to col (f : Z -> A -> A) d i j :
  inw from to i = false \/ Z.of_nat j <> col ->
  cell (col_update from to col f d) i j = cell d i j.
Proof.
  intro H. rewrite cell_col_update.
  assert (E : inw from to i && (Z.of_nat j =? col) = false).
  { destruct H as [H|H]; [now rewrite H|]. destruct (Z.of_nat j =? col) eqn:E; [lia|]. apply andb_false_r. }
  rewrite E. now destruct (cell d i j).
Qed.

Lemma col_update_rows_outside {A : Type} from to col (f : Z -> A -> A) d i :
  inw from to i = false -> nth_error (col_update from to col f d) i = nth_error d i.
Proof. apply on_window_outside. Qed.

(** the rows of the window are the slice [d[from:to]] *)
Lemma in_win_rows {A : Type} from to (d : list (list A)) r :
  In r (win_rows from to d) <-> exists n, nth_error d n = Some r /\ inw from to n = true.
Proof. unfold win_rows. rewrite in_sel_from. reflexivity. Qed.

Lemma sel_from_window {B : Type} : forall (l : list B) k from to,
  k <= from -> sel_from (in_win from to) k l
  = firstn (Z.to_nat (to - from)) (skipn (Z.to_nat (from - k)) l).
Proof.
  induction l as [|x l IH]; intros k from to H; simpl.
  - now rewrite skipn_nil, firstn_nil.
  - unfold in_win at 1. destruct (from <=? k) eqn:E1.
    + assert (from = k) by lia. subst. rewrite Z.sub_diag. simpl.
      destruct (k <? to) eqn:E2; simpl.
      * destruct (Z.to_nat (to - k)) eqn:E3; [lia|]. simpl. f_equal.
        (* the remaining rows: window [k+1 .. to) does not start before k+1, but in_win k to = in_win (k+1) to there *)
        assert (G : forall (m : list B) q, k < q -> sel_from (in_win k to) q m = sel_from (in_win (k + 1) to) q m).
        { induction m as [|y m IHm]; intros q Hq; simpl; auto.
          assert (in_win k to q = in_win (k + 1) to q) as -> by (unfold in_win; lia).
          now rewrite IHm by lia. }
        rewrite G by lia. rewrite IH by lia. rewrite Z.sub_diag. simpl. f_equal. lia.
      * assert (G : forall (m : list B) q, k <= q -> sel_from (in_win k to) q m = []).
        { induction m as [|y m IHm]; intros q Hq; simpl; auto.
          assert (in_win k to q = false) as -> by (unfold in_win; lia). apply IHm. lia. }
        rewrite G by lia. destruct (Z.to_nat (to - k)) eqn:E3; [reflexivity|lia].
    + simpl. rewrite IH by lia.
      destruct (Z.to_nat (from - k)) eqn:E3; [lia|]. simpl. do 2 f_equal. lia.
Qed.

Lemma win_rows_slice {A : Type} from to (d : list (list A)) :
  0 <= from -> win_rows from to d = firstn (Z.to_nat (to - from)) (skipn (Z.to_nat from) d).
Proof.
  intro H. unfold win_rows. rewrite sel_from_window by lia. now rewrite Z.sub_0_r.
Qed.

(** * FeatureSwapInjector *)
Lemma length_swap_row {A : Type} c1 c2 (r : list A) : length (swap_row c1 c2 r) = length r.
Proof. apply length_mapi. Qed.

Lemma nth_error_swap_row {A : Type} c1 c2 (r : list A) j :
  nth_error (swap_row c1 c2 r) j =
  option_map (fun x => if Z.of_nat j =? c1 then nthZ c2 r x
                       else if Z.of_nat j =? c2 then nthZ c1 r x else x) (nth_error r j).
Proof. unfold swap_row. now rewrite nth_error_mapi. Qed.

Lemma nthZ_swap_row {A : Type} c1 c2 (r : list A) c x y :
  nth_error r (Z.to_nat c) = Some x -> 0 <= c ->
  nthZ c (swap_row c1 c2 r) y =
  (if c =? c1 then nthZ c2 r x else if c =? c2 then nthZ c1 r x else x).
Proof.
  intros H Hc. rewrite nthZ_spec. destruct (c <? 0) eqn:E; [lia|].
  rewrite nth_error_swap_row, H. simpl. now rewrite Z2Nat.id by lia.
Qed.

Lemma nthZ_default {B : Type} c (r : list B) y :
  c < 0 \/ nth_error r (Z.to_nat c) = None -> nthZ c r y = y.
Proof.
  intro H. rewrite nthZ_spec. destruct (c <? 0) eqn:E; auto.
  destruct H as [H|H]; [lia|]. now rewrite H.
Qed.

Lemma nthZ_some {B : Type} c (r : list B) x y :
  0 <= c -> nth_error r (Z.to_nat c) = Some x -> nthZ c r y = x.
Proof.
  intros H1 H2. rewrite nthZ_spec. destruct (c <? 0) eqn:E; [lia|]. now rewrite H2.
Qed.

Lemma swap_row_involutive {A : Type} c1 c2 (r : list A) : swap_row c1 c2 (swap_row c1 c2 r) = r.
Proof.
  apply list_ext. intro n. rewrite nth_error_swap_row, nth_error_swap_row.
  destruct (nth_error r n) as [x|] eqn:En; simpl; auto. f_equal.
  assert (Hn : nth_error r (Z.to_nat (Z.of_nat n)) = Some x) by now rewrite Nat2Z.id.
  (* a column index is either unusable (negative / past the row) or holds a cell *)
  assert (D : forall c, (c < 0 \/ nth_error r (Z.to_nat c) = None) \/
                        (0 <= c /\ exists z, nth_error r (Z.to_nat c) = Some z)).
  { intro c. destruct (Z_lt_dec c 0); [left; now left|].
    destruct (nth_error r (Z.to_nat c)) eqn:E; [right; split; [lia|eauto]|left; now right]. }
  assert (L : forall c, c < 0 \/ nth_error r (Z.to_nat c) = None ->
                        c < 0 \/ nth_error (swap_row c1 c2 r) (Z.to_nat c) = None).
  { intros c [H|H]; [now left|right]. rewrite nth_error_swap_row, H. reflexivity. }
  destruct (Z.of_nat n =? c1) eqn:E1.
  - assert (c1 = Z.of_nat n) by lia. subst c1.
    destruct (D c2) as [Hb|[H0 [z Hz]]].
    + rewrite (nthZ_default c2 (swap_row _ _ _)) by (apply L; exact Hb).
      now rewrite nthZ_default by exact Hb.
    + rewrite (nthZ_swap_row _ _ _ _ z) by assumption.
      destruct (c2 =? Z.of_nat n) eqn:E2.
      * assert (c2 = Z.of_nat n) by lia. subst c2.
        rewrite (nthZ_some _ _ x) by (auto; lia). reflexivity.
      * rewrite Z.eqb_refl. apply nthZ_some; auto; lia.
  - destruct (Z.of_nat n =? c2) eqn:E2; auto.
    assert (c2 = Z.of_nat n) by lia. subst c2.
    destruct (D c1) as [Hb|[H0 [z Hz]]].
    + rewrite (nthZ_default c1 (swap_row _ _ _)) by (apply L; exact Hb).
      now rewrite nthZ_default by exact Hb.
    + rewrite (nthZ_swap_row _ _ _ _ z) by assumption.
      rewrite Z.eqb_refl. apply nthZ_some; auto; lia.
Qed.

Lemma feature_swap_involutive {A : Type} from to c1 c2 (d : list (list A)) :
  feature_swap from to c1 c2 (feature_swap from to c1 c2 d) = d.
Proof.
  unfold feature_swap. rewrite on_window_twice. apply on_window_id.
  intros _ r. apply swap_row_involutive.
Qed.

Lemma shape_feature_swap {A : Type} from to c1 c2 (d : list (list A)) :
  shape (feature_swap from to c1 c2 d) = shape d.
Proof. apply shape_on_window. intros. apply length_swap_row. Qed.

Lemma cell_feature_swap {A : Type} from to c1 c2 (d : list (list A)) i j :
  cell (feature_swap from to c1 c2 d) i j =
  match nth_error d i with
  | None => None
  | Some r =>
      if inw from to i then
        option_map (fun x => if Z.of_nat j =? c1 then nthZ c2 r x
                             else if Z.of_nat j =? c2 then nthZ c1 r x else x) (nth_error r j)
      else nth_error r j
  end.
Proof.
  unfold cell, feature_swap. rewrite nth_error_on_window.
  destruct (nth_error d i) as [r|]; simpl; auto.
  destruct (inw from to i); auto. apply nth_error_swap_row.
Qed.

Lemma feature_swap_frame {A : Type} from to c1 c2 (d : list (list A)) i j :
  inw from to i = false \/ (Z.of_nat j <> c1 /\ Z.of_nat j <> c2) ->
  cell (feature_swap from to c1 c2 d) i j = cell d i j.
Proof.
  intro H. rewrite cell_feature_swap. unfold cell.
  destruct (nth_error d i) as [r|]; auto.
  destruct (inw from to i); auto.
  destruct H as [H|[H1 H2]]; [discriminate|].
  destruct (Z.of_nat j =? c1) eqn:E1; [lia|]. destruct (Z.of_nat j =? c2) eqn:E2; [lia|].
  now destruct (nth_error r j).
Qed.

(** inside the window the two columns are exchanged (both indices inside the row) *)
Lemma feature_swap_effect {A : Type} from to (c1 c2 : nat) (d : list (list A)) i r :
  nth_error d i = Some r -> inw from to i = true ->
  (c1 < length r)%nat -> (c2 < length r)%nat ->
  cell (feature_swap from to (Z.of_nat c1) (Z.of_nat c2) d) i c1 = nth_error r c2 /\
  cell (feature_swap from to (Z.of_nat c1) (Z.of_nat c2) d) i c2 = nth_error r c1.
Proof.
  intros Hr Hw H1 H2. rewrite !cell_feature_swap, Hr, Hw.
  destruct (nth_error r c1) as [x1|] eqn:E1; [|apply nth_error_None in E1; lia].
  destruct (nth_error r c2) as [x2|] eqn:E2; [|apply nth_error_None in E2; lia].
  simpl. rewrite Z.eqb_refl. rewrite !nthZ_of_nat, E1, E2. split; auto.
  destruct (Z.of_nat c2 =? Z.of_nat c1) eqn:E.
  - assert (c2 = c1) by lia. subst. congruence.
  - now rewrite Z.eqb_refl.
Qed.

(** * LabelSwapInjector / LabelJoinInjector *)
Lemma label_swap_is_col_update {A : Type} eqb from to col (c1 c2 : A) d :
  label_swap eqb from to col c1 c2 d = col_update from to col (fun _ => label_swap_cell eqb c1 c2) d.
Proof. reflexivity. Qed.
Lemma label_join_is_col_update {A : Type} eqb from to col (c1 c2 cn : A) d :
  label_join eqb from to col c1 c2 cn d = col_update from to col (fun _ => label_join_cell eqb c1 c2 cn) d.
Proof. reflexivity. Qed.

Lemma col_update_twice {A : Type} from to col (f g : Z -> A -> A) d :
  col_update from to col f (col_update from to col g d) =
  col_update from to col (fun i x => f i (g i x)) d.
Proof.
  unfold col_update. rewrite on_window_twice. unfold on_window. apply mapi_ext_in.
  intros n r _. destruct (in_win from to (Z.of_nat n)); auto. apply upd_col_twice.
Qed.

Lemma col_update_id {A : Type} from to col (f : Z -> A -> A) d :
  (forall i x, f i x = x) -> col_update from to col f d = d.
Proof. intro H. apply on_window_id. intros i r. apply upd_col_id. apply H. Qed.

Section LabelLaws.
Context {A : Type}.
Variable eqb : A -> A -> bool.

(** (a) [eqb] decides Leibniz equality: exact involution *)
Lemma label_swap_cell_involutive_eq :
  (forall x y, eqb x y = true <-> x = y) ->
  forall c1 c2 x, label_swap_cell eqb c1 c2 (label_swap_cell eqb c1 c2 x) = x.
Proof.
  intros S c1 c2 x. unfold label_swap_cell.
  destruct (eqb x c2) eqn:E2.
  - apply S in E2. subst x.
    destruct (eqb c1 c2) eqn:E12.
    + apply S in E12. congruence.
    + assert (R : eqb c1 c1 = true) by now apply S. now rewrite R.
  - destruct (eqb x c1) eqn:E1.
    + apply S in E1. subst x.
      assert (R : eqb c2 c2 = true) by now apply S. now rewrite R.
    + now rewrite E2, E1.
Qed.

(** (b) [eqb] is only a partial equivalence (IEEE [==]: NaN <> NaN, -0.0 == 0.0) that is
    reflexive on the two classes: the double swap restores every cell up to [eqb] *)
Lemma label_swap_cell_involutive_per :
  (forall x y, eqb x y = true -> eqb y x = true) ->
  (forall x y z, eqb x y = true -> eqb y z = true -> eqb x z = true) ->
  forall c1 c2 x, eqb c1 c1 = true -> eqb c2 c2 = true ->
  let y := label_swap_cell eqb c1 c2 (label_swap_cell eqb c1 c2 x) in
  y = x \/ eqb y x = true.
Proof.
  intros Sy Tr c1 c2 x R1 R2. unfold label_swap_cell.
  destruct (eqb x c2) eqn:E2.
  - destruct (eqb c1 c2) eqn:E12.
    + right. apply Tr with c2; auto.
    + rewrite R1. right. auto.
  - destruct (eqb x c1) eqn:E1.
    + rewrite R2. right. auto.
    + rewrite E2, E1. now left.
Qed.

Lemma label_swap_involutive :
  (forall x y, eqb x y = true <-> x = y) ->
  forall from to col c1 c2 d,
  label_swap eqb from to col c1 c2 (label_swap eqb from to col c1 c2 d) = d.
Proof.
  intros S from to col c1 c2 d. rewrite !label_swap_is_col_update, col_update_twice.
  apply col_update_id. intros _ x. now apply label_swap_cell_involutive_eq.
Qed.

(** exchange of exactly the two classes (Leibniz reading) *)
Lemma label_swap_cell_spec :
  (forall x y, eqb x y = true <-> x = y) ->
  forall c1 c2 x,
  (x = c2 -> label_swap_cell eqb c1 c2 x = c1) /\
  (x = c1 -> x <> c2 -> label_swap_cell eqb c1 c2 x = c2) /\
  (x <> c1 -> x <> c2 -> label_swap_cell eqb c1 c2 x = x).
Proof.
  intros S c1 c2 x. unfold label_swap_cell. repeat split.
  - intros ->. assert (R : eqb c2 c2 = true) by now apply S. now rewrite R.
  - intros -> H. destruct (eqb c1 c2) eqn:E; [apply S in E; congruence|].
    assert (R : eqb c1 c1 = true) by now apply S. now rewrite R.
  - intros H1 H2. destruct (eqb x c2) eqn:E2; [apply S in E2; congruence|].
    destruct (eqb x c1) eqn:E1; [apply S in E1; congruence|]. reflexivity.
Qed.

Lemma label_join_cell_spec :
  (forall x y, eqb x y = true <-> x = y) ->
  forall c1 c2 cn x,
  (x = c1 \/ x = c2 -> label_join_cell eqb c1 c2 cn x = cn) /\
  (x <> c1 -> x <> c2 -> label_join_cell eqb c1 c2 cn x = x).
Proof.
  intros S c1 c2 cn x. unfold label_join_cell. split.
  - intros [->| ->].
    + assert (R : eqb c1 c1 = true) by now apply S. now rewrite R.
    + assert (R : eqb c2 c2 = true) by now apply S. rewrite R. now rewrite orb_true_r.
  - intros H1 H2. destruct (eqb x c1) eqn:E1; [apply S in E1; congruence|].
    destruct (eqb x c2) eqn:E2; [apply S in E2; congruence|]. reflexivity.
Qed.

End LabelLaws.

(** * np.unique *)
Section Unique.
Context {A : Type}.
Variables eqb ltb : A -> A -> bool.

Lemma in_uniq_insert x l y : In y (uniq_insert eqb ltb x l) -> y = x \/ In y l.
Proof.
  induction l as [|z l IH]; simpl.
  - intros [<-|[]]. now left.
  - destruct (eqb x z); [now right|]. destruct (ltb x z); simpl.
    + intros [<-|H]; [now left|now right].
    + intros [<-|H]; [right; now left|]. destruct (IH H); [now left|right; now right].
Qed.

Lemma in_np_unique l y : In y (np_unique eqb ltb l) -> In y l.
Proof.
  induction l as [|x l IH]; simpl; [tauto|].
  intro H. apply in_uniq_insert in H as [->|H]; [now left|right; auto].
Qed.

Lemma uniq_insert_keeps x l y : In y l -> In y (uniq_insert eqb ltb x l).
Proof.
  induction l as [|z l IH]; simpl; [tauto|].
  intro H. destruct (eqb x z); [exact H|]. destruct (ltb x z); [now right|].
  destruct H as [->|H]; [now left|right; auto].
Qed.

Lemma uniq_insert_covers x l : eqb x x = true ->
  exists y, In y (uniq_insert eqb ltb x l) /\ eqb x y = true.
Proof.
  intro R. induction l as [|z l IH]; simpl.
  - exists x. split; [now left|auto].
  - destruct (eqb x z) eqn:E; [exists z; split; [now left|auto]|].
    destruct (ltb x z); [exists x; split; [now left|auto]|].
    destruct IH as [y [H1 H2]]. exists y. split; [now right|auto].
Qed.

(** every value of the column (that equals itself) is represented by a class *)
Lemma np_unique_covers l x : In x l -> eqb x x = true ->
  exists y, In y (np_unique eqb ltb l) /\ eqb x y = true.
Proof.
  induction l as [|z l IH]; simpl; [tauto|].
  intros [->|H] R.
  - now apply uniq_insert_covers.
  - destruct (IH H R) as [y [H1 H2]]. exists y. split; auto. now apply uniq_insert_keeps.
Qed.

(** under a strict total order whose [eqb] is equality the result is strictly ascending *)
Section Sorted.
Hypothesis eqb_eq : forall x y, eqb x y = true <-> x = y.
Hypothesis ltb_trans : forall x y z, ltb x y = true -> ltb y z = true -> ltb x z = true.
Hypothesis ltb_total : forall x y, eqb x y = false -> ltb x y = false -> ltb y x = true.

Lemma uniq_insert_sorted x l :
  StronglySorted (fun a b => ltb a b = true) l ->
  StronglySorted (fun a b => ltb a b = true) (uniq_insert eqb ltb x l).
Proof.
  induction l as [|z l IH]; intro S; simpl.
  - constructor; constructor.
  - destruct (eqb x z) eqn:E; auto. destruct (ltb x z) eqn:L.
    + constructor; auto. constructor; auto.
      inversion S; subst. eapply Forall_impl; [|eassumption]. intros a Ha. eapply ltb_trans; eauto.
    + inversion S; subst. constructor; auto.
      apply Forall_forall. intros y Hy. apply in_uniq_insert in Hy as [->|Hy].
      * now apply ltb_total.
      * rewrite Forall_forall in H2. auto.
Qed.

Lemma np_unique_sorted l : StronglySorted (fun a b => ltb a b = true) (np_unique eqb ltb l).
Proof. induction l; simpl; [constructor|now apply uniq_insert_sorted]. Qed.
End Sorted.
End Unique.

(** * resampling: rows *)
Lemma in_cls_idx {A : Type} eqb (dflt : A) from to col cls d i :
  In i (cls_idx eqb dflt from to col cls d) <->
  exists n r, i = Z.of_nat n /\ nth_error d n = Some r /\
              eqb (nthZ col r dflt) cls = true /\ inw from to n = true.
Proof.
  unfold cls_idx. rewrite in_idx_from. split.
  - intros [n [r [H1 [H2 H3]]]]. exists n, r. simpl in H1. subst i.
    rewrite in_win_cls in H3. apply andb_true_iff in H3 as [H3 H4]. auto.
  - intros [n [r [H1 [H2 [H3 H4]]]]]. exists n, r. subst i. simpl. repeat split; auto.
    rewrite in_win_cls. apply andb_true_iff. auto.
Qed.

Lemma in_grouped {A : Type} eqb (dflt : A) from to col classes d i :
  In i (grouped eqb dflt from to col classes d) ->
  exists n r, i = Z.of_nat n /\ nth_error d n = Some r /\ inw from to n = true.
Proof.
  unfold grouped. rewrite in_flat_map. intros [c [_ H]].
  apply in_cls_idx in H as [n [r [H1 [H2 [_ H4]]]]]. eauto.
Qed.

(** conversely every window row whose label is (==) one of the classes is in the sampling pool *)
Lemma grouped_complete {A : Type} eqb (dflt : A) from to col classes d n r c :
  nth_error d n = Some r -> inw from to n = true -> In c classes ->
  eqb (nthZ col r dflt) c = true ->
  In (Z.of_nat n) (grouped eqb dflt from to col classes d).
Proof.
  intros H1 H2 H3 H4. unfold grouped. apply in_flat_map. exists c. split; auto.
  apply in_cls_idx. exists n, r. auto.
Qed.

Lemma nth_error_assign_window {A : Type} from to src (d : list (list A)) n :
  nth_error (assign_window from to src d) n =
  option_map (fun r => if inw from to n then nthZ (Z.of_nat n - from) src r else r) (nth_error d n).
Proof. unfold assign_window. apply nth_error_on_window. Qed.

Definition positions_ok (g positions : list Z) : Prop :=
  Forall (fun p => 0 <= p < len g) positions.

Lemma sample_idxs_in g positions : positions_ok g positions ->
  Forall (fun i => In i g) (sample_idxs g positions).
Proof.
  unfold positions_ok, sample_idxs, len. intro H. apply Forall_forall. intros i Hi.
  apply in_map_iff in Hi as [p [<- Hp]]. rewrite Forall_forall in H. specialize (H p Hp).
  rewrite nthZ_spec. destruct (p <? 0) eqn:E; [lia|].
  destruct (nth_error g (Z.to_nat p)) eqn:E2.
  - eapply nth_error_In; eauto.
  - apply nth_error_None in E2. lia.
Qed.

Section Resample.
Context {A : Type}.
Variables eqb ltb : A -> A -> bool.
Variable dflt : A.

Definition pool from to col (d : list (list A)) : list Z :=
  grouped eqb dflt from to col (np_unique eqb ltb (column dflt col d)) d.

Lemma length_resample from to col positions d :
  length (resample eqb ltb dflt from to col positions d) = length d.
Proof.
  unfold resample. destruct (grouped _ _ _ _ _ _ _); auto.
  unfold assign_window. apply length_on_window.
Qed.

Lemma resample_outside from to col positions d n :
  inw from to n = false ->
  nth_error (resample eqb ltb dflt from to col positions d) n = nth_error d n.
Proof.
  intro H. unfold resample. destruct (grouped _ _ _ _ _ _ _); auto.
  unfold assign_window. now apply on_window_outside.
Qed.

(** what the code does, row by row: window row [from + k] becomes the row drawn k-th *)
Lemma resample_row from to col positions d n r :
  pool from to col d <> [] ->
  nth_error d n = Some r -> inw from to n = true ->
  nth_error (resample eqb ltb dflt from to col positions d) n =
  Some (nthZ (Z.of_nat n - from)
             (take_rows (sample_idxs (pool from to col d) positions) d) r).
Proof.
  intros Hp Hr Hw. unfold resample, pool in *.
  destruct (grouped _ _ _ _ _ _ _) eqn:E; [congruence|].
  rewrite nth_error_assign_window, Hr. simpl. now rewrite Hw.
Qed.

Lemma resample_rows_from_window from to col positions d n r' :
  positions_ok (pool from to col d) positions ->
  inw from to n = true ->
  nth_error (resample eqb ltb dflt from to col positions d) n = Some r' ->
  In r' (win_rows from to d).
Proof.
  intros Hpos Hw Hn. apply in_win_rows.
  destruct (nth_error d n) as [r|] eqn:Hr.
  2:{ assert (L := length_resample from to col positions d).
      apply nth_error_None in Hr. assert (nth_error (resample eqb ltb dflt from to col positions d) n = None)
        by (apply nth_error_None; lia). congruence. }
  destruct (pool from to col d) as [|p0 pl] eqn:Ep.
  - unfold resample, pool in *. rewrite Ep in Hn. exists n. split; congruence.
  - rewrite (resample_row from to col positions d n r) in Hn by (auto; congruence).
    injection Hn as <-. rewrite Ep.
    set (src := take_rows (sample_idxs (p0 :: pl) positions) d).
    rewrite nthZ_spec. destruct (Z.of_nat n - from <? 0); [exists n; auto|].
    destruct (nth_error src (Z.to_nat (Z.of_nat n - from))) as [r'|] eqn:Es; [|exists n; auto].
    unfold src, take_rows in Es. rewrite nth_error_map in Es.
    destruct (nth_error (sample_idxs (p0 :: pl) positions) (Z.to_nat (Z.of_nat n - from))) as [i|] eqn:Ei;
      [|discriminate].
    simpl in Es. injection Es as <-.
    assert (Hin : In i (p0 :: pl)).
    { rewrite <- Ep in Hpos. apply sample_idxs_in in Hpos. rewrite Forall_forall in Hpos.
      rewrite <- Ep. apply Hpos. rewrite Ep. eapply nth_error_In; eauto. }
    rewrite <- Ep in Hin. unfold pool in Hin. apply in_grouped in Hin as [m [rm [-> [H1 H2]]]].
    exists m. split; auto. rewrite nthZ_of_nat. now rewrite H1.
Qed.

Lemma resample_rect w from to col positions d :
  positions_ok (pool from to col d) positions -> rect w d ->
  rect w (resample eqb ltb dflt from to col positions d).
Proof.
  intros Hpos Hd. unfold rect in *. apply Forall_forall. intros r' Hr'.
  apply In_nth_error in Hr' as [n Hn].
  destruct (inw from to n) eqn:Hw.
  - apply (resample_rows_from_window _ _ _ _ _ _ _ Hpos Hw) in Hn.
    apply in_win_rows in Hn as [m [Hm _]]. rewrite Forall_forall in Hd. apply Hd.
    eapply nth_error_In; eauto.
  - rewrite resample_outside in Hn by auto. rewrite Forall_forall in Hd. apply Hd.
    eapply nth_error_In; eauto.
Qed.

End Resample.

(** * FeatureCoverInjector *)
Lemma nth_error_sel_from_neq {B : Type} (col : nat) : forall (r : list B) k j,
  (k <= col)%nat ->
  nth_error (sel_from (fun q => negb (q =? Z.of_nat col)) (Z.of_nat k) r) j =
  nth_error r (if (j + k <? col)%nat then j else S j).
Proof.
  induction r as [|x r IH]; intros k j Hk; simpl.
  - destruct (j + k <? col)%nat; now destruct j.
  - destruct (Z.of_nat k =? Z.of_nat col) eqn:E; simpl.
    + assert (k = col) by lia. subst k.
      assert (G : forall (m : list B) q, (col < q)%nat ->
                sel_from (fun q => negb (q =? Z.of_nat col)) (Z.of_nat q) m = m).
      { induction m as [|y m IHm]; intros q Hq; simpl; auto.
        destruct (Z.of_nat q =? Z.of_nat col) eqn:E2; [lia|]. simpl. f_equal.
        replace (Z.of_nat q + 1) with (Z.of_nat (S q)) by lia. apply IHm. lia. }
      replace (Z.of_nat col + 1) with (Z.of_nat (S col)) by lia. rewrite G by lia.
      destruct (j + col <? col)%nat eqn:E3; [apply Nat.ltb_lt in E3; lia|]. reflexivity.
    + destruct j as [|j]; simpl.
      * assert (E3 : (k <? col)%nat = true) by (apply Nat.ltb_lt; lia). now rewrite E3.
      * replace (Z.of_nat k + 1) with (Z.of_nat (S k)) by lia. rewrite IH by lia.
        replace (j + S k)%nat with (S (j + k)) by lia.
        destruct (S (j + k) <? col)%nat; reflexivity.
Qed.

Lemma nth_error_remove_col {B : Type} (col : nat) (r : list B) j :
  nth_error (remove_col (Z.of_nat col) r) j = nth_error r (if (j <? col)%nat then j else S j).
Proof.
  unfold remove_col. change 0 with (Z.of_nat 0).
  rewrite nth_error_sel_from_neq by lia. now rewrite Nat.add_0_r.
Qed.

Lemma length_remove_col {B : Type} (col : nat) (r : list B) :
  (col < length r)%nat -> length (remove_col (Z.of_nat col) r) = (length r - 1)%nat.
Proof.
  intro H.
  assert (U : nth_error (remove_col (Z.of_nat col) r) (length r - 1) = None).
  { rewrite nth_error_remove_col. destruct (length r - 1 <? col)%nat eqn:E.
    - apply Nat.ltb_lt in E. lia.
    - apply nth_error_None. lia. }
  apply nth_error_None in U.
  destruct (length r - 1)%nat as [|m] eqn:Em.
  - lia.
  - assert (V : nth_error (remove_col (Z.of_nat col) r) m <> None).
    { rewrite nth_error_remove_col. destruct (m <? col)%nat; apply nth_error_Some; lia. }
    apply nth_error_Some in V. lia.
Qed.

Lemma length_feature_cover {A : Type} col idxs (d : list (list A)) :
  length (feature_cover col idxs d) = length idxs.
Proof. unfold feature_cover. apply map_length. Qed.

Lemma nth_error_feature_cover {A : Type} col idxs (d : list (list A)) k :
  nth_error (feature_cover col idxs d) k =
  option_map (fun i => remove_col col (nthZ i d [])) (nth_error idxs k).
Proof. unfold feature_cover. apply nth_error_map. Qed.

Lemma nodupb_NoDup l : nodupb l = true -> NoDup l.
Proof.
  induction l as [|x l IH]; simpl; intro H; constructor.
  - apply andb_true_iff in H as [H _]. intro Hin.
    assert (E : existsb (Z.eqb x) l = true) by (apply existsb_exists; exists x; split; [auto|lia]).
    now rewrite E in H.
  - apply andb_true_iff in H as [_ H]. auto.
Qed.

(** a legal oracle answer, as a proposition: the k-th class owns the k-th chunk of [n] labels *)
Definition chunk (n : nat) (k : nat) (idxs : list Z) : list Z := firstn n (skipn (k * n) idxs).

Lemma skipn_plus {B : Type} : forall a b (l : list B), skipn (a + b) l = skipn b (skipn a l).
Proof.
  induction a; intros b l; simpl; auto. destruct l; simpl; [now rewrite skipn_nil|apply IHa].
Qed.

Lemma chunks_ok_spec {A : Type} eqb (dflt : A) col d n : forall classes idxs,
  chunks_ok eqb dflt col d n classes idxs = true ->
  length idxs = (n * length classes)%nat /\
  forall k c, nth_error classes k = Some c ->
    length (chunk n k idxs) = n /\ NoDup (chunk n k idxs) /\
    Forall (fun i => row_in_group eqb dflt col d c i = true) (chunk n k idxs).
Proof.
  induction classes as [|c cs IH]; intros idxs H; simpl in H.
  - destruct idxs; [|discriminate]. split; [simpl; lia|]. intros [|k] c' Hc; discriminate.
  - apply andb_true_iff in H as [H H4]. apply andb_true_iff in H as [H H3].
    apply andb_true_iff in H as [H1 H2]. apply Nat.eqb_eq in H1.
    destruct (IH _ H4) as [L R]. split.
    + rewrite firstn_length in H1. rewrite skipn_length in L. simpl. lia.
    + intros [|k] c' Hc; simpl in Hc.
      * injection Hc as <-. unfold chunk. simpl. repeat split; auto.
        -- now apply nodupb_NoDup.
        -- apply Forall_forall. intros i Hi. rewrite forallb_forall in H3. auto.
      * specialize (R k c' Hc). unfold chunk in *. simpl.
        rewrite skipn_plus. exact R.
Qed.

(** [n_groups = 0] gives [n = 0], which is also what Coq's total division returns *)
Lemma cover_n_div {A : Type} eqb ltb (dflt : A) col size d :
  cover_n eqb ltb dflt col size d = size / len (np_unique eqb ltb (column dflt col d)).
Proof.
  unfold cover_n. destruct (np_unique eqb ltb (column dflt col d)); [|reflexivity].
  simpl. now rewrite Zdiv_0_r.
Qed.

Lemma cover_oracle_ok_spec {A : Type} eqb ltb (dflt : A) col size idxs d :
  cover_oracle_ok eqb ltb dflt col size idxs d = true ->
  let classes := np_unique eqb ltb (column dflt col d) in
  let n := cover_n eqb ltb dflt col size d in
  0 <= n /\ n = size / len classes /\
  len idxs = n * len classes /\
  forall k c, nth_error classes k = Some c ->
    len (chunk (Z.to_nat n) k idxs) = n /\ NoDup (chunk (Z.to_nat n) k idxs) /\
    Forall (fun i => row_in_group eqb dflt col d c i = true) (chunk (Z.to_nat n) k idxs).
Proof.
  unfold cover_oracle_ok. intro H. apply andb_true_iff in H as [H0 H].
  apply chunks_ok_spec in H as [L R]. cbv zeta.
  assert (0 <= cover_n eqb ltb dflt col size d) by lia.
  split; [auto|]. split; [apply cover_n_div|]. split.
  - unfold len. rewrite L. lia.
  - intros k c Hc. destruct (R k c Hc) as [R1 [R2 R3]]. repeat split; auto.
    unfold len. rewrite R1. lia.
Qed.

(** * arithmetic injectors *)
Section NumericProofs.
Variable N : Num.
Local Open Scope num_scope.

Lemma feature_shift_is_col_update mean from to col sf alpha d :
  feature_shift N mean from to col sf alpha d =
  col_update from to col (fun _ x => x + shift_delta N mean from to col sf alpha d) d.
Proof. reflexivity. Qed.

Lemma brownian_is_col_update from to col x0 signs d :
  brownian N from to col x0 signs d =
  col_update from to col
    (fun i x => x + nthZ (i - from)%Z (random_walk N (to - from)%Z x0 signs) f0) d.
Proof. reflexivity. Qed.

(** the walk: value after k steps *)
Definition walk_at (st x0 : F N) (signs : list Z) (k : nat) : F N :=
  fold_left (fun x s => x + fofZ s / st) (firstn k signs) x0.

Lemma nth_error_walk st : forall signs x0 k, (k <= length signs)%nat ->
  nth_error (x0 :: walk_tail N st x0 signs) k = Some (walk_at st x0 signs k).
Proof.
  induction signs as [|s signs IH]; intros x0 k Hk.
  - simpl in Hk. assert (k = 0%nat) by lia. subst. reflexivity.
  - destruct k as [|k]; [reflexivity|]. simpl. simpl in Hk.
    rewrite IH by lia. reflexivity.
Qed.

Lemma length_walk_tail st : forall signs x0, length (walk_tail N st x0 signs) = length signs.
Proof. induction signs; intros; simpl; auto. Qed.

Lemma length_random_walk steps x0 signs :
  0 <= steps -> (steps - 1 <= len signs)%Z -> len (random_walk N steps x0 signs) = steps.
Proof.
  intros H0 H1. unfold random_walk, len in *.
  destruct (steps <=? 0)%Z eqn:E; [simpl; lia|].
  simpl. rewrite length_walk_tail, firstn_length. lia.
Qed.

Lemma random_walk_nth steps x0 signs (k : nat) :
  (Z.of_nat k < steps)%Z -> (steps - 1 <= len signs)%Z ->
  nthZ (Z.of_nat k) (random_walk N steps x0 signs) f0 =
  walk_at (fsqrt (fofZ steps)) x0 signs k.
Proof.
  intros Hk Hl. unfold random_walk, len in *.
  destruct (steps <=? 0)%Z eqn:E; [lia|].
  rewrite nthZ_of_nat, nth_error_walk.
  - unfold walk_at. rewrite firstn_firstn. now rewrite Nat.min_l by lia.
  - rewrite firstn_length. lia.
Qed.

End NumericProofs.

(** * containers *)
Definition same_labels {L A : Type} (a b : frame L A) : Prop :=
  match a, b with
  | Arr _, Arr _ => True
  | DF c _, DF c' _ => c = c'
  | _, _ => False
  end.

Lemma same_labels_with_rows {L A : Type} (fr : frame L A) r : same_labels fr (with_rows fr r).
Proof. destruct fr; simpl; auto. Qed.
Lemma rows_of_with_rows {L A : Type} (fr : frame L A) r : rows_of (with_rows fr r) = r.
Proof. destruct fr; reflexivity. Qed.

Lemma call1_spec {L A : Type} leqb (fr : frame L A) c f fr' :
  call1 leqb fr c f = Some fr' ->
  exists i r, resolve leqb fr c = Some i /\ f i (rows_of fr) = Some r /\
              fr' = with_rows fr r /\ same_labels fr fr' /\ rows_of fr' = r.
Proof.
  unfold call1. destruct (resolve leqb fr c) as [i|]; [|discriminate].
  destruct (f i (rows_of fr)) as [r|] eqn:E; [|discriminate].
  intro H. injection H as <-. exists i, r. repeat split; auto.
  - apply same_labels_with_rows.
  - apply rows_of_with_rows.
Qed.

Lemma call_swap_spec {L A : Type} leqb (fr : frame L A) from to c1 c2 fr' :
  call_swap leqb fr from to c1 c2 = Some fr' ->
  exists i1 i2, resolve leqb fr c1 = Some i1 /\ resolve leqb fr c2 = Some i2 /\
                same_labels fr fr' /\ rows_of fr' = feature_swap from to i1 i2 (rows_of fr).
Proof.
  unfold call_swap. destruct (resolve leqb fr c1) as [i1|]; [|discriminate].
  destruct (resolve leqb fr c2) as [i2|]; [|discriminate].
  intro H. injection H as <-. exists i1, i2. repeat split; auto.
  - apply same_labels_with_rows.
  - apply rows_of_with_rows.
Qed.

Lemma index_of_spec {L : Type} (leqb : L -> L -> bool) l : forall cols k i,
  index_of leqb l cols k = Some i ->
  exists n l', i = k + Z.of_nat n /\ nth_error cols n = Some l' /\ leqb l l' = true /\
               forall m l'', (m < n)%nat -> nth_error cols m = Some l'' -> leqb l l'' = false.
Proof.
  induction cols as [|c cols IH]; intros k i H; simpl in H; [discriminate|].
  destruct (leqb l c) eqn:E.
  - injection H as <-. exists 0%nat, c. repeat split; auto; [lia|]. intros m l'' Hm. lia.
  - apply IH in H as [n [l' [H1 [H2 [H3 H4]]]]]. exists (S n), l'. repeat split; auto; [lia|].
    intros [|m] l'' Hm Hl; simpl in Hl; [congruence|]. eapply H4; eauto. lia.
Qed.

Lemma call_cover_spec {L A : Type} leqb eqb ltb (dflt : A) (fr : frame L A) c size idxs fr' :
  call_cover leqb eqb ltb dflt fr c size idxs = Some fr' ->
  exists i, resolve leqb fr c = Some i /\
            cover_raises eqb ltb dflt i size (rows_of fr) = false /\
            rows_of fr' = feature_cover i idxs (rows_of fr) /\
            match fr, fr' with
            | Arr _, Arr _ => True
            | DF cols _, DF cols' _ => cols' = remove_col i cols
            | _, _ => False
            end.
Proof.
  unfold call_cover. destruct (resolve leqb fr c) as [i|]; [|discriminate].
  destruct (cover_raises eqb ltb dflt i size (rows_of fr)) eqn:E; [discriminate|].
  intro H. injection H as <-. exists i. destruct fr; simpl; auto.
Qed.

(** * statements in the form used by Prop_C20 *)
Lemma col_update_effect {A : Type} from to col (f : Z -> A -> A) d i j x :
  cell d i j = Some x -> inw from to i = true -> Z.of_nat j = col ->
  cell (col_update from to col f d) i j = Some (f (Z.of_nat i) x).
Proof.
  intros Hc Hw Hj. rewrite cell_col_update, Hc, Hw. simpl.
  destruct (Z.of_nat j =? col) eqn:E; [reflexivity|lia].
Qed.

Lemma brownian_effect (N : Num) from to col x0 signs (d : list (list (F N))) (k j : nat) x :
  0 <= from -> to - from - 1 <= len signs -> Z.of_nat k < to - from ->
  cell d (Z.to_nat from + k) j = Some x -> Z.of_nat j = col ->
  cell (brownian N from to col x0 signs d) (Z.to_nat from + k) j =
  Some (fadd x (walk_at N (fsqrt (fofZ (to - from))) x0 signs k)).
Proof.
  intros H0 Hl Hk Hc Hj. rewrite brownian_is_col_update.
  rewrite (col_update_effect _ _ _ _ _ _ _ x) by (auto; unfold inw, in_win; lia).
  do 2 f_equal. replace (Z.of_nat (Z.to_nat from + k) - from) with (Z.of_nat k) by lia.
  apply random_walk_nth; lia.
Qed.

Lemma walk_at_0 (N : Num) st x0 signs : walk_at N st x0 signs 0 = x0.
Proof. reflexivity. Qed.
Lemma walk_at_S (N : Num) st x0 signs k s :
  nth_error signs k = Some s ->
  walk_at N st x0 signs (S k) = fadd (walk_at N st x0 signs k) (fdiv (fofZ s) st).
Proof.
  unfold walk_at. revert x0 k. induction signs as [|s0 signs IH]; intros x0 [|k] H; simpl in *; try discriminate.
  - now injection H as ->.
  - now apply IH.
Qed.

Lemma chunks_ok_all {A : Type} eqb (dflt : A) col d n : forall classes idxs,
  chunks_ok eqb dflt col d n classes idxs = true ->
  Forall (fun i => exists c, In c classes /\ row_in_group eqb dflt col d c i = true) idxs.
Proof.
  induction classes as [|c cs IH]; intros idxs H; simpl in H.
  - destruct idxs; [constructor|discriminate].
  - apply andb_true_iff in H as [H H4]. apply andb_true_iff in H as [H H3].
    rewrite <- (firstn_skipn n idxs). apply Forall_app. split.
    + apply Forall_forall. intros i Hi. rewrite forallb_forall in H3. exists c. split; [now left|auto].
    + apply IH in H4. eapply Forall_impl; [|exact H4]. intros i [c' [H1 H2]]. exists c'. split; [now right|auto].
Qed.

Lemma feature_cover_rows {A : Type} eqb ltb (dflt : A) (col : nat) size idxs (d : list (list A)) k i :
  cover_oracle_ok eqb ltb dflt (Z.of_nat col) size idxs d = true ->
  nth_error idxs k = Some i ->
  exists r, 0 <= i /\ nth_error d (Z.to_nat i) = Some r /\
            nth_error (feature_cover (Z.of_nat col) idxs d) k = Some (remove_col (Z.of_nat col) r) /\
            exists c, In c (np_unique eqb ltb (column dflt (Z.of_nat col) d)) /\
                      eqb (nthZ (Z.of_nat col) r dflt) c = true.
Proof.
  unfold cover_oracle_ok. intros H Hk. apply andb_true_iff in H as [_ H].
  apply chunks_ok_all in H. rewrite Forall_forall in H.
  destruct (H i (nth_error_In _ _ Hk)) as [c [Hc Hr]].
  unfold row_in_group, len in Hr. apply andb_true_iff in Hr as [Hr Hl].
  destruct (nth_error d (Z.to_nat i)) as [r|] eqn:E; [|apply nth_error_None in E; lia].
  exists r. repeat split; [lia| |].
  - rewrite nth_error_feature_cover, Hk. simpl. do 2 f_equal. apply nthZ_some; [lia|auto].
  - exists c. split; auto. rewrite (nthZ_some i d r) in Hl by (auto; lia). exact Hl.
Qed.

(** * instance state: every call overwrites [_columns] before reading it *)
Lemma preprocess_state_irrelevant {L A : Type} (st1 st2 : istate L) (fr : frame L A) :
  preprocess st1 fr = preprocess st2 fr.
Proof. destruct fr; reflexivity. Qed.

Ltac split_matches :=
  repeat match goal with
         | |- context [match ?x with _ => _ end] => destruct x eqn:?; simpl
         | |- context [if ?x then _ else _] => destruct x eqn:?; simpl
         end; auto.

Lemma call1_st_stateless {L A : Type} leqb (st : istate L) (fr : frame L A) c f :
  snd (call1_st leqb st fr c f) = call1 leqb fr c f /\
  fst (call1_st leqb st fr c f) = match fr with Arr _ => None | DF cols _ => Some cols end.
Proof.
  unfold call1_st, call1. destruct fr as [r|cols r]; simpl; (split; [|reflexivity]); split_matches.
Qed.

Lemma call_swap_st_stateless {L A : Type} leqb (st : istate L) (fr : frame L A) from to c1 c2 :
  snd (call_swap_st leqb st fr from to c1 c2) = call_swap leqb fr from to c1 c2 /\
  fst (call_swap_st leqb st fr from to c1 c2) = match fr with Arr _ => None | DF cols _ => Some cols end.
Proof.
  unfold call_swap_st, call_swap. destruct fr as [r|cols r]; simpl; (split; [|reflexivity]); split_matches.
Qed.

Lemma call_cover_st_stateless {L A : Type} leqb eqb ltb (dflt : A) (st : istate L) (fr : frame L A)
  c size idxs :
  snd (call_cover_st leqb eqb ltb dflt st fr c size idxs) = call_cover leqb eqb ltb dflt fr c size idxs /\
  fst (call_cover_st leqb eqb ltb dflt st fr c size idxs) = match fr with Arr _ => None | DF cols _ => Some cols end.
Proof.
  unfold call_cover_st, call_cover. destruct fr as [r|cols r]; simpl; (split; [|reflexivity]); split_matches.
Qed.

(** a whole history: the results are those of independent calls, whatever the initial attribute *)
Lemma run_calls_stateless {L A X : Type} (step : istate L -> X -> istate L * option (frame L A))
  (pure : X -> option (frame L A)) :
  (forall st x, snd (step st x) = pure x) ->
  forall xs st, map snd (run_calls step st xs) = map pure xs.
Proof.
  intros H xs. induction xs as [|x xs IH]; intro st; simpl; [reflexivity|].
  now rewrite H, IH.
Qed.

(** * LabelDirichletInjector: which class gets which component of the draw *)
Lemma lookup_combine (N : Num) : forall (keys dir : list (F N)) (i : nat) k v,
  nth_error keys i = Some k -> nth_error dir i = Some v ->
  feqb k k = true ->
  (forall j k', (j < i)%nat -> nth_error keys j = Some k' -> feqb k k' = false) ->
  lookup N k (combine keys dir) = Some v.
Proof.
  induction keys as [|k0 keys IH]; intros dir i k v Hk Hv Hr Hd.
  - destruct i; discriminate.
  - destruct dir as [|v0 dir]; [destruct i; discriminate|].
    destruct i as [|i]; simpl in *.
    + injection Hk as ->. injection Hv as ->. now rewrite Hr.
    + rewrite (Hd 0%nat k0) by (auto; lia). apply (IH dir i); auto.
      intros j k' Hj Hk'. apply (Hd (S j) k'); [lia|exact Hk'].
Qed.
