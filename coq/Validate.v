(** Model of the input validation of menelaus/detector.py (StreamingDetector / BatchDetector:
    _validate_X, _validate_y, _validate_input), of the univariate guards of
    change_detection/{adwin,cusum,page_hinkley}.py and data_drift/cdbd.py, and of the call order
    "reset-if-drift ; validate ; count" that every concrete update() has.  Statement by statement,
    on the tree after the fixes S9-S12 (S12 for BatchDetector is NOT fixed: known finding).
    No proofs here. *)
From MV Require Import Base.

(** ---------------------------------------------------------------------------------------
    Inputs.  An input is described by its container and its extent; the validators look at
    nothing else.  Column labels are integers (the harness numbers the labels it uses;
    a RangeIndex is 0,1,2,...; [Index.equals] is equality of the label lists). *)
Definition name := Z.

Inductive input :=
| InDF (names : list name) (rows : Z)   (* pandas.DataFrame: len(X.columns) = |names| *)
| InArr2 (rows cols : Z)                (* 2-D ndarray / list of lists *)
| In1D (n : Z)                          (* list / tuple / 1-D ndarray of n values *)
| InSeries (n : Z)                      (* pandas.Series of n values: np.array gives 1-D *)
| InScalar.                             (* python or numpy scalar: np.array gives 0-D *)

Definition zlen {A} (l : list A) : Z := Z.of_nat (length l).
Definition names_eqb : list name -> list name -> bool := list_eqb Z.eqb.
Definition is_df (x : input) : bool := match x with InDF _ _ => true | _ => false end.

(** the two attributes of the detector that validation reads and writes *)
Record vstate := mkV { input_cols : option (list name); input_col_dim : option Z }.
Definition v_init : vstate := mkV None None.

(** outcome of a validation: the shape of the returned array and the attributes afterwards, or
    ValueError and the attributes afterwards (the model computes them; that they are the old ones
    is a theorem, not a convention) *)
Inductive result := Accept (shape : Z * Z) (st : vstate) | Reject (st : vstate).

Definition is_accept (r : result) : bool := match r with Accept _ _ => true | Reject _ => false end.
Definition state_of (r : result) : vstate := match r with Accept _ s => s | Reject s => s end.

(** [ary.shape] after the coercions of the two classes:
    DataFrame: X.values; otherwise np.array(X), and arrays of <= 1 dimension are reshaped to ONE
    ROW by the streaming class (reshape(1,-1)) and to ONE COLUMN by the batch class (reshape(-1,1)) *)
Definition coerce_stream (x : input) : Z * Z :=
  match x with
  | InDF ns r => (r, zlen ns)
  | InArr2 r c => (r, c)
  | In1D n | InSeries n => (1, n)
  | InScalar => (1, 1)
  end.

Definition coerce_batch (x : input) : Z * Z :=
  match x with
  | InDF ns r => (r, zlen ns)
  | InArr2 r c => (r, c)
  | In1D n | InSeries n => (n, 1)
  | InScalar => (1, 1)
  end.

(** the local variables (input_cols, input_col_dim) at the end of the isinstance branch;
    [None] = ValueError was raised inside the branch *)
Definition locals := option (option (list name) * option Z).

(** StreamingDetector, DataFrame branch (detector.py:59-77) *)
Definition df_branch_stream (st : vstate) (ns : list name) : locals :=
  match input_cols st with
  | None =>
      if (match input_col_dim st with
          | Some d => negb (zlen ns =? d)      (* width established by earlier non-dataframe input *)
          | None => false
          end)
      then None
      else Some (Some ns, Some (zlen ns))
  | Some cs =>
      if negb (names_eqb ns cs) then None else Some (input_cols st, input_col_dim st)
  end.

(** BatchDetector, DataFrame branch (detector.py:248-258): no width test when no names are stored *)
Definition df_branch_batch (st : vstate) (ns : list name) : locals :=
  match input_cols st with
  | None => Some (Some ns, Some (zlen ns))
  | Some cs =>
      if negb (names_eqb ns cs) then None else Some (input_cols st, input_col_dim st)
  end.

(** both classes, non-DataFrame branch (detector.py:84-92, 266-274); [w] = ary.shape[1] *)
Definition arr_branch (st : vstate) (w : Z) : locals :=
  match input_col_dim st with
  | None => Some (input_cols st, Some w)
  | Some d => if negb (w =? d) then None else Some (input_cols st, input_col_dim st)
  end.

(** StreamingDetector._validate_X *)
Definition validate_X_stream (st : vstate) (x : input) : result :=
  let shp := coerce_stream x in
  match (match x with InDF ns _ => df_branch_stream st ns | _ => arr_branch st (snd shp) end) with
  | None => Reject st
  | Some (c, d) =>
      if negb (fst shp =? 1) then Reject st        (* "should contain only one observation" *)
      else Accept shp (mkV c d)                     (* only now the attributes are assigned *)
  end.

(** BatchDetector._validate_X *)
Definition validate_X_batch (st : vstate) (x : input) : result :=
  let shp := coerce_batch x in
  match (match x with InDF ns _ => df_branch_batch st ns | _ => arr_branch st (snd shp) end) with
  | None => Reject st
  | Some (c, d) =>
      if fst shp <=? 1 then Reject st              (* "should contain more than one observation" *)
      else Accept shp (mkV c d)
  end.

(** ADWIN / CUSUM / PageHinkley.update: remember the attributes, validate, and when the validated
    array has more than one column put the attributes back and raise *)
Definition validate_univariate (st : vstate) (x : input) : result :=
  let prior := st in
  match validate_X_stream st x with
  | Reject s => Reject s
  | Accept shp s => if negb (snd shp =? 1) then Reject prior else Accept shp s
  end.

(** CDBD.update / set_reference: np.shape(X) is inspected BEFORE anything else
    (len(np.shape(X)) > 1 and np.shape(X)[1] != 1), then HistogramDensityMethod validates *)
Definition cdbd_guard (x : input) : bool :=
  match x with
  | InDF ns _ => negb (zlen ns =? 1)
  | InArr2 _ c => negb (c =? 1)
  | _ => false
  end.

Definition validate_cdbd (st : vstate) (x : input) : result :=
  if cdbd_guard x then Reject st else validate_X_batch st x.

(** HistogramDensityMethod.set_reference with detect_batch = 1 (HDDDM, CDBD): the second half of the
    reference is fed back as a test batch, so after validating the method refuses a reference of fewer
    than three rows and puts the attributes back (histogram_density_method.py:235-242) *)
Definition validate_reference_min3 (st : vstate) (x : input) : result :=
  let prior := st in
  match validate_X_batch st x with
  | Reject s => Reject s
  | Accept shp s => if fst shp <? 3 then Reject prior else Accept shp s
  end.

(** _validate_y.  Streaming: np.array(y).ravel().shape == (1,), i.e. exactly one element.
    Batch: arrays of <= 1 dimension become ONE ROW and are then refused because they have one row;
    2-D input needs a row count different from 1 and exactly one column. *)
Definition size_of (x : input) : Z :=
  match x with
  | InDF ns r => r * zlen ns
  | InArr2 r c => r * c
  | In1D n | InSeries n => n
  | InScalar => 1
  end.

Definition validate_y_stream (y : input) : bool := size_of y =? 1.

Definition validate_y_batch (y : input) : bool :=
  let shp := coerce_stream y in                    (* reshape(1,-1) in this method *)
  if fst shp =? 1 then false else snd shp =? 1.

(** _validate_input: X, then y_true, then y_pred; the first ValueError ends the call *)
Definition opt_y (vy : input -> bool) (y : option input) : bool :=
  match y with None => true | Some v => vy v end.

Definition validate_input (vX : vstate -> input -> result) (vy : input -> bool)
           (st : vstate) (x : option input) (yt yp : option input) : bool * vstate :=
  let '(okx, st1) := match x with
                     | None => (true, st)
                     | Some v => let r := vX st v in (is_accept r, state_of r)
                     end in
  if negb okx then (false, st1)
  else if negb (opt_y vy yt) then (false, st1)
  else if negb (opt_y vy yp) then (false, st1)
  else (true, st1).

(** ---------------------------------------------------------------------------------------
    Histories of validator calls *)
Definition validator := vstate -> input -> result.

Definition final (V : validator) (st : vstate) (h : list input) : vstate :=
  fold_left (fun s x => state_of (V s x)) h st.

Fixpoint verdicts (V : validator) (st : vstate) (h : list input) : list bool :=
  match h with
  | [] => []
  | x :: t => is_accept (V st x) :: verdicts V (state_of (V st x)) t
  end.

(** the inputs of a history that were accepted / the history with the rejected calls erased *)
Fixpoint accepted_inputs (V : validator) (st : vstate) (h : list input) : list input :=
  match h with
  | [] => []
  | x :: t => if is_accept (V st x) then x :: accepted_inputs V (state_of (V st x)) t
              else accepted_inputs V (state_of (V st x)) t
  end.

(** ---------------------------------------------------------------------------------------
    The detector as a machine.  [D]: everything the detector stores besides the two validator
    attributes (counters, drift_state, windows, statistics ...); [P]: the values carried by an
    input (the same for every container holding them).  Every concrete update() is
        early guard (CDBD only) ; reset-if-drift [pre] ; validate ; count-and-compute [body]
    and [body] sees the validated array only: its shape and the values.  The payload also says which
    method is called (update or set_reference), hence which validation [V p] runs. *)
Section Machine.
  Variables D P : Type.
  Variable early : input -> bool.              (* raised before anything else happens *)
  Variable pre : D -> D.                       (* if drift_state == "drift": reset() *)
  Variable V : P -> validator.                 (* which validation this call runs (update / set_reference) *)
  Variable body : D -> Z * Z -> P -> D.        (* super().update(...) and the detector's own work *)

  Record mstate := mkM { m_v : vstate; m_d : D }.

  Definition m_update (m : mstate) (c : input * P) : mstate * bool :=
    if early (fst c) then (m, false)
    else
      let d1 := pre (m_d m) in
      match V (snd c) (m_v m) (fst c) with
      | Reject s => (mkM s d1, false)
      | Accept shp s => (mkM s (body d1 shp (snd c)), true)
      end.

  Definition m_final (m : mstate) (h : list (input * P)) : mstate :=
    fold_left (fun s c => fst (m_update s c)) h m.

  (** the detector state after each ACCEPTED call (what an observer of the outputs sees) *)
  Fixpoint m_trace (m : mstate) (h : list (input * P)) : list D :=
    match h with
    | [] => []
    | c :: t => let '(m', ok) := m_update m c in
                if ok then m_d m' :: m_trace m' t else m_trace m' t
    end.

  (** the history with the rejected calls erased *)
  Fixpoint m_erase (m : mstate) (h : list (input * P)) : list (input * P) :=
    match h with
    | [] => []
    | c :: t => let '(m', ok) := m_update m c in
                if ok then c :: m_erase m' t else m_erase m' t
    end.

  Fixpoint m_verdicts (m : mstate) (h : list (input * P)) : list bool :=
    match h with
    | [] => []
    | c :: t => snd (m_update m c) :: m_verdicts (fst (m_update m c)) t
    end.
End Machine.
Arguments mkM {D}. Arguments m_v {D}. Arguments m_d {D}.
Arguments m_update {D P}. Arguments m_final {D P}. Arguments m_trace {D P}.
Arguments m_erase {D P}. Arguments m_verdicts {D P}.

(** two containers hold "the same value" for a class when the validated arrays have one shape *)
Definition same_shape (co : input -> Z * Z) (x y : input) : Prop := co x = co y.

(** ---------------------------------------------------------------------------------------
    Checkers used by the correspondence harness.
    One user-level call update()/set_reference() of a detector is recorded as
      - the labels y_true / y_pred it passed to _validate_input (streaming label detectors),
      - the user's X (for the early CDBD guard),
      - the list of _validate_X invocations that happened inside the call, in order, each marked
        "this is the user's X" or "internal" (HDM's proxy batch, KdqTreeBatch's own reference,
        NNDVI's new reference, ADWINAccuracy's 0/1 value); internal descriptors are oracle inputs,
        together with the shape each accepted invocation returned,
      - the observed outcome (accepted / ValueError) and the two attributes after the call. *)
Inductive dkind := KStream | KStreamUni | KBatch | KBatchCdbd
                 | KBatchHdm1 (* HDDDM, detect_batch = 1 *) | KBatchCdbd1 (* CDBD, detect_batch = 1 *).

Definition k_batch (k : dkind) : bool :=
  match k with KBatch | KBatchCdbd | KBatchHdm1 | KBatchCdbd1 => true | _ => false end.
Definition k_uni (k : dkind) : bool := match k with KStreamUni => true | _ => false end.
Definition k_min3 (k : dkind) : bool := match k with KBatchHdm1 | KBatchCdbd1 => true | _ => false end.
Definition k_validator (k : dkind) : validator :=
  if k_batch k then validate_X_batch else validate_X_stream.
Definition k_vy (k : dkind) : input -> bool :=
  if k_batch k then validate_y_batch else validate_y_stream.

(** the four ways a detector of the library uses the validators for X:
    plain streaming (KdqTreeStreaming, PCACD), streaming with the univariate guard (ADWIN, CUSUM,
    PageHinkley), plain batch (KdqTreeBatch, HDDDM, NNDVI), batch with CDBD's early guard; with
    detect_batch = 1 the set_reference of HDDDM / CDBD additionally wants three rows *)
Definition user_early (k : dkind) : input -> bool :=
  match k with KBatchCdbd | KBatchCdbd1 => cdbd_guard | _ => fun _ => false end.
Definition user_validator (k : dkind) : validator :=       (* update() *)
  match k with
  | KStream => validate_X_stream
  | KStreamUni => validate_univariate
  | _ => validate_X_batch
  end.
Definition call_validator (k : dkind) (is_ref : bool) : validator :=   (* set_reference() when [is_ref] *)
  if k_min3 k && is_ref then validate_reference_min3 else user_validator k.
Definition user_coerce (k : dkind) : input -> Z * Z :=
  if k_batch k then coerce_batch else coerce_stream.

Definition shape_eqb (a b : Z * Z) : bool := (fst a =? fst b) && (snd a =? snd b).

(** invocations inside one call: (is the user's X, descriptor, what was seen of it:
    [None] nothing recorded, [Some None] it raised, [Some (Some shp)] it returned an array of shape shp) *)
Definition invocation := (bool * input * option (option (Z * Z)))%type.

Fixpoint run_invocations (k : dkind) (is_ref : bool) (st : vstate) (invs : list invocation) : bool * vstate * bool :=
  (* (call goes through, attributes afterwards, every recorded return/raise is the model's) *)
  match invs with
  | [] => (true, st, true)
  | (user, x, seen) :: t =>
      match k_validator k st x with
      | Reject s => (false, s, match seen with Some (Some _) => false | _ => true end)
      | Accept shp s =>
          let seen_ok := match seen with
                         | Some (Some o) => shape_eqb o shp
                         | Some None => false
                         | None => true
                         end in
          if (k_uni k && negb (snd shp =? 1)) || (user && k_min3 k && is_ref && (fst shp <? 3))
          then (false, st, seen_ok)                (* the guard restores the prior attributes *)
          else let '(ok, s', rest_ok) := run_invocations k is_ref s t in (ok, s', seen_ok && rest_ok)
      end
  end.

Record call := mkCall {
  c_is_ref : bool;                       (* the call is set_reference (else update) *)
  c_x : option input; c_yt : option input; c_yp : option input;
  c_invs : list invocation;
  c_accepted : bool;                     (* observed: got past validation (returned, or failed later in the body) *)
  c_cols : option (list name); c_dim : option Z;  (* observed attributes after the call ... *)
  c_attrs_known : bool                   (* ... when they could be read *)
}.

Definition vstate_eqb (a b : vstate) : bool :=
  opt_eqb names_eqb (input_cols a) (input_cols b) && opt_eqb Z.eqb (input_col_dim a) (input_col_dim b).

(** the model of one user-level call *)
Definition call_model (k : dkind) (st : vstate) (c : call) : bool * vstate * bool :=
  if (match c_x c with Some x => user_early k x | None => false end) then (false, st, true)
  else if negb (opt_y (k_vy k) (c_yt c)) then (false, st, true)
  else if negb (opt_y (k_vy k) (c_yp c)) then (false, st, true)
  else run_invocations k (c_is_ref c) st (c_invs c).

(** a whole history from the attributes of a new detector: position of the first call whose
    outcome, attributes or recorded invocations differ from the model's; [None] = all agree *)
Fixpoint history_mismatch (k : dkind) (st : vstate) (h : list call) (i : Z) : option Z :=
  match h with
  | [] => None
  | c :: t =>
      let '(ok, s, seen_ok) := call_model k st c in
      if Bool.eqb ok (c_accepted c)
         && (negb (c_attrs_known c) || vstate_eqb s (mkV (c_cols c) (c_dim c)))
         && seen_ok
      then history_mismatch k s t (i + 1)
      else Some i
  end.

Definition chk_history (k : dkind) (h : list call) : bool :=
  match history_mismatch k v_init h 0 with None => true | Some _ => false end.

(** for diagnosis: what the model says about each call *)
Fixpoint show_history (k : dkind) (st : vstate) (h : list call) : list (bool * vstate) :=
  match h with
  | [] => []
  | c :: t => let '(ok, s, _) := call_model k st c in (ok, s) :: show_history k s t
  end.

(** the pure functions on single arguments (direct calls of _validate_y / _validate_X) *)
Definition chk_y (batch : bool) (y : input) (accepted : bool) : bool :=
  Bool.eqb ((if batch then validate_y_batch else validate_y_stream) y) accepted.
