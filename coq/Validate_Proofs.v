(** Lemmas about Validate.v.  Everything is structural (case analysis and list induction);
    no axioms. *)
From Coq Require Import ZArith List Bool Lia ZifyBool.
From MV Require Import Base Validate.
Import ListNotations.
Open Scope Z_scope.

(** ------------------------------------------------------------------ specification vocabulary *)

(** the two attributes are set together: stored names imply the stored width is their number *)
Definition wf (st : vstate) : Prop :=
  forall cs, input_cols st = Some cs -> input_col_dim st = Some (zlen cs).

(** width rule: once a width is stored the input must have it *)
Definition width_ok (st : vstate) (w : Z) : Prop :=
  match input_col_dim st with None => True | Some d => w = d end.

(** names rule: once names are stored a DataFrame must carry exactly them (same order) *)
Definition names_ok (st : vstate) (x : input) : Prop :=
  match x, input_cols st with InDF ns _, Some cs => ns = cs | _, _ => True end.

Definition names_of (x : input) : option (list name) :=
  match x with InDF ns _ => Some ns | _ => None end.

(** two inputs of one history are compatible when they are not DataFrames with different names *)
Definition names_compat (y x : input) : Prop :=
  match y, x with InDF ns _, InDF ms _ => ns = ms | _, _ => True end.

(** the S12 gap of BatchDetector: a DataFrame, no names stored, a different width stored *)
Definition batch_gap (st : vstate) (x : input) : Prop :=
  is_df x = true /\ input_cols st = None /\
  exists d, input_col_dim st = Some d /\ snd (coerce_batch x) <> d.

Definition no_gap (st : vstate) (x : input) : Prop := False.

Lemma names_eqb_eq ns cs : names_eqb ns cs = true <-> ns = cs.
Proof. apply list_eqb_eq. intros a b. apply Z.eqb_eq. Qed.

Lemma names_eqb_refl ns : names_eqb ns ns = true.
Proof. apply names_eqb_eq. reflexivity. Qed.

Lemma names_eqb_neq ns cs : names_eqb ns cs = false <-> ns <> cs.
Proof.
  split.
  - intros E H. apply names_eqb_eq in H. congruence.
  - intros H. destruct (names_eqb ns cs) eqn:E; [|reflexivity]. apply names_eqb_eq in E. contradiction.
Qed.

Lemma wf_init : wf v_init.
Proof. intros cs H. discriminate H. Qed.

Lemma coerce_df_width_stream ns r : snd (coerce_stream (InDF ns r)) = zlen ns.
Proof. reflexivity. Qed.
Lemma coerce_df_width_batch ns r : snd (coerce_batch (InDF ns r)) = zlen ns.
Proof. reflexivity. Qed.

(** ------------------------------------------------------------------ single calls: streaming *)

Lemma arr_branch_spec st w :
  match arr_branch st w with
  | None => ~ width_ok st w
  | Some (c, d) => width_ok st w /\ c = input_cols st /\ d = Some w
  end.
Proof.
  unfold arr_branch, width_ok. destruct (input_col_dim st) as [d|]; simpl.
  - destruct (w =? d) eqn:E; simpl.
    + apply Z.eqb_eq in E. subst. auto.
    + apply Z.eqb_neq in E. exact E.
  - auto.
Qed.

Lemma df_branch_stream_spec st ns : wf st ->
  match df_branch_stream st ns with
  | None => ~ (width_ok st (zlen ns) /\ names_ok st (InDF ns 0))
  | Some (c, d) => width_ok st (zlen ns) /\ names_ok st (InDF ns 0) /\ c = Some ns /\ d = Some (zlen ns)
  end.
Proof.
  intros W. unfold df_branch_stream, width_ok, names_ok. simpl.
  destruct (input_cols st) as [cs|] eqn:EC.
  - rewrite (W cs EC). destruct (names_eqb ns cs) eqn:E; simpl.
    + apply names_eqb_eq in E. subst. auto.
    + apply names_eqb_neq in E. intros [_ H]. contradiction.
  - destruct (input_col_dim st) as [d|]; simpl.
    + destruct (zlen ns =? d) eqn:E; simpl.
      * apply Z.eqb_eq in E. auto.
      * apply Z.eqb_neq in E. intros [H _]. contradiction.
    + auto.
Qed.

(** what an accepted call of the streaming class returns and stores, and when it is accepted *)
Lemma stream_spec st x : wf st ->
  match validate_X_stream st x with
  | Accept shp s =>
      fst (coerce_stream x) = 1 /\ width_ok st (snd (coerce_stream x)) /\ names_ok st x /\
      shp = coerce_stream x /\ input_col_dim s = Some (snd (coerce_stream x)) /\
      input_cols s = match x with InDF ns _ => Some ns | _ => input_cols st end
  | Reject s =>
      s = st /\ ~ (fst (coerce_stream x) = 1 /\ width_ok st (snd (coerce_stream x)) /\ names_ok st x)
  end.
Proof.
  intros W. unfold validate_X_stream.
  destruct x as [ns r|r c|n|n|].
  - pose proof (df_branch_stream_spec st ns W) as H.
    destruct (df_branch_stream st ns) as [[c d]|].
    + destruct H as (H1 & H2 & -> & ->). simpl.
      destruct (r =? 1) eqn:E; simpl.
      * apply Z.eqb_eq in E. repeat split; auto.
      * apply Z.eqb_neq in E. split; [reflexivity|]. intros (H & _). contradiction.
    + split; [reflexivity|]. intros (_ & H1 & H2). apply H. split; assumption.
  - pose proof (arr_branch_spec st c) as H. simpl.
    destruct (arr_branch st c) as [[c' d]|].
    + destruct H as (H1 & -> & ->).
      destruct (r =? 1) eqn:E; simpl.
      * apply Z.eqb_eq in E. repeat split; auto.
      * apply Z.eqb_neq in E. split; [reflexivity|]. intros (H & _). contradiction.
    + split; [reflexivity|]. intros (_ & H1 & _). contradiction.
  - pose proof (arr_branch_spec st n) as H. simpl.
    destruct (arr_branch st n) as [[c' d]|].
    + destruct H as (H1 & -> & ->). simpl. repeat split; auto.
    + split; [reflexivity|]. intros (_ & H1 & _). contradiction.
  - pose proof (arr_branch_spec st n) as H. simpl.
    destruct (arr_branch st n) as [[c' d]|].
    + destruct H as (H1 & -> & ->). simpl. repeat split; auto.
    + split; [reflexivity|]. intros (_ & H1 & _). contradiction.
  - pose proof (arr_branch_spec st 1) as H. simpl.
    destruct (arr_branch st 1) as [[c' d]|].
    + destruct H as (H1 & -> & ->). simpl. repeat split; auto.
    + split; [reflexivity|]. intros (_ & H1 & _). contradiction.
Qed.

Theorem stream_accepts_iff st x : wf st ->
  (is_accept (validate_X_stream st x) = true <->
   fst (coerce_stream x) = 1 /\ width_ok st (snd (coerce_stream x)) /\ names_ok st x).
Proof.
  intros W. pose proof (stream_spec st x W) as H.
  destruct (validate_X_stream st x) as [shp s|s]; simpl.
  - destruct H as (H1 & H2 & H3 & _). split; auto.
  - destruct H as (_ & H). split; [discriminate|]. intros H'. contradiction.
Qed.

Lemma stream_reject_no_change st x s : validate_X_stream st x = Reject s -> s = st.
Proof.
  unfold validate_X_stream.
  destruct (match x with InDF ns _ => df_branch_stream st ns | _ => arr_branch st (snd (coerce_stream x)) end)
    as [[c d]|]; [|intros H; inversion H; reflexivity].
  destruct (negb (fst (coerce_stream x) =? 1)); intros H; inversion H; reflexivity.
Qed.

Lemma stream_accept_effect st x shp s : wf st -> validate_X_stream st x = Accept shp s ->
  shp = coerce_stream x /\ input_col_dim s = Some (snd (coerce_stream x)) /\
  input_cols s = match x with InDF ns _ => Some ns | _ => input_cols st end.
Proof.
  intros W E. pose proof (stream_spec st x W) as H. rewrite E in H.
  destruct H as (_ & _ & _ & H1 & H2 & H3). auto.
Qed.

(** ------------------------------------------------------------------ single calls: batch *)

Lemma df_branch_batch_spec st ns : wf st ->
  match df_branch_batch st ns with
  | None => ~ names_ok st (InDF ns 0)
  | Some (c, d) => names_ok st (InDF ns 0) /\ c = Some ns /\ d = Some (zlen ns)
  end.
Proof.
  intros W. unfold df_branch_batch, names_ok. simpl.
  destruct (input_cols st) as [cs|] eqn:EC.
  - destruct (names_eqb ns cs) eqn:E; simpl.
    + apply names_eqb_eq in E. subst. rewrite (W cs EC). auto.
    + apply names_eqb_neq in E. exact E.
  - auto.
Qed.

(** the exact rule of the batch class: the width is not looked at for a DataFrame while no names
    are stored *)
Lemma batch_spec st x : wf st ->
  match validate_X_batch st x with
  | Accept shp s =>
      1 < fst (coerce_batch x) /\ names_ok st x /\
      (width_ok st (snd (coerce_batch x)) \/ (is_df x = true /\ input_cols st = None)) /\
      shp = coerce_batch x /\ input_col_dim s = Some (snd (coerce_batch x)) /\
      input_cols s = match x with InDF ns _ => Some ns | _ => input_cols st end
  | Reject s =>
      s = st /\ ~ (1 < fst (coerce_batch x) /\ names_ok st x /\
                   (width_ok st (snd (coerce_batch x)) \/ (is_df x = true /\ input_cols st = None)))
  end.
Proof.
  intros W. unfold validate_X_batch.
  destruct x as [ns r|r c|n|n|].
  - pose proof (df_branch_batch_spec st ns W) as H.
    destruct (df_branch_batch st ns) as [[c d]|].
    + destruct H as (H2 & -> & ->). simpl.
      destruct (r <=? 1) eqn:E; simpl.
      * apply Z.leb_le in E. split; [reflexivity|]. intros (H & _). lia.
      * apply Z.leb_gt in E. repeat split; auto.
        unfold width_ok, names_ok in *. simpl in *.
        destruct (input_cols st) as [cs|] eqn:EC.
        -- left. rewrite (W cs EC). subst. reflexivity.
        -- right. auto.
    + split; [reflexivity|]. intros (_ & H1 & _). contradiction.
  - pose proof (arr_branch_spec st c) as H. simpl.
    destruct (arr_branch st c) as [[c' d]|].
    + destruct H as (H1 & -> & ->).
      destruct (r <=? 1) eqn:E; simpl.
      * apply Z.leb_le in E. split; [reflexivity|]. intros (H & _). lia.
      * apply Z.leb_gt in E. repeat split; auto.
    + split; [reflexivity|]. intros (_ & _ & [H1|[H1 _]]); [contradiction|discriminate].
  - pose proof (arr_branch_spec st 1) as H. simpl.
    destruct (arr_branch st 1) as [[c' d]|].
    + destruct H as (H1 & -> & ->).
      destruct (n <=? 1) eqn:E; simpl.
      * apply Z.leb_le in E. split; [reflexivity|]. intros (H & _). lia.
      * apply Z.leb_gt in E. repeat split; auto.
    + split; [reflexivity|]. intros (_ & _ & [H1|[H1 _]]); [contradiction|discriminate].
  - pose proof (arr_branch_spec st 1) as H. simpl.
    destruct (arr_branch st 1) as [[c' d]|].
    + destruct H as (H1 & -> & ->).
      destruct (n <=? 1) eqn:E; simpl.
      * apply Z.leb_le in E. split; [reflexivity|]. intros (H & _). lia.
      * apply Z.leb_gt in E. repeat split; auto.
    + split; [reflexivity|]. intros (_ & _ & [H1|[H1 _]]); [contradiction|discriminate].
  - simpl. destruct (arr_branch st 1) as [[c' d]|]; split; try reflexivity; intros (H & _); lia.
Qed.

Theorem batch_accepts_exact st x : wf st ->
  (is_accept (validate_X_batch st x) = true <->
   1 < fst (coerce_batch x) /\ names_ok st x /\
   (width_ok st (snd (coerce_batch x)) \/ (is_df x = true /\ input_cols st = None))).
Proof.
  intros W. pose proof (batch_spec st x W) as H.
  destruct (validate_X_batch st x) as [shp s|s]; simpl.
  - destruct H as (H1 & H2 & H3 & _). split; auto.
  - destruct H as (_ & H). split; [discriminate|]. intros H'. contradiction.
Qed.

Theorem batch_accepts_iff_partial st x : wf st -> ~ batch_gap st x ->
  (is_accept (validate_X_batch st x) = true <->
   1 < fst (coerce_batch x) /\ width_ok st (snd (coerce_batch x)) /\ names_ok st x).
Proof.
  intros W G. rewrite (batch_accepts_exact st x W). split.
  - intros (H1 & H2 & [H3|[H3 H4]]); [auto|].
    repeat split; auto.
    unfold width_ok. destruct (input_col_dim st) as [d|] eqn:ED; [|exact I].
    destruct (Z.eq_dec (snd (coerce_batch x)) d) as [E|E]; [exact E|].
    exfalso. apply G. split; [exact H3|]. split; [exact H4|]. exists d. auto.
  - intros (H1 & H2 & H3). auto.
Qed.

Lemma batch_reject_no_change st x s : validate_X_batch st x = Reject s -> s = st.
Proof.
  unfold validate_X_batch.
  destruct (match x with InDF ns _ => df_branch_batch st ns | _ => arr_branch st (snd (coerce_batch x)) end)
    as [[c d]|]; [|intros H; inversion H; reflexivity].
  destruct (fst (coerce_batch x) <=? 1); intros H; inversion H; reflexivity.
Qed.

Lemma batch_accept_effect st x shp s : wf st -> validate_X_batch st x = Accept shp s ->
  shp = coerce_batch x /\ input_col_dim s = Some (snd (coerce_batch x)) /\
  input_cols s = match x with InDF ns _ => Some ns | _ => input_cols st end.
Proof.
  intros W E. pose proof (batch_spec st x W) as H. rewrite E in H.
  destruct H as (_ & _ & _ & H1 & H2 & H3). auto.
Qed.

(** the gap is real: a DataFrame in the gap with at least two rows IS accepted, and the stored
    width silently changes *)
Lemma batch_gap_accepts st x : wf st -> batch_gap st x -> 1 < fst (coerce_batch x) ->
  is_accept (validate_X_batch st x) = true /\
  input_col_dim (state_of (validate_X_batch st x)) <> input_col_dim st.
Proof.
  intros W (H1 & H2 & d & H3 & H4) R.
  assert (A : is_accept (validate_X_batch st x) = true).
  { apply (batch_accepts_exact st x W). split; [exact R|]. split.
    - unfold names_ok. destruct x; auto. rewrite H2. exact I.
    - right. auto. }
  split; [exact A|].
  destruct (validate_X_batch st x) as [shp s|s] eqn:E; [|discriminate].
  destruct (batch_accept_effect st x shp s W E) as (_ & H5 & _). simpl.
  rewrite H5, H3. intros H. inversion H. contradiction.
Qed.

(** ------------------------------------------------------------------ the guards *)

Lemma uni_spec st x : wf st ->
  match validate_univariate st x with
  | Accept shp s =>
      fst (coerce_stream x) = 1 /\ snd (coerce_stream x) = 1 /\
      width_ok st (snd (coerce_stream x)) /\ names_ok st x /\
      shp = coerce_stream x /\ input_col_dim s = Some (snd (coerce_stream x)) /\
      input_cols s = match x with InDF ns _ => Some ns | _ => input_cols st end
  | Reject s =>
      s = st /\ ~ (fst (coerce_stream x) = 1 /\ snd (coerce_stream x) = 1 /\
                   width_ok st (snd (coerce_stream x)) /\ names_ok st x)
  end.
Proof.
  intros W. unfold validate_univariate. pose proof (stream_spec st x W) as H.
  destruct (validate_X_stream st x) as [shp s|s].
  - destruct H as (H1 & H2 & H3 & -> & H5 & H6).
    destruct (snd (coerce_stream x) =? 1) eqn:E; simpl.
    + apply Z.eqb_eq in E. repeat split; auto.
    + apply Z.eqb_neq in E. split; [reflexivity|]. intros (_ & H & _). contradiction.
  - destruct H as (-> & H). split; [reflexivity|]. intros (H1 & _ & H3 & H4). apply H. auto.
Qed.

Theorem uni_accepts_iff st x : wf st ->
  (is_accept (validate_univariate st x) = true <->
   fst (coerce_stream x) = 1 /\ snd (coerce_stream x) = 1 /\
   width_ok st (snd (coerce_stream x)) /\ names_ok st x).
Proof.
  intros W. pose proof (uni_spec st x W) as H.
  destruct (validate_univariate st x) as [shp s|s]; simpl.
  - destruct H as (H1 & H2 & H3 & H4 & _). split; auto.
  - destruct H as (_ & H). split; [discriminate|]. intros H'. contradiction.
Qed.

Lemma uni_reject_no_change st x s : validate_univariate st x = Reject s -> s = st.
Proof.
  unfold validate_univariate. destruct (validate_X_stream st x) as [shp s'|s'] eqn:E.
  - destruct (negb (snd shp =? 1)); intros H; inversion H; reflexivity.
  - intros H. inversion H; subst. exact (stream_reject_no_change st x s E).
Qed.

Lemma uni_accept_effect st x shp s : wf st -> validate_univariate st x = Accept shp s ->
  shp = coerce_stream x /\ input_col_dim s = Some (snd (coerce_stream x)) /\
  input_cols s = match x with InDF ns _ => Some ns | _ => input_cols st end.
Proof.
  intros W E. pose proof (uni_spec st x W) as H. rewrite E in H.
  destruct H as (_ & _ & _ & _ & H1 & H2 & H3). auto.
Qed.

Lemma cdbd_guard_width x : cdbd_guard x = false <-> snd (coerce_batch x) = 1.
Proof.
  destruct x as [ns r|r c|n|n|]; simpl; split; intros H; try reflexivity.
  - apply negb_false_iff in H. apply Z.eqb_eq in H. exact H.
  - apply negb_false_iff. apply Z.eqb_eq. exact H.
  - apply negb_false_iff in H. apply Z.eqb_eq in H. exact H.
  - apply negb_false_iff. apply Z.eqb_eq. exact H.
Qed.

Theorem cdbd_accepts_exact st x : wf st ->
  (is_accept (validate_cdbd st x) = true <->
   snd (coerce_batch x) = 1 /\ 1 < fst (coerce_batch x) /\ names_ok st x /\
   (width_ok st (snd (coerce_batch x)) \/ (is_df x = true /\ input_cols st = None))).
Proof.
  intros W. unfold validate_cdbd. destruct (cdbd_guard x) eqn:G.
  - simpl. split; [discriminate|]. intros (H & _). apply cdbd_guard_width in H. congruence.
  - apply cdbd_guard_width in G. rewrite (batch_accepts_exact st x W). tauto.
Qed.

Lemma cdbd_reject_no_change st x s : validate_cdbd st x = Reject s -> s = st.
Proof.
  unfold validate_cdbd. destruct (cdbd_guard x).
  - intros H. inversion H. reflexivity.
  - apply batch_reject_no_change.
Qed.

(** _validate_y *)
Theorem y_stream_iff y : validate_y_stream y = true <-> size_of y = 1.
Proof. unfold validate_y_stream. apply Z.eqb_eq. Qed.

Theorem y_batch_iff y :
  validate_y_batch y = true <->
  match y with
  | InDF ns r => r <> 1 /\ zlen ns = 1
  | InArr2 r c => r <> 1 /\ c = 1
  | _ => False                               (* 1-D labels are always refused *)
  end.
Proof.
  unfold validate_y_batch. destruct y as [ns r|r c|n|n|]; simpl.
  - destruct (r =? 1) eqn:E.
    + apply Z.eqb_eq in E. split; [discriminate|]. intros [H _]. contradiction.
    + apply Z.eqb_neq in E. rewrite Z.eqb_eq. tauto.
  - destruct (r =? 1) eqn:E.
    + apply Z.eqb_eq in E. split; [discriminate|]. intros [H _]. contradiction.
    + apply Z.eqb_neq in E. rewrite Z.eqb_eq. tauto.
  - split; [discriminate|tauto].
  - split; [discriminate|tauto].
  - split; [discriminate|tauto].
Qed.

(** _validate_input: as every detector of the library calls it (X alone, or labels alone) a
    refused call leaves the attributes alone *)
Theorem validate_input_reject_no_change vX vy st x yt yp s :
  (forall st x s, vX st x = Reject s -> s = st) ->
  (x = None \/ (yt = None /\ yp = None)) ->
  validate_input vX vy st x yt yp = (false, s) -> s = st.
Proof.
  intros HR Hcase. unfold validate_input.
  destruct x as [v|].
  - destruct Hcase as [H|[-> ->]]; [discriminate|]. simpl.
    destruct (vX st v) as [shp s'|s'] eqn:E; simpl.
    + intros H. discriminate H.
    + intros H. inversion H; subst. exact (HR st v s E).
  - simpl. destruct (opt_y vy yt); simpl.
    + destruct (opt_y vy yp); simpl; intros H; inversion H; reflexivity.
    + intros H; inversion H; reflexivity.
Qed.

(** ------------------------------------------------------------------ histories of calls *)

Lemma final_app V st h1 h2 : final V st (h1 ++ h2) = final V (final V st h1) h2.
Proof. unfold final. apply fold_left_app. Qed.

Lemma accepted_inputs_app V st h1 h2 :
  accepted_inputs V st (h1 ++ h2) = accepted_inputs V st h1 ++ accepted_inputs V (final V st h1) h2.
Proof.
  revert st. induction h1 as [|x t IH]; intros st; simpl; [reflexivity|].
  destruct (is_accept (V st x)); simpl; rewrite IH; reflexivity.
Qed.

Section History.
  Variable V : validator.
  Variable co : input -> Z * Z.
  Variable rows_ok : Z -> Prop.
  Variable extra : input -> Prop.
  Variable gap : vstate -> input -> Prop.

  Hypothesis co_df : forall ns r, snd (co (InDF ns r)) = zlen ns.
  Hypothesis H_iff : forall st x, wf st -> ~ gap st x ->
    (is_accept (V st x) = true <->
     rows_ok (fst (co x)) /\ extra x /\ width_ok st (snd (co x)) /\ names_ok st x).
  Hypothesis H_eff : forall st x shp s, wf st -> V st x = Accept shp s ->
    input_col_dim s = Some (snd (co x)) /\
    input_cols s = match x with InDF ns _ => Some ns | _ => input_cols st end.
  Hypothesis H_rej : forall st x s, V st x = Reject s -> s = st.

  (** no call of the history falls into the gap (vacuous for the streaming class) *)
  Fixpoint nogap_run (st : vstate) (h : list input) : Prop :=
    match h with
    | [] => True
    | x :: t => ~ gap st x /\ nogap_run (state_of (V st x)) t
    end.

  (** what the two attributes say about the accepted inputs so far *)
  Definition Inv (st : vstate) (acc : list input) : Prop :=
    wf st /\
    match input_col_dim st with
    | None => acc = []
    | Some d => acc <> [] /\ Forall (fun y => snd (co y) = d) acc
    end /\
    match input_cols st with
    | None => Forall (fun y => names_of y = None) acc
    | Some cs => Forall (fun y => names_of y = None \/ names_of y = Some cs) acc /\
                 Exists (fun y => names_of y = Some cs) acc
    end.

  Lemma inv_init : Inv v_init [].
  Proof. split; [exact wf_init|]. simpl. split; [reflexivity|constructor]. Qed.

  Lemma wf_step st x : wf st -> ~ gap st x -> wf (state_of (V st x)).
  Proof.
    intros W G. destruct (V st x) as [shp s|s] eqn:E; simpl.
    - destruct (H_eff st x shp s W E) as (H1 & H2).
      assert (A : is_accept (V st x) = true) by (rewrite E; reflexivity).
      apply (H_iff st x W G) in A. destruct A as (_ & _ & A3 & A4).
      intros cs Hc. rewrite H1. rewrite H2 in Hc.
      destruct x as [ns r|r c|n|n|].
      + inversion Hc; subst. rewrite co_df. reflexivity.
      + unfold width_ok in A3. rewrite (W cs Hc) in A3. rewrite A3. reflexivity.
      + unfold width_ok in A3. rewrite (W cs Hc) in A3. rewrite A3. reflexivity.
      + unfold width_ok in A3. rewrite (W cs Hc) in A3. rewrite A3. reflexivity.
      + unfold width_ok in A3. rewrite (W cs Hc) in A3. rewrite A3. reflexivity.
    - rewrite (H_rej st x s E). exact W.
  Qed.

  Lemma inv_step st acc x : Inv st acc -> ~ gap st x ->
    Inv (state_of (V st x)) (if is_accept (V st x) then acc ++ [x] else acc).
  Proof.
    intros (W & ID & IC) G.
    pose proof (wf_step st x W G) as W'.
    destruct (V st x) as [shp s|s] eqn:E; simpl in *.
    - destruct (H_eff st x shp s W E) as (H1 & H2).
      assert (A : is_accept (V st x) = true) by (rewrite E; reflexivity).
      apply (H_iff st x W G) in A. destruct A as (_ & _ & A3 & A4).
      split; [exact W'|]. split.
      + rewrite H1. split.
        * intros H. apply app_eq_nil in H. destruct H as [_ H]. discriminate H.
        * apply Forall_app. split; [|constructor; [reflexivity|constructor]].
          unfold width_ok in A3. destruct (input_col_dim st) as [d|].
          -- destruct ID as [_ ID]. rewrite A3. exact ID.
          -- subst acc. constructor.
      + rewrite H2. destruct x as [ns r|r c|n|n|].
        * unfold names_ok in A4. destruct (input_cols st) as [cs|].
          -- subst cs. destruct IC as [IC1 IC2]. split.
             ++ apply Forall_app. split; [exact IC1|]. constructor; [right; reflexivity|constructor].
             ++ apply Exists_app. left. exact IC2.
          -- split.
             ++ apply Forall_app. split.
                ** eapply Forall_impl; [|exact IC]. intros y Hy. left. exact Hy.
                ** constructor; [right; reflexivity|constructor].
             ++ apply Exists_app. right. constructor. reflexivity.
        * destruct (input_cols st) as [cs|].
          -- destruct IC as [IC1 IC2]. split.
             ++ apply Forall_app. split; [exact IC1|]. constructor; [left; reflexivity|constructor].
             ++ apply Exists_app. left. exact IC2.
          -- apply Forall_app. split; [exact IC|]. constructor; [reflexivity|constructor].
        * destruct (input_cols st) as [cs|].
          -- destruct IC as [IC1 IC2]. split.
             ++ apply Forall_app. split; [exact IC1|]. constructor; [left; reflexivity|constructor].
             ++ apply Exists_app. left. exact IC2.
          -- apply Forall_app. split; [exact IC|]. constructor; [reflexivity|constructor].
        * destruct (input_cols st) as [cs|].
          -- destruct IC as [IC1 IC2]. split.
             ++ apply Forall_app. split; [exact IC1|]. constructor; [left; reflexivity|constructor].
             ++ apply Exists_app. left. exact IC2.
          -- apply Forall_app. split; [exact IC|]. constructor; [reflexivity|constructor].
        * destruct (input_cols st) as [cs|].
          -- destruct IC as [IC1 IC2]. split.
             ++ apply Forall_app. split; [exact IC1|]. constructor; [left; reflexivity|constructor].
             ++ apply Exists_app. left. exact IC2.
          -- apply Forall_app. split; [exact IC|]. constructor; [reflexivity|constructor].
    - rewrite (H_rej st x s E). split; [exact W|]. split; assumption.
  Qed.

  Lemma inv_run h : forall st acc, Inv st acc -> nogap_run st h ->
    Inv (final V st h) (acc ++ accepted_inputs V st h).
  Proof.
    induction h as [|x t IH]; intros st acc I G; simpl in *.
    - rewrite app_nil_r. exact I.
    - destruct G as [G1 G2]. pose proof (inv_step st acc x I G1) as I'.
      specialize (IH (state_of (V st x)) _ I' G2).
      unfold final in *. simpl.
      destruct (is_accept (V st x)).
      + rewrite <- app_assoc in IH. exact IH.
      + exact IH.
  Qed.

  (** the rule in terms of the history alone *)
  Theorem history_rule h x : nogap_run v_init h -> ~ gap (final V v_init h) x ->
    let acc := accepted_inputs V v_init h in
    (is_accept (V (final V v_init h) x) = true <->
     rows_ok (fst (co x)) /\ extra x /\
     Forall (fun y => snd (co y) = snd (co x)) acc /\
     Forall (fun y => names_compat y x) acc).
  Proof.
    intros G Gx acc.
    pose proof (inv_run h v_init [] inv_init G) as (W & ID & IC). simpl in ID, IC. fold acc in ID, IC.
    rewrite (H_iff _ x W Gx). split.
    - intros (R & X & Hw & Hn). split; [exact R|]. split; [exact X|]. split.
      + unfold width_ok in Hw. destruct (input_col_dim (final V v_init h)) as [d|].
        * destruct ID as [_ ID]. rewrite Hw. exact ID.
        * rewrite ID. constructor.
      + unfold names_ok in Hn. destruct x as [ms r| | | |];
          try (apply Forall_forall; intros y _; destruct y; exact I).
        destruct (input_cols (final V v_init h)) as [cs|].
        * subst cs. destruct IC as [IC _]. eapply Forall_impl; [|exact IC].
          intros y [Hy|Hy]; destruct y; simpl in *; try exact I; try discriminate.
          inversion Hy. reflexivity.
        * eapply Forall_impl; [|exact IC]. intros y Hy. destruct y; simpl in *; try exact I. discriminate.
    - intros (R & X & Hw & Hn). split; [exact R|]. split; [exact X|]. split.
      + unfold width_ok. destruct (input_col_dim (final V v_init h)) as [d|]; [|exact I].
        destruct ID as [NE ID]. destruct acc as [|y acc']; [contradiction|].
        inversion Hw; subst. inversion ID; subst. congruence.
      + unfold names_ok. destruct x as [ms r| | | |]; try exact I.
        destruct (input_cols (final V v_init h)) as [cs|]; [|exact I].
        destruct IC as [_ IC]. apply Exists_exists in IC. destruct IC as (y & Hy1 & Hy2).
        rewrite Forall_forall in Hn. specialize (Hn y Hy1).
        destruct y as [ys ry| | | |]; simpl in *; try discriminate. inversion Hy2. congruence.
  Qed.

  (** the attributes as a function of the history (independent of the width rule) *)
  Lemma attrs_of_history h : nogap_run v_init h ->
    let acc := accepted_inputs V v_init h in
    (input_col_dim (final V v_init h) = None <-> acc = []) /\
    (input_cols (final V v_init h) = None <-> Forall (fun y => is_df y = false) acc).
  Proof.
    intros G acc.
    pose proof (inv_run h v_init [] inv_init G) as (W & ID & IC). simpl in ID, IC. fold acc in ID, IC.
    split.
    - destruct (input_col_dim (final V v_init h)) as [d|].
      + destruct ID as [NE _]. split; [discriminate|contradiction].
      + split; auto.
    - destruct (input_cols (final V v_init h)) as [cs|].
      + destruct IC as [_ IC]. split; [discriminate|]. intros H. exfalso.
        apply Exists_exists in IC. destruct IC as (y & Hy1 & Hy2).
        rewrite Forall_forall in H. specialize (H y Hy1). destruct y; simpl in *; discriminate.
      + split; [|reflexivity]. intros _. eapply Forall_impl; [|exact IC].
        intros y Hy. destruct y; simpl in *; [discriminate|reflexivity..].
  Qed.
End History.

(** instances *)
Lemma nogap_run_trivial V h : forall st, nogap_run V no_gap st h.
Proof. induction h as [|x t IH]; intros st; simpl; [exact I|]. split; [intros []|apply IH]. Qed.

Theorem stream_history_rule h x :
  let acc := accepted_inputs validate_X_stream v_init h in
  (is_accept (validate_X_stream (final validate_X_stream v_init h) x) = true <->
   fst (coerce_stream x) = 1 /\
   Forall (fun y => snd (coerce_stream y) = snd (coerce_stream x)) acc /\
   Forall (fun y => names_compat y x) acc).
Proof.
  intros acc.
  pose proof (history_rule validate_X_stream coerce_stream (fun r => r = 1) (fun _ => True) no_gap
                coerce_df_width_stream) as H.
  assert (H1 : forall st x, wf st -> ~ no_gap st x ->
     (is_accept (validate_X_stream st x) = true <->
      fst (coerce_stream x) = 1 /\ True /\ width_ok st (snd (coerce_stream x)) /\ names_ok st x)).
  { intros st y W _. rewrite (stream_accepts_iff st y W). tauto. }
  assert (H2 : forall st x shp s, wf st -> validate_X_stream st x = Accept shp s ->
     input_col_dim s = Some (snd (coerce_stream x)) /\
     input_cols s = match x with InDF ns _ => Some ns | _ => input_cols st end).
  { intros st y shp s W E. destruct (stream_accept_effect st y shp s W E) as (_ & A & B). auto. }
  specialize (H H1 H2 stream_reject_no_change h x (nogap_run_trivial _ h v_init) (fun F => F)).
  simpl in H. fold acc in H. rewrite H. tauto.
Qed.

Theorem uni_history_rule h x :
  let acc := accepted_inputs validate_univariate v_init h in
  (is_accept (validate_univariate (final validate_univariate v_init h) x) = true <->
   fst (coerce_stream x) = 1 /\ snd (coerce_stream x) = 1 /\
   Forall (fun y => names_compat y x) acc).
Proof.
  intros acc.
  pose proof (history_rule validate_univariate coerce_stream (fun r => r = 1)
                (fun x => snd (coerce_stream x) = 1) no_gap coerce_df_width_stream) as H.
  assert (H1 : forall st x, wf st -> ~ no_gap st x ->
     (is_accept (validate_univariate st x) = true <->
      fst (coerce_stream x) = 1 /\ snd (coerce_stream x) = 1 /\
      width_ok st (snd (coerce_stream x)) /\ names_ok st x)).
  { intros st y W _. exact (uni_accepts_iff st y W). }
  assert (H2 : forall st x shp s, wf st -> validate_univariate st x = Accept shp s ->
     input_col_dim s = Some (snd (coerce_stream x)) /\
     input_cols s = match x with InDF ns _ => Some ns | _ => input_cols st end).
  { intros st y shp s W E. destruct (uni_accept_effect st y shp s W E) as (_ & A & B). auto. }
  specialize (H H1 H2 uni_reject_no_change h x (nogap_run_trivial _ h v_init) (fun F => F)).
  simpl in H. fold acc in H. rewrite H. split.
  - intros (A & B & _ & D). auto.
  - intros (A & B & D). repeat split; auto.
    (* every accepted input of a univariate detector has width 1 *)
    assert (forall hh st, wf st -> Forall (fun y => snd (coerce_stream y) = 1)
                                       (accepted_inputs validate_univariate st hh) /\ True) as K.
    { induction hh as [|y t IH]; intros st W; simpl; [split; [constructor|exact I]|].
      pose proof (uni_spec st y W) as S.
      destruct (validate_univariate st y) as [shp s|s] eqn:E; simpl.
      - destruct S as (S1 & S2 & S3 & S4 & S5 & S6 & S7).
        assert (W' : wf s).
        { intros cs Hc. rewrite S6. rewrite S7 in Hc. destruct y; simpl in *;
            try (inversion Hc; subst; reflexivity);
            unfold width_ok in S3; rewrite (W cs Hc) in S3; rewrite <- S3; try reflexivity;
            rewrite S2; reflexivity. }
        split; [|exact I]. constructor; [exact S2|]. apply (IH s W').
      - destruct S as (-> & _). apply (IH st W). }
    destruct (K h v_init wf_init) as [K' _]. fold acc in K'.
    eapply Forall_impl; [|exact K']. intros y Hy. simpl in Hy. congruence.
Qed.

Theorem batch_history_rule_partial h x :
  nogap_run validate_X_batch batch_gap v_init h ->
  ~ batch_gap (final validate_X_batch v_init h) x ->
  let acc := accepted_inputs validate_X_batch v_init h in
  (is_accept (validate_X_batch (final validate_X_batch v_init h) x) = true <->
   1 < fst (coerce_batch x) /\
   Forall (fun y => snd (coerce_batch y) = snd (coerce_batch x)) acc /\
   Forall (fun y => names_compat y x) acc).
Proof.
  intros G Gx acc.
  pose proof (history_rule validate_X_batch coerce_batch (fun r => 1 < r) (fun _ => True) batch_gap
                coerce_df_width_batch) as H.
  assert (H1 : forall st x, wf st -> ~ batch_gap st x ->
     (is_accept (validate_X_batch st x) = true <->
      1 < fst (coerce_batch x) /\ True /\ width_ok st (snd (coerce_batch x)) /\ names_ok st x)).
  { intros st y W G'. rewrite (batch_accepts_iff_partial st y W G'). tauto. }
  assert (H2 : forall st x shp s, wf st -> validate_X_batch st x = Accept shp s ->
     input_col_dim s = Some (snd (coerce_batch x)) /\
     input_cols s = match x with InDF ns _ => Some ns | _ => input_cols st end).
  { intros st y shp s W E. destruct (batch_accept_effect st y shp s W E) as (_ & A & B). auto. }
  specialize (H H1 H2 batch_reject_no_change h x G Gx).
  simpl in H. fold acc in H. rewrite H. tauto.
Qed.

(** what "gap" means in terms of the history: a DataFrame whose width differs from the stored one
    while only non-DataFrame inputs have been accepted (and at least one) *)
Theorem batch_gap_meaning h x :
  nogap_run validate_X_batch batch_gap v_init h ->
  let acc := accepted_inputs validate_X_batch v_init h in
  (batch_gap (final validate_X_batch v_init h) x <->
   is_df x = true /\ acc <> [] /\ Forall (fun y => is_df y = false) acc /\
   ~ Forall (fun y => snd (coerce_batch y) = snd (coerce_batch x)) acc).
Proof.
  intros G acc.
  assert (H1 : forall st x, wf st -> ~ batch_gap st x ->
     (is_accept (validate_X_batch st x) = true <->
      1 < fst (coerce_batch x) /\ True /\ width_ok st (snd (coerce_batch x)) /\ names_ok st x)).
  { intros st y W G'. rewrite (batch_accepts_iff_partial st y W G'). tauto. }
  assert (H2 : forall st x shp s, wf st -> validate_X_batch st x = Accept shp s ->
     input_col_dim s = Some (snd (coerce_batch x)) /\
     input_cols s = match x with InDF ns _ => Some ns | _ => input_cols st end).
  { intros st y shp s W E. destruct (batch_accept_effect st y shp s W E) as (_ & A & B). auto. }
  pose proof (attrs_of_history validate_X_batch coerce_batch (fun r => 1 < r) (fun _ => True) batch_gap
                coerce_df_width_batch H1 H2 batch_reject_no_change h G) as (AD & AC).
  pose proof (inv_run validate_X_batch coerce_batch (fun r => 1 < r) (fun _ => True) batch_gap
                coerce_df_width_batch H1 H2 batch_reject_no_change h v_init [] (inv_init _) G)
    as (W & ID & _).
  simpl in AD, AC, ID. fold acc in AD, AC, ID.
  unfold batch_gap. split.
  - intros (D & C & d & Hd & Hw). split; [exact D|]. rewrite Hd in ID. destruct ID as [NE ID].
    split; [exact NE|]. split; [apply AC; exact C|].
    intros F. destruct acc as [|y t]; [contradiction|]. inversion F; subst. inversion ID; subst. congruence.
  - intros (D & NE & ND & NW). split; [exact D|]. split; [apply AC; exact ND|].
    destruct (input_col_dim (final validate_X_batch v_init h)) as [d|] eqn:Ed.
    + exists d. split; [reflexivity|]. destruct ID as [_ ID]. intros E. apply NW.
      rewrite E. exact ID.
    + exfalso. apply NE. apply AD. reflexivity.
Qed.

(** ------------------------------------------------------------------ the detector machine *)
Section MachineProofs.
  Variables D P : Type.
  Variable early : input -> bool.
  Variable pre : D -> D.
  Variable V : P -> validator.
  Variable body : D -> Z * Z -> P -> D.

  Hypothesis pre_idem : forall d, pre (pre d) = pre d.
  Hypothesis V_rej : forall p st x s, V p st x = Reject s -> s = st.

  Notation upd := (m_update early pre V body).
  Notation trace := (m_trace early pre V body).
  Notation erase := (m_erase early pre V body).
  Notation fin := (m_final early pre V body).
  Notation verd := (m_verdicts early pre V body).

  (** same validator attributes, same detector state up to the pending reset *)
  Definition sim (a b : mstate D) : Prop := m_v a = m_v b /\ pre (m_d a) = pre (m_d b).

  Lemma sim_refl a : sim a a.
  Proof. split; reflexivity. Qed.
  Lemma sim_sym a b : sim a b -> sim b a.
  Proof. intros [H1 H2]. split; symmetry; assumption. Qed.
  Lemma sim_trans a b c : sim a b -> sim b c -> sim a c.
  Proof. intros [H1 H2] [H3 H4]. split; congruence. Qed.

  Lemma upd_sim a b c : sim a b ->
    snd (upd a c) = snd (upd b c) /\ sim (fst (upd a c)) (fst (upd b c)) /\
    (snd (upd a c) = true -> fst (upd a c) = fst (upd b c)).
  Proof.
    intros [H1 H2]. unfold m_update. destruct (early (fst c)); simpl.
    - split; [reflexivity|]. split; [split; assumption|discriminate].
    - rewrite H1, H2. destruct (V (snd c) (m_v b) (fst c)) as [shp s|s]; simpl.
      + split; [reflexivity|]. split; [apply sim_refl|reflexivity].
      + split; [reflexivity|]. split; [apply sim_refl|discriminate].
  Qed.

  (** a rejected call changes nothing but the pending reset *)
  Lemma rejected_sim m c : snd (upd m c) = false -> sim (fst (upd m c)) m.
  Proof.
    unfold m_update. destruct (early (fst c)); simpl; [intros _; apply sim_refl|].
    destruct (V (snd c) (m_v m) (fst c)) as [shp s|s] eqn:E; simpl; [discriminate|].
    intros _. split; simpl; [exact (V_rej _ _ _ _ E)|apply pre_idem].
  Qed.

  (** ... and nothing at all when no reset is pending: it is not counted *)
  Lemma rejected_no_effect m c : pre (m_d m) = m_d m -> snd (upd m c) = false -> fst (upd m c) = m.
  Proof.
    intros Hp. unfold m_update. destruct (early (fst c)); simpl; [reflexivity|].
    destruct (V (snd c) (m_v m) (fst c)) as [shp s|s] eqn:E; simpl; [discriminate|].
    intros _. rewrite (V_rej _ _ _ _ E), Hp. destruct m; reflexivity.
  Qed.

  Lemma trace_sim h : forall a b, sim a b ->
    trace a h = trace b h /\ erase a h = erase b h /\ verd a h = verd b h /\ sim (fin a h) (fin b h).
  Proof.
    induction h as [|c t IH]; intros a b S; simpl.
    - repeat split; try reflexivity; destruct S; assumption.
    - destruct (upd_sim a b c S) as (E1 & E2 & E3).
      unfold m_final in *. simpl.
      destruct (upd a c) as [a' oka] eqn:Ea. destruct (upd b c) as [b' okb] eqn:Eb. simpl in *.
      subst okb. destruct (IH a' b' E2) as (T1 & T2 & T3 & T4).
      destruct oka.
      + rewrite (E3 eq_refl). repeat split; reflexivity.
      + rewrite T1, T2, T3. repeat split; try reflexivity; destruct T4; assumption.
  Qed.

  (** rejected calls are invisible: the outputs after the accepted calls are those of the history
      from which every rejected call has been erased, every call of which is accepted, and the two
      final states agree (up to a reset that is still pending) *)
  Theorem rejected_calls_invisible h : forall m,
    trace m h = trace m (erase m h) /\
    Forall (fun b => b = true) (verd m (erase m h)) /\
    sim (fin m h) (fin m (erase m h)).
  Proof.
    induction h as [|c t IH]; intros m; simpl.
    - split; [reflexivity|]. split; [constructor|apply sim_refl].
    - unfold m_final in *. simpl.
      destruct (upd m c) as [m' ok] eqn:E. simpl.
      destruct (IH m') as (T1 & T2 & T3).
      destruct ok; simpl.
      + rewrite E. simpl. rewrite <- T1. split; [reflexivity|]. split; [constructor; [reflexivity|exact T2]|exact T3].
      + assert (S : sim m' m).
        { pose proof (rejected_sim m c) as R. rewrite E in R. apply R. reflexivity. }
        destruct (trace_sim (erase m' t) m' m S) as (U1 & _ & U3 & U4).
        rewrite T1, U1. split; [reflexivity|]. split.
        * rewrite <- U3. exact T2.
        * eapply sim_trans; [exact T3|exact U4].
  Qed.

  Lemma trace_app h1 : forall m h2, trace m (h1 ++ h2) = trace m h1 ++ trace (fin m h1) h2.
  Proof.
    induction h1 as [|c t IH]; intros m h2; simpl; [reflexivity|].
    unfold m_final in *. simpl.
    destruct (upd m c) as [m' ok] eqn:E. simpl.
    destruct ok; rewrite IH; reflexivity.
  Qed.

  (** the form the harness tests: ONE rejected call inserted anywhere into any history *)
  Theorem rejected_call_invisible h1 c h2 m :
    snd (upd (fin m h1) c) = false ->
    trace m (h1 ++ c :: h2) = trace m (h1 ++ h2).
  Proof.
    intros R. rewrite !trace_app. f_equal. simpl.
    pose proof (rejected_sim (fin m h1) c R) as S.
    destruct (upd (fin m h1) c) as [m' ok] eqn:E. simpl in *. subst ok.
    apply (trace_sim h2 m' (fin m h1) S).
  Qed.

  (** containers: two histories whose calls carry the same values in containers that the
      validator cannot tell apart *)
  Definition indistinguishable (x y : input) : Prop :=
    early x = early y /\ forall p st, V p st x = V p st y.

  Theorem container_irrelevant_machine h1 : forall h2 m,
    Forall2 (fun c1 c2 => snd c1 = snd c2 /\ indistinguishable (fst c1) (fst c2)) h1 h2 ->
    trace m h1 = trace m h2 /\ verd m h1 = verd m h2 /\ fin m h1 = fin m h2.
  Proof.
    induction h1 as [|c1 t1 IH]; intros h2 m F; inversion F; subst; simpl.
    - repeat split; reflexivity.
    - destruct H1 as (Hp & He & Hv).
      assert (U : upd m c1 = upd m y).
      { unfold m_update. rewrite He, Hp, Hv. reflexivity. }
      unfold m_final in *. simpl. rewrite U.
      destruct (upd m y) as [m' ok]. simpl.
      destruct (IH l' m' H3) as (T1 & T2 & T3).
      destruct ok; rewrite T1, T2, T3; repeat split; reflexivity.
  Qed.
End MachineProofs.

(** ------------------------------------------------------------------ containers *)

(** containers other than DataFrame enter only through the shape of the coerced array *)
Lemma nondf_equiv_stream x y st : is_df x = false -> is_df y = false ->
  coerce_stream x = coerce_stream y -> validate_X_stream st x = validate_X_stream st y.
Proof.
  intros Hx Hy E. unfold validate_X_stream. rewrite E.
  destruct x; try discriminate; destruct y; try discriminate; reflexivity.
Qed.

Lemma nondf_equiv_uni x y st : is_df x = false -> is_df y = false ->
  coerce_stream x = coerce_stream y -> validate_univariate st x = validate_univariate st y.
Proof.
  intros Hx Hy E. unfold validate_univariate. rewrite (nondf_equiv_stream x y st Hx Hy E). reflexivity.
Qed.

Lemma nondf_equiv_batch x y st : is_df x = false -> is_df y = false ->
  coerce_batch x = coerce_batch y -> validate_X_batch st x = validate_X_batch st y.
Proof.
  intros Hx Hy E. unfold validate_X_batch. rewrite E.
  destruct x; try discriminate; destruct y; try discriminate; reflexivity.
Qed.

Lemma nondf_equiv_cdbd x y st : is_df x = false -> is_df y = false ->
  coerce_batch x = coerce_batch y -> validate_cdbd st x = validate_cdbd st y.
Proof.
  intros Hx Hy E. unfold validate_cdbd. rewrite (nondf_equiv_batch x y st Hx Hy E).
  assert (G : cdbd_guard x = cdbd_guard y).
  { destruct (cdbd_guard x) eqn:Gx; destruct (cdbd_guard y) eqn:Gy; try reflexivity.
    - apply cdbd_guard_width in Gy. rewrite <- E in Gy. apply cdbd_guard_width in Gy. congruence.
    - apply cdbd_guard_width in Gx. rewrite E in Gx. apply cdbd_guard_width in Gx. congruence. }
  rewrite G. reflexivity.
Qed.

(** DataFrame against the other containers (streaming classes): as long as every DataFrame of the
    two histories carries one and the same list of names, a DataFrame and an array of the same
    shape get the same verdict and leave the same width behind; only the stored names differ. *)
Section DfSim.
  Variable V : validator.
  Variable extra : input -> Prop.
  Hypothesis H_spec : forall st x, wf st ->
    match V st x with
    | Accept shp s =>
        (fst (coerce_stream x) = 1 /\ extra x /\ width_ok st (snd (coerce_stream x)) /\ names_ok st x) /\
        shp = coerce_stream x /\ input_col_dim s = Some (snd (coerce_stream x)) /\
        input_cols s = match x with InDF ns _ => Some ns | _ => input_cols st end
    | Reject s =>
        s = st /\ ~ (fst (coerce_stream x) = 1 /\ extra x /\ width_ok st (snd (coerce_stream x)) /\ names_ok st x)
    end.
  Hypothesis extra_shape : forall x y, coerce_stream x = coerce_stream y -> (extra x <-> extra y).

  Variable ns : list name.

  Definition named (x : input) : Prop := names_of x = None \/ names_of x = Some ns.
  Definition vsim (a b : vstate) : Prop :=
    wf a /\ wf b /\ input_col_dim a = input_col_dim b /\
    (input_cols a = None \/ input_cols a = Some ns) /\ (input_cols b = None \/ input_cols b = Some ns).

  Lemma named_names_ok st x : named x -> (input_cols st = None \/ input_cols st = Some ns) -> names_ok st x.
  Proof.
    intros N C. unfold names_ok. destruct x as [ms r| | | |]; try exact I.
    destruct N as [N|N]; simpl in N; [discriminate|]. inversion N; subst.
    destruct C as [C|C]; rewrite C; [exact I|reflexivity].
  Qed.

  Lemma vsim_step a b x y : vsim a b -> named x -> named y -> coerce_stream x = coerce_stream y ->
    match V a x, V b y with
    | Accept s1 a', Accept s2 b' => s1 = s2 /\ vsim a' b'
    | Reject a', Reject b' => vsim a' b'
    | _, _ => False
    end.
  Proof.
    intros (Wa & Wb & Hd & Ca & Cb) Nx Ny E.
    pose proof (H_spec a x Wa) as Sa. pose proof (H_spec b y Wb) as Sb.
    pose proof (named_names_ok a x Nx Ca) as Na. pose proof (named_names_ok b y Ny Cb) as Nb.
    assert (WW : width_ok a (snd (coerce_stream x)) <-> width_ok b (snd (coerce_stream y))).
    { unfold width_ok. rewrite Hd, E. tauto. }
    assert (wf_new : forall st z s, wf st -> width_ok st (snd (coerce_stream z)) -> names_ok st z ->
              input_col_dim s = Some (snd (coerce_stream z)) ->
              input_cols s = match z with InDF ms _ => Some ms | _ => input_cols st end -> wf s).
    { intros st z s W Hw Hn H1 H2 cs Hc. rewrite H1. rewrite H2 in Hc.
      destruct z as [ms r| | | |]; simpl in *;
        try (inversion Hc; subst; reflexivity);
        unfold width_ok in Hw; rewrite (W cs Hc) in Hw; rewrite Hw; reflexivity. }
    assert (cols_new : forall st z s, named z -> (input_cols st = None \/ input_cols st = Some ns) ->
              input_cols s = match z with InDF ms _ => Some ms | _ => input_cols st end ->
              input_cols s = None \/ input_cols s = Some ns).
    { intros st z s N C H. rewrite H. destruct z as [ms r| | | |]; try exact C.
      destruct N as [N|N]; simpl in N; [discriminate|]. right. exact N. }
    destruct (V a x) as [s1 a'|a']; destruct (V b y) as [s2 b'|b'].
    - destruct Sa as ((A1 & A2 & A3 & A4) & -> & A6 & A7).
      destruct Sb as ((B1 & B2 & B3 & B4) & -> & B6 & B7).
      split; [exact E|]. split; [exact (wf_new a x a' Wa A3 A4 A6 A7)|].
      split; [exact (wf_new b y b' Wb B3 B4 B6 B7)|].
      split; [rewrite A6, B6, E; reflexivity|].
      split; [exact (cols_new a x a' Nx Ca A7)|exact (cols_new b y b' Ny Cb B7)].
    - destruct Sa as ((A1 & A2 & A3 & A4) & _). destruct Sb as (_ & B).
      apply B. rewrite <- E. repeat split; auto.
      + apply (extra_shape x y E). exact A2.
      + rewrite E. apply WW. exact A3.
    - destruct Sb as ((B1 & B2 & B3 & B4) & _). destruct Sa as (_ & A).
      apply A. rewrite E. repeat split; auto.
      + apply (extra_shape x y E). exact B2.
      + rewrite <- E. apply WW. exact B3.
    - destruct Sa as (-> & _). destruct Sb as (-> & _). repeat split; assumption.
  Qed.

  Section WithMachine.
    Variables D P : Type.
    Variable pre : D -> D.
    Variable body : D -> Z * Z -> P -> D.
    Notation upd := (m_update (fun _ => false) pre (fun _ : P => V) body).
    Notation trace := (m_trace (fun _ => false) pre (fun _ : P => V) body).
    Notation verd := (m_verdicts (fun _ => false) pre (fun _ : P => V) body).

    Theorem df_container_irrelevant h1 : forall h2 (m1 m2 : mstate D),
      vsim (m_v m1) (m_v m2) -> m_d m1 = m_d m2 ->
      Forall2 (fun c1 c2 => snd c1 = snd c2 /\ named (fst c1) /\ named (fst c2) /\
                            coerce_stream (fst c1) = coerce_stream (fst c2)) h1 h2 ->
      trace m1 h1 = trace m2 h2 /\ verd m1 h1 = verd m2 h2.
    Proof.
      induction h1 as [|c1 t1 IH]; intros h2 m1 m2 S Ed F; inversion F; subst; simpl.
      - split; reflexivity.
      - destruct H1 as (Hp & N1 & N2 & E).
        pose proof (vsim_step (m_v m1) (m_v m2) (fst c1) (fst y) S N1 N2 E) as St.
        unfold m_update. simpl. rewrite Ed, Hp.
        destruct (V (m_v m1) (fst c1)) as [s1 a'|a']; destruct (V (m_v m2) (fst y)) as [s2 b'|b'];
          try contradiction; simpl.
        + destruct St as (-> & S').
          destruct (IH l' (mkM a' (body (pre (m_d m2)) s2 (snd y))) (mkM b' (body (pre (m_d m2)) s2 (snd y))) S' eq_refl H3)
            as (T1 & T2).
          unfold m_update in T1, T2. simpl in T1, T2. rewrite T1, T2. split; reflexivity.
        + destruct (IH l' (mkM a' (pre (m_d m2))) (mkM b' (pre (m_d m2))) St eq_refl H3) as (T1 & T2).
          unfold m_update in T1, T2. simpl in T1, T2. rewrite T1, T2. split; reflexivity.
    Qed.
  End WithMachine.
End DfSim.

Lemma vsim_init ns : vsim ns v_init v_init.
Proof.
  split; [exact wf_init|]. split; [exact wf_init|]. split; [reflexivity|]. split; left; reflexivity.
Qed.

Lemma stream_spec_for_sim st x : wf st ->
  match validate_X_stream st x with
  | Accept shp s =>
      (fst (coerce_stream x) = 1 /\ True /\ width_ok st (snd (coerce_stream x)) /\ names_ok st x) /\
      shp = coerce_stream x /\ input_col_dim s = Some (snd (coerce_stream x)) /\
      input_cols s = match x with InDF ns _ => Some ns | _ => input_cols st end
  | Reject s =>
      s = st /\ ~ (fst (coerce_stream x) = 1 /\ True /\ width_ok st (snd (coerce_stream x)) /\ names_ok st x)
  end.
Proof.
  intros W. pose proof (stream_spec st x W) as H.
  destruct (validate_X_stream st x) as [shp s|s].
  - destruct H as (H1 & H2 & H3 & H4 & H5 & H6). repeat split; auto.
  - destruct H as (H1 & H2). split; [exact H1|]. intros (A & _ & B & C). apply H2. auto.
Qed.

Lemma uni_spec_for_sim st x : wf st ->
  match validate_univariate st x with
  | Accept shp s =>
      (fst (coerce_stream x) = 1 /\ snd (coerce_stream x) = 1 /\
       width_ok st (snd (coerce_stream x)) /\ names_ok st x) /\
      shp = coerce_stream x /\ input_col_dim s = Some (snd (coerce_stream x)) /\
      input_cols s = match x with InDF ns _ => Some ns | _ => input_cols st end
  | Reject s =>
      s = st /\ ~ (fst (coerce_stream x) = 1 /\ snd (coerce_stream x) = 1 /\
                   width_ok st (snd (coerce_stream x)) /\ names_ok st x)
  end.
Proof.
  intros W. pose proof (uni_spec st x W) as H.
  destruct (validate_univariate st x) as [shp s|s].
  - destruct H as (H1 & H2 & H3 & H4 & H5 & H6 & H7). repeat split; auto.
  - exact H.
Qed.

(** the batch class does tell a DataFrame from an array of the same shape (S12) *)
Definition gap_history_df : list input := [InArr2 6 1; InDF [0; 1; 2] 2].
Definition gap_history_arr : list input := [InArr2 6 1; InArr2 2 3].

Lemma batch_df_vs_array_refuted :
  Forall2 (fun x y => coerce_batch x = coerce_batch y) gap_history_df gap_history_arr /\
  verdicts validate_X_batch v_init gap_history_df = [true; true] /\
  verdicts validate_X_batch v_init gap_history_arr = [true; false].
Proof.
  split; [repeat constructor|]. split; reflexivity.
Qed.

Lemma batch_width_after_array_refuted :
  let st := final validate_X_batch v_init [InArr2 6 1] in
  input_col_dim st = Some 1 /\
  validate_X_batch st (InDF [0; 1; 2] 2) = Accept (2, 3) (mkV (Some [0; 1; 2]) (Some 3)) /\
  validate_X_stream (final validate_X_stream v_init [InArr2 1 1]) (InDF [0; 1; 2] 1)
    = Reject (mkV None (Some 1)).
Proof. repeat split; reflexivity. Qed.

(** _validate_input with X and labels together (no detector of the library does this): a label
    refusal comes after X has been stored *)
Lemma validate_input_both_refuted :
  validate_input validate_X_stream validate_y_stream v_init (Some (In1D 2)) (Some (In1D 2)) None
  = (false, mkV None (Some 2)).
Proof. reflexivity. Qed.

(** ------------------------------------------------------------------ [wf] is an invariant *)
Lemma wf_new_state st x (co : input -> Z * Z) s : wf st ->
  (forall ns r, snd (co (InDF ns r)) = zlen ns) ->
  (is_df x = false -> width_ok st (snd (co x))) ->
  input_col_dim s = Some (snd (co x)) ->
  input_cols s = match x with InDF ns _ => Some ns | _ => input_cols st end -> wf s.
Proof.
  intros W Hco Hw H1 H2 cs Hc. rewrite H1. rewrite H2 in Hc.
  destruct x as [ms r| | | |]; simpl in *;
    try (inversion Hc; subst; rewrite Hco; reflexivity);
    specialize (Hw eq_refl); unfold width_ok in Hw; rewrite (W cs Hc) in Hw; rewrite Hw; reflexivity.
Qed.

Lemma wf_preserved_stream st x : wf st -> wf (state_of (validate_X_stream st x)).
Proof.
  intros W. pose proof (stream_spec st x W) as H.
  destruct (validate_X_stream st x) as [shp s|s]; simpl.
  - destruct H as (_ & H2 & _ & _ & H5 & H6).
    exact (wf_new_state st x coerce_stream s W coerce_df_width_stream (fun _ => H2) H5 H6).
  - destruct H as (-> & _). exact W.
Qed.

Lemma wf_preserved_uni st x : wf st -> wf (state_of (validate_univariate st x)).
Proof.
  intros W. pose proof (uni_spec st x W) as H.
  destruct (validate_univariate st x) as [shp s|s]; simpl.
  - destruct H as (_ & _ & H2 & _ & _ & H5 & H6).
    exact (wf_new_state st x coerce_stream s W coerce_df_width_stream (fun _ => H2) H5 H6).
  - destruct H as (-> & _). exact W.
Qed.

Lemma wf_preserved_batch st x : wf st -> wf (state_of (validate_X_batch st x)).
Proof.
  intros W. pose proof (batch_spec st x W) as H.
  destruct (validate_X_batch st x) as [shp s|s]; simpl.
  - destruct H as (_ & _ & H2 & _ & H5 & H6).
    apply (wf_new_state st x coerce_batch s W coerce_df_width_batch); auto.
    intros ND. destruct H2 as [H2|[H2 _]]; [exact H2|congruence].
  - destruct H as (-> & _). exact W.
Qed.

Lemma wf_preserved_cdbd st x : wf st -> wf (state_of (validate_cdbd st x)).
Proof.
  intros W. unfold validate_cdbd. destruct (cdbd_guard x); [exact W|apply wf_preserved_batch; exact W].
Qed.

Lemma wf_final V : (forall st x, wf st -> wf (state_of (V st x))) ->
  forall h st, wf st -> wf (final V st h).
Proof.
  intros HV h. induction h as [|x t IH]; intros st W; simpl; [exact W|].
  apply IH. apply HV. exact W.
Qed.

(** ------------------------------------------------------------------ a concrete machine, to show
    that the hypothesis of the machine theorems (the reset prologue is idempotent) is satisfiable:
    the counters and drift_state of detector.py; the payload says whether this update alarms *)
Record toy := mkToy { t_total : Z; t_since : Z; t_ds : dstate }.
Definition toy_pre (d : toy) : toy :=
  if is_drift (t_ds d) then mkToy (t_total d) 0 DNone else d.
Definition toy_body (d : toy) (shp : Z * Z) (alarm : bool) : toy :=
  mkToy (t_total d + 1) (t_since d + 1) (if alarm then DDrift else DNone).

Lemma toy_pre_idem d : toy_pre (toy_pre d) = toy_pre d.
Proof. unfold toy_pre. destruct d as [t s []]; reflexivity. Qed.

(** ------------------------------------------------------------------ set_reference with detect_batch = 1 *)
Lemma min3_spec st x : wf st ->
  match validate_reference_min3 st x with
  | Accept shp s =>
      3 <= fst (coerce_batch x) /\ names_ok st x /\
      (width_ok st (snd (coerce_batch x)) \/ (is_df x = true /\ input_cols st = None)) /\
      shp = coerce_batch x /\ input_col_dim s = Some (snd (coerce_batch x)) /\
      input_cols s = match x with InDF ns _ => Some ns | _ => input_cols st end
  | Reject s =>
      s = st /\ ~ (3 <= fst (coerce_batch x) /\ names_ok st x /\
                   (width_ok st (snd (coerce_batch x)) \/ (is_df x = true /\ input_cols st = None)))
  end.
Proof.
  intros W. unfold validate_reference_min3. pose proof (batch_spec st x W) as H.
  destruct (validate_X_batch st x) as [shp s|s].
  - destruct H as (H1 & H2 & H3 & -> & H5 & H6).
    destruct (fst (coerce_batch x) <? 3) eqn:E.
    + apply Z.ltb_lt in E. split; [reflexivity|]. intros (A & _). lia.
    + apply Z.ltb_ge in E. repeat split; auto.
  - destruct H as (-> & H). split; [reflexivity|]. intros (A & B & C). apply H. repeat split; auto. lia.
Qed.

Theorem min3_accepts_exact st x : wf st ->
  (is_accept (validate_reference_min3 st x) = true <->
   3 <= fst (coerce_batch x) /\ names_ok st x /\
   (width_ok st (snd (coerce_batch x)) \/ (is_df x = true /\ input_cols st = None))).
Proof.
  intros W. pose proof (min3_spec st x W) as H.
  destruct (validate_reference_min3 st x) as [shp s|s]; simpl.
  - destruct H as (H1 & H2 & H3 & _). split; auto.
  - destruct H as (_ & H). split; [discriminate|]. intros H'. contradiction.
Qed.

Lemma min3_reject_no_change st x s : validate_reference_min3 st x = Reject s -> s = st.
Proof.
  unfold validate_reference_min3. destruct (validate_X_batch st x) as [shp s'|s'] eqn:E.
  - destruct (fst shp <? 3); intros H; inversion H; reflexivity.
  - intros H. inversion H; subst. exact (batch_reject_no_change st x s E).
Qed.

Lemma wf_preserved_min3 st x : wf st -> wf (state_of (validate_reference_min3 st x)).
Proof.
  intros W. unfold validate_reference_min3. pose proof (wf_preserved_batch st x W) as H.
  destruct (validate_X_batch st x) as [shp s|s]; simpl in *; [|exact H].
  destruct (fst shp <? 3); simpl; assumption.
Qed.

Lemma nondf_equiv_min3 x y st : is_df x = false -> is_df y = false ->
  coerce_batch x = coerce_batch y -> validate_reference_min3 st x = validate_reference_min3 st y.
Proof.
  intros Hx Hy E. unfold validate_reference_min3. rewrite (nondf_equiv_batch x y st Hx Hy E). reflexivity.
Qed.

(** ------------------------------------------------------------------ all usages at once *)
Lemma user_reject_no_change k st x s : user_validator k st x = Reject s -> s = st.
Proof.
  destruct k; simpl; try apply batch_reject_no_change.
  - apply stream_reject_no_change.
  - apply uni_reject_no_change.
Qed.

Lemma call_reject_no_change k r st x s : call_validator k r st x = Reject s -> s = st.
Proof.
  unfold call_validator. destruct (k_min3 k && r).
  - apply min3_reject_no_change.
  - apply user_reject_no_change.
Qed.

Lemma user_wf_preserved k st x : wf st -> wf (state_of (user_validator k st x)).
Proof.
  destruct k; simpl; try apply wf_preserved_batch.
  - apply wf_preserved_stream.
  - apply wf_preserved_uni.
Qed.

Lemma call_wf_preserved k r st x : wf st -> wf (state_of (call_validator k r st x)).
Proof.
  unfold call_validator. destruct (k_min3 k && r).
  - apply wf_preserved_min3.
  - apply user_wf_preserved.
Qed.

Lemma nondf_indistinguishable k (P : Type) (sel : P -> bool) x y : is_df x = false -> is_df y = false ->
  user_coerce k x = user_coerce k y ->
  indistinguishable P (user_early k) (fun p => call_validator k (sel p)) x y.
Proof.
  intros Hx Hy E. split.
  - destruct k; simpl; try reflexivity; unfold user_coerce in E; simpl in E;
      destruct (cdbd_guard x) eqn:Gx; destruct (cdbd_guard y) eqn:Gy; try reflexivity.
    + apply cdbd_guard_width in Gy. rewrite <- E in Gy. apply cdbd_guard_width in Gy. congruence.
    + apply cdbd_guard_width in Gx. rewrite E in Gx. apply cdbd_guard_width in Gx. congruence.
    + apply cdbd_guard_width in Gy. rewrite <- E in Gy. apply cdbd_guard_width in Gy. congruence.
    + apply cdbd_guard_width in Gx. rewrite E in Gx. apply cdbd_guard_width in Gx. congruence.
  - intros p st. unfold call_validator.
    destruct k; unfold user_coerce in E; simpl in *;
      try (apply nondf_equiv_batch; assumption).
    + apply nondf_equiv_stream; assumption.
    + apply nondf_equiv_uni; assumption.
    + destruct (sel p); [apply nondf_equiv_min3|apply nondf_equiv_batch]; assumption.
    + destruct (sel p); [apply nondf_equiv_min3|apply nondf_equiv_batch]; assumption.
Qed.

Lemma Forall2_weaken {A B} (R S : A -> B -> Prop) : (forall a b, R a b -> S a b) ->
  forall l1 l2, Forall2 R l1 l2 -> Forall2 S l1 l2.
Proof. intros H l1 l2 F. induction F; constructor; auto. Qed.

Theorem container_irrelevant_history k (D P : Type) (sel : P -> bool) (pre : D -> D)
        (body : D -> Z * Z -> P -> D) h1 h2 m :
  let V := fun p => call_validator k (sel p) in
  Forall2 (fun c1 c2 => snd c1 = snd c2 /\
                        (fst c1 = fst c2 \/
                         (is_df (fst c1) = false /\ is_df (fst c2) = false /\
                          user_coerce k (fst c1) = user_coerce k (fst c2)))) h1 h2 ->
  m_trace (user_early k) pre V body m h1 = m_trace (user_early k) pre V body m h2 /\
  m_verdicts (user_early k) pre V body m h1 = m_verdicts (user_early k) pre V body m h2 /\
  m_final (user_early k) pre V body m h1 = m_final (user_early k) pre V body m h2.
Proof.
  intros V F.
  apply (container_irrelevant_machine D P (user_early k) pre V body h1 h2 m).
  eapply Forall2_weaken; [|exact F]. intros a b (Hp & [E|(A & B & C)]); split; try exact Hp.
  - rewrite E. split; reflexivity.
  - exact (nondf_indistinguishable k P sel (fst a) (fst b) A B C).
Qed.

(** the checker the harness evaluates is the verified validator: a call whose only validation is the
    user's X gets the verdict and the attributes of [user_early] / [call_validator] *)
Lemma call_model_single k r st x seen acc cols dim known :
  let c := mkCall r (Some x) None None [(true, x, seen)] acc cols dim known in
  fst (fst (call_model k st c)) = negb (user_early k x) && is_accept (call_validator k r st x) /\
  snd (fst (call_model k st c)) = if user_early k x then st else state_of (call_validator k r st x).
Proof.
  unfold call_model, call_validator. simpl.
  destruct k; simpl.
  - unfold k_validator; simpl. destruct (validate_X_stream st x) as [shp s|s]; simpl; auto.
  - unfold k_validator, validate_univariate; simpl.
    destruct (validate_X_stream st x) as [shp s|s]; simpl; auto.
    destruct (negb (snd shp =? 1)); simpl; auto.
  - unfold k_validator; simpl. destruct (validate_X_batch st x) as [shp s|s]; simpl; auto.
  - destruct (cdbd_guard x); simpl; auto.
    unfold k_validator; simpl. destruct (validate_X_batch st x) as [shp s|s]; simpl; auto.
  - unfold k_validator, validate_reference_min3; simpl. destruct r; simpl;
      destruct (validate_X_batch st x) as [shp s|s]; simpl; auto.
    destruct (fst shp <? 3); simpl; auto.
  - destruct (cdbd_guard x); simpl; auto.
    unfold k_validator, validate_reference_min3; simpl. destruct r; simpl;
      destruct (validate_X_batch st x) as [shp s|s]; simpl; auto.
    destruct (fst shp <? 3); simpl; auto.
Qed.

(** attributes after a history of calls, each saying whether it is set_reference *)
Definition final_calls (k : dkind) (st : vstate) (h : list (bool * input)) : vstate :=
  fold_left (fun s c => state_of (call_validator k (fst c) s (snd c))) h st.

Lemma wf_final_calls k h : forall st, wf st -> wf (final_calls k st h).
Proof.
  induction h as [|c t IH]; intros st W; simpl; [exact W|].
  apply IH. apply call_wf_preserved. exact W.
Qed.
