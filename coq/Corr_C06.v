(** LFR checkers on the float instance. *)
From MV Require Import Base Num NumFloat Lifecycle Corr Lfr.
From Coq Require Import PrimFloat.

Definition rate_of_Z (k : Z) : rate := if (k =? 0)%Z then TPR else if (k =? 1)%Z then TNR else if (k =? 2)%Z then PPV else NPV.
Definition lfr_p (eta : float) (burn sub : Z) (tracked : list Z) : @lfr_params NumFloat :=
  @Build_lfr_params NumFloat eta burn sub (map rate_of_Z tracked).
Definition mkb (a b c d : float) : @bounds NumFloat := @Build_bounds NumFloat a b c d.
Definition lfr_extra (p : @lfr_params NumFloat) (s : st (LFR p)) : list float :=
  let e := epoch s in
  [r_tpr (l_r e); r_tnr (l_r e); r_ppv (l_r e); r_npv (l_r e); b2f (l_oracle_ok e);
   float_ofZ (Z.of_nat (length (l_cache e)))].
Definition chk_lfr eta burn sub tracked (xs : list (@lfr_input NumFloat)) (exp : list exp_row) : bool :=
  let p := lfr_p eta burn sub tracked in chk_trace (lfr_extra p) (init (LFR p) lfr_e0) xs exp.
Definition show_lfr eta burn sub tracked (xs : list (@lfr_input NumFloat)) (exp : list exp_row) :=
  let p := lfr_p eta burn sub tracked in first_bad (lfr_extra p) (init (LFR p) lfr_e0) xs exp 0.
