(** C17 for ADWIN (exact real arithmetic): a smaller delta never moves the first reported drift to
    an earlier sample.  Statements only; definitions and proofs in Adwin_Mono.v.
    The model [Adwin.v] is instantiated at [NumLaws.NumR]; delta enters the model only through the
    oracle [dpd W] (= log(c log W / delta) in the code), so the theorems are stated for two oracles
    (1 = looser / larger delta, 2 = stricter) with [dpd1 W <= dpd2 W] for every window width W >= 2
    (no split is ever tested on a window of one sample), and then for the log oracle itself.
    No other hypothesis: all parameters (max_buckets, thresholds, both bounds) are arbitrary; no sign
    condition on the oracle values is needed ([sqrt] is monotone on all of R, the harmonic term of an
    admissible split is positive, the window's variance is non-negative).

    Vocabulary (Adwin_Mono.v): [adwin_trace p dpd s xs] = the states after each update;
    [adwin_first_drift p dpd s xs] = [first_drift] (Lifecycle_Mono) of the observations
    (a_ds, a_n, a_since, a_recs) of that trace: 0-based index of the first update reporting drift,
    [None] = never; [opt_le] (Lifecycle_Mono) orders them with [None] = infinity. *)
From MV Require Import Base Num Adwin Adwin_Proofs NumLaws Adwin_Exact Lifecycle Lifecycle_Mono Adwin_Mono.
From Coq Require Import Reals Lra.

(** the stricter run never reports its first drift before the looser one *)
Theorem C17_adwin_first_drift_monotone : forall (dpd1 dpd2 : Z -> R) (p : adwin_params),
  (forall W, 2 <= W -> (dpd1 W <= dpd2 W)%R) ->
  forall xs : list R,
  opt_le (adwin_first_drift p dpd1 adwin_init xs) (adwin_first_drift p dpd2 adwin_init xs).
Proof. exact adwin_first_drift_mono. Qed.

(** until the looser run's first drift the two runs are in identical states (all fields: rows,
    total, variance, W, counters, drift state, recommendations) *)
Theorem C17_adwin_same_until_first_drift : forall (dpd1 dpd2 : Z -> R) (p : adwin_params),
  (forall W, 2 <= W -> (dpd1 W <= dpd2 W)%R) ->
  forall xs : list R,
  match adwin_first_drift p dpd1 adwin_init xs with
  | Some k => firstn k (adwin_trace p dpd2 adwin_init xs) = firstn k (adwin_trace p dpd1 adwin_init xs)
  | None => adwin_trace p dpd2 adwin_init xs = adwin_trace p dpd1 adwin_init xs
  end.
Proof. exact adwin_same_until. Qed.

(** the trace really is the sequence of states of [adwin_run] *)
Theorem C17_adwin_trace_is_run : forall (dpd : Z -> R) (p : adwin_params) xs (s : @adwin_st NumR) k,
  (k < length xs)%nat ->
  nth_error (adwin_trace p dpd s xs) k = Some (@adwin_run NumR dpd p s (firstn (S k) xs)).
Proof. exact adwin_trace_nth. Qed.

(** the mechanism: on one state with non-negative width and variance, a cut found under the
    stricter oracle is a cut under the looser one; both forms of the epsilon-cut (default and
    conservative, selected by [a_conservative p]) are covered *)
Theorem C17_adwin_found_cut_monotone : forall (dpd1 dpd2 : Z -> R) (p : adwin_params) (s : @adwin_st NumR),
  (0 <= a_var s)%R -> 0 <= a_W s -> (dpd1 (a_W s) <= dpd2 (a_W s))%R ->
  @found_cut NumR dpd2 p s = true -> @found_cut NumR dpd1 p s = true.
Proof. exact found_cut_mono. Qed.

Theorem C17_adwin_eps_cut_monotone : forall (dpd1 dpd2 : Z -> R) p var W n0 n1,
  a_sub_thresh p <= n0 -> a_sub_thresh p <= n1 ->
  (0 <= @variance_of NumR var W)%R -> (dpd1 W <= dpd2 W)%R ->
  (@eps_cut NumR dpd1 p var W n0 n1 <= @eps_cut NumR dpd2 p var W n0 n1)%R.
Proof. exact eps_cut_mono. Qed.

(** the oracle of the code is antitone in delta wherever a cut is tested (W >= 2, so ln W > 0 and
    the argument of the outer log is positive for every delta > 0) *)
Theorem C17_adwin_log_oracle_antitone : forall (c d1 d2 : R) (W : Z),
  (0 < c)%R -> (0 < d2 <= d1)%R -> 2 <= W -> (log_oracle c d1 W <= log_oracle c d2 W)%R.
Proof. exact log_oracle_antitone. Qed.

(** smaller delta (same bound, c = 2 or 4): first drift not earlier, identical states before *)
Theorem C17_adwin_smaller_delta : forall (c delta1 delta2 : R) (p : adwin_params),
  (0 < c)%R -> (0 < delta2 <= delta1)%R ->
  forall xs : list R,
  opt_le (adwin_first_drift p (log_oracle c delta1) adwin_init xs)
         (adwin_first_drift p (log_oracle c delta2) adwin_init xs) /\
  match adwin_first_drift p (log_oracle c delta1) adwin_init xs with
  | Some k => firstn k (adwin_trace p (log_oracle c delta2) adwin_init xs) =
              firstn k (adwin_trace p (log_oracle c delta1) adwin_init xs)
  | None => adwin_trace p (log_oracle c delta2) adwin_init xs =
            adwin_trace p (log_oracle c delta1) adwin_init xs
  end.
Proof. exact adwin_delta_mono. Qed.

(** the hypotheses are satisfiable: delta = 1 and delta = 1/500, c = 2 *)
Example C17_adwin_hypotheses_satisfiable : (0 < 2)%R /\ (0 < / 500 <= 1)%R.
Proof. split; [|split]; lra. Qed.

Print Assumptions C17_adwin_first_drift_monotone.
Print Assumptions C17_adwin_same_until_first_drift.
Print Assumptions C17_adwin_trace_is_run.
Print Assumptions C17_adwin_found_cut_monotone.
Print Assumptions C17_adwin_eps_cut_monotone.
Print Assumptions C17_adwin_log_oracle_antitone.
Print Assumptions C17_adwin_smaller_delta.
