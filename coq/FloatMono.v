(** Monotonicity facts of IEEE-754 binary64 arithmetic, PROVED for Coq's primitive floats
    (round-to-nearest-even) from Flocq: [Flocq.IEEE754.PrimFloat] relates [PrimFloat] operations to
    [BinarySingleNaN.binary_float prec emax], whose operations are correctly rounded ([Bmult_correct],
    [Bplus_correct], [Bminus_correct], [Bsqrt_correct]); rounding is monotone ([round_le]).

    These are the float counterparts of [NumLaws.MonoLaws], with the side conditions (finiteness /
    non-NaN) under which they are true of doubles.  The unconditional [MonoLaws] are false of doubles
    (see the [..._refuted] examples at the end, and Prop_C17_ph_refuted.v).

    Trusted base: the specification axioms of Coq's primitive floats (Coq.Floats.FloatAxioms: mul_spec,
    add_spec, ..., which say that the primitive operations compute the SpecFloat functions) and the
    classical axioms of the standard library's real numbers (used by Flocq). *)
From Flocq Require Import Core BinarySingleNaN.
From Flocq Require IEEE754.PrimFloat.
From Coq Require Import ZArith Reals Lra Bool Floats.
From MV Require Import Base Num NumFloat FloatLaws.

Local Notation bfl := (binary_float prec emax).
Local Notation P2B := Flocq.IEEE754.PrimFloat.Prim2B.
Local Notation rnd := (round radix2 (SpecFloat.fexp prec emax) (round_mode mode_NE)).
Local Notation big := (bpow radix2 emax).
Local Notation Bfin := (@BinarySingleNaN.is_finite prec emax).
Local Notation Bnan := (@BinarySingleNaN.is_nan prec emax).
Local Notation Bzero := (B754_zero false : bfl).

Local Instance Hprec : Prec_gt_0 prec := Flocq.IEEE754.PrimFloat.Hprec.
Local Instance Hmax : Prec_lt_emax prec emax := Flocq.IEEE754.PrimFloat.Hmax.
Local Instance Hfexp : Valid_exp (SpecFloat.fexp prec emax) := fexp_correct prec emax Hprec.

(** ====================== level of Flocq's [binary_float 53 1024] ====================== *)
Section BLevel.
Local Open Scope R_scope.

Lemma rnd_le (x y : R) : x <= y -> rnd x <= rnd y.
Proof. intros H. apply round_le; auto with typeclass_instances. Qed.

Lemma rnd_0 : rnd 0 = 0.
Proof. apply round_0; auto with typeclass_instances. Qed.

Lemma big_pos : 0 < big.
Proof. apply bpow_gt_0. Qed.

(** sign bit versus real value *)
Lemma Bsign_true_le (x : bfl) : Bsign x = true -> B2R x <= 0.
Proof.
  destruct x as [s|s| |s m e H]; simpl; intros Hs; try lra. subst s.
  apply Rlt_le. apply F2R_lt_0. simpl. reflexivity.
Qed.
Lemma Bsign_false_ge (x : bfl) : Bsign x = false -> 0 <= B2R x.
Proof.
  destruct x as [s|s| |s m e H]; simpl; intros Hs; try lra. subst s.
  apply Rlt_le. apply F2R_gt_0. simpl. reflexivity.
Qed.
Lemma Bsign_pos (x : bfl) : 0 < B2R x -> Bsign x = false.
Proof.
  intros H. destruct (Bsign x) eqn:E; [|reflexivity]. apply Bsign_true_le in E. lra.
Qed.
Lemma Bsign_neg (x : bfl) : B2R x < 0 -> Bsign x = true.
Proof.
  intros H. destruct (Bsign x) eqn:E; [reflexivity|]. apply Bsign_false_ge in E. lra.
Qed.

Lemma xorb_sign_pos (x y : bfl) : 0 < B2R x * B2R y -> xorb (Bsign x) (Bsign y) = false.
Proof.
  intros H. destruct (Rtotal_order (B2R x) 0) as [Hx|[Hx|Hx]].
  - assert (Hy : B2R y < 0) by nra. rewrite (Bsign_neg x Hx), (Bsign_neg y Hy). reflexivity.
  - rewrite Hx in H. lra.
  - assert (Hy : 0 < B2R y) by nra. rewrite (Bsign_pos x Hx), (Bsign_pos y Hy). reflexivity.
Qed.
Lemma xorb_sign_neg (x y : bfl) : B2R x * B2R y < 0 -> xorb (Bsign x) (Bsign y) = true.
Proof.
  intros H. destruct (Rtotal_order (B2R x) 0) as [Hx|[Hx|Hx]].
  - assert (Hy : 0 < B2R y) by nra. rewrite (Bsign_neg x Hx), (Bsign_pos y Hy). reflexivity.
  - rewrite Hx in H. lra.
  - assert (Hy : B2R y < 0) by nra. rewrite (Bsign_pos x Hx), (Bsign_neg y Hy). reflexivity.
Qed.

Lemma B2SF_inf (z : bfl) s : B2SF z = S754_infinity s -> z = B754_infinity s.
Proof. destruct z; simpl; intros H; try discriminate. injection H as ->. reflexivity. Qed.

Lemma fin_not_nan (z : bfl) : Bfin z = true -> Bnan z = false.
Proof. destruct z; simpl; intros; try reflexivity; discriminate. Qed.

(** the sign of a rounded value *)
Lemma rnd_pos_inv (x : R) : 0 < rnd x -> 0 < x.
Proof.
  intros H. destruct (Rlt_or_le 0 x) as [L|L]; [exact L|]. apply rnd_le in L. rewrite rnd_0 in L. lra.
Qed.
Lemma rnd_neg_inv (x : R) : rnd x < 0 -> x < 0.
Proof.
  intros H. destruct (Rlt_or_le x 0) as [L|L]; [exact L|]. apply rnd_le in L. rewrite rnd_0 in L. lra.
Qed.

(** [res_of z r]: [z] is the IEEE result of an operation whose exact result rounds to [r]:
    the finite float of value [r], or the correctly signed infinity when [|r| >= 2^1024] *)
Inductive res_of (z : bfl) (r : R) : Prop :=
| RFin : - big < r < big -> Bfin z = true -> B2R z = r -> res_of z r
| RPos : big <= r -> z = B754_infinity false -> res_of z r
| RNeg : r <= - big -> z = B754_infinity true -> res_of z r.

Lemma res_of_not_nan z r : res_of z r -> Bnan z = false.
Proof. intros [H1 H2 H3 | H1 H2 | H1 H2]; [apply fin_not_nan; exact H2 | subst z; reflexivity ..]. Qed.

Lemma Bleb_fin (x y : bfl) : Bfin x = true -> Bfin y = true -> (Bleb x y = true <-> B2R x <= B2R y).
Proof.
  intros Fx Fy. rewrite (Bleb_correct prec emax x y Fx Fy).
  destruct (Rle_bool_spec (B2R x) (B2R y)); split; intros; try reflexivity; try assumption; try discriminate; lra.
Qed.
Lemma Bltb_fin (x y : bfl) : Bfin x = true -> Bfin y = true -> (Bltb x y = true <-> B2R x < B2R y).
Proof.
  intros Fx Fy. rewrite (Bltb_correct prec emax x y Fx Fy).
  destruct (Rlt_bool_spec (B2R x) (B2R y)); split; intros; try reflexivity; try assumption; try discriminate; lra.
Qed.
Lemma Bleb_neginf (y : bfl) : Bnan y = false -> Bleb (B754_infinity true) y = true.
Proof. destruct y as [s|[|]| |[|] m e H]; intros Hn; try reflexivity; discriminate. Qed.
Lemma Bleb_posinf (x : bfl) : Bnan x = false -> Bleb x (B754_infinity false) = true.
Proof. destruct x as [s|[|]| |[|] m e H]; intros Hn; try reflexivity; discriminate. Qed.

(** results of operations with ordered exact (rounded) values are ordered *)
Lemma res_of_le z1 r1 z2 r2 : res_of z1 r1 -> res_of z2 r2 -> r1 <= r2 -> Bleb z1 z2 = true.
Proof.
  intros H1 H2 Hr. pose proof big_pos as Hb.
  destruct H1 as [A1 A2 A3 | A1 A2 | A1 A2].
  - destruct H2 as [B1 B2 B3 | B1 B2 | B1 B2].
    + apply Bleb_fin; try assumption. rewrite A3, B3. exact Hr.
    + subst z2. apply Bleb_posinf. apply fin_not_nan. exact A2.
    + lra.
  - destruct H2 as [B1 B2 B3 | B1 B2 | B1 B2]; try lra. subst z1 z2. reflexivity.
  - subst z1. apply Bleb_neginf. exact (res_of_not_nan _ _ H2).
Qed.

Lemma res_of_zero : res_of Bzero 0.
Proof. pose proof big_pos. apply RFin; simpl; try reflexivity. lra. Qed.

(** classification of the three correctly rounded operations on finite arguments *)
Lemma Bmult_res (x y : bfl) : Bfin x = true -> Bfin y = true ->
  res_of (Bmult mode_NE x y) (rnd (B2R x * B2R y)).
Proof.
  intros Fx Fy. pose proof big_pos as Hb.
  generalize (Bmult_correct prec emax Hprec Hmax mode_NE x y).
  set (r := rnd (B2R x * B2R y)).
  destruct (Rlt_bool_spec (Rabs r) big) as [Hr|Hr].
  - intros (H1 & H2 & _). rewrite Fx, Fy in H2. apply Rabs_def2 in Hr. apply RFin; [lra | exact H2 | exact H1].
  - intros H. change (binary_overflow prec emax mode_NE (xorb (Bsign x) (Bsign y)))
      with (S754_infinity (xorb (Bsign x) (Bsign y))) in H. apply B2SF_inf in H.
    destruct (Rle_or_lt 0 r) as [Hp|Hn].
    + rewrite Rabs_pos_eq in Hr by exact Hp. apply RPos; [exact Hr|]. rewrite H. f_equal.
      apply xorb_sign_pos. apply rnd_pos_inv. fold r. lra.
    + rewrite Rabs_left in Hr by exact Hn. apply RNeg; [lra|]. rewrite H. f_equal.
      apply xorb_sign_neg. apply rnd_neg_inv. fold r. lra.
Qed.

Lemma Bplus_res (x y : bfl) : Bfin x = true -> Bfin y = true ->
  res_of (Bplus mode_NE x y) (rnd (B2R x + B2R y)).
Proof.
  intros Fx Fy. pose proof big_pos as Hb.
  generalize (Bplus_correct prec emax Hprec Hmax mode_NE x y Fx Fy).
  set (r := rnd (B2R x + B2R y)).
  destruct (Rlt_bool_spec (Rabs r) big) as [Hr|Hr].
  - intros (H1 & H2 & _). apply Rabs_def2 in Hr. apply RFin; [lra | exact H2 | exact H1].
  - intros (H & Hs). change (binary_overflow prec emax mode_NE (Bsign x)) with (S754_infinity (Bsign x)) in H.
    apply B2SF_inf in H.
    destruct (Rle_or_lt 0 r) as [Hp|Hn].
    + rewrite Rabs_pos_eq in Hr by exact Hp. apply RPos; [exact Hr|]. rewrite H. f_equal.
      assert (Hx : 0 < B2R x + B2R y) by (apply rnd_pos_inv; fold r; lra).
      destruct (Bsign x) eqn:E; [|reflexivity]. symmetry in Hs.
      apply Bsign_true_le in E. apply Bsign_true_le in Hs. lra.
    + rewrite Rabs_left in Hr by exact Hn. apply RNeg; [lra|]. rewrite H. f_equal.
      assert (Hx : B2R x + B2R y < 0) by (apply rnd_neg_inv; fold r; lra).
      destruct (Bsign x) eqn:E; [reflexivity|]. symmetry in Hs.
      apply Bsign_false_ge in E. apply Bsign_false_ge in Hs. lra.
Qed.

Lemma Bminus_res (x y : bfl) : Bfin x = true -> Bfin y = true ->
  res_of (Bminus mode_NE x y) (rnd (B2R x - B2R y)).
Proof.
  intros Fx Fy. pose proof big_pos as Hb.
  generalize (Bminus_correct prec emax Hprec Hmax mode_NE x y Fx Fy).
  set (r := rnd (B2R x - B2R y)).
  destruct (Rlt_bool_spec (Rabs r) big) as [Hr|Hr].
  - intros (H1 & H2 & _). apply Rabs_def2 in Hr. apply RFin; [lra | exact H2 | exact H1].
  - intros (H & Hs). change (binary_overflow prec emax mode_NE (Bsign x)) with (S754_infinity (Bsign x)) in H.
    apply B2SF_inf in H.
    destruct (Rle_or_lt 0 r) as [Hp|Hn].
    + rewrite Rabs_pos_eq in Hr by exact Hp. apply RPos; [exact Hr|]. rewrite H. f_equal.
      assert (Hx : 0 < B2R x - B2R y) by (apply rnd_pos_inv; fold r; lra).
      destruct (Bsign x) eqn:E; [|reflexivity].
      assert (Hy : Bsign y = false) by (destruct (Bsign y); [discriminate | reflexivity]).
      apply Bsign_true_le in E. apply Bsign_false_ge in Hy. lra.
    + rewrite Rabs_left in Hr by exact Hn. apply RNeg; [lra|]. rewrite H. f_equal.
      assert (Hx : B2R x - B2R y < 0) by (apply rnd_neg_inv; fold r; lra).
      destruct (Bsign x) eqn:E; [reflexivity|].
      assert (Hy : Bsign y = true) by (destruct (Bsign y); [reflexivity | discriminate]).
      apply Bsign_false_ge in E. apply Bsign_true_le in Hy. lra.
Qed.

(** ---- the monotonicity facts on [binary_float] ---- *)
Theorem Bmult_mono_fin (a b s : bfl) : Bfin a = true -> Bfin b = true -> Bfin s = true ->
  Bleb a b = true -> Bleb Bzero s = true ->
  Bleb (Bmult mode_NE a s) (Bmult mode_NE b s) = true.
Proof.
  intros Fa Fb Fs Hab Hs.
  apply (Bleb_fin a b Fa Fb) in Hab. apply (Bleb_fin Bzero s eq_refl Fs) in Hs. simpl in Hs.
  apply (res_of_le _ _ _ _ (Bmult_res a s Fa Fs) (Bmult_res b s Fb Fs)).
  apply rnd_le. apply Rmult_le_compat_r; assumption.
Qed.

Theorem Bplus_mono_fin (a b c : bfl) : Bfin a = true -> Bfin b = true -> Bfin c = true ->
  Bleb a b = true -> Bleb (Bplus mode_NE c a) (Bplus mode_NE c b) = true.
Proof.
  intros Fa Fb Fc Hab. apply (Bleb_fin a b Fa Fb) in Hab.
  apply (res_of_le _ _ _ _ (Bplus_res c a Fc Fa) (Bplus_res c b Fc Fb)).
  apply rnd_le. lra.
Qed.

(** adding a finite value to a non-NaN value never gives NaN *)
Lemma Bplus_fin_not_nan (c a : bfl) : Bfin c = true -> Bnan a = false -> Bnan (Bplus mode_NE c a) = false.
Proof.
  intros Fc Ha. destruct (Bfin a) eqn:Fa.
  - exact (res_of_not_nan _ _ (Bplus_res c a Fc Fa)).
  - destruct a as [s|s| |s m e H]; try discriminate.
    destruct c as [sc|sc| |sc mc ec Hc]; try discriminate; reflexivity.
Qed.

Lemma Bplus_fin_inf (c : bfl) s : Bfin c = true -> Bplus mode_NE c (B754_infinity s) = B754_infinity s.
Proof. destruct c as [sc|sc| |sc mc ec Hc]; intros; try discriminate; reflexivity. Qed.

(** ... the second and third argument may be infinite *)
Theorem Bplus_mono (a b c : bfl) : Bfin c = true ->
  Bleb a b = true -> Bleb (Bplus mode_NE c a) (Bplus mode_NE c b) = true.
Proof.
  intros Fc Hab.
  assert (Na : Bnan a = false) by (destruct a as [|[|]| |]; try reflexivity; discriminate).
  assert (Nb : Bnan b = false)
    by (destruct b as [|[|]| |]; try reflexivity; destruct a as [|[|]| |[|]]; discriminate).
  destruct (Bfin a) eqn:Fa; [destruct (Bfin b) eqn:Fb|].
  - apply Bplus_mono_fin; assumption.
  - destruct b as [sb|sb| |sb mb eb Hb]; try discriminate.
    destruct sb.
    + (* b = -inf and a finite: impossible *)
      destruct a as [sa|sa| |[|] ma ea Ha]; discriminate.
    + rewrite (Bplus_fin_inf c false Fc). apply Bleb_posinf. apply Bplus_fin_not_nan; assumption.
  - destruct a as [sa|sa| |sa ma ea Ha]; try discriminate.
    destruct sa.
    + rewrite (Bplus_fin_inf c true Fc). apply Bleb_neginf. apply Bplus_fin_not_nan; assumption.
    + (* a = +inf: b = +inf *)
      destruct b as [sb|[|]| |[|] mb eb Hb]; try discriminate.
      rewrite (Bplus_fin_inf c false Fc). reflexivity.
Qed.

Theorem Bminus_nonneg_fin (a b : bfl) : Bfin a = true -> Bfin b = true ->
  Bleb a b = true -> Bleb Bzero (Bminus mode_NE b a) = true.
Proof.
  intros Fa Fb Hab. apply (Bleb_fin a b Fa Fb) in Hab.
  apply (res_of_le _ _ _ _ res_of_zero (Bminus_res b a Fb Fa)).
  rewrite <- rnd_0. apply rnd_le. lra.
Qed.

Theorem Bsqrt_nonneg (x : bfl) : Bnan (Bsqrt mode_NE x) = false -> Bleb Bzero (Bsqrt mode_NE x) = true.
Proof.
  intros Hn. destruct (Bsqrt_correct prec emax Hprec Hmax mode_NE x) as (H1 & H2 & _).
  destruct x as [s|[|]| |[|] m e H]; try discriminate Hn; try reflexivity.
  set (z := Bsqrt mode_NE (B754_finite false m e H)) in *.
  apply (Bleb_fin Bzero z eq_refl H2). rewrite H1. simpl B2R at 1.
  rewrite <- rnd_0 at 1. apply rnd_le. apply sqrt_pos.
Qed.

(** ... the larger factor [b] may be infinite, as long as its product is not NaN (inf * 0) *)
Theorem Bmult_mono_fin_r (a b s : bfl) : Bfin a = true -> Bfin s = true ->
  Bleb a b = true -> Bleb Bzero s = true -> Bnan (Bmult mode_NE b s) = false ->
  Bleb (Bmult mode_NE a s) (Bmult mode_NE b s) = true.
Proof.
  intros Fa Fs Hab Hs Hn. destruct (Bfin b) eqn:Fb; [apply Bmult_mono_fin; assumption|].
  pose proof (res_of_not_nan _ _ (Bmult_res a s Fa Fs)) as Na.
  destruct b as [sb|[|]| |sb mb eb Hb]; try discriminate Fb.
  - (* b = -inf: a finite is not <= -inf *)
    destruct a as [sa|sa| |[|] ma ea Ha]; discriminate.
  - (* b = +inf *)
    destruct s as [ss|ss| |[|] ms es Hs']; try discriminate; apply Bleb_posinf; exact Na.
  - (* b = NaN *)
    destruct a as [sa|[|]| |[|] ma ea Ha]; discriminate.
Qed.

(** NaN propagates through an addition *)
Lemma Bplus_not_nan_r (c x : bfl) : Bnan (Bplus mode_NE c x) = false -> Bnan x = false.
Proof. destruct x as [sx|sx| |sx mx ex Hx]; try reflexivity. destruct c; simpl; intros H; exact H. Qed.

(** a positive infinity times a value >= 0 is +infinity or NaN: never below anything *)
Lemma Bmult_posinf_nonneg (m d : bfl) : Bleb Bzero m = true ->
  Bltb (Bmult mode_NE (B754_infinity false) m) d = false.
Proof.
  destruct m as [s|[|]| |[|] mm em Hm]; intros H; try discriminate H; simpl Bmult;
    destruct d as [sd|[|]| |[|] md ed Hd]; reflexivity.
Qed.

End BLevel.

(** ====================== level of Coq's primitive floats ====================== *)
Local Open Scope float_scope.

Lemma P2B_zero : P2B PrimFloat.zero = B754_zero false.
Proof. rewrite Flocq.IEEE754.PrimFloat.zero_equiv. apply Flocq.IEEE754.PrimFloat.Prim2B_B2Prim. Qed.

Ltac to_B :=
  rewrite ?Flocq.IEEE754.PrimFloat.leb_equiv, ?Flocq.IEEE754.PrimFloat.ltb_equiv,
          ?Flocq.IEEE754.PrimFloat.is_finite_equiv, ?Flocq.IEEE754.PrimFloat.is_nan_equiv,
          ?Flocq.IEEE754.PrimFloat.mul_equiv, ?Flocq.IEEE754.PrimFloat.add_equiv,
          ?Flocq.IEEE754.PrimFloat.sub_equiv, ?Flocq.IEEE754.PrimFloat.sqrt_equiv, ?P2B_zero in *.

(** (a) multiplication by a non-negative finite factor is monotone on finite values; either product may
    overflow to an infinity, the order is kept *)
Theorem mul_mono_fin (a b s : float) :
  PrimFloat.is_finite a = true -> PrimFloat.is_finite b = true -> PrimFloat.is_finite s = true ->
  (a <=? b) = true -> (0 <=? s) = true -> (a * s <=? b * s) = true.
Proof. change 0 with PrimFloat.zero. to_B. apply Bmult_mono_fin. Qed.

(** (a') the larger factor may be infinite as long as its product is not NaN *)
Theorem mul_mono_fin_r (a b s : float) :
  PrimFloat.is_finite a = true -> PrimFloat.is_finite s = true ->
  (a <=? b) = true -> (0 <=? s) = true -> PrimFloat.is_nan (b * s) = false -> (a * s <=? b * s) = true.
Proof. change 0 with PrimFloat.zero. to_B. apply Bmult_mono_fin_r. Qed.

Theorem add_not_nan_r (c x : float) : PrimFloat.is_nan (c + x) = false -> PrimFloat.is_nan x = false.
Proof. to_B. apply Bplus_not_nan_r. Qed.

(** finite * finite is never NaN *)
Theorem mul_fin_not_nan (a b : float) :
  PrimFloat.is_finite a = true -> PrimFloat.is_finite b = true -> PrimFloat.is_nan (a * b) = false.
Proof. to_B. intros Fa Fb. exact (res_of_not_nan _ _ (Bmult_res _ _ Fa Fb)). Qed.

(** (b) adding a finite value is monotone; [a], [b] may be infinite (they cannot be NaN since a <= b) *)
Theorem add_mono_fin (a b c : float) :
  PrimFloat.is_finite c = true -> (a <=? b) = true -> (c + a <=? c + b) = true.
Proof. to_B. apply Bplus_mono. Qed.

(** (c) a square root that is not NaN is >= 0 (sqrt(-0.0) = -0.0, and 0 <= -0.0) *)
Theorem sqrt_nonneg (x : float) :
  PrimFloat.is_nan (PrimFloat.sqrt x) = false -> (0 <=? PrimFloat.sqrt x) = true.
Proof. change 0 with PrimFloat.zero. to_B. apply Bsqrt_nonneg. Qed.

(** (d) b - a >= 0 for finite a <= b (the difference may overflow to +infinity) *)
Theorem sub_nonneg_fin (a b : float) :
  PrimFloat.is_finite a = true -> PrimFloat.is_finite b = true -> (a <=? b) = true -> (0 <=? b - a) = true.
Proof. change 0 with PrimFloat.zero. to_B. apply Bminus_nonneg_fin. Qed.

(** (e) order facts on non-NaN values *)
Lemma is_nan_false_not_nan (x : float) : PrimFloat.is_nan x = false -> not_nan x.
Proof.
  rewrite Flocq.IEEE754.PrimFloat.is_nan_equiv. unfold not_nan.
  rewrite <- Flocq.IEEE754.PrimFloat.B2SF_Prim2B. destruct (P2B x); simpl; intros H; try discriminate H; discriminate.
Qed.

Lemma is_finite_not_nan (x : float) : PrimFloat.is_finite x = true -> PrimFloat.is_nan x = false.
Proof. unfold PrimFloat.is_finite. destruct (PrimFloat.is_nan x); simpl; intros; [discriminate | reflexivity]. Qed.

Theorem leb_refl_nn (a : float) : PrimFloat.is_nan a = false -> (a <=? a) = true.
Proof. intros H. apply float_leb_refl. apply is_nan_false_not_nan. exact H. Qed.

Theorem leb_total_nn (a b : float) : PrimFloat.is_nan a = false -> PrimFloat.is_nan b = false ->
  (a <=? b) = true \/ (b <=? a) = true.
Proof. intros Ha Hb. apply float_leb_total; apply is_nan_false_not_nan; assumption. Qed.

Theorem ltb_negb_leb_nn (a b : float) : PrimFloat.is_nan a = false -> PrimFloat.is_nan b = false ->
  (a <? b) = negb (b <=? a).
Proof. intros Ha Hb. apply float_ltb_negb_leb; apply is_nan_false_not_nan; assumption. Qed.

(** a comparison that returns [true] has no NaN operand *)
Lemma leb_true_not_nan (a b : float) : (a <=? b) = true -> PrimFloat.is_nan a = false /\ PrimFloat.is_nan b = false.
Proof.
  to_B. destruct (P2B a) as [|[|]| |[|]], (P2B b) as [|[|]| |[|]]; simpl; intros H; try discriminate H; split; reflexivity.
Qed.

(** +infinity times a value >= 0 is +infinity or NaN, hence below nothing *)
Lemma is_infinity_pos (t : float) : PrimFloat.is_finite t = false -> (0 <? t) = true -> P2B t = B754_infinity false.
Proof.
  change 0 with PrimFloat.zero. to_B.
  destruct (P2B t) as [|[|]| |[|]]; simpl; intros H1 H2; try discriminate; reflexivity.
Qed.

Theorem mul_posinf_nonneg_not_below (t m d : float) :
  PrimFloat.is_finite t = false -> (0 <? t) = true -> (0 <=? m) = true -> (t * m <? d) = false.
Proof.
  intros Ft Ht Hm. pose proof (is_infinity_pos t Ft Ht) as E.
  change 0 with PrimFloat.zero in Hm. to_B. rewrite E. apply Bmult_posinf_nonneg. exact Hm.
Qed.

(** ====================== the unconditional laws are false of doubles ====================== *)
(** mul_mono_nonneg without finiteness: 1 <= inf, 0 <= 0, but 1*0 = 0 and inf*0 = NaN *)
Example mul_mono_nonneg_refuted :
  (1 <=? infinity) = true /\ (0 <=? 0) = true /\ (1 * 0 <=? infinity * 0) = false.
Proof. vm_compute. repeat split. Qed.
(** add_mono_r with an infinite [c]: -inf <= 0 but inf + -inf = NaN *)
Example add_mono_r_refuted :
  (neg_infinity <=? 0) = true /\ (infinity + neg_infinity <=? infinity + 0) = false.
Proof. vm_compute. repeat split. Qed.
(** sqrt_nonneg without the non-NaN premise *)
Example sqrt_nonneg_refuted : (0 <=? PrimFloat.sqrt (-1)) = false.
Proof. vm_compute. reflexivity. Qed.
(** sub_nonneg with infinite arguments: inf <= inf but inf - inf = NaN *)
Example sub_nonneg_refuted : (infinity <=? infinity) = true /\ (0 <=? infinity - infinity) = false.
Proof. vm_compute. repeat split. Qed.
(** mul_pos_neg fails by underflow: 0 < t, m < 0, but t * m = -0.0 which is not < 0 *)
Example mul_pos_neg_refuted :
  (0 <? 0x1p-1063) = true /\ (-0x1p-33 <? 0) = true /\ (0x1p-1063 * -0x1p-33 <? 0) = false.
Proof. vm_compute. repeat split. Qed.
(** leb is not reflexive at NaN *)
Example leb_refl_refuted : (nan <=? nan) = false.
Proof. vm_compute. reflexivity. Qed.
