(** In exact arithmetic numpy's pairwise summation is the plain sum: np.mean / np.std are the arithmetic
    mean and the population standard deviation (reals). *)
From MV Require Import Base Num NumLaws Pairwise RunMean.
From Coq Require Import Reals Lra Lia ZifyNat.
Ltac Zify.zify_post_hook ::= Z.to_euclidean_division_equations.
Open Scope R_scope.

Notation psum := (@sum_seq NumR).

Lemma sum_seq_R : forall (l : list R) (a : R), psum a l = a + sumR l.
Proof.
  induction l as [|x l IH]; intros a; simpl; [lra|].
  unfold sum_seq in *. simpl. rewrite IH. simpl. lra.
Qed.

Lemma sumR_app (a b : list R) : sumR (a ++ b) = sumR a + sumR b.
Proof. induction a as [|x a IH]; simpl; [lra|]. rewrite IH. lra. Qed.

Lemma sumR_firstn_skipn (n : nat) (l : list R) : sumR (firstn n l) + sumR (skipn n l) = sumR l.
Proof. rewrite <- sumR_app, firstn_skipn. reflexivity. Qed.

(** adding two lists component-wise adds their sums (when they have the same length) *)
Lemma sumR_combine_add : forall (r c : list R), length r = length c ->
  sumR (map (fun p : R * R => @fadd NumR (fst p) (snd p)) (combine r c)) = sumR r + sumR c.
Proof.
  induction r as [|x r IH]; intros [|y c] H; simpl in *; try discriminate; [lra|].
  injection H as H. rewrite IH by exact H. lra.
Qed.

Lemma block_loop_sum : forall fuel (r l : list R), length r = 8%nat ->
  sumR (fst (@block_loop NumR fuel r l)) + sumR (snd (@block_loop NumR fuel r l)) = sumR r + sumR l /\
  length (fst (@block_loop NumR fuel r l)) = 8%nat.
Proof.
  induction fuel as [|fuel IH]; intros r l Hr; cbn [block_loop fst snd]; [split; [reflexivity | exact Hr]|].
  match goal with |- context [Nat.leb 8 ?n] => destruct (Nat.leb 8 n) eqn:E end; cbn [fst snd]; [|split; [reflexivity | exact Hr]].
  apply Nat.leb_le in E. change (F NumR) with R in *.
  assert (Hf : length (firstn 8 l) = 8%nat) by (rewrite firstn_length; lia).
  assert (Hlen : length (map (fun p : R * R => @fadd NumR (fst p) (snd p)) (combine r (firstn 8 l))) = 8%nat).
  { rewrite map_length, combine_length, Hr, Hf. reflexivity. }
  destruct (IH _ (skipn 8 l) Hlen) as [IH1 IH2]. split; [|exact IH2].
  eapply eq_trans; [exact IH1|].
  pose proof (sumR_combine_add r (firstn 8 l) ltac:(rewrite Hr, Hf; reflexivity)) as Hc.
  pose proof (sumR_firstn_skipn 8 l) as Hs. change (F NumR) with R in *. rewrite Hc. lra.
Qed.

Lemma block8_sum (l : list R) : (8 <= length l)%nat -> @block8 NumR l = sumR l.
Proof.
  intros H. unfold block8.
  assert (Hf : length (firstn 8 l) = 8%nat) by (rewrite firstn_length; lia).
  match goal with |- context [@block_loop ?N ?f ?r ?t] => remember (@block_loop N f r t) as bl eqn:Ebl end.
  assert (B : sumR (fst bl) + sumR (snd bl) = sumR (firstn 8 l) + sumR (skipn 8 l) /\ length (fst bl) = 8%nat)
    by (subst bl; exact (block_loop_sum (length l) (firstn 8 l) (skipn 8 l) Hf)).
  clear Ebl. destruct bl as [r t]. cbn [fst snd] in B. destruct B as [B1 B2].
  destruct r as [|r0 [|r1 [|r2 [|r3 [|r4 [|r5 [|r6 [|r7 [|? ?]]]]]]]]]; simpl in B2; try discriminate.
  rewrite sum_seq_R. unfold sumR at 1 in B1. cbn [fold_right] in B1. pose proof (sumR_firstn_skipn 8 l). cbn [fadd NumR]. change (F NumR) with R in *. lra.
Qed.

Lemma pw_sum_R : forall fuel (l : list R), (length l <= 128 \/ length l <= fuel + 128)%nat -> @pw_sum NumR fuel l = sumR l.
Proof.
  induction fuel as [|fuel IH]; intros l H; cbn [pw_sum]; change (F NumR) with R in *.
  - destruct (Nat.ltb_spec (length l) 8); [rewrite sum_seq_R; change (@f0 NumR) with 0%R; change (F NumR) with R in *; lra|].
    destruct (Nat.leb_spec (length l) 128); [apply block8_sum; lia | lia].
  - destruct (Nat.ltb_spec (length l) 8); [rewrite sum_seq_R; change (@f0 NumR) with 0%R; change (F NumR) with R in *; lra|].
    destruct (Nat.leb_spec (length l) 128); [apply block8_sum; lia|].
    set (n2 := (Nat.div (length l) 2 - Nat.modulo (Nat.div (length l) 2) 8)%nat).
    assert (Hn2 : (1 <= n2 < length l)%nat).
    { subst n2. lia. }
    rewrite IH, IH.
    + simpl. apply sumR_firstn_skipn.
    + right. rewrite skipn_length. change (F NumR) with R in *. fold n2. lia.
    + right. rewrite firstn_length. change (F NumR) with R in *. fold n2. lia.
Qed.

Theorem np_sum_exact (l : list R) : @np_sum NumR l = sumR l.
Proof. unfold np_sum. apply pw_sum_R. right. change (F NumR) with R. lia. Qed.

(** np.mean is the arithmetic mean *)
Theorem np_mean_exact (l : list R) : @np_mean NumR l = sumR l / IZR (Z.of_nat (length l)).
Proof. unfold np_mean. rewrite np_sum_exact. reflexivity. Qed.

(** np.std is the square root of the mean squared deviation from that mean *)
Theorem np_std_exact (l : list R) :
  @np_std NumR l = sqrt (sumR (map (fun x => (x - sumR l / IZR (Z.of_nat (length l))) * (x - sumR l / IZR (Z.of_nat (length l)))) l)
                        / IZR (Z.of_nat (length l))).
Proof.
  unfold np_std. cbv zeta. rewrite np_sum_exact, np_mean_exact. reflexivity.
Qed.
