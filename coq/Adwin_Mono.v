(** C17 for ADWIN, exact (real) arithmetic: a stricter confidence setting (smaller delta) never moves
    the first reported drift to an earlier sample.  In the model delta only enters through the oracle
    [dpd W] = log(c * log W / delta), which is antitone in delta; the theorem is stated for two
    oracles [dpd1 <= dpd2] (1 = looser, 2 = stricter) and then instantiated with the log oracle. *)
From MV Require Import Base Num Adwin Adwin_Proofs NumLaws Adwin_Exact Lifecycle Lifecycle_Mono.
From Coq Require Import Reals Lra Lia.

Notation ast := (@adwin_st NumR).

(** * the epsilon-cut is monotone in the oracle value *)
Section EpsMono.
Local Open Scope R_scope.

Lemma variance_of_eq var W :
  @variance_of NumR var W = if (W =? 0)%Z then 0 else var / IZR W.
Proof. reflexivity. Qed.

Lemma variance_of_nonneg var W : 0 <= var -> (0 <= W)%Z -> 0 <= @variance_of NumR var W.
Proof.
  intros Hv HW. rewrite variance_of_eq. destruct (W =? 0)%Z eqn:E; [lra|].
  apply Z.eqb_neq in E. assert (H : 0 < IZR W) by (apply IZR_lt; lia).
  unfold Rdiv. apply Rmult_le_pos; [exact Hv|]. left. apply Rinv_0_lt_compat. exact H.
Qed.

Lemma eps_cut_eq dpd p var W n0 n1 :
  @eps_cut NumR dpd p var W n0 n1 =
  if a_conservative p
  then sqrt (1 / 2 * (1 / IZR (n0 - a_sub_thresh p + 1) + 1 / IZR (n1 - a_sub_thresh p + 1)) * dpd W)
  else sqrt (2 * (1 / IZR (n0 - a_sub_thresh p + 1) + 1 / IZR (n1 - a_sub_thresh p + 1))
             * @variance_of NumR var W * dpd W)
       + 1 * (2 / 3) * (1 / IZR (n0 - a_sub_thresh p + 1) + 1 / IZR (n1 - a_sub_thresh p + 1)) * dpd W.
Proof. reflexivity. Qed.

Lemma inv_term_pos (a : Z) : (1 <= a)%Z -> 0 < 1 / IZR a.
Proof.
  intros H. assert (H1 : 0 < IZR a) by (apply IZR_lt; lia).
  unfold Rdiv. rewrite Rmult_1_l. apply Rinv_0_lt_compat. exact H1.
Qed.

(** for an admissible split (both parts >= a_sub_thresh) the harmonic term is positive, hence both
    forms of the cut are monotone in L = dpd W ([sqrt] is monotone on all of R) *)
Lemma eps_cut_mono dpd1 dpd2 p var W n0 n1 :
  (a_sub_thresh p <= n0)%Z -> (a_sub_thresh p <= n1)%Z ->
  0 <= @variance_of NumR var W -> dpd1 W <= dpd2 W ->
  @eps_cut NumR dpd1 p var W n0 n1 <= @eps_cut NumR dpd2 p var W n0 n1.
Proof.
  intros H0 H1 Hv HL. rewrite !eps_cut_eq.
  pose proof (inv_term_pos (n0 - a_sub_thresh p + 1) ltac:(lia)) as Ha.
  pose proof (inv_term_pos (n1 - a_sub_thresh p + 1) ltac:(lia)) as Hb.
  set (h := 1 / IZR (n0 - a_sub_thresh p + 1) + 1 / IZR (n1 - a_sub_thresh p + 1)) in *.
  assert (Hh : 0 < h) by (unfold h; lra).
  set (v := @variance_of NumR var W) in *.
  destruct (a_conservative p).
  - apply sqrt_le_1_alt. apply Rmult_le_compat_l; [lra | exact HL].
  - apply Rplus_le_compat.
    + apply sqrt_le_1_alt. apply Rmult_le_compat_l; [|exact HL].
      apply Rmult_le_pos; [lra | exact Hv].
    + apply Rmult_le_compat_l; [lra | exact HL].
Qed.

Lemma exceeds_eq dpd p var W n0 n1 t0 t1 :
  @exceeds NumR dpd p var W n0 n1 t0 t1 =
  if Rlt_dec (@eps_cut NumR dpd p var W n0 n1) (Rabs (1 * (t0 / IZR n0 - t1 / IZR n1)))
  then true else false.
Proof. reflexivity. Qed.

(** a larger cut can only turn "exceeds" from true into false *)
Lemma exceeds_mono dpd1 dpd2 p var W n0 n1 t0 t1 :
  (a_sub_thresh p <= n0)%Z -> (a_sub_thresh p <= n1)%Z ->
  0 <= @variance_of NumR var W -> dpd1 W <= dpd2 W ->
  @exceeds NumR dpd2 p var W n0 n1 t0 t1 = true -> @exceeds NumR dpd1 p var W n0 n1 t0 t1 = true.
Proof.
  intros H0 H1 Hv HL. rewrite !exceeds_eq, !Rltb_iff. intros H.
  pose proof (eps_cut_mono dpd1 dpd2 p var W n0 n1 H0 H1 Hv HL). lra.
Qed.
End EpsMono.

(** * the scan and the cut test *)
Section TwoOracles.
Variables dpd1 dpd2 : Z -> R.             (* 1 = looser (larger delta), 2 = stricter *)
Variable p : adwin_params.

(** [scan] stops at the first admissible split that exceeds its cut; whenever the stricter oracle
    finds one, the looser oracle finds one as well (possibly an earlier one) *)
Lemma scan_mono var W : (0 <= @variance_of NumR var W)%R -> (dpd1 W <= dpd2 W)%R ->
  forall bs n0 n1 t0 t1,
  @scan NumR dpd2 p bs var W n0 n1 t0 t1 = true -> @scan NumR dpd1 p bs var W n0 n1 t0 t1 = true.
Proof.
  intros Hv HL. induction bs as [|[[sz b] l0] rest IH]; intros n0 n1 t0 t1 H; [discriminate H|].
  cbn [scan] in *. cbv zeta in *. destruct l0; [discriminate H|].
  destruct (a_sub_thresh p <=? n0 + sz) eqn:E0; cbn [andb] in *; [|apply IH; exact H].
  destruct (a_sub_thresh p <=? n1 - sz) eqn:E1; cbn [andb] in *; [|apply IH; exact H].
  apply Z.leb_le in E0. apply Z.leb_le in E1.
  destruct (@exceeds NumR dpd2 p var W (n0 + sz) (n1 - sz) _ _) eqn:E2.
  - rewrite (exceeds_mono dpd1 dpd2 p var W _ _ _ _ E0 E1 Hv HL E2). reflexivity.
  - destruct (@exceeds NumR dpd1 p var W (n0 + sz) (n1 - sz) _ _); [reflexivity | apply IH; exact H].
Qed.

Lemma found_cut_mono (s : ast) : (0 <= a_var s)%R -> 0 <= a_W s -> (dpd1 (a_W s) <= dpd2 (a_W s))%R ->
  @found_cut NumR dpd2 p s = true -> @found_cut NumR dpd1 p s = true.
Proof.
  intros Hv HW HL. unfold found_cut. apply scan_mono; [apply variance_of_nonneg; assumption | exact HL].
Qed.

(** * lock-step: until the looser run reports drift nothing is ever removed from the window, so the
    common state only needs [0 <= a_W] and [0 <= a_var] (both preserved by adding a sample) *)
Definition nonneg_stats (s : ast) : Prop :=
  0 <= a_W s /\ (0 <= a_var s)%R /\ (a_W s = 0 -> a_rows s = [[]]).

Lemma init_nonneg : nonneg_stats adwin_init.
Proof. split; [discriminate|]. split; [apply Rle_refl | reflexivity]. Qed.

Lemma after_add_nonneg (s : ast) x : nonneg_stats s -> nonneg_stats (after_add p s x).
Proof.
  intros (HW & Hv & _). split; [rewrite after_add_W; lia|].
  split; [|rewrite after_add_W; lia].
  rewrite after_add_var. destruct (1 <? a_W s + 1) eqn:E; [|exact Hv].
  apply Z.ltb_lt in E. replace (a_W s + 1 - 1) with (a_W s) by lia.
  assert (H1 : (0 < IZR (a_W s))%R) by (apply IZR_lt; lia).
  assert (H2 : (0 < IZR (a_W s + 1))%R) by (apply IZR_lt; lia).
  set (d := (x - a_total s / IZR (a_W s))%R).
  assert (H3 : (0 <= IZR (a_W s) * d * d / IZR (a_W s + 1))%R).
  { unfold Rdiv. apply Rmult_le_pos; [|left; apply Rinv_0_lt_compat; exact H2].
    rewrite Rmult_assoc. apply Rmult_le_pos; [lra|]. apply Rle_0_sqr. }
  lra.
Qed.

Lemma after_add_ds (s : ast) x : a_ds (after_add p s x) = DNone.
Proof. unfold after_add. destruct (is_none (a_ds s)); reflexivity. Qed.

Lemma shrink_no_cut dpd fuel (s : ast) : @found_cut NumR dpd p s = false -> @shrink NumR dpd p fuel s = s.
Proof. intros H. destruct fuel; cbn [shrink]; rewrite H; reflexivity. Qed.

(** with a window of one sample no split is ever tested (the only bucket is the newest of row 0) *)
Lemma first_sample_no_cut dpd (s : ast) x : a_rows s = [[]] ->
  @found_cut NumR dpd p (after_add p s x) = false.
Proof.
  intros Hr. unfold found_cut. rewrite after_add_rows, Hr. cbn [compress app].
  destruct (Z.eqb _ _); reflexivity.
Qed.

Hypothesis dpd_le : forall W, 2 <= W -> (dpd1 W <= dpd2 W)%R.

(** one update from a common state: either the looser run reports drift, or both runs move to the
    same state (the sample is added, nothing is removed, no drift) *)
Lemma update_lockstep (s : ast) x : nonneg_stats s ->
  a_ds (@adwin_update NumR dpd1 p s x) = DDrift \/
  (@adwin_update NumR dpd1 p s x = after_add p s x /\
   @adwin_update NumR dpd2 p s x = after_add p s x /\
   a_ds (after_add p s x) = DNone /\ nonneg_stats (after_add p s x)).
Proof.
  intros Hs. pose proof (after_add_nonneg s x Hs) as Hs1.
  destruct (scheduled p (after_add p s x)) eqn:Esch.
  - destruct (@found_cut NumR dpd1 p (after_add p s x)) eqn:Ef1.
    + left. apply (@adwin_drift_if NumR dpd1 p s x Esch Ef1).
      rewrite <- flat_rows_length with (ne := 1) (f := true).
      unfold found_cut in Ef1. destruct (@flat_rows NumR 1 _ true); [discriminate Ef1 | cbn [length]; lia].
    + right. assert (Ef2 : @found_cut NumR dpd2 p (after_add p s x) = false).
      { destruct (@found_cut NumR dpd2 p (after_add p s x)) eqn:Ef2; [|reflexivity].
        destruct Hs as (HW0 & _ & Hr0).
        destruct (Z.eq_dec (a_W s) 0) as [E0 | E0];
          [rewrite (first_sample_no_cut dpd2 s x (Hr0 E0)) in Ef2; discriminate Ef2|].
        destruct Hs1 as (HW & Hv & _). rewrite (found_cut_mono _ Hv HW) in Ef1; [discriminate Ef1| |exact Ef2].
        apply dpd_le. rewrite after_add_W. lia. }
      rewrite !(@adwin_update_eq NumR _ p). cbv zeta. rewrite Esch, !shrink_no_cut by assumption.
      split; [reflexivity|]. split; [reflexivity|]. split; [apply after_add_ds | exact Hs1].
  - right. rewrite !(@adwin_update_eq NumR _ p). cbv zeta. rewrite Esch.
    split; [reflexivity|]. split; [reflexivity|]. split; [apply after_add_ds | exact Hs1].
Qed.

(** * traces and the first reported drift *)
Fixpoint adwin_trace (dpd : Z -> R) (s : ast) (xs : list R) : list ast :=
  match xs with
  | [] => []
  | x :: t => @adwin_update NumR dpd p s x :: adwin_trace dpd (@adwin_update NumR dpd p s x) t
  end.

Definition adwin_obs (s : ast) : obs := mk_obs (a_ds s) (a_n s) (a_since s) (a_recs s).

(** index (0-based position in [xs]) of the first update that reports drift; [None] = never *)
Definition adwin_first_drift (dpd : Z -> R) (s : ast) (xs : list R) : option nat :=
  first_drift (map adwin_obs (adwin_trace dpd s xs)).

Lemma first_drift_cons dpd (s : ast) x xs :
  adwin_first_drift dpd s (x :: xs) =
  if is_drift (a_ds (@adwin_update NumR dpd p s x)) then Some O
  else match adwin_first_drift dpd (@adwin_update NumR dpd p s x) xs with
       | Some k => Some (S k) | None => None end.
Proof. reflexivity. Qed.

Lemma adwin_first_drift_mono_from : forall xs (s : ast), nonneg_stats s ->
  opt_le (adwin_first_drift dpd1 s xs) (adwin_first_drift dpd2 s xs).
Proof.
  induction xs as [|x xs IH]; intros s Hs; [exact I|].
  rewrite !first_drift_cons.
  destruct (update_lockstep s x Hs) as [Hd | (E1 & E2 & Hn & Hs1)].
  - rewrite Hd. cbn [is_drift].
    destruct (is_drift _); [cbn; lia|].
    destruct (adwin_first_drift dpd2 _ xs); cbn; [lia | exact I].
  - rewrite E1, E2, Hn. cbn [is_drift]. specialize (IH _ Hs1).
    destruct (adwin_first_drift dpd1 _ xs), (adwin_first_drift dpd2 _ xs); cbn in *; try lia; exact IH.
Qed.

(** until the looser run's first drift the two runs are in identical states *)
Lemma adwin_same_until_from : forall xs (s : ast), nonneg_stats s ->
  match adwin_first_drift dpd1 s xs with
  | Some k => firstn k (adwin_trace dpd2 s xs) = firstn k (adwin_trace dpd1 s xs)
  | None => adwin_trace dpd2 s xs = adwin_trace dpd1 s xs
  end.
Proof.
  induction xs as [|x xs IH]; intros s Hs; [reflexivity|].
  rewrite first_drift_cons.
  destruct (update_lockstep s x Hs) as [Hd | (E1 & E2 & Hn & Hs1)].
  - rewrite Hd. reflexivity.
  - cbn [adwin_trace]. rewrite E1, E2, Hn. cbn [is_drift]. specialize (IH _ Hs1).
    destruct (adwin_first_drift dpd1 (after_add p s x) xs).
    + cbn [firstn]. rewrite IH. reflexivity.
    + rewrite IH. reflexivity.
Qed.

End TwoOracles.

(** * the theorems from the initial state *)
Lemma adwin_first_drift_mono (dpd1 dpd2 : Z -> R) (p : adwin_params) :
  (forall W, 2 <= W -> (dpd1 W <= dpd2 W)%R) ->
  forall xs : list R,
  opt_le (adwin_first_drift p dpd1 adwin_init xs) (adwin_first_drift p dpd2 adwin_init xs).
Proof. intros H xs. apply adwin_first_drift_mono_from; [exact H | exact init_nonneg]. Qed.

Lemma adwin_same_until (dpd1 dpd2 : Z -> R) (p : adwin_params) :
  (forall W, 2 <= W -> (dpd1 W <= dpd2 W)%R) ->
  forall xs : list R,
  match adwin_first_drift p dpd1 adwin_init xs with
  | Some k => firstn k (adwin_trace p dpd2 adwin_init xs) = firstn k (adwin_trace p dpd1 adwin_init xs)
  | None => adwin_trace p dpd2 adwin_init xs = adwin_trace p dpd1 adwin_init xs
  end.
Proof. intros H xs. apply adwin_same_until_from; [exact H | exact init_nonneg]. Qed.

(** the trace is the list of states of [adwin_run] on the non-empty prefixes *)
Lemma adwin_trace_nth (dpd : Z -> R) (p : adwin_params) : forall xs (s : ast) k, (k < length xs)%nat ->
  nth_error (adwin_trace p dpd s xs) k = Some (@adwin_run NumR dpd p s (firstn (S k) xs)).
Proof.
  induction xs as [|x xs IH]; intros s k Hk; [cbn [length] in Hk; lia|].
  destruct k as [|k]; [reflexivity|].
  cbn [adwin_trace nth_error]. rewrite IH by (cbn [length] in Hk; lia). reflexivity.
Qed.

(** * the log oracle of the code: dpd W = ln (c * ln W / delta), c = 2 resp. 4 *)
Section LogOracle.
Local Open Scope R_scope.

Definition log_oracle (c delta : R) (W : Z) : R := ln (c * ln (IZR W) / delta).

(** antitone in delta on the domain where the code evaluates it (c * ln W / delta1 > 0, i.e. W >= 2) *)
Lemma log_oracle_antitone c d1 d2 W : 0 < c -> 0 < d2 <= d1 -> (2 <= W)%Z ->
  log_oracle c d1 W <= log_oracle c d2 W.
Proof.
  intros Hc [H2 H12] HW. unfold log_oracle.
  assert (HlnW : 0 < ln (IZR W)).
  { rewrite <- ln_1. apply ln_increasing; [lra|]. apply IZR_lt. lia. }
  assert (Ha : 0 < c * ln (IZR W)) by (apply Rmult_lt_0_compat; assumption).
  set (a := c * ln (IZR W)) in *.
  assert (Hi : / d1 <= / d2) by (apply Rinv_le_contravar; lra).
  assert (Hd1 : 0 < / d1) by (apply Rinv_0_lt_compat; lra).
  assert (H : a / d1 <= a / d2) by (unfold Rdiv; apply Rmult_le_compat_l; lra).
  assert (Hp : 0 < a / d1) by (unfold Rdiv; apply Rmult_lt_0_compat; assumption).
  destruct H as [H | H]; [left; apply ln_increasing; assumption | rewrite H; lra].
Qed.

End LogOracle.

(** * smaller delta, same constant c (2 for the default bound, 4 for the conservative one) *)
Lemma adwin_delta_mono (c delta1 delta2 : R) (p : adwin_params) :
  (0 < c)%R -> (0 < delta2 <= delta1)%R ->
  forall xs : list R,
  opt_le (adwin_first_drift p (log_oracle c delta1) adwin_init xs)
         (adwin_first_drift p (log_oracle c delta2) adwin_init xs) /\
  match adwin_first_drift p (log_oracle c delta1) adwin_init xs with
  | Some k => firstn k (adwin_trace p (log_oracle c delta2) adwin_init xs) =
              firstn k (adwin_trace p (log_oracle c delta1) adwin_init xs)
  | None => adwin_trace p (log_oracle c delta2) adwin_init xs =
            adwin_trace p (log_oracle c delta1) adwin_init xs
  end.
Proof.
  intros Hc Hd xs.
  assert (H : forall W, 2 <= W -> (log_oracle c delta1 W <= log_oracle c delta2 W)%R)
    by (intros W HW; apply log_oracle_antitone; assumption).
  split; [apply adwin_first_drift_mono; exact H | apply adwin_same_until; exact H].
Qed.
