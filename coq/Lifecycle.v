(** The generic streaming-detector machine (detector.py: StreamingDetector.update / reset, and the
    `if self.drift_state == "drift": self.reset()` prologue that every concrete update() has).
    A detector is a [kernel]: its per-epoch state, how reset() re-initialises it, its decision
    step, and which retraining_recs bookkeeping it uses.  No proofs here. *)
From MV Require Import Base.

(** retraining_recs bookkeeping variants *)
Inductive recs_policy := PolNoRecs | PolFirstWarn (* DDM, EDDM, LFR *) | PolRun (* STEPD *).

Definition first_or (o : option Z) (i : Z) : option Z := match o with Some a => Some a | None => Some i end.

(** [od]: the state assigned by this update ([None]: the update returned before deciding);
    [i] = total_samples - 1, the index of the current sample *)
Definition apply_policy (pol : recs_policy) (od : option dstate) (i : Z) (r : recsT) : recsT :=
  match pol with
  | PolNoRecs => r
  | PolFirstWarn =>
      match od with
      | Some DWarn => (first_or (fst r) i, snd r)
      | Some DDrift => (first_or (fst r) i, Some i)
      | _ => r
      end
  | PolRun =>
      match od with
      | Some DNone => recs_none
      | Some _ => match fst r with
                  | None => (Some i, Some i)
                  | Some a => (Some a, option_map (fun b => b + 1) (snd r))
                  end
      | None => r
      end
  end.

Record kernel := {
  E : Type;                              (* per-epoch fields of the detector *)
  X : Type;                              (* what one update receives *)
  reset_e : E -> E;                      (* reset(): new epoch fields (may carry something over) *)
  step_e : E -> Z -> X -> E * option dstate;  (* decision step, given samples_since_reset after increment *)
  policy : recs_policy
}.

Record st (K : kernel) := mk_st {
  epoch : E K; total : Z; since : Z; ds : dstate; recs : recsT
}.
Arguments mk_st {K}. Arguments epoch {K}. Arguments total {K}. Arguments since {K}.
Arguments ds {K}. Arguments recs {K}.

Definition init (K : kernel) (e : E K) : st K := mk_st e 0 0 DNone recs_none.

Definition do_reset {K} (s : st K) : st K := mk_st (reset_e K (epoch s)) (total s) 0 DNone recs_none.

Definition update {K} (s : st K) (x : X K) : st K :=
  let s0 := if is_drift (ds s) then do_reset s else s in
  let t := total s0 + 1 in
  let n := since s0 + 1 in
  let '(e', od) := step_e K (epoch s0) n x in
  mk_st e' t n (match od with Some d => d | None => ds s0 end)
        (apply_policy (policy K) od (t - 1) (recs s0)).

Definition run {K} (s : st K) (xs : list (X K)) : st K := fold_left update xs s.

(** the observable trace: what a user can read after every update *)
Record obs := mk_obs { o_ds : dstate; o_total : Z; o_since : Z; o_recs : recsT }.
Definition observe {K} (s : st K) : obs := mk_obs (ds s) (total s) (since s) (recs s).

Fixpoint trace {K} (s : st K) (xs : list (X K)) : list obs :=
  match xs with
  | [] => []
  | x :: t => let s' := update s x in observe s' :: trace s' t
  end.

(** shifting an observation by [k] earlier items: totals and recommended indices move, the rest stays *)
Definition shift_recs (k : Z) (r : recsT) : recsT :=
  (option_map (fun a => a + k) (fst r), option_map (fun a => a + k) (snd r)).
Definition shift_obs (k : Z) (o : obs) : obs :=
  mk_obs (o_ds o) (o_total o + k) (o_since o) (shift_recs k (o_recs o)).

Definition obs_eqb (a b : obs) : bool :=
  dstate_eqb (o_ds a) (o_ds b) && (o_total a =? o_total b) && (o_since a =? o_since b)
  && recs_eqb (o_recs a) (o_recs b).
