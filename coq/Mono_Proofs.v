(** C17 for the detectors on the generic machine: the per-detector obligations of Lifecycle_Mono.v. *)
From MV Require Import Base Num NumLaws Lifecycle Lifecycle_Proofs Lifecycle_Mono Ddm Ddm_Proofs Pairwise ChangeDet ChangeDet_Proofs.

Section Mono.
Context {N : Num}.
Variable ML : MonoLaws N.
Let OL : OrdLaws N := ml_ord N ML.
Local Open Scope num_scope.

(** ------------------------------ DDM: drift_scale ------------------------------ *)
Definition ddm_with_drift (p : @ddm_params N) (k : F N) : ddm_params :=
  {| ddm_n_threshold := ddm_n_threshold p; ddm_warning_scale := ddm_warning_scale p; ddm_drift_scale := k |}.
Definition ddm_with_warn (p : @ddm_params N) (k : F N) : ddm_params :=
  {| ddm_n_threshold := ddm_n_threshold p; ddm_warning_scale := k; ddm_drift_scale := ddm_drift_scale p |}.

Lemma ddm_same_state p q e n x :
  ddm_n_threshold p = ddm_n_threshold q -> fst (ddm_step p e n x) = fst (@ddm_step N q e n x).
Proof. intros H. unfold ddm_step. cbv zeta. rewrite H. destruct (n <? ddm_n_threshold q)%Z; reflexivity. Qed.

(** the threshold test is antitone in the scale *)
Lemma scaled_test_antitone (rmin sd v k1 k2 : F N) : fleb k1 k2 = true -> fleb f0 sd = true ->
  fleb (rmin + k2 * sd) v = true -> fleb (rmin + k1 * sd) v = true.
Proof.
  intros Hk Hs H. apply (fle_trans OL _ (rmin + k2 * sd)); [|exact H].
  apply (add_mono_r N ML). apply (mul_mono_nonneg N ML); assumption.
Qed.

Lemma ddm_sd_nonneg (e : @ddm_e N) n x : fleb f0 (ddm_sd' e n x) = true.
Proof. unfold ddm_sd'. cbv zeta. apply (sqrt_nonneg N ML). Qed.

Lemma ddm_drift_mono p k1 k2 e n x : fleb k1 k2 = true ->
  snd (ddm_step (ddm_with_drift p k2) e n x) = Some DDrift ->
  snd (ddm_step (ddm_with_drift p k1) e n x) = Some DDrift.
Proof.
  intros Hk. destruct (Z.lt_ge_cases n (ddm_n_threshold p)) as [Hn|Hn].
  - intros H. apply ddm_warmup in H. simpl in H. lia.
  - rewrite !(ddm_decision _ e n x) by (simpl; lia). cbv zeta. simpl.
    destruct (fleb (ddm_rmin' e n x + k2 * ddm_sd' e n x) (ddm_rate' e n x + ddm_sd' e n x)) eqn:E2.
    + intros _. rewrite (scaled_test_antitone _ _ _ k1 k2 Hk (ddm_sd_nonneg e n x) E2). reflexivity.
    + destruct (fleb (ddm_rmin' e n x + ddm_warning_scale p * ddm_sd' e n x) _); discriminate.
Qed.

Lemma ddm_drift_same_otherwise p k1 k2 e n x : fleb k1 k2 = true ->
  snd (ddm_step (ddm_with_drift p k1) e n x) <> Some DDrift ->
  snd (ddm_step (ddm_with_drift p k2) e n x) = snd (ddm_step (ddm_with_drift p k1) e n x).
Proof.
  intros Hk Hnd. destruct (Z.lt_ge_cases n (ddm_n_threshold p)) as [Hn|Hn].
  - assert (H1 : forall k, snd (ddm_step (ddm_with_drift p k) e n x) = None).
    { intros k. apply ddm_gate_iff. unfold ddm_gate. simpl. apply Z.leb_gt. exact Hn. }
    rewrite !H1. reflexivity.
  - pose proof (ddm_drift_mono p k1 k2 e n x Hk) as Hm.
    rewrite !(ddm_decision _ e n x) in * by (simpl; lia). cbv zeta in *. simpl in *.
    destruct (fleb (ddm_rmin' e n x + k1 * ddm_sd' e n x) (ddm_rate' e n x + ddm_sd' e n x)) eqn:E1; [congruence|].
    destruct (fleb (ddm_rmin' e n x + k2 * ddm_sd' e n x) (ddm_rate' e n x + ddm_sd' e n x)) eqn:E2; [|reflexivity].
    specialize (Hm eq_refl). destruct (fleb _ _) in Hm; discriminate.
Qed.

(** ------------------------------ Page-Hinkley: threshold (positive thresholds) ------------------------------ *)
Definition ph_with_thr (p : @ph_params N) (t : F N) : ph_params :=
  {| ph_delta := ph_delta p; ph_threshold := t; ph_burn_in := ph_burn_in p; ph_dir := ph_dir p |}.

Lemma ph_same_state_thr p t1 t2 e n x :
  p_max (fst (ph_step (ph_with_thr p t1) e n x)) = p_max (fst (@ph_step N (ph_with_thr p t2) e n x)) /\
  p_min (fst (ph_step (ph_with_thr p t1) e n x)) = p_min (fst (ph_step (ph_with_thr p t2) e n x)) /\
  p_sum (fst (ph_step (ph_with_thr p t1) e n x)) = p_sum (fst (ph_step (ph_with_thr p t2) e n x)) /\
  p_mean (fst (ph_step (ph_with_thr p t1) e n x)) = p_mean (fst (ph_step (ph_with_thr p t2) e n x)).
Proof. repeat split. Qed.

(** the Page-Hinkley difference is never negative *)
Lemma ph_diff_nonneg (p : @ph_params N) e n x : fleb f0 (ph_diff' p e n x) = true.
Proof.
  unfold ph_diff', ph_diff, ph_min', ph_max'.
  set (s := ph_sum' p e n x).
  destruct (ph_dir p).
  - (* sum - min *) apply (sub_nonneg N ML).
    destruct (fltb s (p_min e)) eqn:E; [apply (leb_refl N OL)|].
    destruct (leb_total N OL (p_min e) s) as [H|H]; [exact H|].
    rewrite (ltb_leb N OL) in E. apply negb_false_iff in E. exact E.
  - (* max - sum *) apply (sub_nonneg N ML).
    destruct (fltb (p_max e) s) eqn:E; [apply (leb_refl N OL)|].
    rewrite (ltb_leb N OL) in E. apply negb_false_iff in E. exact E.
  - apply (sub_nonneg N ML).
    destruct (fltb s (p_min e)) eqn:E; [apply (leb_refl N OL)|].
    rewrite (ltb_leb N OL) in E. apply negb_false_iff in E. exact E.
Qed.

(** with 0 < t1 <= t2 the test with t2 implies the test with t1 (whatever the sign of the mean) *)
Lemma ph_test_antitone p t1 t2 e n x : fltb f0 t1 = true -> fleb t1 t2 = true ->
  ph_test (ph_with_thr p t2) e n x = true -> ph_test (ph_with_thr p t1) e n x = true.
Proof.
  intros Hpos Ht. unfold ph_test. simpl.
  change (ph_diff' (ph_with_thr p t2) e n x) with (ph_diff' p e n x).
  change (ph_diff' (ph_with_thr p t1) e n x) with (ph_diff' p e n x).
  set (m := ph_mean' e n x). set (d := ph_diff' p e n x). intros H2.
  destruct (fleb f0 m) eqn:Em.
  - (* mean >= 0: t1*m <= t2*m < d *)
    apply (fle_lt_trans OL _ (t2 * m)); [|exact H2]. apply (mul_mono_nonneg N ML); assumption.
  - (* mean < 0: t1*m < 0 <= d *)
    assert (Hm : fltb m f0 = true) by (apply (flt_spec OL); exact Em).
    apply (flt_le_trans OL _ f0); [apply (mul_pos_neg N ML); assumption|].
    subst d. apply ph_diff_nonneg.
Qed.

Lemma ph_drift_mono p t1 t2 e n x : fltb f0 t1 = true -> fleb t1 t2 = true ->
  snd (ph_step (ph_with_thr p t2) e n x) = Some DDrift ->
  snd (ph_step (ph_with_thr p t1) e n x) = Some DDrift.
Proof.
  intros Hpos Ht. rewrite !ph_alarm_iff. simpl. intros [H1 H2]. split; [|exact H2].
  exact (ph_test_antitone p t1 t2 e n x Hpos Ht H1).
Qed.

(** ------------------------------ assembled: first drift never earlier under the stricter setting ------------------------------ *)
Lemma ph_drift_same_otherwise p t1 t2 e n x : fltb f0 t1 = true -> fleb t1 t2 = true ->
  snd (ph_step (ph_with_thr p t1) e n x) <> Some DDrift ->
  snd (ph_step (ph_with_thr p t2) e n x) = snd (ph_step (ph_with_thr p t1) e n x).
Proof.
  intros Hpos Ht Hnd. pose proof (ph_drift_mono p t1 t2 e n x Hpos Ht) as Hm.
  destruct (ph_step_spec (ph_with_thr p t1) e n x) as (_ & _ & _ & _ & E1).
  destruct (ph_step_spec (ph_with_thr p t2) e n x) as (_ & _ & _ & _ & E2).
  rewrite E1 in *. rewrite E2 in *.
  destruct (ph_test (ph_with_thr p t1) e n x && (ph_burn_in (ph_with_thr p t1) <? n)%Z); [congruence|].
  destruct (ph_test (ph_with_thr p t2) e n x && (ph_burn_in (ph_with_thr p t2) <? n)%Z); [|reflexivity].
  specialize (Hm eq_refl). discriminate.
Qed.

(** ------------------------------ loosening only the warning threshold ------------------------------ *)
Lemma ddm_warn_obligations p k1 k2 e n x : fleb k1 k2 = true ->
  (snd (ddm_step (ddm_with_warn p k1) e n x) = Some DDrift <-> snd (ddm_step (ddm_with_warn p k2) e n x) = Some DDrift) /\
  (snd (ddm_step (ddm_with_warn p k1) e n x) = None <-> snd (ddm_step (ddm_with_warn p k2) e n x) = None) /\
  (snd (ddm_step (ddm_with_warn p k2) e n x) = Some DWarn -> snd (ddm_step (ddm_with_warn p k1) e n x) = Some DWarn).
Proof.
  intros Hk. destruct (Z.lt_ge_cases n (ddm_n_threshold p)) as [Hn|Hn].
  - assert (H1 : forall k, snd (ddm_step (ddm_with_warn p k) e n x) = None).
    { intros k. apply ddm_gate_iff. unfold ddm_gate. simpl. apply Z.leb_gt. exact Hn. }
    rewrite !H1. repeat split; intros; congruence.
  - rewrite !(ddm_decision _ e n x) by (simpl; lia). cbv zeta. simpl.
    destruct (fleb (ddm_rmin' e n x + ddm_drift_scale p * ddm_sd' e n x) (ddm_rate' e n x + ddm_sd' e n x)).
    + repeat split; intros; congruence.
    + destruct (fleb (ddm_rmin' e n x + k2 * ddm_sd' e n x) (ddm_rate' e n x + ddm_sd' e n x)) eqn:E2.
      * rewrite (scaled_test_antitone _ _ _ k1 k2 Hk (ddm_sd_nonneg e n x) E2). repeat split; intros; congruence.
      * destruct (fleb (ddm_rmin' e n x + k1 * ddm_sd' e n x) _); repeat split; intros; congruence.
Qed.

End Mono.

(** ===== detectors whose threshold test needs nothing but transitivity of the comparisons =====
    (EDDM, STEPD, CUSUM).  [TransLaws] hold for the reals AND for all IEEE doubles (FloatLaws.v),
    so these results are unconditional for the bit-exact float model. *)
Section MonoTrans.
Context {N : Num}.
Variable TL : TransLaws N.
Local Open Scope num_scope.

(** ------------------------------ EDDM: drift_thresh ------------------------------ *)
Definition eddm_with_drift (p : @eddm_params N) (t : F N) : eddm_params :=
  {| eddm_n_threshold := eddm_n_threshold p; eddm_warning_thresh := eddm_warning_thresh p; eddm_drift_thresh := t |}.

Lemma eddm_same_state p q e n x :
  eddm_n_threshold p = eddm_n_threshold q -> fst (eddm_step p e n x) = fst (@eddm_step N q e n x).
Proof.
  intros H. unfold eddm_step. destruct x; [reflexivity|]. cbv zeta. rewrite H.
  destruct (e_n_errors e + 1 <? eddm_n_threshold q)%Z; reflexivity.
Qed.

(** stricter = smaller drift_thresh: t2 <= t1 *)
Lemma eddm_drift_mono p t1 t2 e n x : fleb t2 t1 = true ->
  snd (eddm_step (eddm_with_drift p t2) e n x) = Some DDrift ->
  snd (eddm_step (eddm_with_drift p t1) e n x) = Some DDrift.
Proof.
  intros Ht. unfold eddm_step. destruct x; [discriminate|]. cbv zeta. simpl.
  destruct (e_n_errors e + 1 <? eddm_n_threshold p)%Z; [discriminate|]. simpl.
  match goal with |- context [fleb ?s t2] => set (stat := s) end.
  destruct (fleb stat t2) eqn:E2.
  - intros _. rewrite (tl_le_trans N TL stat t2 t1 E2 Ht). reflexivity.
  - destruct (fleb stat (eddm_warning_thresh p)); discriminate.
Qed.

Lemma eddm_drift_same_otherwise p t1 t2 e n x : fleb t2 t1 = true ->
  snd (eddm_step (eddm_with_drift p t1) e n x) <> Some DDrift ->
  snd (eddm_step (eddm_with_drift p t2) e n x) = snd (eddm_step (eddm_with_drift p t1) e n x).
Proof.
  intros Ht. pose proof (eddm_drift_mono p t1 t2 e n x Ht) as Hm. revert Hm.
  unfold eddm_step. destruct x; [reflexivity|]. cbv zeta. simpl.
  destruct (e_n_errors e + 1 <? eddm_n_threshold p)%Z; [reflexivity|]. simpl.
  match goal with |- context [fleb ?s t2] => set (stat := s) end.
  destruct (fleb stat t1) eqn:E1; [congruence|].
  destruct (fleb stat t2) eqn:E2; [|reflexivity].
  intros Hm _. specialize (Hm eq_refl). destruct (fleb stat (eddm_warning_thresh p)); discriminate.
Qed.

(** ------------------------------ STEPD: alpha_drift ------------------------------ *)
Definition stepd_with_drift (p : @stepd_params N) (a : F N) : stepd_params :=
  {| stepd_window := stepd_window p; stepd_alpha_warning := stepd_alpha_warning p; stepd_alpha_drift := a |}.

Lemma stepd_same_state p q e n x :
  stepd_window p = stepd_window q -> fst (stepd_step p e n x) = fst (@stepd_step N q e n x).
Proof.
  intros H. unfold stepd_step. cbv zeta. rewrite H.
  destruct (stepd_window q <? _)%Z; destruct (2 * stepd_window q <=? n)%Z; reflexivity.
Qed.

(** stricter = smaller alpha_drift: a2 <= a1 *)
Lemma stepd_drift_mono p a1 a2 e n x : fleb a2 a1 = true ->
  snd (stepd_step (stepd_with_drift p a2) e n x) = Some DDrift ->
  snd (stepd_step (stepd_with_drift p a1) e n x) = Some DDrift.
Proof.
  intros Ha H. pose proof (stepd_warmup _ e n x _ H) as Hw. simpl in Hw.
  destruct (stepd_decision (stepd_with_drift p a2) e n x Hw) as [D2 _].
  destruct (stepd_decision (stepd_with_drift p a1) e n x Hw) as [D1 _].
  cbv zeta in D1, D2. simpl in D1, D2. rewrite D1. rewrite D2 in H.
  rewrite (stepd_same_state (stepd_with_drift p a1) (stepd_with_drift p a2)) by reflexivity.
  destruct (fltb (stepd_recent _) (stepd_past _ n)); simpl in *.
  - destruct (fltb (snd x) a2) eqn:E2.
    + rewrite (tl_lt_le_trans N TL _ _ _ E2 Ha). reflexivity.
    + destruct (fltb (snd x) (stepd_alpha_warning p)); discriminate.
  - discriminate.
Qed.

Lemma stepd_drift_same_otherwise p a1 a2 e n x : fleb a2 a1 = true ->
  snd (stepd_step (stepd_with_drift p a1) e n x) <> Some DDrift ->
  snd (stepd_step (stepd_with_drift p a2) e n x) = snd (stepd_step (stepd_with_drift p a1) e n x).
Proof.
  intros Ha Hnd. destruct (Z.lt_ge_cases n (2 * stepd_window p)) as [Hn|Hn].
  - assert (H1 : forall a, snd (stepd_step (stepd_with_drift p a) e n x) = None).
    { intros a. apply stepd_gate_iff. unfold stepd_gate. simpl. apply Z.leb_gt. exact Hn. }
    rewrite !H1. reflexivity.
  - pose proof (stepd_drift_mono p a1 a2 e n x Ha) as Hm.
    assert (Hw : (2 * stepd_window (stepd_with_drift p a1) <= n)%Z) by exact Hn.
    destruct (stepd_decision (stepd_with_drift p a2) e n x Hw) as [D2 _].
    destruct (stepd_decision (stepd_with_drift p a1) e n x Hw) as [D1 _].
    cbv zeta in D1, D2. simpl in D1, D2. rewrite D1 in *. rewrite D2 in *.
    rewrite (stepd_same_state (stepd_with_drift p a1) (stepd_with_drift p a2)) in * by reflexivity.
    destruct (fltb (stepd_recent _) (stepd_past _ n)); simpl in *; [|reflexivity].
    destruct (fltb (snd x) a1) eqn:E1; [congruence|].
    destruct (fltb (snd x) a2) eqn:E2; [|reflexivity].
    specialize (Hm eq_refl). destruct (fltb (snd x) (stepd_alpha_warning p)); discriminate.
Qed.

(** ------------------------------ CUSUM: threshold ------------------------------ *)
Definition cusum_with_thr (p : @cusum_params N) (t : F N) : cusum_params :=
  {| c_burn_in := c_burn_in p; c_delta := c_delta p; c_threshold := t; c_dir := c_dir p |}.

Lemma cusum_same_state p t1 t2 e n x :
  fst (cusum_step (cusum_with_thr p t1) e n x) = fst (@cusum_step N (cusum_with_thr p t2) e n x).
Proof. unfold cusum_step. cbv zeta. simpl.
  destruct (c_target e); [|destruct (n =? c_burn_in p)%Z];
  repeat match goal with |- context [match ?o with Some _ => _ | None => _ end] => destruct o end; reflexivity.
Qed.

Lemma cusum_alarm_antitone p t1 t2 up lo : fleb t1 t2 = true ->
  cusum_alarm (cusum_with_thr p t2) up lo = true -> cusum_alarm (cusum_with_thr p t1) up lo = true.
Proof.
  intros Ht. unfold cusum_alarm. simpl.
  assert (A : forall v, fltb t2 v = true -> fltb t1 v = true) by (intros v Hv; exact (tl_le_lt_trans N TL _ _ _ Ht Hv)).
  destruct (c_dir p); try apply A.
  intros H. apply orb_true_iff in H. apply orb_true_iff. destruct H as [H|H]; [left | right]; apply A; exact H.
Qed.

(** the decision as a function of the threshold, for any state *)
Lemma cusum_decision_form p e n x : exists up lo,
  forall t', snd (cusum_step (cusum_with_thr p t') e n x) =
     if (c_burn_in p <? n)%Z && cusum_alarm (cusum_with_thr p t') up lo then Some DDrift else None.
Proof.
  unfold cusum_step. cbv zeta. simpl.
  destruct (c_target e) as [tg|]; [|destruct (n =? c_burn_in p)%Z];
  repeat match goal with |- context [match ?o with Some _ => _ | None => _ end] => destruct o end;
  eexists; eexists; intros t'; unfold cusum_alarm; simpl; reflexivity.
Qed.

Lemma cusum_drift_mono p t1 t2 e n x : fleb t1 t2 = true ->
  snd (cusum_step (cusum_with_thr p t2) e n x) = Some DDrift ->
  snd (cusum_step (cusum_with_thr p t1) e n x) = Some DDrift.
Proof.
  intros Ht. destruct (cusum_decision_form p e n x) as (up & lo & Hf). rewrite !Hf.
  destruct (c_burn_in p <? n)%Z; simpl; [|discriminate].
  destruct (cusum_alarm (cusum_with_thr p t2) up lo) eqn:E2; [|discriminate].
  intros _. rewrite (cusum_alarm_antitone p t1 t2 up lo Ht E2). reflexivity.
Qed.

Lemma cusum_drift_same_otherwise p t1 t2 e n x : fleb t1 t2 = true ->
  snd (cusum_step (cusum_with_thr p t1) e n x) <> Some DDrift ->
  snd (cusum_step (cusum_with_thr p t2) e n x) = snd (cusum_step (cusum_with_thr p t1) e n x).
Proof.
  intros Ht. destruct (cusum_decision_form p e n x) as (up & lo & Hf). rewrite !Hf.
  destruct (c_burn_in p <? n)%Z; simpl; [|reflexivity].
  destruct (cusum_alarm (cusum_with_thr p t1) up lo) eqn:E1; [congruence|].
  destruct (cusum_alarm (cusum_with_thr p t2) up lo) eqn:E2; [|reflexivity].
  rewrite (cusum_alarm_antitone p t1 t2 up lo Ht E2) in E1. discriminate.
Qed.

Definition eddm_with_warn (p : @eddm_params N) (t : F N) : eddm_params :=
  {| eddm_n_threshold := eddm_n_threshold p; eddm_warning_thresh := t; eddm_drift_thresh := eddm_drift_thresh p |}.

(** looser = larger warning_thresh: w2 <= w1 *)
Lemma eddm_warn_obligations p w1 w2 e n x : fleb w2 w1 = true ->
  (snd (eddm_step (eddm_with_warn p w1) e n x) = Some DDrift <-> snd (eddm_step (eddm_with_warn p w2) e n x) = Some DDrift) /\
  (snd (eddm_step (eddm_with_warn p w1) e n x) = None <-> snd (eddm_step (eddm_with_warn p w2) e n x) = None) /\
  (snd (eddm_step (eddm_with_warn p w2) e n x) = Some DWarn -> snd (eddm_step (eddm_with_warn p w1) e n x) = Some DWarn).
Proof.
  intros Hw. unfold eddm_step. destruct x; [repeat split; intros; congruence|]. cbv zeta. simpl.
  destruct (e_n_errors e + 1 <? eddm_n_threshold p)%Z; [repeat split; intros; congruence|]. simpl.
  match goal with |- context [fleb ?s (eddm_drift_thresh p)] => set (stat := s) end.
  destruct (fleb stat (eddm_drift_thresh p)); [repeat split; intros; congruence|].
  destruct (fleb stat w2) eqn:E2.
  - rewrite (tl_le_trans N TL stat w2 w1 E2 Hw). repeat split; intros; congruence.
  - destruct (fleb stat w1); repeat split; intros; congruence.
Qed.

Definition stepd_with_warn (p : @stepd_params N) (a : F N) : stepd_params :=
  {| stepd_window := stepd_window p; stepd_alpha_warning := a; stepd_alpha_drift := stepd_alpha_drift p |}.

(** looser = larger alpha_warning: a2 <= a1 *)
Lemma stepd_warn_obligations p a1 a2 e n x : fleb a2 a1 = true ->
  (snd (stepd_step (stepd_with_warn p a1) e n x) = Some DDrift <-> snd (stepd_step (stepd_with_warn p a2) e n x) = Some DDrift) /\
  (snd (stepd_step (stepd_with_warn p a1) e n x) = None <-> snd (stepd_step (stepd_with_warn p a2) e n x) = None) /\
  (snd (stepd_step (stepd_with_warn p a2) e n x) = Some DWarn -> snd (stepd_step (stepd_with_warn p a1) e n x) = Some DWarn).
Proof.
  intros Ha. destruct (Z.lt_ge_cases n (2 * stepd_window p)) as [Hn|Hn].
  - assert (H1 : forall a, snd (stepd_step (stepd_with_warn p a) e n x) = None).
    { intros a. apply stepd_gate_iff. unfold stepd_gate. simpl. apply Z.leb_gt. exact Hn. }
    rewrite !H1. repeat split; intros; congruence.
  - assert (Hw : (2 * stepd_window (stepd_with_warn p a1) <= n)%Z) by exact Hn.
    destruct (stepd_decision (stepd_with_warn p a2) e n x Hw) as [D2 _].
    destruct (stepd_decision (stepd_with_warn p a1) e n x Hw) as [D1 _].
    cbv zeta in D1, D2. simpl in D1, D2. rewrite D1, D2.
    rewrite (stepd_same_state (stepd_with_warn p a1) (stepd_with_warn p a2)) by reflexivity.
    destruct (fltb (stepd_recent _) (stepd_past _ n)); simpl; [|repeat split; intros; congruence].
    destruct (fltb (snd x) (stepd_alpha_drift p)); [repeat split; intros; congruence|].
    destruct (fltb (snd x) a2) eqn:E2.
    + rewrite (tl_lt_le_trans N TL _ _ _ E2 Ha). repeat split; intros; congruence.
    + destruct (fltb (snd x) a1); repeat split; intros; congruence.
Qed.

End MonoTrans.
