(** C17 on the BIT-EXACT float model for the three settings whose proofs in Prop_C17.v assume [MonoLaws]:
    DDM drift_scale, DDM warning_scale, Page-Hinkley threshold.  Statements only (proofs: Mono_Float.v;
    arithmetic: FloatMono.v, proved from Flocq's correctly-rounded [binary_float] operations).

    No law of the arithmetic is assumed.  Instead each theorem has a computable boolean RUN CONDITION
    ([ddm_run_ok], [ddm_warn_run_ok], [ph_run_ok]; the harness evaluates them with vm_compute on the inputs
    it generates) obtained by running the LOOSER setting over the inputs and checking, at every update at
    which a decision is taken,
      DDM : the tracked minimum error rate [ddm_rmin'] and the new standard deviation [ddm_sd'] are finite;
      PH  : the new running mean m is finite and [0 <= m  or  t1*m < 0] (i.e. not "m < 0 and t1*m
            underflowed to a zero": the corner of Prop_C17_ph_refuted.v), the new PH sum and the tracked
            minimum (maximum for direction "negative") are finite.
    For the drift thresholds the condition is required only BEFORE the looser run's first reported drift.
    Only the looser (smaller) scale / threshold has to be finite; the stricter one may be +infinity.

    Axioms (see Print Assumptions below): the specification axioms of Coq's primitive floats
    (Coq.Floats.FloatAxioms, the same trusted base as FloatLaws.v) and the classical axioms of the
    standard library's real numbers used by Flocq (sig_forall_dec, sig_not_dec, classic,
    functional_extensionality_dep). *)
From MV Require Import Base Num NumFloat FloatMono Lifecycle Lifecycle_Mono Ddm ChangeDet Mono_Proofs Corr Mono_Float.
From Coq Require Import PrimFloat.

Notation FD K e xs := (first_drift (trace (init K e) xs)).

(** ---------------- the arithmetic facts (FloatMono.v), for all doubles ---------------- *)
Theorem C17f_float_mono_laws :
  (forall a b s : float, PrimFloat.is_finite a = true -> PrimFloat.is_finite b = true -> PrimFloat.is_finite s = true ->
     PrimFloat.leb a b = true -> PrimFloat.leb 0 s = true ->
     PrimFloat.leb (PrimFloat.mul a s) (PrimFloat.mul b s) = true) /\
  (forall a b s : float, PrimFloat.is_finite a = true -> PrimFloat.is_finite s = true ->
     PrimFloat.leb a b = true -> PrimFloat.leb 0 s = true -> PrimFloat.is_nan (PrimFloat.mul b s) = false ->
     PrimFloat.leb (PrimFloat.mul a s) (PrimFloat.mul b s) = true) /\
  (forall a b c : float, PrimFloat.is_finite c = true -> PrimFloat.leb a b = true ->
     PrimFloat.leb (PrimFloat.add c a) (PrimFloat.add c b) = true) /\
  (forall x : float, PrimFloat.is_nan (PrimFloat.sqrt x) = false -> PrimFloat.leb 0 (PrimFloat.sqrt x) = true) /\
  (forall a b : float, PrimFloat.is_finite a = true -> PrimFloat.is_finite b = true -> PrimFloat.leb a b = true ->
     PrimFloat.leb 0 (PrimFloat.sub b a) = true) /\
  (forall a : float, PrimFloat.is_nan a = false -> PrimFloat.leb a a = true) /\
  (forall a b : float, PrimFloat.is_nan a = false -> PrimFloat.is_nan b = false ->
     PrimFloat.leb a b = true \/ PrimFloat.leb b a = true) /\
  (forall a b : float, PrimFloat.is_nan a = false -> PrimFloat.is_nan b = false ->
     PrimFloat.ltb a b = negb (PrimFloat.leb b a)).
Proof.
  exact (conj mul_mono_fin (conj mul_mono_fin_r (conj add_mono_fin (conj sqrt_nonneg (conj sub_nonneg_fin
        (conj leb_refl_nn (conj leb_total_nn ltb_negb_leb_nn))))))).
Qed.

(** ---------------- DDM: larger drift_scale = stricter ---------------- *)
Theorem C17f_ddm_drift_scale : forall (p : @ddm_params NumFloat) (k1 k2 : float) (xs : list bool),
  PrimFloat.is_finite k1 = true -> PrimFloat.leb k1 k2 = true -> ddm_run_ok_p p k1 xs = true ->
  opt_le (FD (DDM (ddm_with_drift p k1)) ddm_e0 xs) (FD (DDM (ddm_with_drift p k2)) ddm_e0 xs).
Proof. exact ddm_drift_scale_float. Qed.

(** on every prefix of the inputs on which the looser run reports no drift, everything observable
    (drift state, counters, retraining recommendations) is identical in the two runs *)
Theorem C17f_ddm_drift_scale_same : forall (p : @ddm_params NumFloat) (k1 k2 : float) (xs : list bool),
  PrimFloat.is_finite k1 = true -> PrimFloat.leb k1 k2 = true -> ddm_run_ok_p p k1 xs = true ->
  forall k, FD (DDM (ddm_with_drift p k1)) ddm_e0 (firstn k xs) = None ->
  trace (init (DDM (ddm_with_drift p k2)) ddm_e0) (firstn k xs) =
  trace (init (DDM (ddm_with_drift p k1)) ddm_e0) (firstn k xs).
Proof. exact ddm_drift_scale_float_same. Qed.

(** the form the harness uses: parameters as in Corr.v, run condition under its stable name *)
Theorem C17f_ddm_drift_scale_checked : forall (nthr : Z) (ws k1 k2 : float) (errs : list bool),
  PrimFloat.is_finite k1 = true -> PrimFloat.leb k1 k2 = true -> ddm_run_ok nthr ws k1 errs = true ->
  opt_le (FD (DDM (ddm_p nthr ws k1)) ddm_e0 errs) (FD (DDM (ddm_p nthr ws k2)) ddm_e0 errs).
Proof. intros nthr ws k1 k2 errs. exact (ddm_drift_scale_float (ddm_p nthr ws k1) k1 k2 errs). Qed.

(** ---------------- DDM: smaller warning_scale = looser warning ---------------- *)
(** over the WHOLE run, through every reset: drift at exactly the same updates, every warning of the
    stricter setting is a warning of the looser one, counters identical *)
Theorem C17f_ddm_warning_scale : forall (p : @ddm_params NumFloat) (k1 k2 : float) (xs : list bool),
  PrimFloat.is_finite k1 = true -> PrimFloat.leb k1 k2 = true -> ddm_warn_run_ok_p p k1 xs = true ->
  warn_conclusion_f (trace (init (DDM (ddm_with_warn p k1)) ddm_e0) xs)
                    (trace (init (DDM (ddm_with_warn p k2)) ddm_e0) xs).
Proof. exact ddm_warning_scale_float. Qed.

Theorem C17f_ddm_warning_scale_checked : forall (nthr : Z) (k1 k2 dsc : float) (errs : list bool),
  PrimFloat.is_finite k1 = true -> PrimFloat.leb k1 k2 = true -> ddm_warn_run_ok nthr k1 dsc errs = true ->
  warn_conclusion_f (trace (init (DDM (ddm_p nthr k1 dsc)) ddm_e0) errs)
                    (trace (init (DDM (ddm_p nthr k2 dsc)) ddm_e0) errs).
Proof. intros nthr k1 k2 dsc errs. exact (ddm_warning_scale_float (ddm_p nthr k1 dsc) k1 k2 errs). Qed.

(** ---------------- Page-Hinkley: larger (positive) threshold = stricter ---------------- *)
Theorem C17f_page_hinkley_threshold : forall (p : @ph_params NumFloat) (t1 t2 : float) (xs : list float),
  PrimFloat.is_finite t1 = true -> PrimFloat.ltb 0 t1 = true -> PrimFloat.leb t1 t2 = true ->
  ph_run_ok_p p t1 xs = true ->
  opt_le (FD (PH (ph_with_thr p t1)) ph_e0 xs) (FD (PH (ph_with_thr p t2)) ph_e0 xs).
Proof. exact ph_threshold_float. Qed.

Theorem C17f_page_hinkley_threshold_same : forall (p : @ph_params NumFloat) (t1 t2 : float) (xs : list float),
  PrimFloat.is_finite t1 = true -> PrimFloat.ltb 0 t1 = true -> PrimFloat.leb t1 t2 = true ->
  ph_run_ok_p p t1 xs = true ->
  forall k, FD (PH (ph_with_thr p t1)) ph_e0 (firstn k xs) = None ->
  trace (init (PH (ph_with_thr p t2)) ph_e0) (firstn k xs) =
  trace (init (PH (ph_with_thr p t1)) ph_e0) (firstn k xs).
Proof. exact ph_threshold_float_same. Qed.

Theorem C17f_page_hinkley_threshold_checked :
  forall (delta t1 t2 : float) (burn : Z) (neg : bool) (xs : list float),
  PrimFloat.is_finite t1 = true -> PrimFloat.ltb 0 t1 = true -> PrimFloat.leb t1 t2 = true ->
  ph_run_ok delta t1 burn neg xs = true ->
  opt_le (FD (PH (ph_p delta t1 burn neg)) ph_e0 xs) (FD (PH (ph_p delta t2 burn neg)) ph_e0 xs).
Proof. intros delta t1 t2 burn neg xs. exact (ph_threshold_float (ph_p delta t1 burn neg) t1 t2 xs). Qed.

(** ---------------- the run conditions are satisfiable on runs that do drift ---------------- *)
Definition ex_errs : list bool :=
  [true;false;false;false;true;false;false;false;false;false;true;false;false;false;false;false;
   true;true;true;true;true;true;true;true;true;true;true;true;true].

(** drift_scale 1.5 drifts at update 18, drift_scale 3 at update 24, and the run condition holds *)
Example C17f_ddm_drift_scale_example :
  PrimFloat.is_finite 1.5 = true /\ PrimFloat.leb 1.5 3 = true /\ ddm_run_ok 5 1 1.5 ex_errs = true /\
  FD (DDM (ddm_p 5 1 1.5)) ddm_e0 ex_errs = Some 18%nat /\
  FD (DDM (ddm_p 5 1 3)) ddm_e0 ex_errs = Some 24%nat.
Proof. vm_compute. repeat split. Qed.

(** warning_scale 1 against 1.5 (drift_scale 2), two epochs: the run drifts twice (updates 20 and 25) and
    the condition holds at every update of the whole run; the looser setting warns earlier *)
Example C17f_ddm_warning_scale_example :
  PrimFloat.is_finite 1 = true /\ PrimFloat.leb 1 1.5 = true /\ ddm_warn_run_ok 5 1 2 ex_errs = true /\
  map o_ds (trace (init (DDM (ddm_p 5 1 2)) ddm_e0) ex_errs) =
    repeat DNone 4 ++ repeat DWarn 16 ++ [DDrift; DNone; DNone; DNone; DNone; DDrift; DNone; DNone; DNone] /\
  map o_ds (trace (init (DDM (ddm_p 5 1.5 2)) ddm_e0) ex_errs) =
    repeat DNone 18 ++ [DWarn; DWarn] ++ [DDrift; DNone; DNone; DNone; DNone; DDrift; DNone; DNone; DNone].
Proof. vm_compute. repeat split. Qed.

Definition ex_xs : list float := [1; 1.5; 0.5; 1; 1.25; 0.75; 1; 5; 6; 7; 8; 9; 10]%float.

(** Page-Hinkley, delta 1/128, burn_in 3: threshold 2 alarms at update 7, threshold 4 at update 9,
    threshold 8 never; negative direction on the mirrored data with a negative running mean *)
Example C17f_page_hinkley_example :
  PrimFloat.is_finite 2 = true /\ PrimFloat.ltb 0 2 = true /\ PrimFloat.leb 2 4 = true /\
  ph_run_ok 0x1p-7 2 3 false ex_xs = true /\
  FD (PH (ph_p 0x1p-7 2 3 false)) ph_e0 ex_xs = Some 7%nat /\
  FD (PH (ph_p 0x1p-7 4 3 false)) ph_e0 ex_xs = Some 9%nat /\
  FD (PH (ph_p 0x1p-7 8 3 false)) ph_e0 ex_xs = None /\
  ph_run_ok 0x1p-7 2 3 true (map PrimFloat.opp ex_xs) = true /\
  FD (PH (ph_p 0x1p-7 2 3 true)) ph_e0 (map PrimFloat.opp ex_xs) = Some 3%nat.
Proof. vm_compute. repeat split. Qed.

(** the run condition rejects the underflow witness of Prop_C17_ph_refuted.v (for which the
    conclusion is false) *)
Example C17f_page_hinkley_underflow_rejected :
  let m := (-0x1p-33)%float in ph_run_ok 0 0x1p-1063 2 false [m; m; m; m; m] = false.
Proof. vm_compute. reflexivity. Qed.

Print Assumptions C17f_float_mono_laws.
Print Assumptions C17f_ddm_drift_scale.
Print Assumptions C17f_ddm_drift_scale_same.
Print Assumptions C17f_ddm_drift_scale_checked.
Print Assumptions C17f_ddm_warning_scale.
Print Assumptions C17f_ddm_warning_scale_checked.
Print Assumptions C17f_page_hinkley_threshold.
Print Assumptions C17f_page_hinkley_threshold_same.
Print Assumptions C17f_page_hinkley_threshold_checked.
Print Assumptions C17f_ddm_drift_scale_example.
Print Assumptions C17f_ddm_warning_scale_example.
Print Assumptions C17f_page_hinkley_example.
Print Assumptions C17f_page_hinkley_underflow_rejected.
