(** The IEEE-754 binary64 instance: Coq's primitive floats. *)
From MV Require Import Base Num.
From Coq Require Import PrimFloat Uint63 FloatOps.

Definition float_ofZ (z : Z) : float :=
  if (z <? 0)%Z then PrimFloat.opp (PrimFloat.of_uint63 (Uint63.of_Z (- z)))
  else PrimFloat.of_uint63 (Uint63.of_Z z).

Definition NumFloat : Num := {|
  F := float;
  f0 := PrimFloat.zero; f1 := PrimFloat.one;
  fadd := PrimFloat.add; fsub := PrimFloat.sub; fmul := PrimFloat.mul; fdiv := PrimFloat.div;
  fsqrt := PrimFloat.sqrt; fabs := PrimFloat.abs; fneg := PrimFloat.opp;
  fleb := PrimFloat.leb; fltb := PrimFloat.ltb; feqb := PrimFloat.eqb;
  fofZ := float_ofZ;
  finf := PrimFloat.infinity
|}.

(** bit-level equality used when comparing the model with the implementation:
    NaN equals NaN, +0 differs from -0 *)
Definition fbits_eqb (a b : float) : bool :=
  (PrimFloat.is_nan a && PrimFloat.is_nan b)
  || (PrimFloat.eqb a b && Bool.eqb (PrimFloat.get_sign a) (PrimFloat.get_sign b)).

Definition optf_eqb := opt_eqb fbits_eqb.
