(** C19 — MD3 follows its warn / ask-the-oracle / confirm protocol.
    Statements only (proofs: Md3_Proofs.v).  Every theorem except the last holds for every arithmetic
    instance [N] with no hypothesis on its operations (structural), hence for the bit-exact float
    model that the correspondence check runs against md3.py.  The k-fold reference statistics, the
    margin signal of a sample and the correctness of a labelled row are inputs of the model
    (universally quantified here).  The exact comparisons of the code:
      warning  iff  sensitivity * md_std  <  |md - md_ref|            (`warning_level > warning_threshold`)
      drift    iff  sensitivity * acc_std <  acc_ref - correct/required (`drift_level > drift_threshold`) *)
From MV Require Import Base Num NumFloat Md3 Md3_Proofs.
From Coq Require Import Reals PrimFloat.
Local Open Scope Z_scope.
Local Open Scope num_scope.

Section C19.
Context {N : Num}.
Notation state := (@state N).
Notation params := (@params N).
Notation op := (@op N).
Notation stats := (@stats N).

(** Refused calls change nothing: a refused call leaves the state as it was, and so does any history
    consisting of refused calls only. *)
Theorem C19_refused_calls_change_nothing : forall (p : params) (s : state),
  (forall o r, md3_step p s o = Refused r -> md3_next p s o = s) /\
  (forall ops, Forall (fun o => is_refused (md3_step p s o) = true) ops -> md3_run p s ops = s).
Proof. intros p s. split; [exact (refused_next p s) | exact (refused_history p s)]. Qed.

(** update: refused iff waiting (first test), else iff the input is not exactly one row (second
    test); never fails otherwise. *)
Theorem C19_update_refusal_rule : forall (p : params) (s : state) n sig,
  (m_wait s = true -> md3_step p s (OUpdate n sig) = Refused RWaiting) /\
  (m_wait s = false -> n <> 1%Z -> md3_step p s (OUpdate n sig) = Refused RRows) /\
  (m_wait s = false -> n = 1%Z -> exists s', md3_step p s (OUpdate n sig) = Ok s') /\
  (is_refused (md3_step p s (OUpdate 1 sig)) = true <-> m_wait s = true).
Proof.
  intros p s n sig. split; [exact (update_waiting p s n sig)|].
  split; [exact (update_rows p s n sig)|]. split.
  - intros W ->. exists (upd_state p s sig). exact (update_ok p s sig W).
  - simpl. destruct (m_wait s) eqn:W.
    + rewrite update_waiting by assumption. simpl. tauto.
    + rewrite update_ok by assumption. simpl. split; discriminate.
Qed.

(** give_oracle_label: the three refusal tests in the order of the code; a one-row label is refused
    iff no warning is pending or its columns are not the reference's (same number, same set). *)
Theorem C19_label_refusal_rule : forall (p : params) (s : state) n cols c st,
  (m_wait s = false -> md3_step p s (OLabel n cols c st) = Refused RNotWaiting) /\
  (m_wait s = true -> n <> 1%Z -> md3_step p s (OLabel n cols c st) = Refused RRows) /\
  (m_wait s = true -> n = 1%Z -> cols_match cols (m_feat s ++ m_targ s) = false ->
     md3_step p s (OLabel n cols c st) = Refused RCols) /\
  (is_refused (md3_step p s (OLabel 1 cols c st)) = true <->
     m_wait s = false \/ cols_match cols (m_feat s ++ m_targ s) = false).
Proof.
  intros p s n cols c st. split; [exact (label_not_waiting p s n cols c st)|].
  split; [exact (label_rows p s n cols c st)|]. split.
  - intros W -> C. exact (label_cols p s cols c st W C).
  - pose proof (label_accepted_iff p s 1 cols c st) as H. unfold label_accepted in H.
    destruct (is_refused (md3_step p s (OLabel 1 cols c st))); simpl in H.
    + split; [intros _|reflexivity].
      destruct (m_wait s); [|left; reflexivity].
      destruct (cols_match cols (m_feat s ++ m_targ s)); [|right; reflexivity].
      exfalso. assert (false = true) by (apply H; repeat split; reflexivity). discriminate.
    + split; [discriminate|]. destruct H as [H _]. destruct (H eq_refl) as (W & _ & C).
      intros [E|E]; congruence.
Qed.

(** An accepted update: the reset prologue after a drift (the density restarts from the reference
    margin density and updates_since_reset from 0), the recurrence md' = ff*md + (1-ff)*signal, the
    warning test, the counters; nothing else changes. *)
Theorem C19_update_effect : forall (p : params) (s s' : state) sig,
  m_wait s = false -> md3_step p s (OUpdate 1 sig) = Ok s' ->
  let after_drift := is_drift (m_ds s) in
  let md0 := if after_drift then r_md (m_ref s) else m_md s in
  let md' := m_ff s * md0 + (f1 - m_ff s) * sig in
  let warn := (p_sens p * r_md_std (m_ref s)) <? fabs (md' - r_md (m_ref s)) in
  m_md s' = md' /\ m_wait s' = warn /\
  m_ds s' = (if warn then DWarn else if after_drift then DNone else m_ds s) /\
  m_total s' = (m_total s + 1)%Z /\ m_since s' = ((if after_drift then 0 else m_since s) + 1)%Z /\
  m_rows s' = m_rows s /\ m_req s' = m_req s /\ m_len s' = m_len s /\ m_ref s' = m_ref s /\
  m_ff s' = m_ff s /\ m_feat s' = m_feat s /\ m_targ s' = m_targ s.
Proof.
  intros p s s' sig W H. simpl in H. rewrite (update_ok p s sig W) in H. inversion H; subst s'.
  unfold upd_state, upd_warn, upd_md. simpl. repeat split; reflexivity.
Qed.

(** An accepted label that does not complete the collection is stored, clears the displayed
    warning, and changes nothing else (the detector keeps waiting). *)
Theorem C19_label_collects : forall (p : params) (s : state) cols c st,
  m_wait s = true -> cols_match cols (m_feat s ++ m_targ s) = true ->
  (zlen (m_rows s) + 1)%Z <> m_req s ->
  md3_step p s (OLabel 1 cols c st) =
    Ok (mk_state true (m_rows s ++ [mk_lrow cols c]) (m_req s) (m_len s) (m_ref s) (m_ff s) (m_md s)
                 (m_feat s) (m_targ s) DNone (m_total s) (m_since s)).
Proof.
  intros p s cols c st W C H. simpl. rewrite (label_accepted_cases p s cols c st W C).
  destruct (zlen (m_rows s) + 1 =? m_req s)%Z eqn:E; [apply Z.eqb_eq in E; contradiction|].
  unfold collect_state, lab_rows. rewrite W. reflexivity.
Qed.

(** The label that completes the collection (oracle_data_length_required rows, at least k of them):
    drift iff the accuracy on the collected rows is more than sensitivity standard deviations below
    the reference accuracy; the rows become the reference (statistics [st], len = required, forgetting
    factor (required-1)/required, density = new reference density); waiting stops; oracle_data is
    emptied; counters are untouched. *)
Theorem C19_label_resolves : forall (p : params) (s : state) cols c (st : stats),
  m_wait s = true -> cols_match cols (m_feat s ++ m_targ s) = true ->
  (zlen (m_rows s) + 1)%Z = m_req s -> (p_k p <= m_req s)%Z ->
  let rows := m_rows s ++ [mk_lrow cols c] in
  let acc := fofZ (n_correct rows) / fofZ (m_req s) in
  exists s', md3_step p s (OLabel 1 cols c st) = Ok s' /\
    m_wait s' = false /\ m_rows s' = [] /\
    m_ds s' = (if (p_sens p * r_acc_std (m_ref s)) <? (r_acc (m_ref s) - acc) then DDrift else DNone) /\
    m_ref s' = st /\ m_len s' = m_req s /\ m_ff s' = fofZ (m_req s - 1) / fofZ (m_req s) /\
    m_md s' = r_md st /\ m_req s' = m_req s /\ m_total s' = m_total s /\ m_since s' = m_since s.
Proof.
  intros p s cols c st W C E K rows acc. exists (resolve_state p s cols c st).
  simpl. rewrite (label_accepted_cases p s cols c st W C).
  replace (zlen (m_rows s) + 1 =? m_req s)%Z with true by (symmetry; apply Z.eqb_eq; exact E).
  replace (m_req s <? p_k p)%Z with false by (symmetry; apply Z.ltb_ge; exact K).
  assert (L : zlen (lab_rows s cols c) = m_req s) by (unfold lab_rows; rewrite zlen_app1; exact E).
  unfold resolve_state. simpl. rewrite L.
  unfold lab_drift, label_accuracy. rewrite L.
  repeat split; reflexivity.
Qed.

(** The invariant of every history from the first set_reference (oracle length at least k):
    waiting <-> a warning is pending (displayed, or labels are being collected); the state shows
    "warning" exactly between the warning and its first accepted label; while waiting fewer than
    [required] labels are stored, otherwise none; after a drift verdict the detector is not waiting
    and its density is already the new reference density; the forgetting factor is (N-1)/N. *)
Theorem C19_protocol_invariant : forall (p : params) req cols target n (st : stats) ops,
  let r0 := match req with Some r => r | None => n end in
  (0 < r0)%Z -> (p_k p <= r0)%Z ->
  let s := md3_run p (md3_start req cols target n st) ops in
  (m_wait s = true <-> m_ds s = DWarn \/ m_rows s <> []) /\
  (m_ds s = DWarn <-> m_wait s = true /\ m_rows s = []) /\
  (m_wait s = true -> (0 <= zlen (m_rows s) < m_req s)%Z) /\
  (m_wait s = false -> m_rows s = []) /\
  (m_ds s = DDrift -> m_wait s = false /\ m_md s = r_md (m_ref s)) /\
  m_ff s = fofZ (m_len s - 1) / fofZ (m_len s) /\
  m_req s = r0 /\ (0 <= m_since s <= m_total s)%Z.
Proof.
  intros p req cols target n st ops r0 H1 H2 s.
  assert (I : inv s).
  { apply inv_run; try (apply inv_start; exact H1); exact H1 || exact H2. }
  pose proof (inv_waiting_iff s I) as Hw. destruct I as (I1 & I2 & I3 & I4 & I5 & I6).
  split; [exact Hw|]. split; [exact I3|]. split.
  - intros W. split; [apply zlen_nonneg | exact (I2 W)].
  - split; [exact I1|]. split; [exact I4|]. split; [exact I5|]. split; [|exact I6].
    unfold s. rewrite req_run. reflexivity.
Qed.

(** Exactly [required] accepted labels resolve a warning: from any waiting state, whatever calls
    are interleaved (refused updates, refused labels, explicit set_reference), the detector keeps
    waiting and stores exactly the accepted rows while fewer than the missing number have been
    accepted, and the accepted label that completes the number resolves. *)
Theorem C19_exactly_required_labels : forall (p : params) (s : state) ops,
  m_wait s = true ->
  ((zlen (m_rows s) + n_labels_accepted p s ops < m_req s)%Z ->
     m_wait (md3_run p s ops) = true /\
     zlen (m_rows (md3_run p s ops)) = (zlen (m_rows s) + n_labels_accepted p s ops)%Z) /\
  (forall cols c (st : stats),
     (zlen (m_rows s) + n_labels_accepted p s ops + 1)%Z = m_req s -> (p_k p <= m_req s)%Z ->
     cols_match cols (m_feat (md3_run p s ops) ++ m_targ (md3_run p s ops)) = true ->
     let s' := md3_run p s (ops ++ [OLabel 1 cols c st]) in
     m_wait s' = false /\ m_rows s' = [] /\ m_ref s' = st /\ m_len s' = m_req s /\ m_md s' = r_md st).
Proof.
  intros p s ops W. split; [exact (waiting_until p ops s W)|].
  intros cols c st H K C s'. unfold s'. rewrite (resolves_at p s ops cols c st W H K C).
  unfold resolve_state. simpl.
  destruct (waiting_until p ops s W) as [_ B]; [lia|].
  unfold lab_rows. rewrite zlen_app1, B. repeat split; try reflexivity. lia.
Qed.

(** After a resolution the next update starts from the new reference margin density with the new
    forgetting factor (required-1)/required, whether or not drift was declared; it is update number
    1 of a new epoch exactly when drift was declared. *)
Theorem C19_next_update_from_new_reference : forall (p : params) (s : state) cols c (st : stats) sig,
  m_wait s = true -> cols_match cols (m_feat s ++ m_targ s) = true ->
  (zlen (m_rows s) + 1)%Z = m_req s -> (p_k p <= m_req s)%Z ->
  let s1 := md3_next p s (OLabel 1 cols c st) in
  let s2 := md3_next p s1 (OUpdate 1 sig) in
  let ff' := fofZ (m_req s - 1) / fofZ (m_req s) in
  m_md s2 = ff' * r_md st + (f1 - ff') * sig /\
  m_total s2 = (m_total s + 1)%Z /\
  m_since s2 = ((if is_drift (m_ds s1) then 0 else m_since s) + 1)%Z.
Proof.
  intros p s cols c st sig W C E K s1 s2 ff'.
  assert (H1 : s1 = resolve_state p s cols c st).
  { unfold s1. rewrite (next_label_accepted p s cols c st W C).
    replace (zlen (m_rows s) + 1 =? m_req s)%Z with true by (symmetry; apply Z.eqb_eq; exact E).
    replace (m_req s <? p_k p)%Z with false by (symmetry; apply Z.ltb_ge; exact K). reflexivity. }
  assert (L : zlen (lab_rows s cols c) = m_req s) by (unfold lab_rows; rewrite zlen_app1; exact E).
  unfold s2. rewrite next_update. rewrite H1 at 1. simpl m_wait. cbv iota.
  change (1 =? 1)%Z with true. cbv iota.
  unfold upd_state, upd_md. simpl. rewrite H1. unfold resolve_state. simpl. rewrite L.
  destruct (is_drift (lab_drift p s (lab_rows s cols c))); repeat split; reflexivity.
Qed.

(** Counters: total_updates counts exactly the accepted updates of a history (refused calls, labels
    and set_reference do not count); updates_since_reset is bounded by it (invariant above) and
    restarts after a drift (C19_update_effect). *)
Theorem C19_counters : forall (p : params) (s : state) ops,
  m_total (md3_run p s ops) = (m_total s + n_updates_accepted p s ops)%Z /\
  m_req (md3_run p s ops) = m_req s.
Proof. intros p s ops. split; [exact (total_run p ops s) | exact (req_run p ops s)]. Qed.

(** The quantifier restriction (oracle_data_length_required >= k) is necessary: with fewer labels
    than folds the completing label fails inside the implicit set_reference *after* it was stored
    (KFold's ValueError, not a refusal), and from then on no history resolves the warning: the
    detector waits forever and refuses every update. *)
Theorem C19_oracle_length_below_k_never_resolves : forall (p : params) (s s' : state) n cols c (st : stats),
  (md3_step p s (OLabel n cols c st) = Crashed s' <->
     m_wait s = true /\ n = 1%Z /\ cols_match cols (m_feat s ++ m_targ s) = true /\
     (zlen (m_rows s) + 1)%Z = m_req s /\ (m_req s < p_k p)%Z /\ s' = crash_state p s cols c) /\
  (md3_step p s (OLabel n cols c st) = Crashed s' ->
     s' <> s /\
     forall ops, m_wait (md3_run p s' ops) = true /\
                 forall m sig, md3_step p (md3_run p s' ops) (OUpdate m sig) = Refused RWaiting).
Proof.
  intros p s s' n cols c st. split; [exact (crashed_iff p s n cols c st s')|].
  intros H. apply crashed_iff in H. destruct H as (W & _ & _ & E & _ & ->). split.
  - intros Heq. apply (f_equal (fun x => zlen (m_rows x))) in Heq.
    unfold crash_state, lab_rows in Heq. simpl in Heq. rewrite zlen_app1 in Heq. lia.
  - intros ops. pose proof (stuck_run p ops _ (crash_state_stuck p s cols c W E)) as [A _].
    split; [exact A|]. intros m sig. simpl. exact (update_waiting p _ m sig A).
Qed.

(** A stretch of accepted updates without warning (and not started by a drift) evaluates the plain
    recurrence from the current density, with unchanged forgetting factor and reference. *)
Theorem C19_recurrence_over_quiet_stretch : forall (p : params) (s : state) sigs,
  m_wait s = false -> m_ds s <> DDrift ->
  m_wait (md3_run p s (map (OUpdate 1) sigs)) = false ->
  let s' := md3_run p s (map (OUpdate 1) sigs) in
  m_md s' = md_fold (m_ff s) (m_md s) sigs /\ m_ff s' = m_ff s /\ m_ref s' = m_ref s /\
  m_total s' = (m_total s + zlen sigs)%Z.
Proof. intros p s sigs. exact (quiet_stretch p sigs s). Qed.

End C19.

(** Exact arithmetic only (reals; the float recurrence deviates by rounding, which the harness measures
    against exact rationals): the recurrence is the exponentially forgotten average,
    md_n = ff^n * md_0 + (1-ff) * sum_i ff^(n-1-i) * signal_i. *)
Theorem C19_closed_form_exact : forall (ff m : R) (sigs : list R),
  @md_fold NumR19 ff m sigs = (ff ^ length sigs * m + (1 - ff) * wsum ff sigs)%R.
Proof. intros ff m sigs. exact (md_fold_closed ff sigs m). Qed.

(** The hypotheses are satisfiable (bit-exact float instance): a reference of 4 rows, k = 2, two
    labels required; an in-margin sample warns, two wrong labels resolve with drift; with k = 3 the
    second label fails. *)
Example C19_hypotheses_satisfiable :
  let p := @mk_params NumFloat 2%float 2%Z in
  let st := @mk_stats NumFloat 0%float 0%float 1%float 0%float in
  let s0 := md3_start (Some 2%Z) [1; 2; 3]%Z 3%Z 4%Z st in
  let s1 := md3_next p s0 (@OUpdate NumFloat 1%Z 1%float) in
  let l := @OLabel NumFloat 1%Z [3; 1; 2]%Z false st in
  (0 < m_req s0)%Z /\ (p_k p <= m_req s0)%Z /\
  m_wait s1 = true /\ m_ds s1 = DWarn /\ cols_match [3; 1; 2]%Z (m_feat s1 ++ m_targ s1) = true /\
  (zlen (m_rows s1) + 1 + 1)%Z = m_req s1 /\
  m_ds (md3_run p s1 [l; l]) = DDrift /\ m_wait (md3_run p s1 [l; l]) = false /\
  (match md3_step (@mk_params NumFloat 2%float 3%Z) (md3_next p s1 l) l with Crashed _ => true | _ => false end) = true.
Proof. vm_compute. repeat split; try reflexivity; discriminate. Qed.

Print Assumptions C19_refused_calls_change_nothing.
Print Assumptions C19_update_refusal_rule.
Print Assumptions C19_label_refusal_rule.
Print Assumptions C19_update_effect.
Print Assumptions C19_label_collects.
Print Assumptions C19_label_resolves.
Print Assumptions C19_protocol_invariant.
Print Assumptions C19_exactly_required_labels.
Print Assumptions C19_next_update_from_new_reference.
Print Assumptions C19_counters.
Print Assumptions C19_oracle_length_below_k_never_resolves.
Print Assumptions C19_recurrence_over_quiet_stretch.
Print Assumptions C19_closed_form_exact.
