(** C13 — each election returns exactly what its voting rule says, for every vote pattern.
    Statements only; proofs are in Election_Proofs.v. *)
From MV Require Import Base Election Election_Proofs.

(** SimpleMajority: drift iff strictly more than half report drift (any number of members). *)
Theorem C13_majority_iff : forall l,
  simple_majority l = DDrift <-> Z.of_nat (length l) < 2 * cnt_drift l.
Proof. exact majority_iff. Qed.

(** MinimumApproval(a): drift iff at least [a] members drift; for every integer [a] (the loop
    tests after every member, so a non-positive [a] alarms on any non-empty list). *)
Theorem C13_min_approval_iff_all_parameters : forall a l,
  min_approval a l = DDrift <-> l <> [] /\ a <= cnt_drift l.
Proof. exact min_approval_iff_general. Qed.
Theorem C13_min_approval_iff : forall a l, 1 <= a ->
  (min_approval a l = DDrift <-> a <= cnt_drift l).
Proof. exact min_approval_iff. Qed.

(** OrderedApproval(a, c): drift iff at least a + c members drift (documented range), and the
    exact rule for every integer pair. *)
Theorem C13_ordered_iff_all_parameters : forall a c l,
  ordered_approval a c l = DDrift <-> 1 <= cnt_drift l /\ Z.max a 0 + Z.max c 0 <= cnt_drift l.
Proof. exact ordered_iff_general. Qed.
Theorem C13_ordered_iff : forall a c l, 0 <= a -> 0 <= c -> 1 <= a + c ->
  (ordered_approval a c l = DDrift <-> a + c <= cnt_drift l).
Proof. exact ordered_iff. Qed.

(** none of the three returns anything but drift / None *)
Theorem C13_range : forall a c l,
  (simple_majority l = DDrift \/ simple_majority l = DNone) /\
  (min_approval a l = DDrift \/ min_approval a l = DNone) /\
  (ordered_approval a c l = DDrift \/ ordered_approval a c l = DNone).
Proof.
  intros a c l. exact (conj (majority_range l)
    (conj (min_approval_go_range a l 0) (ordered_go_range a c l 0 0))).
Qed.

(** turning more members to drift never retracts a drift verdict *)
Theorem C13_monotone : forall a c l l', more l l' ->
  (simple_majority l = DDrift -> simple_majority l' = DDrift) /\
  (min_approval a l = DDrift -> min_approval a l' = DDrift) /\
  (ordered_approval a c l = DDrift -> ordered_approval a c l' = DDrift).
Proof.
  intros a c l l' H. exact (conj (majority_monotone l l' H)
    (conj (min_approval_monotone a l l' H) (ordered_monotone a c l l' H))).
Qed.

(** ConfirmedElection: verdict rule from the tallies of voters and warnings *)
Theorem C13_confirmed_verdict : forall p w sts nd nw cs',
  tally sts (start_counters w sts) = (nd, nw, cs') ->
  (fst (confirmed_call p w sts) = DDrift <-> sensitivity p <= nd) /\
  (fst (confirmed_call p w sts) = DWarn <-> nd < sensitivity p <= nw + nd) /\
  (fst (confirmed_call p w sts) = DNone <-> nd < sensitivity p /\ nw + nd < sensitivity p) /\
  snd (confirmed_call p w sts) = Some (map (expire p) cs').
Proof. exact confirmed_verdict. Qed.

(** ... the per-member counters never exceed wait_time, after any sequence of calls *)
Theorem C13_confirmed_counters_bounded : forall p calls w, ostate_bounded (wait_time p) w ->
  Forall (fun rc => bounded (wait_time p) (snd rc)) (confirmed_run p w calls).
Proof. exact confirmed_counters_bounded. Qed.

(** ... and every call history behaves as the waiting specification [spec_step]: a member votes in
    the call in which it newly drifts and in each of its next wait_time calls in which it does not
    report warning; such a call counts it as a warning and uses up no waiting time. *)
Theorem C13_confirmed_refines_spec : forall p sts calls, 0 <= wait_time p ->
  map (fun rc => (fst rc, map (remaining (wait_time p)) (snd rc))) (confirmed_run p None (sts :: calls))
  = spec_run p (repeat 0 (length sts)) (sts :: calls).
Proof. exact confirmed_refines_spec_init. Qed.

Print Assumptions C13_majority_iff.
Print Assumptions C13_min_approval_iff_all_parameters.
Print Assumptions C13_min_approval_iff.
Print Assumptions C13_ordered_iff_all_parameters.
Print Assumptions C13_ordered_iff.
Print Assumptions C13_range.
Print Assumptions C13_monotone.
Print Assumptions C13_confirmed_verdict.
Print Assumptions C13_confirmed_counters_bounded.
Print Assumptions C13_confirmed_refines_spec.
