(** C18 - lemmas: the batch detectors read a batch only through summaries that do not depend on the
    order of its rows.  [Permutation] is Coq.Sorting.Permutation.  The kdq-tree and NN space
    partitioner models are the ones of properties C08 / C10 (imported, unchanged). *)
From MV Require Import Base Num NumLaws Lifecycle Lifecycle_Proofs Nnsp Nnsp_Proofs KdqTree KdqTree_Proofs PermDet.
From Coq Require Import Permutation ZifyBool.
Open Scope Z_scope.

(** The laws of the arithmetic the kdq-tree / histogram theorems need: a TOTAL ORDER, antisymmetry
    included (without it "the" minimum of a column is not unique and [fold]-computed minima depend on
    the order of the rows), and a symmetric, transitive [feqb] (for np.unique(...).size).
    The reals satisfy them ([PermLawsR] below).  IEEE doubles without NaN satisfy all of them except
    antisymmetry, which fails for exactly one pair of values: [+0 <= -0 <= +0] but the two are
    different bit patterns. *)
Record PermLaws (N : Num) := {
  pl_ord : OrdLaws N;
  pl_antisym : forall a b : F N, fleb a b = true -> fleb b a = true -> a = b;
  pl_eq_sym : forall a b : F N, feqb a b = feqb b a;
  pl_eq_trans : forall a b c : F N, feqb a b = true -> feqb b c = true -> feqb a c = true
}.

(** ---------------------------------------------------------------- lists *)
Lemma len_perm {A} (l l' : list A) : Permutation l l' -> len l = len l'.
Proof. intros H. unfold len. rewrite (Permutation_length H). reflexivity. Qed.

Lemma filter_perm {A} (f : A -> bool) (l l' : list A) :
  Permutation l l' -> Permutation (filter f l) (filter f l').
Proof.
  induction 1 as [|x l l' _ IH|x y l|l l' l'' _ IH1 _ IH2]; simpl.
  - constructor.
  - destruct (f x); [constructor|]; exact IH.
  - destruct (f x), (f y); try reflexivity. apply perm_swap.
  - eapply perm_trans; eassumption.
Qed.

Lemma concat_perm {A} (l l' : list (list A)) : Permutation l l' -> Permutation (concat l) (concat l').
Proof.
  induction 1 as [|x l l' _ IH|x y l|l l' l'' _ IH1 _ IH2]; simpl.
  - constructor.
  - apply Permutation_app_head. exact IH.
  - rewrite !app_assoc. apply Permutation_app_tail. apply Permutation_app_comm.
  - eapply perm_trans; eassumption.
Qed.

Lemma existsb_perm {A} (f : A -> bool) (l l' : list A) : Permutation l l' -> existsb f l = existsb f l'.
Proof.
  induction 1 as [|x l l' _ IH|x y l|l l' l'' _ IH1 _ IH2]; simpl.
  - reflexivity.
  - rewrite IH. reflexivity.
  - destruct (f x), (f y); reflexivity.
  - congruence.
Qed.

Lemma perm_nil_cons {A} (l : list A) x t : Permutation l (x :: t) -> l <> [].
Proof. intros H E. subst. exact (Permutation_nil_cons H). Qed.

(** ---------------------------------------------------------------- min / max / distinct *)
Section Order.
Context {N : Num}.
Variable PL : PermLaws N.
Local Open Scope num_scope.
Notation F := (F N).
Let OL := pl_ord N PL.
Let ord := ltb_leb N OL.

Lemma fold_min_lower (t : list F) : forall x y,
  In y (x :: t) -> fleb (fold_left (fun a y => if y <? a then y else a) t x) y = true.
Proof.
  induction t as [|z t IH]; intros x y Hy; simpl.
  - destruct Hy as [<-|[]]. apply (leb_refl N OL).
  - destruct Hy as [<-|[<-|Hy]].
    + eapply (leb_trans N OL); [apply (fold_min_spec OL)|].
      destruct (z <? x) eqn:E; [|apply (leb_refl N OL)].
      rewrite ord in E. destruct (leb_total N OL z x) as [H|H]; [exact H|]. rewrite H in E. discriminate.
    + eapply (leb_trans N OL); [apply (fold_min_spec OL)|].
      destruct (z <? x) eqn:E; [apply (leb_refl N OL)|].
      rewrite ord in E. destruct (fleb x z); [reflexivity | discriminate].
    + apply IH. right. exact Hy.
Qed.

Lemma fold_max_upper (t : list F) : forall x y,
  In y (x :: t) -> fleb y (fold_left (fun a y => if a <? y then y else a) t x) = true.
Proof.
  induction t as [|z t IH]; intros x y Hy; simpl.
  - destruct Hy as [<-|[]]. apply (leb_refl N OL).
  - destruct Hy as [<-|[<-|Hy]].
    + eapply (leb_trans N OL); [|apply (fold_max_spec OL)].
      destruct (x <? z) eqn:E; [|apply (leb_refl N OL)].
      rewrite ord in E. destruct (leb_total N OL x z) as [H|H]; [exact H|]. rewrite H in E. discriminate.
    + eapply (leb_trans N OL); [|apply (fold_max_spec OL)].
      destruct (x <? z) eqn:E; [apply (leb_refl N OL)|].
      rewrite ord in E. destruct (fleb z x); [reflexivity | discriminate].
    + apply IH. right. exact Hy.
Qed.

Lemma col_min_lower (col : list F) y : In y col -> fleb (col_min col) y = true.
Proof. destruct col as [|x t]; [intros []|]. apply fold_min_lower. Qed.
Lemma col_max_upper (col : list F) y : In y col -> fleb y (col_max col) = true.
Proof. destruct col as [|x t]; [intros []|]. apply fold_max_upper. Qed.

(** np.min / np.max do not depend on the order of the values *)
Lemma col_min_perm (c c' : list F) : Permutation c c' -> col_min c = col_min c'.
Proof.
  intros H. destruct c as [|x t].
  - apply Permutation_nil in H. subst. reflexivity.
  - assert (Hc' : c' <> []) by (intros E; subst; apply Permutation_sym in H; exact (Permutation_nil_cons H)).
    assert (Hc : x :: t <> []) by discriminate.
    apply (pl_antisym N PL).
    + apply col_min_lower. apply (Permutation_in _ (Permutation_sym H)). apply (col_min_in OL). exact Hc'.
    + apply col_min_lower. apply (Permutation_in _ H). apply (col_min_in OL). exact Hc.
Qed.

Lemma col_max_perm (c c' : list F) : Permutation c c' -> col_max c = col_max c'.
Proof.
  intros H. destruct c as [|x t].
  - apply Permutation_nil in H. subst. reflexivity.
  - assert (Hc' : c' <> []) by (intros E; subst; apply Permutation_sym in H; exact (Permutation_nil_cons H)).
    assert (Hc : x :: t <> []) by discriminate.
    apply (pl_antisym N PL).
    + apply col_max_upper. apply (Permutation_in _ H). apply (col_max_in OL). exact Hc.
    + apply col_max_upper. apply (Permutation_in _ (Permutation_sym H)). apply (col_max_in OL). exact Hc'.
Qed.

Lemma ptp_perm (c c' : list F) : Permutation c c' -> ptp c = ptp c'.
Proof. intros H. unfold ptp. rewrite (col_min_perm c c' H), (col_max_perm c c' H). reflexivity. Qed.

(** np.unique(data).size *)
Lemma feqb_cong (x y z : F) : feqb x y = true -> feqb x z = feqb y z.
Proof.
  intros H. destruct (feqb y z) eqn:E.
  - exact (pl_eq_trans N PL x y z H E).
  - destruct (feqb x z) eqn:E2; [|reflexivity].
    rewrite (pl_eq_sym N PL) in H. rewrite <- E. symmetry. exact (pl_eq_trans N PL y x z H E2).
Qed.

Lemma existsb_feqb_cong (x y : F) l : feqb x y = true -> existsb (feqb x) l = existsb (feqb y) l.
Proof. intros H. induction l as [|z l IH]; simpl; [reflexivity|]. rewrite (feqb_cong x y z H), IH. reflexivity. Qed.

Lemma distinct_perm (l l' : list F) : Permutation l l' -> distinct l = distinct l'.
Proof.
  induction 1 as [|x l l' Hp IH|x y l|l l' l'' _ IH1 _ IH2]; simpl.
  - reflexivity.
  - rewrite IH, (existsb_perm _ l l' Hp). reflexivity.
  - rewrite (pl_eq_sym N PL y x). destruct (feqb x y) eqn:E; simpl.
    + rewrite (existsb_feqb_cong x y l E). destruct (existsb (feqb y) l); reflexivity.
    + lia.
  - congruence.
Qed.
End Order.

(** ---------------------------------------------------------------- kdq-tree: build and fill *)
Section Kdq.
Context {N : Num}.
Variable PL : PermLaws N.
Local Open Scope num_scope.
Notation F := (F N).
Notation point := (KdqTree.point N).

Lemma column_perm axis (d d' : list point) : Permutation d d' -> Permutation (column axis d) (column axis d').
Proof. apply Permutation_map. Qed.

Lemma midpoint_perm axis (d d' : list point) : Permutation d d' -> midpoint axis d = midpoint axis d'.
Proof.
  intros H. unfold midpoint.
  rewrite (col_min_perm PL _ _ (column_perm axis d d' H)), (ptp_perm PL _ _ (column_perm axis d d' H)). reflexivity.
Qed.

Lemma cell_size_perm axis (d d' : list point) : Permutation d d' -> cell_size axis d = cell_size axis d'.
Proof.
  intros H. unfold cell_size.
  rewrite (midpoint_perm axis d d' H), (col_min_perm PL _ _ (column_perm axis d d' H)). reflexivity.
Qed.

Lemma upper_perm axis mid (d d' : list point) : Permutation d d' -> Permutation (upper axis mid d) (upper axis mid d').
Proof. apply filter_perm. Qed.
Lemma lower_perm axis mid (d d' : list point) : Permutation d d' -> Permutation (lower axis mid d) (lower axis mid d').
Proof. apply filter_perm. Qed.

Lemma stop_rule_perm m cub mins (d d' : list point) depth :
  Permutation d d' -> stop_rule m cub mins d depth = stop_rule m cub mins d' depth.
Proof.
  intros H. unfold stop_rule.
  rewrite (len_perm d d' H), (distinct_perm PL _ _ (concat_perm d d' H)),
          (cell_size_perm _ d d' H), (midpoint_perm _ d d' H),
          (col_max_perm PL _ _ (column_perm _ d d' H)).
  reflexivity.
Qed.

(** KDQTreeNode.build: the same tree (axes, split values, counts) and the same out-of-fuel flag *)
Lemma build_node_perm m cub mins : forall fuel (d d' : list point) depth,
  Permutation d d' -> build_node m cub mins fuel d depth = build_node m cub mins fuel d' depth.
Proof.
  induction fuel as [|fuel IH]; intros d d' depth H.
  - destruct d as [|p d].
    + apply Permutation_nil in H. subst. reflexivity.
    + destruct d' as [|p' d'0]; [apply Permutation_sym in H; destruct (Permutation_nil_cons H)|].
      simpl. rewrite (stop_rule_perm m cub mins _ _ depth H), (len_perm _ _ H). reflexivity.
  - destruct d as [|p d].
    + apply Permutation_nil in H. subst. reflexivity.
    + destruct d' as [|p' d'0]; [apply Permutation_sym in H; destruct (Permutation_nil_cons H)|].
      cbn [build_node]. rewrite (stop_rule_perm m cub mins _ _ depth H), (len_perm _ _ H).
      rewrite (midpoint_perm _ _ _ H).
      set (ax := axis_of m depth). set (mid := midpoint ax (p' :: d'0)).
      rewrite (IH _ _ (depth + 1)%Z (lower_perm ax mid _ _ H)), (IH _ _ (depth + 1)%Z (upper_perm ax mid _ _ H)).
      rewrite (len_perm _ _ (lower_perm ax mid _ _ H)), (len_perm _ _ (upper_perm ax mid _ _ H)).
      reflexivity.
Qed.

Lemma min_sizes_perm trunc clb m (d d' : list point) :
  Permutation d d' -> min_sizes trunc clb m d = min_sizes trunc clb m d'.
Proof.
  intros H. unfold min_sizes. apply map_ext. intros a.
  rewrite (ptp_perm PL _ _ (column_perm _ d d' H)). reflexivity.
Qed.

Lemma build_perm trunc cub clb m fuel (d d' : list point) :
  Permutation d d' -> build trunc cub clb m fuel d = build trunc cub clb m fuel d'.
Proof.
  intros H. unfold build. rewrite (min_sizes_perm trunc clb m d d' H). apply build_node_perm. exact H.
Qed.

(** KDQTreeNode.fill: the same counts in every node.  No law of the arithmetic is needed here. *)
Lemma fill_perm : forall (t : tree N) (b b' : list point) id reset,
  Permutation b b' -> fill b t id reset = fill b' t id reset.
Proof.
  induction t as [|c|ax mid c l IHl r IHr]; intros b b' id reset H; simpl.
  - reflexivity.
  - rewrite (len_perm _ _ H). reflexivity.
  - rewrite (len_perm _ _ (lower_perm ax mid _ _ H)), (len_perm _ _ (upper_perm ax mid _ _ H)).
    rewrite (IHl _ _ id reset (lower_perm ax mid _ _ H)), (IHr _ _ id reset (upper_perm ax mid _ _ H)).
    reflexivity.
Qed.
End Kdq.

(** ---------------------------------------------------------------- two runs on related inputs *)
(** Generic lock-step lemma for the machine of Lifecycle.v: two runs of one detector whose epoch
    states are related by [erel] and whose inputs are pairwise related by [xrel] produce the same
    observable trace, provided one decision step maps related (state, input) pairs to the same
    decision and related states. *)
Section Sim.
Variable K : kernel.
Variable erel : E K -> E K -> Prop.
Variable xrel : X K -> X K -> Prop.
Hypothesis step_rel : forall e1 e2 n x1 x2, erel e1 e2 -> xrel x1 x2 ->
  snd (step_e K e1 n x1) = snd (step_e K e2 n x2)
  /\ erel (fst (step_e K e1 n x1)) (fst (step_e K e2 n x2)).
Hypothesis reset_rel : forall e1 e2, erel e1 e2 -> erel (reset_e K e1) (reset_e K e2).

Definition psim (a b : st K) : Prop := erel (epoch a) (epoch b) /\ observe a = observe b.

Lemma psim_fields a b : psim a b ->
  erel (epoch a) (epoch b) /\ total a = total b /\ since a = since b /\ ds a = ds b /\ recs a = recs b.
Proof.
  intros [He Ho]. unfold observe in Ho. inversion Ho. repeat split; assumption.
Qed.

Lemma update_psim a b x1 x2 : psim a b -> xrel x1 x2 -> psim (update a x1) (update b x2).
Proof.
  intros Hs Hx. apply psim_fields in Hs as (He & Ht & Hn & Hd & Hr).
  unfold update. rewrite <- Hd.
  set (a0 := if is_drift (ds a) then do_reset a else a).
  set (b0 := if is_drift (ds a) then do_reset b else b).
  assert (H0 : erel (epoch a0) (epoch b0) /\ total a0 = total b0 /\ since a0 = since b0
               /\ ds a0 = ds b0 /\ recs a0 = recs b0).
  { unfold a0, b0. destruct (is_drift (ds a)); simpl.
    - repeat split; try assumption. apply reset_rel. exact He.
    - rewrite <- Hd. repeat split; assumption. }
  destruct H0 as (He0 & Ht0 & Hn0 & Hd0 & Hr0).
  rewrite <- Ht0, <- Hn0, <- Hd0, <- Hr0.
  destruct (step_rel (epoch a0) (epoch b0) (since a0 + 1) x1 x2 He0 Hx) as [Hod Her].
  destruct (step_e K (epoch a0) (since a0 + 1) x1) as [e1 od1].
  destruct (step_e K (epoch b0) (since a0 + 1) x2) as [e2 od2].
  simpl in Hod, Her. subst od2. split; [exact Her | reflexivity].
Qed.

Theorem states_psim : forall xs xs' a b, psim a b -> Forall2 xrel xs xs' ->
  Forall2 psim (states a xs) (states b xs').
Proof.
  induction xs as [|x xs IH]; intros xs' a b Hs Hx; inversion Hx; subst; simpl.
  - constructor.
  - constructor.
    + apply update_psim; assumption.
    + apply IH; [apply update_psim|]; assumption.
Qed.

Theorem trace_psim : forall xs xs' a b, psim a b -> Forall2 xrel xs xs' -> trace a xs = trace b xs'.
Proof.
  induction xs as [|x xs IH]; intros xs' a b Hs Hx; inversion Hx; subst; simpl.
  - reflexivity.
  - pose proof (update_psim a b x y Hs H1) as Hu. f_equal; [apply Hu | apply IH; assumption].
Qed.

Lemma init_psim e1 e2 : erel e1 e2 -> psim (init K e1) (init K e2).
Proof. intros H. split; [exact H | reflexivity]. Qed.
End Sim.

(** ---------------------------------------------------------------- KdqTreeBatch *)
Section KdqBatchPerm.
Context {N : Num}.
Variable PL : PermLaws N.
Local Open Scope num_scope.
Notation F := (F N).
Notation point := (KdqTree.point N).
Variable trunc : F -> F.
Variable cub : Z.
Variable clb : F.
Variable m : Z.
Variable fuel_of : Z -> nat.
Variable kl : list F -> list F -> F.

Notation KB := (KdqBatch trunc cub clb m fuel_of kl).

Lemma kdq_build_perm (r r' : list point) :
  Permutation r r' -> kdq_build trunc cub clb m fuel_of r = kdq_build trunc cub clb m fuel_of r'.
Proof.
  intros H. unfold kdq_build. rewrite (len_perm _ _ H), (build_perm PL trunc cub clb m _ r r' H). reflexivity.
Qed.

Definition opt_perm (a b : option (list point)) : Prop :=
  match a, b with
  | None, None => True
  | Some r, Some r' => Permutation r r'
  | _, _ => False
  end.

(** the two detectors hold the same tree (hence the same leaf counts under "build" and "test"), the
    same critical value and the same [_test_dist]; the batches kept for the next reference are
    permutations of each other *)
Definition kdq_erel (e1 e2 : kdq_e N) : Prop :=
  k_tree e1 = k_tree e2 /\ k_crit e1 = k_crit e2 /\ k_dist e1 = k_dist e2
  /\ opt_perm (k_pending e1) (k_pending e2).

(** same bootstrap oracle (pointwise), permuted batch *)
Definition kdq_xrel (x1 x2 : kdq_in N) : Prop :=
  Permutation (fst x1) (fst x2) /\ forall c, snd x1 c = snd x2 c.

Lemma kdq_set_reference_perm (r r' : list point) (o o' : list Z -> F) :
  Permutation r r' -> (forall c, o c = o' c) ->
  kdq_set_reference trunc cub clb m fuel_of r o = kdq_set_reference trunc cub clb m fuel_of r' o'.
Proof.
  intros H Ho. unfold kdq_set_reference. rewrite (kdq_build_perm r r' H), Ho. reflexivity.
Qed.

Lemma kdq_step_rel e1 e2 n x1 x2 : kdq_erel e1 e2 -> kdq_xrel x1 x2 ->
  snd (step_e KB e1 n x1) = snd (step_e KB e2 n x2)
  /\ kdq_erel (fst (step_e KB e1 n x1)) (fst (step_e KB e2 n x2)).
Proof.
  intros (Ht & Hc & Hd & Hp) (Hb & Ho). simpl. unfold kdq_step.
  set (a0 := match k_pending e1 with Some r => kdq_set_reference trunc cub clb m fuel_of r (snd x1) | None => e1 end).
  set (b0 := match k_pending e2 with Some r => kdq_set_reference trunc cub clb m fuel_of r (snd x2) | None => e2 end).
  assert (H0 : k_tree a0 = k_tree b0 /\ k_crit a0 = k_crit b0 /\ k_pending a0 = None /\ k_pending b0 = None).
  { unfold a0, b0. destruct (k_pending e1) as [r|] eqn:E1, (k_pending e2) as [r'|] eqn:E2; simpl in Hp; try contradiction.
    - rewrite (kdq_set_reference_perm r r' _ _ Hp Ho). repeat split.
    - repeat split; assumption. }
  destruct H0 as (Ht0 & Hc0 & Hp1 & Hp2).
  rewrite <- Ht0, <- Hc0, Hp1, Hp2, (fill_perm (k_tree a0) _ _ 1%Z true Hb).
  destruct (kl_distance kl (fill (fst x2) (k_tree a0) 1%Z true) 0%Z 1%Z) as [d|]; simpl.
  - destruct (k_crit a0 <? d); simpl; unfold kdq_erel; simpl; repeat split; try exact I. exact Hb.
  - unfold kdq_erel; simpl; repeat split; exact I.
Qed.

Lemma kdq_reset_rel e1 e2 : kdq_erel e1 e2 -> kdq_erel (reset_e KB e1) (reset_e KB e2).
Proof. intros H. exact H. Qed.

Lemma kdq_init_rel (r r' : list point) o o' : Permutation r r' -> (forall c, o c = o' c) ->
  kdq_erel (kdq_set_reference trunc cub clb m fuel_of r o) (kdq_set_reference trunc cub clb m fuel_of r' o').
Proof.
  intros H Ho. rewrite (kdq_set_reference_perm r r' o o' H Ho). repeat split.
Qed.

Definition kdq_same (a b : st KB) : Prop := psim KB kdq_erel a b.

Lemma kdq_states_perm (r r' : list point) o o' xs xs' :
  Permutation r r' -> (forall c, o c = o' c) -> Forall2 kdq_xrel xs xs' ->
  Forall2 kdq_same
    (states (init KB (kdq_set_reference trunc cub clb m fuel_of r o)) xs)
    (states (init KB (kdq_set_reference trunc cub clb m fuel_of r' o')) xs').
Proof.
  intros H Ho Hx. apply (states_psim KB kdq_erel kdq_xrel kdq_step_rel kdq_reset_rel).
  - apply init_psim. apply kdq_init_rel; assumption.
  - exact Hx.
Qed.

Lemma kdq_trace_perm (r r' : list point) o o' xs xs' :
  Permutation r r' -> (forall c, o c = o' c) -> Forall2 kdq_xrel xs xs' ->
  trace (init KB (kdq_set_reference trunc cub clb m fuel_of r o)) xs
  = trace (init KB (kdq_set_reference trunc cub clb m fuel_of r' o')) xs'.
Proof.
  intros H Ho Hx. apply (trace_psim KB kdq_erel kdq_xrel kdq_step_rel kdq_reset_rel).
  - apply init_psim. apply kdq_init_rel; assumption.
  - exact Hx.
Qed.

(** what [kdq_same] says about the observables *)
Lemma kdq_same_obs (a b : st KB) : kdq_same a b ->
  observe a = observe b /\ k_tree (epoch a) = k_tree (epoch b)
  /\ kdq_kl_args (epoch a) = kdq_kl_args (epoch b)
  /\ k_dist (epoch a) = k_dist (epoch b) /\ k_crit (epoch a) = k_crit (epoch b).
Proof.
  intros [(Ht & Hc & Hd & _) Ho]. unfold kdq_kl_args. rewrite Ht. repeat split; assumption.
Qed.
End KdqBatchPerm.

(** ---------------------------------------------------------------- NN space partitioner / NNDVI *)
(** [D], [v1], [v2] depend on each sample only through its SET of rows (sorted de-duplication and
    one-hot membership), a fortiori not on the order of its rows.  Points are exact ([list Z], the
    lexicographic order on them is a total order): no hypothesis on the arithmetic is needed. *)
Definition same_set (s s' : list Nnsp.point) : Prop := forall p, In p s <-> In p s'.

Lemma perm_same_set (s s' : list Nnsp.point) : Permutation s s' -> same_set s s'.
Proof. intros H p. split; apply Permutation_in; [exact H | apply Permutation_sym; exact H]. Qed.

Lemma build_D_set s1 s2 s1' s2' : same_set s1 s1' -> same_set s2 s2' -> build_D s1 s2 = build_D s1' s2'.
Proof.
  intros H1 H2. apply sorted_unique; try apply build_D_sorted.
  intros p. rewrite !build_D_In, (H1 p), (H2 p). tauto.
Qed.

Lemma build_v1_set s1 s2 s1' s2' : same_set s1 s1' -> same_set s2 s2' -> build_v1 s1 s2 = build_v1 s1' s2'.
Proof.
  intros H1 H2. pose proof (build_D_set s1 s2 s1' s2' H1 H2) as HD.
  apply (v_nth_ext _ _ (fun j => In (nth j (build_D s1 s2) []) s1) (length (build_D s1 s2))).
  - apply v1_length.
  - rewrite v1_length, HD. reflexivity.
  - apply v1_01.
  - apply v1_01.
  - intros j Hj. apply v1_exact. exact Hj.
  - intros j Hj. rewrite (H1 _), HD. apply v1_exact. rewrite <- HD. exact Hj.
Qed.

Lemma build_v2_set s1 s2 s1' s2' : same_set s1 s1' -> same_set s2 s2' -> build_v2 s1 s2 = build_v2 s1' s2'.
Proof.
  intros H1 H2. pose proof (build_D_set s1 s2 s1' s2' H1 H2) as HD.
  apply (v_nth_ext _ _ (fun j => In (nth j (build_D s1 s2) []) s2) (length (build_D s1 s2))).
  - apply v2_length.
  - rewrite v2_length, HD. reflexivity.
  - apply v2_01.
  - apply v2_01.
  - intros j Hj. apply v2_exact. exact Hj.
  - intros j Hj. rewrite (H2 _), HD. apply v2_exact. rewrite <- HD. exact Hj.
Qed.

Lemma nnsp_distance_set s1 s2 s1' s2' A : same_set s1 s1' -> same_set s2 s2' ->
  nnsp_distance s1 s2 A = nnsp_distance s1' s2' A.
Proof.
  intros H1 H2. unfold nnsp_distance.
  rewrite (build_v1_set _ _ _ _ H1 H2), (build_v2_set _ _ _ _ H1 H2). reflexivity.
Qed.

(** same adjacency oracle, same threshold oracle, permuted batch *)
Definition nndvi_xrel (x1 x2 : nndvi_in) : Prop :=
  Permutation (in_test x1) (in_test x2) /\ in_adj x1 = in_adj x2 /\ in_theta x1 = in_theta x2.

Lemma nndvi_step_rel (e1 e2 : E NNDVI) n (x1 x2 : X NNDVI) :
  Permutation e1 e2 -> nndvi_xrel x1 x2 ->
  snd (step_e NNDVI e1 n x1) = snd (step_e NNDVI e2 n x2)
  /\ Permutation (fst (step_e NNDVI e1 n x1)) (fst (step_e NNDVI e2 n x2)).
Proof.
  intros He (Hb & Ha & Ht). simpl. unfold nndvi_step.
  rewrite (nnsp_distance_set e1 (in_test x1) e2 (in_test x2) (in_adj x1) (perm_same_set _ _ He) (perm_same_set _ _ Hb)).
  rewrite Ha, Ht.
  destruct (theta_ltb (in_theta x2) (nnsp_distance e2 (in_test x2) (in_adj x2))); simpl; split;
    try reflexivity; assumption.
Qed.

Lemma nndvi_reset_rel (e1 e2 : E NNDVI) : Permutation e1 e2 -> Permutation (reset_e NNDVI e1) (reset_e NNDVI e2).
Proof. intros H. exact H. Qed.

Definition nndvi_same (a b : st NNDVI) : Prop := psim NNDVI (@Permutation Nnsp.point) a b.

Lemma nndvi_states_perm ref ref' xs xs' : Permutation ref ref' -> Forall2 nndvi_xrel xs xs' ->
  Forall2 nndvi_same (states (init NNDVI ref) xs) (states (init NNDVI ref') xs').
Proof.
  intros H Hx. apply (states_psim NNDVI (@Permutation Nnsp.point) nndvi_xrel nndvi_step_rel nndvi_reset_rel).
  - apply init_psim. exact H.
  - exact Hx.
Qed.

Lemma nndvi_trace_perm ref ref' xs xs' : Permutation ref ref' -> Forall2 nndvi_xrel xs xs' ->
  trace (init NNDVI ref) xs = trace (init NNDVI ref') xs'.
Proof.
  intros H Hx. apply (trace_psim NNDVI (@Permutation Nnsp.point) nndvi_xrel nndvi_step_rel nndvi_reset_rel).
  - apply init_psim. exact H.
  - exact Hx.
Qed.

(** ---------------------------------------------------------------- summary detectors (HDM) *)
Section SumDetPerm.
Variables (R S A O : Type).
Variable summ : list R -> list R -> S.
Variable decide : A -> Z -> S -> O -> A * option dstate.
Variable areset : A -> A.
Hypothesis summ_perm : forall r r' b b', Permutation r r' -> Permutation b b' -> summ r b = summ r' b'.

Notation SD := (SumDet R S A O summ decide areset).

Definition sum_erel (e1 e2 : E SD) : Prop := Permutation (fst e1) (fst e2) /\ snd e1 = snd e2.
Definition sum_xrel (x1 x2 : X SD) : Prop := Permutation (fst x1) (fst x2) /\ snd x1 = snd x2.

Lemma sum_step_rel e1 e2 n x1 x2 : sum_erel e1 e2 -> sum_xrel x1 x2 ->
  snd (step_e SD e1 n x1) = snd (step_e SD e2 n x2)
  /\ sum_erel (fst (step_e SD e1 n x1)) (fst (step_e SD e2 n x2)).
Proof.
  intros [Hr Ha] [Hb Ho]. simpl. unfold sum_step.
  rewrite (summ_perm _ _ _ _ Hr Hb), Ha, Ho.
  destruct (decide (snd e2) n (summ (fst e2) (fst x2)) (snd x2)) as [a' od]. simpl.
  split; [reflexivity|]. split; [|reflexivity]. simpl.
  destruct od as [[| |]|]; try (apply Permutation_app; assumption). exact Hb.
Qed.

Lemma sum_reset_rel e1 e2 : sum_erel e1 e2 -> sum_erel (reset_e SD e1) (reset_e SD e2).
Proof. intros [Hr Ha]. split; simpl; [exact Hr | rewrite Ha; reflexivity]. Qed.

Definition sum_same (a b : st SD) : Prop := psim SD sum_erel a b.

Lemma sum_states_perm ref ref' a0 xs xs' : Permutation ref ref' -> Forall2 sum_xrel xs xs' ->
  Forall2 sum_same (states (init SD (ref, a0)) xs) (states (init SD (ref', a0)) xs').
Proof.
  intros H Hx. apply (states_psim SD sum_erel sum_xrel sum_step_rel sum_reset_rel).
  - apply init_psim. split; [exact H | reflexivity].
  - exact Hx.
Qed.

Lemma sum_trace_perm ref ref' a0 xs xs' : Permutation ref ref' -> Forall2 sum_xrel xs xs' ->
  trace (init SD (ref, a0)) xs = trace (init SD (ref', a0)) xs'.
Proof.
  intros H Hx. apply (trace_psim SD sum_erel sum_xrel sum_step_rel sum_reset_rel).
  - apply init_psim. split; [exact H | reflexivity].
  - exact Hx.
Qed.
End SumDetPerm.

(** ---------------------------------------------------------------- the laws are satisfiable *)
From Coq Require Import Reals Lra.

Lemma PermLawsR : PermLaws NumR.
Proof.
  constructor; simpl.
  - exact OrdLawsR.
  - intros a b. rewrite !Rleb_iff. lra.
  - intros a b. destruct (Req_EM_T a b), (Req_EM_T b a); try reflexivity; congruence.
  - intros a b c. destruct (Req_EM_T a b), (Req_EM_T b c), (Req_EM_T a c); try reflexivity; try discriminate; congruence.
Qed.

(** ---------------------------------------------------------------- reading lock-step runs *)
Lemma Forall2_map_eq {A B} (R : A -> A -> Prop) (f : A -> B) :
  (forall a b, R a b -> f a = f b) -> forall l l', Forall2 R l l' -> map f l = map f l'.
Proof. intros H l l' HF. induction HF; simpl; [reflexivity|]. f_equal; [apply H; assumption | assumption]. Qed.

Lemma Forall2_map_rel {A B} (R : A -> A -> Prop) (Q : B -> B -> Prop) (f : A -> B) :
  (forall a b, R a b -> Q (f a) (f b)) -> forall l l', Forall2 R l l' -> Forall2 Q (map f l) (map f l').
Proof. intros H l l' HF. induction HF; simpl; constructor; [apply H; assumption | assumption]. Qed.
