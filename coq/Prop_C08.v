(** C08 — the kdq-tree partitions space consistently and conserves counts.
    Statements only (proofs: KdqTree_Proofs.v).  Strength of each theorem:
      [structural]  every arithmetic instance [N], no hypothesis — hence also the bit-exact float model;
      [order-law]   under the law [fltb m x = negb (fleb x m)] (no NaN): both sides of a split agree;
      [laws]        under [OrdLaws N] and the midpoint law [MidLaws] : lo <= hi -> lo <= lo + (hi-lo)/2
                    (true of exact arithmetic and of rounding-monotone floating point);
      [exact]       on the rational instance [NumQ08].
    The divergence (scipy.stats.entropy, i.e. log) is a parameter [kl] of the model. *)
From MV Require Import Base Num KdqTree KdqTree_Proofs.
From Coq Require Import QArith Reals.
Local Open Scope Z_scope.

Section C08.
Context {N : Num}.
Local Open Scope num_scope.
Notation F := (F N).
Notation tree := (tree N).
Notation point := (point N).

(** ------------------------------------------------------------------ build *)

(** [structural] Whenever [build] does not run out of fuel its result is the tree specified by the
    relation [built]: empty data gives no node; a node becomes a leaf holding [n] points exactly when
    the (four-clause) stop rule fires; otherwise it splits axis [depth mod m] at [min + (max - min)/2] of the
    points it holds and its children are the trees of the [<= mid] / [> mid] parts. *)
Theorem C08_build_spec : forall trunc cub clb m fuel (data : list point) t,
  build trunc cub clb m fuel data = (t, false) ->
  built m cub (min_sizes trunc clb m data) data 0 t.
Proof. intros trunc cub clb m fuel data t. apply build_sound. Qed.

(** [structural] ... spelled out for an internal node at any depth (the children are [built] again, so
    this applies to every node of the tree): why it was split, on which axis, and where. *)
Theorem C08_node_spec : forall m cub mins (data : list point) depth ax mid c l r,
  built m cub mins data depth (Node ax mid c l r) ->
  (cub < len data)%Z /\ (cub < distinct (concat data))%Z /\
  fleb (cell_size ax data) (nth (Z.to_nat ax) mins f0) = false /\
  fleb (col_max (column ax data)) mid = false /\
  ax = (depth mod m)%Z /\
  mid = col_min (column ax data) + (col_max (column ax data) - col_min (column ax data)) / fofZ 2 /\
  c = [(0%Z, (len (upper ax mid data) + len (lower ax mid data))%Z)] /\
  built m cub mins (lower ax mid data) (depth + 1) l /\
  built m cub mins (upper ax mid data) (depth + 1) r.
Proof.
  intros m cub mins data depth ax mid c l r H.
  destruct (built_split_reason m cub mins data depth _ H ax mid c l r eq_refl) as (A & B & C & C' & D & E & G & I).
  repeat split; auto. inversion H; subst. reflexivity.
Qed.

(** [structural] the split axis cycles with the depth *)
Theorem C08_axis_cycles : forall trunc cub clb m fuel (data : list point) t,
  build trunc cub clb m fuel data = (t, false) ->
  all_nodes (fun depth ax _ _ _ _ => ax = (depth mod m)%Z) 0 t.
Proof. intros. eapply built_axes. eapply build_sound. eassumption. Qed.

(** [order-law] counts of the built tree: every node's count is the sum of its children's counts
    (for every tree id), the root holds all points, the leaf counts add up to the number of points
    built, and no node holding [count_ubound] points or fewer is split. *)
Theorem C08_build_counts :
  (forall a b : F, fltb a b = negb (fleb b a)) ->
  forall trunc cub clb m fuel (data : list point) t,
  m <> 0%Z -> build trunc cub clb m fuel data = (t, false) ->
  (forall id, sum_inv id t) /\
  cnt 0 t = len data /\
  zsum (map odflt (leaf_counts 0 t)) = len data /\
  all_nodes (fun _ _ _ c _ _ => (cub < getd 0 c)%Z) 0 t.
Proof.
  intros ord trunc cub clb m fuel data t Hm H. apply build_sound in H.
  repeat split.
  - eapply built_sum_inv_all; eauto.
  - eapply built_cnt; eauto.
  - rewrite <- leaf_total_leaf_counts. eapply built_leaf_total; eauto.
  - eapply built_no_small_split; eauto.
Qed.

(** [laws] fuel adequacy and completeness: with at least as much fuel as points, [build_node] never
    runs out of fuel, and the tree has no missing child (so its leaves partition the space).  The
    upper part of a split is non-empty by the last clause of the stop rule and the order laws alone;
    the midpoint law is what makes the lower part non-empty. *)
Theorem C08_fuel_adequate :
  forall (OL : OrdLaws N) (ML : @MidLaws N) m cub mins,
  forall fuel (data : list point) depth,
  (len data <= Z.of_nat fuel)%Z ->
  exists t, build_node m cub mins fuel data depth = (t, false) /\
            complete t /\ (data <> [] -> m <> 0%Z -> t <> Nil).
Proof.
  intros OL ML m cub mins fuel data depth Hl.
  pose proof (build_fuel_ok OL ML m cub mins fuel data depth Hl) as Hf.
  destruct (build_node m cub mins fuel data depth) as [t b] eqn:E. simpl in Hf. subst b.
  exists t. split; [reflexivity|].
  apply (built_complete OL ML m cub mins data depth t). eapply build_sound; eauto.
Qed.

(** [order-law] independently of any midpoint law: an internal node of a built tree always has a
    right child (nothing is ever routed to a missing upper part) *)
Theorem C08_upper_nonempty :
  forall (OL : OrdLaws N) m cub mins (data : list point) depth ax mid c l r,
  built m cub mins data depth (Node ax mid c l r) -> upper ax mid data <> [] /\ r <> Nil.
Proof.
  intros OL m cub mins data depth ax mid c l r H. exact (built_right_child OL m cub mins data depth ax mid c l r H).
Qed.

(** ------------------------------------------------------------------ fill *)

(** [structural] fill changes neither the structure of the tree nor any count of another id, and
    leaves a count for its id on every node. *)
Theorem C08_fill_frame : forall (data : list point) (t : tree) id reset,
  skeleton (fill data t id reset) = skeleton t /\
  (forall id', id' <> id -> lookups_of id' (fill data t id reset) = lookups_of id' t) /\
  has_id id (fill data t id reset).
Proof.
  intros. split; [apply fill_skeleton|]. split; [intros; apply fill_frame; assumption | apply fill_has_id].
Qed.

(** [structural] fill accumulates unless reset: with [reset] the counts (all nodes, pre-order; and
    the leaves) are those of the new sample alone, without it they are added to the existing ones
    (an id not yet present counts as 0). *)
Theorem C08_fill_accumulates_unless_reset : forall (data : list point) (t : tree) id,
  counts_of id (fill data t id true) = arrivals data t /\
  counts_of id (fill data t id false) = zadd (counts_of id t) (arrivals data t) /\
  map odflt (leaf_counts id (fill data t id true)) = leaf_arrivals data t /\
  map odflt (leaf_counts id (fill data t id false))
    = zadd (map odflt (leaf_counts id t)) (leaf_arrivals data t).
Proof.
  intros. split; [apply fill_counts_reset|]. split; [apply fill_counts_acc|].
  split; [apply leaf_counts_fill_reset | apply leaf_counts_fill_acc].
Qed.

(** [order-law] fill assigns every point to the unique leaf whose cell contains it: the count of
    leaf [i] is the number of points that [locate] (descent by [<= mid] / [> mid]) sends to leaf [i];
    in a tree without missing children every point has such a leaf. *)
Theorem C08_fill_unique_leaf :
  (forall a b : F, fltb a b = negb (fleb b a)) ->
  forall (t : tree) (data : list point) id,
  (forall i, (i < nleaves t)%nat ->
     nth i (map odflt (leaf_counts id (fill data t id true))) 0%Z = len (filter (at_leaf t i) data)) /\
  (complete t -> t <> Nil -> forall p, exists i, locate p t = Some i /\ (i < nleaves t)%nat).
Proof.
  intros ord t data id. split.
  - intros i Hi. rewrite leaf_counts_fill_reset. apply leaf_arrivals_locate; assumption.
  - intros Hc Hn p. pose proof (locate_total ord p t Hc Hn) as H.
    destruct (locate p t) as [i|] eqn:E; [|congruence]. exists i. split; [reflexivity|].
    eapply locate_lt; eauto.
Qed.

(** [order-law] fill conserves counts in a tree without missing children: the root and the leaves
    gain exactly the number of points filled (or are set to it under reset), and "node = sum of
    children" is preserved. *)
Theorem C08_fill_conserves :
  (forall a b : F, fltb a b = negb (fleb b a)) ->
  forall (t : tree) (data : list point) id reset,
  complete t -> t <> Nil ->
  cnt id (fill data t id reset) = ((if reset then 0 else cnt id t) + len data)%Z /\
  zsum (map odflt (leaf_counts id (fill data t id reset)))
    = ((if reset then 0 else zsum (map odflt (leaf_counts id t))) + len data)%Z /\
  ((reset = true \/ sum_inv id t) -> sum_inv id (fill data t id reset)).
Proof.
  intros ord t data id reset Hc Hn. split; [apply cnt_fill; assumption|]. split.
  - rewrite <- !leaf_total_leaf_counts. apply fill_leaf_total; assumption.
  - apply fill_sum_inv; assumption.
Qed.

(** [structural] filling the build data under another id (fresh, or with reset) reproduces the
    build counts exactly, at every node and at every leaf. *)
Theorem C08_fill_build_agree : forall trunc cub clb m fuel (data : list point) t id reset,
  build trunc cub clb m fuel data = (t, false) -> (reset = true \/ id <> 0%Z) ->
  counts_of id (fill data t id reset) = counts_of 0 t /\
  map odflt (leaf_counts id (fill data t id reset)) = map odflt (leaf_counts 0 t).
Proof. intros. eapply fill_build_agree; eauto. eapply build_sound; eauto. Qed.

(** [order-law] arbitrary histories of fill / reset(0) calls on a tree without missing children:
    the structure never changes; for every id, every node's count stays the sum of its children's
    counts, and root count and leaf total equal the ledger of points filled under that id. *)
Theorem C08_history :
  (forall a b : F, fltb a b = negb (fleb b a)) ->
  forall (t : tree) (ops : list (op N)),
  Forall op_ok ops -> good t ->
  good (run_ops t ops) /\ skeleton (run_ops t ops) = skeleton t /\
  (forall id, zsum (map odflt (leaf_counts id (run_ops t ops)))
              = ledger id (zsum (map odflt (leaf_counts id t))) ops) /\
  (forall id, cnt id (run_ops t ops) = ledger id (cnt id t) ops).
Proof.
  intros ord t ops Hf Hg. destruct (run_ops_good ord ops t Hf Hg) as (A & B & C & D).
  repeat split; try apply A; auto. intros id. rewrite <- !leaf_total_leaf_counts. apply C.
Qed.

(** [laws] the tree [build] returns is a legitimate starting point of such a history *)
Theorem C08_built_good :
  forall (OL : OrdLaws N) (ML : @MidLaws N) trunc cub clb m fuel (data : list point) t,
  data <> [] -> m <> 0%Z ->
  build trunc cub clb m fuel data = (t, false) -> good t.
Proof.
  intros OL ML trunc cub clb m fuel data t Hd Hm H. apply build_sound in H.
  destruct (built_complete OL ML m cub _ data 0 t H) as [Hc Hn].
  repeat split; auto. eapply built_sum_inv_all; eauto. apply (ltb_leb N OL).
Qed.

(** ------------------------------------------------------------------ distributions, divergences *)

(** [structural] kl_distance and the Kulldorff statistic are the oracle divergence applied to the
    corrected distributions: of the leaf counts, resp. of the two cells (node, rest) per row. *)
Theorem C08_divergence_arguments : forall (kl : list F -> list F -> F) (t : tree) id1 id2 c1 c2 rows,
  (all_some (leaf_counts id1 t) = Some c1 -> all_some (leaf_counts id2 t) = Some c2 -> leaves t <> [] ->
   kl_distance kl t id1 id2 = Some (kl (distn c1) (distn c2))) /\
  kss kl rows =
    map (fun r => kl (distn [r_count r; (zmaximum (map (@r_count N) rows) - r_count r)%Z])
                     (distn [row_test r; (zmaximum (map (@row_test N) rows) - row_test r)%Z])) rows.
Proof.
  intros kl t id1 id2 c1 c2 rows. split.
  - intros H1 H2 Hl. unfold kl_distance, kl_args. destruct (leaves t); [congruence|].
    rewrite H1, H2. reflexivity.
  - unfold kss, kss_args. rewrite map_map. reflexivity.
Qed.

(** [structural] equal leaf counts hand identical arguments to the divergence (which then is 0) *)
Theorem C08_equal_counts_equal_arguments : forall (t : tree) id1 id2 a b,
  leaf_counts id1 t = leaf_counts id2 t -> kl_args t id1 id2 = Some (a, b) -> a = b.
Proof. exact kl_args_equal_counts. Qed.

(** ------------------------------------------------------------------ to_plotly_dataframe *)

(** [structural] the flattened array lists every node exactly once, in pre-order: as many rows as
    nodes, row [k] is node [k], with its reference count and its count difference *)
Theorem C08_flatten_once : forall id1 j (t : tree), has_id id1 t ->
  length (flatten id1 (Some j) t) = size t /\
  map (@r_idx N) (flatten id1 (Some j) t) = seq 0 (size t) /\
  map (@r_count N) (flatten id1 (Some j) t) = counts_of id1 t /\
  map (@r_diff N) (flatten id1 (Some j) t) = map Some (zsub (counts_of j t) (counts_of id1 t)).
Proof.
  intros id1 j t H. unfold flatten. split; [apply flatten_go_length; exact H|].
  split; [apply flatten_go_idx; exact H|]. split; [apply flatten_go_counts; exact H | apply flatten_go_diff; exact H].
Qed.

(** [structural] ... with its parent and depth: row [k] describes the node at pre-order position [k];
    the root row has no parent and depth 0; any other row names as parent an earlier row [j] that is
    an internal node having node [k] as its left ([k = j+1]) or right ([k = j+1+size left]) child,
    one level deeper, and records that node's split (axis, midpoint, side). *)
Theorem C08_flatten_parent_depth : forall id1 id2 (t : tree), has_id id1 t ->
  forall k, (k < size t)%nat ->
  let rows := flatten id1 id2 t in
  let row := nth k rows row0 in
  r_idx row = k /\
  (exists s, subtree_at t k = Some s /\ lookup id1 (node_counts s) = Some (r_count row)) /\
  (k = O -> r_parent row = None /\ r_depth row = O /\ r_name row = None) /\
  ((0 < k)%nat -> exists j ax mid c l r, (j < k)%nat /\ subtree_at t j = Some (Node ax mid c l r) /\
        r_parent row = Some j /\ r_depth row = S (r_depth (nth j rows row0)) /\
        ((k = S j /\ l <> Nil /\ r_name row = Some (ax, mid, true)) \/
         (k = (S j + size l)%nat /\ r <> Nil /\ r_name row = Some (ax, mid, false)))).
Proof.
  intros id1 id2 t H k Hk. exact (flatten_go_spec id1 id2 t H 0%nat None 0%nat None k Hk).
Qed.

(** [structural] the premise [has_id] holds for "build" on a built tree and for any id once filled,
    and is kept by later operations *)
Theorem C08_flatten_applicable : forall trunc cub clb m fuel (data d' : list point) t id r ops,
  build trunc cub clb m fuel data = (t, false) ->
  has_id 0 (run_ops t ops) /\ has_id id (run_ops (fill d' (run_ops t ops) id r) ops).
Proof.
  intros. split.
  - apply run_ops_has_id. eapply built_has_id. eapply build_sound. eauto.
  - apply run_ops_has_id. apply fill_has_id.
Qed.

End C08.

(** [exact] the corrected distribution (c + 1/2) / (total + n/2) is positive and sums to one *)
Theorem C08_distn_sums_to_one : forall cs : list Z,
  cs <> [] -> (forall c, In c cs -> (0 <= c)%Z) ->
  (qsum (@distn NumQ08 cs) == 1)%Q /\ (forall x, In x (@distn NumQ08 cs) -> (0 < x)%Q).
Proof. intros cs H1 H2. split; [apply distn_sums_to_one_Q; assumption | apply distn_pos_Q; assumption]. Qed.

(** [exact, reals] Gibbs' inequality for the corrected distributions: their Kullback-Leibler
    divergence  sum p_i ln (p_i / q_i)  is non-negative, and 0 for equal counts.  (The floating-point
    value scipy returns is validated against a 60-digit evaluation of this expression by the harness.) *)
Theorem C08_kl_nonneg : forall c1 c2 : list Z,
  c1 <> [] -> length c1 = length c2 ->
  (forall c, In c c1 -> (0 <= c)%Z) -> (forall c, In c c2 -> (0 <= c)%Z) ->
  (0 <= kl_R (@distn NumR08 c1) (@distn NumR08 c2))%R /\
  kl_R (@distn NumR08 c1) (@distn NumR08 c1) = 0%R.
Proof. exact kl_distn_nonneg. Qed.

(** the hypotheses of the [order-law] / [laws] theorems are satisfiable: rationals satisfy them *)
Example C08_laws_satisfiable : OrdLaws NumQ08 /\ @MidLaws NumQ08.
Proof. exact (conj NumQ08_ord NumQ08_mid). Qed.

(** ... and a concrete run over the rationals: 5 points on a line, count_ubound 1 *)
Example C08_example_run :
  let data : list (point NumQ08) := [[0%Q]; [4%Q]; [2%Q]; [1%Q]; [3%Q]] in
  let '(t, oof) := @build NumQ08 (fun x => x) 1 0%Q 1 5 data in
  oof = false /\ map odflt (leaf_counts 0 t) = [1; 1; 1; 1; 1] /\ size t = 9%nat
  /\ map odflt (leaf_counts 1 (fill data t 1 false)) = [1; 1; 1; 1; 1].
Proof. vm_compute. repeat split. Qed.

Print Assumptions C08_build_spec.
Print Assumptions C08_node_spec.
Print Assumptions C08_axis_cycles.
Print Assumptions C08_build_counts.
Print Assumptions C08_fuel_adequate.
Print Assumptions C08_upper_nonempty.
Print Assumptions C08_fill_frame.
Print Assumptions C08_fill_accumulates_unless_reset.
Print Assumptions C08_fill_unique_leaf.
Print Assumptions C08_fill_conserves.
Print Assumptions C08_fill_build_agree.
Print Assumptions C08_history.
Print Assumptions C08_built_good.
Print Assumptions C08_divergence_arguments.
Print Assumptions C08_equal_counts_equal_arguments.
Print Assumptions C08_flatten_once.
Print Assumptions C08_flatten_parent_depth.
Print Assumptions C08_flatten_applicable.
Print Assumptions C08_distn_sums_to_one.
Print Assumptions C08_kl_nonneg.
