(** C06 — Linear Four Rates tracks the four rates and tests them against simulated bounds.
    Statements only; proofs in Lfr_Proofs.v / Lifecycle_Proofs.v.  Valid for every arithmetic instance
    and for every answer of the two oracles (Monte-Carlo bounds, rounded cache key): PARTIAL in that
    the bounds themselves are not derived in Coq (validated statistically by the harness). *)
From MV Require Import Base Num Lifecycle Lifecycle_Proofs Lfr Lfr_Proofs.
Local Open Scope num_scope.

Section C06.
Context {N : Num}.

(** the rates are those of the confusion matrix of the current epoch, initialised with one
    pseudo-count per cell: every cell is 1 + the number of (y_true, y_pred) pairs of its kind *)
Theorem C06_confusion_counts : forall ys : list (bool * bool),
  let c := feed_conf conf0 ys in
  c_tp c = (1 + cnt (fun y => fst y && snd y) ys)%Z /\
  c_tn c = (1 + cnt (fun y => negb (fst y) && negb (snd y)) ys)%Z /\
  c_fp c = (1 + cnt (fun y => negb (fst y) && snd y) ys)%Z /\
  c_fn c = (1 + cnt (fun y => fst y && negb (snd y)) ys)%Z.
Proof. intros ys. exact (feed_conf_counts ys conf0). Qed.

Theorem C06_rates_definition : forall (c : conf),
  @rate_of N c TPR = fofZ (c_tp c) / fofZ (c_tp c + c_fn c)%Z /\
  @rate_of N c TNR = fofZ (c_tn c) / fofZ (c_tn c + c_fp c)%Z /\
  @rate_of N c PPV = fofZ (c_tp c) / fofZ (c_fp c + c_tp c)%Z /\
  @rate_of N c NPV = fofZ (c_tn c) / fofZ (c_tn c + c_fn c)%Z.
Proof. intros c. repeat split. Qed.

Theorem C06_step_updates_confusion : forall (p : @lfr_params N) e n yt yp orc,
  l_conf (fst (lfr_step p e n (yt, yp, orc))) = conf_add (l_conf e) yt yp.
Proof. exact lfr_step_conf. Qed.

(** a state is assigned by every update; before burn_in and off the subsample grid it is None and
    no bounds are simulated *)
Theorem C06_gate : forall (p : @lfr_params N) e n x,
  (exists d, snd (lfr_step p e n x) = Some d) /\
  (lfr_gated p n = false ->
     snd (lfr_step p e n x) = Some DNone /\ l_cache (fst (lfr_step p e n x)) = l_cache e).
Proof. intros p e n x. exact (conj (lfr_step_decides p e n x) (lfr_step_ungated p e n x)). Qed.

(** drift is reported only past burn-in, on the subsample grid, and because a *tracked* rate's
    statistic - the exponentially weighted average updated only when that rate changed - lies
    outside the detect bounds it was compared with *)
Theorem C06_drift_needs_tracked_rate_outside_bounds : forall (p : @lfr_params N) e n yt yp orc,
  snd (lfr_step p e n (yt, yp, orc)) = Some DDrift ->
  (l_burn_in p < n)%Z /\ (n mod l_subsample p = 0)%Z /\
  exists rt b r0, In rt (l_tracked p) /\
    outside (new_stat p (Bool.eqb yt yp) (l_conf e) (conf_add (l_conf e) yt yp) r0 rt) (lb_detect b) (ub_detect b) = true.
Proof. exact lfr_drift_needs. Qed.

(** rates that are not tracked never influence anything: their statistic never moves, and with
    nothing tracked the state is always None *)
Theorem C06_untracked_silent : forall (p : @lfr_params N) e n x,
  (forall rt, (forall y, In y (l_tracked p) -> rate_eqb y rt = false) ->
     rget (l_r (fst (lfr_step p e n x))) rt = rget (l_r e) rt) /\
  (l_tracked p = [] -> snd (lfr_step p e n x) = Some DNone).
Proof.
  intros p e n x. split; [intros rt H; exact (lfr_step_untracked p e n x rt H) | exact (lfr_nothing_tracked p e n x)].
Qed.

(** retraining_recs mark the first warning of the epoch and the drift index *)
Theorem C06_recs : forall (p : @lfr_params N) xs,
  let s := run (init (LFR p) lfr_e0) xs in
  ds s = DDrift -> exists a, recs s = (Some a, Some (total s - 1)%Z) /\ (a <= total s - 1)%Z.
Proof. intros p xs. exact (recs_on_drift_fw (LFR p) lfr_e0 xs eq_refl). Qed.

(** the bounds cache is the only thing that survives a drift *)
Theorem C06_reset_keeps_only_cache : forall (e : @lfr_e N),
  l_conf (lfr_reset e) = conf0 /\ l_r (lfr_reset e) = rstats0 /\ l_cache (lfr_reset e) = l_cache e.
Proof. intros e. repeat split. Qed.

(** a key simulated once is reused: the first answer wins, within and across epochs (the equality
    used for keys must respect itself - true of the reals and of IEEE ==, which never holds for NaN) *)
Theorem C06_cache_first_answer_wins :
  (forall a b : F N, feqb a b = true -> forall c, feqb a c = feqb b c) ->
  forall (p : @lfr_params N) k d b e n x,
  cache_find k d (l_cache e) = Some b ->
  cache_find k d (l_cache (fst (lfr_step p e n x))) = Some b /\
  cache_find k d (l_cache (lfr_reset e)) = Some b.
Proof. intros H. exact (lfr_cache_first_answer_wins H). Qed.

End C06.

(** ... and for the IEEE-754 instance the hypothesis is a theorem (FloatLaws.v, from the specification of
    Coq's primitive floats), so the cache statement holds unconditionally for the bit-exact model *)
From MV Require Import NumFloat FloatLaws.
Theorem C06_cache_first_answer_wins_float : forall (p : @lfr_params NumFloat) k d b e n x,
  cache_find k d (l_cache e) = Some b ->
  cache_find k d (l_cache (fst (lfr_step p e n x))) = Some b /\
  cache_find k d (l_cache (lfr_reset e)) = Some b.
Proof. exact (C06_cache_first_answer_wins NumFloat_feqb_cong). Qed.

Print Assumptions C06_confusion_counts.
Print Assumptions C06_rates_definition.
Print Assumptions C06_step_updates_confusion.
Print Assumptions C06_gate.
Print Assumptions C06_drift_needs_tracked_rate_outside_bounds.
Print Assumptions C06_untracked_silent.
Print Assumptions C06_recs.
Print Assumptions C06_reset_keeps_only_cache.
Print Assumptions C06_cache_first_answer_wins.
Print Assumptions C06_cache_first_answer_wins_float.
