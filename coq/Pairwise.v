(** numpy's pairwise summation (numpy/core/src/umath/loops_utils.h.src, pairwise_sum) and the
    np.mean / np.std built on it, for contiguous 1-D data. *)
From MV Require Import Base Num.

Section Pairwise.
Context {N : Num}.
Local Open Scope num_scope.
Notation F := (F N).

Definition sum_seq (init : F) (l : list F) : F := fold_left fadd l init.

(** add the chunks of 8 of [l] into the eight accumulators [r] while at least 8 remain;
    returns the accumulators and the unprocessed tail (fewer than 8 elements) *)
Fixpoint block_loop (fuel : nat) (r : list F) (l : list F) : list F * list F :=
  match fuel with
  | O => (r, l)
  | S fuel' =>
      if (Nat.leb 8 (length l))
      then block_loop fuel' (map (fun p => fst p + snd p) (combine r (firstn 8 l))) (skipn 8 l)
      else (r, l)
  end.

Definition block8 (l : list F) : F :=
  let '(r, tl) := block_loop (length l) (firstn 8 l) (skipn 8 l) in
  match r with
  | [r0; r1; r2; r3; r4; r5; r6; r7] =>
      sum_seq (((r0 + r1) + (r2 + r3)) + ((r4 + r5) + (r6 + r7))) tl
  | _ => f0
  end.

Fixpoint pw_sum (fuel : nat) (l : list F) : F :=
  let n := length l in
  if Nat.ltb n 8 then sum_seq f0 l
  else if Nat.leb n 128 then block8 l
  else match fuel with
       | O => f0
       | S fuel' =>
           let h := Nat.div n 2 in
           let n2 := (h - Nat.modulo h 8)%nat in
           pw_sum fuel' (firstn n2 l) + pw_sum fuel' (skipn n2 l)
       end.

Definition np_sum (l : list F) : F := pw_sum (length l) l.
Definition np_mean (l : list F) : F := np_sum l / fofZ (Z.of_nat (length l)).
(** np.std: sqrt(mean(|x - mean|^2)), the square taken by multiplication *)
Definition np_std (l : list F) : F :=
  let m := np_mean l in
  let d := map (fun x => let y := x - m in y * y) l in
  fsqrt (np_sum d / fofZ (Z.of_nat (length l))).

End Pairwise.
