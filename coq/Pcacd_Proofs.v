(** Lemmas about the PCA-CD model (Pcacd.v).  Sections:
    1. one-step facts (every arithmetic instance, no hypothesis on the state),
    2. invariants of the reachable states and the theorems that need them,
    3. histograms (structural facts: edges depend on the support only, permutation invariance),
    4. exact arithmetic (the reals): intersection divergence of normalised histograms. *)
From MV Require Import Base Num Lifecycle Lifecycle_Proofs Pairwise ChangeDet ChangeDet_Proofs Pcacd.
From Coq Require Import Permutation.

Section Steps.
Context {N : Num}.
Variable p : @pc_params N.
Notation st11 := (pc_st p).
Notation upd := (pc_update p).
Notation w := (pc_w p).
Implicit Types s : st11.
Implicit Types x : @pc_input N.

(** ------------------------------- list facts ------------------------------- *)
Lemma lenZ_nonneg {A} (l : list A) : 0 <= lenZ l.
Proof. unfold lenZ. lia. Qed.
Lemma lenZ_app {A} (l1 l2 : list A) : lenZ (l1 ++ l2) = lenZ l1 + lenZ l2.
Proof. unfold lenZ. rewrite app_length. lia. Qed.
Lemma lenZ_nil {A} : lenZ (@nil A) = 0.
Proof. reflexivity. Qed.
Lemma lenZ_one {A} (a : A) : lenZ [a] = 1.
Proof. reflexivity. Qed.
Lemma lenZ_zero_nil {A} (l : list A) : lenZ l = 0 -> l = [].
Proof. destruct l; [reflexivity|]. unfold lenZ. simpl. lia. Qed.
Lemma lenZ_tl_snoc {A} (l : list A) (a : A) : 1 <= lenZ l -> lenZ (tl l ++ [a]) = lenZ l.
Proof. destruct l; unfold lenZ; simpl; [lia|]. rewrite app_length. simpl. lia. Qed.

Lemma upto_length n : length (upto n) = Z.to_nat n.
Proof. unfold upto. rewrite map_length, seq_length. reflexivity. Qed.

Lemma upto_succ n : 0 <= n -> upto (n + 1) = upto n ++ [n].
Proof.
  intros H. unfold upto. replace (Z.to_nat (n + 1)) with (S (Z.to_nat n)) by lia.
  rewrite seq_S, map_app. simpl. rewrite Z2Nat.id by lia. reflexivity.
Qed.

Lemma rangeZ_nil a n : n <= 0 -> rangeZ a n = [].
Proof. intros H. unfold rangeZ, upto. replace (Z.to_nat n) with O by lia. reflexivity. Qed.

Lemma rangeZ_length a n : 0 <= n -> lenZ (rangeZ a n) = n.
Proof. intros H. unfold rangeZ, lenZ. rewrite map_length, upto_length. lia. Qed.

Lemma rangeZ_snoc a n : 0 <= n -> rangeZ a (n + 1) = rangeZ a n ++ [a + n].
Proof. intros H. unfold rangeZ. rewrite upto_succ by exact H. rewrite map_app. reflexivity. Qed.

Lemma rangeZ_cons a n : 0 <= n -> rangeZ a (n + 1) = a :: rangeZ (a + 1) n.
Proof.
  intros H. unfold rangeZ, upto. replace (Z.to_nat (n + 1)) with (S (Z.to_nat n)) by lia.
  simpl. f_equal; [lia|]. rewrite <- seq_shift, !map_map. apply map_ext. intros k. lia.
Qed.

Lemma rangeZ_slide a n : 1 <= n -> tl (rangeZ a n) ++ [a + n] = rangeZ (a + 1) n.
Proof.
  intros H. replace n with ((n - 1) + 1) at 1 by lia. rewrite rangeZ_cons by lia. simpl.
  replace (a + n) with ((a + 1) + (n - 1)) by lia. rewrite <- rangeZ_snoc by lia. f_equal. lia.
Qed.

Lemma rangeZ_In a n j : In j (rangeZ a n) -> a <= j < a + n.
Proof.
  unfold rangeZ, upto. rewrite map_map. intros H. apply in_map_iff in H as (k & <- & Hk).
  apply in_seq in Hk. lia.
Qed.

(** ------------------------------- the three phases, field by field ------------------------------- *)
Ltac split_ifs :=
  repeat match goal with
  | |- context [if ?c then _ else _] => destruct c eqn:?
  end.

Lemma fill_total b s : m_total p (fill_phase p b s) = m_total p s + 1.
Proof. unfold fill_phase. split_ifs; reflexivity. Qed.

Lemma fill_building b s : m_building p (fill_phase p b s) = true.
Proof. unfold fill_phase. split_ifs; reflexivity. Qed.

Lemma fill_frame b s :
  let s' := fill_phase p b s in
  m_npcs p s' = m_npcs p s /\ m_rproj p s' = m_rproj p s /\ m_tproj p s' = m_tproj p s /\
  m_lower p s' = m_lower p s /\ m_upper p s' = m_upper p s /\ m_dref p s' = m_dref p s /\
  m_dtest p s' = m_dtest p s /\ m_scores p s' = m_scores p s /\ m_comp p s' = m_comp p s.
Proof. unfold fill_phase. split_ifs; simpl; repeat split. Qed.

(** after a reported drift: the former test window becomes the reference, everything restarts *)
Lemma fill_after_drift b s : m_ds p s <> DNone ->
  let s' := fill_phase p b s in
  m_ref p s' = m_test p s /\ m_test p s' = [] /\ m_since p s' = 0 /\ m_ds p s' = DNone /\
  m_mon p s' = do_reset (m_mon p s) /\
  m_calls p s' = (if b then [(C_INV, lenZ (m_test p s))] else []).
Proof.
  intros H. unfold fill_phase. destruct (m_ds p s); [congruence| |]; simpl; repeat split.
Qed.

Lemma fill_no_drift b s : m_ds p s = DNone ->
  let s' := fill_phase p b s in
  m_since p s' = m_since p s + 1 /\ m_ds p s' = DNone /\ m_mon p s' = m_mon p s /\ m_calls p s' = [] /\
  (lenZ (m_ref p s) < w -> m_ref p s' = m_ref p s ++ [m_total p s] /\ m_test p s' = m_test p s) /\
  (w <= lenZ (m_ref p s) -> lenZ (m_test p s) < w ->
     m_ref p s' = m_ref p s /\ m_test p s' = m_test p s ++ [m_total p s]) /\
  (w <= lenZ (m_ref p s) -> w <= lenZ (m_test p s) -> m_ref p s' = m_ref p s /\ m_test p s' = m_test p s).
Proof.
  intros H. unfold fill_phase. rewrite H. simpl.
  destruct (Z.ltb_spec (lenZ (m_ref p s)) w); [|destruct (Z.ltb_spec (lenZ (m_test p s)) w)];
    simpl; repeat split; try reflexivity; try lia; try assumption.
Qed.

Lemma build_frame b s x :
  let s' := build_phase p b s x in
  m_total p s' = m_total p s /\ m_since p s' = m_since p s /\ m_ds p s' = m_ds p s /\
  m_ref p s' = m_ref p s /\ m_test p s' = m_test p s /\ m_mon p s' = m_mon p s /\
  m_scores p s' = m_scores p s /\ m_comp p s' = m_comp p s /\ m_dtest p s' = m_dtest p s.
Proof. unfold build_phase. split_ifs; simpl; repeat split. Qed.

Lemma build_building b s x :
  m_building p (build_phase p b s x) = if lenZ (m_test p s) =? w then false else m_building p s.
Proof. unfold build_phase. split_ifs; reflexivity. Qed.

Lemma build_noop b s x : lenZ (m_test p s) <> w -> build_phase p b s x = s.
Proof. intros H. unfold build_phase. destruct (Z.eqb_spec (lenZ (m_test p s)) w); [contradiction | reflexivity]. Qed.

(** what the completed build installs *)
Lemma build_installs b s x : lenZ (m_test p s) = w ->
  let s' := build_phase p b s x in
  m_building p s' = false /\ m_npcs p s' = Some (i_npcs x) /\ m_rproj p s' = i_rproj x /\ m_tproj p s' = i_tproj x /\
  (pc_inter p = true ->
     m_lower p s' = supports_lower (i_npcs x) (i_rproj x) (i_tproj x) /\
     m_upper p s' = supports_upper (i_npcs x) (i_rproj x) (i_tproj x) /\
     m_dref p s' = hists p (i_npcs x) (i_rproj x) (m_lower p s') (m_upper p s')) /\
  (pc_inter p = false -> m_lower p s' = m_lower p s /\ m_upper p s' = m_upper p s /\ m_dref p s' = m_dref p s).
Proof.
  intros H. unfold build_phase. rewrite H, Z.eqb_refl. simpl.
  destruct (pc_inter p); repeat split; intros; try discriminate; repeat split.
Qed.

Definition next_of s x : list (F N) := winsorize p s (i_next x).
Definition tproj_of s x : list (list (F N)) := tl (m_tproj p s) ++ [next_of s x].
(** the score handed to the monitor at a scheduled sample: the maximum over the components *)
Definition score_of s x : F N := list_max (fst (comp_scores p s (tproj_of s x) x)).
Definition mon_of s x := update (m_mon p s) (score_of s x).

Lemma monitor_unscheduled b s x : scheduled p (m_total p s + 1) = false ->
  monitor_phase p b s x =
  mk_pc p (m_total p s + 1) (m_since p s + 1) (m_ds p s) false (m_ref p s) (tl (m_test p s) ++ [m_total p s])
        (m_npcs p s) (m_rproj p s) (tproj_of s x) (m_lower p s) (m_upper p s) (m_dref p s) (m_dtest p s)
        (m_mon p s) (m_scores p s) (m_comp p s) ((if b then [(C_SCALE, 1)] else []) ++ [(C_PCA_TR, 1)]).
Proof. intros H. unfold monitor_phase. rewrite H. reflexivity. Qed.

Lemma monitor_scheduled b s x : scheduled p (m_total p s + 1) = true ->
  let alarm := negb (is_none (ds (mon_of s x))) in
  monitor_phase p b s x =
  mk_pc p (m_total p s + 1) (m_since p s + 1) (if alarm then DDrift else m_ds p s) alarm (m_ref p s)
        (tl (m_test p s) ++ [m_total p s]) (m_npcs p s) (m_rproj p s) (tproj_of s x) (m_lower p s) (m_upper p s)
        (m_dref p s) (snd (comp_scores p s (tproj_of s x) x)) (mon_of s x) (score_of s x :: m_scores p s)
        (fst (comp_scores p s (tproj_of s x) x))
        (((if b then [(C_SCALE, 1)] else []) ++ [(C_PCA_TR, 1)]) ++
         (if pc_inter p then []
          else map (fun _ => (C_KDE, w)) (pcs_of (npcs_of p s)) ++ map (fun _ => (C_JS, w)) (pcs_of (npcs_of p s)))).
Proof.
  intros H. unfold monitor_phase. rewrite H. unfold mon_of, score_of, tproj_of, next_of.
  destruct (comp_scores p s _ x) as [comp dtest]. reflexivity.
Qed.

(** ------------------------------- counters (no hypothesis on the state) ------------------------------- *)
Lemma upd_total b s x : m_total p (upd b s x) = m_total p s + 1.
Proof.
  unfold pc_update. destruct (m_building p s).
  - destruct (build_frame b (fill_phase p b s) x) as (-> & _). apply fill_total.
  - destruct (scheduled p (m_total p s + 1)) eqn:E.
    + rewrite monitor_scheduled by exact E. reflexivity.
    + rewrite monitor_unscheduled by exact E. reflexivity.
Qed.

Lemma upd_since b s x :
  m_since p (upd b s x) = if m_building p s && negb (is_none (m_ds p s)) then 0 else m_since p s + 1.
Proof.
  unfold pc_update. destruct (m_building p s); simpl.
  - destruct (build_frame b (fill_phase p b s) x) as (_ & -> & _).
    destruct (m_ds p s) eqn:E; simpl.
    + apply (fill_no_drift b s E).
    + apply (fill_after_drift b s). congruence.
    + apply (fill_after_drift b s). congruence.
  - destruct (scheduled p (m_total p s + 1)) eqn:E.
    + rewrite monitor_scheduled by exact E. reflexivity.
    + rewrite monitor_unscheduled by exact E. reflexivity.
Qed.

Lemma run_total b : forall xs s, m_total p (pc_run p b s xs) = m_total p s + Z.of_nat (length xs).
Proof.
  induction xs as [|x xs IH]; intros s; simpl; [lia|].
  unfold pc_run in *. simpl. rewrite IH, upd_total. lia.
Qed.

(** ------------------------------- schedule ------------------------------- *)
Definition scores_now s : bool := negb (m_building p s) && scheduled p (m_total p s + 1).

Lemma upd_scores b s x :
  m_scores p (upd b s x) = if scores_now s then score_of s x :: m_scores p s else m_scores p s.
Proof.
  unfold pc_update, scores_now. destruct (m_building p s); simpl.
  - destruct (build_frame b (fill_phase p b s) x) as (_ & _ & _ & _ & _ & _ & -> & _).
    apply (fill_frame b s).
  - destruct (scheduled p (m_total p s + 1)) eqn:E.
    + rewrite monitor_scheduled by exact E. reflexivity.
    + rewrite monitor_unscheduled by exact E. reflexivity.
Qed.

(** the embedded monitor receives exactly the scheduled scores; it is reset on the update after a drift *)
Lemma upd_mon b s x :
  m_mon p (upd b s x) =
  if m_building p s then (if is_none (m_ds p s) then m_mon p s else do_reset (m_mon p s))
  else if scheduled p (m_total p s + 1) then update (m_mon p s) (score_of s x) else m_mon p s.
Proof.
  unfold pc_update. destruct (m_building p s); simpl.
  - destruct (build_frame b (fill_phase p b s) x) as (_ & _ & _ & _ & _ & -> & _).
    destruct (m_ds p s) eqn:E; simpl.
    + apply (fill_no_drift b s E).
    + apply (fill_after_drift b s). congruence.
    + apply (fill_after_drift b s). congruence.
  - destruct (scheduled p (m_total p s + 1)) eqn:E.
    + rewrite monitor_scheduled by exact E. reflexivity.
    + rewrite monitor_unscheduled by exact E. reflexivity.
Qed.

(** ------------------------------- decision ------------------------------- *)
Lemma upd_ds_building b s x : m_building p s = true ->
  m_ds p (upd b s x) = if is_none (m_ds p s) then m_ds p s else DNone.
Proof.
  intros H. unfold pc_update. rewrite H.
  destruct (build_frame b (fill_phase p b s) x) as (_ & _ & -> & _).
  destruct (m_ds p s) eqn:E; simpl.
  - apply (fill_no_drift b s E).
  - apply (fill_after_drift b s). congruence.
  - apply (fill_after_drift b s). congruence.
Qed.

Lemma upd_ds_monitoring b s x : m_building p s = false ->
  m_ds p (upd b s x) =
  if scheduled p (m_total p s + 1) && negb (is_none (ds (mon_of s x))) then DDrift else m_ds p s.
Proof.
  intros H. unfold pc_update. rewrite H.
  destruct (scheduled p (m_total p s + 1)) eqn:E; simpl.
  - rewrite monitor_scheduled by exact E. reflexivity.
  - rewrite monitor_unscheduled by exact E. reflexivity.
Qed.

Lemma upd_building_monitoring b s x : m_building p s = false ->
  m_building p (upd b s x) = scheduled p (m_total p s + 1) && negb (is_none (ds (mon_of s x))).
Proof.
  intros H. unfold pc_update. rewrite H.
  destruct (scheduled p (m_total p s + 1)) eqn:E; simpl.
  - rewrite monitor_scheduled by exact E. reflexivity.
  - rewrite monitor_unscheduled by exact E. reflexivity.
Qed.

(** windows in the monitoring phase: the reference stays, the test window slides by one *)
Lemma upd_windows_monitoring b s x : m_building p s = false ->
  m_ref p (upd b s x) = m_ref p s /\ m_test p (upd b s x) = tl (m_test p s) ++ [m_total p s].
Proof.
  intros H. unfold pc_update. rewrite H.
  destruct (scheduled p (m_total p s + 1)) eqn:E; simpl.
  - rewrite monitor_scheduled by exact E. split; reflexivity.
  - rewrite monitor_unscheduled by exact E. split; reflexivity.
Qed.

(** the update after a drift: reference := former test window, the sample itself is discarded *)
Lemma upd_after_drift b s x : m_building p s = true -> m_ds p s <> DNone -> m_test p s <> [] \/ 1 <= w ->
  let s' := upd b s x in
  m_ref p s' = m_test p s /\ m_test p s' = [] /\ m_since p s' = 0 /\ m_ds p s' = DNone /\
  m_mon p s' = do_reset (m_mon p s) /\ m_total p s' = m_total p s + 1.
Proof.
  intros Hb Hd _. cbv zeta. unfold pc_update. rewrite Hb.
  destruct (build_frame b (fill_phase p b s) x) as (-> & -> & -> & -> & -> & -> & _).
  destruct (fill_after_drift b s Hd) as (-> & -> & -> & -> & -> & _). rewrite fill_total. repeat split.
Qed.

End Steps.

(** =============================== 2. reachable states =============================== *)
Section Reach.
Context {N : Num}.
Variable p : @pc_params N.
Notation st11 := (pc_st p).
Notation upd := (pc_update p).
Notation w := (pc_w p).
Implicit Types s : st11.
Implicit Types x : @pc_input N.
Hypothesis Hw : 1 <= w.

(** phase invariant *)
Record Inv s : Prop := {
  inv_nowarn : m_ds p s <> DWarn;
  inv_drift : m_ds p s = DDrift -> m_building p s = true /\ lenZ (m_ref p s) = w /\ lenZ (m_test p s) = w;
  inv_monitoring : m_building p s = false -> m_ds p s = DNone /\ lenZ (m_ref p s) = w /\ lenZ (m_test p s) = w;
  inv_filling : m_building p s = true -> m_ds p s = DNone ->
                lenZ (m_test p s) < w /\ lenZ (m_ref p s) <= w /\ (lenZ (m_ref p s) < w -> m_test p s = []);
  inv_mon_ds : m_ds p s = DNone -> ds (m_mon p s) = DNone;
  inv_mon_since : 0 <= since (m_mon p s)
}.

Lemma Inv_init : Inv (pc_init p).
Proof.
  constructor; simpl; try congruence; try lia.
  intros _ _. unfold lenZ; simpl. repeat split; lia.
Qed.

Lemma mon_update_since (m : st (PH (ph_of p))) v : 0 <= since m -> 0 <= since (update m v).
Proof. intros H. rewrite update_since. destruct (is_drift (ds m)); lia. Qed.

Lemma Inv_step b s x : Inv s -> Inv (upd b s x).
Proof.
  intros I. destruct (m_building p s) eqn:Hb.
  - (* building *)
    destruct (m_ds p s) eqn:Hd.
    + (* filling *)
      destruct (inv_filling s I Hb Hd) as (Ht & Hr & Hrt).
      unfold pc_update. rewrite Hb.
      destruct (fill_no_drift p b s Hd) as (Hs' & Hd' & Hm' & _ & F1 & F2 & _).
      pose proof (fill_building p b s) as Hb'.
      set (s1 := fill_phase p b s) in *.
      assert (Hwin : (lenZ (m_ref p s1) <= w /\ lenZ (m_test p s1) <= w /\ lenZ (m_ref p s) <= lenZ (m_ref p s1)
                      /\ (lenZ (m_ref p s1) < w -> m_test p s1 = [])
                      /\ (lenZ (m_test p s1) = w -> lenZ (m_ref p s1) = w))).
      { destruct (Z.lt_ge_cases (lenZ (m_ref p s)) w) as [L|G].
        - destruct (F1 L) as [-> ->]. rewrite lenZ_app, lenZ_one. rewrite (Hrt L). rewrite lenZ_nil.
          repeat split; try lia; try (intros; reflexivity).
        - destruct (F2 G Ht) as [-> ->]. rewrite lenZ_app, lenZ_one. repeat split; try lia. }
      destruct Hwin as (W1 & W2 & W3 & W4 & W5).
      destruct (build_frame p b s1 x) as (_ & _ & Bd & Br & Bt & Bm & _).
      pose proof (build_building p b s1 x) as Bb.
      set (s2 := build_phase p b s1 x) in *.
      constructor; rewrite ?Bd, ?Br, ?Bt, ?Bm, ?Hd', ?Hm'; try congruence.
      * rewrite Bb. destruct (Z.eqb_spec (lenZ (m_test p s1)) w) as [E|E]; [|congruence].
        intros _. repeat split; auto.
      * intros Hb2 _. rewrite Bb in Hb2. destruct (Z.eqb_spec (lenZ (m_test p s1)) w) as [E|E]; [discriminate|].
        repeat split; try lia. exact W4.
      * intros _. apply (inv_mon_ds s I Hd).
      * apply (inv_mon_since s I).
    + exfalso. exact (inv_nowarn s I Hd).
    + (* the update after a drift *)
      destruct (inv_drift s I Hd) as (_ & Lr & Lt).
      assert (Hne : m_ds p s <> DNone) by congruence.
      destruct (upd_after_drift p b s x Hb Hne (or_intror Hw)) as (Hr & Ht & _ & Hd' & Hm & _).
      assert (Hb' : m_building p (upd b s x) = true).
      { unfold pc_update. rewrite Hb. rewrite build_noop; [apply fill_building|].
        destruct (fill_after_drift p b s Hne) as (_ & -> & _). rewrite lenZ_nil. lia. }
      constructor; rewrite ?Hd', ?Hr, ?Ht, ?Hm; try congruence.
      * intros _ _. rewrite lenZ_nil. repeat split; try lia; try (intros; reflexivity).
      * intros _. reflexivity.
      * simpl. lia.
  - (* monitoring *)
    destruct (inv_monitoring s I Hb) as (Hd & Lr & Lt).
    destruct (upd_windows_monitoring p b s x Hb) as (Hr & Ht).
    pose proof (upd_ds_monitoring p b s x Hb) as Hd'.
    pose proof (upd_building_monitoring p b s x Hb) as Hb'.
    pose proof (upd_mon p b s x) as Hm. rewrite Hb in Hm.
    assert (Lt' : lenZ (m_test p (upd b s x)) = w) by (rewrite Ht, lenZ_tl_snoc; lia).
    destruct (scheduled p (m_total p s + 1)) eqn:Es.
    + rewrite andb_true_l in Hd', Hb'.
      destruct (ds (mon_of p s x)) eqn:Em; cbn [negb is_none] in Hd', Hb'.
      * constructor; rewrite ?Hd', ?Hr, ?Hm, ?Hd; try congruence.
        -- intros _. repeat split; assumption.
        -- intros _. exact Em.
        -- apply mon_update_since. apply (inv_mon_since s I).
      * constructor; rewrite ?Hd', ?Hr, ?Hm; try congruence.
        -- intros _. repeat split; assumption.
        -- apply mon_update_since. apply (inv_mon_since s I).
      * constructor; rewrite ?Hd', ?Hr, ?Hm; try congruence.
        -- intros _. repeat split; assumption.
        -- apply mon_update_since. apply (inv_mon_since s I).
    + rewrite andb_false_l in Hd', Hb'.
      constructor; rewrite ?Hd', ?Hr, ?Hm, ?Hd; try congruence.
      * intros _. repeat split; assumption.
      * intros _. apply (inv_mon_ds s I Hd).
      * apply (inv_mon_since s I).
Qed.

Lemma Inv_run b : forall xs s, Inv s -> Inv (pc_run p b s xs).
Proof. induction xs as [|x xs IH]; intros s I; [exact I|]. simpl. apply IH. apply Inv_step. exact I. Qed.

Lemma Inv_reach b xs : Inv (pc_run p b (pc_init p) xs).
Proof. apply Inv_run. apply Inv_init. Qed.

(** ------------------------------- lifecycle facts (used by C01 for PCACD) ------------------------------- *)
Lemma since_step b s x : Inv s ->
  m_since p (upd b s x) = if is_drift (m_ds p s) then 0 else m_since p s + 1.
Proof.
  intros I. rewrite upd_since. destruct (m_ds p s) eqn:Hd; simpl.
  - rewrite andb_false_r. reflexivity.
  - exfalso. exact (inv_nowarn s I Hd).
  - destruct (inv_drift s I Hd) as (-> & _). reflexivity.
Qed.

Lemma drift_cleared b s x : Inv s -> m_ds p s = DDrift -> m_ds p (upd b s x) = DNone.
Proof.
  intros I Hd. destruct (inv_drift s I Hd) as (Hb & _). rewrite upd_ds_building by exact Hb. rewrite Hd. reflexivity.
Qed.

Lemma since_bounds b : forall xs s, 0 <= m_since p s <= m_total p s ->
  0 <= m_since p (pc_run p b s xs) <= m_total p (pc_run p b s xs).
Proof.
  induction xs as [|x xs IH]; intros s H; [exact H|]. simpl. apply IH.
  rewrite upd_since, upd_total. destruct (m_building p s && negb (is_none (m_ds p s))); lia.
Qed.

(** ------------------------------- drift iff the embedded Page-Hinkley test alarms ------------------------------- *)
Lemma mon_ds_update (m : st (PH (ph_of p))) (v : F N) : ds m = DNone ->
  ds (update m v) = match snd (ph_step (ph_of p) (epoch m) (since m + 1) v) with Some d => d | None => DNone end.
Proof. intros Hd. rewrite update_eq. unfold pre. rewrite Hd. cbv zeta. simpl is_drift. cbv iota. cbn [ds]. rewrite Hd. reflexivity. Qed.

Lemma mon_alarm_iff (m : st (PH (ph_of p))) (v : F N) : ds m = DNone -> 0 <= since m ->
  (ds (update m v) <> DNone <-> ph_test (ph_of p) (epoch m) (since m + 1) v = true) /\
  (ds (update m v) <> DNone <-> ds (update m v) = DDrift).
Proof.
  intros Hd Hs. rewrite (mon_ds_update m v Hd).
  pose proof (ph_alarm_iff (ph_of p) (epoch m) (since m + 1) v) as A.
  assert (Hb : ph_burn_in (ph_of p) < since m + 1) by (simpl; lia).
  destruct (ph_step_spec (ph_of p) (epoch m) (since m + 1) v) as (_ & _ & _ & _ & Hsnd).
  destruct (snd (ph_step (ph_of p) (epoch m) (since m + 1) v)) as [d|] eqn:E.
  - destruct (ph_test (ph_of p) (epoch m) (since m + 1) v && (ph_burn_in (ph_of p) <? since m + 1)) eqn:T;
      [|discriminate].
    inversion Hsnd; subst d. split; split; intros; try congruence.
    apply A. reflexivity.
  - split; split; intros H; try congruence.
    exfalso. assert (A' : None = Some DDrift) by (apply A; split; [exact H | exact Hb]). discriminate.
Qed.

Lemma drift_iff b s x : Inv s ->
  (m_ds p (upd b s x) = DDrift <->
   m_building p s = false /\ scheduled p (m_total p s + 1) = true /\
   ph_test (ph_of p) (epoch (m_mon p s)) (since (m_mon p s) + 1) (score_of p s x) = true).
Proof.
  intros I. destruct (m_building p s) eqn:Hb.
  - rewrite upd_ds_building by exact Hb. split; [|intros (H & _); discriminate].
    destruct (m_ds p s) eqn:Hd; simpl; try discriminate.
  - destruct (inv_monitoring s I Hb) as (Hd & _).
    rewrite upd_ds_monitoring by exact Hb.
    destruct (mon_alarm_iff (m_mon p s) (score_of p s x) (inv_mon_ds s I Hd) (inv_mon_since s I)) as (A1 & _).
    fold (mon_of p s x) in A1.
    destruct (scheduled p (m_total p s + 1)); [rewrite andb_true_l | rewrite andb_false_l].
    + destruct (ds (mon_of p s x)) eqn:Em; cbn [negb is_none].
      * rewrite Hd. split; [discriminate|]. intros (_ & _ & T). exfalso. apply A1 in T. congruence.
      * split; [|reflexivity]. intros _. repeat split. apply A1. discriminate.
      * split; [|reflexivity]. intros _. repeat split. apply A1. discriminate.
    + rewrite Hd. split; [discriminate|]. intros (_ & H & _). discriminate.
Qed.

(** the monitor only ever says None or drift, and exactly when PCA-CD does *)
Lemma drift_is_monitor_state b s x : Inv s -> m_building p s = false ->
  (m_ds p (upd b s x) = DDrift <-> scheduled p (m_total p s + 1) = true /\ ds (mon_of p s x) <> DNone).
Proof.
  intros I Hb. destruct (inv_monitoring s I Hb) as (Hd & _).
  rewrite upd_ds_monitoring by exact Hb.
  destruct (scheduled p (m_total p s + 1)); [rewrite andb_true_l | rewrite andb_false_l].
  - destruct (ds (mon_of p s x)); cbn [negb is_none]; rewrite ?Hd; split; try discriminate; try (intros [_ H]; congruence);
      intros _; split; congruence.
  - rewrite Hd. split; [discriminate | intros [H _]; discriminate].
Qed.

(** ------------------------------- silent until both windows are full ------------------------------- *)
Definition filled s : Z := lenZ (m_ref p s) + lenZ (m_test p s).

Definition Silent s : Prop :=
  m_ds p s = DNone /\
  ((m_building p s = true /\ lenZ (m_test p s) < w /\ lenZ (m_ref p s) <= w /\ (lenZ (m_ref p s) < w -> m_test p s = []))
   \/ (m_building p s = false /\ filled s = 2 * w)).

Lemma silent_step b s x : Silent s -> m_building p s = true ->
  Silent (upd b s x) /\ filled (upd b s x) = filled s + 1.
Proof.
  intros (Hd & [(Hb & Ht & Hr & Hrt) | (Hb & _)]) Hb'; [|congruence].
  unfold pc_update. rewrite Hb.
  destruct (fill_no_drift p b s Hd) as (_ & Hd' & _ & _ & F1 & F2 & _).
  pose proof (fill_building p b s) as Hb1.
  set (s1 := fill_phase p b s) in *.
  destruct (build_frame p b s1 x) as (_ & _ & Bd & Br & Bt & _).
  pose proof (build_building p b s1 x) as Bb.
  unfold Silent, filled. rewrite Bd, Br, Bt, Bb, Hd', Hb1.
  destruct (Z.lt_ge_cases (lenZ (m_ref p s)) w) as [L|G].
  - destruct (F1 L) as [-> ->]. rewrite (Hrt L), lenZ_app, lenZ_one, lenZ_nil.
    destruct (Z.eqb_spec 0 w); [lia|]. split; [|lia]. split; [reflexivity|]. left.
    repeat split; try lia.
  - destruct (F2 G Ht) as [-> ->]. rewrite lenZ_app, lenZ_one. split; [|lia]. split; [reflexivity|].
    destruct (Z.eqb_spec (lenZ (m_test p s) + 1) w) as [E|E].
    + right. split; [reflexivity|]. lia.
    + left. repeat split; try lia.
Qed.

Lemma silent_run b : forall xs s, Silent s -> m_building p s = true -> Z.of_nat (length xs) <= 2 * w - filled s ->
  Silent (pc_run p b s xs).
Proof.
  induction xs as [|x xs IH]; intros s S Hb L; [exact S|].
  simpl. destruct (silent_step b s x S Hb) as (S' & F').
  destruct (m_building p (upd b s x)) eqn:Hb'.
  - apply IH; try assumption. rewrite F'. simpl length in L. lia.
  - destruct S' as (_ & [(Hb2 & _) | (_ & Hf)]); [congruence|].
    destruct xs as [|y ys]; [|simpl length in L; lia].
    simpl. destruct (silent_step b s x S Hb) as (S'' & _). exact S''.
Qed.

Lemma Silent_init : Silent (pc_init p) /\ m_building p (pc_init p) = true /\ filled (pc_init p) = 0.
Proof.
  unfold Silent, filled. simpl. repeat split. left. unfold lenZ; simpl. repeat split; lia.
Qed.

Lemma silent_start b xs : Z.of_nat (length xs) <= 2 * w -> m_ds p (pc_run p b (pc_init p) xs) = DNone.
Proof.
  intros L. destruct Silent_init as (S & Hb & F).
  apply (silent_run b xs (pc_init p) S Hb). rewrite F. lia.
Qed.

Lemma silent_after_drift b s x xs : Inv s -> m_ds p s = DDrift -> Z.of_nat (length xs) <= w ->
  m_ds p (pc_run p b s (x :: xs)) = DNone.
Proof.
  intros I Hd L. destruct (inv_drift s I Hd) as (Hb & Lr & Lt).
  assert (Hne : m_ds p s <> DNone) by congruence.
  destruct (upd_after_drift p b s x Hb Hne (or_intror Hw)) as (Hr & Ht & _ & Hd' & _).
  assert (Hb' : m_building p (upd b s x) = true).
  { unfold pc_update. rewrite Hb. rewrite build_noop; [apply fill_building|].
    destruct (fill_after_drift p b s Hne) as (_ & -> & _). rewrite lenZ_nil. lia. }
  simpl. apply (silent_run b xs (upd b s x)); [|exact Hb'|].
  - split; [exact Hd'|]. left. rewrite Hr, Ht, lenZ_nil. repeat split; try lia; try assumption.
  - unfold filled. rewrite Hr, Ht, lenZ_nil. lia.
Qed.

(** ------------------------------- windows as index ranges ------------------------------- *)
(** the test window always holds the most recent samples, the reference window an older contiguous range *)
Definition Win s : Prop :=
  m_test p s = rangeZ (m_total p s - lenZ (m_test p s)) (lenZ (m_test p s)) /\
  exists a, 0 <= a /\ m_ref p s = rangeZ a (lenZ (m_ref p s)) /\ a + lenZ (m_ref p s) <= m_total p s - lenZ (m_test p s) /\
            (lenZ (m_ref p s) < w -> a + lenZ (m_ref p s) = m_total p s).

Lemma Win_init : Win (pc_init p).
Proof. unfold Win. simpl. split; [reflexivity|]. exists 0. unfold lenZ; simpl. repeat split; try lia. Qed.

Lemma Win_step b s x : Inv s -> Win s -> Win (upd b s x).
Proof.
  intros I (Wt & a & Ha & Wr & Wle & Wfirst). unfold Win. rewrite upd_total.
  destruct (m_building p s) eqn:Hb.
  - destruct (m_ds p s) eqn:Hd.
    + destruct (inv_filling s I Hb Hd) as (Ht & Hr & Hrt).
      unfold pc_update. rewrite Hb.
      destruct (fill_no_drift p b s Hd) as (_ & _ & _ & _ & F1 & F2 & _).
      destruct (build_frame p b (fill_phase p b s) x) as (_ & _ & _ & -> & -> & _).
      destruct (Z.lt_ge_cases (lenZ (m_ref p s)) w) as [L|G].
      * destruct (F1 L) as [-> ->]. rewrite (Hrt L) in *. rewrite lenZ_nil in *. split; [rewrite rangeZ_nil by lia; reflexivity|].
        exists a. rewrite lenZ_app, lenZ_one. repeat split; try lia.
        rewrite rangeZ_snoc by apply lenZ_nonneg. rewrite <- Wr. f_equal. f_equal. rewrite <- (Wfirst L). reflexivity.
      * destruct (F2 G Ht) as [-> ->]. rewrite lenZ_app, lenZ_one. split.
        -- rewrite rangeZ_snoc by apply lenZ_nonneg.
           replace (m_total p s + 1 - (lenZ (m_test p s) + 1)) with (m_total p s - lenZ (m_test p s)) by lia.
           rewrite <- Wt. f_equal. f_equal. lia.
        -- exists a. repeat split; try assumption; lia.
    + exfalso. exact (inv_nowarn s I Hd).
    + destruct (inv_drift s I Hd) as (_ & Lr & Lt).
      assert (Hne : m_ds p s <> DNone) by congruence.
      destruct (upd_after_drift p b s x Hb Hne (or_intror Hw)) as (-> & -> & _).
      rewrite lenZ_nil. split; [rewrite rangeZ_nil by lia; reflexivity|].
      exists (m_total p s - lenZ (m_test p s)). repeat split; try lia. exact Wt.
  - destruct (inv_monitoring s I Hb) as (_ & Lr & Lt).
    destruct (upd_windows_monitoring p b s x Hb) as (-> & ->).
    rewrite lenZ_tl_snoc by lia. split.
    + rewrite Wt at 1. rewrite Lt.
      replace (m_total p s) with ((m_total p s - w) + w) at 2 by lia.
      rewrite rangeZ_slide by lia. f_equal. lia.
    + exists a. repeat split; try assumption; lia.
Qed.

Lemma Win_run b : forall xs s, Inv s -> Win s -> Win (pc_run p b s xs).
Proof.
  induction xs as [|x xs IH]; intros s I W; [exact W|]. simpl. apply IH; [apply Inv_step; exact I | apply Win_step; assumption].
Qed.

(** in the monitoring phase (and at a drift) the test window is exactly the last window_size samples *)
Lemma test_window_recent b xs : let s := pc_run p b (pc_init p) xs in
  (m_building p s = false \/ m_ds p s = DDrift) -> m_test p s = rangeZ (m_total p s - w) w.
Proof.
  intros s H. destruct (Win_run b xs (pc_init p) Inv_init Win_init) as (Wt & _). fold s in Wt.
  pose proof (Inv_reach b xs) as I. fold s in I.
  assert (L : lenZ (m_test p s) = w).
  { destruct H as [H|H]; [apply (inv_monitoring s I H) | apply (inv_drift s I H)]. }
  rewrite L in Wt. exact Wt.
Qed.

(** after a drift: the new reference is the former test window, and the sample of that update is in neither
    window - neither then nor at any later time *)
Definition absent (i : Z) s : Prop := i < m_total p s /\ ~ In i (m_ref p s) /\ ~ In i (m_test p s).

Lemma absent_step b i s x : (forall j, In j (m_ref p s) \/ In j (m_test p s) -> j < m_total p s) ->
  absent i s -> absent i (upd b s x).
Proof.
  intros Hlt (Hi & Hr & Ht). unfold absent. rewrite upd_total. split; [lia|].
  assert (Hin_tl : forall l : list Z, In i (tl l) -> In i l) by (intros [|? ?] ?; simpl in *; auto).
  destruct (m_building p s) eqn:Hb.
  - unfold pc_update. rewrite Hb.
    destruct (build_frame p b (fill_phase p b s) x) as (_ & _ & _ & -> & -> & _).
    unfold fill_phase.
    repeat match goal with |- context [if ?c then _ else _] => destruct c end; simpl;
      rewrite ?in_app_iff; simpl; intuition lia.
  - destruct (upd_windows_monitoring p b s x Hb) as (-> & ->).
    rewrite in_app_iff. simpl. split; [exact Hr|]. intros [H|[H|[]]]; [apply Ht, Hin_tl, H | lia].
Qed.

Lemma idx_bound_step b s x : (forall j, In j (m_ref p s) \/ In j (m_test p s) -> j < m_total p s) ->
  forall j, In j (m_ref p (upd b s x)) \/ In j (m_test p (upd b s x)) -> j < m_total p (upd b s x).
Proof.
  intros Hlt j. rewrite upd_total.
  assert (Hin_tl : forall l : list Z, In j (tl l) -> In j l) by (intros [|? ?] ?; simpl in *; auto).
  destruct (m_building p s) eqn:Hb.
  - unfold pc_update. rewrite Hb.
    destruct (build_frame p b (fill_phase p b s) x) as (_ & _ & _ & -> & -> & _).
    unfold fill_phase.
    repeat match goal with |- context [if ?c then _ else _] => destruct c end; simpl;
      rewrite ?in_app_iff; simpl; intros H;
      assert (In j (m_ref p s) \/ In j (m_test p s) \/ j = m_total p s) as [H'|[H'|H']] by intuition;
      try (specialize (Hlt j); intuition lia); lia.
  - destruct (upd_windows_monitoring p b s x Hb) as (-> & ->).
    rewrite in_app_iff. simpl. intros [H|[H|[H|[]]]].
    + specialize (Hlt j); intuition lia.
    + apply Hin_tl in H. specialize (Hlt j); intuition lia.
    + lia.
Qed.

Lemma absent_run b i : forall xs s, (forall j, In j (m_ref p s) \/ In j (m_test p s) -> j < m_total p s) ->
  absent i s -> absent i (pc_run p b s xs).
Proof.
  induction xs as [|x xs IH]; intros s Hlt A; [exact A|]. simpl. apply IH.
  - apply idx_bound_step. exact Hlt.
  - apply absent_step; assumption.
Qed.

Lemma idx_bound_reach b : forall xs s, (forall j, In j (m_ref p s) \/ In j (m_test p s) -> j < m_total p s) ->
  forall j, In j (m_ref p (pc_run p b s xs)) \/ In j (m_test p (pc_run p b s xs)) -> j < m_total p (pc_run p b s xs).
Proof.
  induction xs as [|x xs IH]; intros s Hlt; [exact Hlt|]. simpl. apply IH. apply idx_bound_step. exact Hlt.
Qed.

Lemma after_drift_windows b xs x ys : let s := pc_run p b (pc_init p) xs in
  m_ds p s = DDrift ->
  let s' := upd b s x in
  m_ref p s' = m_test p s /\ m_ref p s' = rangeZ (m_total p s - w) w /\ m_test p s' = [] /\
  absent (m_total p s) (pc_run p b s' ys).
Proof.
  intros s Hd s'.
  pose proof (Inv_reach b xs) as I. fold s in I.
  destruct (inv_drift s I Hd) as (Hb & Lr & Lt).
  assert (Hne : m_ds p s <> DNone) by congruence.
  destruct (upd_after_drift p b s x Hb Hne (or_intror Hw)) as (Hr & Ht & _ & _ & _ & Htot). fold s' in Hr, Ht, Htot.
  assert (Hlt : forall j, In j (m_ref p s) \/ In j (m_test p s) -> j < m_total p s).
  { apply (idx_bound_reach b xs (pc_init p)). simpl. intros j [[]|[]]. }
  pose proof (test_window_recent b xs (or_intror Hd)) as Hrec. fold s in Hrec.
  split; [exact Hr|]. split; [rewrite Hr; exact Hrec|]. split; [exact Ht|].
  apply absent_run.
  - apply idx_bound_step. exact Hlt.
  - unfold absent. rewrite Htot, Hr, Ht. split; [lia|]. split; [|intros []].
    intros H. specialize (Hlt (m_total p s)). intuition lia.
Qed.

End Reach.

(** =============================== 3. histograms: structural facts =============================== *)
Section Hist.
Context {N : Num}.
Variable p : @pc_params N.
Notation st11 := (pc_st p).
Notation upd := (pc_update p).
Implicit Types s : st11.
Implicit Types x : @pc_input N.
Local Open Scope num_scope.

(** the bin edges depend on the number of bins and on the support only, not on the sample *)
Lemma build_hist_edges (xs : list (F N)) k lo hi : fst (build_hist xs k lo hi) = hist_edges k lo hi.
Proof. reflexivity. Qed.

Definition own_edges (npcs : Z) (lower upper : list (F N)) : list (list (F N)) :=
  map (fun i => hist_edges (pc_bins p) (nthF i lower) (nthF i upper)) (pcs_of npcs).

Lemma hists_edges npcs proj lower upper : map fst (hists p npcs proj lower upper) = own_edges npcs lower upper.
Proof. unfold hists, own_edges. rewrite map_map. apply map_ext. intros i. reflexivity. Qed.

Lemma hists_length npcs proj lower upper : length (hists p npcs proj lower upper) = Z.to_nat npcs.
Proof. unfold hists, pcs_of. rewrite map_length. apply upto_length. Qed.

Lemma supports_length npcs (r t : list (list (F N))) :
  length (supports_lower npcs r t) = Z.to_nat npcs /\ length (supports_upper npcs r t) = Z.to_nat npcs.
Proof. unfold supports_lower, supports_upper, pcs_of. rewrite !map_length, upto_length. split; reflexivity. Qed.

(** the reference histograms are, at all times, those of the stored reference projection on the stored supports *)
Definition RefH s : Prop :=
  pc_inter p = true -> m_dref p s = hists p (npcs_of p s) (m_rproj p s) (m_lower p s) (m_upper p s).

Lemma RefH_init : RefH (pc_init p).
Proof. intros _. reflexivity. Qed.

Lemma RefH_step b s x : RefH s -> RefH (upd b s x).
Proof.
  intros H Hi. specialize (H Hi). unfold pc_update. destruct (m_building p s) eqn:Hb.
  - destruct (fill_frame p b s) as (F1 & F2 & _ & F4 & F5 & F6 & _).
    set (s1 := fill_phase p b s) in *.
    destruct (Z.eq_dec (lenZ (m_test p s1)) (pc_w p)) as [E|E].
    + destruct (build_installs p b s1 x E) as (_ & Hn & Hr & _ & Hint & _).
      destruct (Hint Hi) as (_ & _ & Hd). unfold npcs_of. rewrite Hn, Hr. exact Hd.
    + rewrite build_noop by exact E. unfold npcs_of. rewrite F1, F2, F4, F5, F6. exact H.
  - destruct (scheduled p (m_total p s + 1)) eqn:Es.
    + rewrite monitor_scheduled by exact Es. exact H.
    + rewrite monitor_unscheduled by exact Es. exact H.
Qed.

Lemma RefH_reach b xs : RefH (pc_run p b (pc_init p) xs).
Proof.
  assert (G : forall xs s, RefH s -> RefH (pc_run p b s xs)).
  { induction xs0 as [|x xs0 IH]; intros s H; [exact H|]. simpl. apply IH. apply RefH_step. exact H. }
  apply G. apply RefH_init.
Qed.

(** at a scheduled sample of the monitoring phase, "intersection" metric: every component's test histogram is
    built on that component's own support, which is the support of its reference histogram *)
Lemma same_edges_step b s x : RefH s -> pc_inter p = true -> m_building p s = false ->
  scheduled p (m_total p s + 1) = true ->
  let s' := upd b s x in
  m_dtest p s' = hists p (npcs_of p s) (m_tproj p s') (m_lower p s) (m_upper p s) /\
  m_lower p s' = m_lower p s /\ m_upper p s' = m_upper p s /\ m_dref p s' = m_dref p s /\
  map fst (m_dtest p s') = own_edges (npcs_of p s) (m_lower p s) (m_upper p s) /\
  map fst (m_dref p s') = own_edges (npcs_of p s) (m_lower p s) (m_upper p s).
Proof.
  intros H Hi Hb Es. cbv zeta. unfold pc_update. rewrite Hb. rewrite monitor_scheduled by exact Es. cbn [m_dtest m_lower m_upper m_dref m_tproj].
  unfold comp_scores. rewrite Hi. cbn [snd]. repeat split.
  - apply hists_edges.
  - rewrite (H Hi). apply hists_edges.
Qed.

(** the per-component scores of that computation: intersection divergence of the two histograms *)
Lemma comp_scores_inter s tproj x : pc_inter p = true ->
  fst (comp_scores p s tproj x) =
  map (fun i => inter_div (snd (nth (Z.to_nat i) (m_dref p s) ([], [])))
                          (snd (nth (Z.to_nat i) (hists p (npcs_of p s) tproj (m_lower p s) (m_upper p s)) ([], []))))
      (pcs_of (npcs_of p s)).
Proof. intros Hi. unfold comp_scores. rewrite Hi. reflexivity. Qed.

Lemma comp_scores_kl s tproj x : pc_inter p = false -> fst (comp_scores p s tproj x) = i_scores x.
Proof. intros Hi. unfold comp_scores. rewrite Hi. reflexivity. Qed.

(** winsorising: every new projection enters the test projection clipped to the component's own support *)
Lemma clip_cases (v lo hi : F N) : clip v lo hi = v \/ clip v lo hi = lo \/ clip v lo hi = hi.
Proof. unfold clip. destruct (v <? lo); [auto|]. destruct (hi <? v); auto. Qed.

Lemma clip_in_support (L : OrdLaws N) (v lo hi : F N) : fleb lo hi = true ->
  fleb lo (clip v lo hi) = true /\ fleb (clip v lo hi) hi = true.
Proof.
  intros H. unfold clip. rewrite !(ltb_leb N L).
  destruct (fleb lo v) eqn:E1; simpl.
  - destruct (fleb v hi) eqn:E2; simpl.
    + split; assumption.
    + split; [exact H | apply (leb_refl N L)].
  - split; [apply (leb_refl N L) | exact H].
Qed.

Lemma winsorize_inter s next : pc_inter p = true ->
  winsorize p s next =
  map (fun i => clip (nthF i next) (nthF i (m_lower p s)) (nthF i (m_upper p s))) (pcs_of (npcs_of p s)).
Proof. intros Hi. unfold winsorize. rewrite Hi. reflexivity. Qed.

(** ---- the histogram of a sample does not depend on the order of the sample ---- *)
Lemma count_in_perm (xs ys : list (F N)) b : Permutation xs ys -> count_in xs b = count_in ys b.
Proof.
  intros P. unfold count_in, lenZ. f_equal.
  induction P as [|a l l' P IH|a a' l|l l' l'' P1 IH1 P2 IH2]; simpl.
  - reflexivity.
  - destruct (in_bin a b); simpl; rewrite IH; reflexivity.
  - destruct (in_bin a b), (in_bin a' b); reflexivity.
  - rewrite IH1. exact IH2.
Qed.

Lemma hist_density_perm (xs ys es : list (F N)) : Permutation xs ys -> hist_density xs es = hist_density ys es.
Proof.
  intros P. unfold hist_density.
  rewrite (map_ext (count_in xs) (count_in ys)) by (intros b; apply count_in_perm; exact P).
  apply map_ext. intros b. rewrite (count_in_perm xs ys b P). reflexivity.
Qed.

Lemma build_hist_perm (xs ys : list (F N)) k lo hi : Permutation xs ys -> build_hist xs k lo hi = build_hist ys k lo hi.
Proof. intros P. unfold build_hist. rewrite (hist_density_perm xs ys _ P). reflexivity. Qed.

(** ---- intersection divergence of a histogram with itself: 1 - its sum (every arithmetic instance) ---- *)
Lemma np_minimum_self (a : F N) : np_minimum a a = a.
Proof. unfold np_minimum. destruct (a <? a); reflexivity. Qed.

Lemma inter_div_self (d : list (F N)) : inter_div d d = pymax f0 (f1 - np_sum d).
Proof.
  unfold inter_div. f_equal. f_equal. f_equal.
  induction d as [|a d IH]; simpl; [reflexivity|]. rewrite np_minimum_self, IH. reflexivity.
Qed.

(** the divergence is the float zero or strictly positive - never negative, never NaN (every instance, no law) *)
Lemma inter_div_sign (dr dt : list (F N)) : inter_div dr dt = f0 \/ fltb f0 (inter_div dr dt) = true.
Proof. unfold inter_div, pymax. destruct (fltb f0 _) eqn:E; [right; exact E | left; reflexivity]. Qed.

Lemma inter_div_nonneg (L : OrdLaws N) (dr dt : list (F N)) : fleb f0 (inter_div dr dt) = true.
Proof.
  destruct (inter_div_sign dr dt) as [-> | H]; [apply (leb_refl N L)|].
  rewrite (ltb_leb N L) in H. destruct (leb_total N L f0 (inter_div dr dt)) as [T|T]; [exact T|].
  rewrite T in H. discriminate.
Qed.

Lemma list_max_in (l : list (F N)) : list_max l = f0 \/ In (list_max l) l.
Proof.
  destruct l as [|a t]; [left; reflexivity|]. right. unfold list_max.
  assert (G : forall t m, fold_left (fun m y => if m <? y then y else m) t m = m \/
                          In (fold_left (fun m y : F N => if m <? y then y else m) t m) t).
  { induction t0 as [|b t0 IH]; intros m; simpl; [left; reflexivity|].
    destruct (m <? b).
    - destruct (IH b) as [-> | H]; [right; left; reflexivity | right; right; exact H].
    - destruct (IH m) as [-> | H]; [left; reflexivity | right; right; exact H]. }
  destruct (G t a) as [-> | H]; [left; reflexivity | right; exact H].
Qed.

(** ... hence: if every component's test scores are a permutation of its reference scores, every component
    score is max(0, 1 - sum(normalised reference histogram)) *)
Lemma scores_equal_windows s tproj x : RefH s -> pc_inter p = true ->
  (forall i, In i (pcs_of (npcs_of p s)) -> Permutation (col i tproj) (col i (m_rproj p s))) ->
  fst (comp_scores p s tproj x) =
  map (fun i => pymax f0 (f1 - np_sum (snd (nth (Z.to_nat i) (m_dref p s) ([], []))))) (pcs_of (npcs_of p s)).
Proof.
  intros H Hi HP. rewrite comp_scores_inter by exact Hi.
  assert (E : hists p (npcs_of p s) tproj (m_lower p s) (m_upper p s) = m_dref p s).
  { rewrite (H Hi). unfold hists. apply map_ext_in. intros i Hin. apply build_hist_perm. apply HP. exact Hin. }
  rewrite E. apply map_ext. intros i. apply inter_div_self.
Qed.

(** the score handed to Page-Hinkley under the "intersection" metric is the float zero or strictly positive *)
Lemma score_sign s x : pc_inter p = true -> score_of p s x = f0 \/ fltb f0 (score_of p s x) = true.
Proof.
  intros Hi. unfold score_of. rewrite comp_scores_inter by exact Hi.
  destruct (list_max_in (map (fun i => inter_div (snd (nth (Z.to_nat i) (m_dref p s) ([], [])))
      (snd (nth (Z.to_nat i) (hists p (npcs_of p s) (tproj_of p s x) (m_lower p s) (m_upper p s)) ([], []))))
      (pcs_of (npcs_of p s)))) as [-> | H]; [left; reflexivity|].
  apply in_map_iff in H as (i & <- & _). apply inter_div_sign.
Qed.

End Hist.

(** =============================== the machine does not depend on online_scaling =============================== *)
Section Scaling.
Context {N : Num}.
Variable p : @pc_params N.
Implicit Types s : pc_st p.

Definition drop_scaler (c : list (Z * Z)) : list (Z * Z) := filter (fun c => negb (scaler_call c)) c.

Lemma drop_scaler_app a b : drop_scaler (a ++ b) = drop_scaler a ++ drop_scaler b.
Proof. apply filter_app. Qed.

Lemma drop_scaler_const {A} (k n : Z) (l : list A) : 3 < k -> drop_scaler (map (fun _ => (k, n)) l) = map (fun _ => (k, n)) l.
Proof.
  intros H. induction l as [|a l IH]; [reflexivity|]. simpl. unfold scaler_call at 1. simpl.
  destruct (Z.leb_spec k 3); [lia|]. simpl. f_equal. exact IH.
Qed.

Lemma set_calls_calls s c : m_calls p (set_calls p s c) = c.
Proof. reflexivity. Qed.

(** without online_scaling the update is the same function, minus the StandardScaler calls *)
Lemma scaling_irrelevant_step s x :
  pc_update p false s x =
  set_calls p (pc_update p true s x) (drop_scaler (m_calls p (pc_update p true s x))).
Proof.
  unfold pc_update. destruct (m_building p s).
  - assert (F : fill_phase p false s = set_calls p (fill_phase p true s) (drop_scaler (m_calls p (fill_phase p true s)))).
    { unfold fill_phase.
      repeat match goal with |- context [if ?c then _ else _] => destruct c end; reflexivity. }
    rewrite F. set (s1 := fill_phase p true s). unfold build_phase.
    cbn [set_calls m_test m_total m_since m_ds m_ref m_lower m_upper m_dref m_dtest m_mon m_scores m_comp m_calls].
    destruct (lenZ (m_test p s1) =? pc_w p); [|reflexivity].
    unfold set_calls. cbn [m_total m_since m_ds m_building m_ref m_test m_npcs m_rproj m_tproj m_lower m_upper m_dref m_dtest m_mon m_scores m_comp m_calls].
    f_equal. destruct (pc_inter p); rewrite !drop_scaler_app.
    all: replace (drop_scaler [(C_FIT_SCALE, pc_w p); (C_SCALE, pc_w p)]) with (@nil (Z * Z)) by reflexivity.
    all: replace (drop_scaler [(C_PCA_FIT, pc_w p); (C_PCA_TR, pc_w p); (C_PCA_TR, pc_w p)])
      with [(C_PCA_FIT, pc_w p); (C_PCA_TR, pc_w p); (C_PCA_TR, pc_w p)] by reflexivity.
    + reflexivity.
    + rewrite drop_scaler_const by (unfold C_KDE; lia). reflexivity.
  - unfold monitor_phase. destruct (scheduled p (m_total p s + 1)).
    + destruct (comp_scores p s _ x) as [comp dtest]. unfold set_calls.
      cbn [m_total m_since m_ds m_building m_ref m_test m_npcs m_rproj m_tproj m_lower m_upper m_dref m_dtest m_mon m_scores m_comp m_calls].
      f_equal. destruct (pc_inter p); rewrite !drop_scaler_app; [reflexivity|].
      rewrite !drop_scaler_const by (unfold C_KDE, C_JS; lia). reflexivity.
    + reflexivity.
Qed.

(** the calls of the previous update are never read *)
Lemma calls_not_read b s c x : pc_update p b (set_calls p s c) x = pc_update p b s x.
Proof.
  unfold pc_update. cbn [set_calls m_building]. destruct (m_building p s); reflexivity.
Qed.

Lemma scaling_irrelevant_run : forall xs s,
  set_calls p (pc_run p false s xs) [] = set_calls p (pc_run p true s xs) [].
Proof.
  assert (G : forall xs s1 s2, set_calls p s1 [] = set_calls p s2 [] ->
              set_calls p (pc_run p false s1 xs) [] = set_calls p (pc_run p true s2 xs) []).
  { induction xs as [|x xs IH]; intros s1 s2 H; [exact H|]. simpl. apply IH.
    rewrite <- (calls_not_read false s1 [] x), H, calls_not_read, scaling_irrelevant_step. reflexivity. }
  intros xs s. apply G. reflexivity.
Qed.

End Scaling.

(** =============================== 4. exact arithmetic (the reals) =============================== *)
From MV Require Import NumLaws.
From Coq Require Import Reals Lra.

Section Exact.
Local Open Scope R_scope.
Notation NR := NumR.

Definition rsum (l : list R) : R := fold_right Rplus 0 l.

Lemma rsum_app l1 l2 : rsum (l1 ++ l2) = rsum l1 + rsum l2.
Proof. induction l1 as [|a l1 IH]; simpl; [lra|]. rewrite IH. lra. Qed.

(** numpy's pairwise summation is the sum *)
Lemma sum_seq_R : forall l init, @sum_seq NR init l = init + rsum l.
Proof.
  induction l as [|a l IH]; intros init; unfold sum_seq in *; simpl; [lra|]. rewrite IH. lra.
Qed.

Lemma rsum_add_combine : forall a b : list R, length a = length b ->
  rsum (map (fun q => @fadd NR (fst q) (snd q)) (combine a b)) = rsum a + rsum b.
Proof.
  induction a as [|x a IH]; intros [|y b] H; simpl in *; try discriminate; [lra|].
  rewrite IH by congruence. lra.
Qed.

Lemma block_loop_R : forall fuel (r l : list R), length r = 8%nat ->
  length (fst (@block_loop NR fuel r l)) = 8%nat /\
  rsum (fst (@block_loop NR fuel r l)) + rsum (snd (@block_loop NR fuel r l)) = rsum r + rsum l.
Proof.
  induction fuel as [|fuel IH]; intros r l Hr; cbn [block_loop].
  - split; [exact Hr | reflexivity].
  - destruct (Nat.leb 8 (@length (F NR) l)) eqn:E; [|split; [exact Hr | reflexivity]].
    apply Nat.leb_le in E. change (F NR) with R in *.
    assert (Hf : length (firstn 8 l) = 8%nat) by (rewrite firstn_length; lia).
    destruct (IH (map (fun q => @fadd NR (fst q) (snd q)) (combine r (firstn 8 l))) (skipn 8 l)) as [H1 H2].
    { rewrite map_length, combine_length, Hr, Hf. reflexivity. }
    split; [exact H1|]. etransitivity; [exact H2|]. rewrite rsum_add_combine by congruence.
    rewrite <- (firstn_skipn 8 l) at 3. rewrite rsum_app. lra.
Qed.

Lemma block8_R (l : list R) : (8 <= length l)%nat -> @block8 NR l = rsum l.
Proof.
  intros H. unfold block8.
  assert (Hf : length (firstn 8 l) = 8%nat) by (rewrite firstn_length; lia).
  set (bl := block_loop _ _ _).
  assert (H12 : length (fst bl) = 8%nat /\ rsum (fst bl) + rsum (snd bl) = rsum (firstn 8 l) + rsum (skipn 8 l))
    by (apply block_loop_R; exact Hf).
  destruct bl as [r tl]. cbn [fst snd] in H12. destruct H12 as [H1 H2].
  do 8 (destruct r as [|? r]; [discriminate|]). destruct r; [|discriminate].
  rewrite sum_seq_R. rewrite <- (firstn_skipn 8 l) at 1. rewrite rsum_app, <- H2. simpl. lra.
Qed.

Lemma pw_sum_R : forall fuel (l : list R), (length l <= fuel)%nat -> @pw_sum NR fuel l = rsum l.
Proof.
  induction fuel as [|fuel IH]; intros l H.
  - destruct l; [|simpl in H; lia]. unfold pw_sum. simpl. reflexivity.
  - cbn [pw_sum]. cbv zeta. destruct (Nat.ltb (@length (F NR) l) 8) eqn:E1.
    + rewrite sum_seq_R. simpl. lra.
    + apply Nat.ltb_ge in E1. destruct (Nat.leb (@length (F NR) l) 128) eqn:E2.
      * apply block8_R. exact E1.
      * apply Nat.leb_gt in E2. change (F NR) with R in *.
        set (n2 := (length l / 2 - (length l / 2) mod 8)%nat).
        assert (Hn2 : (1 <= n2 < length l)%nat).
        { unfold n2. pose proof (Nat.mod_upper_bound (length l / 2) 8).
          assert (64 <= length l / 2)%nat by (apply Nat.div_le_lower_bound; lia).
          assert (length l / 2 < length l)%nat by (apply Nat.div_lt; lia). lia. }
        rewrite !IH.
        -- simpl. rewrite <- rsum_app, firstn_skipn. reflexivity.
        -- rewrite skipn_length. lia.
        -- rewrite firstn_length. lia.
Qed.

Lemma np_sum_R (l : list R) : @np_sum NR l = rsum l.
Proof. unfold np_sum. apply pw_sum_R. apply le_n. Qed.

(** ---- intersection divergence of two probability vectors ---- *)
Lemma np_minimum_R (a b : R) : @np_minimum NR a b = Rmin a b.
Proof.
  unfold np_minimum. simpl. unfold Rmin. destruct (Rlt_dec a b), (Rle_dec a b); try reflexivity; lra.
Qed.

Lemma rsum_min_bounds : forall d1 d2 : list R, (forall v, In v d1 -> 0 <= v) -> (forall v, In v d2 -> 0 <= v) ->
  0 <= rsum (map (fun q => @np_minimum NR (fst q) (snd q)) (combine d1 d2)) <= rsum d1.
Proof.
  induction d1 as [|a d1 IH]; intros d2 H1 H2; simpl; [lra|].
  destruct d2 as [|b d2]; simpl.
  - assert (0 <= a) by (apply H1; left; reflexivity).
    assert (0 <= rsum d1).
    { clear IH. induction d1 as [|c d1 IHd]; simpl; [lra|].
      assert (0 <= c) by (apply H1; right; left; reflexivity).
      assert (0 <= rsum d1) by (apply IHd; intros v Hv; apply H1; simpl in *; tauto). lra. }
    lra.
  - rewrite np_minimum_R.
    assert (0 <= a) by (apply H1; left; reflexivity).
    assert (0 <= b) by (apply H2; left; reflexivity).
    destruct (IH d2) as [L U]; [intros v Hv; apply H1; right; exact Hv | intros v Hv; apply H2; right; exact Hv |].
    pose proof (Rmin_l a b). assert (0 <= Rmin a b) by (apply Rmin_glb; assumption).
    change (F NR) with R in *. lra.
Qed.

Lemma inter_div_unit (d1 d2 : list R) : (forall v, In v d1 -> 0 <= v) -> (forall v, In v d2 -> 0 <= v) -> rsum d1 = 1 ->
  0 <= @inter_div NR d1 d2 <= 1.
Proof.
  intros H1 H2 S. unfold inter_div, pymax. rewrite np_sum_R. simpl. destruct (rsum_min_bounds d1 d2 H1 H2). change (F NR) with R in *.
  destruct (Rlt_dec 0 _); lra.
Qed.

Lemma inter_div_equal (d : list R) : rsum d = 1 -> @inter_div NR d d = 0.
Proof. intros S. rewrite inter_div_self, np_sum_R. unfold pymax. simpl. rewrite S. destruct (Rlt_dec 0 (1 - 1)); lra. Qed.

(** ---- np.histogram on an interval [a, b], a < b, with k >= 1 equal bins ---- *)
Lemma linspace_R (a b : R) (k : Z) : a < b -> (1 <= k)%Z ->
  @linspace NR a b k =
  map (fun i => IZR (Z.of_nat i) * ((b - a) / IZR k) + a) (seq 0 (Z.to_nat k)) ++ [b].
Proof.
  intros Hab Hk. unfold linspace, upto. rewrite map_map. f_equal. apply map_ext. intros i. simpl.
  destruct (Req_EM_T ((b - a) / IZR k) 0) as [E|E]; [|reflexivity].
  exfalso. assert (0 < IZR k) by (apply IZR_lt; lia).
  assert (0 < (b - a) / IZR k) by (apply Rdiv_lt_0_compat; lra). lra.
Qed.

Lemma bins_of_widths (g : nat -> R) (b step : R) : forall n m, (1 <= n)%nat ->
  (forall i, g (S i) - g i = step) -> b - g (m + n - 1)%nat = step ->
  forall bin, In bin (@bins_of NR (map g (seq m n) ++ [b])) -> snd (fst bin) - fst (fst bin) = step.
Proof.
  induction n as [|n IH]; intros m Hn Hg Hb bin Hin; [lia|].
  destruct n as [|n].
  - simpl in Hin. destruct Hin as [<-|[]]. simpl. replace (m + 1 - 1)%nat with m in Hb by lia. exact Hb.
  - change (map g (seq m (S (S n))) ++ [b]) with (g m :: g (S m) :: (map g (seq (S (S m)) n) ++ [b])) in Hin.
    cbn [bins_of] in Hin. destruct Hin as [<-|Hin].
    + simpl. apply Hg.
    + apply (IH (S m)); try assumption; try lia.
      replace (S m + S n - 1)%nat with (m + S (S n) - 1)%nat by lia. exact Hb.
Qed.

Lemma bin_exists : forall (es : list R) (x : R), (2 <= length es)%nat -> hd 0 es <= x <= last es 0 ->
  exists bin, In bin (@bins_of NR es) /\ @in_bin NR x bin = true.
Proof.
  induction es as [|e0 es IH]; intros x Hl Hx; [simpl in Hl; lia|].
  destruct es as [|e1 t]; [simpl in Hl; lia|].
  destruct t as [|e2 t].
  - exists (e0, e1, true). split; [left; reflexivity|]. simpl in *.
    destruct (Rle_dec e0 x), (Rle_dec x e1); try reflexivity; lra.
  - destruct (Rlt_dec x e1) as [L|G].
    + exists (e0, e1, false). split; [left; reflexivity|]. simpl in *.
      destruct (Rle_dec e0 x), (Rlt_dec x e1); try reflexivity; lra.
    + destruct (IH x) as (bin & Hin & Hb); [simpl; lia | |].
      * split; [simpl; lra|]. simpl in *. lra.
      * exists bin. split; [|exact Hb]. cbn [bins_of]. right. exact Hin.
Qed.

Lemma count_in_nonneg (xs : list R) bin : (0 <= @count_in NR xs bin)%Z.
Proof. unfold count_in. apply lenZ_nonneg. Qed.

Lemma count_in_pos (xs : list R) bin x0 : In x0 xs -> @in_bin NR x0 bin = true -> (1 <= @count_in NR xs bin)%Z.
Proof.
  intros Hin Hb. unfold count_in, lenZ.
  assert (H : In x0 (filter (fun x => @in_bin NR x bin) xs)) by (apply filter_In; split; assumption).
  destruct (filter (fun x : F NR => @in_bin NR x bin) xs); [destruct H | simpl; lia].
Qed.

Lemma fold_add_Z : forall l a, (fold_left Z.add l a = a + sumZ l)%Z.
Proof.
  unfold sumZ. induction l as [|z l IH]; intros a; simpl; [lia|]. rewrite IH, (IH z). lia.
Qed.

Lemma sumZ_cons z l : (sumZ (z :: l) = z + sumZ l)%Z.
Proof. unfold sumZ at 1. simpl. rewrite fold_add_Z. lia. Qed.

Lemma sumZ_ge : forall (l : list Z) z, In z l -> (forall y, In y l -> 0 <= y)%Z -> (z <= sumZ l)%Z.
Proof.
  induction l as [|y l IH]; intros z Hin Hnn; [destruct Hin|].
  rewrite sumZ_cons.
  assert (0 <= sumZ l)%Z.
  { clear IH Hin. induction l as [|v l IHl]; [unfold sumZ; simpl; lia|]. rewrite sumZ_cons.
    assert (0 <= v)%Z by (apply Hnn; right; left; reflexivity).
    assert (0 <= sumZ l)%Z by (apply IHl; intros u Hu; apply Hnn; simpl in *; tauto). lia. }
  destruct Hin as [->|Hin].
  - lia.
  - assert (z <= sumZ l)%Z by (apply IH; [exact Hin | intros u Hu; apply Hnn; right; exact Hu]).
    assert (0 <= y)%Z by (apply Hnn; left; reflexivity). lia.
Qed.

Lemma rsum_scaled (c : R * R * bool -> Z) (step T : R) : forall bs,
  rsum (map (fun bin => IZR (c bin) / step / T) bs) = IZR (sumZ (map c bs)) / step / T.
Proof.
  induction bs as [|bin bs IH]; simpl.
  - unfold sumZ. simpl. unfold Rdiv. lra.
  - rewrite IH, sumZ_cons, plus_IZR. unfold Rdiv. lra.
Qed.

(** the interval actually used: [lo, hi] itself, or widened by 1/2 when empty *)
Lemma outer_edges_R (lo hi : R) : lo <= hi ->
  let ab := @outer_edges NR lo hi in fst ab < snd ab /\ fst ab <= lo /\ hi <= snd ab.
Proof.
  intros H. unfold outer_edges, half. simpl. destruct (Req_EM_T lo hi); simpl; lra.
Qed.

(** the normalised histogram is the vector of sample fractions per bin: non-negative, summing to one *)
Theorem build_hist_fractions (xs : list R) (k : Z) (lo hi : R) : (1 <= k)%Z -> lo <= hi ->
  (exists x0, In x0 xs /\ lo <= x0 <= hi) ->
  let es := @hist_edges NR k lo hi in
  let tot := sumZ (map (@count_in NR xs) (@bins_of NR es)) in
  (1 <= tot)%Z /\
  snd (@build_hist NR xs k lo hi) = map (fun bin => IZR (@count_in NR xs bin) / IZR tot) (@bins_of NR es) /\
  (forall v, In v (snd (@build_hist NR xs k lo hi)) -> 0 <= v) /\
  rsum (snd (@build_hist NR xs k lo hi)) = 1.
Proof.
  intros Hk Hle (x0 & Hx0 & Hr). cbv zeta.
  unfold build_hist, hist_edges. cbn [snd].
  destruct (outer_edges_R lo hi Hle) as (Hab & Ha & Hb).
  destruct (@outer_edges NR lo hi) as [a b]. cbn [fst snd] in Hab, Ha, Hb.
  set (es := @linspace NR a b k).
  set (step := (b - a) / IZR k).
  assert (Hkpos : 0 < IZR k) by (apply IZR_lt; lia).
  assert (Hstep : 0 < step) by (apply Rdiv_lt_0_compat; lra).
  assert (Hes : es = map (fun i => IZR (Z.of_nat i) * step + a) (seq 0 (Z.to_nat k)) ++ [b])
    by (apply linspace_R; assumption).
  set (K := Z.to_nat k) in *.
  assert (HK : (1 <= K)%nat) by (unfold K; lia).
  (* all bins have width step *)
  assert (Hwid : forall bin, In bin (@bins_of NR es) -> snd (fst bin) - fst (fst bin) = step).
  { rewrite Hes. apply bins_of_widths; [exact HK | |].
    - intros i. rewrite Nat2Z.inj_succ, succ_IZR. lra.
    - replace (0 + K - 1)%nat with (K - 1)%nat by lia.
      rewrite Nat2Z.inj_sub by lia. unfold K. rewrite Z2Nat.id by lia.
      rewrite minus_IZR. simpl (IZR (Z.of_nat 1)). unfold step. field. lra. }
  (* some bin contains x0 *)
  destruct (bin_exists es x0) as (bin0 & Hin0 & Hb0).
  { rewrite Hes, app_length, map_length, seq_length. simpl. lia. }
  { rewrite Hes. rewrite last_last. destruct K as [|K']; [lia|]. simpl. lra. }
  set (bs := @bins_of NR es) in *.
  set (tot := sumZ (map (@count_in NR xs) bs)).
  change (F NR) with R in *.
  assert (Htot : (1 <= tot)%Z).
  { pose proof (count_in_pos xs bin0 x0 Hx0 Hb0).
    assert (@count_in NR xs bin0 <= tot)%Z; [|lia].
    apply sumZ_ge; [apply in_map; exact Hin0|].
    intros y Hy. apply in_map_iff in Hy as (bb & <- & _). apply count_in_nonneg. }
  assert (HT : 0 < IZR tot) by (apply IZR_lt; lia).
  (* raw densities and their mass *)
  assert (Hd : @hist_density NR xs es = map (fun bin => IZR (@count_in NR xs bin) / step / IZR tot) bs).
  { unfold hist_density. fold bs. fold tot. apply map_ext_in. intros bin Hin. simpl. f_equal. f_equal. exact (Hwid bin Hin). }
  assert (Hmass : rsum (@hist_density NR xs es) = 1 / step).
  { rewrite Hd, rsum_scaled. change (F NR) with R in *. fold tot. field. split; apply Rgt_not_eq; first [exact HT | exact Hstep]. }
  assert (Hnorm : @normalize NR (@hist_density NR xs es) = map (fun bin => IZR (@count_in NR xs bin) / IZR tot) bs).
  { unfold normalize. rewrite np_sum_R, Hmass, Hd, map_map. apply map_ext. intros bin. simpl. field. lra. }
  split; [exact Htot|]. split; [exact Hnorm|]. rewrite Hnorm. split.
  - intros v Hv. apply in_map_iff in Hv as (bin & <- & _).
    apply Rmult_le_pos; [apply IZR_le, count_in_nonneg | left; apply Rinv_0_lt_compat; exact HT].
  - assert (G : forall l, rsum (map (fun bin => IZR (@count_in NR xs bin) / IZR tot) l) = IZR (sumZ (map (@count_in NR xs) l)) / IZR tot).
    { induction l as [|bb l IHl]; simpl; [unfold sumZ; simpl; unfold Rdiv; lra|].
      change (F NR) with R in *. rewrite IHl, sumZ_cons, plus_IZR. unfold Rdiv. lra. }
    rewrite G. change (IZR tot / IZR tot = 1). field. lra.
Qed.


(** ---- the per-component support contains every projected score of both windows (so the hypotheses of
        [build_hist_fractions] hold for the histograms the detector builds) ---- *)
Lemma nthF_map_upto (f : Z -> R) (n i : Z) : (0 <= i < n)%Z -> @nthF NR i (map f (upto n)) = f i.
Proof.
  intros H. unfold nthF, upto. rewrite map_map.
  rewrite (nth_indep _ (@f0 NR) (f (Z.of_nat 0))) by (rewrite map_length, seq_length; lia).
  rewrite (map_nth (fun k => f (Z.of_nat k))), seq_nth by lia. f_equal. lia.
Qed.

Lemma fold_min_R : forall (t : list R) (m : R),
  let r := fold_left (fun m y : R => if @fltb NR y m then y else m) t m in r <= m /\ forall y, In y t -> r <= y.
Proof.
  induction t as [|a t IH]; intros m; simpl.
  - split; [lra | intros y []].
  - simpl in IH. destruct (Rlt_dec a m) as [L|G].
    + destruct (IH a) as [I1 I2]. split; [lra|]. intros y [<-|Hy]; [exact I1 | apply I2; exact Hy].
    + destruct (IH m) as [I1 I2]. split; [exact I1|]. intros y [<-|Hy]; [lra | apply I2; exact Hy].
Qed.

Lemma fold_max_R : forall (t : list R) (m : R),
  let r := fold_left (fun m y : R => if @fltb NR m y then y else m) t m in m <= r /\ forall y, In y t -> y <= r.
Proof.
  induction t as [|a t IH]; intros m; simpl.
  - split; [lra | intros y []].
  - simpl in IH. destruct (Rlt_dec m a) as [L|G].
    + destruct (IH a) as [I1 I2]. split; [lra|]. intros y [<-|Hy]; [exact I1 | apply I2; exact Hy].
    + destruct (IH m) as [I1 I2]. split; [exact I1|]. intros y [<-|Hy]; [lra | apply I2; exact Hy].
Qed.

Lemma list_min_R (l : list R) y : In y l -> @list_min NR l <= y.
Proof.
  destruct l as [|a t]; [intros []|]. unfold list_min. destruct (fold_min_R t a) as [I1 I2].
  intros [<-|H]; [exact I1 | apply I2; exact H].
Qed.

Lemma list_max_R (l : list R) y : In y l -> y <= @list_max NR l.
Proof.
  destruct l as [|a t]; [intros []|]. unfold list_max. destruct (fold_max_R t a) as [I1 I2].
  intros [<-|H]; [exact I1 | apply I2; exact H].
Qed.

Lemma supports_contain (npcs i : Z) (r t : list (list R)) y : (0 <= i < npcs)%Z ->
  In y (@col NR i r) \/ In y (@col NR i t) ->
  @nthF NR i (@supports_lower NR npcs r t) <= y <= @nthF NR i (@supports_upper NR npcs r t).
Proof.
  intros Hi Hy. unfold supports_lower, supports_upper, pcs_of. rewrite !nthF_map_upto by exact Hi.
  unfold pymin, pymax. simpl.
  destruct (Rlt_dec (@list_min NR (@col NR i t)) (@list_min NR (@col NR i r))),
           (Rlt_dec (@list_max NR (@col NR i r)) (@list_max NR (@col NR i t)));
    destruct Hy as [Hy|Hy];
    pose proof (list_min_R _ _ Hy); pose proof (list_max_R _ _ Hy); split; lra.
Qed.

End Exact.
