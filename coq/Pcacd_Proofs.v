(** Lemmas about the PCA-CD model (Pcacd.v).  Sections:
    1. one-step facts (every arithmetic instance, no hypothesis on the state),
    2. invariants of the reachable states and the theorems that need them,
    3. histograms (structural facts: edges depend on the support only, permutation invariance),
    4. exact arithmetic (the reals): intersection divergence of normalised histograms. *)
From MV Require Import Base Num Lifecycle Lifecycle_Proofs Pairwise ChangeDet ChangeDet_Proofs Pcacd.
From Coq Require Import Permutation.

Section Steps.
Context {N : Num}.
Variable p : @pc_params N.
Notation st11 := (pc_st p).
Notation upd := (pc_update p).
Notation w := (pc_w p).
Implicit Types s : st11.
Implicit Types x : @pc_input N.

(** ------------------------------- list facts ------------------------------- *)
Lemma lenZ_nonneg {A} (l : list A) : 0 <= lenZ l.
Proof. unfold lenZ. lia. Qed.
Lemma lenZ_app {A} (l1 l2 : list A) : lenZ (l1 ++ l2) = lenZ l1 + lenZ l2.
Proof. unfold lenZ. rewrite app_length. lia. Qed.
Lemma lenZ_nil {A} : lenZ (@nil A) = 0.
Proof. reflexivity. Qed.
Lemma lenZ_one {A} (a : A) : lenZ [a] = 1.
Proof. reflexivity. Qed.
Lemma lenZ_zero_nil {A} (l : list A) : lenZ l = 0 -> l = [].
Proof. destruct l; [reflexivity|]. unfold lenZ. simpl. lia. Qed.
Lemma lenZ_tl_snoc {A} (l : list A) (a : A) : 1 <= lenZ l -> lenZ (tl l ++ [a]) = lenZ l.
Proof. destruct l; unfold lenZ; simpl; [lia|]. rewrite app_length. simpl. lia. Qed.

Lemma upto_length n : length (upto n) = Z.to_nat n.
Proof. unfold upto. rewrite map_length, seq_length. reflexivity. Qed.

Lemma upto_succ n : 0 <= n -> upto (n + 1) = upto n ++ [n].
Proof.
  intros H. unfold upto. replace (Z.to_nat (n + 1)) with (S (Z.to_nat n)) by lia.
  rewrite seq_S, map_app. simpl. rewrite Z2Nat.id by lia. reflexivity.
Qed.

Lemma rangeZ_nil a n : n <= 0 -> rangeZ a n = [].
Proof. intros H. unfold rangeZ, upto. replace (Z.to_nat n) with O by lia. reflexivity. Qed.

Lemma rangeZ_length a n : 0 <= n -> lenZ (rangeZ a n) = n.
Proof. intros H. unfold rangeZ, lenZ. rewrite map_length, upto_length. lia. Qed.

Lemma rangeZ_snoc a n : 0 <= n -> rangeZ a (n + 1) = rangeZ a n ++ [a + n].
Proof. intros H. unfold rangeZ. rewrite upto_succ by exact H. rewrite map_app. reflexivity. Qed.

Lemma rangeZ_cons a n : 0 <= n -> rangeZ a (n + 1) = a :: rangeZ (a + 1) n.
Proof.
  intros H. unfold rangeZ, upto. replace (Z.to_nat (n + 1)) with (S (Z.to_nat n)) by lia.
  simpl. f_equal; [lia|]. rewrite <- seq_shift, !map_map. apply map_ext. intros k. lia.
Qed.

Lemma rangeZ_slide a n : 1 <= n -> tl (rangeZ a n) ++ [a + n] = rangeZ (a + 1) n.
Proof.
  intros H. replace n with ((n - 1) + 1) at 1 by lia. rewrite rangeZ_cons by lia. simpl.
  replace (a + n) with ((a + 1) + (n - 1)) by lia. rewrite <- rangeZ_snoc by lia. f_equal. lia.
Qed.

Lemma rangeZ_In a n j : In j (rangeZ a n) -> a <= j < a + n.
Proof.
  unfold rangeZ, upto. rewrite map_map. intros H. apply in_map_iff in H as (k & <- & Hk).
  apply in_seq in Hk. lia.
Qed.

(** ------------------------------- the three phases, field by field ------------------------------- *)
Ltac split_ifs :=
  repeat match goal with
  | |- context [if ?c then _ else _] => destruct c eqn:?
  end.

Lemma fill_total b s : m_total p (fill_phase p b s) = m_total p s + 1.
Proof. unfold fill_phase. split_ifs; reflexivity. Qed.

Lemma fill_building b s : m_building p (fill_phase p b s) = true.
Proof. unfold fill_phase. split_ifs; reflexivity. Qed.

Lemma fill_frame b s :
  let s' := fill_phase p b s in
  m_npcs p s' = m_npcs p s /\ m_rproj p s' = m_rproj p s /\ m_tproj p s' = m_tproj p s /\
  m_lower p s' = m_lower p s /\ m_upper p s' = m_upper p s /\ m_dref p s' = m_dref p s /\
  m_dtest p s' = m_dtest p s /\ m_scores p s' = m_scores p s /\ m_comp p s' = m_comp p s.
Proof. unfold fill_phase. split_ifs; simpl; repeat split. Qed.

(** after a reported drift: the former test window becomes the reference, everything restarts *)
Lemma fill_after_drift b s : m_ds p s <> DNone ->
  let s' := fill_phase p b s in
  m_ref p s' = m_test p s /\ m_test p s' = [] /\ m_since p s' = 0 /\ m_ds p s' = DNone /\
  m_mon p s' = do_reset (m_mon p s) /\
  m_calls p s' = (if b then [(C_INV, lenZ (m_test p s))] else []).
Proof.
  intros H. unfold fill_phase. destruct (m_ds p s); [congruence| |]; simpl; repeat split.
Qed.

Lemma fill_no_drift b s : m_ds p s = DNone ->
  let s' := fill_phase p b s in
  m_since p s' = m_since p s + 1 /\ m_ds p s' = DNone /\ m_mon p s' = m_mon p s /\ m_calls p s' = [] /\
  (lenZ (m_ref p s) < w -> m_ref p s' = m_ref p s ++ [m_total p s] /\ m_test p s' = m_test p s) /\
  (w <= lenZ (m_ref p s) -> lenZ (m_test p s) < w ->
     m_ref p s' = m_ref p s /\ m_test p s' = m_test p s ++ [m_total p s]) /\
  (w <= lenZ (m_ref p s) -> w <= lenZ (m_test p s) -> m_ref p s' = m_ref p s /\ m_test p s' = m_test p s).
Proof.
  intros H. unfold fill_phase. rewrite H. simpl.
  destruct (Z.ltb_spec (lenZ (m_ref p s)) w); [|destruct (Z.ltb_spec (lenZ (m_test p s)) w)];
    simpl; repeat split; try reflexivity; try lia; try assumption.
Qed.

Lemma build_frame b s x :
  let s' := build_phase p b s x in
  m_total p s' = m_total p s /\ m_since p s' = m_since p s /\ m_ds p s' = m_ds p s /\
  m_ref p s' = m_ref p s /\ m_test p s' = m_test p s /\ m_mon p s' = m_mon p s /\
  m_scores p s' = m_scores p s /\ m_comp p s' = m_comp p s /\ m_dtest p s' = m_dtest p s.
Proof. unfold build_phase. split_ifs; simpl; repeat split. Qed.

Lemma build_building b s x :
  m_building p (build_phase p b s x) = if lenZ (m_test p s) =? w then false else m_building p s.
Proof. unfold build_phase. split_ifs; reflexivity. Qed.

Lemma build_noop b s x : lenZ (m_test p s) <> w -> build_phase p b s x = s.
Proof. intros H. unfold build_phase. destruct (Z.eqb_spec (lenZ (m_test p s)) w); [contradiction | reflexivity]. Qed.

(** what the completed build installs *)
Lemma build_installs b s x : lenZ (m_test p s) = w ->
  let s' := build_phase p b s x in
  m_building p s' = false /\ m_npcs p s' = Some (i_npcs x) /\ m_rproj p s' = i_rproj x /\ m_tproj p s' = i_tproj x /\
  (pc_inter p = true ->
     m_lower p s' = supports_lower (i_npcs x) (i_rproj x) (i_tproj x) /\
     m_upper p s' = supports_upper (i_npcs x) (i_rproj x) (i_tproj x) /\
     m_dref p s' = hists p (i_npcs x) (i_rproj x) (m_lower p s') (m_upper p s')) /\
  (pc_inter p = false -> m_lower p s' = m_lower p s /\ m_upper p s' = m_upper p s /\ m_dref p s' = m_dref p s).
Proof.
  intros H. unfold build_phase. rewrite H, Z.eqb_refl. simpl.
  destruct (pc_inter p); repeat split; intros; try discriminate; repeat split.
Qed.

Definition next_of s x : list (F N) := winsorize p s (i_next x).
Definition tproj_of s x : list (list (F N)) := tl (m_tproj p s) ++ [next_of s x].
(** the score handed to the monitor at a scheduled sample: the maximum over the components *)
Definition score_of s x : F N := list_max (fst (comp_scores p s (tproj_of s x) x)).
Definition mon_of s x := update (m_mon p s) (score_of s x).

Lemma monitor_unscheduled b s x : scheduled p (m_total p s + 1) = false ->
  monitor_phase p b s x =
  mk_pc p (m_total p s + 1) (m_since p s + 1) (m_ds p s) false (m_ref p s) (tl (m_test p s) ++ [m_total p s])
        (m_npcs p s) (m_rproj p s) (tproj_of s x) (m_lower p s) (m_upper p s) (m_dref p s) (m_dtest p s)
        (m_mon p s) (m_scores p s) (m_comp p s) ((if b then [(C_SCALE, 1)] else []) ++ [(C_PCA_TR, 1)]).
Proof. intros H. unfold monitor_phase. rewrite H. reflexivity. Qed.

Lemma monitor_scheduled b s x : scheduled p (m_total p s + 1) = true ->
  let alarm := negb (is_none (ds (mon_of s x))) in
  monitor_phase p b s x =
  mk_pc p (m_total p s + 1) (m_since p s + 1) (if alarm then DDrift else m_ds p s) alarm (m_ref p s)
        (tl (m_test p s) ++ [m_total p s]) (m_npcs p s) (m_rproj p s) (tproj_of s x) (m_lower p s) (m_upper p s)
        (m_dref p s) (snd (comp_scores p s (tproj_of s x) x)) (mon_of s x) (score_of s x :: m_scores p s)
        (fst (comp_scores p s (tproj_of s x) x))
        (((if b then [(C_SCALE, 1)] else []) ++ [(C_PCA_TR, 1)]) ++
         (if pc_inter p then []
          else map (fun _ => (C_KDE, w)) (pcs_of (npcs_of p s)) ++ map (fun _ => (C_JS, w)) (pcs_of (npcs_of p s)))).
Proof.
  intros H. unfold monitor_phase. rewrite H. unfold mon_of, score_of, tproj_of, next_of.
  destruct (comp_scores p s _ x) as [comp dtest]. reflexivity.
Qed.

(** ------------------------------- counters (no hypothesis on the state) ------------------------------- *)
Lemma upd_total b s x : m_total p (upd b s x) = m_total p s + 1.
Proof.
  unfold pc_update. destruct (m_building p s).
  - destruct (build_frame b (fill_phase p b s) x) as (-> & _). apply fill_total.
  - destruct (scheduled p (m_total p s + 1)) eqn:E.
    + rewrite monitor_scheduled by exact E. reflexivity.
    + rewrite monitor_unscheduled by exact E. reflexivity.
Qed.

Lemma upd_since b s x :
  m_since p (upd b s x) = if m_building p s && negb (is_none (m_ds p s)) then 0 else m_since p s + 1.
Proof.
  unfold pc_update. destruct (m_building p s); simpl.
  - destruct (build_frame b (fill_phase p b s) x) as (_ & -> & _).
    destruct (m_ds p s) eqn:E; simpl.
    + apply (fill_no_drift b s E).
    + apply (fill_after_drift b s). congruence.
    + apply (fill_after_drift b s). congruence.
  - destruct (scheduled p (m_total p s + 1)) eqn:E.
    + rewrite monitor_scheduled by exact E. reflexivity.
    + rewrite monitor_unscheduled by exact E. reflexivity.
Qed.

Lemma run_total b : forall xs s, m_total p (pc_run p b s xs) = m_total p s + Z.of_nat (length xs).
Proof.
  induction xs as [|x xs IH]; intros s; simpl; [lia|].
  unfold pc_run in *. simpl. rewrite IH, upd_total. lia.
Qed.

(** ------------------------------- schedule ------------------------------- *)
Definition scores_now s : bool := negb (m_building p s) && scheduled p (m_total p s + 1).

Lemma upd_scores b s x :
  m_scores p (upd b s x) = if scores_now s then score_of s x :: m_scores p s else m_scores p s.
Proof.
  unfold pc_update, scores_now. destruct (m_building p s); simpl.
  - destruct (build_frame b (fill_phase p b s) x) as (_ & _ & _ & _ & _ & _ & -> & _).
    apply (fill_frame b s).
  - destruct (scheduled p (m_total p s + 1)) eqn:E.
    + rewrite monitor_scheduled by exact E. reflexivity.
    + rewrite monitor_unscheduled by exact E. reflexivity.
Qed.

(** the embedded monitor receives exactly the scheduled scores; it is reset on the update after a drift *)
Lemma upd_mon b s x :
  m_mon p (upd b s x) =
  if m_building p s then (if is_none (m_ds p s) then m_mon p s else do_reset (m_mon p s))
  else if scheduled p (m_total p s + 1) then update (m_mon p s) (score_of s x) else m_mon p s.
Proof.
  unfold pc_update. destruct (m_building p s); simpl.
  - destruct (build_frame b (fill_phase p b s) x) as (_ & _ & _ & _ & _ & -> & _).
    destruct (m_ds p s) eqn:E; simpl.
    + apply (fill_no_drift b s E).
    + apply (fill_after_drift b s). congruence.
    + apply (fill_after_drift b s). congruence.
  - destruct (scheduled p (m_total p s + 1)) eqn:E.
    + rewrite monitor_scheduled by exact E. reflexivity.
    + rewrite monitor_unscheduled by exact E. reflexivity.
Qed.

(** ------------------------------- decision ------------------------------- *)
Lemma upd_ds_building b s x : m_building p s = true ->
  m_ds p (upd b s x) = if is_none (m_ds p s) then m_ds p s else DNone.
Proof.
  intros H. unfold pc_update. rewrite H.
  destruct (build_frame b (fill_phase p b s) x) as (_ & _ & -> & _).
  destruct (m_ds p s) eqn:E; simpl.
  - apply (fill_no_drift b s E).
  - apply (fill_after_drift b s). congruence.
  - apply (fill_after_drift b s). congruence.
Qed.

Lemma upd_ds_monitoring b s x : m_building p s = false ->
  m_ds p (upd b s x) =
  if scheduled p (m_total p s + 1) && negb (is_none (ds (mon_of s x))) then DDrift else m_ds p s.
Proof.
  intros H. unfold pc_update. rewrite H.
  destruct (scheduled p (m_total p s + 1)) eqn:E; simpl.
  - rewrite monitor_scheduled by exact E. reflexivity.
  - rewrite monitor_unscheduled by exact E. reflexivity.
Qed.

Lemma upd_building_monitoring b s x : m_building p s = false ->
  m_building p (upd b s x) = scheduled p (m_total p s + 1) && negb (is_none (ds (mon_of s x))).
Proof.
  intros H. unfold pc_update. rewrite H.
  destruct (scheduled p (m_total p s + 1)) eqn:E; simpl.
  - rewrite monitor_scheduled by exact E. reflexivity.
  - rewrite monitor_unscheduled by exact E. reflexivity.
Qed.

(** windows in the monitoring phase: the reference stays, the test window slides by one *)
Lemma upd_windows_monitoring b s x : m_building p s = false ->
  m_ref p (upd b s x) = m_ref p s /\ m_test p (upd b s x) = tl (m_test p s) ++ [m_total p s].
Proof.
  intros H. unfold pc_update. rewrite H.
  destruct (scheduled p (m_total p s + 1)) eqn:E; simpl.
  - rewrite monitor_scheduled by exact E. split; reflexivity.
  - rewrite monitor_unscheduled by exact E. split; reflexivity.
Qed.

(** the update after a drift: reference := former test window, the sample itself is discarded *)
Lemma upd_after_drift b s x : m_building p s = true -> m_ds p s <> DNone -> m_test p s <> [] \/ 1 <= w ->
  let s' := upd b s x in
  m_ref p s' = m_test p s /\ m_test p s' = [] /\ m_since p s' = 0 /\ m_ds p s' = DNone /\
  m_mon p s' = do_reset (m_mon p s) /\ m_total p s' = m_total p s + 1.
Proof.
  intros Hb Hd _. cbv zeta. unfold pc_update. rewrite Hb.
  destruct (build_frame b (fill_phase p b s) x) as (-> & -> & -> & -> & -> & -> & _).
  destruct (fill_after_drift b s Hd) as (-> & -> & -> & -> & -> & _). rewrite fill_total. repeat split.
Qed.

End Steps.

(** =============================== 2. reachable states =============================== *)
Section Reach.
Context {N : Num}.
Variable p : @pc_params N.
Notation st11 := (pc_st p).
Notation upd := (pc_update p).
Notation w := (pc_w p).
Implicit Types s : st11.
Implicit Types x : @pc_input N.
Hypothesis Hw : 1 <= w.

(** phase invariant *)
Record Inv s : Prop := {
  inv_nowarn : m_ds p s <> DWarn;
  inv_drift : m_ds p s = DDrift -> m_building p s = true /\ lenZ (m_ref p s) = w /\ lenZ (m_test p s) = w;
  inv_monitoring : m_building p s = false -> m_ds p s = DNone /\ lenZ (m_ref p s) = w /\ lenZ (m_test p s) = w;
  inv_filling : m_building p s = true -> m_ds p s = DNone ->
                lenZ (m_test p s) < w /\ lenZ (m_ref p s) <= w /\ (lenZ (m_ref p s) < w -> m_test p s = []);
  inv_mon_ds : m_ds p s = DNone -> ds (m_mon p s) = DNone;
  inv_mon_since : 0 <= since (m_mon p s)
}.

Lemma Inv_init : Inv (pc_init p).
Proof.
  constructor; simpl; try congruence; try lia.
  intros _ _. unfold lenZ; simpl. repeat split; lia.
Qed.

Lemma mon_update_since (m : st (PH (ph_of p))) v : 0 <= since m -> 0 <= since (update m v).
Proof. intros H. rewrite update_since. destruct (is_drift (ds m)); lia. Qed.

Lemma Inv_step b s x : Inv s -> Inv (upd b s x).
Proof.
  intros I. destruct (m_building p s) eqn:Hb.
  - (* building *)
    destruct (m_ds p s) eqn:Hd.
    + (* filling *)
      destruct (inv_filling s I Hb Hd) as (Ht & Hr & Hrt).
      unfold pc_update. rewrite Hb.
      destruct (fill_no_drift p b s Hd) as (Hs' & Hd' & Hm' & _ & F1 & F2 & _).
      pose proof (fill_building p b s) as Hb'.
      set (s1 := fill_phase p b s) in *.
      assert (Hwin : (lenZ (m_ref p s1) <= w /\ lenZ (m_test p s1) <= w /\ lenZ (m_ref p s) <= lenZ (m_ref p s1)
                      /\ (lenZ (m_ref p s1) < w -> m_test p s1 = [])
                      /\ (lenZ (m_test p s1) = w -> lenZ (m_ref p s1) = w))).
      { destruct (Z.lt_ge_cases (lenZ (m_ref p s)) w) as [L|G].
        - destruct (F1 L) as [-> ->]. rewrite lenZ_app, lenZ_one. rewrite (Hrt L). rewrite lenZ_nil.
          repeat split; try lia; try (intros; reflexivity).
        - destruct (F2 G Ht) as [-> ->]. rewrite lenZ_app, lenZ_one. repeat split; try lia. }
      destruct Hwin as (W1 & W2 & W3 & W4 & W5).
      destruct (build_frame p b s1 x) as (_ & _ & Bd & Br & Bt & Bm & _).
      pose proof (build_building p b s1 x) as Bb.
      set (s2 := build_phase p b s1 x) in *.
      constructor; rewrite ?Bd, ?Br, ?Bt, ?Bm, ?Hd', ?Hm'; try congruence.
      * rewrite Bb. destruct (Z.eqb_spec (lenZ (m_test p s1)) w) as [E|E]; [|congruence].
        intros _. repeat split; auto.
      * intros Hb2 _. rewrite Bb in Hb2. destruct (Z.eqb_spec (lenZ (m_test p s1)) w) as [E|E]; [discriminate|].
        repeat split; try lia. exact W4.
      * intros _. apply (inv_mon_ds s I Hd).
      * apply (inv_mon_since s I).
    + exfalso. exact (inv_nowarn s I Hd).
    + (* the update after a drift *)
      destruct (inv_drift s I Hd) as (_ & Lr & Lt).
      assert (Hne : m_ds p s <> DNone) by congruence.
      destruct (upd_after_drift p b s x Hb Hne (or_intror Hw)) as (Hr & Ht & _ & Hd' & Hm & _).
      assert (Hb' : m_building p (upd b s x) = true).
      { unfold pc_update. rewrite Hb. rewrite build_noop; [apply fill_building|].
        destruct (fill_after_drift p b s Hne) as (_ & -> & _). rewrite lenZ_nil. lia. }
      constructor; rewrite ?Hd', ?Hr, ?Ht, ?Hm; try congruence.
      * intros _ _. rewrite lenZ_nil. repeat split; try lia; try (intros; reflexivity).
      * intros _. reflexivity.
      * simpl. lia.
  - (* monitoring *)
    destruct (inv_monitoring s I Hb) as (Hd & Lr & Lt).
    destruct (upd_windows_monitoring p b s x Hb) as (Hr & Ht).
    pose proof (upd_ds_monitoring p b s x Hb) as Hd'.
    pose proof (upd_building_monitoring p b s x Hb) as Hb'.
    pose proof (upd_mon p b s x) as Hm. rewrite Hb in Hm.
    assert (Lt' : lenZ (m_test p (upd b s x)) = w) by (rewrite Ht, lenZ_tl_snoc; lia).
    destruct (scheduled p (m_total p s + 1)) eqn:Es.
    + rewrite andb_true_l in Hd', Hb'.
      destruct (ds (mon_of p s x)) eqn:Em; cbn [negb is_none] in Hd', Hb'.
      * constructor; rewrite ?Hd', ?Hr, ?Hm, ?Hd; try congruence.
        -- intros _. repeat split; assumption.
        -- intros _. exact Em.
        -- apply mon_update_since. apply (inv_mon_since s I).
      * constructor; rewrite ?Hd', ?Hr, ?Hm; try congruence.
        -- intros _. repeat split; assumption.
        -- apply mon_update_since. apply (inv_mon_since s I).
      * constructor; rewrite ?Hd', ?Hr, ?Hm; try congruence.
        -- intros _. repeat split; assumption.
        -- apply mon_update_since. apply (inv_mon_since s I).
    + rewrite andb_false_l in Hd', Hb'.
      constructor; rewrite ?Hd', ?Hr, ?Hm, ?Hd; try congruence.
      * intros _. repeat split; assumption.
      * intros _. apply (inv_mon_ds s I Hd).
      * apply (inv_mon_since s I).
Qed.

Lemma Inv_run b : forall xs s, Inv s -> Inv (pc_run p b s xs).
Proof. induction xs as [|x xs IH]; intros s I; [exact I|]. simpl. apply IH. apply Inv_step. exact I. Qed.

Lemma Inv_reach b xs : Inv (pc_run p b (pc_init p) xs).
Proof. apply Inv_run. apply Inv_init. Qed.

(** ------------------------------- lifecycle facts (used by C01 for PCACD) ------------------------------- *)
Lemma since_step b s x : Inv s ->
  m_since p (upd b s x) = if is_drift (m_ds p s) then 0 else m_since p s + 1.
Proof.
  intros I. rewrite upd_since. destruct (m_ds p s) eqn:Hd; simpl.
  - rewrite andb_false_r. reflexivity.
  - exfalso. exact (inv_nowarn s I Hd).
  - destruct (inv_drift s I Hd) as (-> & _). reflexivity.
Qed.

Lemma drift_cleared b s x : Inv s -> m_ds p s = DDrift -> m_ds p (upd b s x) = DNone.
Proof.
  intros I Hd. destruct (inv_drift s I Hd) as (Hb & _). rewrite upd_ds_building by exact Hb. rewrite Hd. reflexivity.
Qed.

Lemma since_bounds b : forall xs s, 0 <= m_since p s <= m_total p s ->
  0 <= m_since p (pc_run p b s xs) <= m_total p (pc_run p b s xs).
Proof.
  induction xs as [|x xs IH]; intros s H; [exact H|]. simpl. apply IH.
  rewrite upd_since, upd_total. destruct (m_building p s && negb (is_none (m_ds p s))); lia.
Qed.

(** ------------------------------- drift iff the embedded Page-Hinkley test alarms ------------------------------- *)
Lemma mon_ds_update (m : st (PH (ph_of p))) (v : F N) : ds m = DNone ->
  ds (update m v) = match snd (ph_step (ph_of p) (epoch m) (since m + 1) v) with Some d => d | None => DNone end.
Proof. intros Hd. rewrite update_eq. unfold pre. rewrite Hd. cbv zeta. simpl is_drift. cbv iota. cbn [ds]. rewrite Hd. reflexivity. Qed.

Lemma mon_alarm_iff (m : st (PH (ph_of p))) (v : F N) : ds m = DNone -> 0 <= since m ->
  (ds (update m v) <> DNone <-> ph_test (ph_of p) (epoch m) (since m + 1) v = true) /\
  (ds (update m v) <> DNone <-> ds (update m v) = DDrift).
Proof.
  intros Hd Hs. rewrite (mon_ds_update m v Hd).
  pose proof (ph_alarm_iff (ph_of p) (epoch m) (since m + 1) v) as A.
  assert (Hb : ph_burn_in (ph_of p) < since m + 1) by (simpl; lia).
  destruct (ph_step_spec (ph_of p) (epoch m) (since m + 1) v) as (_ & _ & _ & _ & Hsnd).
  destruct (snd (ph_step (ph_of p) (epoch m) (since m + 1) v)) as [d|] eqn:E.
  - destruct (ph_test (ph_of p) (epoch m) (since m + 1) v && (ph_burn_in (ph_of p) <? since m + 1)) eqn:T;
      [|discriminate].
    inversion Hsnd; subst d. split; split; intros; try congruence.
    apply A. reflexivity.
  - split; split; intros H; try congruence.
    exfalso. assert (A' : None = Some DDrift) by (apply A; split; [exact H | exact Hb]). discriminate.
Qed.

Lemma drift_iff b s x : Inv s ->
  (m_ds p (upd b s x) = DDrift <->
   m_building p s = false /\ scheduled p (m_total p s + 1) = true /\
   ph_test (ph_of p) (epoch (m_mon p s)) (since (m_mon p s) + 1) (score_of p s x) = true).
Proof.
  intros I. destruct (m_building p s) eqn:Hb.
  - rewrite upd_ds_building by exact Hb. split; [|intros (H & _); discriminate].
    destruct (m_ds p s) eqn:Hd; simpl; try discriminate.
  - destruct (inv_monitoring s I Hb) as (Hd & _).
    rewrite upd_ds_monitoring by exact Hb.
    destruct (mon_alarm_iff (m_mon p s) (score_of p s x) (inv_mon_ds s I Hd) (inv_mon_since s I)) as (A1 & _).
    fold (mon_of p s x) in A1.
    destruct (scheduled p (m_total p s + 1)); simpl.
    + destruct (ds (mon_of p s x)) eqn:Em; simpl.
      * rewrite Hd. split; [discriminate|]. intros (_ & _ & T). exfalso. apply A1 in T. congruence.
      * split; [|reflexivity]. intros _. repeat split. apply A1. discriminate.
      * split; [|reflexivity]. intros _. repeat split. apply A1. discriminate.
    + rewrite Hd. split; [discriminate|]. intros (_ & H & _). discriminate.
Qed.

(** the monitor only ever says None or drift, and exactly when PCA-CD does *)
Lemma drift_is_monitor_state b s x : Inv s -> m_building p s = false ->
  (m_ds p (upd b s x) = DDrift <-> scheduled p (m_total p s + 1) = true /\ ds (mon_of p s x) <> DNone).
Proof.
  intros I Hb. destruct (inv_monitoring s I Hb) as (Hd & _).
  rewrite upd_ds_monitoring by exact Hb.
  destruct (scheduled p (m_total p s + 1)); simpl.
  - destruct (ds (mon_of p s x)); simpl; rewrite ?Hd; split; try discriminate; try (intros [_ H]; congruence);
      intros _; split; congruence.
  - rewrite Hd. split; [discriminate | intros [H _]; discriminate].
Qed.

(** ------------------------------- silent until both windows are full ------------------------------- *)
Definition filled s : Z := lenZ (m_ref p s) + lenZ (m_test p s).

Definition Silent s : Prop :=
  m_ds p s = DNone /\
  ((m_building p s = true /\ lenZ (m_test p s) < w /\ lenZ (m_ref p s) <= w /\ (lenZ (m_ref p s) < w -> m_test p s = []))
   \/ (m_building p s = false /\ filled s = 2 * w)).

Lemma silent_step b s x : Silent s -> m_building p s = true ->
  Silent (upd b s x) /\ filled (upd b s x) = filled s + 1.
Proof.
  intros (Hd & [(Hb & Ht & Hr & Hrt) | (Hb & _)]) Hb'; [|congruence].
  unfold pc_update. rewrite Hb.
  destruct (fill_no_drift p b s Hd) as (_ & Hd' & _ & _ & F1 & F2 & _).
  pose proof (fill_building p b s) as Hb1.
  set (s1 := fill_phase p b s) in *.
  destruct (build_frame p b s1 x) as (_ & _ & Bd & Br & Bt & _).
  pose proof (build_building p b s1 x) as Bb.
  unfold Silent, filled. rewrite Bd, Br, Bt, Bb, Hd', Hb1.
  destruct (Z.lt_ge_cases (lenZ (m_ref p s)) w) as [L|G].
  - destruct (F1 L) as [-> ->]. rewrite (Hrt L), lenZ_app, lenZ_one, lenZ_nil.
    destruct (Z.eqb_spec 0 w); [lia|]. split; [|lia]. split; [reflexivity|]. left.
    repeat split; try lia.
  - destruct (F2 G Ht) as [-> ->]. rewrite lenZ_app, lenZ_one. split; [|lia]. split; [reflexivity|].
    destruct (Z.eqb_spec (lenZ (m_test p s) + 1) w) as [E|E].
    + right. split; [reflexivity|]. lia.
    + left. repeat split; try lia.
Qed.

Lemma silent_run b : forall xs s, Silent s -> m_building p s = true -> Z.of_nat (length xs) <= 2 * w - filled s ->
  Silent (pc_run p b s xs).
Proof.
  induction xs as [|x xs IH]; intros s S Hb L; [exact S|].
  simpl. destruct (silent_step b s x S Hb) as (S' & F').
  destruct (m_building p (upd b s x)) eqn:Hb'.
  - apply IH; try assumption. rewrite F'. simpl length in L. lia.
  - destruct S' as (_ & [(Hb2 & _) | (_ & Hf)]); [congruence|].
    destruct xs as [|y ys]; [|simpl length in L; lia].
    simpl. destruct (silent_step b s x S Hb) as (S'' & _). exact S''.
Qed.

Lemma Silent_init : Silent (pc_init p) /\ m_building p (pc_init p) = true /\ filled (pc_init p) = 0.
Proof.
  unfold Silent, filled. simpl. repeat split. left. unfold lenZ; simpl. repeat split; lia.
Qed.

Lemma silent_start b xs : Z.of_nat (length xs) <= 2 * w -> m_ds p (pc_run p b (pc_init p) xs) = DNone.
Proof.
  intros L. destruct Silent_init as (S & Hb & F).
  apply (silent_run b xs (pc_init p) S Hb). rewrite F. lia.
Qed.

Lemma silent_after_drift b s x xs : Inv s -> m_ds p s = DDrift -> Z.of_nat (length xs) <= w ->
  m_ds p (pc_run p b s (x :: xs)) = DNone.
Proof.
  intros I Hd L. destruct (inv_drift s I Hd) as (Hb & Lr & Lt).
  assert (Hne : m_ds p s <> DNone) by congruence.
  destruct (upd_after_drift p b s x Hb Hne (or_intror Hw)) as (Hr & Ht & _ & Hd' & _).
  assert (Hb' : m_building p (upd b s x) = true).
  { unfold pc_update. rewrite Hb. rewrite build_noop; [apply fill_building|].
    destruct (fill_after_drift p b s Hne) as (_ & -> & _). rewrite lenZ_nil. lia. }
  simpl. apply (silent_run b xs (upd b s x)); [|exact Hb'|].
  - split; [exact Hd'|]. left. rewrite Hr, Ht, lenZ_nil. repeat split; try lia.
  - unfold filled. rewrite Hr, Ht, lenZ_nil. lia.
Qed.

(** ------------------------------- windows as index ranges ------------------------------- *)
(** the test window always holds the most recent samples, the reference window an older contiguous range *)
Definition Win s : Prop :=
  m_test p s = rangeZ (m_total p s - lenZ (m_test p s)) (lenZ (m_test p s)) /\
  exists a, 0 <= a /\ m_ref p s = rangeZ a (lenZ (m_ref p s)) /\ a + lenZ (m_ref p s) <= m_total p s - lenZ (m_test p s) /\
            (lenZ (m_ref p s) < w -> a + lenZ (m_ref p s) = m_total p s).

Lemma Win_init : Win (pc_init p).
Proof. unfold Win. simpl. split; [reflexivity|]. exists 0. unfold lenZ; simpl. repeat split; try lia. Qed.

Lemma Win_step b s x : Inv s -> Win s -> Win (upd b s x).
Proof.
  intros I (Wt & a & Ha & Wr & Wle & Wfirst). unfold Win. rewrite upd_total.
  destruct (m_building p s) eqn:Hb.
  - destruct (m_ds p s) eqn:Hd.
    + destruct (inv_filling s I Hb Hd) as (Ht & Hr & Hrt).
      unfold pc_update. rewrite Hb.
      destruct (fill_no_drift p b s Hd) as (_ & _ & _ & _ & F1 & F2 & _).
      destruct (build_frame p b (fill_phase p b s) x) as (_ & _ & _ & -> & -> & _).
      destruct (Z.lt_ge_cases (lenZ (m_ref p s)) w) as [L|G].
      * destruct (F1 L) as [-> ->]. rewrite (Hrt L) in *. rewrite lenZ_nil in *. split; [rewrite rangeZ_nil by lia; reflexivity|].
        exists a. rewrite lenZ_app, lenZ_one. repeat split; try lia.
        rewrite rangeZ_snoc by apply lenZ_nonneg. rewrite <- Wr. f_equal. f_equal. rewrite <- (Wfirst L). reflexivity.
      * destruct (F2 G Ht) as [-> ->]. rewrite lenZ_app, lenZ_one. split.
        -- rewrite rangeZ_snoc by apply lenZ_nonneg.
           replace (m_total p s + 1 - (lenZ (m_test p s) + 1)) with (m_total p s - lenZ (m_test p s)) by lia.
           rewrite <- Wt. f_equal. f_equal. lia.
        -- exists a. repeat split; try assumption; lia.
    + exfalso. exact (inv_nowarn s I Hd).
    + destruct (inv_drift s I Hd) as (_ & Lr & Lt).
      assert (Hne : m_ds p s <> DNone) by congruence.
      destruct (upd_after_drift p b s x Hb Hne (or_intror Hw)) as (-> & -> & _).
      rewrite lenZ_nil. split; [rewrite rangeZ_nil by lia; reflexivity|].
      exists (m_total p s - lenZ (m_test p s)). repeat split; try lia. exact Wt.
  - destruct (inv_monitoring s I Hb) as (_ & Lr & Lt).
    destruct (upd_windows_monitoring p b s x Hb) as (-> & ->).
    rewrite lenZ_tl_snoc by lia. split.
    + rewrite Wt at 1. rewrite Lt.
      replace (m_total p s) with ((m_total p s - w) + w) at 2 by lia.
      rewrite rangeZ_slide by lia. f_equal. lia.
    + exists a. repeat split; try assumption; lia.
Qed.

Lemma Win_run b : forall xs s, Inv s -> Win s -> Win (pc_run p b s xs).
Proof.
  induction xs as [|x xs IH]; intros s I W; [exact W|]. simpl. apply IH; [apply Inv_step; exact I | apply Win_step; assumption].
Qed.

(** in the monitoring phase (and at a drift) the test window is exactly the last window_size samples *)
Lemma test_window_recent b xs : let s := pc_run p b (pc_init p) xs in
  (m_building p s = false \/ m_ds p s = DDrift) -> m_test p s = rangeZ (m_total p s - w) w.
Proof.
  intros s H. destruct (Win_run b xs (pc_init p) Inv_init Win_init) as (Wt & _). fold s in Wt.
  pose proof (Inv_reach b xs) as I. fold s in I.
  assert (L : lenZ (m_test p s) = w).
  { destruct H as [H|H]; [apply (inv_monitoring s I H) | apply (inv_drift s I H)]. }
  rewrite L in Wt. exact Wt.
Qed.

(** after a drift: the new reference is the former test window, and the sample of that update is in neither
    window - neither then nor at any later time *)
Definition absent (i : Z) s : Prop := i < m_total p s /\ ~ In i (m_ref p s) /\ ~ In i (m_test p s).

Lemma absent_step b i s x : (forall j, In j (m_ref p s) \/ In j (m_test p s) -> j < m_total p s) ->
  absent i s -> absent i (upd b s x).
Proof.
  intros Hlt (Hi & Hr & Ht). unfold absent. rewrite upd_total. split; [lia|].
  assert (Hin_tl : forall l : list Z, In i (tl l) -> In i l) by (intros [|? ?] ?; simpl in *; auto).
  destruct (m_building p s) eqn:Hb.
  - unfold pc_update. rewrite Hb.
    destruct (build_frame p b (fill_phase p b s) x) as (_ & _ & _ & -> & -> & _).
    unfold fill_phase.
    repeat match goal with |- context [if ?c then _ else _] => destruct c end; simpl;
      rewrite ?in_app_iff; simpl; intuition lia.
  - destruct (upd_windows_monitoring p b s x Hb) as (-> & ->).
    rewrite in_app_iff. simpl. split; [exact Hr|]. intros [H|[H|[]]]; [apply Ht, Hin_tl, H | lia].
Qed.

Lemma idx_bound_step b s x : (forall j, In j (m_ref p s) \/ In j (m_test p s) -> j < m_total p s) ->
  forall j, In j (m_ref p (upd b s x)) \/ In j (m_test p (upd b s x)) -> j < m_total p (upd b s x).
Proof.
  intros Hlt j. rewrite upd_total.
  assert (Hin_tl : forall l : list Z, In j (tl l) -> In j l) by (intros [|? ?] ?; simpl in *; auto).
  destruct (m_building p s) eqn:Hb.
  - unfold pc_update. rewrite Hb.
    destruct (build_frame p b (fill_phase p b s) x) as (_ & _ & _ & -> & -> & _).
    unfold fill_phase.
    repeat match goal with |- context [if ?c then _ else _] => destruct c end; simpl;
      rewrite ?in_app_iff; simpl; intros H;
      assert (In j (m_ref p s) \/ In j (m_test p s) \/ j = m_total p s) as [H'|[H'|H']] by intuition;
      try (specialize (Hlt j); intuition lia); lia.
  - destruct (upd_windows_monitoring p b s x Hb) as (-> & ->).
    rewrite in_app_iff. simpl. intros [H|[H|[H|[]]]].
    + specialize (Hlt j); intuition lia.
    + apply Hin_tl in H. specialize (Hlt j); intuition lia.
    + lia.
Qed.

Lemma absent_run b i : forall xs s, (forall j, In j (m_ref p s) \/ In j (m_test p s) -> j < m_total p s) ->
  absent i s -> absent i (pc_run p b s xs).
Proof.
  induction xs as [|x xs IH]; intros s Hlt A; [exact A|]. simpl. apply IH.
  - apply idx_bound_step. exact Hlt.
  - apply absent_step; assumption.
Qed.

Lemma idx_bound_reach b : forall xs s, (forall j, In j (m_ref p s) \/ In j (m_test p s) -> j < m_total p s) ->
  forall j, In j (m_ref p (pc_run p b s xs)) \/ In j (m_test p (pc_run p b s xs)) -> j < m_total p (pc_run p b s xs).
Proof.
  induction xs as [|x xs IH]; intros s Hlt; [exact Hlt|]. simpl. apply IH. apply idx_bound_step. exact Hlt.
Qed.

Lemma after_drift_windows b xs x ys : let s := pc_run p b (pc_init p) xs in
  m_ds p s = DDrift ->
  let s' := upd b s x in
  m_ref p s' = m_test p s /\ m_ref p s' = rangeZ (m_total p s - w) w /\ m_test p s' = [] /\
  absent (m_total p s) (pc_run p b s' ys).
Proof.
  intros s Hd s'.
  pose proof (Inv_reach b xs) as I. fold s in I.
  destruct (inv_drift s I Hd) as (Hb & Lr & Lt).
  assert (Hne : m_ds p s <> DNone) by congruence.
  destruct (upd_after_drift p b s x Hb Hne (or_intror Hw)) as (Hr & Ht & _ & _ & _ & Htot). fold s' in Hr, Ht, Htot.
  assert (Hlt : forall j, In j (m_ref p s) \/ In j (m_test p s) -> j < m_total p s).
  { apply (idx_bound_reach b xs (pc_init p)). simpl. intros j [[]|[]]. }
  pose proof (test_window_recent b xs (or_intror Hd)) as Hrec. fold s in Hrec.
  repeat split; try assumption.
  - rewrite Hr. exact Hrec.
  - apply absent_run.
    + apply idx_bound_step. exact Hlt.
    + unfold absent. rewrite Htot, Hr, Ht. split; [lia|]. split; [|intros []].
      intros H. specialize (Hlt (m_total p s)). intuition lia.
Qed.

End Reach.
