(** Checkers evaluated by the C20 correspondence harness: the injector models of [Inject.v] on the
    bit-exact instance [NumFloat], column labels are strings. *)
From MV Require Import Base Num NumFloat Inject.
From Coq Require Import PrimFloat String.

Definition ffr := frame string float.
Definition cref := colref string.

Definition rows_eqb : list (list float) -> list (list float) -> bool := list_eqb (list_eqb fbits_eqb).
Definition frame_eqb (a b : ffr) : bool :=
  match a, b with
  | Arr r, Arr r' => rows_eqb r r'
  | DF c r, DF c' r' => list_eqb String.eqb c c' && rows_eqb r r'
  | _, _ => false
  end.
(** [None] = the call raised *)
Definition ofr_eqb : option ffr -> option ffr -> bool := opt_eqb frame_eqb.

Definition feq : float -> float -> bool := PrimFloat.eqb.
Definition flt : float -> float -> bool := PrimFloat.ltb.
(** the Python literal [1e-9] *)
Definition tol9 : float := 0x1.12e0be826d695p-30%float.

Definition chk_swap (fr : ffr) (from to : Z) (c1 c2 : cref) (exp : option ffr) : bool :=
  ofr_eqb (call_swap String.eqb fr from to c1 c2) exp.
(** the swap applied to its own result (involution check on the model side as well) *)
Definition chk_swap_twice (fr : ffr) (from to : Z) (c1 c2 : cref) (exp : option ffr) : bool :=
  ofr_eqb (match call_swap String.eqb fr from to c1 c2 with
           | Some fr' => call_swap String.eqb fr' from to c1 c2
           | None => None end) exp.
Definition chk_label_swap (fr : ffr) (from to : Z) (c : cref) (k1 k2 : float) (exp : option ffr) : bool :=
  ofr_eqb (call_label_swap String.eqb feq fr from to c k1 k2) exp.
Definition chk_label_swap_twice (fr : ffr) (from to : Z) (c : cref) (k1 k2 : float) (exp : option ffr) : bool :=
  ofr_eqb (match call_label_swap String.eqb feq fr from to c k1 k2 with
           | Some fr' => call_label_swap String.eqb feq fr' from to c k1 k2
           | None => None end) exp.
Definition chk_label_join (fr : ffr) (from to : Z) (c : cref) (k1 k2 knew : float) (exp : option ffr) : bool :=
  ofr_eqb (call_label_join String.eqb feq fr from to c k1 k2 knew) exp.
(** [m] = the value np.mean returned (oracle); it must agree with the left-to-right mean of the
    window column up to 1e-12 relative to the mean absolute value (numpy sums pairwise), be NaN on
    an empty window, and agree in kind when the column holds non-finite values *)
Definition fin (x : float) : bool := PrimFloat.eqb (PrimFloat.sub x x) 0%float.
Definition mean_oracle_ok (m : float) (xs : list float) : bool :=
  match xs with
  | [] => PrimFloat.is_nan m
  | _ =>
      let n := float_ofZ (len xs) in
      let mn := PrimFloat.div (fold_left PrimFloat.add xs 0%float) n in
      let sc := PrimFloat.div (fold_left (fun a x => PrimFloat.add a (PrimFloat.abs x)) xs 0%float) n in
      if fin sc then
        PrimFloat.leb (PrimFloat.abs (PrimFloat.sub m mn))
                      (PrimFloat.add (PrimFloat.mul 0x1p-40%float sc) 0x1p-1000%float)
      else (PrimFloat.is_nan m && PrimFloat.is_nan mn) || PrimFloat.eqb m mn || negb (fin m)
  end.
Definition chk_shift (fr : ffr) (from to : Z) (c : cref) (sf alpha m : float) (exp : option ffr) : bool :=
  ofr_eqb (call_shift NumFloat String.eqb (fun _ => m) fr from to c sf alpha) exp
  && match exp, resolve String.eqb fr c with
     | Some _, Some i => mean_oracle_ok m (column 0%float i (win_rows from to (rows_of fr)))
     | _, _ => true
     end.
Definition chk_brownian (fr : ffr) (from to : Z) (c : cref) (x0 : float) (signs : list Z)
  (exp : option ffr) : bool :=
  ofr_eqb (call_brownian NumFloat String.eqb fr from to c x0 signs) exp.

Definition optfl_eqb : option (list float) -> option (list float) -> bool := opt_eqb (list_eqb fbits_eqb).
(** [exp_p] = the recorded [_p_distribution] ([None]: not observable, not compared) *)
Definition chk_pdist (fr : ffr) (from to : Z) (c : cref) (cp : dict NumFloat)
  (exp_p : option (list float)) : bool :=
  match exp_p, resolve String.eqb fr c with
  | Some p, Some i => optfl_eqb (p_distribution NumFloat tol9 from to i cp (rows_of fr)) (Some p)
  | Some _, None => false
  | None, _ => true
  end.
(** the draws must point into the sampling pool (hypothesis [positions_ok] of the row theorems)
    and there must be one draw per window row *)
Definition positions_okb (fr : ffr) (from to : Z) (c : cref) (positions : list Z) : bool :=
  match resolve String.eqb fr c with
  | Some i =>
      let g := grouped feq 0%float from to i (np_unique feq flt (column 0%float i (rows_of fr))) (rows_of fr) in
      match g with
      | [] => true
      | _ => forallb (fun p => (0 <=? p) && (p <? len g)) positions && (len positions =? to - from)
      end
  | None => true
  end.
Definition chk_label_probability (fr : ffr) (from to : Z) (c : cref) (cp : dict NumFloat)
  (positions : list Z) (exp_p : option (list float)) (exp : option ffr) : bool :=
  ofr_eqb (call_label_probability NumFloat String.eqb tol9 fr from to c cp positions) exp
  && chk_pdist fr from to c cp exp_p
  && match exp with Some _ => positions_okb fr from to c positions | None => true end.
Definition chk_label_dirichlet (fr : ffr) (from to : Z) (c : cref) (keys dir : list float)
  (positions : list Z) (exp_p : option (list float)) (exp : option ffr) : bool :=
  ofr_eqb (call_label_dirichlet NumFloat String.eqb tol9 fr from to c keys dir positions) exp
  && chk_pdist fr from to c (combine keys dir) exp_p
  && match exp with Some _ => positions_okb fr from to c positions | None => true end.

(** [idxs] = row labels returned by pandas' group sampling; the oracle answer must be legal
    whenever the call succeeded *)
Definition chk_cover (fr : ffr) (c : cref) (sample_size : Z) (idxs : list Z) (exp : option ffr) : bool :=
  ofr_eqb (call_cover String.eqb feq flt 0%float fr c sample_size idxs) exp
  && match exp, resolve String.eqb fr c with
     | Some _, Some i => cover_oracle_ok feq flt 0%float i sample_size idxs (rows_of fr)
     | _, _ => true
     end.

(** diagnosis *)
Definition show_rows (o : option ffr) : option (list (list float)) :=
  match o with Some fr => Some (rows_of fr) | None => None end.

(** the attribute [_columns] left on the instance by a call on [fr] ([exp]: observed value) *)
Definition chk_state (fr : ffr) (exp : option (list string)) : bool :=
  opt_eqb (list_eqb String.eqb) (fst (preprocess (A := float) None fr)) exp.
