(** Model of menelaus/ensemble/ensemble.py: Ensemble / StreamingEnsemble / BatchEnsemble.

    Members are abstract machines: the model knows nothing about a member except its state type [M]
    and the five things the ensemble does with a detector object:
      [mupd]    detector.update(X=.., y_true=.., y_pred=..)
      [msetref] detector.set_reference(X=.., y_true=.., y_pred=..)
      [mreset]  detector.reset()
      [mds]     detector.drift_state
      [mrecs]   detector.retraining_recs, [None] when hasattr(detector, "retraining_recs") is false.
    Members of different kinds live in the one type [M] (a sum type, or the packed machines of
    section [Hetero] below).  A column selector is an arbitrary function of the input; a key without
    selector gets the whole X (the defaultdict of ensemble.py:29-33).  The election is an arbitrary
    function of its own state and of the list of member drift states, in insertion order.
    No proofs in this file. *)
From MV Require Import Base Election.

Section Ensemble.
  Variables (K X Y M R ES : Type).
  Variable mupd : M -> X -> Y -> Y -> M.
  Variable msetref : M -> X -> Y -> Y -> M.
  Variable mreset : M -> M.
  Variable mds : M -> dstate.
  Variable mrecs : M -> option R.
  Variable elect : ES -> list dstate -> dstate * ES.

  (** one entry of [self.detectors] together with its entry of [self.column_selectors] *)
  Record member := mk_member { key : K; mst : M; sel : option (X -> X) }.

  (** [self.column_selectors[det_key](X)]; the default selector is [lambda data: data] *)
  Definition select (s : option (X -> X)) (x : X) : X :=
    match s with Some f => f x | None => x end.

  (** [members]: the dict [self.detectors] in insertion order; [est]: whatever the election object
      remembers between calls; [eds], [etotal], [esince]: the ensemble's own detector attributes
      (drift_state, total_samples / total_batches, samples_since_reset / batches_since_reset). *)
  Record ens := mk_ens { members : list member; est : ES; eds : dstate; etotal : Z; esince : Z }.

  (** __init__ *)
  Definition ens_init (ms : list member) (es : ES) : ens := mk_ens ms es DNone 0 0.

  (** body of the loop of Ensemble.update (ensemble.py:45-49) *)
  Definition member_update (x : X) (yt yp : Y) (m : member) : member :=
    mk_member (key m) (mupd (mst m) (select (sel m) x) yt yp) (sel m).
  (** body of the loop of BatchEnsemble.set_reference (ensemble.py:239-245) *)
  Definition member_setref (x : X) (yt yp : Y) (m : member) : member :=
    mk_member (key m) (msetref (mst m) (select (sel m) x) yt yp) (sel m).
  (** body of the loop of Ensemble.reset (ensemble.py:59-60) *)
  Definition member_reset (m : member) : member :=
    mk_member (key m) (mreset (mst m)) (sel m).

  Definition states (ms : list member) : list dstate := map (fun m => mds (mst m)) ms.

  (** StreamingEnsemble.update / BatchEnsemble.update:
        Ensemble.update: for every key in insertion order: select the columns, update the member;
                         then  self.drift_state = self.election(list(self.detectors.values()))
        StreamingDetector.update / BatchDetector.update: both counters += 1.
      There is no "if self.drift_state == 'drift': self.reset()" prologue. *)
  Definition ens_update (e : ens) (x : X) (yt yp : Y) : ens :=
    let ms := map (member_update x yt yp) (members e) in
    let '(d, es') := elect (est e) (states ms) in
    mk_ens ms es' d (etotal e + 1) (esince e + 1).

  (** StreamingEnsemble.reset / BatchEnsemble.reset: Ensemble.reset (every member), then the base
      class reset: since-reset counter := 0, drift_state := None.  The election object is not touched. *)
  Definition ens_reset (e : ens) : ens :=
    mk_ens (map member_reset (members e)) (est e) DNone (etotal e) 0.

  (** BatchEnsemble.set_reference: the fan-out loop and nothing else. *)
  Definition ens_set_reference (e : ens) (x : X) (yt yp : Y) : ens :=
    mk_ens (map (member_setref x yt yp) (members e)) (est e) (eds e) (etotal e) (esince e).

  (** the two properties: dicts in insertion order *)
  Definition drift_states (e : ens) : list (K * dstate) :=
    map (fun m => (key m, mds (mst m))) (members e).
  Fixpoint recs_view (ms : list member) : list (K * R) :=
    match ms with
    | [] => []
    | m :: t => match mrecs (mst m) with
                | Some r => (key m, r) :: recs_view t
                | None => recs_view t
                end
    end.
  Definition retraining_recs (e : ens) : list (K * R) := recs_view (members e).

  (** ---- histories ---- *)
  Inductive op := OUpdate (x : X) (yt yp : Y) | OReset | OSetRef (x : X) (yt yp : Y).

  Definition step (e : ens) (o : op) : ens :=
    match o with
    | OUpdate x yt yp => ens_update e x yt yp
    | OReset => ens_reset e
    | OSetRef x yt yp => ens_set_reference e x yt yp
    end.
  Definition run (e : ens) (ops : list op) : ens := fold_left step ops e.

  (** StreamingEnsemble has no set_reference: its histories are those of [sop]s.  Its update and
      reset are the same two-line bodies as BatchEnsemble's (only the counter names differ). *)
  Inductive sop := SUpdate (x : X) (yt yp : Y) | SReset.
  Definition embed (o : sop) : op :=
    match o with SUpdate x yt yp => OUpdate x yt yp | SReset => OReset end.
  Definition streaming_run (e : ens) (ops : list sop) : ens := run e (map embed ops).
  Definition batch_run (e : ens) (ops : list op) : ens := run e ops.

  (** ---- a member on its own ---- *)
  Inductive mop := MUpdate (x : X) (yt yp : Y) | MReset | MSetRef (x : X) (yt yp : Y).
  Definition mstep (s : M) (o : mop) : M :=
    match o with
    | MUpdate x yt yp => mupd s x yt yp
    | MReset => mreset s
    | MSetRef x yt yp => msetref s x yt yp
    end.
  Definition mrun (s : M) (ops : list mop) : M := fold_left mstep ops s.

  (** what a user running member [m] alone would do for ensemble operation [o] *)
  Definition project (s : option (X -> X)) (o : op) : mop :=
    match o with
    | OUpdate x yt yp => MUpdate (select s x) yt yp
    | OReset => MReset
    | OSetRef x yt yp => MSetRef (select s x) yt yp
    end.
  Definition solo (m : member) (ops : list op) : M := mrun (mst m) (map (project (sel m)) ops).
  Definition solo_member (ops : list op) (m : member) : member := mk_member (key m) (solo m ops) (sel m).
  (** the vector the election must see after [ops]: drift states of the solo twins, insertion order *)
  Definition solo_vector (ms : list member) (ops : list op) : list dstate :=
    map (fun m => mds (solo m ops)) ms.

  (** ---- what the user observes after every operation ---- *)
  Fixpoint states_after (e : ens) (ops : list op) : list ens :=
    match ops with
    | [] => []
    | o :: t => let e' := step e o in e' :: states_after e' t
    end.

  (** specification of the ensemble's own drift_state along a history, written without the ensemble:
      [ms] are the members at construction, [pre] the operations already performed. *)
  Fixpoint spec_verdicts (ms : list member) (es : ES) (d : dstate) (pre ops : list op) : list (dstate * ES) :=
    match ops with
    | [] => []
    | o :: t =>
        let pre' := pre ++ [o] in
        match o with
        | OUpdate _ _ _ =>
            let '(d', es') := elect es (solo_vector ms pre') in (d', es') :: spec_verdicts ms es' d' pre' t
        | OReset => (DNone, es) :: spec_verdicts ms es DNone pre' t
        | OSetRef _ _ _ => (d, es) :: spec_verdicts ms es d pre' t
        end
    end.

  Definition is_update (o : op) : bool := match o with OUpdate _ _ _ => true | _ => false end.
  Definition is_reset (o : op) : bool := match o with OReset => true | _ => false end.
  Definition n_updates (ops : list op) : Z := Z.of_nat (length (filter is_update ops)).
End Ensemble.

Arguments mk_member {K X M}. Arguments key {K X M}. Arguments mst {K X M}. Arguments sel {K X M}.
Arguments mk_ens {K X M ES}. Arguments members {K X M ES}. Arguments est {K X M ES}.
Arguments eds {K X M ES}. Arguments etotal {K X M ES}. Arguments esince {K X M ES}.
Arguments ens_init {K X M ES}. Arguments select {X}.
Arguments OUpdate {X Y}. Arguments OReset {X Y}. Arguments OSetRef {X Y}.
Arguments SUpdate {X Y}. Arguments SReset {X Y}.
Arguments MUpdate {X Y}. Arguments MReset {X Y}. Arguments MSetRef {X Y}.
Arguments is_update {X Y}. Arguments is_reset {X Y}. Arguments n_updates {X Y}. Arguments embed {X Y}.
Arguments project {X Y}.

(** ---- the four elections of election.py as instances ([Election.v]) ---- *)
Inductive election_kind :=
| EMajority | EMinApproval (a : Z) | EOrdered (a c : Z) | EConfirmed (p : confirmed)
| EPositional (ws : list Z) (thr : Z).

(** a user-defined election (harness/c12.py: PositionalElection) whose verdict depends on *which*
    positions alarm: the shipped elections only count, so they cannot tell the order of the list *)
Fixpoint weigh (f : dstate -> bool) (ws : list Z) (l : list dstate) : Z :=
  match ws, l with
  | w :: ws', d :: l' => (if f d then w else 0) + weigh f ws' l'
  | _, _ => 0
  end.
Definition positional (ws : list Z) (thr : Z) (l : list dstate) : dstate :=
  if thr <=? weigh is_drift ws l then DDrift
  else if thr <=? weigh (fun d => negb (is_none d)) ws l then DWarn else DNone.

(** only ConfirmedElection keeps state: [wait_period_counters], [None] before its first call *)
Definition estate := option (list Z).

Definition elect_of (k : election_kind) (s : estate) (l : list dstate) : dstate * estate :=
  match k with
  | EMajority => (simple_majority l, s)
  | EMinApproval a => (min_approval a l, s)
  | EOrdered a c => (ordered_approval a c l, s)
  | EConfirmed p => confirmed_call p s l
  | EPositional ws thr => (positional ws thr l, s)
  end.

(** ---- members of different kinds in one ensemble: packed machines ---- *)
Section Hetero.
  Variables (X Y R : Type).
  Record machine := mk_machine {
    m_state : Type;
    m_upd : m_state -> X -> Y -> Y -> m_state;
    m_setref : m_state -> X -> Y -> Y -> m_state;
    m_reset : m_state -> m_state;
    m_ds : m_state -> dstate;
    m_recs : m_state -> option R
  }.
  Definition packed := { mc : machine & m_state mc }.
  Definition pack (mc : machine) (s : m_state mc) : packed := existT _ mc s.
  Definition p_upd (p : packed) (x : X) (yt yp : Y) : packed :=
    pack (projT1 p) (m_upd (projT1 p) (projT2 p) x yt yp).
  Definition p_setref (p : packed) (x : X) (yt yp : Y) : packed :=
    pack (projT1 p) (m_setref (projT1 p) (projT2 p) x yt yp).
  Definition p_reset (p : packed) : packed := pack (projT1 p) (m_reset (projT1 p) (projT2 p)).
  Definition p_ds (p : packed) : dstate := m_ds (projT1 p) (projT2 p).
  Definition p_recs (p : packed) : option R := m_recs (projT1 p) (projT2 p).
End Hetero.
Arguments m_state {X Y R}. Arguments m_upd {X Y R}. Arguments m_setref {X Y R}. Arguments m_reset {X Y R}.
Arguments m_ds {X Y R}. Arguments m_recs {X Y R}. Arguments pack {X Y R}.
Arguments p_upd {X Y R}. Arguments p_setref {X Y R}. Arguments p_reset {X Y R}.
Arguments p_ds {X Y R}. Arguments p_recs {X Y R}.

(** ---- correspondence check: the model run over replayed members ----
    The behaviour of a real detector is an oracle of the model: member [i] is a machine that replays
    the observations of the twin detector the harness ran alone, one script entry per call, and
    verifies that the call it receives is the call the twin received (same kind of call, same batch /
    sample number, same columns, same labels).  The input [X] is (number of the sample or batch,
    column identifiers it carries). *)
Definition rx := (Z * list Z)%type.

Record entry := mk_entry {
  en_tag : Z;                  (* 0 update, 1 reset, 2 set_reference: the call made on the twin *)
  en_t : Z;                    (* number of the sample / batch the twin was given (-1 for reset) *)
  en_yt : Z; en_yp : Z;        (* identifiers of the labels the twin was given *)
  en_ds : dstate;              (* twin.drift_state after the call *)
  en_recs : option recsT       (* twin.retraining_recs after the call, None: no such attribute *)
}.

Record rmem := mk_rmem {
  script : list entry; cur_ds : dstate; cur_recs : option recsT; want_cols : list Z; ok : bool
}.

Definition rcall (tag : Z) (s : rmem) (x : option rx) (yt yp : Z) : rmem :=
  match script s with
  | [] => mk_rmem [] (cur_ds s) (cur_recs s) (want_cols s) false
  | e :: rest =>
      let same_x := match x with
                    | Some (t, cols) => (en_t e =? t) && list_eqb Z.eqb cols (want_cols s)
                                        && (en_yt e =? yt) && (en_yp e =? yp)
                    | None => true
                    end in
      mk_rmem rest (en_ds e) (en_recs e) (want_cols s) (ok s && (en_tag e =? tag) && same_x)
  end.

Definition r_upd (s : rmem) (x : rx) (yt yp : Z) : rmem := rcall 0 s (Some x) yt yp.
Definition r_setref (s : rmem) (x : rx) (yt yp : Z) : rmem := rcall 2 s (Some x) yt yp.
Definition r_reset (s : rmem) : rmem := rcall 1 s None 0 0.

(** numpy's X[:, cols] on the column identifiers *)
Definition pick (cols : list Z) (x : rx) : rx :=
  (fst x, map (fun j => nth (Z.to_nat j) (snd x) (-1)) cols).

(** description of one member: key, selector columns ([None]: no selector), the columns the twin was
    given, the twin's observation right after construction, the twin's script *)
Record mspec := mk_mspec {
  ms_key : Z; ms_cols : option (list Z); ms_want : list Z;
  ms_ds0 : dstate; ms_recs0 : option recsT; ms_script : list entry
}.

Definition rmember (s : mspec) : member Z rx rmem :=
  mk_member (ms_key s)
            (mk_rmem (ms_script s) (ms_ds0 s) (ms_recs0 s) (ms_want s) true)
            (option_map pick (ms_cols s)).

Definition rens := ens Z rx rmem estate.
Definition r_step (k : election_kind) : rens -> op rx Z -> rens :=
  step Z rx Z rmem estate r_upd r_setref r_reset cur_ds (elect_of k).

(** what the harness reads from the real ensemble after every operation *)
Record eobs := mk_eobs {
  ob_ds : dstate; ob_total : Z; ob_since : Z;
  ob_states : list (Z * dstate); ob_recs : list (Z * recsT);
  ob_wait : list Z             (* ConfirmedElection.wait_period_counters ([] when absent / None) *)
}.

Definition r_observe (e : rens) : eobs :=
  mk_eobs (eds e) (etotal e) (esince e)
          (drift_states Z rx rmem estate cur_ds e)
          (retraining_recs Z rx rmem recsT estate cur_recs e)
          (match est e with Some cs => cs | None => [] end).

Fixpoint r_trace (k : election_kind) (e : rens) (ops : list (op rx Z)) : list eobs :=
  match ops with
  | [] => []
  | o :: t => let e' := r_step k e o in r_observe e' :: r_trace k e' t
  end.

Definition pair_eqb {A B} (fa : A -> A -> bool) (fb : B -> B -> bool) (x y : A * B) : bool :=
  fa (fst x) (fst y) && fb (snd x) (snd y).

Definition eobs_eqb (a b : eobs) : bool :=
  dstate_eqb (ob_ds a) (ob_ds b) && (ob_total a =? ob_total b) && (ob_since a =? ob_since b)
  && list_eqb (pair_eqb Z.eqb dstate_eqb) (ob_states a) (ob_states b)
  && list_eqb (pair_eqb Z.eqb recs_eqb) (ob_recs a) (ob_recs b)
  && list_eqb Z.eqb (ob_wait a) (ob_wait b).

(** every member received exactly the calls its twin received, and used its whole script *)
Definition member_done (m : member Z rx rmem) : bool :=
  ok (mst m) && match script (mst m) with [] => true | _ => false end.

Definition r_final (k : election_kind) (ms : list mspec) (ops : list (op rx Z)) : rens :=
  fold_left (r_step k) ops (ens_init (map rmember ms) None).

(** [exp]: the real ensemble's observations, first right after construction, then after every
    operation of [ops] *)
Definition chk_ens (k : election_kind) (ms : list mspec) (ops : list (op rx Z)) (exp : list eobs) : bool :=
  let e0 : rens := ens_init (map rmember ms) None in
  list_eqb eobs_eqb (r_observe e0 :: r_trace k e0 ops) exp
  && forallb member_done (members (r_final k ms ops)).

(** diagnosis *)
Definition show_ens (k : election_kind) (ms : list mspec) (ops : list (op rx Z)) (exp : list eobs)
  : option Z * list bool :=
  let e0 : rens := ens_init (map rmember ms) None in
  (first_diff eobs_eqb (r_observe e0 :: r_trace k e0 ops) exp 0,
   map member_done (members (r_final k ms ops))).

(** short names for the generated case files (harness/c12.py) *)
Module C12n.
  Definition EN := mk_entry.
  Definition OB := mk_eobs.
  Definition MS := mk_mspec.
  Definition U (t : Z) (cols : list Z) (yt yp : Z) : op rx Z := OUpdate (t, cols) yt yp.
  Definition RS : op rx Z := OReset.
  Definition SR (t : Z) (cols : list Z) (yt yp : Z) : op rx Z := OSetRef (t, cols) yt yp.
  Definition NA : option recsT := None.
  Definition R0 : option recsT := Some recs_none.
  Definition RR (a b : option Z) : option recsT := Some (a, b).
  Definition N := DNone. Definition W := DWarn. Definition D := DDrift.
  Definition CF (s w : Z) : election_kind := EConfirmed {| sensitivity := s; wait_time := w |}.
End C12n.
