(** C17, HDDDM / CDBD part — a smaller t-test significance, or a larger number of standard deviations,
    never moves the first reported drift to an earlier batch.
    Statements only (proofs: Mono_C07.v, on the model Hdm.v of property C07).  Two runs of the model on
    the SAME call history [ops] (same batches, same set_reference calls, same bootstrap estimates), the
    same divergence / squaring / truncation oracles, differing only in [significance]:
      - statistic "tstat": significance enters only through the oracle t.ppf(1 - significance/2, df);
        the looser run uses [tppf1], the stricter [tppf2], hypothesis tppf1 df <= tppf2 df for all df
        (t.ppf is antitone in significance - an oracle contract, not proved);
      - statistic "stdev": hypothesis sig1 <= sig2 on the number of standard deviations.
    detect_batch 1 / 2 / 3 alike: the bootstrap estimate is an argument of the call, hence the same
    value on both sides, and the proxy batch of detect_batch = 1 never computes a threshold.
    Hypotheses on the arithmetic (explicit, never axioms): [MonoLaws N] (NumLaws.v) and two laws about
    the quotient sigma / sqrt d:  0 <= a -> 0 < b -> 0 <= a / b   and   1 <= d -> 0 < sqrt (ofZ d).
    All hold for the reals (last theorems: the statements are not vacuous, and are unconditional
    there) and for IEEE doubles without NaN (for the float instance they are an assumption). *)
From MV Require Import Base Num NumLaws Hist Hdm Hdm_Proofs Lifecycle_Mono Mono_C07.
From Coq Require Import Reals.
Local Open Scope Z_scope.

Section C17_hdm.
Context {N : Num}.
Notation F := (F N).
Variable ML : MonoLaws N.
Variable div_nonneg : forall a b : F, fleb f0 a = true -> fltb f0 b = true -> fleb f0 (fdiv a b) = true.
Variable sqrt_ofZ_pos : forall d : Z, 1 <= d -> @fltb N f0 (fsqrt (fofZ d)) = true.
Variable trunc : F -> Z.
Variable sq : F -> F.
Variable dist : list Z -> list Z -> F.

Notation FD tppf p ops := (hfirst_drift (hdm_trace trunc sq dist tppf p hdm_init ops)).
Notation P db tstat sig k := (@Build_hdm_params N db tstat sig k).

(** "stdev": more standard deviations = stricter *)
Theorem C17_hdm_stdev : forall tppf db k (sig1 sig2 : F) ops, fleb sig1 sig2 = true ->
  opt_le (FD tppf (P db false sig1 k) ops) (FD tppf (P db false sig2 k) ops).
Proof.
  intros tppf db k sig1 sig2 ops Hs.
  apply (hdm_first_drift_monotone trunc sq dist tppf tppf (P db false sig1 k) (P db false sig2 k)
           eq_refl eq_refl eq_refl ML div_nonneg sqrt_ofZ_pos).
  - simpl. intros; discriminate.
  - intros _. exact Hs.
  - reflexivity.
  - simpl. discriminate.
  - apply hinv_init.
Qed.

(** "tstat": smaller significance = larger t quantile = stricter *)
Theorem C17_hdm_tstat : forall tppf1 tppf2 db k (sig1 sig2 : F) ops,
  (forall df, fleb (tppf1 df) (tppf2 df) = true) ->
  opt_le (FD tppf1 (P db true sig1 k) ops) (FD tppf2 (P db true sig2 k) ops).
Proof.
  intros tppf1 tppf2 db k sig1 sig2 ops Ht.
  apply (hdm_first_drift_monotone trunc sq dist tppf1 tppf2 (P db true sig1 k) (P db true sig2 k)
           eq_refl eq_refl eq_refl ML div_nonneg sqrt_ofZ_pos).
  - intros _. exact Ht.
  - simpl. intros; discriminate.
  - reflexivity.
  - simpl. discriminate.
  - apply hinv_init.
Qed.

(** both statistics at once, from any pair of reachable states with the same statistics *)
Theorem C17_hdm_first_drift : forall tppf1 tppf2 (p1 p2 : @hdm_params N),
  h_db p1 = h_db p2 -> h_k p1 = h_k p2 -> h_tstat p1 = h_tstat p2 ->
  (h_tstat p1 = true -> forall df, fleb (tppf1 df) (tppf2 df) = true) ->
  (h_tstat p1 = false -> fleb (h_sig p1) (h_sig p2) = true) ->
  forall ops a b, srel a b -> h_ds a <> DDrift -> hinv p1 a ->
  opt_le (hfirst_drift (hdm_trace trunc sq dist tppf1 p1 a ops)) (hfirst_drift (hdm_trace trunc sq dist tppf2 p2 b ops)).
Proof.
  intros tppf1 tppf2 p1 p2 H1 H2 H3 H4 H5.
  exact (hdm_first_drift_monotone trunc sq dist tppf1 tppf2 p1 p2 H1 H2 H3 ML div_nonneg sqrt_ofZ_pos H4 H5).
Qed.

(** until the looser run's first drift both runs report the same things after every call: state,
    counters, distance, epsilon, reference_n, reference content, epsilon list, running total,
    feature_epsilons, feature_info - everything observable except the threshold value itself
    ([obs_nb] blanks it), which depends on the parameter *)
Theorem C17_hdm_same_before_first_drift : forall tppf1 tppf2 (p1 p2 : @hdm_params N),
  h_db p1 = h_db p2 -> h_k p1 = h_k p2 -> h_tstat p1 = h_tstat p2 ->
  (h_tstat p1 = true -> forall df, fleb (tppf1 df) (tppf2 df) = true) ->
  (h_tstat p1 = false -> fleb (h_sig p1) (h_sig p2) = true) ->
  forall ops,
  let t1 := hdm_trace trunc sq dist tppf1 p1 hdm_init ops in
  let t2 := hdm_trace trunc sq dist tppf2 p2 hdm_init ops in
  let n := match hfirst_drift t1 with Some k => k | None => length ops end in
  firstn n (map obs_nb t2) = firstn n (map obs_nb t1).
Proof.
  intros tppf1 tppf2 p1 p2 H1 H2 H3 H4 H5 ops.
  apply (hdm_same_before_first_drift trunc sq dist tppf1 tppf2 p1 p2 H1 H2 H3 ML div_nonneg sqrt_ofZ_pos H4 H5 ops hdm_init hdm_init).
  - reflexivity.
  - simpl. discriminate.
  - apply hinv_init.
Qed.

(** at every deciding batch on which the two runs are in the same statistics: beta_loose <= beta_strict,
    hence an alarm of the stricter run is an alarm of the looser one *)
Theorem C17_hdm_threshold_ordered : forall tppf1 tppf2 (p1 p2 : @hdm_params N),
  h_db p1 = h_db p2 -> h_k p1 = h_k p2 -> h_tstat p1 = h_tstat p2 ->
  (h_tstat p1 = true -> forall df, fleb (tppf1 df) (tppf2 df) = true) ->
  (h_tstat p1 = false -> fleb (h_sig p1) (h_sig p2) = true) ->
  forall a b X bt, srel a b -> h_ds a <> DDrift -> hinv p1 a -> gate p1 (h_since a + 1) = true ->
  let b1 := c_beta trunc sq dist tppf1 p1 a X bt in
  let b2 := c_beta trunc sq dist tppf2 p2 b X bt in
  fleb b1 b2 = true /\ (fltb b2 (c_ce trunc dist p2 b X) = true -> fltb b1 (c_ce trunc dist p1 a X) = true).
Proof.
  intros tppf1 tppf2 p1 p2 H1 H2 H3 H4 H5.
  exact (hdm_threshold_ordered trunc sq dist tppf1 tppf2 p1 p2 H1 H2 H3 ML div_nonneg sqrt_ofZ_pos H4 H5).
Qed.

End C17_hdm.

(** the laws assumed above hold for the reals, where the statement is therefore unconditional *)
Theorem C17_hdm_laws_R :
  MonoLaws NumR /\
  (forall a b : F NumR, fleb f0 a = true -> fltb f0 b = true -> fleb f0 (fdiv a b) = true) /\
  (forall d : Z, 1 <= d -> @fltb NumR f0 (fsqrt (fofZ d)) = true).
Proof. exact (conj MonoLawsR (conj div_nonneg_R sqrt_ofZ_pos_R)). Qed.

Theorem C17_hdm_first_drift_R : forall trunc sq dist tppf1 tppf2 db tstat k (sig1 sig2 : R) ops,
  (tstat = true -> forall df, (tppf1 df <= tppf2 df)%R) -> (tstat = false -> (sig1 <= sig2)%R) ->
  opt_le (hfirst_drift (@hdm_trace NumR trunc sq dist tppf1 (@Build_hdm_params NumR db tstat sig1 k) hdm_init ops))
         (hfirst_drift (@hdm_trace NumR trunc sq dist tppf2 (@Build_hdm_params NumR db tstat sig2 k) hdm_init ops)).
Proof.
  intros trunc sq dist tppf1 tppf2 db tstat k sig1 sig2 ops Ht Hs.
  apply (@hdm_first_drift_monotone NumR trunc sq dist tppf1 tppf2 (@Build_hdm_params NumR db tstat sig1 k)
           (@Build_hdm_params NumR db tstat sig2 k) eq_refl eq_refl eq_refl MonoLawsR div_nonneg_R sqrt_ofZ_pos_R).
  - simpl. intros E df. apply Rleb_iff, Ht, E.
  - simpl. intros E. apply Rleb_iff, Hs, E.
  - reflexivity.
  - simpl. discriminate.
  - apply hinv_init.
Qed.

Print Assumptions C17_hdm_stdev.
Print Assumptions C17_hdm_tstat.
Print Assumptions C17_hdm_first_drift.
Print Assumptions C17_hdm_same_before_first_drift.
Print Assumptions C17_hdm_threshold_ordered.
Print Assumptions C17_hdm_laws_R.
Print Assumptions C17_hdm_first_drift_R.
