(** Shared vocabulary of all models: the three-valued drift state, option helpers,
    and the small functions the correspondence check uses to report mismatches. *)
From Coq Require Export ZArith List Bool Lia.
Export ListNotations.
Open Scope Z_scope.

Inductive dstate := DNone | DWarn | DDrift.

Definition is_drift (d : dstate) : bool := match d with DDrift => true | _ => false end.
Definition is_warn (d : dstate) : bool := match d with DWarn => true | _ => false end.
Definition is_none (d : dstate) : bool := match d with DNone => true | _ => false end.

Definition dstate_eqb (a b : dstate) : bool :=
  match a, b with
  | DNone, DNone | DWarn, DWarn | DDrift, DDrift => true
  | _, _ => false
  end.

Lemma dstate_eqb_eq a b : dstate_eqb a b = true <-> a = b.
Proof. destruct a, b; simpl; split; congruence. Qed.

Definition opt_eqb {A} (eqb : A -> A -> bool) (a b : option A) : bool :=
  match a, b with
  | None, None => true
  | Some x, Some y => eqb x y
  | _, _ => false
  end.

Fixpoint list_eqb {A} (eqb : A -> A -> bool) (a b : list A) : bool :=
  match a, b with
  | [], [] => true
  | x :: a', y :: b' => eqb x y && list_eqb eqb a' b'
  | _, _ => false
  end.

Lemma list_eqb_eq {A} (eqb : A -> A -> bool) :
  (forall x y, eqb x y = true <-> x = y) ->
  forall a b, list_eqb eqb a b = true <-> a = b.
Proof.
  intros H a; induction a as [|x a IH]; intros [|y b]; simpl; split; try congruence; try reflexivity.
  - intros E. apply andb_true_iff in E as [E1 E2]. apply H in E1. apply IH in E2. congruence.
  - intros E. inversion E; subst. apply andb_true_iff. split; [apply H | apply IH]; reflexivity.
Qed.

(** retraining recommendations: (first, last), each possibly absent *)
Definition recsT := (option Z * option Z)%type.
Definition recs_none : recsT := (None, None).
Definition recs_eqb (a b : recsT) : bool :=
  opt_eqb Z.eqb (fst a) (fst b) && opt_eqb Z.eqb (snd a) (snd b).

(** [bad cs]: identifiers of the cases whose check evaluated to [false] *)
Fixpoint bad (cs : list (Z * bool)) : list Z :=
  match cs with
  | [] => []
  | (i, b) :: t => if b then bad t else i :: bad t
  end.

(** first position at which two traces differ (for diagnosis) *)
Fixpoint first_diff {A} (eqb : A -> A -> bool) (a b : list A) (i : Z) : option Z :=
  match a, b with
  | [], [] => None
  | x :: a', y :: b' => if eqb x y then first_diff eqb a' b' (i + 1) else Some i
  | _, _ => Some i
  end.
