(** Laws of the IEEE-754 instance that hold for ALL doubles (NaN included), derived from the
    specification of Coq's primitive floats (FloatAxioms: eqb_spec relates PrimFloat.eqb to SFeqb). *)
From Coq Require Import ZArith Bool PrimFloat SpecFloat FloatOps FloatAxioms.
From MV Require Import Base Num NumFloat.

Lemma Pcompare_Eq_eq m1 m2 : Pos.compare_cont Eq m1 m2 = Eq -> m1 = m2.
Proof. apply Pos.compare_eq. Qed.

Lemma SFcompare_eq_cong (a b : spec_float) : SFcompare a b = Some Eq -> forall c, SFcompare a c = SFcompare b c.
Proof.
  intros H c.
  destruct a as [sa|sa| |sa ma ea], b as [sb|sb| |sb mb eb]; simpl in H; try discriminate;
    try (destruct sa; discriminate); try (destruct sb; discriminate).
  - (* zero, zero *) destruct c; reflexivity.
  - (* infinity, infinity *) destruct sa, sb; try discriminate; reflexivity.
  - (* finite, finite *)
    destruct sa, sb; try discriminate.
    + destruct (Z.compare ea eb) eqn:Ee; try discriminate.
      apply Z.compare_eq in Ee. subst eb.
      assert (Hm : ma = mb).
      { destruct (Pos.compare_cont Eq ma mb) eqn:Em; simpl in H; try discriminate. apply Pos.compare_eq. exact Em. }
      subst mb. reflexivity.
    + destruct (Z.compare ea eb) eqn:Ee; try discriminate.
      apply Z.compare_eq in Ee. subst eb.
      assert (Hm : ma = mb) by (apply Pos.compare_eq; injection H as H; exact H).
      subst mb. reflexivity.
Qed.

(** IEEE [==] respects itself: if a == b then a and b compare equal to exactly the same values.
    (It never holds when a or b is NaN, and +0 == -0 behave alike in every comparison.) *)
Theorem float_eqb_cong : forall a b : float, PrimFloat.eqb a b = true -> forall c, PrimFloat.eqb a c = PrimFloat.eqb b c.
Proof.
  intros a b H c. rewrite (FloatAxioms.eqb_spec a b) in H. rewrite (FloatAxioms.eqb_spec a c), (FloatAxioms.eqb_spec b c). unfold SFeqb in *.
  destruct (SFcompare (Prim2SF a) (Prim2SF b)) as [[| |]|] eqn:E; try discriminate.
  rewrite (SFcompare_eq_cong _ _ E). reflexivity.
Qed.

Corollary NumFloat_feqb_cong : forall a b : F NumFloat, feqb a b = true -> forall c, feqb a c = feqb b c.
Proof. exact float_eqb_cong. Qed.
