(** Laws of the IEEE-754 instance that hold for ALL doubles (NaN included), derived from the
    specification of Coq's primitive floats (FloatAxioms: eqb_spec relates PrimFloat.eqb to SFeqb). *)
From Coq Require Import ZArith Bool PrimFloat SpecFloat FloatOps FloatAxioms.
From MV Require Import Base Num NumFloat.

Lemma Pcompare_Eq_eq m1 m2 : Pos.compare_cont Eq m1 m2 = Eq -> m1 = m2.
Proof. apply Pos.compare_eq. Qed.

Lemma SFcompare_eq_cong (a b : spec_float) : SFcompare a b = Some Eq -> forall c, SFcompare a c = SFcompare b c.
Proof.
  intros H c.
  destruct a as [sa|sa| |sa ma ea], b as [sb|sb| |sb mb eb]; simpl in H; try discriminate;
    try (destruct sa; discriminate); try (destruct sb; discriminate).
  - (* zero, zero *) destruct c; reflexivity.
  - (* infinity, infinity *) destruct sa, sb; try discriminate; reflexivity.
  - (* finite, finite *)
    destruct sa, sb; try discriminate.
    + destruct (Z.compare ea eb) eqn:Ee; try discriminate.
      apply Z.compare_eq in Ee. subst eb.
      assert (Hm : ma = mb).
      { destruct (Pos.compare_cont Eq ma mb) eqn:Em; simpl in H; try discriminate. apply Pos.compare_eq. exact Em. }
      subst mb. reflexivity.
    + destruct (Z.compare ea eb) eqn:Ee; try discriminate.
      apply Z.compare_eq in Ee. subst eb.
      assert (Hm : ma = mb) by (apply Pos.compare_eq; injection H as H; exact H).
      subst mb. reflexivity.
Qed.

(** IEEE [==] respects itself: if a == b then a and b compare equal to exactly the same values.
    (It never holds when a or b is NaN, and +0 == -0 behave alike in every comparison.) *)
Theorem float_eqb_cong : forall a b : float, PrimFloat.eqb a b = true -> forall c, PrimFloat.eqb a c = PrimFloat.eqb b c.
Proof.
  intros a b H c. rewrite (FloatAxioms.eqb_spec a b) in H. rewrite (FloatAxioms.eqb_spec a c), (FloatAxioms.eqb_spec b c). unfold SFeqb in *.
  destruct (SFcompare (Prim2SF a) (Prim2SF b)) as [[| |]|] eqn:E; try discriminate.
  rewrite (SFcompare_eq_cong _ _ E). reflexivity.
Qed.

Corollary NumFloat_feqb_cong : forall a b : F NumFloat, feqb a b = true -> forall c, feqb a c = feqb b c.
Proof. exact float_eqb_cong. Qed.

(** ---------- order laws that hold for ALL doubles: the comparisons are transitive ---------- *)
Ltac cmp_all :=
  repeat match goal with
  | |- context [Z.compare ?a ?b] => destruct (Z.compare_spec a b)
  | H : context [Z.compare ?a ?b] |- _ => destruct (Z.compare_spec a b)
  | |- context [Pos.compare_cont Eq ?a ?b] => change (Pos.compare_cont Eq a b) with (Pos.compare a b); destruct (Pos.compare_spec a b)
  | H : context [Pos.compare_cont Eq ?a ?b] |- _ => change (Pos.compare_cont Eq a b) with (Pos.compare a b) in H; destruct (Pos.compare_spec a b)
  end.

Ltac sf_cases a b c :=
  destruct a as [?sa|?sa| |?sa ?ma ?ea], b as [?sb|?sb| |?sb ?mb ?eb], c as [?sc|?sc| |?sc ?mc ?ec]; simpl;
    try discriminate; try reflexivity;
    repeat match goal with s : bool |- _ => destruct s; try discriminate; try reflexivity end;
    intros H1 H2; cmp_all; simpl in *; try discriminate; try reflexivity; subst; try lia.

Lemma SFleb_trans a b c : SFleb a b = true -> SFleb b c = true -> SFleb a c = true.
Proof. unfold SFleb. sf_cases a b c. Qed.
Lemma SFltb_leb_trans a b c : SFltb a b = true -> SFleb b c = true -> SFltb a c = true.
Proof. unfold SFltb, SFleb. sf_cases a b c. Qed.
Lemma SFleb_ltb_trans a b c : SFleb a b = true -> SFltb b c = true -> SFltb a c = true.
Proof. unfold SFltb, SFleb. sf_cases a b c. Qed.
Lemma SFltb_leb a b : SFltb a b = true -> SFleb a b = true.
Proof. unfold SFltb, SFleb. destruct (SFcompare a b) as [[| |]|]; intros; try discriminate; reflexivity. Qed.

Theorem float_leb_trans (a b c : float) : PrimFloat.leb a b = true -> PrimFloat.leb b c = true -> PrimFloat.leb a c = true.
Proof. rewrite !leb_spec. apply SFleb_trans. Qed.
Theorem float_ltb_leb_trans (a b c : float) : PrimFloat.ltb a b = true -> PrimFloat.leb b c = true -> PrimFloat.ltb a c = true.
Proof. rewrite !ltb_spec, !leb_spec. apply SFltb_leb_trans. Qed.
Theorem float_leb_ltb_trans (a b c : float) : PrimFloat.leb a b = true -> PrimFloat.ltb b c = true -> PrimFloat.ltb a c = true.
Proof. rewrite !ltb_spec, !leb_spec. apply SFleb_ltb_trans. Qed.
Theorem float_ltb_leb (a b : float) : PrimFloat.ltb a b = true -> PrimFloat.leb a b = true.
Proof. rewrite ltb_spec, leb_spec. apply SFltb_leb. Qed.

(** ... and the remaining order laws hold whenever no NaN is involved *)
Definition not_nan (x : float) : Prop := Prim2SF x <> S754_nan.

Lemma SF_ltb_negb_leb a b : a <> S754_nan -> b <> S754_nan -> SFltb a b = negb (SFleb b a).
Proof.
  intros Ha Hb. unfold SFltb, SFleb.
  destruct a as [sa|sa| |sa ma ea], b as [sb|sb| |sb mb eb]; try congruence; simpl;
    repeat match goal with s : bool |- _ => destruct s end; try reflexivity;
    cmp_all; simpl; try reflexivity; subst; try lia.
Qed.

Theorem float_ltb_negb_leb (a b : float) : not_nan a -> not_nan b -> PrimFloat.ltb a b = negb (PrimFloat.leb b a).
Proof. intros Ha Hb. rewrite ltb_spec, leb_spec. apply SF_ltb_negb_leb; assumption. Qed.

Lemma SF_leb_total a b : a <> S754_nan -> b <> S754_nan -> SFleb a b = true \/ SFleb b a = true.
Proof.
  intros Ha Hb. unfold SFleb.
  destruct a as [sa|sa| |sa ma ea], b as [sb|sb| |sb mb eb]; try congruence; simpl;
    repeat match goal with s : bool |- _ => destruct s end; auto;
    cmp_all; simpl; auto; subst; try lia.
Qed.

Theorem float_leb_total (a b : float) : not_nan a -> not_nan b -> PrimFloat.leb a b = true \/ PrimFloat.leb b a = true.
Proof. intros Ha Hb. rewrite !leb_spec. apply SF_leb_total; assumption. Qed.

Theorem float_leb_refl (a : float) : not_nan a -> PrimFloat.leb a a = true.
Proof. intros Ha. destruct (float_leb_total a a Ha Ha); assumption. Qed.
