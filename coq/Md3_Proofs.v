(** Lemmas about the MD3 protocol model (Md3.v).  Everything up to [NumR19] holds for every
    arithmetic instance [N] without any hypothesis on its operations (structural). *)
From MV Require Import Base Num Md3.
From Coq Require Import ZifyBool.

Lemma zlen_nonneg {A} (l : list A) : 0 <= zlen l.
Proof. unfold zlen. lia. Qed.

Lemma zlen_app1 {A} (l : list A) (x : A) : zlen (l ++ [x]) = zlen l + 1.
Proof. unfold zlen. rewrite app_length. simpl. lia. Qed.

Lemma zlen_nil_iff {A} (l : list A) : zlen l = 0 <-> l = [].
Proof. unfold zlen. destruct l; simpl; split; intros; try reflexivity; try discriminate; lia. Qed.

Section Proofs.
Context {N : Num}.
Local Open Scope num_scope.
Notation F := (F N).
Notation state := (@state N).
Notation params := (@params N).
Notation op := (@op N).

(** ---------------------------------------------------------------- refusals *)
Lemma refused_next (p : params) (s : state) (o : op) r :
  md3_step p s o = Refused r -> md3_next p s o = s.
Proof. unfold md3_next. intros ->. reflexivity. Qed.

Lemma refused_history (p : params) (s : state) ops :
  Forall (fun o => is_refused (md3_step p s o) = true) ops -> md3_run p s ops = s.
Proof.
  induction 1 as [|o t H _ IH]; [reflexivity|].
  unfold md3_run in *. simpl. unfold md3_next at 2.
  destruct (md3_step p s o); try discriminate. exact IH.
Qed.

Lemma update_waiting (p : params) (s : state) n sig :
  m_wait s = true -> md3_update p s n sig = Refused RWaiting.
Proof. unfold md3_update. intros ->. reflexivity. Qed.

Lemma update_rows (p : params) (s : state) n sig :
  m_wait s = false -> n <> 1%Z -> md3_update p s n sig = Refused RRows.
Proof.
  unfold md3_update. intros -> H. destruct (n =? 1)%Z eqn:E; [lia|]. reflexivity.
Qed.

(** the state an accepted update produces, written out *)
Definition upd_md (s : state) (sig : F) : F :=
  m_ff s * (if is_drift (m_ds s) then r_md (m_ref s) else m_md s) + (f1 - m_ff s) * sig.
Definition upd_warn (p : params) (s : state) (sig : F) : bool :=
  (p_sens p * r_md_std (m_ref s)) <? fabs (upd_md s sig - r_md (m_ref s)).
Definition upd_state (p : params) (s : state) (sig : F) : state :=
  mk_state (upd_warn p s sig) (m_rows s) (m_req s) (m_len s) (m_ref s) (m_ff s) (upd_md s sig)
           (m_feat s) (m_targ s)
           (if upd_warn p s sig then DWarn else if is_drift (m_ds s) then DNone else m_ds s)
           (m_total s + 1)%Z ((if is_drift (m_ds s) then 0 else m_since s) + 1)%Z.

Lemma update_ok (p : params) (s : state) sig :
  m_wait s = false -> md3_update p s 1 sig = Ok (upd_state p s sig).
Proof.
  unfold md3_update, upd_state, upd_warn, upd_md. intros Hw. rewrite Hw. simpl.
  destruct (is_drift (m_ds s)); simpl; rewrite ?Hw;
    match goal with |- context [if ?c then true else false] => destruct c end; reflexivity.
Qed.

Lemma update_never_crashes (p : params) (s : state) n sig s' : md3_update p s n sig <> Crashed s'.
Proof.
  unfold md3_update. destruct (m_wait s); [discriminate|]. destruct (negb (n =? 1)%Z); discriminate.
Qed.

Lemma label_not_waiting (p : params) (s : state) n cols c st :
  m_wait s = false -> md3_label p s n cols c st = Refused RNotWaiting.
Proof. unfold md3_label. intros ->. reflexivity. Qed.

Lemma label_rows (p : params) (s : state) n cols c st :
  m_wait s = true -> n <> 1%Z -> md3_label p s n cols c st = Refused RRows.
Proof.
  unfold md3_label. intros -> H. simpl. destruct (n =? 1)%Z eqn:E; [lia|]. reflexivity.
Qed.

Lemma label_cols (p : params) (s : state) cols c st :
  m_wait s = true -> cols_match cols (m_feat s ++ m_targ s) = false ->
  md3_label p s 1 cols c st = Refused RCols.
Proof. unfold md3_label. intros -> ->. reflexivity. Qed.

(** the three states an accepted label can produce, written out *)
Definition lab_rows (s : state) (cols : list Z) (c : bool) : list lrow := m_rows s ++ [mk_lrow cols c].
Definition lab_drift (p : params) (s : state) (rows : list lrow) : dstate :=
  if (p_sens p * r_acc_std (m_ref s)) <? (r_acc (m_ref s) - label_accuracy rows) then DDrift else DNone.
Definition lab_ocols (s : state) : list Z := m_feat s ++ m_targ s.

Definition collect_state (s : state) (cols : list Z) (c : bool) : state :=
  mk_state (m_wait s) (lab_rows s cols c) (m_req s) (m_len s) (m_ref s) (m_ff s) (m_md s)
           (m_feat s) (m_targ s) DNone (m_total s) (m_since s).

Definition resolve_state (p : params) (s : state) (cols : list Z) (c : bool) (st : stats) : state :=
  let rows := lab_rows s cols c in
  let target := hd 0%Z (m_targ s) in
  mk_state false [] (m_req s) (zlen rows) st (fofZ (zlen rows - 1) / fofZ (zlen rows)) (r_md st)
           (filter (fun x => negb (x =? target)%Z) (lab_ocols s))
           (filter (fun x => (x =? target)%Z) (lab_ocols s))
           (lab_drift p s rows) (m_total s) (m_since s).

Definition crash_state (p : params) (s : state) (cols : list Z) (c : bool) : state :=
  let rows := lab_rows s cols c in
  let target := hd 0%Z (m_targ s) in
  mk_state (m_wait s) rows (m_req s) (m_len s) (m_ref s) (m_ff s) (m_md s)
           (filter (fun x => negb (x =? target)%Z) (lab_ocols s))
           (filter (fun x => (x =? target)%Z) (lab_ocols s))
           (lab_drift p s rows) (m_total s) (m_since s).

Lemma label_accepted_cases (p : params) (s : state) cols c st :
  m_wait s = true -> cols_match cols (m_feat s ++ m_targ s) = true ->
  md3_label p s 1 cols c st =
    if (zlen (m_rows s) + 1 =? m_req s)%Z then
      if (m_req s <? p_k p)%Z then Crashed (crash_state p s cols c) else Ok (resolve_state p s cols c st)
    else Ok (collect_state s cols c).
Proof.
  unfold md3_label. intros Hw Hc. rewrite Hw, Hc. simpl.
  rewrite zlen_app1.
  destruct (zlen (m_rows s) + 1 =? m_req s)%Z eqn:E;
    [|unfold collect_state, lab_rows; rewrite Hw; reflexivity].
  apply Z.eqb_eq in E. rewrite E.
  destruct (m_req s <? p_k p)%Z eqn:K.
  - unfold crash_state, lab_rows, lab_drift, lab_ocols. rewrite Hw. reflexivity.
  - unfold resolve_state, md3_set_reference, lab_rows, lab_drift, lab_ocols. simpl.
    rewrite zlen_app1, E. reflexivity.
Qed.

(** ---------------------------------------------------------------- frame facts *)
Lemma req_next (p : params) (s : state) (o : op) : m_req (md3_next p s o) = m_req s.
Proof.
  unfold md3_next. destruct o as [cols t n st | n sig | n cols c st]; simpl.
  - reflexivity.
  - unfold md3_update. destruct (m_wait s); [reflexivity|].
    destruct (negb (n =? 1)%Z); [reflexivity|]. destruct (is_drift (m_ds s)); reflexivity.
  - unfold md3_label. destruct (negb (m_wait s)); [reflexivity|].
    destruct (negb (n =? 1)%Z); [reflexivity|].
    destruct (negb (cols_match cols (m_feat s ++ m_targ s))); [reflexivity|].
    destruct (zlen (m_rows s ++ [mk_lrow cols c]) =? m_req s)%Z; [|reflexivity].
    destruct (zlen (m_rows s ++ [mk_lrow cols c]) <? p_k p)%Z; reflexivity.
Qed.

Lemma req_run (p : params) ops : forall s : state, m_req (md3_run p s ops) = m_req s.
Proof.
  induction ops as [|o t IH]; intros s; simpl; [reflexivity|].
  unfold md3_run in *. simpl. rewrite IH. apply req_next.
Qed.

Lemma run_app (p : params) (s : state) a b : md3_run p s (a ++ b) = md3_run p (md3_run p s a) b.
Proof. unfold md3_run. apply fold_left_app. Qed.

Lemma run_cons (p : params) (s : state) o t : md3_run p s (o :: t) = md3_run p (md3_next p s o) t.
Proof. reflexivity. Qed.

(** one-row inputs: the step function in terms of the written-out states *)
Lemma next_update (p : params) (s : state) n sig :
  md3_next p s (OUpdate n sig) =
    if m_wait s then s else if (n =? 1)%Z then upd_state p s sig else s.
Proof.
  unfold md3_next. simpl. destruct (m_wait s) eqn:W.
  - rewrite update_waiting by assumption. reflexivity.
  - destruct (n =? 1)%Z eqn:E.
    + apply Z.eqb_eq in E. subst n. rewrite update_ok by assumption. reflexivity.
    + rewrite update_rows by (assumption || lia). reflexivity.
Qed.

Lemma next_label (p : params) (s : state) n cols c st :
  md3_next p s (OLabel n cols c st) =
    if m_wait s then
      if (n =? 1)%Z then
        if cols_match cols (m_feat s ++ m_targ s) then
          if (zlen (m_rows s) + 1 =? m_req s)%Z then
            if (m_req s <? p_k p)%Z then crash_state p s cols c else resolve_state p s cols c st
          else collect_state s cols c
        else s
      else s
    else s.
Proof.
  unfold md3_next. simpl. destruct (m_wait s) eqn:W.
  - destruct (n =? 1)%Z eqn:E.
    + apply Z.eqb_eq in E. subst n.
      destruct (cols_match cols (m_feat s ++ m_targ s)) eqn:C.
      * rewrite label_accepted_cases by assumption.
        destruct (zlen (m_rows s) + 1 =? m_req s)%Z; [|reflexivity].
        destruct (m_req s <? p_k p)%Z; reflexivity.
      * rewrite label_cols by assumption. reflexivity.
    + rewrite label_rows by (assumption || lia). reflexivity.
  - rewrite label_not_waiting by assumption. reflexivity.
Qed.

Lemma next_label_accepted (p : params) (s : state) cols c st :
  m_wait s = true -> cols_match cols (m_feat s ++ m_targ s) = true ->
  md3_next p s (OLabel 1 cols c st) =
    if (zlen (m_rows s) + 1 =? m_req s)%Z then
      if (m_req s <? p_k p)%Z then crash_state p s cols c else resolve_state p s cols c st
    else collect_state s cols c.
Proof. intros W C. rewrite next_label, W, C. reflexivity. Qed.

Lemma label_accepted_iff (p : params) (s : state) n cols c st :
  label_accepted p s (OLabel n cols c st) = true <->
  m_wait s = true /\ n = 1%Z /\ cols_match cols (m_feat s ++ m_targ s) = true.
Proof.
  unfold label_accepted. simpl. destruct (m_wait s) eqn:W.
  - destruct (Z.eq_dec n 1) as [->|Hn].
    + destruct (cols_match cols (m_feat s ++ m_targ s)) eqn:C.
      * rewrite label_accepted_cases by assumption.
        destruct (zlen (m_rows s) + 1 =? m_req s)%Z; [destruct (m_req s <? p_k p)%Z|]; simpl; tauto.
      * rewrite label_cols by assumption. simpl. split; [discriminate|]. intros (_ & _ & H). discriminate.
    + rewrite label_rows by assumption. simpl. split; [discriminate|]. intros (_ & H & _). contradiction.
  - rewrite label_not_waiting by assumption. simpl. split; [discriminate|]. intros (H & _). discriminate.
Qed.

Lemma update_accepted_iff (p : params) (s : state) n sig :
  update_accepted p s (OUpdate n sig) = true <-> m_wait s = false /\ n = 1%Z.
Proof.
  unfold update_accepted. simpl. destruct (m_wait s) eqn:W.
  - rewrite update_waiting by assumption. simpl. split; [discriminate|]. intros (H & _). discriminate.
  - destruct (Z.eq_dec n 1) as [->|Hn].
    + rewrite update_ok by assumption. simpl. tauto.
    + rewrite update_rows by assumption. simpl. split; [discriminate|]. intros (_ & H). contradiction.
Qed.

(** ---------------------------------------------------------------- the protocol invariant *)
Definition inv (s : state) : Prop :=
  (m_wait s = false -> m_rows s = []) /\
  (m_wait s = true -> (zlen (m_rows s) < m_req s)%Z) /\
  (m_ds s = DWarn <-> m_wait s = true /\ m_rows s = []) /\
  (m_ds s = DDrift -> m_wait s = false /\ m_md s = r_md (m_ref s)) /\
  m_ff s = fofZ (m_len s - 1) / fofZ (m_len s) /\
  (0 <= m_since s <= m_total s)%Z.

Lemma inv_start req cols target n (st : @stats N) :
  (0 < match req with Some r => r | None => n end)%Z -> inv (md3_start req cols target n st).
Proof.
  intros H. unfold inv, md3_start, md3_set_reference. simpl.
  repeat split; try reflexivity; try discriminate; try lia.
Qed.

Lemma app_not_nil {A} (l : list A) x : l ++ [x] <> [].
Proof. destruct l; discriminate. Qed.

Lemma inv_next (p : params) (s : state) (o : op) :
  (0 < m_req s)%Z -> (p_k p <= m_req s)%Z -> inv s -> inv (md3_next p s o).
Proof.
  intros Hreq Hk Hinv. pose proof Hinv as (I1 & I2 & I3 & I4 & I5 & I6).
  destruct o as [cols t n st | n sig | n cols c st].
  - (* explicit set_reference *)
    unfold md3_next, md3_step, md3_set_reference, inv. simpl.
    repeat split; try tauto; try lia.
  - rewrite next_update.
    destruct (m_wait s) eqn:W; [exact Hinv|].
    destruct (n =? 1)%Z; [|exact Hinv].
    specialize (I1 eq_refl).
    assert (Hnw : m_ds s <> DWarn) by (intros H; apply I3 in H; destruct H; discriminate).
    unfold inv, upd_state. simpl. rewrite I1.
    assert (Hc : (0 <= (if is_drift (m_ds s) then 0 else m_since s) + 1 <= m_total s + 1)%Z)
      by (destruct (is_drift (m_ds s)); lia).
    destruct (upd_warn p s sig) eqn:Wn; simpl;
      refine (conj _ (conj _ (conj _ (conj _ (conj I5 Hc))))).
    + intros _. reflexivity.
    + intros _. unfold zlen. simpl. lia.
    + split; intros _; [split|]; reflexivity.
    + discriminate.
    + intros _. reflexivity.
    + discriminate.
    + split.
      * intros H. destruct (m_ds s); simpl in H; try discriminate. contradiction.
      * intros [H _]. discriminate.
    + intros H. destruct (m_ds s); simpl in H; discriminate.
  - rewrite next_label.
    destruct (m_wait s) eqn:W; [|exact Hinv].
    destruct (n =? 1)%Z; [|exact Hinv].
    destruct (cols_match cols (m_feat s ++ m_targ s)); [|exact Hinv].
    specialize (I2 eq_refl).
    destruct (zlen (m_rows s) + 1 =? m_req s)%Z eqn:E.
    + destruct (m_req s <? p_k p)%Z eqn:K; [lia|].
      unfold inv, resolve_state. simpl.
      refine (conj _ (conj _ (conj _ (conj _ (conj eq_refl I6))))).
      * intros _. reflexivity.
      * discriminate.
      * split; [|intros [H _]; discriminate].
        unfold lab_drift. destruct (_ <? _); discriminate.
      * intros _. split; reflexivity.
    + unfold inv, collect_state, lab_rows. simpl. rewrite W.
      refine (conj _ (conj _ (conj _ (conj _ (conj I5 I6))))).
      * discriminate.
      * intros _. rewrite zlen_app1. lia.
      * split; [discriminate|]. intros [_ H]. exfalso. exact (app_not_nil _ _ H).
      * discriminate.
Qed.

Lemma inv_run (p : params) ops : forall s : state,
  (0 < m_req s)%Z -> (p_k p <= m_req s)%Z -> inv s -> inv (md3_run p s ops).
Proof.
  induction ops as [|o t IH]; intros s H1 H2 H3; [exact H3|].
  rewrite run_cons. apply IH; rewrite ?req_next; try assumption. apply inv_next; assumption.
Qed.

(** waiting exactly while a warning is pending: shown (state "warning") or being answered (rows) *)
Lemma inv_waiting_iff (s : state) : inv s -> (m_wait s = true <-> m_ds s = DWarn \/ m_rows s <> []).
Proof.
  intros (I1 & _ & I3 & _). split.
  - intros W. destruct (m_rows s) eqn:R; [left; apply I3; split; [assumption|reflexivity] | right; discriminate].
  - intros [H|H]; [apply I3 in H; tauto|]. destruct (m_wait s); [reflexivity|]. exfalso. apply H, I1. reflexivity.
Qed.

(** ---------------------------------------------------------------- counting labels *)
Lemma count_nonneg f (p : params) ops : forall s : state, (0 <= count_along f p s ops)%Z.
Proof.
  induction ops as [|o t IH]; intros s; simpl; [lia|]. specialize (IH (md3_next p s o)).
  destruct (f p s o); lia.
Qed.

Lemma count_app f (p : params) a : forall (s : state) b,
  count_along f p s (a ++ b) = (count_along f p s a + count_along f p (md3_run p s a) b)%Z.
Proof.
  induction a as [|o t IH]; intros s b; simpl; [reflexivity|].
  rewrite IH. unfold md3_run. simpl. lia.
Qed.

(** while fewer than the missing number of labels have been accepted the detector keeps waiting and
    holds exactly the accepted rows *)
Lemma waiting_until (p : params) ops : forall s : state,
  m_wait s = true ->
  (zlen (m_rows s) + n_labels_accepted p s ops < m_req s)%Z ->
  m_wait (md3_run p s ops) = true /\
  zlen (m_rows (md3_run p s ops)) = (zlen (m_rows s) + n_labels_accepted p s ops)%Z.
Proof.
  induction ops as [|o t IH]; intros s W H.
  - unfold md3_run, n_labels_accepted; simpl. split; [assumption|lia].
  - rewrite run_cons. unfold n_labels_accepted in *. simpl count_along in *.
    pose proof (count_nonneg label_accepted p t (md3_next p s o)) as Hnn.
    destruct o as [cols tg n st | n sig | n cols c st].
    + (* set_reference: flag and rows untouched *)
      change (label_accepted p s (OSetRef cols tg n st)) with false in *.
      assert (E : md3_next p s (OSetRef cols tg n st) = md3_set_reference s cols tg n st) by reflexivity.
      rewrite E in *. specialize (IH (md3_set_reference s cols tg n st)). simpl in IH.
      destruct IH as [A B]; [assumption|lia|]. split; [assumption|]. rewrite B. lia.
    + change (label_accepted p s (OUpdate n sig)) with false in *.
      rewrite next_update in *. rewrite W in *.
      destruct (IH s W) as [A B]; [lia|]. split; [assumption|]. rewrite B. lia.
    + destruct (label_accepted p s (OLabel n cols c st)) eqn:LA.
      * apply label_accepted_iff in LA. destruct LA as (_ & -> & C).
        rewrite (next_label_accepted p s cols c st W C) in *.
        destruct (zlen (m_rows s) + 1 =? m_req s)%Z eqn:E; [lia|].
        assert (R1 : zlen (m_rows (collect_state s cols c)) = (zlen (m_rows s) + 1)%Z)
          by (unfold collect_state, lab_rows; simpl; apply zlen_app1).
        destruct (IH (collect_state s cols c)) as [A B]; [exact W|rewrite R1; change (m_req (collect_state s cols c)) with (m_req s); lia|].
        split; [assumption|]. rewrite B, R1. lia.
      * assert (E : md3_next p s (OLabel n cols c st) = s).
        { rewrite next_label. rewrite W.
          destruct (n =? 1)%Z eqn:En; [|reflexivity].
          destruct (cols_match cols (m_feat s ++ m_targ s)) eqn:C; [|reflexivity].
          exfalso. assert (label_accepted p s (OLabel n cols c st) = true).
          { apply label_accepted_iff. repeat split; try assumption. lia. }
          congruence. }
        rewrite E in *. destruct (IH s W) as [A B]; [lia|]. split; [assumption|]. rewrite B. lia.
Qed.

(** ... and the label that completes the collection resolves the warning *)
Lemma resolves_at (p : params) (s : state) ops cols c st :
  m_wait s = true ->
  (zlen (m_rows s) + n_labels_accepted p s ops + 1 = m_req s)%Z ->
  (p_k p <= m_req s)%Z ->
  let s1 := md3_run p s ops in
  cols_match cols (m_feat s1 ++ m_targ s1) = true ->
  md3_run p s (ops ++ [OLabel 1 cols c st]) = resolve_state p s1 cols c st.
Proof.
  intros W H K s1 C. rewrite run_app. fold s1.
  destruct (waiting_until p ops s W) as [A B]; [lia|]. fold s1 in A, B.
  unfold md3_run. simpl fold_left. rewrite (next_label_accepted p s1 cols c st A C).
  pose proof (req_run p ops s) as R. fold s1 in R.
  replace (zlen (m_rows s1) + 1 =? m_req s1)%Z with true by lia.
  replace (m_req s1 <? p_k p)%Z with false by lia. reflexivity.
Qed.

(** ---------------------------------------------------------------- counters *)
Lemma total_next (p : params) (s : state) (o : op) :
  m_total (md3_next p s o) = (m_total s + if update_accepted p s o then 1 else 0)%Z.
Proof.
  destruct o as [cols t n st | n sig | n cols c st].
  - unfold md3_next. simpl. lia.
  - rewrite next_update. destruct (update_accepted p s (OUpdate n sig)) eqn:U.
    + apply update_accepted_iff in U. destruct U as [W ->]. rewrite W. reflexivity.
    + destruct (m_wait s) eqn:W; [lia|]. destruct (n =? 1)%Z eqn:E; [|lia].
      exfalso. assert (update_accepted p s (OUpdate n sig) = true) by (apply update_accepted_iff; split; [assumption|lia]).
      congruence.
  - change (update_accepted p s (OLabel n cols c st)) with false.
    rewrite next_label.
    destruct (m_wait s); [|lia]. destruct (n =? 1)%Z; [|lia].
    destruct (cols_match cols (m_feat s ++ m_targ s)); [|lia].
    destruct (zlen (m_rows s) + 1 =? m_req s)%Z; [destruct (m_req s <? p_k p)%Z|]; simpl; lia.
Qed.

Lemma total_run (p : params) ops : forall s : state,
  m_total (md3_run p s ops) = (m_total s + n_updates_accepted p s ops)%Z.
Proof.
  induction ops as [|o t IH]; intros s; unfold n_updates_accepted in *.
  - unfold md3_run; simpl; lia.
  - rewrite run_cons, IH, total_next. simpl count_along. lia.
Qed.

(** ---------------------------------------------------------------- oracle length below k *)
Definition stuck (s : state) : Prop := m_wait s = true /\ (m_req s <= zlen (m_rows s))%Z.

Lemma stuck_next (p : params) (s : state) (o : op) : stuck s -> stuck (md3_next p s o).
Proof.
  intros [W H]. destruct o as [cols t n st | n sig | n cols c st].
  - unfold md3_next, stuck. simpl. split; assumption.
  - rewrite next_update, W. split; assumption.
  - rewrite next_label, W.
    destruct (n =? 1)%Z; [|split; assumption].
    destruct (cols_match cols (m_feat s ++ m_targ s)); [|split; assumption].
    pose proof (zlen_nonneg (m_rows s)).
    replace (zlen (m_rows s) + 1 =? m_req s)%Z with false by lia.
    unfold stuck, collect_state, lab_rows. simpl. rewrite zlen_app1. split; [assumption|lia].
Qed.

Lemma stuck_run (p : params) ops : forall s : state, stuck s -> stuck (md3_run p s ops).
Proof.
  induction ops as [|o t IH]; intros s H; [exact H|]. rewrite run_cons. apply IH, stuck_next, H.
Qed.

Lemma crashed_iff (p : params) (s : state) n cols c st s' :
  md3_label p s n cols c st = Crashed s' <->
  m_wait s = true /\ n = 1%Z /\ cols_match cols (m_feat s ++ m_targ s) = true /\
  (zlen (m_rows s) + 1 = m_req s)%Z /\ (m_req s < p_k p)%Z /\ s' = crash_state p s cols c.
Proof.
  destruct (m_wait s) eqn:W.
  - destruct (Z.eq_dec n 1) as [->|Hn].
    + destruct (cols_match cols (m_feat s ++ m_targ s)) eqn:C.
      * rewrite label_accepted_cases by assumption.
        destruct (zlen (m_rows s) + 1 =? m_req s)%Z eqn:E.
        -- destruct (m_req s <? p_k p)%Z eqn:K.
           ++ split.
              ** intros H. inversion H. repeat split; try reflexivity; lia.
              ** intros (_ & _ & _ & _ & _ & ->). reflexivity.
           ++ split; [discriminate|]. intros (_ & _ & _ & _ & H & _). lia.
        -- split; [discriminate|]. intros (_ & _ & _ & H & _). lia.
      * rewrite label_cols by assumption. split; [discriminate|]. intros (_ & _ & H & _). discriminate.
    + rewrite label_rows by assumption. split; [discriminate|]. intros (_ & H & _). contradiction.
  - rewrite label_not_waiting by assumption. split; [discriminate|]. intros (H & _). discriminate.
Qed.

Lemma crash_state_stuck (p : params) (s : state) cols c :
  m_wait s = true -> (zlen (m_rows s) + 1 = m_req s)%Z -> stuck (crash_state p s cols c).
Proof.
  intros W H. unfold stuck, crash_state, lab_rows. simpl. rewrite zlen_app1. split; [assumption|lia].
Qed.

(** ---------------------------------------------------------------- the recurrence over a quiet stretch *)
Lemma run_updates_waiting (p : params) sigs : forall s : state,
  m_wait s = true -> md3_run p s (map (OUpdate 1) sigs) = s.
Proof.
  induction sigs as [|x t IH]; intros s W; [reflexivity|].
  simpl map. rewrite run_cons, next_update, W. apply IH, W.
Qed.

Lemma quiet_stretch (p : params) sigs : forall s : state,
  m_wait s = false -> m_ds s <> DDrift ->
  m_wait (md3_run p s (map (OUpdate 1) sigs)) = false ->
  let s' := md3_run p s (map (OUpdate 1) sigs) in
  m_md s' = md_fold (m_ff s) (m_md s) sigs /\ m_ff s' = m_ff s /\ m_ref s' = m_ref s /\
  m_total s' = (m_total s + zlen sigs)%Z.
Proof.
  induction sigs as [|x t IH]; intros s W D H.
  - unfold md3_run, md_fold, zlen. simpl. repeat split; lia.
  - simpl map in *. rewrite run_cons, next_update, W in H. change (1 =? 1)%Z with true in H. cbv iota in H.
    rewrite run_cons, next_update, W. change (1 =? 1)%Z with true. cbv iota. cbv zeta.
    destruct (upd_warn p s x) eqn:Wn.
    + rewrite run_updates_waiting in H by (unfold upd_state; simpl; assumption).
      unfold upd_state in H. simpl in H. congruence.
    + assert (ND : is_drift (m_ds s) = false) by (destruct (m_ds s); try reflexivity; contradiction).
      destruct (IH (upd_state p s x)) as (A & B & C & T).
      * unfold upd_state; simpl; assumption.
      * unfold upd_state; simpl. rewrite Wn, ND. assumption.
      * exact H.
      * rewrite A, B, C, T. unfold upd_state, upd_md, md_fold. simpl. rewrite ND.
        repeat split. unfold zlen. simpl length. lia.
Qed.

End Proofs.

(** ---------------------------------------------------------------- exact arithmetic: closed form *)
From Coq Require Import Reals Lra.

(** the reals as an arithmetic instance (only + - * / 1 matter below; [finf] has no real counterpart
    and is never used by the MD3 model) *)
Definition NumR19 : Num := {|
  F := R; f0 := 0%R; f1 := 1%R;
  fadd := Rplus; fsub := Rminus; fmul := Rmult; fdiv := Rdiv;
  fsqrt := sqrt; fabs := Rabs; fneg := Ropp;
  fleb := fun a b => if Rle_dec a b then true else false;
  fltb := fun a b => if Rlt_dec a b then true else false;
  feqb := fun a b => if Req_EM_T a b then true else false;
  fofZ := IZR; finf := 0%R
|}.

(** sum of the signals weighted by the powers of the forgetting factor, newest first weight 1 *)
Fixpoint wsum (ff : R) (sigs : list R) : R :=
  match sigs with
  | [] => 0
  | x :: t => ff ^ length t * x + wsum ff t
  end%R.

Lemma md_fold_closed (ff : R) (sigs : list R) : forall m : R,
  @md_fold NumR19 ff m sigs = (ff ^ length sigs * m + (1 - ff) * wsum ff sigs)%R.
Proof.
  induction sigs as [|x t IH]; intros m.
  - unfold md_fold. simpl. ring.
  - unfold md_fold in *. simpl fold_left. rewrite IH. simpl. ring.
Qed.
