(** ADWIN checkers on the float instance. *)
From MV Require Import Base Num NumFloat Lifecycle Corr Adwin.
From Coq Require Import PrimFloat.

Definition adwin_p (M nst wst sst : Z) (cons : bool) : adwin_params :=
  {| a_max_buckets := M; a_new_sample_thresh := nst; a_window_size_thresh := wst; a_sub_thresh := sst;
     a_conservative := cons |}.

Definition table_fn (tbl : list float) (w : Z) : float := nth (Z.to_nat w) tbl nan.

Definition adwin_obs (s : @adwin_st NumFloat) : obs := mk_obs (a_ds s) (a_n s) (a_since s) (a_recs s).
Definition adwin_extra (s : @adwin_st NumFloat) : list float :=
  [mean_of (a_total s) (a_W s); variance_of (a_var s) (a_W s); float_ofZ (a_W s); a_total s; a_var s;
   b2f (a_fuel_out s)].

Fixpoint chk_adwin_go (dpd : Z -> float) (p : adwin_params) (s : @adwin_st NumFloat) (xs : list float)
         (exp : list exp_row) : bool :=
  match xs, exp with
  | [], [] => true
  | x :: xs', (o, fl) :: exp' =>
      let s' := @adwin_update NumFloat dpd p s x in
      obs_eqb (adwin_obs s') o && extras_ok (adwin_extra s') fl && chk_adwin_go dpd p s' xs' exp'
  | _, _ => false
  end.

Definition chk_adwin M nst wst sst cons (tbl : list float) (xs : list float) (exp : list exp_row) : bool :=
  chk_adwin_go (table_fn tbl) (adwin_p M nst wst sst cons) (@adwin_init NumFloat) xs exp.

Fixpoint show_adwin_go (dpd : Z -> float) (p : adwin_params) (s : @adwin_st NumFloat) (xs : list float)
         (exp : list exp_row) (i : Z) : option (Z * obs * list float) :=
  match xs, exp with
  | [], [] => None
  | x :: xs', (o, fl) :: exp' =>
      let s' := @adwin_update NumFloat dpd p s x in
      if obs_eqb (adwin_obs s') o && extras_ok (adwin_extra s') fl then show_adwin_go dpd p s' xs' exp' (i + 1)
      else Some (i, adwin_obs s', adwin_extra s')
  | _, _ => Some (i, mk_obs DNone (-1) (-1) recs_none, [])
  end.
Definition show_adwin M nst wst sst cons (tbl : list float) (xs : list float) (exp : list exp_row) :=
  show_adwin_go (table_fn tbl) (adwin_p M nst wst sst cons) (@adwin_init NumFloat) xs exp 0.
