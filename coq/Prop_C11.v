(** C11 — PCA-CD scores each component on aligned supports and alarms via Page-Hinkley.
    Statements only; proofs in Pcacd_Proofs.v.  The model (Pcacd.v) embeds the Page-Hinkley kernel [PH] of
    ChangeDet.v on the generic machine of Lifecycle.v, so the theorems of Prop_C04 apply to the monitor as is.
    Unless said otherwise a theorem holds for every arithmetic instance [N] (in particular the bit-exact float
    model) and for every value of the oracles (number of components, projected scores, "kl" scores), by
    induction over the stream.  [b] is online_scaling.  The "exact" theorems are about the real numbers. *)
From MV Require Import Base Num Lifecycle Lifecycle_Proofs Pairwise ChangeDet ChangeDet_Proofs Prop_C04
  Pcacd Pcacd_Proofs NumLaws NumFloat.
From Coq Require Import Permutation Reals.

Section C11.
Context {N : Num}.
Variable p : @pc_params N.
Notation w := (pc_w p).

(** ---------------- lifecycle facts (C01 uses them for PCACD) ---------------- *)
(** total_samples counts the updates *)
Theorem C11_lifecycle_total : forall b xs s x,
  m_total p (pc_run p b (pc_init p) xs) = Z.of_nat (length xs) /\
  m_total p (pc_update p b s x) = m_total p s + 1.
Proof. intros b xs s x. split; [rewrite run_total; reflexivity | apply upd_total]. Qed.

(** samples_since_reset advances by one, except that it restarts to 0 on the update that follows a drift;
    the state is only ever None or drift, and a drift is forgotten by the next update *)
Theorem C11_lifecycle_since : forall b xs x, 1 <= w ->
  let s := pc_run p b (pc_init p) xs in
  m_since p (pc_update p b s x) = (if is_drift (m_ds p s) then 0 else m_since p s + 1) /\
  0 <= m_since p s <= m_total p s /\
  m_ds p s <> DWarn /\
  (m_ds p s = DDrift -> m_ds p (pc_update p b s x) = DNone).
Proof.
  intros b xs x Hw s. pose proof (Inv_reach p Hw b xs) as I. fold s in I.
  split; [apply (since_step p b s x I)|]. split; [apply since_bounds; simpl; lia|].
  split; [apply (inv_nowarn p s I) | apply (drift_cleared p b s x I)].
Qed.

(** ---------------- silent until both windows are full ---------------- *)
(** no drift during the first 2 * window_size updates *)
Theorem C11_silent_until_full : forall b xs, 1 <= w ->
  Z.of_nat (length xs) <= 2 * w -> m_ds p (pc_run p b (pc_init p) xs) = DNone.
Proof. intros b xs Hw. apply silent_start. exact Hw. Qed.

(** after a drift: none during the next window_size + 1 updates (the first one is discarded, window_size refill
    the test window) *)
Theorem C11_silent_after_drift : forall b xs0 x xs, 1 <= w ->
  let s := pc_run p b (pc_init p) xs0 in
  m_ds p s = DDrift -> Z.of_nat (length xs) <= w -> m_ds p (pc_run p b s (x :: xs)) = DNone.
Proof. intros b xs0 x xs Hw s Hd L. apply (silent_after_drift p Hw b s x xs); [apply Inv_reach; exact Hw | exact Hd | exact L]. Qed.

(** ---------------- schedule ---------------- *)
(** a change score is computed (appended to the history and handed to the monitor) exactly at the updates of the
    monitoring phase whose sample number t satisfies (t - 1) mod step = 0 and t <> 1; the monitor is reset on the
    update after a drift and untouched otherwise *)
Theorem C11_score_schedule : forall b s x,
  let t := m_total p s + 1 in
  let due := negb (m_building p s) && scheduled p t in
  (scheduled p t = true <-> (t - 1) mod pc_step p = 0 /\ t <> 1) /\
  m_scores p (pc_update p b s x) = (if due then score_of p s x :: m_scores p s else m_scores p s) /\
  m_mon p (pc_update p b s x) =
    (if m_building p s then (if is_none (m_ds p s) then m_mon p s else do_reset (m_mon p s))
     else if scheduled p t then update (m_mon p s) (score_of p s x) else m_mon p s).
Proof.
  intros b s x t due. split; [|split; [apply upd_scores | apply upd_mon]].
  unfold scheduled. rewrite andb_true_iff, negb_true_iff, Z.eqb_eq, Z.eqb_neq. unfold t. split; intros [H1 H2]; split; lia.
Qed.

(** the score is the maximum over the components; "kl": of the oracle's Jensen-Shannon distances,
    "intersection": of the intersection divergences between reference and test histograms *)
Theorem C11_score_is_max : forall s x,
  score_of p s x = list_max (fst (comp_scores p s (tproj_of p s x) x)) /\
  (pc_inter p = false -> fst (comp_scores p s (tproj_of p s x) x) = i_scores x) /\
  (pc_inter p = true -> fst (comp_scores p s (tproj_of p s x) x) =
     map (fun i => inter_div (snd (nth (Z.to_nat i) (m_dref p s) ([], [])))
                             (snd (nth (Z.to_nat i) (hists p (npcs_of p s) (tproj_of p s x) (m_lower p s) (m_upper p s)) ([], []))))
         (pcs_of (npcs_of p s))).
Proof.
  intros s x. split; [reflexivity|]. split; intros H; [apply comp_scores_kl | apply comp_scores_inter]; exact H.
Qed.

(** ---------------- drift iff the embedded Page-Hinkley test alarms ---------------- *)
(** in every reachable state: the update reports drift iff it is a scheduled monitoring update and the
    Page-Hinkley test of Prop_C04 ([ph_test]: PH difference > threshold * mean, burn_in = 0, threshold =
    ph_threshold, over the scores of the current epoch) fires on the new maximum score *)
Theorem C11_drift_iff_page_hinkley : forall b xs x, 1 <= w ->
  let s := pc_run p b (pc_init p) xs in
  (m_ds p (pc_update p b s x) = DDrift <->
   m_building p s = false /\ scheduled p (m_total p s + 1) = true /\
   ph_test (ph_of p) (epoch (m_mon p s)) (since (m_mon p s) + 1) (score_of p s x) = true) /\
  (m_building p s = false ->
     (m_ds p (pc_update p b s x) = DDrift <->
      scheduled p (m_total p s + 1) = true /\ ds (update (m_mon p s) (score_of p s x)) <> DNone)).
Proof.
  intros b xs x Hw s. pose proof (Inv_reach p Hw b xs) as I. fold s in I.
  split; [apply (drift_iff p b s x I) | apply (drift_is_monitor_state p b s x I)].
Qed.

(** the statistics that test uses are those of Prop_C04 (running mean / cumulative sum / min / max of the scores) *)
Theorem C11_monitor_statistics : forall (e : @ph_e N) n v,
  let e' := fst (ph_step (ph_of p) e n v) in
  ph_burn_in (ph_of p) = 0 /\ ph_threshold (ph_of p) = fofZ (pc_thr p) /\ ph_delta (ph_of p) = pc_delta p /\
  p_mean e' = ph_mean' e n v /\ p_sum e' = ph_sum' (ph_of p) e n v /\ p_min e' = ph_min' (ph_of p) e n v /\
  p_max e' = ph_max' (ph_of p) e n v.
Proof.
  intros e n v. destruct (C04_ph_test (ph_of p) e n v) as (H1 & H2 & H3 & H4 & _). repeat split; assumption.
Qed.

(** ---------------- windows ---------------- *)
(** on the update after a drift the reference window becomes exactly the former test window (the window_size
    most recent samples), the test window is emptied, and the sample of that update is in neither window - neither
    then nor at any later time *)
Theorem C11_after_drift_windows : forall b xs x ys, 1 <= w ->
  let s := pc_run p b (pc_init p) xs in
  m_ds p s = DDrift ->
  let s' := pc_update p b s x in
  m_ref p s' = m_test p s /\ m_ref p s' = rangeZ (m_total p s - w) w /\ m_test p s' = [] /\
  (let s'' := pc_run p b s' ys in
   m_total p s < m_total p s'' /\ ~ In (m_total p s) (m_ref p s'') /\ ~ In (m_total p s) (m_test p s'')).
Proof. intros b xs x ys Hw. apply (after_drift_windows p Hw b xs x ys). Qed.

(** while monitoring (and when drift is reported) the test window is the window_size most recent samples *)
Theorem C11_test_window_recent : forall b xs, 1 <= w ->
  let s := pc_run p b (pc_init p) xs in
  (m_building p s = false \/ m_ds p s = DDrift) -> m_test p s = rangeZ (m_total p s - w) w.
Proof. intros b xs Hw. apply (test_window_recent p Hw b xs). Qed.

(** ---------------- aligned supports ("intersection") ---------------- *)
(** at every score computation, for every component the test histogram and the reference histogram are built on
    the same bin edges: those of [bins] equal bins over that component's own support (lower[i], upper[i]); the
    supports are the minimum / maximum over both projected windows at build time *)
Theorem C11_same_edges : forall b xs x, pc_inter p = true ->
  let s := pc_run p b (pc_init p) xs in
  m_building p s = false -> scheduled p (m_total p s + 1) = true ->
  let s' := pc_update p b s x in
  map fst (m_dtest p s') = own_edges p (npcs_of p s) (m_lower p s) (m_upper p s) /\
  map fst (m_dref p s') = own_edges p (npcs_of p s) (m_lower p s) (m_upper p s) /\
  m_dtest p s' = hists p (npcs_of p s) (m_tproj p s') (m_lower p s) (m_upper p s) /\
  m_dref p s = hists p (npcs_of p s) (m_rproj p s) (m_lower p s) (m_upper p s).
Proof.
  intros b xs x Hi s Hb Hs s'. pose proof (RefH_reach p b xs) as H. fold s in H.
  destruct (same_edges_step p b s x H Hi Hb Hs) as (H1 & _ & _ & _ & H5 & H6).
  repeat split; try assumption. apply H. exact Hi.
Qed.

Theorem C11_supports_at_build : forall b s x, pc_inter p = true -> lenZ (m_test p s) = w ->
  let s' := build_phase p b s x in
  m_lower p s' = supports_lower (i_npcs x) (i_rproj x) (i_tproj x) /\
  m_upper p s' = supports_upper (i_npcs x) (i_rproj x) (i_tproj x) /\
  m_dref p s' = hists p (i_npcs x) (i_rproj x) (m_lower p s') (m_upper p s').
Proof. intros b s x Hi L. destruct (build_installs p b s x L) as (_ & _ & _ & _ & H & _). exact (H Hi). Qed.

(** every new projection enters the test projection winsorised to the component's own support *)
Theorem C11_winsorised : forall s next (L : OrdLaws N) (v lo hi : F N), pc_inter p = true ->
  winsorize p s next =
    map (fun i => clip (nthF i next) (nthF i (m_lower p s)) (nthF i (m_upper p s))) (pcs_of (npcs_of p s)) /\
  (clip v lo hi = v \/ clip v lo hi = lo \/ clip v lo hi = hi) /\
  (fleb lo hi = true -> fleb lo (clip v lo hi) = true /\ fleb (clip v lo hi) hi = true).
Proof.
  intros s next L v lo hi Hi. split; [apply winsorize_inter; exact Hi|]. split; [apply clip_cases | apply clip_in_support; exact L].
Qed.

(** if every component's test scores are a rearrangement of its reference scores, the histograms coincide and every
    component score is max(0.0, 1 - np.sum(normalised reference histogram)) - in every arithmetic, floats included *)
Theorem C11_equal_windows_structural : forall b xs tproj x, pc_inter p = true ->
  let s := pc_run p b (pc_init p) xs in
  (forall i, In i (pcs_of (npcs_of p s)) -> Permutation (col i tproj) (col i (m_rproj p s))) ->
  fst (comp_scores p s tproj x) =
  map (fun i => pymax f0 (fsub f1 (np_sum (snd (nth (Z.to_nat i) (m_dref p s) ([], [])))))) (pcs_of (npcs_of p s)).
Proof. intros b xs tproj x Hi s HP. apply scores_equal_windows; [apply RefH_reach | exact Hi | exact HP]. Qed.

(** the intersection divergence, and with it the score handed to Page-Hinkley, is the float zero or strictly
    positive - never negative, never NaN - in every arithmetic with no law assumed (so in the float model);
    under the order laws this reads 0 <= score *)
Theorem C11_score_never_negative : forall s x (dr dt : list (F N)),
  (inter_div dr dt = f0 \/ fltb f0 (inter_div dr dt) = true) /\
  (pc_inter p = true -> score_of p s x = f0 \/ fltb f0 (score_of p s x) = true) /\
  (OrdLaws N -> fleb f0 (inter_div dr dt) = true).
Proof.
  intros s x dr dt. split; [apply inter_div_sign|]. split; [apply score_sign|]. intros L. apply inter_div_nonneg. exact L.
Qed.

(** ---------------- online_scaling ---------------- *)
(** with online_scaling off the update is the same function of the same oracles; only the StandardScaler calls
    disappear from the list of library calls *)
Theorem C11_scaling_irrelevant : forall s x xs,
  pc_update p false s x =
    set_calls p (pc_update p true s x) (drop_scaler (m_calls p (pc_update p true s x))) /\
  set_calls p (pc_run p false s xs) [] = set_calls p (pc_run p true s xs) [].
Proof. intros s x xs. split; [apply scaling_irrelevant_step | apply scaling_irrelevant_run]. Qed.

End C11.

(** ---------------- exact arithmetic: the intersection divergence over the reals ---------------- *)
Section C11_exact.
Local Open Scope R_scope.

(** np.histogram(bins = k, range = (lo, hi), density = True) / sum, on a sample with at least one point in
    [lo, hi]: the vector of per-bin sample fractions - non-negative, summing to one *)
Theorem C11_histogram_is_distribution : forall (xs : list R) (k : Z) (lo hi : R),
  (1 <= k)%Z -> lo <= hi -> (exists x0, In x0 xs /\ lo <= x0 <= hi) ->
  let d := snd (@build_hist NumR xs k lo hi) in
  let bins := @bins_of NumR (@hist_edges NumR k lo hi) in
  let tot := sumZ (map (@count_in NumR xs) bins) in
  (1 <= tot)%Z /\ d = map (fun bin => IZR (@count_in NumR xs bin) / IZR tot) bins /\
  (forall v, In v d -> 0 <= v) /\ rsum d = 1.
Proof. intros xs k lo hi Hk Hle Hx. exact (build_hist_fractions xs k lo hi Hk Hle Hx). Qed.

(** two identical windows (equal as multisets of scores): divergence exactly 0 *)
Theorem C11_intersection_zero_equal_windows : forall (xs ys : list R) (k : Z) (lo hi : R),
  (1 <= k)%Z -> lo <= hi -> (exists x0, In x0 xs /\ lo <= x0 <= hi) -> Permutation xs ys ->
  @inter_div NumR (snd (@build_hist NumR xs k lo hi)) (snd (@build_hist NumR ys k lo hi)) = 0.
Proof.
  intros xs ys k lo hi Hk Hle Hx P. rewrite <- (@build_hist_perm NumR xs ys k lo hi P).
  apply inter_div_equal. apply (build_hist_fractions xs k lo hi Hk Hle Hx).
Qed.

(** any two windows: the divergence lies in [0, 1] *)
Theorem C11_intersection_in_unit_interval : forall (xs ys : list R) (k : Z) (lo hi : R),
  (1 <= k)%Z -> lo <= hi -> (exists x0, In x0 xs /\ lo <= x0 <= hi) -> (exists y0, In y0 ys /\ lo <= y0 <= hi) ->
  0 <= @inter_div NumR (snd (@build_hist NumR xs k lo hi)) (snd (@build_hist NumR ys k lo hi)) <= 1.
Proof.
  intros xs ys k lo hi Hk Hle Hx Hy.
  destruct (build_hist_fractions xs k lo hi Hk Hle Hx) as (_ & _ & Px & Sx).
  destruct (build_hist_fractions ys k lo hi Hk Hle Hy) as (_ & _ & Py & _).
  apply inter_div_unit; assumption.
Qed.

(** the hypotheses above hold for the histograms the detector builds: a component's support contains every score
    of both projected windows *)
Theorem C11_support_contains_windows : forall (npcs i : Z) (r t : list (list R)) y, (0 <= i < npcs)%Z ->
  In y (@col NumR i r) \/ In y (@col NumR i t) ->
  @nthF NumR i (@supports_lower NumR npcs r t) <= y <= @nthF NumR i (@supports_upper NumR npcs r t).
Proof. exact supports_contain. Qed.

(** numpy's pairwise summation is the sum (exact arithmetic), every length *)
Theorem C11_np_sum_exact : forall l : list R, @np_sum NumR l = rsum l.
Proof. exact np_sum_R. Qed.

Example C11_exact_hypotheses_satisfiable :
  (1 <= 2)%Z /\ 0 <= 1 /\ (exists x0, In x0 [0; 1; 1] /\ 0 <= x0 <= 1) /\ Permutation [0; 1; 1] [1; 0; 1].
Proof.
  split; [lia|]. split; [apply Rle_0_1|]. split.
  - exists 0. split; [left; reflexivity|]. split; [apply Rle_refl | apply Rle_0_1].
  - apply perm_swap.
Qed.

End C11_exact.

(** ---------------- the machine is not trivially silent: a run of the float model with a drift ---------------- *)
From Coq Require Import PrimFloat.
Definition ex_p : @pc_params NumFloat := @Build_pc_params NumFloat 2 1 0 1 0%float false.
Definition ex_in (next sc : float) : @pc_input NumFloat := @Build_pc_input NumFloat 0 [] [] [next] [sc].
Definition ex_build : @pc_input NumFloat := @Build_pc_input NumFloat 1 [[0%float]; [1%float]] [[0%float]; [1%float]] [] [].
Definition ex_stream : list (@pc_input NumFloat) :=
  [ex_in 0 0; ex_in 0 0; ex_in 0 0; ex_build; ex_in 0.5 0.125; ex_in 0.5 0.5].

Example C11_drift_happens :
  let s := pc_run ex_p true (pc_init ex_p) ex_stream in
  let s' := pc_update ex_p true s (ex_in 0 0) in
  m_ds ex_p s = DDrift /\ m_total ex_p s = 6 /\ m_test ex_p s = [4; 5] /\
  m_ref ex_p s' = [4; 5] /\ m_test ex_p s' = [] /\ m_since ex_p s' = 0 /\ m_ds ex_p s' = DNone.
Proof. vm_compute. repeat split. Qed.

Print Assumptions C11_lifecycle_total.
Print Assumptions C11_lifecycle_since.
Print Assumptions C11_silent_until_full.
Print Assumptions C11_silent_after_drift.
Print Assumptions C11_score_schedule.
Print Assumptions C11_score_is_max.
Print Assumptions C11_drift_iff_page_hinkley.
Print Assumptions C11_monitor_statistics.
Print Assumptions C11_after_drift_windows.
Print Assumptions C11_test_window_recent.
Print Assumptions C11_same_edges.
Print Assumptions C11_supports_at_build.
Print Assumptions C11_winsorised.
Print Assumptions C11_equal_windows_structural.
Print Assumptions C11_score_never_negative.
Print Assumptions C11_scaling_irrelevant.
Print Assumptions C11_histogram_is_distribution.
Print Assumptions C11_intersection_zero_equal_windows.
Print Assumptions C11_intersection_in_unit_interval.
Print Assumptions C11_support_contains_windows.
Print Assumptions C11_np_sum_exact.
