(** Model of menelaus/data_drift/pca_cd.py (PCA-CD) with its embedded Page-Hinkley monitor
    (the kernel [PH] of ChangeDet.v on the generic machine of Lifecycle.v).

    Oracles (inputs of every update, supplied by the harness from the logged library calls):
      - at the update that completes the test window: the number of principal components kept by
        sklearn's PCA(ev_threshold) fitted on the (scaled) reference window, and the projections of both
        windows (StandardScaler + PCA.transform), one row per sample;
      - at every monitoring update: the projection of the new observation;
      - for divergence_metric = "kl": the per-component Jensen-Shannon distances of the kernel density
        estimates at every scheduled sample.
    For divergence_metric = "intersection" everything after the projection is modelled: per-component
    supports, winsorising, np.histogram(bins, range, density=True), normalisation, max(0.0, 1 - sum(min)).
    Windows are lists of stream indices (index of a sample = total_samples - 1 at its update).
    [m_calls] lists the library calls (kind, rows) the update makes, in order.  No proofs here. *)
From MV Require Import Base Num Lifecycle Pairwise ChangeDet.

Section PCACD.
Context {N : Num}.
Local Open Scope num_scope.
Notation F := (F N).

(** ------------------------------- small list helpers ------------------------------- *)
Definition lenZ {A} (l : list A) : Z := Z.of_nat (length l).

(** [0; 1; ...; n-1] as integers *)
Definition upto (n : Z) : list Z := map Z.of_nat (seq 0 (Z.to_nat n)).

(** [a; a+1; ...; a+n-1] *)
Definition rangeZ (a n : Z) : list Z := map (fun k => (a + k)%Z) (upto n).

(** column [i] of a table given as a list of rows (DataFrame.iloc[:, i]) *)
Definition col (i : Z) (rows : list (list F)) : list F := map (fun r => nth (Z.to_nat i) r f0) rows.
Definition nthF (i : Z) (l : list F) : F := nth (Z.to_nat i) l f0.
Definition nthL (i : Z) (l : list (list F)) : list F := nth (Z.to_nat i) l [].

(** Series.min() / Series.max() *)
Definition list_min (l : list F) : F :=
  match l with [] => f0 | x :: t => fold_left (fun m y => if y <? m then y else m) t x end.
Definition list_max (l : list F) : F :=
  match l with [] => f0 | x :: t => fold_left (fun m y => if m <? y then y else m) t x end.

(** ------------------------------- np.histogram ------------------------------- *)
Definition half : F := f1 / fofZ 2.

(** _get_outer_edges: an empty range is widened by 0.5 on both sides *)
Definition outer_edges (lo hi : F) : F * F :=
  if feqb lo hi then (lo - half, hi + half) else (lo, hi).

(** np.linspace(first, last, k + 1): arange * step + first, the last point set to [last] *)
Definition linspace (first last : F) (k : Z) : list F :=
  let delta := last - first in
  let step := delta / fofZ k in
  map (fun j => if feqb step f0 then ((fofZ j / fofZ k) * delta) + first else (fofZ j * step) + first) (upto k)
  ++ [last].

(** consecutive edge pairs; the flag marks the last bin, which is closed on the right *)
Fixpoint bins_of (es : list F) : list (F * F * bool) :=
  match es with
  | a :: ((b :: t) as r) => (a, b, match t with [] => true | _ => false end) :: bins_of r
  | _ => []
  end.

Definition in_bin (x : F) (b : F * F * bool) : bool :=
  let '(lo, hi, last) := b in (lo <=? x) && (if last then x <=? hi else x <? hi).

Definition count_in (xs : list F) (b : F * F * bool) : Z := lenZ (filter (fun x => in_bin x b) xs).

Definition hist_counts (xs : list F) (es : list F) : list Z := map (count_in xs) (bins_of es).

Definition sumZ (l : list Z) : Z := fold_left Z.add l 0%Z.

(** density=True: n / diff(edges) / n.sum() *)
Definition hist_density (xs : list F) (es : list F) : list F :=
  let bs := bins_of es in
  let tot := fofZ (sumZ (map (count_in xs) bs)) in
  map (fun b => (fofZ (count_in xs b) / (snd (fst b) - fst (fst b))) / tot) bs.

(** density / np.sum(density) *)
Definition normalize (d : list F) : list F := let s := np_sum d in map (fun x => x / s) d.

Definition hist_edges (k : Z) (lo hi : F) : list F :=
  let '(a, b) := outer_edges lo hi in linspace a b k.

(** _build_histograms(sample, bins, (lo, hi)): (bin_edges, density) *)
Definition build_hist (xs : list F) (k : Z) (lo hi : F) : list F * list F :=
  let es := hist_edges k lo hi in (es, normalize (hist_density xs es)).

(** np.minimum on non-NaN values *)
Definition np_minimum (a b : F) : F := if a <? b then a else b.

(** _intersection_divergence: max(0.0, 1 - sum(min(reference, test))); Python's max(0.0, x) is 0.0 unless x > 0.0
    (so -0.0 and NaN also give 0.0) *)
Definition inter_div (dr dt : list F) : F :=
  pymax f0 (f1 - np_sum (map (fun p => np_minimum (fst p) (snd p)) (combine dr dt))).

(** winsorising of a new projection to the component's support *)
Definition clip (x lo hi : F) : F := if x <? lo then lo else if hi <? x then hi else x.

(** ------------------------------- the detector ------------------------------- *)
Record pc_params := {
  pc_w : Z;            (* window_size *)
  pc_step : Z;         (* max(1, min(100, round(sample_period * window_size))) *)
  pc_thr : Z;          (* round(0.01 * window_size) *)
  pc_bins : Z;         (* floor(sqrt(window_size)) *)
  pc_delta : F;
  pc_inter : bool      (* divergence_metric = "intersection" (otherwise "kl") *)
}.

Variable p : pc_params.

(** PageHinkley(delta, threshold = ph_threshold, burn_in = 0), default direction *)
Definition ph_of : @ph_params N :=
  {| ph_delta := pc_delta p; ph_threshold := fofZ (pc_thr p); ph_burn_in := 0; ph_dir := DirPos |}.

Record pc_input := {
  i_npcs : Z;                 (* build: number of components *)
  i_rproj : list (list F);    (* build: projected reference window *)
  i_tproj : list (list F);    (* build: projected test window *)
  i_next : list F;            (* monitoring: projected new observation *)
  i_scores : list F           (* "kl", scheduled sample: per-component change scores *)
}.

(** library call kinds recorded in [m_calls] *)
Definition C_FIT_SCALE := 1%Z.   (* StandardScaler.fit_transform *)
Definition C_SCALE := 2%Z.       (* StandardScaler.transform *)
Definition C_INV := 3%Z.         (* StandardScaler.inverse_transform *)
Definition C_PCA_FIT := 4%Z.
Definition C_PCA_TR := 5%Z.
Definition C_KDE := 6%Z.         (* KernelDensity.fit (one per component) *)
Definition C_JS := 7%Z.          (* jensenshannon (one per component) *)

Record pc_st := mk_pc {
  m_total : Z; m_since : Z; m_ds : dstate;
  m_building : bool;                         (* _build_reference_and_test *)
  m_ref : list Z; m_test : list Z;           (* windows, as stream indices, oldest first *)
  m_npcs : option Z;
  m_rproj : list (list F); m_tproj : list (list F);
  m_lower : list F; m_upper : list F;        (* per component ("intersection" only) *)
  m_dref : list (list F * list F);           (* per component (edges, density) of the reference *)
  m_dtest : list (list F * list F);          (* per component (edges, density) of the last test histograms *)
  m_mon : st (PH ph_of);                     (* _drift_detection_monitor *)
  m_scores : list F;                         (* _change_score without its initial 0, newest first *)
  m_comp : list F;                           (* per-component scores of the last computation *)
  m_calls : list (Z * Z)                     (* library calls of the last update *)
}.

Definition pc_init : pc_st :=
  mk_pc 0 0 DNone true [] [] None [] [] [] [] [] [] (init (PH ph_of) ph_e0) [] [] [].

Definition pcs_of (npcs : Z) : list Z := upto npcs.

(** (total_samples - 1) % step == 0 and total_samples - 1 != 0, [t] = total_samples after the increment *)
Definition scheduled (t : Z) : bool := ((t - 1) mod pc_step p =? 0)%Z && negb (t - 1 =? 0)%Z.

(** first part of the building branch: swap after a drift, or append to the window that is not full *)
Definition fill_phase (scaling : bool) (s : pc_st) : pc_st :=
  let i := m_total s in
  let n := (m_since s + 1)%Z in
  if negb (is_none (m_ds s)) then
    mk_pc (i + 1)%Z 0 DNone true (m_test s) [] (m_npcs s) (m_rproj s) (m_tproj s) (m_lower s) (m_upper s)
          (m_dref s) (m_dtest s) (do_reset (m_mon s)) (m_scores s) (m_comp s)
          (if scaling then [(C_INV, lenZ (m_test s))] else [])
  else if (lenZ (m_ref s) <? pc_w p)%Z then
    mk_pc (i + 1)%Z n (m_ds s) true (m_ref s ++ [i]) (m_test s) (m_npcs s) (m_rproj s) (m_tproj s) (m_lower s) (m_upper s)
          (m_dref s) (m_dtest s) (m_mon s) (m_scores s) (m_comp s) []
  else if (lenZ (m_test s) <? pc_w p)%Z then
    mk_pc (i + 1)%Z n (m_ds s) true (m_ref s) (m_test s ++ [i]) (m_npcs s) (m_rproj s) (m_tproj s) (m_lower s) (m_upper s)
          (m_dref s) (m_dtest s) (m_mon s) (m_scores s) (m_comp s) []
  else
    mk_pc (i + 1)%Z n (m_ds s) true (m_ref s) (m_test s) (m_npcs s) (m_rproj s) (m_tproj s) (m_lower s) (m_upper s)
          (m_dref s) (m_dtest s) (m_mon s) (m_scores s) (m_comp s) [].

Definition supports_lower (npcs : Z) (rproj tproj : list (list F)) : list F :=
  map (fun i => pymin (list_min (col i rproj)) (list_min (col i tproj))) (pcs_of npcs).
Definition supports_upper (npcs : Z) (rproj tproj : list (list F)) : list F :=
  map (fun i => pymax (list_max (col i rproj)) (list_max (col i tproj))) (pcs_of npcs).

(** histograms of every component of a projected window on the component's own support *)
Definition hists (npcs : Z) (proj : list (list F)) (lower upper : list F) : list (list F * list F) :=
  map (fun i => build_hist (col i proj) (pc_bins p) (nthF i lower) (nthF i upper)) (pcs_of npcs).

(** second part of the building branch: when the test window is full, fit and project (oracles),
    then per component the support and the reference histogram ("intersection") or a KDE ("kl") *)
Definition build_phase (scaling : bool) (s : pc_st) (x : pc_input) : pc_st :=
  if (lenZ (m_test s) =? pc_w p)%Z then
    let npcs := i_npcs x in
    let rproj := i_rproj x in
    let tproj := i_tproj x in
    let lower := if pc_inter p then supports_lower npcs rproj tproj else m_lower s in
    let upper := if pc_inter p then supports_upper npcs rproj tproj else m_upper s in
    let dref := if pc_inter p then hists npcs rproj lower upper else m_dref s in
    let w := pc_w p in
    mk_pc (m_total s) (m_since s) (m_ds s) false (m_ref s) (m_test s) (Some npcs) rproj tproj lower upper
          dref (m_dtest s) (m_mon s) (m_scores s) (m_comp s)
          (m_calls s ++ (if scaling then [(C_FIT_SCALE, w); (C_SCALE, w)] else [])
                     ++ [(C_PCA_FIT, w); (C_PCA_TR, w); (C_PCA_TR, w)]
                     ++ (if pc_inter p then [] else map (fun _ => (C_KDE, w)) (pcs_of npcs)))
  else s.

Definition npcs_of (s : pc_st) : Z := match m_npcs s with Some k => k | None => 0%Z end.

Definition winsorize (s : pc_st) (next : list F) : list F :=
  if pc_inter p
  then map (fun i => clip (nthF i next) (nthF i (m_lower s)) (nthF i (m_upper s))) (pcs_of (npcs_of s))
  else next.

(** per-component change scores at a scheduled sample, and the test histograms they were computed from *)
Definition comp_scores (s : pc_st) (tproj : list (list F)) (x : pc_input) : list F * list (list F * list F) :=
  if pc_inter p then
    let dtest := hists (npcs_of s) tproj (m_lower s) (m_upper s) in
    (map (fun i => inter_div (snd (nth (Z.to_nat i) (m_dref s) ([], []))) (snd (nth (Z.to_nat i) dtest ([], []))))
         (pcs_of (npcs_of s)), dtest)
  else (i_scores x, m_dtest s).

(** the else-branch of update(): slide, project, winsorise, and score on schedule *)
Definition monitor_phase (scaling : bool) (s : pc_st) (x : pc_input) : pc_st :=
  let i := m_total s in
  let t := (i + 1)%Z in
  let n := (m_since s + 1)%Z in
  let next := winsorize s (i_next x) in
  let test := tl (m_test s) ++ [i] in
  let tproj := tl (m_tproj s) ++ [next] in
  let calls0 := (if scaling then [(C_SCALE, 1%Z)] else []) ++ [(C_PCA_TR, 1%Z)] in
  if scheduled t then
    let '(comp, dtest) := comp_scores s tproj x in
    let score := list_max comp in
    let mon := update (m_mon s) score in
    let alarm := negb (is_none (ds mon)) in
    let w := pc_w p in
    mk_pc t n (if alarm then DDrift else m_ds s) alarm (m_ref s) test (m_npcs s) (m_rproj s) tproj (m_lower s) (m_upper s)
          (m_dref s) dtest mon (score :: m_scores s) comp
          (calls0 ++ (if pc_inter p then []
                      else map (fun _ => (C_KDE, w)) (pcs_of (npcs_of s)) ++ map (fun _ => (C_JS, w)) (pcs_of (npcs_of s))))
  else
    mk_pc t n (m_ds s) false (m_ref s) test (m_npcs s) (m_rproj s) tproj (m_lower s) (m_upper s)
          (m_dref s) (m_dtest s) (m_mon s) (m_scores s) (m_comp s) calls0.

(** update(X); [scaling] = online_scaling *)
Definition pc_update (scaling : bool) (s : pc_st) (x : pc_input) : pc_st :=
  if m_building s then build_phase scaling (fill_phase scaling s) x
  else monitor_phase scaling s x.

Definition pc_run (scaling : bool) (s : pc_st) (xs : list pc_input) : pc_st := fold_left (pc_update scaling) xs s.

(** states after each update *)
Fixpoint pc_trace (scaling : bool) (s : pc_st) (xs : list pc_input) : list pc_st :=
  match xs with
  | [] => []
  | x :: t => let s' := pc_update scaling s x in s' :: pc_trace scaling s' t
  end.

Definition set_calls (s : pc_st) (c : list (Z * Z)) : pc_st :=
  mk_pc (m_total s) (m_since s) (m_ds s) (m_building s) (m_ref s) (m_test s) (m_npcs s) (m_rproj s) (m_tproj s)
        (m_lower s) (m_upper s) (m_dref s) (m_dtest s) (m_mon s) (m_scores s) (m_comp s) c.

Definition scaler_call (c : Z * Z) : bool := (fst c <=? 3)%Z.

End PCACD.
