(** C17 — a stricter confidence setting never makes a detector alarm earlier.
    Statements only.  The two settings are run on the same inputs (and, for STEPD, the same oracle
    p-values); [first_drift] is the index of the first update reporting drift, [opt_le] compares with
    "never" = infinity.  Hypothesis [ML : MonoLaws N]: order / monotonicity laws of the arithmetic
    (NumLaws.v) - true of the reals ([MonoLawsR], so the statements are not vacuous) and of IEEE doubles
    on non-NaN values; for the float instance they are an assumption of this property (trusted base).
    ADWIN, LinearFourRates, the kdq-tree detectors, NN-DVI and HDDDM/CDBD are decided on the
    implementation by the direct oracle (ordered pairs of settings, same seed schedule): PARTIAL. *)
From MV Require Import Base Num NumLaws Lifecycle Lifecycle_Proofs Lifecycle_Mono Ddm Pairwise ChangeDet Mono_Proofs.

Section C17.
Context {N : Num}.
Variable ML : MonoLaws N.
Let TL : TransLaws N := TransLaws_of_OrdLaws (ml_ord N ML).

Notation FD K e xs := (first_drift (trace (init K e) xs)).

(** larger DDM drift_scale = stricter *)
Theorem C17_ddm_drift_scale : forall (p : @ddm_params N) k1 k2 xs, fleb k1 k2 = true ->
  opt_le (FD (DDM (ddm_with_drift p k1)) ddm_e0 xs) (FD (DDM (ddm_with_drift p k2)) ddm_e0 xs).
Proof.
  intros p k1 k2 xs Hk.
  apply (first_drift_monotone ddm_e bool (fun _ => ddm_e0) PolFirstWarn
           (ddm_step (ddm_with_drift p k1)) (ddm_step (ddm_with_drift p k2)) eq).
  - intros e1 e2 n x <-. apply ddm_same_state. reflexivity.
  - intros e1 e2 n x <- Hnd. exact (ddm_drift_same_otherwise ML p k1 k2 e1 n x Hk Hnd).
  - unfold srel, init; simpl. repeat split.
  - simpl. discriminate.
Qed.

(** smaller EDDM drift_thresh = stricter *)
Theorem C17_eddm_drift_thresh : forall (p : @eddm_params N) t1 t2 xs, fleb t2 t1 = true ->
  opt_le (FD (EDDM (eddm_with_drift p t1)) eddm_e0 xs) (FD (EDDM (eddm_with_drift p t2)) eddm_e0 xs).
Proof.
  intros p t1 t2 xs Ht.
  apply (first_drift_monotone eddm_e bool (fun _ => eddm_e0) PolFirstWarn
           (eddm_step (eddm_with_drift p t1)) (eddm_step (eddm_with_drift p t2)) eq).
  - intros e1 e2 n x <-. apply eddm_same_state. reflexivity.
  - intros e1 e2 n x <- Hnd. exact (eddm_drift_same_otherwise TL p t1 t2 e1 n x Ht Hnd).
  - unfold srel, init; simpl. repeat split.
  - simpl. discriminate.
Qed.

(** smaller STEPD alpha_drift = stricter (same p-value oracle on both sides) *)
Theorem C17_stepd_alpha_drift : forall (p : @stepd_params N) a1 a2 xs, fleb a2 a1 = true ->
  opt_le (FD (STEPD (stepd_with_drift p a1)) stepd_e0 xs) (FD (STEPD (stepd_with_drift p a2)) stepd_e0 xs).
Proof.
  intros p a1 a2 xs Ha.
  apply (first_drift_monotone stepd_e (bool * F N)%type (fun _ => stepd_e0) PolRun
           (stepd_step (stepd_with_drift p a1)) (stepd_step (stepd_with_drift p a2)) eq).
  - intros e1 e2 n x <-. apply stepd_same_state. reflexivity.
  - intros e1 e2 n x <- Hnd. exact (stepd_drift_same_otherwise TL p a1 a2 e1 n x Ha Hnd).
  - unfold srel, init; simpl. repeat split.
  - simpl. discriminate.
Qed.

(** larger CUSUM threshold = stricter *)
Theorem C17_cusum_threshold : forall (p : @cusum_params N) tg sd t1 t2 xs, fleb t1 t2 = true ->
  opt_le (FD (CUSUM (cusum_with_thr p t1)) (cusum_e0 tg sd) xs) (FD (CUSUM (cusum_with_thr p t2)) (cusum_e0 tg sd) xs).
Proof.
  intros p tg sd t1 t2 xs Ht.
  apply (first_drift_monotone cusum_e (F N) (cusum_reset (cusum_with_thr p t1)) PolNoRecs
           (cusum_step (cusum_with_thr p t1)) (cusum_step (cusum_with_thr p t2)) eq).
  - intros e1 e2 n x <-. apply cusum_same_state.
  - intros e1 e2 n x <- Hnd. exact (cusum_drift_same_otherwise TL p t1 t2 e1 n x Ht Hnd).
  - unfold srel, init; simpl. repeat split.
  - simpl. discriminate.
Qed.

(** larger Page-Hinkley threshold = stricter, for positive thresholds (the test compares with
    threshold * mean, so a zero or negative threshold reverses the order when the mean is negative) *)
Definition ph_stats_eq (e1 e2 : @ph_e N) : Prop :=
  p_max e1 = p_max e2 /\ p_min e1 = p_min e2 /\ p_sum e1 = p_sum e2 /\ p_mean e1 = p_mean e2.

Theorem C17_page_hinkley_threshold : forall (p : @ph_params N) t1 t2 xs, fltb f0 t1 = true -> fleb t1 t2 = true ->
  opt_le (FD (PH (ph_with_thr p t1)) ph_e0 xs) (FD (PH (ph_with_thr p t2)) ph_e0 xs).
Proof.
  intros p t1 t2 xs Hpos Ht.
  apply (first_drift_monotone ph_e (F N) (fun _ => ph_e0) PolNoRecs
           (ph_step (ph_with_thr p t1)) (ph_step (ph_with_thr p t2)) ph_stats_eq).
  - intros e1 e2 n x (H1 & H2 & H3 & H4).
    destruct (ChangeDet_Proofs.ph_local (ph_with_thr p t2) e1 e2 n x H1 H2 H3 H4) as (_ & A & B & C & D).
    unfold ph_stats_eq. rewrite <- A, <- B, <- C, <- D. repeat split.
  - intros e1 e2 n x (H1 & H2 & H3 & H4) Hnd.
    destruct (ChangeDet_Proofs.ph_local (ph_with_thr p t2) e1 e2 n x H1 H2 H3 H4) as (E & _). rewrite <- E.
    exact (ph_drift_same_otherwise ML p t1 t2 e1 n x Hpos Ht Hnd).
  - unfold srel, init, ph_stats_eq; simpl. repeat split.
  - simpl. discriminate.
Qed.

(** loosening only the warning threshold never changes when drift is reported (at any update of the
    whole run, not only the first) and never removes a warning *)
Definition warn_conclusion (t1 t2 : list obs) : Prop :=
  Forall2 (fun o1 o2 => (o_ds o1 = DDrift <-> o_ds o2 = DDrift) /\ (o_ds o2 = DWarn -> o_ds o1 = DWarn)
                         /\ o_total o1 = o_total o2 /\ o_since o1 = o_since o2) t1 t2.

Theorem C17_ddm_warning_scale : forall (p : @ddm_params N) k1 k2 xs, fleb k1 k2 = true ->
  warn_conclusion (trace (init (DDM (ddm_with_warn p k1)) ddm_e0) xs) (trace (init (DDM (ddm_with_warn p k2)) ddm_e0) xs).
Proof.
  intros p k1 k2 xs Hk.
  apply (warning_loosening ddm_e bool (fun _ => ddm_e0) PolFirstWarn
           (ddm_step (ddm_with_warn p k1)) (ddm_step (ddm_with_warn p k2))).
  - intros e n x. apply ddm_same_state. reflexivity.
  - intros e n x. exact (proj1 (ddm_warn_obligations ML p k1 k2 e n x Hk)).
  - intros e n x. exact (proj1 (proj2 (ddm_warn_obligations ML p k1 k2 e n x Hk))).
  - intros e n x. exact (proj2 (proj2 (ddm_warn_obligations ML p k1 k2 e n x Hk))).
  - unfold wrel, init; simpl. repeat split; intros; congruence.
Qed.

Theorem C17_eddm_warning_thresh : forall (p : @eddm_params N) w1 w2 xs, fleb w2 w1 = true ->
  warn_conclusion (trace (init (EDDM (eddm_with_warn p w1)) eddm_e0) xs) (trace (init (EDDM (eddm_with_warn p w2)) eddm_e0) xs).
Proof.
  intros p w1 w2 xs Hw.
  apply (warning_loosening eddm_e bool (fun _ => eddm_e0) PolFirstWarn
           (eddm_step (eddm_with_warn p w1)) (eddm_step (eddm_with_warn p w2))).
  - intros e n x. apply eddm_same_state. reflexivity.
  - intros e n x. exact (proj1 (eddm_warn_obligations TL p w1 w2 e n x Hw)).
  - intros e n x. exact (proj1 (proj2 (eddm_warn_obligations TL p w1 w2 e n x Hw))).
  - intros e n x. exact (proj2 (proj2 (eddm_warn_obligations TL p w1 w2 e n x Hw))).
  - unfold wrel, init; simpl. repeat split; intros; congruence.
Qed.

Theorem C17_stepd_alpha_warning : forall (p : @stepd_params N) a1 a2 xs, fleb a2 a1 = true ->
  warn_conclusion (trace (init (STEPD (stepd_with_warn p a1)) stepd_e0) xs) (trace (init (STEPD (stepd_with_warn p a2)) stepd_e0) xs).
Proof.
  intros p a1 a2 xs Ha.
  apply (warning_loosening stepd_e (bool * F N)%type (fun _ => stepd_e0) PolRun
           (stepd_step (stepd_with_warn p a1)) (stepd_step (stepd_with_warn p a2))).
  - intros e n x. apply stepd_same_state. reflexivity.
  - intros e n x. exact (proj1 (stepd_warn_obligations TL p a1 a2 e n x Ha)).
  - intros e n x. exact (proj1 (proj2 (stepd_warn_obligations TL p a1 a2 e n x Ha))).
  - intros e n x. exact (proj2 (proj2 (stepd_warn_obligations TL p a1 a2 e n x Ha))).
  - unfold wrel, init; simpl. repeat split; intros; congruence.
Qed.

End C17.

(** For EDDM, STEPD and CUSUM the proofs use nothing but transitivity of the comparisons, which holds
    for ALL IEEE doubles, NaN included (FloatLaws.v, from the specification of Coq's primitive floats):
    for the bit-exact float model these results are unconditional. *)
From MV Require Import NumFloat FloatLaws.
From Coq Require Import PrimFloat.

Definition TransLawsFloat : TransLaws NumFloat :=
  Build_TransLaws NumFloat float_leb_trans float_ltb_leb_trans float_leb_ltb_trans.

Section C17_float.
Notation FD K e xs := (first_drift (trace (init K e) xs)).

Theorem C17_eddm_drift_thresh_float : forall (p : @eddm_params NumFloat) (t1 t2 : float) xs, PrimFloat.leb t2 t1 = true ->
  opt_le (FD (EDDM (eddm_with_drift p t1)) eddm_e0 xs) (FD (EDDM (eddm_with_drift p t2)) eddm_e0 xs).
Proof.
  intros p t1 t2 xs Ht.
  apply (first_drift_monotone eddm_e bool (fun _ => eddm_e0) PolFirstWarn
           (eddm_step (eddm_with_drift p t1)) (eddm_step (eddm_with_drift p t2)) eq).
  - intros e1 e2 n x <-. apply eddm_same_state. reflexivity.
  - intros e1 e2 n x <- Hnd. exact (eddm_drift_same_otherwise TransLawsFloat p t1 t2 e1 n x Ht Hnd).
  - unfold srel, init; simpl. repeat split.
  - simpl. discriminate.
Qed.

Theorem C17_stepd_alpha_drift_float : forall (p : @stepd_params NumFloat) (a1 a2 : float) xs, PrimFloat.leb a2 a1 = true ->
  opt_le (FD (STEPD (stepd_with_drift p a1)) stepd_e0 xs) (FD (STEPD (stepd_with_drift p a2)) stepd_e0 xs).
Proof.
  intros p a1 a2 xs Ha.
  apply (first_drift_monotone stepd_e (bool * float)%type (fun _ => stepd_e0) PolRun
           (stepd_step (stepd_with_drift p a1)) (stepd_step (stepd_with_drift p a2)) eq).
  - intros e1 e2 n x <-. apply stepd_same_state. reflexivity.
  - intros e1 e2 n x <- Hnd. exact (stepd_drift_same_otherwise TransLawsFloat p a1 a2 e1 n x Ha Hnd).
  - unfold srel, init; simpl. repeat split.
  - simpl. discriminate.
Qed.

Theorem C17_cusum_threshold_float : forall (p : @cusum_params NumFloat) tg sd (t1 t2 : float) xs, PrimFloat.leb t1 t2 = true ->
  opt_le (FD (CUSUM (cusum_with_thr p t1)) (cusum_e0 tg sd) xs) (FD (CUSUM (cusum_with_thr p t2)) (cusum_e0 tg sd) xs).
Proof.
  intros p tg sd t1 t2 xs Ht.
  apply (first_drift_monotone cusum_e float (cusum_reset (cusum_with_thr p t1)) PolNoRecs
           (cusum_step (cusum_with_thr p t1)) (cusum_step (cusum_with_thr p t2)) eq).
  - intros e1 e2 n x <-. apply cusum_same_state.
  - intros e1 e2 n x <- Hnd. exact (cusum_drift_same_otherwise TransLawsFloat p t1 t2 e1 n x Ht Hnd).
  - unfold srel, init; simpl. repeat split.
  - simpl. discriminate.
Qed.
Theorem C17_eddm_warning_thresh_float : forall (p : @eddm_params NumFloat) (w1 w2 : float) xs, PrimFloat.leb w2 w1 = true ->
  warn_conclusion (trace (init (EDDM (eddm_with_warn p w1)) eddm_e0) xs) (trace (init (EDDM (eddm_with_warn p w2)) eddm_e0) xs).
Proof.
  intros p w1 w2 xs Hw.
  apply (warning_loosening eddm_e bool (fun _ => eddm_e0) PolFirstWarn
           (eddm_step (eddm_with_warn p w1)) (eddm_step (eddm_with_warn p w2))).
  - intros e n x. apply eddm_same_state. reflexivity.
  - intros e n x. exact (proj1 (eddm_warn_obligations TransLawsFloat p w1 w2 e n x Hw)).
  - intros e n x. exact (proj1 (proj2 (eddm_warn_obligations TransLawsFloat p w1 w2 e n x Hw))).
  - intros e n x. exact (proj2 (proj2 (eddm_warn_obligations TransLawsFloat p w1 w2 e n x Hw))).
  - unfold wrel, init; simpl. repeat split; intros; congruence.
Qed.

Theorem C17_stepd_alpha_warning_float : forall (p : @stepd_params NumFloat) (a1 a2 : float) xs, PrimFloat.leb a2 a1 = true ->
  warn_conclusion (trace (init (STEPD (stepd_with_warn p a1)) stepd_e0) xs) (trace (init (STEPD (stepd_with_warn p a2)) stepd_e0) xs).
Proof.
  intros p a1 a2 xs Ha.
  apply (warning_loosening stepd_e (bool * float)%type (fun _ => stepd_e0) PolRun
           (stepd_step (stepd_with_warn p a1)) (stepd_step (stepd_with_warn p a2))).
  - intros e n x. apply stepd_same_state. reflexivity.
  - intros e n x. exact (proj1 (stepd_warn_obligations TransLawsFloat p a1 a2 e n x Ha)).
  - intros e n x. exact (proj1 (proj2 (stepd_warn_obligations TransLawsFloat p a1 a2 e n x Ha))).
  - intros e n x. exact (proj2 (proj2 (stepd_warn_obligations TransLawsFloat p a1 a2 e n x Ha))).
  - unfold wrel, init; simpl. repeat split; intros; congruence.
Qed.
End C17_float.

(** the hypothesis is satisfiable: the real numbers *)
Theorem C17_laws_satisfiable : MonoLaws NumR.
Proof. exact MonoLawsR. Qed.

Print Assumptions C17_ddm_drift_scale.
Print Assumptions C17_eddm_drift_thresh.
Print Assumptions C17_stepd_alpha_drift.
Print Assumptions C17_cusum_threshold.
Print Assumptions C17_page_hinkley_threshold.
Print Assumptions C17_ddm_warning_scale.
Print Assumptions C17_eddm_warning_thresh.
Print Assumptions C17_stepd_alpha_warning.
Print Assumptions C17_laws_satisfiable.
Print Assumptions C17_eddm_drift_thresh_float.
Print Assumptions C17_stepd_alpha_drift_float.
Print Assumptions C17_cusum_threshold_float.
Print Assumptions C17_eddm_warning_thresh_float.
Print Assumptions C17_stepd_alpha_warning_float.
