(** ADWIN keeps EXACT statistics of its adaptive window in exact (real) arithmetic.
    The model [Adwin.v] is instantiated at the real numbers ([NumLaws.NumR]); the log oracle [dpd]
    is arbitrary.  Part 1: sums / sums of squared deviations of lists of reals and the Chan identity.
    Part 2: the representation relation between bucket rows and the window.  Part 3: preservation by
    add / compress / remove_last / drop_empty_tail.  Part 4: the shrink loop and the run. *)
From MV Require Import Base Num Adwin Adwin_Proofs NumLaws.
From Coq Require Import Reals Lra Lia.

(** * Part 1: real arithmetic on lists *)
Section RList.
Local Open Scope R_scope.

Fixpoint sum (l : list R) : R := match l with [] => 0 | x :: t => x + sum t end.
Fixpoint sumsq (l : list R) : R := match l with [] => 0 | x :: t => x * x + sumsq t end.
Definition len (l : list R) : R := IZR (Z.of_nat (length l)).
Definition mean (l : list R) : R := sum l / len l.
(** sum of squared deviations from [m] *)
Fixpoint sqdev (m : R) (l : list R) : R :=
  match l with [] => 0 | x :: t => (x - m) * (x - m) + sqdev m t end.
(** closed form used in the proofs *)
Definition M2 (l : list R) : R := sumsq l - sum l * sum l / len l.

Lemma len_nil : len [] = 0.
Proof. reflexivity. Qed.
Lemma len_cons x l : len (x :: l) = len l + 1.
Proof. unfold len. cbn [length]. rewrite Nat2Z.inj_succ, succ_IZR. reflexivity. Qed.
Lemma len_app a b : len (a ++ b) = len a + len b.
Proof. unfold len. rewrite app_length, Nat2Z.inj_add, plus_IZR. reflexivity. Qed.
Lemma len_nonneg l : 0 <= len l.
Proof. unfold len. apply IZR_le. lia. Qed.
Lemma len_Z l (n : Z) : n = Z.of_nat (length l) -> len l = IZR n.
Proof. intros ->. reflexivity. Qed.

Lemma sum_app a b : sum (a ++ b) = sum a + sum b.
Proof. induction a as [|x a IH]; cbn [app sum]; [|rewrite IH]; lra. Qed.
Lemma sumsq_app a b : sumsq (a ++ b) = sumsq a + sumsq b.
Proof. induction a as [|x a IH]; cbn [app sumsq]; [|rewrite IH]; lra. Qed.

Lemma sqdev_expand m l : sqdev m l = sumsq l - 2 * m * sum l + len l * m * m.
Proof.
  induction l as [|x t IH].
  - rewrite len_nil. cbn [sqdev sumsq sum]. ring.
  - rewrite len_cons. cbn [sqdev sumsq sum]. rewrite IH. ring.
Qed.

(** [M2 l] is the sum of squared deviations from the mean of [l] (both are 0 for the empty list) *)
Lemma M2_sqdev l : M2 l = sqdev (mean l) l.
Proof.
  destruct l as [|x t].
  - unfold M2. cbn [sqdev sumsq sum]. unfold Rdiv. ring.
  - rewrite sqdev_expand. unfold M2, mean.
    assert (H : 0 < len (x :: t)) by (rewrite len_cons; pose proof (len_nonneg t); lra).
    field. lra.
Qed.

(** Chan, Golub, LeVeque: combining the statistics of two non-empty samples *)
Lemma M2_chan a b : 0 < len a -> 0 < len b ->
  M2 (a ++ b) =
  M2 a + M2 b + len a * len b / (len a + len b) * ((mean a - mean b) * (mean a - mean b)).
Proof.
  intros Ha Hb. unfold M2, mean. rewrite sum_app, sumsq_app, len_app. field. repeat split; lra.
Qed.

Lemma M2_single x : M2 [x] = 0.
Proof. unfold M2, len. cbn [sumsq sum length Z.of_nat Pos.of_succ_nat]. field. Qed.

(** instance 1: Welford insertion of one sample (the code of [_add_sample]) *)
Lemma welford_step w x (n : Z) : n = Z.of_nat (length w) -> (1 <= n)%Z ->
  M2 (w ++ [x]) = M2 w + IZR n * (x - sum w / IZR n) * (x - sum w / IZR n) / IZR (n + 1).
Proof.
  intros Hn H1. rewrite plus_IZR, <- (len_Z w n Hn).
  assert (H : 1 <= len w) by (rewrite (len_Z w n Hn); apply IZR_le; exact H1).
  unfold M2. rewrite sum_app, sumsq_app, len_app.
  replace (len [x]) with 1 by reflexivity. cbn [sum sumsq]. field. repeat split; lra.
Qed.

(** instance 2: merging two buckets of equal size (the code of [_compress_buckets]) *)
Lemma merge_step c0 c1 (ne : Z) : ne = Z.of_nat (length c0) -> ne = Z.of_nat (length c1) -> (0 < ne)%Z ->
  M2 (c0 ++ c1) =
  M2 c0 + M2 c1 +
  IZR ne * (sum c0 / IZR ne - sum c1 / IZR ne) * (sum c0 / IZR ne - sum c1 / IZR ne) / 2.
Proof.
  intros H0 H1 Hp. unfold M2. rewrite sum_app, sumsq_app, len_app.
  rewrite (len_Z c0 ne H0), (len_Z c1 ne H1).
  assert (H : 0 < IZR ne) by (apply IZR_lt; exact Hp).
  field. lra.
Qed.

(** instance 3: removing the oldest chunk (the code of [_remove_last]) *)
Lemma remove_step c w' (nc W' : Z) : nc = Z.of_nat (length c) -> W' = Z.of_nat (length w') ->
  (0 < nc)%Z -> (1 <= W')%Z ->
  M2 w' =
  M2 (c ++ w') -
  (M2 c + IZR (nc * W') * (sum c / IZR nc - sum w' / IZR W') * (sum c / IZR nc - sum w' / IZR W')
          / IZR (nc + W')).
Proof.
  intros Hc Hw Hp H1. rewrite mult_IZR, plus_IZR.
  assert (Ha : 0 < IZR nc) by (apply IZR_lt; exact Hp).
  assert (Hb : 0 < IZR W') by (apply IZR_lt; lia).
  unfold M2. rewrite sum_app, sumsq_app, len_app.
  rewrite (len_Z c nc Hc), (len_Z w' W' Hw). field. repeat split; lra.
Qed.

End RList.

(** * Part 2: the representation relation between bucket rows and the window *)
Notation st := (@adwin_st NumR).

(** bucket [b] = (total, variance) summarises the chunk [c] of [ne] consecutive inputs exactly *)
Definition rep_bucket (ne : Z) (b : @bucket NumR) (c : list R) : Prop :=
  Z.of_nat (length c) = ne /\ fst b = sum c /\ snd b = sqdev (mean c) c.

(** the buckets of a row, oldest first, summarise consecutive chunks (of [ne] inputs each) of [w] *)
Fixpoint rep_row (ne : Z) (r : @brow NumR) (w : list R) : Prop :=
  match r with
  | [] => w = []
  | b :: r' => exists c w', w = c ++ w' /\ rep_bucket ne b c /\ rep_row ne r' w'
  end.

(** rows: [w = w_older ++ w_row]; the first row (bucket size [ne]) holds the newest part, the
    remaining rows (bucket sizes [2 ne], [4 ne], ...) hold the older part *)
Fixpoint rep_rows (ne : Z) (rows : list (@brow NumR)) (w : list R) : Prop :=
  match rows with
  | [] => w = []
  | r :: rest => exists wo wr, w = wo ++ wr /\ rep_row ne r wr /\ rep_rows (2 * ne) rest wo
  end.

(** sum_i 2^i * |row i|, starting at level [i] *)
Fixpoint weight_from (i : nat) (rows : list (@brow NumR)) : Z :=
  match rows with
  | [] => 0
  | r :: rest => pow2 i * Z.of_nat (length r) + weight_from (S i) rest
  end.

(** the tail row (oldest data) is not empty *)
Fixpoint tail_ne (rows : list (@brow NumR)) : Prop :=
  match rows with
  | [] => False
  | [r] => r <> []
  | _ :: rest => tail_ne rest
  end.
Definition tail_ok (rows : list (@brow NumR)) : Prop := tail_ne rows \/ rows = [[]].

Lemma M2_nil : M2 [] = 0%R.
Proof. rewrite M2_sqdev. reflexivity. Qed.

Lemma rep_bucket_M2 ne b c :
  rep_bucket ne b c <-> Z.of_nat (length c) = ne /\ fst b = sum c /\ snd b = M2 c.
Proof. unfold rep_bucket. rewrite M2_sqdev. tauto. Qed.

Lemma rep_bucket_sample x : rep_bucket 1 (x, 0%R) [x].
Proof.
  apply rep_bucket_M2. split; [reflexivity|]. split; cbn [fst snd sum].
  - lra.
  - symmetry. apply M2_single.
Qed.

Lemma merge_eq ne (b0 b1 : @bucket NumR) :
  @merge NumR ne b0 b1 =
  (fst b0 + fst b1,
   snd b0 + snd b1 + IZR ne * (fst b0 / IZR ne - fst b1 / IZR ne) * (fst b0 / IZR ne - fst b1 / IZR ne) / 2)%R.
Proof. reflexivity. Qed.

Lemma merge_rep ne b0 b1 c0 c1 : 0 < ne ->
  rep_bucket ne b0 c0 -> rep_bucket ne b1 c1 -> rep_bucket (2 * ne) (@merge NumR ne b0 b1) (c0 ++ c1).
Proof.
  intros Hne H0 H1. apply rep_bucket_M2 in H0 as (L0 & T0 & V0). apply rep_bucket_M2 in H1 as (L1 & T1 & V1).
  apply rep_bucket_M2. rewrite merge_eq. cbn [fst snd]. split; [rewrite app_length; lia|]. split.
  - rewrite sum_app. lra.
  - rewrite T0, T1, V0, V1. symmetry. apply merge_step; [symmetry; assumption | symmetry; assumption | assumption].
Qed.

Lemma rep_row_single ne b c : rep_bucket ne b c -> rep_row ne [b] c.
Proof. intros H. exists c, []. split; [symmetry; apply app_nil_r|]. split; [exact H | reflexivity]. Qed.

Lemma rep_row_app ne : forall r1 r2 w1 w2,
  rep_row ne r1 w1 -> rep_row ne r2 w2 -> rep_row ne (r1 ++ r2) (w1 ++ w2).
Proof.
  induction r1 as [|b r1 IH]; intros r2 w1 w2 H1 H2.
  - cbn [rep_row] in H1. subst w1. exact H2.
  - destruct H1 as (c & w' & -> & Hb & Hr). cbn [app rep_row]. exists c, (w' ++ w2).
    split; [symmetry; apply app_assoc|]. split; [exact Hb | apply IH; assumption].
Qed.

Lemma rep_row_len ne : forall r w, rep_row ne r w -> Z.of_nat (length w) = ne * Z.of_nat (length r).
Proof.
  induction r as [|b r IH]; intros w H.
  - cbn [rep_row] in H. subst w. cbn [length]. lia.
  - destruct H as (c & w' & -> & (Hl & _) & Hr). apply IH in Hr. rewrite app_length. cbn [length]. lia.
Qed.

Lemma pow2_S i : pow2 (S i) = 2 * pow2 i.
Proof. unfold pow2. rewrite Nat2Z.inj_succ, Z.pow_succ_r; lia. Qed.

Lemma rep_rows_len : forall rows i w, rep_rows (pow2 i) rows w -> Z.of_nat (length w) = weight_from i rows.
Proof.
  induction rows as [|r rest IH]; intros i w H.
  - cbn [rep_rows] in H. subst w. reflexivity.
  - destruct H as (wo & wr & -> & Hr & Hrest). rewrite <- pow2_S in Hrest. apply IH in Hrest.
    apply rep_row_len in Hr. rewrite app_length. cbn [weight_from]. lia.
Qed.

(** * Part 3: preservation *)

(** ** compress *)
Lemma compress_rep M : forall rest ne r w, 0 < ne ->
  rep_rows ne (r :: rest) w -> rep_rows ne (@compress NumR M ne r rest) w.
Proof.
  induction rest as [|nx rest' IH]; intros ne r w Hne Hrep.
  - cbn [compress]. destruct (Z.eqb _ _); [|exact Hrep].
    destruct r as [|b0 [|b1 r']]; try exact Hrep.
    destruct Hrep as (wo & wr & -> & Hr & Hrest). cbn [rep_rows] in Hrest. subst wo.
    destruct Hr as (c0 & w0 & -> & Hb0 & Hr). destruct Hr as (c1 & w1 & -> & Hb1 & Hr).
    exists (c0 ++ c1), w1. split; [cbn [app]; rewrite app_assoc; reflexivity|]. split; [exact Hr|].
    exists [], (c0 ++ c1). split; [reflexivity|]. split; [|reflexivity].
    apply rep_row_single. apply merge_rep; assumption.
  - cbn [compress]. destruct (Z.eqb _ _); [|exact Hrep].
    destruct r as [|b0 [|b1 r']]; try exact Hrep.
    destruct Hrep as (wo & wr & -> & Hr & Hrest).
    destruct Hr as (c0 & w0 & -> & Hb0 & Hr). destruct Hr as (c1 & w1 & -> & Hb1 & Hr).
    destruct Hrest as (woo & wnx & -> & Hnx & Hrest').
    assert (Hnew : rep_rows (2 * ne) ((nx ++ [@merge NumR ne b0 b1]) :: rest') ((woo ++ wnx) ++ c0 ++ c1)).
    { exists woo, (wnx ++ c0 ++ c1). split; [symmetry; apply app_assoc|]. split; [|exact Hrest'].
      apply rep_row_app; [exact Hnx|]. apply rep_row_single. apply merge_rep; assumption. }
    assert (Hw : (woo ++ wnx) ++ c0 ++ c1 ++ w1 = ((woo ++ wnx) ++ c0 ++ c1) ++ w1)
      by (rewrite !app_assoc; reflexivity).
    destruct (Z.leb _ _).
    + exists ((woo ++ wnx) ++ c0 ++ c1), w1. split; [exact Hw|]. split; [exact Hr | exact Hnew].
    + exists ((woo ++ wnx) ++ c0 ++ c1), w1. split; [exact Hw|]. split; [exact Hr|].
      apply IH; [lia | exact Hnew].
Qed.

Lemma tail_ne_cons r rest : rest <> [] -> tail_ne (r :: rest) <-> tail_ne rest.
Proof. destruct rest; [congruence|]. intros _. reflexivity. Qed.

Lemma compress_nonnil M ne r rest : @compress NumR M ne r rest <> [].
Proof.
  destruct rest; cbn [compress]; destruct (Z.eqb _ _); try discriminate;
    destruct r as [|? [|? ?]]; try discriminate.
  destruct (Z.leb _ _); discriminate.
Qed.

Lemma compress_tail_ne M : forall rest ne r,
  tail_ne (r :: rest) -> tail_ne (@compress NumR M ne r rest).
Proof.
  induction rest as [|nx rest' IH]; intros ne r Ht.
  - cbn [compress]. destruct (Z.eqb _ _); [|exact Ht].
    destruct r as [|b0 [|b1 r']]; try exact Ht. cbn [tail_ne]. discriminate.
  - cbn [compress]. destruct (Z.eqb _ _); [|exact Ht].
    destruct r as [|b0 [|b1 r']]; try exact Ht.
    apply tail_ne_cons in Ht; [|discriminate].
    assert (Hnew : tail_ne ((nx ++ [@merge NumR ne b0 b1]) :: rest')).
    { destruct rest' as [|r2 rest2]; [cbn [tail_ne]; destruct nx; discriminate | exact Ht]. }
    destruct (Z.leb _ _).
    + apply tail_ne_cons; [discriminate | exact Hnew].
    + apply tail_ne_cons; [|apply IH; exact Hnew].
      apply compress_nonnil.
Qed.

(** ** pop_tail_bucket / drop_empty_tail *)
Lemma pow2_0 : pow2 0 = 1.
Proof. reflexivity. Qed.

Lemma pop_rep : forall rows ne w, tail_ne rows -> rep_rows ne rows w ->
  exists (b : @bucket NumR) (rows' : list (@brow NumR)) c w',
    @pop_tail_bucket NumR rows = (Some b, rows') /\ w = c ++ w' /\
    rep_bucket (ne * pow2 (length rows - 1)) b c /\ rep_rows ne rows' w' /\
    rows' <> [] /\ S (@n_buckets NumR rows') = @n_buckets NumR rows.
Proof.
  induction rows as [|r rest IH]; intros ne w Ht Hrep; [destruct Ht|].
  destruct rest as [|r2 rest].
  - cbn [tail_ne] in Ht. destruct r as [|b r']; [congruence|].
    destruct Hrep as (wo & wr & -> & Hr & Hrest). cbn [rep_rows] in Hrest. subst wo.
    destruct Hr as (c & w' & -> & Hb & Hr).
    exists b, [r'], c, w'. split; [reflexivity|]. split; [reflexivity|].
    split; [cbn [length Nat.sub]; rewrite pow2_0, Z.mul_1_r; exact Hb|].
    split; [exists [], w'; split; [reflexivity|]; split; [exact Hr | reflexivity]|].
    split; [discriminate|]. unfold n_buckets. cbn [concat]. rewrite !app_nil_r. reflexivity.
  - destruct Hrep as (wo & wr & -> & Hr & Hrest).
    destruct (IH (2 * ne) wo Ht Hrest) as (b & rest' & c & wo' & Hpop & -> & Hb & Hrest' & Hnn & Hcnt).
    exists b, (r :: rest'), c, (wo' ++ wr).
    split. { change (@pop_tail_bucket NumR (r :: r2 :: rest))
               with (let '(b, rest') := @pop_tail_bucket NumR (r2 :: rest) in (b, r :: rest')).
             rewrite Hpop. reflexivity. }
    split; [symmetry; apply app_assoc|].
    split. { replace (ne * pow2 (length (r :: r2 :: rest) - 1))
               with (2 * ne * pow2 (length (r2 :: rest) - 1)); [exact Hb|].
             cbn [length Nat.sub]. rewrite Nat.sub_0_r, pow2_S. lia. }
    split; [exists wo', wr; split; [reflexivity|]; split; assumption|].
    split; [discriminate|].
    unfold n_buckets in *. cbn [concat] in Hcnt |- *. rewrite !app_length in *. lia.
Qed.

Lemma drop_empty_tail_cons2 (r r2 : @brow NumR) (rest : list (@brow NumR)) :
  @drop_empty_tail NumR (r :: r2 :: rest) =
  match @drop_empty_tail NumR (r2 :: rest) with
  | [[]] => [r]
  | rest' => r :: rest'
  end.
Proof. reflexivity. Qed.

Lemma drop_cases (r r2 : @brow NumR) (rest : list (@brow NumR)) :
  (@drop_empty_tail NumR (r2 :: rest) = [[]] /\ @drop_empty_tail NumR (r :: r2 :: rest) = [r]) \/
  (@drop_empty_tail NumR (r2 :: rest) <> [[]] /\
   @drop_empty_tail NumR (r :: r2 :: rest) = r :: @drop_empty_tail NumR (r2 :: rest)).
Proof.
  rewrite drop_empty_tail_cons2.
  destruct (@drop_empty_tail NumR (r2 :: rest)) as [|[|b l] [|r3 l3]];
    [right|left|right|right|right]; split; try reflexivity; discriminate.
Qed.

Lemma tail_ne_nonnil rows : tail_ne rows -> rows <> [].
Proof. intros H ->. exact H. Qed.

Lemma drop_rep : forall rows ne w, rep_rows ne rows w -> rep_rows ne (@drop_empty_tail NumR rows) w.
Proof.
  induction rows as [|r rest IH]; intros ne w Hrep; [exact Hrep|].
  destruct rest as [|r2 rest]; [exact Hrep|].
  destruct Hrep as (wo & wr & -> & Hr & Hrest). apply IH in Hrest.
  destruct (drop_cases r r2 rest) as [[E1 E2]|[E1 E2]]; rewrite E2.
  - rewrite E1 in Hrest. destruct Hrest as (wo1 & wr1 & -> & Hr1 & Hrest1).
    cbn [rep_row] in Hr1. cbn [rep_rows] in Hrest1. subst.
    exists [], wr. split; [reflexivity|]. split; [exact Hr | reflexivity].
  - exists wo, wr. split; [reflexivity|]. split; assumption.
Qed.

Lemma drop_tail_ok : forall rows, rows <> [] -> tail_ok (@drop_empty_tail NumR rows).
Proof.
  induction rows as [|r rest IH]; intros Hn; [congruence|].
  destruct rest as [|r2 rest].
  - cbn [drop_empty_tail]. destruct r; [right; reflexivity | left; cbn [tail_ne]; discriminate].
  - destruct (drop_cases r r2 rest) as [[E1 E2]|[E1 E2]]; rewrite E2.
    + destruct r; [right; reflexivity | left; cbn [tail_ne]; discriminate].
    + destruct (IH ltac:(discriminate)) as [Ht | He]; [|congruence].
      left. apply tail_ne_cons; [apply tail_ne_nonnil; exact Ht | exact Ht].
Qed.

Lemma drop_count : forall rows, @n_buckets NumR (@drop_empty_tail NumR rows) = @n_buckets NumR rows.
Proof.
  induction rows as [|r rest IH]; [reflexivity|].
  destruct rest as [|r2 rest]; [reflexivity|].
  destruct (drop_cases r r2 rest) as [[E1 E2]|[E1 E2]]; rewrite E2.
  - rewrite E1 in IH. unfold n_buckets in *. cbn [concat] in *. rewrite !app_length in *.
    cbn [length] in *. lia.
  - unfold n_buckets in *. cbn [concat] in *. rewrite !app_length in *. lia.
Qed.

(** ** the scan: a cut is only found if the part newer than the oldest bucket has
    at least [a_sub_thresh] elements *)
Definition tag (ne : Z) (is_row0 : bool) : @brow NumR -> list (Z * @bucket NumR * bool) :=
  fix tag (l : @brow NumR) : list (Z * @bucket NumR * bool) :=
    match l with
    | [] => []
    | [b] => [(ne, b, is_row0)]
    | b :: l' => (ne, b, false) :: tag l'
    end.

Lemma flat_rows_cons ne (r : @brow NumR) rest f :
  @flat_rows NumR ne (r :: rest) f = @flat_rows NumR (2 * ne) rest false ++ tag ne f r.
Proof. reflexivity. Qed.

Lemma tag_length ne f : forall l, length (tag ne f l) = length l.
Proof.
  induction l as [|b l IH]; [reflexivity|]. destruct l as [|b' l']; [reflexivity|].
  change (tag ne f (b :: b' :: l')) with ((ne, b, false) :: tag ne f (b' :: l')).
  cbn [length]. rewrite IH. reflexivity.
Qed.

Lemma tag_sizes ne f : forall l, Forall (fun e => fst (fst e) = ne) (tag ne f l).
Proof.
  induction l as [|b l IH]; [constructor|]. destruct l as [|b' l']; [repeat constructor|].
  change (tag ne f (b :: b' :: l')) with ((ne, b, false) :: tag ne f (b' :: l')).
  constructor; [reflexivity | exact IH].
Qed.

Lemma flat_rows_length : forall rows ne f, length (@flat_rows NumR ne rows f) = @n_buckets NumR rows.
Proof.
  induction rows as [|r rest IH]; intros ne f; [reflexivity|].
  rewrite flat_rows_cons, app_length, IH, tag_length. unfold n_buckets. cbn [concat].
  rewrite app_length. lia.
Qed.

Lemma flat_rows_sizes : forall rows ne f, 0 <= ne ->
  Forall (fun e => 0 <= fst (fst e)) (@flat_rows NumR ne rows f).
Proof.
  induction rows as [|r rest IH]; intros ne f Hne; [constructor|].
  rewrite flat_rows_cons. apply Forall_app. split; [apply IH; lia|].
  eapply Forall_impl; [|apply tag_sizes]. cbv beta. intros e ->. exact Hne.
Qed.

Definition hd_size (bs : list (Z * @bucket NumR * bool)) : Z :=
  match bs with [] => 0 | e :: _ => fst (fst e) end.

Lemma flat_rows_hd : forall rows ne f, tail_ne rows ->
  @flat_rows NumR ne rows f <> [] /\ hd_size (@flat_rows NumR ne rows f) = ne * pow2 (length rows - 1).
Proof.
  induction rows as [|r rest IH]; intros ne f Ht; [destruct Ht|].
  rewrite flat_rows_cons. destruct rest as [|r2 rest].
  - cbn [tail_ne] in Ht. destruct r as [|b [|b' l']]; [congruence| |];
      (split; [discriminate|]); cbn [length Nat.sub]; rewrite pow2_0; cbn [flat_rows app tag hd_size fst]; lia.
  - destruct (IH (2 * ne) false Ht) as [Hnn Hhd].
    destruct (@flat_rows NumR (2 * ne) (r2 :: rest) false) as [|e l] eqn:E; [congruence|].
    split; [discriminate|]. cbn [app hd_size] in *. rewrite Hhd.
    cbn [length Nat.sub]. rewrite Nat.sub_0_r, pow2_S. lia.
Qed.

Section Run.
Variable dpd : Z -> R.
Variable p : adwin_params.

Lemma scan_true_bound : forall bs var W n0 n1 t0 t1,
  Forall (fun e => 0 <= fst (fst e)) bs ->
  @scan NumR dpd p bs var W n0 n1 t0 t1 = true ->
  bs <> [] /\ a_sub_thresh p <= n1 - hd_size bs.
Proof.
  induction bs as [|[[sz b] l0] rest IH]; intros var W n0 n1 t0 t1 HF H.
  - discriminate H.
  - split; [discriminate|]. cbn [hd_size fst]. cbn [scan] in H. cbv zeta in H.
    destruct l0; [discriminate H|].
    destruct (_ && _ && _) eqn:E in H.
    + apply andb_true_iff in E as [E _]. apply andb_true_iff in E as [_ E]. apply Z.leb_le in E. exact E.
    + inversion HF as [|e l Hsz HF']; subst. apply IH in H; [|exact HF'].
      destruct H as [Hnn H]. destruct rest as [|e rest']; [congruence|].
      inversion HF' as [|e' l' Hsz' _]; subst. cbn [hd_size fst] in *. lia.
Qed.

(** a cut can only be found if the tail row is non-empty and the window is strictly larger than its
    oldest bucket (by at least [a_sub_thresh]) *)
Lemma found_cut_bound (s : st) : tail_ok (a_rows s) -> @found_cut NumR dpd p s = true ->
  tail_ne (a_rows s) /\ a_sub_thresh p <= a_W s - pow2 (length (a_rows s) - 1).
Proof.
  intros Hok Hf. unfold found_cut in Hf.
  apply scan_true_bound in Hf; [|apply flat_rows_sizes; lia]. destruct Hf as [Hnn Hb].
  destruct Hok as [Ht | He]; [|rewrite He in Hnn; exfalso; apply Hnn; reflexivity].
  split; [exact Ht|]. destruct (flat_rows_hd (a_rows s) 1 true Ht) as [_ Hhd].
  rewrite Hhd in Hb. lia.
Qed.

(** * Part 4: the invariant *)
Record exact_window (s : st) (w : list R) : Prop := {
  ew_W : a_W s = Z.of_nat (length w);
  ew_total : a_total s = sum w;
  ew_var : a_var s = M2 w;
  ew_rows : rep_rows 1 (a_rows s) w;
  ew_tail : tail_ok (a_rows s)
}.

Lemma init_exact : exact_window adwin_init [].
Proof.
  constructor; try reflexivity.
  - symmetry. apply M2_nil.
  - exists [], []. repeat split.
  - right. reflexivity.
Qed.

(** ** adding a sample *)
Lemma after_add_W (s : st) x : a_W (after_add p s x) = a_W s + 1.
Proof. unfold after_add. destruct (is_none (a_ds s)); reflexivity. Qed.
Lemma after_add_fuel (s : st) x : a_fuel_out (after_add p s x) = a_fuel_out s.
Proof. unfold after_add. destruct (is_none (a_ds s)); reflexivity. Qed.
Lemma after_add_total (s : st) x : a_total (after_add p s x) = (a_total s + x)%R.
Proof. unfold after_add. destruct (is_none (a_ds s)); reflexivity. Qed.
Lemma after_add_var (s : st) x : a_var (after_add p s x) =
  if 1 <? a_W s + 1
  then (a_var s + IZR (a_W s + 1 - 1) * (x - a_total s / IZR (a_W s + 1 - 1))
                  * (x - a_total s / IZR (a_W s + 1 - 1)) / IZR (a_W s + 1))%R
  else a_var s.
Proof. unfold after_add. destruct (is_none (a_ds s)); reflexivity. Qed.
Lemma after_add_rows (s : st) x : a_rows (after_add p s x) =
  match a_rows s with
  | r0 :: rest => @compress NumR (a_max_buckets p) 1 (r0 ++ [(x, 0%R)]) rest
  | [] => @compress NumR (a_max_buckets p) 1 [(x, 0%R)] []
  end.
Proof. unfold after_add. destruct (is_none (a_ds s)); reflexivity. Qed.

Lemma tail_ok_nonnil rows : tail_ok rows -> rows <> [].
Proof. intros [H | ->]; [apply tail_ne_nonnil; exact H | discriminate]. Qed.

Lemma add_exact (s : st) w x : exact_window s w -> exact_window (after_add p s x) (w ++ [x]).
Proof.
  intros [HW HT HV HR HK]. constructor.
  - rewrite after_add_W, app_length, HW. cbn [length]. lia.
  - rewrite after_add_total, sum_app, HT. cbn [sum]. lra.
  - rewrite after_add_var. destruct (1 <? a_W s + 1) eqn:E.
    + apply Z.ltb_lt in E. replace (a_W s + 1 - 1) with (a_W s) by lia.
      rewrite HV, HT. symmetry. apply welford_step; [exact HW | lia].
    + apply Z.ltb_ge in E. destruct w as [|y w]; [|cbn [length] in HW; lia].
      cbn [app]. rewrite HV, M2_nil. symmetry. apply M2_single.
  - rewrite after_add_rows. destruct (a_rows s) as [|r0 rest] eqn:Er; [exfalso; exact (tail_ok_nonnil _ HK eq_refl)|].
    apply compress_rep; [lia|].
    destruct HR as (wo & wr & -> & Hr & Hrest). exists wo, (wr ++ [x]).
    split; [symmetry; apply app_assoc|]. split; [|exact Hrest].
    apply rep_row_app; [exact Hr|]. apply rep_row_single. apply rep_bucket_sample.
  - rewrite after_add_rows. destruct (a_rows s) as [|r0 rest] eqn:Er; [exfalso; exact (tail_ok_nonnil _ HK eq_refl)|].
    left. apply compress_tail_ne. destruct rest as [|r1 rest'].
    + cbn [tail_ne]. destruct r0; discriminate.
    + destruct HK as [Ht | He]; [exact Ht | discriminate He].
Qed.

(** ** removing the oldest bucket *)
Lemma remove_last_eq (s : st) (b : @bucket NumR) rows' :
  @pop_tail_bucket NumR (a_rows s) = (Some b, rows') ->
  let nc := pow2 (length (a_rows s) - 1) in
  let W' := a_W s - nc in
  a_rows (remove_last s) = @drop_empty_tail NumR rows' /\
  a_W (remove_last s) = W' /\
  a_total (remove_last s) = (a_total s - fst b)%R /\
  a_var (remove_last s) =
    (a_var s - (snd b + IZR (nc * W') * (fst b / IZR nc - (a_total s - fst b) / IZR W')
                        * (fst b / IZR nc - (a_total s - fst b) / IZR W') / IZR (nc + W')))%R /\
  a_fuel_out (remove_last s) = a_fuel_out s.
Proof. intros Hpop. unfold remove_last. rewrite Hpop. repeat split. Qed.

Lemma remove_exact (s : st) w : 1 <= a_sub_thresh p ->
  exact_window s w -> @found_cut NumR dpd p s = true ->
  exists c w', w = c ++ w' /\ exact_window (remove_last s) w' /\
    S (@n_buckets NumR (a_rows (remove_last s))) = @n_buckets NumR (a_rows s) /\
    a_fuel_out (remove_last s) = a_fuel_out s.
Proof.
  intros Hsub [HW HT HV HR HK] Hf.
  destruct (found_cut_bound s HK Hf) as [Ht Hb].
  destruct (pop_rep (a_rows s) 1 w Ht HR) as (b & rows' & c & w' & Hpop & -> & Hbk & Hrows' & Hnn & Hcnt).
  destruct (remove_last_eq s b rows' Hpop) as (Er & EW & ET & EV & EF).
  rewrite Z.mul_1_l in Hbk. apply rep_bucket_M2 in Hbk as (Lc & Tc & Vc).
  set (nc := pow2 (length (a_rows s) - 1)) in *.
  assert (Hnc : 0 < nc) by apply pow2_pos.
  rewrite app_length, Nat2Z.inj_add in HW.
  assert (HW' : a_W s - nc = Z.of_nat (length w')) by lia.
  assert (Hsum' : (a_total s - fst b)%R = sum w') by (rewrite HT, Tc, sum_app; lra).
  exists c, w'. split; [reflexivity|]. split; [|split; [rewrite Er, drop_count; exact Hcnt | exact EF]].
  constructor.
  - rewrite EW. exact HW'.
  - rewrite ET. exact Hsum'.
  - rewrite EV, Hsum', HV, Tc, Vc. symmetry. apply remove_step; [symmetry; exact Lc | exact HW' | exact Hnc | lia].
  - rewrite Er. apply drop_rep. exact Hrows'.
  - rewrite Er. apply drop_tail_ok. exact Hnn.
Qed.

Lemma mark_exact (s : st) w : exact_window s w -> exact_window (mark_fuel_out s) w.
Proof. intros [HW HT HV HR HK]. constructor; assumption. Qed.

(** ** the shrink loop: the retained window is a suffix of the window, and the fuel
    [n_buckets] suffices *)
Lemma shrink_exact : 1 <= a_sub_thresh p -> forall fuel (s : st) w, exact_window s w ->
  exists c w', w = c ++ w' /\ exact_window (@shrink NumR dpd p fuel s) w'.
Proof.
  intros Hsub fuel s w Hs.
  apply (@shrink_ind NumR dpd p (fun s' => exists c w', w = c ++ w' /\ exact_window s' w')).
  - intros s0 (c & w0 & -> & H0) Hf.
    destruct (remove_exact s0 w0 Hsub H0 Hf) as (c1 & w1 & -> & H1 & _).
    exists (c ++ c1), w1. split; [apply app_assoc | exact H1].
  - intros s0 (c & w0 & -> & H0). exists c, w0. split; [reflexivity | apply mark_exact; exact H0].
  - exists [], w. split; [reflexivity | exact Hs].
Qed.

Lemma shrink_fuel : 1 <= a_sub_thresh p -> forall fuel (s : st) w, exact_window s w ->
  (@n_buckets NumR (a_rows s) <= fuel)%nat -> a_fuel_out (@shrink NumR dpd p fuel s) = a_fuel_out s.
Proof.
  intros Hsub. induction fuel as [|fuel IH]; intros s w Hs Hn; cbn [shrink].
  - destruct (@found_cut NumR dpd p s) eqn:Hf; [|reflexivity]. exfalso.
    unfold found_cut in Hf. assert (Hl : length (@flat_rows NumR 1 (a_rows s) true) = 0%nat)
      by (rewrite flat_rows_length; lia).
    destruct (@flat_rows NumR 1 (a_rows s) true); [discriminate Hf | discriminate Hl].
  - destruct (@found_cut NumR dpd p s) eqn:Hf; [|reflexivity].
    destruct (remove_exact s w Hsub Hs Hf) as (c1 & w1 & _ & H1 & Hcnt & EF).
    rewrite (IH _ w1 H1); [exact EF | lia].
Qed.

(** ** one update, and the run *)
Lemma update_exact : 1 <= a_sub_thresh p -> forall (s : st) w x, exact_window s w ->
  exists c w', w ++ [x] = c ++ w' /\ exact_window (@adwin_update NumR dpd p s x) w' /\
    a_fuel_out (@adwin_update NumR dpd p s x) = a_fuel_out s.
Proof.
  intros Hsub s w x Hs. rewrite (@adwin_update_eq NumR dpd p). cbv zeta.
  pose proof (add_exact s w x Hs) as H1.
  destruct (scheduled p (after_add p s x)).
  - destruct (shrink_exact Hsub (n_buckets (a_rows (after_add p s x))) _ _ H1) as (c & w' & E & H2).
    exists c, w'. split; [exact E|]. split; [exact H2|].
    rewrite (shrink_fuel Hsub _ _ _ H1 (le_n _)). apply after_add_fuel.
  - exists [], (w ++ [x]). split; [reflexivity|]. split; [exact H1 | apply after_add_fuel].
Qed.

Lemma run_exact : 1 <= a_sub_thresh p -> forall xs (s : st) d w, exact_window s w ->
  exists d' w', d ++ w ++ xs = d' ++ w' /\ exact_window (@adwin_run NumR dpd p s xs) w' /\
    a_fuel_out (@adwin_run NumR dpd p s xs) = a_fuel_out s.
Proof.
  intros Hsub. induction xs as [|x xs IH]; intros s d w Hs.
  - exists d, w. rewrite app_nil_r. split; [reflexivity|]. split; [exact Hs | reflexivity].
  - destruct (update_exact Hsub s w x Hs) as (c & w1 & E & H1 & F1).
    destruct (IH _ (d ++ c) w1 H1) as (d' & w' & E' & H' & F').
    exists d', w'. split; [|split; [exact H' | unfold adwin_run in *; cbn [fold_left]; rewrite F'; exact F1]].
    rewrite <- E'. change (x :: xs) with ([x] ++ xs). rewrite (app_assoc w), E, <- !app_assoc. reflexivity.
Qed.

End Run.

(** * The final statements *)
(** the [n] most recent elements of [l] *)
Definition lastn {A} (n : nat) (l : list A) : list A := skipn (length l - n) l.

Lemma lastn_app {A} (d w : list A) : lastn (length w) (d ++ w) = w.
Proof.
  unfold lastn. rewrite app_length. replace (length d + length w - length w)%nat with (length d) by lia.
  rewrite skipn_app, skipn_all, Nat.sub_diag. reflexivity.
Qed.

Lemma adwin_exact_main (dpd : Z -> R) (p : adwin_params) : 1 <= a_sub_thresh p ->
  forall xs : list R,
  let s := @adwin_run NumR dpd p adwin_init xs in
  let W := a_W s in
  let w := lastn (Z.to_nat W) xs in
  0 <= W <= Z.of_nat (length xs) /\
  Z.of_nat (length w) = W /\
  a_total s = sum w /\
  a_var s = sqdev (mean w) w /\
  rep_rows 1 (a_rows s) w /\
  W = weight_from 0 (a_rows s) /\
  a_fuel_out s = false.
Proof.
  intros Hsub xs.
  destruct (run_exact dpd p Hsub xs adwin_init [] [] init_exact) as (d & w & E & [HW HT HV HR HK] & HF).
  cbn [app] in E. cbv zeta. rewrite HW, Nat2Z.id. subst xs. rewrite lastn_app.
  split; [rewrite app_length; lia|]. split; [reflexivity|]. split; [exact HT|].
  split; [rewrite <- M2_sqdev; exact HV|]. split; [exact HR|]. split; [|exact HF].
  apply rep_rows_len. exact HR.
Qed.

(** the window is empty only before the first input: a cut keeps at least [a_sub_thresh] elements *)
Section NonEmpty.
Variable dpd : Z -> R.
Variable p : adwin_params.
Hypothesis Hsub : 1 <= a_sub_thresh p.

Lemma remove_W_pos (s : st) w : exact_window s w -> @found_cut NumR dpd p s = true ->
  1 <= a_W (remove_last s).
Proof.
  intros [HW HT HV HR HK] Hf. destruct (found_cut_bound dpd p s HK Hf) as [Ht Hb].
  destruct (pop_rep (a_rows s) 1 w Ht HR) as (b & rows' & c & w' & Hpop & _).
  destruct (remove_last_eq s b rows' Hpop) as (_ & EW & _). rewrite EW. lia.
Qed.

Lemma shrink_W_pos fuel (s : st) w : exact_window s w -> 1 <= a_W s ->
  1 <= a_W (@shrink NumR dpd p fuel s).
Proof.
  intros Hs HW.
  apply (@shrink_ind NumR dpd p (fun s' => (exists w', exact_window s' w') /\ 1 <= a_W s')).
  - intros s0 [(w0 & H0) _] Hf. split; [|exact (remove_W_pos s0 w0 H0 Hf)].
    destruct (remove_exact dpd p s0 w0 Hsub H0 Hf) as (c1 & w1 & _ & H1 & _). exists w1. exact H1.
  - intros s0 [(w0 & H0) H1]. split; [exists w0; apply mark_exact; exact H0 | exact H1].
  - split; [exists w; exact Hs | exact HW].
Qed.

Lemma update_W_pos (s : st) w x : exact_window s w -> 1 <= a_W (@adwin_update NumR dpd p s x).
Proof.
  intros Hs. rewrite (@adwin_update_eq NumR dpd p). cbv zeta.
  assert (H1 : 1 <= a_W (after_add p s x)) by (rewrite after_add_W; destruct Hs as [HW _ _ _ _]; lia).
  destruct (scheduled p (after_add p s x)); [|exact H1].
  apply (shrink_W_pos _ _ (w ++ [x])); [apply add_exact; exact Hs | exact H1].
Qed.

Lemma run_W_pos xs : xs <> [] -> 1 <= a_W (@adwin_run NumR dpd p adwin_init xs).
Proof.
  intros Hne. destruct (exists_last Hne) as (xs' & x & ->).
  unfold adwin_run. rewrite fold_left_app. cbn [fold_left].
  destruct (run_exact dpd p Hsub xs' adwin_init [] [] init_exact) as (d & w & _ & Hw & _).
  exact (update_W_pos _ w x Hw).
Qed.
End NonEmpty.

(** mean() and variance() of the detector *)
Lemma adwin_exact_mean_variance (dpd : Z -> R) (p : adwin_params) : 1 <= a_sub_thresh p ->
  forall xs : list R, xs <> [] ->
  let s := @adwin_run NumR dpd p adwin_init xs in
  let w := lastn (Z.to_nat (a_W s)) xs in
  1 <= a_W s /\
  @mean_of NumR (a_total s) (a_W s) = mean w /\
  @variance_of NumR (a_var s) (a_W s) = (sqdev (mean w) w / len w)%R.
Proof.
  intros Hsub xs Hne. cbv zeta.
  pose proof (run_W_pos dpd p Hsub xs Hne) as HW. split; [exact HW|].
  destruct (adwin_exact_main dpd p Hsub xs) as (_ & HL & HT & HV & _).
  unfold mean_of, variance_of. destruct (a_W _ =? 0) eqn:E; [apply Z.eqb_eq in E; lia|].
  rewrite HT, HV. unfold mean, len. rewrite HL. split; reflexivity.
Qed.
