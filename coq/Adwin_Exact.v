(** ADWIN keeps EXACT statistics of its adaptive window in exact (real) arithmetic.
    The model [Adwin.v] is instantiated at the real numbers ([NumLaws.NumR]); the log oracle [dpd]
    is arbitrary.  Part 1: sums / sums of squared deviations of lists of reals and the Chan identity.
    Part 2: the representation relation between bucket rows and the window.  Part 3: preservation by
    add / compress / remove_last / drop_empty_tail.  Part 4: the shrink loop and the run. *)
From MV Require Import Base Num Adwin Adwin_Proofs NumLaws.
From Coq Require Import Reals Lra Lia.

(** * Part 1: real arithmetic on lists *)
Section RList.
Local Open Scope R_scope.

Fixpoint sum (l : list R) : R := match l with [] => 0 | x :: t => x + sum t end.
Fixpoint sumsq (l : list R) : R := match l with [] => 0 | x :: t => x * x + sumsq t end.
Definition len (l : list R) : R := IZR (Z.of_nat (length l)).
Definition mean (l : list R) : R := sum l / len l.
(** sum of squared deviations from [m] *)
Fixpoint sqdev (m : R) (l : list R) : R :=
  match l with [] => 0 | x :: t => (x - m) * (x - m) + sqdev m t end.
(** closed form used in the proofs *)
Definition M2 (l : list R) : R := sumsq l - sum l * sum l / len l.

Lemma len_nil : len [] = 0.
Proof. reflexivity. Qed.
Lemma len_cons x l : len (x :: l) = len l + 1.
Proof. unfold len. cbn [length]. rewrite Nat2Z.inj_succ, succ_IZR. reflexivity. Qed.
Lemma len_app a b : len (a ++ b) = len a + len b.
Proof. unfold len. rewrite app_length, Nat2Z.inj_add, plus_IZR. reflexivity. Qed.
Lemma len_nonneg l : 0 <= len l.
Proof. unfold len. apply IZR_le. lia. Qed.
Lemma len_Z l (n : Z) : n = Z.of_nat (length l) -> len l = IZR n.
Proof. intros ->. reflexivity. Qed.

Lemma sum_app a b : sum (a ++ b) = sum a + sum b.
Proof. induction a as [|x a IH]; cbn [app sum]; [|rewrite IH]; lra. Qed.
Lemma sumsq_app a b : sumsq (a ++ b) = sumsq a + sumsq b.
Proof. induction a as [|x a IH]; cbn [app sumsq]; [|rewrite IH]; lra. Qed.

Lemma sqdev_expand m l : sqdev m l = sumsq l - 2 * m * sum l + len l * m * m.
Proof.
  induction l as [|x t IH].
  - rewrite len_nil. cbn [sqdev sumsq sum]. ring.
  - rewrite len_cons. cbn [sqdev sumsq sum]. rewrite IH. ring.
Qed.

(** [M2 l] is the sum of squared deviations from the mean of [l] (both are 0 for the empty list) *)
Lemma M2_sqdev l : M2 l = sqdev (mean l) l.
Proof.
  destruct l as [|x t].
  - unfold M2. cbn [sqdev sumsq sum]. unfold Rdiv. ring.
  - rewrite sqdev_expand. unfold M2, mean.
    assert (H : 0 < len (x :: t)) by (rewrite len_cons; pose proof (len_nonneg t); lra).
    field. lra.
Qed.

(** Chan, Golub, LeVeque: combining the statistics of two non-empty samples *)
Lemma M2_chan a b : 0 < len a -> 0 < len b ->
  M2 (a ++ b) =
  M2 a + M2 b + len a * len b / (len a + len b) * ((mean a - mean b) * (mean a - mean b)).
Proof.
  intros Ha Hb. unfold M2, mean. rewrite sum_app, sumsq_app, len_app. field. repeat split; lra.
Qed.

Lemma M2_single x : M2 [x] = 0.
Proof. unfold M2, len. cbn [sumsq sum length Z.of_nat Pos.of_succ_nat]. field. Qed.

(** instance 1: Welford insertion of one sample (the code of [_add_sample]) *)
Lemma welford_step w x (n : Z) : n = Z.of_nat (length w) -> (1 <= n)%Z ->
  M2 (w ++ [x]) = M2 w + IZR n * (x - sum w / IZR n) * (x - sum w / IZR n) / IZR (n + 1).
Proof.
  intros Hn H1. rewrite plus_IZR, <- (len_Z w n Hn).
  assert (H : 1 <= len w) by (rewrite (len_Z w n Hn); apply IZR_le; exact H1).
  unfold M2. rewrite sum_app, sumsq_app, len_app.
  replace (len [x]) with 1 by reflexivity. cbn [sum sumsq]. field. repeat split; lra.
Qed.

(** instance 2: merging two buckets of equal size (the code of [_compress_buckets]) *)
Lemma merge_step c0 c1 (ne : Z) : ne = Z.of_nat (length c0) -> ne = Z.of_nat (length c1) -> (0 < ne)%Z ->
  M2 (c0 ++ c1) =
  M2 c0 + M2 c1 +
  IZR ne * (sum c0 / IZR ne - sum c1 / IZR ne) * (sum c0 / IZR ne - sum c1 / IZR ne) / 2.
Proof.
  intros H0 H1 Hp. unfold M2. rewrite sum_app, sumsq_app, len_app.
  rewrite (len_Z c0 ne H0), (len_Z c1 ne H1).
  assert (H : 0 < IZR ne) by (apply IZR_lt; exact Hp).
  field. lra.
Qed.

(** instance 3: removing the oldest chunk (the code of [_remove_last]) *)
Lemma remove_step c w' (nc W' : Z) : nc = Z.of_nat (length c) -> W' = Z.of_nat (length w') ->
  (0 < nc)%Z -> (1 <= W')%Z ->
  M2 w' =
  M2 (c ++ w') -
  (M2 c + IZR (nc * W') * (sum c / IZR nc - sum w' / IZR W') * (sum c / IZR nc - sum w' / IZR W')
          / IZR (nc + W')).
Proof.
  intros Hc Hw Hp H1. rewrite mult_IZR, plus_IZR.
  assert (Ha : 0 < IZR nc) by (apply IZR_lt; exact Hp).
  assert (Hb : 0 < IZR W') by (apply IZR_lt; lia).
  unfold M2. rewrite sum_app, sumsq_app, len_app.
  rewrite (len_Z c nc Hc), (len_Z w' W' Hw). field. repeat split; lra.
Qed.

End RList.

(** * Part 2: the representation relation between bucket rows and the window *)
Notation st := (@adwin_st NumR).

(** bucket [b] = (total, variance) summarises the chunk [c] of [ne] consecutive inputs exactly *)
Definition rep_bucket (ne : Z) (b : R * R) (c : list R) : Prop :=
  Z.of_nat (length c) = ne /\ fst b = sum c /\ snd b = sqdev (mean c) c.

(** the buckets of a row, oldest first, summarise consecutive chunks (of [ne] inputs each) of [w] *)
Fixpoint rep_row (ne : Z) (r : list (R * R)) (w : list R) : Prop :=
  match r with
  | [] => w = []
  | b :: r' => exists c w', w = c ++ w' /\ rep_bucket ne b c /\ rep_row ne r' w'
  end.

(** rows: [w = w_older ++ w_row]; the first row (bucket size [ne]) holds the newest part, the
    remaining rows (bucket sizes [2 ne], [4 ne], ...) hold the older part *)
Fixpoint rep_rows (ne : Z) (rows : list (list (R * R))) (w : list R) : Prop :=
  match rows with
  | [] => w = []
  | r :: rest => exists wo wr, w = wo ++ wr /\ rep_row ne r wr /\ rep_rows (2 * ne) rest wo
  end.

(** sum_i 2^i * |row i|, starting at level [i] *)
Fixpoint weight_from (i : nat) (rows : list (list (R * R))) : Z :=
  match rows with
  | [] => 0
  | r :: rest => pow2 i * Z.of_nat (length r) + weight_from (S i) rest
  end.

(** the tail row (oldest data) is not empty *)
Fixpoint tail_ne (rows : list (list (R * R))) : Prop :=
  match rows with
  | [] => False
  | [r] => r <> []
  | _ :: rest => tail_ne rest
  end.
Definition tail_ok (rows : list (list (R * R))) : Prop := tail_ne rows \/ rows = [[]].

Lemma M2_nil : M2 [] = 0%R.
Proof. rewrite M2_sqdev. reflexivity. Qed.

Lemma rep_bucket_M2 ne b c :
  rep_bucket ne b c <-> Z.of_nat (length c) = ne /\ fst b = sum c /\ snd b = M2 c.
Proof. unfold rep_bucket. rewrite M2_sqdev. tauto. Qed.

Lemma rep_bucket_sample x : rep_bucket 1 (x, 0%R) [x].
Proof.
  apply rep_bucket_M2. split; [reflexivity|]. split; cbn [fst snd sum].
  - lra.
  - symmetry. apply M2_single.
Qed.

Lemma merge_eq ne (b0 b1 : R * R) :
  @merge NumR ne b0 b1 =
  (fst b0 + fst b1,
   snd b0 + snd b1 + IZR ne * (fst b0 / IZR ne - fst b1 / IZR ne) * (fst b0 / IZR ne - fst b1 / IZR ne) / 2)%R.
Proof. reflexivity. Qed.

Lemma merge_rep ne b0 b1 c0 c1 : 0 < ne ->
  rep_bucket ne b0 c0 -> rep_bucket ne b1 c1 -> rep_bucket (2 * ne) (@merge NumR ne b0 b1) (c0 ++ c1).
Proof.
  intros Hne H0 H1. apply rep_bucket_M2 in H0 as (L0 & T0 & V0). apply rep_bucket_M2 in H1 as (L1 & T1 & V1).
  apply rep_bucket_M2. rewrite merge_eq. cbn [fst snd]. split; [rewrite app_length; lia|]. split.
  - rewrite sum_app. lra.
  - rewrite T0, T1, V0, V1. symmetry. apply merge_step; [symmetry; assumption | symmetry; assumption | assumption].
Qed.

Lemma rep_row_single ne b c : rep_bucket ne b c -> rep_row ne [b] c.
Proof. intros H. exists c, []. split; [symmetry; apply app_nil_r|]. split; [exact H | reflexivity]. Qed.

Lemma rep_row_app ne : forall r1 r2 w1 w2,
  rep_row ne r1 w1 -> rep_row ne r2 w2 -> rep_row ne (r1 ++ r2) (w1 ++ w2).
Proof.
  induction r1 as [|b r1 IH]; intros r2 w1 w2 H1 H2.
  - cbn [rep_row] in H1. subst w1. exact H2.
  - destruct H1 as (c & w' & -> & Hb & Hr). cbn [app rep_row]. exists c, (w' ++ w2).
    split; [symmetry; apply app_assoc|]. split; [exact Hb | apply IH; assumption].
Qed.

Lemma rep_row_len ne : forall r w, rep_row ne r w -> Z.of_nat (length w) = ne * Z.of_nat (length r).
Proof.
  induction r as [|b r IH]; intros w H.
  - cbn [rep_row] in H. subst w. cbn [length]. lia.
  - destruct H as (c & w' & -> & (Hl & _) & Hr). apply IH in Hr. rewrite app_length. cbn [length]. lia.
Qed.

Lemma pow2_S i : pow2 (S i) = 2 * pow2 i.
Proof. unfold pow2. rewrite Nat2Z.inj_succ, Z.pow_succ_r; lia. Qed.

Lemma rep_rows_len : forall rows i w, rep_rows (pow2 i) rows w -> Z.of_nat (length w) = weight_from i rows.
Proof.
  induction rows as [|r rest IH]; intros i w H.
  - cbn [rep_rows] in H. subst w. reflexivity.
  - destruct H as (wo & wr & -> & Hr & Hrest). rewrite <- pow2_S in Hrest. apply IH in Hrest.
    apply rep_row_len in Hr. rewrite app_length. cbn [weight_from]. lia.
Qed.

(** * Part 3: preservation *)

(** ** compress *)
Lemma compress_rep M : forall rest ne r w, 0 < ne ->
  rep_rows ne (r :: rest) w -> rep_rows ne (@compress NumR M ne r rest) w.
Proof.
  induction rest as [|nx rest' IH]; intros ne r w Hne Hrep.
  - cbn [compress]. destruct (Z.eqb _ _); [|exact Hrep].
    destruct r as [|b0 [|b1 r']]; try exact Hrep.
    destruct Hrep as (wo & wr & -> & Hr & Hrest). cbn [rep_rows] in Hrest. subst wo.
    destruct Hr as (c0 & w0 & -> & Hb0 & Hr). destruct Hr as (c1 & w1 & -> & Hb1 & Hr).
    exists (c0 ++ c1), w1. split; [cbn [app]; rewrite app_assoc; reflexivity|]. split; [exact Hr|].
    exists [], (c0 ++ c1). split; [reflexivity|]. split; [|reflexivity].
    apply rep_row_single. apply merge_rep; assumption.
  - cbn [compress]. destruct (Z.eqb _ _); [|exact Hrep].
    destruct r as [|b0 [|b1 r']]; try exact Hrep.
    destruct Hrep as (wo & wr & -> & Hr & Hrest).
    destruct Hr as (c0 & w0 & -> & Hb0 & Hr). destruct Hr as (c1 & w1 & -> & Hb1 & Hr).
    destruct Hrest as (woo & wnx & -> & Hnx & Hrest').
    assert (Hnew : rep_rows (2 * ne) ((nx ++ [@merge NumR ne b0 b1]) :: rest') ((woo ++ wnx) ++ c0 ++ c1)).
    { exists woo, (wnx ++ c0 ++ c1). split; [symmetry; apply app_assoc|]. split; [|exact Hrest'].
      apply rep_row_app; [exact Hnx|]. apply rep_row_single. apply merge_rep; assumption. }
    assert (Hw : (woo ++ wnx) ++ c0 ++ c1 ++ w1 = ((woo ++ wnx) ++ c0 ++ c1) ++ w1)
      by (rewrite !app_assoc; reflexivity).
    destruct (Z.leb _ _).
    + exists ((woo ++ wnx) ++ c0 ++ c1), w1. split; [exact Hw|]. split; [exact Hr | exact Hnew].
    + exists ((woo ++ wnx) ++ c0 ++ c1), w1. split; [exact Hw|]. split; [exact Hr|].
      apply IH; [lia | exact Hnew].
Qed.

Lemma tail_ne_cons r rest : rest <> [] -> tail_ne (r :: rest) <-> tail_ne rest.
Proof. destruct rest; [congruence|]. intros _. reflexivity. Qed.

Lemma compress_nonnil M ne r rest : @compress NumR M ne r rest <> [].
Proof.
  destruct rest; cbn [compress]; destruct (Z.eqb _ _); try discriminate;
    destruct r as [|? [|? ?]]; try discriminate.
  destruct (Z.leb _ _); discriminate.
Qed.

Lemma compress_tail_ne M : forall rest ne r,
  tail_ne (r :: rest) -> tail_ne (@compress NumR M ne r rest).
Proof.
  induction rest as [|nx rest' IH]; intros ne r Ht.
  - cbn [compress]. destruct (Z.eqb _ _); [|exact Ht].
    destruct r as [|b0 [|b1 r']]; try exact Ht. cbn [tail_ne]. discriminate.
  - cbn [compress]. destruct (Z.eqb _ _); [|exact Ht].
    destruct r as [|b0 [|b1 r']]; try exact Ht.
    apply tail_ne_cons in Ht; [|discriminate].
    assert (Hnew : tail_ne ((nx ++ [@merge NumR ne b0 b1]) :: rest')).
    { destruct rest' as [|r2 rest2]; [cbn [tail_ne]; destruct nx; discriminate | exact Ht]. }
    destruct (Z.leb _ _).
    + apply tail_ne_cons; [discriminate | exact Hnew].
    + apply tail_ne_cons; [|apply IH; exact Hnew].
      apply compress_nonnil.
Qed.

(** ** pop_tail_bucket / drop_empty_tail *)
Lemma pow2_0 : pow2 0 = 1.
Proof. reflexivity. Qed.

Lemma pop_rep : forall rows ne w, tail_ne rows -> rep_rows ne rows w ->
  exists (b : R * R) (rows' : list (list (R * R))) c w',
    @pop_tail_bucket NumR rows = (Some b, rows') /\ w = c ++ w' /\
    rep_bucket (ne * pow2 (length rows - 1)) b c /\ rep_rows ne rows' w' /\
    rows' <> [] /\ S (@n_buckets NumR rows') = @n_buckets NumR rows.
Proof.
  induction rows as [|r rest IH]; intros ne w Ht Hrep; [destruct Ht|].
  destruct rest as [|r2 rest].
  - cbn [tail_ne] in Ht. destruct r as [|b r']; [congruence|].
    destruct Hrep as (wo & wr & -> & Hr & Hrest). cbn [rep_rows] in Hrest. subst wo.
    destruct Hr as (c & w' & -> & Hb & Hr).
    exists b, [r'], c, w'. split; [reflexivity|]. split; [reflexivity|].
    split; [cbn [length Nat.sub]; rewrite pow2_0, Z.mul_1_r; exact Hb|].
    split; [exists [], w'; split; [reflexivity|]; split; [exact Hr | reflexivity]|].
    split; [discriminate|]. unfold n_buckets. cbn [concat]. rewrite !app_nil_r. reflexivity.
  - destruct Hrep as (wo & wr & -> & Hr & Hrest).
    destruct (IH (2 * ne) wo Ht Hrest) as (b & rest' & c & wo' & Hpop & -> & Hb & Hrest' & Hnn & Hcnt).
    exists b, (r :: rest'), c, (wo' ++ wr).
    split. { change (@pop_tail_bucket NumR (r :: r2 :: rest))
               with (let '(b, rest') := @pop_tail_bucket NumR (r2 :: rest) in (b, r :: rest')).
             rewrite Hpop. reflexivity. }
    split; [symmetry; apply app_assoc|].
    split. { replace (ne * pow2 (length (r :: r2 :: rest) - 1))
               with (2 * ne * pow2 (length (r2 :: rest) - 1)); [exact Hb|].
             cbn [length Nat.sub]. rewrite Nat.sub_0_r, pow2_S. lia. }
    split; [exists wo', wr; split; [reflexivity|]; split; assumption|].
    split; [discriminate|].
    unfold n_buckets in *. cbn [concat] in Hcnt |- *. rewrite !app_length in *. lia.
Qed.

Lemma drop_empty_tail_cons2 (r r2 : list (R * R)) rest :
  @drop_empty_tail NumR (r :: r2 :: rest) =
  match @drop_empty_tail NumR (r2 :: rest) with
  | [[]] => [r]
  | rest' => r :: rest'
  end.
Proof. reflexivity. Qed.

Lemma drop_rep : forall rows ne w, rep_rows ne rows w -> rep_rows ne (@drop_empty_tail NumR rows) w.
Proof.
  induction rows as [|r rest IH]; intros ne w Hrep; [exact Hrep|].
  destruct rest as [|r2 rest]; [exact Hrep|].
  rewrite drop_empty_tail_cons2.
  destruct Hrep as (wo & wr & -> & Hr & Hrest). apply IH in Hrest.
  destruct (@drop_empty_tail NumR (r2 :: rest)) as [|[|b l] [|r3 l3]].
  - exists wo, wr. split; [reflexivity|]. split; assumption.
  - destruct Hrest as (wo1 & wr1 & -> & Hr1 & Hrest1). cbn [rep_row] in Hr1. cbn [rep_rows] in Hrest1.
    subst. exists [], wr. split; [reflexivity|]. split; [exact Hr | reflexivity].
  - exists wo, wr. split; [reflexivity|]. split; assumption.
  - exists wo, wr. split; [reflexivity|]. split; assumption.
  - exists wo, wr. split; [reflexivity|]. split; assumption.
Qed.

Lemma drop_tail_ok : forall rows, rows <> [] -> tail_ok (@drop_empty_tail NumR rows).
Proof.
  induction rows as [|r rest IH]; intros Hn; [congruence|].
  destruct rest as [|r2 rest].
  - cbn [drop_empty_tail]. destruct r; [right; reflexivity | left; cbn [tail_ne]; discriminate].
  - rewrite drop_empty_tail_cons2.
    destruct (IH ltac:(discriminate)) as [Ht | He].
    + destruct (@drop_empty_tail NumR (r2 :: rest)) as [|[|b l] [|r3 l3]]; try (left; exact Ht).
      * destruct Ht.
      * exfalso. apply Ht. reflexivity.
    + rewrite He. destruct r; [right; reflexivity | left; cbn [tail_ne]; discriminate].
Qed.

Lemma drop_count : forall rows, @n_buckets NumR (@drop_empty_tail NumR rows) = @n_buckets NumR rows.
Proof.
  induction rows as [|r rest IH]; [reflexivity|].
  destruct rest as [|r2 rest]; [reflexivity|].
  rewrite drop_empty_tail_cons2. unfold n_buckets in *. cbn [concat] in *.
  rewrite (app_length r), <- IH.
  destruct (@drop_empty_tail NumR (r2 :: rest)) as [|[|b l] [|r3 l3]]; cbn [concat]; rewrite ?app_length; cbn [length]; lia.
Qed.

(** ** the scan: a cut is only found if the part newer than the oldest bucket has
    at least [a_sub_thresh] elements *)
Fixpoint tag (ne : Z) (is_row0 : bool) (l : list (R * R)) : list (Z * (R * R) * bool) :=
  match l with
  | [] => []
  | [b] => [(ne, b, is_row0)]
  | b :: l' => (ne, b, false) :: tag ne is_row0 l'
  end.

Lemma flat_rows_cons ne (r : list (R * R)) rest f :
  @flat_rows NumR ne (r :: rest) f = @flat_rows NumR (2 * ne) rest false ++ tag ne f r.
Proof. reflexivity. Qed.

Lemma tag_length ne f : forall l, length (tag ne f l) = length l.
Proof.
  induction l as [|b l IH]; [reflexivity|]. destruct l as [|b' l']; [reflexivity|].
  change (tag ne f (b :: b' :: l')) with ((ne, b, false) :: tag ne f (b' :: l')).
  cbn [length]. rewrite IH. reflexivity.
Qed.

Lemma tag_sizes ne f : forall l, Forall (fun e => fst (fst e) = ne) (tag ne f l).
Proof.
  induction l as [|b l IH]; [constructor|]. destruct l as [|b' l']; [repeat constructor|].
  change (tag ne f (b :: b' :: l')) with ((ne, b, false) :: tag ne f (b' :: l')).
  constructor; [reflexivity | exact IH].
Qed.

Lemma flat_rows_length : forall rows ne f, length (@flat_rows NumR ne rows f) = @n_buckets NumR rows.
Proof.
  induction rows as [|r rest IH]; intros ne f; [reflexivity|].
  rewrite flat_rows_cons, app_length, IH, tag_length. unfold n_buckets. cbn [concat].
  rewrite app_length. lia.
Qed.

Lemma flat_rows_sizes : forall rows ne f, 0 <= ne ->
  Forall (fun e => 0 <= fst (fst e)) (@flat_rows NumR ne rows f).
Proof.
  induction rows as [|r rest IH]; intros ne f Hne; [constructor|].
  rewrite flat_rows_cons. apply Forall_app. split; [apply IH; lia|].
  eapply Forall_impl; [|apply tag_sizes]. cbv beta. intros e ->. exact Hne.
Qed.

Definition hd_size (bs : list (Z * (R * R) * bool)) : Z :=
  match bs with [] => 0 | e :: _ => fst (fst e) end.

Lemma flat_rows_hd : forall rows ne f, tail_ne rows ->
  @flat_rows NumR ne rows f <> [] /\ hd_size (@flat_rows NumR ne rows f) = ne * pow2 (length rows - 1).
Proof.
  induction rows as [|r rest IH]; intros ne f Ht; [destruct Ht|].
  rewrite flat_rows_cons. destruct rest as [|r2 rest].
  - cbn [tail_ne] in Ht. destruct r as [|b [|b' l']]; [congruence| |];
      (split; [discriminate|]); cbn [length Nat.sub]; rewrite pow2_0; cbn [flat_rows app tag hd_size fst]; lia.
  - destruct (IH (2 * ne) false Ht) as [Hnn Hhd].
    destruct (@flat_rows NumR (2 * ne) (r2 :: rest) false) as [|e l] eqn:E; [congruence|].
    split; [discriminate|]. cbn [app hd_size] in *. rewrite Hhd.
    cbn [length Nat.sub]. rewrite Nat.sub_0_r, pow2_S. lia.
Qed.
