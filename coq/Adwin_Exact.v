(** ADWIN keeps EXACT statistics of its adaptive window in exact (real) arithmetic.
    The model [Adwin.v] is instantiated at the real numbers ([NumLaws.NumR]); the log oracle [dpd]
    is arbitrary.  Part 1: sums / sums of squared deviations of lists of reals and the Chan identity.
    Part 2: the representation relation between bucket rows and the window.  Part 3: preservation by
    add / compress / remove_last / drop_empty_tail.  Part 4: the shrink loop and the run. *)
From MV Require Import Base Num Adwin Adwin_Proofs NumLaws.
From Coq Require Import Reals Lra Lia.

(** * Part 1: real arithmetic on lists *)
Section RList.
Local Open Scope R_scope.

Fixpoint sum (l : list R) : R := match l with [] => 0 | x :: t => x + sum t end.
Fixpoint sumsq (l : list R) : R := match l with [] => 0 | x :: t => x * x + sumsq t end.
Definition len (l : list R) : R := IZR (Z.of_nat (length l)).
Definition mean (l : list R) : R := sum l / len l.
(** sum of squared deviations from [m] *)
Fixpoint sqdev (m : R) (l : list R) : R :=
  match l with [] => 0 | x :: t => (x - m) * (x - m) + sqdev m t end.
(** closed form used in the proofs *)
Definition M2 (l : list R) : R := sumsq l - sum l * sum l / len l.

Lemma len_nil : len [] = 0.
Proof. reflexivity. Qed.
Lemma len_cons x l : len (x :: l) = len l + 1.
Proof. unfold len. cbn [length]. rewrite Nat2Z.inj_succ, succ_IZR. reflexivity. Qed.
Lemma len_app a b : len (a ++ b) = len a + len b.
Proof. unfold len. rewrite app_length, Nat2Z.inj_add, plus_IZR. reflexivity. Qed.
Lemma len_nonneg l : 0 <= len l.
Proof. unfold len. apply IZR_le. lia. Qed.
Lemma len_Z l (n : Z) : n = Z.of_nat (length l) -> len l = IZR n.
Proof. intros ->. reflexivity. Qed.

Lemma sum_app a b : sum (a ++ b) = sum a + sum b.
Proof. induction a as [|x a IH]; cbn [app sum]; [|rewrite IH]; lra. Qed.
Lemma sumsq_app a b : sumsq (a ++ b) = sumsq a + sumsq b.
Proof. induction a as [|x a IH]; cbn [app sumsq]; [|rewrite IH]; lra. Qed.

Lemma sqdev_expand m l : sqdev m l = sumsq l - 2 * m * sum l + len l * m * m.
Proof.
  induction l as [|x t IH].
  - rewrite len_nil. cbn [sqdev sumsq sum]. ring.
  - rewrite len_cons. cbn [sqdev sumsq sum]. rewrite IH. ring.
Qed.

(** [M2 l] is the sum of squared deviations from the mean of [l] (both are 0 for the empty list) *)
Lemma M2_sqdev l : M2 l = sqdev (mean l) l.
Proof.
  destruct l as [|x t].
  - unfold M2. cbn [sqdev sumsq sum]. unfold Rdiv. ring.
  - rewrite sqdev_expand. unfold M2, mean.
    assert (H : 0 < len (x :: t)) by (rewrite len_cons; pose proof (len_nonneg t); lra).
    field. lra.
Qed.

(** Chan, Golub, LeVeque: combining the statistics of two non-empty samples *)
Lemma M2_chan a b : 0 < len a -> 0 < len b ->
  M2 (a ++ b) =
  M2 a + M2 b + len a * len b / (len a + len b) * ((mean a - mean b) * (mean a - mean b)).
Proof.
  intros Ha Hb. unfold M2, mean. rewrite sum_app, sumsq_app, len_app. field. repeat split; lra.
Qed.

Lemma M2_single x : M2 [x] = 0.
Proof. unfold M2, len. cbn [sumsq sum length Z.of_nat Pos.of_succ_nat]. field. Qed.

(** instance 1: Welford insertion of one sample (the code of [_add_sample]) *)
Lemma welford_step w x (n : Z) : n = Z.of_nat (length w) -> (1 <= n)%Z ->
  M2 (w ++ [x]) = M2 w + IZR n * (x - sum w / IZR n) * (x - sum w / IZR n) / IZR (n + 1).
Proof.
  intros Hn H1. rewrite plus_IZR, <- (len_Z w n Hn).
  assert (H : 1 <= len w) by (rewrite (len_Z w n Hn); apply IZR_le; exact H1).
  unfold M2. rewrite sum_app, sumsq_app, len_app.
  replace (len [x]) with 1 by reflexivity. cbn [sum sumsq]. field. repeat split; lra.
Qed.

(** instance 2: merging two buckets of equal size (the code of [_compress_buckets]) *)
Lemma merge_step c0 c1 (ne : Z) : ne = Z.of_nat (length c0) -> ne = Z.of_nat (length c1) -> (0 < ne)%Z ->
  M2 (c0 ++ c1) =
  M2 c0 + M2 c1 +
  IZR ne * (sum c0 / IZR ne - sum c1 / IZR ne) * (sum c0 / IZR ne - sum c1 / IZR ne) / 2.
Proof.
  intros H0 H1 Hp. unfold M2. rewrite sum_app, sumsq_app, len_app.
  rewrite (len_Z c0 ne H0), (len_Z c1 ne H1).
  assert (H : 0 < IZR ne) by (apply IZR_lt; exact Hp).
  field. lra.
Qed.

(** instance 3: removing the oldest chunk (the code of [_remove_last]) *)
Lemma remove_step c w' (nc W' : Z) : nc = Z.of_nat (length c) -> W' = Z.of_nat (length w') ->
  (0 < nc)%Z -> (1 <= W')%Z ->
  M2 w' =
  M2 (c ++ w') -
  (M2 c + IZR (nc * W') * (sum c / IZR nc - sum w' / IZR W') * (sum c / IZR nc - sum w' / IZR W')
          / IZR (nc + W')).
Proof.
  intros Hc Hw Hp H1. rewrite mult_IZR, plus_IZR.
  assert (Ha : 0 < IZR nc) by (apply IZR_lt; exact Hp).
  assert (Hb : 0 < IZR W') by (apply IZR_lt; lia).
  unfold M2. rewrite sum_app, sumsq_app, len_app.
  rewrite (len_Z c nc Hc), (len_Z w' W' Hw). field. repeat split; lra.
Qed.

End RList.
