(** Structural theorems about the ADWIN model (every arithmetic instance, every oracle [dpd]). *)
From MV Require Import Base Num Adwin.

Section AdwinProofs.
Context {N : Num}.
Variable dpd : Z -> F N.
Variable p : adwin_params.

Definition mark_fuel_out (s : @adwin_st N) : adwin_st :=
  {| a_rows := a_rows s; a_total := a_total s; a_var := a_var s; a_W := a_W s; a_n := a_n s;
     a_since := a_since s; a_ds := a_ds s; a_recs := a_recs s; a_fuel_out := true |}.

(** induction principle for the shrink loop *)
Lemma shrink_ind (P : @adwin_st N -> Prop) :
  (forall s, P s -> found_cut dpd p s = true -> P (remove_last s)) ->
  (forall s, P s -> P (mark_fuel_out s)) ->
  forall fuel s, P s -> P (shrink dpd p fuel s).
Proof.
  intros Hrm Hfo. induction fuel as [|fuel IH]; intros s Hs; simpl.
  - destruct (found_cut dpd p s) eqn:E; [apply (Hfo s Hs) | exact Hs].
  - destruct (found_cut dpd p s) eqn:E; [apply IH; apply Hrm; assumption | exact Hs].
Qed.

(** when the loop ends normally, no admissible split of the retained window exceeds its cut *)
Lemma shrink_post : forall fuel s,
  a_fuel_out (shrink dpd p fuel s) = false -> found_cut dpd p (shrink dpd p fuel s) = false.
Proof.
  induction fuel as [|fuel IH]; intros s; simpl.
  - destruct (found_cut dpd p s) eqn:E; simpl; [discriminate | intros _; exact E].
  - destruct (found_cut dpd p s) eqn:E; [apply IH | intros _; exact E].
Qed.

Lemma pow2_pos k : 0 < pow2 k.
Proof. unfold pow2. apply Z.pow_pos_nonneg; lia. Qed.

(** counters are not touched by the shrink loop; the window never grows in it *)
Lemma shrink_frame fuel s :
  let s' := shrink dpd p fuel s in
  a_n s' = a_n s /\ a_since s' = a_since s /\ a_W s' <= a_W s.
Proof.
  apply (shrink_ind (fun s' => a_n s' = a_n s /\ a_since s' = a_since s /\ a_W s' <= a_W s)).
  - intros s0 (H1 & H2 & H3) _. unfold remove_last.
    destruct (pop_tail_bucket (a_rows s0)) as [ob rows']. simpl.
    pose proof (pow2_pos (length (a_rows s0) - 1)). repeat split; lia.
  - intros s0 H. exact H.
  - repeat split; lia.
Qed.

(** the state and the recommendation are either untouched or "drift with the retained window" *)
Definition drift_shape (s0 s' : @adwin_st N) : Prop :=
  (a_ds s' = a_ds s0 /\ a_recs s' = a_recs s0 /\ a_W s' = a_W s0) \/
  (a_ds s' = DDrift /\ a_recs s' = (Some (a_n s' - a_W s'), Some (a_n s' - 1)) /\ a_W s' < a_W s0).

Lemma shrink_shape fuel s : drift_shape s (shrink dpd p fuel s).
Proof.
  apply (shrink_ind (fun s' => drift_shape s s' /\ a_W s' <= a_W s)); [| |split; [left; repeat split | lia]].
  - intros s0 [Hs Hw] _. split.
    + right. unfold remove_last. destruct (pop_tail_bucket (a_rows s0)) as [ob rows']. simpl.
      pose proof (pow2_pos (length (a_rows s0) - 1)). repeat split; lia.
    + unfold remove_last. destruct (pop_tail_bucket (a_rows s0)) as [ob rows']. simpl.
      pose proof (pow2_pos (length (a_rows s0) - 1)). lia.
  - intros s0 H. exact H.
Qed.
Lemma shrink_shape' fuel s : drift_shape s (shrink dpd p fuel s).
Proof. exact (shrink_shape fuel s). Qed.

(** the state right after the sample has been added and compressed, before the scheduled check *)
Definition after_add (s : @adwin_st N) (x : F N) : adwin_st :=
  let '(since0, recs0) := if is_none (a_ds s) then (a_since s, a_recs s) else (0%Z, recs_none) in
  let W := (a_W s + 1)%Z in
  let var := if (1 <? W)%Z
             then let d := fsub x (fdiv (a_total s) (fofZ (W - 1))) in
                  fadd (a_var s) (fdiv (fmul (fmul (fofZ (W - 1)) d) d) (fofZ W))
             else a_var s in
  let rows := match a_rows s with
              | r0 :: rest => compress (a_max_buckets p) 1 (r0 ++ [(x, f0)]) rest
              | [] => compress (a_max_buckets p) 1 [(x, f0)] []
              end in
  {| a_rows := rows; a_total := fadd (a_total s) x; a_var := var; a_W := W; a_n := (a_n s + 1)%Z;
     a_since := (since0 + 1)%Z; a_ds := DNone; a_recs := recs0; a_fuel_out := a_fuel_out s |}.

Lemma adwin_update_eq s x :
  adwin_update dpd p s x =
  let s1 := after_add s x in
  if scheduled p s1 then shrink dpd p (n_buckets (a_rows s1)) s1 else s1.
Proof. unfold adwin_update, after_add. destruct (is_none (a_ds s)); reflexivity. Qed.

(** counters *)
Lemma adwin_counters s x :
  a_n (adwin_update dpd p s x) = a_n s + 1 /\
  a_since (adwin_update dpd p s x) = (if is_none (a_ds s) then a_since s + 1 else 1).
Proof.
  rewrite adwin_update_eq. cbv zeta.
  assert (H1 : a_n (after_add s x) = a_n s + 1) by (unfold after_add; destruct (is_none (a_ds s)); reflexivity).
  assert (H2 : a_since (after_add s x) = if is_none (a_ds s) then a_since s + 1 else 1)
    by (unfold after_add; destruct (is_none (a_ds s)); reflexivity).
  destruct (scheduled p (after_add s x)); [|split; assumption].
  destruct (shrink_frame (n_buckets (a_rows (after_add s x))) (after_add s x)) as (Hn & Hs & _).
  rewrite Hn, Hs. split; assumption.
Qed.

(** W grows by one per update and shrinks only in an update that reports drift;
    on drift retraining_recs = [total - W, total - 1] for the retained window *)
Lemma adwin_width_step s x :
  let s' := adwin_update dpd p s x in
  (a_W s' = a_W s + 1 /\ a_ds s' = DNone) \/
  (a_W s' <= a_W s /\ a_ds s' = DDrift /\ a_recs s' = (Some (a_n s' - a_W s'), Some (a_n s' - 1))).
Proof.
  cbv zeta. rewrite adwin_update_eq. cbv zeta.
  assert (HW : a_W (after_add s x) = a_W s + 1) by (unfold after_add; destruct (is_none (a_ds s)); reflexivity).
  assert (Hd : a_ds (after_add s x) = DNone) by (unfold after_add; destruct (is_none (a_ds s)); reflexivity).
  destruct (scheduled p (after_add s x)); [|left; split; assumption].
  destruct (shrink_shape (n_buckets (a_rows (after_add s x))) (after_add s x)) as [(H1 & H2 & H3) | (H1 & H2 & H3)].
  - left. split; congruence.
  - right. repeat split; try assumption. lia.
Qed.

(** drift is reported only on a scheduled check with a large enough window on which some
    admissible split exceeds the cut; conversely such a split always leads to drift *)
Lemma adwin_drift_only_if s x :
  a_ds (adwin_update dpd p s x) = DDrift ->
  scheduled p (after_add s x) = true /\ found_cut dpd p (after_add s x) = true.
Proof.
  rewrite adwin_update_eq. cbv zeta.
  assert (Hd : a_ds (after_add s x) = DNone) by (unfold after_add; destruct (is_none (a_ds s)); reflexivity).
  destruct (scheduled p (after_add s x)); [|congruence].
  intros H. split; [reflexivity|].
  destruct (found_cut dpd p (after_add s x)) eqn:E; [reflexivity|].
  destruct (n_buckets (a_rows (after_add s x))); simpl in H; rewrite E in H; congruence.
Qed.

Lemma adwin_drift_if s x :
  scheduled p (after_add s x) = true -> found_cut dpd p (after_add s x) = true ->
  (0 < n_buckets (a_rows (after_add s x)))%nat ->
  a_ds (adwin_update dpd p s x) = DDrift.
Proof.
  intros Hs Hf Hn. rewrite adwin_update_eq. cbv zeta. rewrite Hs.
  destruct (n_buckets (a_rows (after_add s x))) as [|fuel]; [lia|]. simpl. rewrite Hf.
  destruct (shrink_shape fuel (remove_last (after_add s x))) as [(H1 & _) | (H1 & _)]; [|exact H1].
  rewrite H1. unfold remove_last. destruct (pop_tail_bucket _). reflexivity.
Qed.

(** after the update no admissible split of the retained window exceeds the cut computed on it *)
Lemma adwin_post_no_cut s x :
  let s' := adwin_update dpd p s x in
  scheduled p (after_add s x) = true -> a_fuel_out s' = false -> found_cut dpd p s' = false.
Proof.
  cbv zeta. rewrite adwin_update_eq. cbv zeta. intros ->. apply shrink_post.
Qed.

(** the update after a drift clears the recommendation (unless it alarms again) *)
Lemma adwin_recs_cleared s x : a_ds s = DDrift ->
  let s' := adwin_update dpd p s x in
  (a_ds s' = DNone -> a_recs s' = recs_none) /\ a_since s' = 1.
Proof.
  intros Hd. cbv zeta. split; [|destruct (adwin_counters s x) as [_ H]; rewrite H, Hd; reflexivity].
  rewrite adwin_update_eq. cbv zeta.
  assert (Hr : a_recs (after_add s x) = recs_none) by (unfold after_add; rewrite Hd; reflexivity).
  destruct (scheduled p (after_add s x)); [|intros _; exact Hr].
  destruct (shrink_shape (n_buckets (a_rows (after_add s x))) (after_add s x)) as [(H1 & H2 & H3) | (H1 & H2 & H3)].
  - intros _. congruence.
  - congruence.
Qed.

(** warm-up: no drift unless total_samples is a multiple of new_sample_thresh and the window
    (including the new sample) is larger than window_size_thresh *)
Lemma adwin_warmup s x : a_ds (adwin_update dpd p s x) = DDrift ->
  (a_n s + 1) mod a_new_sample_thresh p = 0 /\ a_window_size_thresh p < a_W s + 1.
Proof.
  intros H. destruct (adwin_drift_only_if s x H) as [Hs _]. unfold scheduled in Hs.
  assert (H1 : a_n (after_add s x) = a_n s + 1) by (unfold after_add; destruct (is_none (a_ds s)); reflexivity).
  assert (HW : a_W (after_add s x) = a_W s + 1) by (unfold after_add; destruct (is_none (a_ds s)); reflexivity).
  rewrite H1, HW in Hs. apply andb_true_iff in Hs as [Ha Hb].
  apply Z.eqb_eq in Ha. apply Z.ltb_lt in Hb. split; assumption.
Qed.

End AdwinProofs.
