(** Models of menelaus/concept_drift/{ddm,eddm,stepd}.py as kernels of the generic machine.
    Inputs are already reduced to "prediction correct?" (C16: the code computes
    int(y_pred != y_true) / int(y_pred == y_true) first and uses nothing else). *)
From MV Require Import Base Num Lifecycle.

Section ErrorRate.
Context {N : Num}.
Local Open Scope num_scope.
Notation F := (F N).

(** ------------------------------- DDM ------------------------------- *)
Record ddm_params := { ddm_n_threshold : Z; ddm_warning_scale : F; ddm_drift_scale : F }.
Record ddm_e := { d_rate : F; d_std : F; d_rate_min : F; d_std_min : F }.

Definition ddm_e0 : ddm_e := {| d_rate := f0; d_std := f0; d_rate_min := finf; d_std_min := finf |}.

(** one update; [err] = (y_pred != y_true); [n] = samples_since_reset after the increment *)
Definition ddm_step (p : ddm_params) (e : ddm_e) (n : Z) (err : bool) : ddm_e * option dstate :=
  let c := if err then f1 else f0 in
  let prev := d_rate e in
  let r := d_rate e + (c - d_rate e) / fofZ n in
  let sd := fsqrt ((d_std e + (c - r) * (c - prev)) / fofZ n) in
  if (n <? ddm_n_threshold p)%Z then
    ({| d_rate := r; d_std := sd; d_rate_min := d_rate_min e; d_std_min := d_std_min e |}, None)
  else
    let upd := (r + sd) <=? (d_rate_min e + d_std_min e) in
    let rmin := if upd then r else d_rate_min e in
    let smin := if upd then sd else d_std_min e in
    let d := if (rmin + ddm_drift_scale p * sd) <=? (r + sd) then DDrift
             else if (rmin + ddm_warning_scale p * sd) <=? (r + sd) then DWarn
             else DNone in
    ({| d_rate := r; d_std := sd; d_rate_min := rmin; d_std_min := smin |}, Some d).

Definition DDM (p : ddm_params) : kernel :=
  {| E := ddm_e; X := bool; reset_e := fun _ => ddm_e0; step_e := ddm_step p; policy := PolFirstWarn |}.

(** ------------------------------- EDDM ------------------------------- *)
Record eddm_params := { eddm_n_threshold : Z; eddm_warning_thresh : F; eddm_drift_thresh : F }.
Record eddm_e := {
  e_n_errors : Z; e_idx_curr : Z; e_idx_last : Z;
  e_mean : F; e_std : F; e_max : F; e_stat : option F
}.
Definition eddm_e0 : eddm_e :=
  {| e_n_errors := 0; e_idx_curr := 0; e_idx_last := 0; e_mean := f0; e_std := f0; e_max := f0; e_stat := None |}.

(** [correct] = (y_pred == y_true) *)
Definition eddm_step (p : eddm_params) (e : eddm_e) (n : Z) (correct : bool) : eddm_e * option dstate :=
  if correct then (e, None)
  else
    let ne := (e_n_errors e + 1)%Z in
    let last := e_idx_curr e in
    let curr := (n - 1)%Z in
    let dist := fofZ (curr - last) in
    let prev := e_mean e in
    let m := e_mean e + (dist - e_mean e) / fofZ ne in
    let sd := fsqrt ((e_std e + (dist - m) * (dist - prev)) / fofZ ne) in
    if (ne <? eddm_n_threshold p)%Z then
      ({| e_n_errors := ne; e_idx_curr := curr; e_idx_last := last; e_mean := m; e_std := sd;
          e_max := e_max e; e_stat := e_stat e |}, None)
    else
      let num := m + fofZ 2 * sd in
      let mx := if e_max e <? num then num else e_max e in
      let stat := num / mx in
      let d := if stat <=? eddm_drift_thresh p then DDrift
               else if stat <=? eddm_warning_thresh p then DWarn else DNone in
      ({| e_n_errors := ne; e_idx_curr := curr; e_idx_last := last; e_mean := m; e_std := sd;
          e_max := mx; e_stat := Some stat |}, Some d).

Definition EDDM (p : eddm_params) : kernel :=
  {| E := eddm_e; X := bool; reset_e := fun _ => eddm_e0; step_e := eddm_step p; policy := PolFirstWarn |}.

(** ------------------------------- STEPD ------------------------------- *)
Record stepd_params := { stepd_window : Z; stepd_alpha_warning : F; stepd_alpha_drift : F }.
Record stepd_e := { s_s : Z; s_r : Z; s_window : list Z; s_stat : option F; s_p : option F }.
Definition stepd_e0 : stepd_e := {| s_s := 0; s_r := 0; s_window := []; s_stat := None; s_p := None |}.

Definition zlen {A} (l : list A) : Z := Z.of_nat (length l).

Definition stepd_recent (e : stepd_e) : F :=
  if (zlen (s_window e) =? 0)%Z then f0 else fofZ (s_s e) / fofZ (zlen (s_window e)).
Definition stepd_past (e : stepd_e) (n : Z) : F :=
  if (n - zlen (s_window e) =? 0)%Z then f0 else fofZ (s_r e) / fofZ (n - zlen (s_window e)).
Definition stepd_overall (e : stepd_e) (n : Z) : F :=
  if (n =? 0)%Z then f0 else fofZ (s_r e + s_s e) / fofZ n.

Definition half : F := f1 / fofZ 2.

(** the continuity-corrected two-proportion statistic (stepd.py:103-117), in evaluation order *)
Definition stepd_statistic (w n : Z) (recent past overall : F) : F :=
  let inv := (f1 / fofZ (n - w)) + (f1 / fofZ w) in
  (fabs (past - recent) - half * inv) / fsqrt (overall * (f1 - overall) * inv).

(** input: (prediction correct?, oracle value of 1 - norm.cdf(statistic)); the oracle value is only
    read when the statistic is computed, i.e. when n >= 2 * window_size *)
Definition stepd_step (p : stepd_params) (e : stepd_e) (n : Z) (x : bool * F) : stepd_e * option dstate :=
  let c := if fst x then 1%Z else 0%Z in
  let s1 := (s_s e + c)%Z in
  let w1 := s_window e ++ [c] in
  let '(s2, r2, w2) :=
    if (stepd_window p <? zlen w1)%Z
    then ((s1 - hd 0%Z w1)%Z, (s_r e + hd 0%Z w1)%Z, tl w1)
    else (s1, s_r e, w1) in
  let e1 := {| s_s := s2; s_r := r2; s_window := w2; s_stat := s_stat e; s_p := s_p e |} in
  if (2 * stepd_window p <=? n)%Z then
    let recent := stepd_recent e1 in
    let past := stepd_past e1 n in
    let overall := stepd_overall e1 n in
    let stat := stepd_statistic (stepd_window p) n recent past overall in
    let pv := snd x in
    let decreased := recent <? past in
    let d := if decreased && (pv <? stepd_alpha_drift p) then DDrift
             else if decreased && (pv <? stepd_alpha_warning p) then DWarn else DNone in
    ({| s_s := s2; s_r := r2; s_window := w2; s_stat := Some stat; s_p := Some pv |}, Some d)
  else (e1, None).

Definition STEPD (p : stepd_params) : kernel :=
  {| E := stepd_e; X := (bool * F)%type; reset_e := fun _ => stepd_e0; step_e := stepd_step p; policy := PolRun |}.

End ErrorRate.
