(** C10 - NNSpacePartitioner (partitioners/NNSpacePartitioner.py) and NNDVI (data_drift/nndvi.py).

    Points have exact coordinates: a point is a [list Z].  (Batches of binary64 coordinates are
    multiplied by one common power of two by the harness, which makes every coordinate an integer
    and changes neither the lexicographic order of the rows, nor equality of rows, nor the order
    of squared Euclidean distances.)  The NNPS distance is computed exactly in [Q].

    Oracle inputs (never axioms):
      - the adjacency matrix returned by sklearn's NearestNeighbors(k).fit(D).kneighbors_graph(D)
        (checked by [knn_ok]: square, 0/1, exactly k ones per row, self included, every chosen
        neighbour no farther than any unchosen one in exact squared Euclidean distance - with ties
        every valid choice is accepted);
      - the drift threshold theta (scipy norm.fit / norm.ppf of the permutation distances),
        [None] standing for NaN;
      - the permuted membership vectors drawn by np.random.permutation.
    No proofs in this file. *)
From MV Require Import Base Lifecycle.
From Coq Require Import QArith Qabs.
Open Scope Z_scope.

Definition point := list Z.

(** ---------- np.unique(data, axis=0, return_inverse=True) ---------- *)

(** row order of np.unique(axis=0): lexicographic (rows of one array have one length; for lists
    of different lengths a proper prefix comes first, which makes the order total on all lists) *)
Fixpoint lex_cmp (a b : point) : comparison :=
  match a, b with
  | [], [] => Eq
  | [], _ :: _ => Lt
  | _ :: _, [] => Gt
  | x :: a', y :: b' => match x ?= y with Eq => lex_cmp a' b' | c => c end
  end.

Definition pt_eqb (a b : point) : bool := match lex_cmp a b with Eq => true | _ => false end.
Definition pt_ltb (a b : point) : bool := match lex_cmp a b with Lt => true | _ => false end.

(** insertion into a strictly increasing list, dropping a row that is already present *)
Fixpoint uinsert (p : point) (l : list point) : list point :=
  match l with
  | [] => [p]
  | q :: t => match lex_cmp p q with
              | Lt => p :: l
              | Eq => l
              | Gt => q :: uinsert p t
              end
  end.

Definition usort (l : list point) : list point := fold_right uinsert [] l.

(** position of the first row equal to [p] ([length l] when absent) *)
Fixpoint index_of (p : point) (l : list point) : nat :=
  match l with
  | [] => O
  | q :: t => if pt_eqb p q then O else S (index_of p t)
  end.

(** v = np.zeros(n); v[idx] = 1.0 *)
Definition onehot (n : nat) (idx : list nat) : list Z :=
  map (fun j => if existsb (Nat.eqb j) idx then 1 else 0) (seq 0 n).

(** ---------- NNSpacePartitioner.build, lines 49-60 ---------- *)
Definition build_data (s1 s2 : list point) : list point := s1 ++ s2.          (* np.vstack *)
Definition build_D (s1 s2 : list point) : list point := usort (build_data s1 s2).
Definition build_inverse (s1 s2 : list point) : list nat :=
  map (fun p => index_of p (build_D s1 s2)) (build_data s1 s2).
Definition build_v1 (s1 s2 : list point) : list Z :=
  onehot (length (build_D s1 s2)) (firstn (length s1) (build_inverse s1 s2)).
Definition build_v2 (s1 s2 : list point) : list Z :=
  onehot (length (build_D s1 s2)) (skipn (length s1) (build_inverse s1 s2)).

(** ---------- the k-NN oracle and its checker ---------- *)
Fixpoint sqdist (a b : point) : Z :=
  match a, b with
  | x :: a', y :: b' => (x - y) * (x - y) + sqdist a' b'
  | _, _ => 0
  end.

Definition zsum (l : list Z) : Z := fold_right Z.add 0 l.

Definition is01 (x : Z) : bool := (x =? 0) || (x =? 1).

(** within one row: every chosen column is no farther than every unchosen one.
    [ad] = the row zipped with the squared distances from the row's own point *)
Definition row_order_ok (ad : list (Z * Z)) : bool :=
  forallb (fun c => forallb (fun u =>
     negb ((fst c =? 1) && (fst u =? 0)) || (snd c <=? snd u)) ad) ad.

Definition row_ok (k : Z) (D : list point) (i : nat) (row : list Z) : bool :=
  (length row =? length D)%nat
  && forallb is01 row
  && (zsum row =? k)
  && (nth i row 0 =? 1)
  && row_order_ok (combine row (map (sqdist (nth i D [])) D)).

Fixpoint rows_ok (k : Z) (D : list point) (i : nat) (A : list (list Z)) : bool :=
  match A with
  | [] => true
  | row :: A' => row_ok k D i row && rows_ok k D (S i) A'
  end.

Definition knn_ok (k : Z) (D : list point) (A : list (list Z)) : bool :=
  (length A =? length D)%nat && rows_ok k D 0 A.

(** ---------- NNSpacePartitioner.build, lines 68-73: the weight-normalised matrix ---------- *)
Definition row_weights (A : list (list Z)) : list Z := map zsum A.       (* np.sum(P, axis=1).astype(int) *)
Definition lcm_reduce (ws : list Z) : Z := fold_right Z.lcm 1 ws.        (* np.lcm.reduce *)
(** m = Q / weight_array; matmul(m * identity, P) scales row i by m_i.  (The code divides in
    floating point; the quotient is an integer whenever the weight is not 0.) *)
Definition nnps_matrix (A : list (list Z)) : list (list Z) :=
  let q := lcm_reduce (row_weights A) in
  map (fun row => map (Z.mul (q / zsum row)) row) A.

(** ---------- compute_nnps_distance ---------- *)
Definition ncols (M : list (list Z)) : nat := match M with [] => O | r :: _ => length r end.

(** np.dot(v, M): entry j is sum_i v_i * M[i][j] *)
Definition vecmat (v : list Z) (M : list (list Z)) : list Z :=
  map (fun j => zsum (map (fun vr => fst vr * nth j (snd vr) 0) (combine v M))) (seq 0 (ncols M)).

Definition dterm (a b : Z) : Q := inject_Z (Z.abs (a - b)) / inject_Z (a + b).

Fixpoint map2 {A B C} (f : A -> B -> C) (l1 : list A) (l2 : list B) : list C :=
  match l1, l2 with
  | x :: t1, y :: t2 => f x y :: map2 f t1 t2
  | _, _ => []
  end.

Definition qsum (l : list Q) : Q := fold_right Qplus 0%Q l.

Definition nnps_distance (M : list (list Z)) (v1 v2 : list Z) : Q :=
  let m1 := vecmat v1 M in
  let m2 := vecmat v2 M in
  let denom := inject_Z (Z.of_nat (length v1)) in
  (qsum (map2 dterm m1 m2) / denom)%Q.

(** the whole pipeline of NNDVI.update lines 67-71: build on (reference, test) with the adjacency
    oracle [A], then the distance *)
Definition nnsp_distance (s1 s2 : list point) (A : list (list Z)) : Q :=
  nnps_distance (nnps_matrix A) (build_v1 s1 s2) (build_v2 s1 s2).

(** one trial of _compute_drift_threshold: v1_shuffle is an oracle (np.random.permutation(v_ref)),
    v2_shuffle = 1 - v1_shuffle *)
Definition vcomplement (v : list Z) : list Z := map (fun x => 1 - x) v.
Definition shuffle_distance (M : list (list Z)) (vs : list Z) : Q := nnps_distance M vs (vcomplement vs).

(** [vs] is a re-assignment of [vref]: a 0/1 vector of the same length with the same number of ones *)
Definition is_shuffle_of (vref vs : list Z) : bool :=
  (length vs =? length vref)%nat && forallb is01 vs && (zsum vs =? zsum vref).

(** ---------- NNDVI on the generic batch/stream machine ---------- *)

(** [theta < d], theta = None (NaN) compares false *)
Definition theta_ltb (theta : option Q) (d : Q) : bool :=
  match theta with
  | Some t => match (t ?= d)%Q with Lt => true | _ => false end
  | None => false
  end.

(** what one update receives: the test batch, the adjacency oracle for (reference, test) and the
    threshold oracle *)
Definition nndvi_in := (list point * list (list Z) * option Q)%type.
Definition in_test (x : nndvi_in) : list point := fst (fst x).
Definition in_adj (x : nndvi_in) : list (list Z) := snd (fst x).
Definition in_theta (x : nndvi_in) : option Q := snd x.

(** update lines 67-78: the epoch state is the reference batch; drift_state is only ever assigned
    "drift" (reset() has cleared it at the start of the following update) *)
Definition nndvi_step (ref : list point) (n : Z) (x : nndvi_in) : list point * option dstate :=
  let d_act := nnsp_distance ref (in_test x) (in_adj x) in
  if theta_ltb (in_theta x) d_act then (in_test x, Some DDrift) else (ref, None).

Definition NNDVI : kernel := {|
  E := list point;
  X := nndvi_in;
  reset_e := fun ref => ref;          (* BatchDetector.reset keeps reference_batch *)
  step_e := nndvi_step;
  policy := PolNoRecs
|}.

(** the reference the detector holds after a run, told from the observable trace alone:
    the test batch of the most recent update that reported drift *)
Fixpoint ref_by_trace (ref : list point) (xs : list nndvi_in) (os : list obs) : list point :=
  match xs, os with
  | x :: xs', o :: os' => ref_by_trace (if is_drift (o_ds o) then in_test x else ref) xs' os'
  | _, _ => ref
  end.

(** ---------- checkers evaluated by the correspondence harness ---------- *)
Definition pts_eqb : list point -> list point -> bool := list_eqb pt_eqb.
Definition zl_eqb : list Z -> list Z -> bool := list_eqb Z.eqb.
Definition mat_eqb : list (list Z) -> list (list Z) -> bool := list_eqb zl_eqb.

(** |a - b| <= tol *)
Definition qclose (a b tol : Q) : bool := Qle_bool (Qabs (a - b)) tol.

(** build + distance of one pair of samples against everything the implementation exposes *)
Definition chk_build (k : Z) (s1 s2 D : list point) (v1 v2 : list Z) (A nnps : list (list Z))
           (dimpl tol : Q) : bool :=
  pts_eqb (build_D s1 s2) D
  && zl_eqb (build_v1 s1 s2) v1
  && zl_eqb (build_v2 s1 s2) v2
  && knn_ok k (build_D s1 s2) A
  && mat_eqb (nnps_matrix A) nnps
  && qclose (nnsp_distance s1 s2 A) dimpl tol.

(** the implementation refused to build: more neighbours requested than distinct points *)
Definition chk_too_few (k : Z) (s1 s2 : list point) : bool :=
  Z.of_nat (length (build_D s1 s2)) <? k.

(** the trials of the threshold computation: every vector is a re-assignment of v_ref and the
    harness's distance of the trial is the model's within [tol] *)
Fixpoint chk_shuffles (M : list (list Z)) (vref : list Z) (trials : list (list Z * Q)) (tol : Q) : bool :=
  match trials with
  | [] => true
  | (vs, d) :: t => is_shuffle_of vref vs && qclose (shuffle_distance M vs) d tol && chk_shuffles M vref t tol
  end.

(** a sequence of updates: per update the observable state, the reference batch afterwards, and
    (for the update's own pair) the oracle adjacency must pass [knn_ok] *)
Definition exp_row := (obs * list point)%type.

Fixpoint chk_nndvi_trace (k : Z) (s : st NNDVI) (xs : list nndvi_in) (exp : list exp_row) : bool :=
  match xs, exp with
  | [], [] => true
  | x :: xs', (o, r) :: exp' =>
      let s' := update s x in
      knn_ok k (build_D (epoch s) (in_test x)) (in_adj x)
      && obs_eqb (observe s') o && pts_eqb (epoch s') r && chk_nndvi_trace k s' xs' exp'
  | _, _ => false
  end.

Definition chk_nndvi (k : Z) (ref0 : list point) (xs : list nndvi_in) (exp : list exp_row) : bool :=
  chk_nndvi_trace k (init NNDVI ref0) xs exp.

(** diagnosis *)
Definition show_build (k : Z) (s1 s2 : list point) (A : list (list Z)) :=
  (build_D s1 s2, build_v1 s1 s2, build_v2 s1 s2, knn_ok k (build_D s1 s2) A, nnps_matrix A,
   Qred (nnsp_distance s1 s2 A)).

Fixpoint show_nndvi_trace (s : st NNDVI) (xs : list nndvi_in) : list (obs * list point * Q) :=
  match xs with
  | [] => []
  | x :: xs' =>
      let s' := update s x in
      (observe s', epoch s', Qred (nnsp_distance (epoch s) (in_test x) (in_adj x))) :: show_nndvi_trace s' xs'
  end.
Definition show_nndvi (ref0 : list point) (xs : list nndvi_in) := show_nndvi_trace (init NNDVI ref0) xs.
