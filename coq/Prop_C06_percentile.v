(** C06 (bounds) — np.percentile (method "linear") as used by LFR's _sim_bounds (lfr.py:401-404):
    order properties of the model over the reals, and the bit-exact float checker on a numpy case.
    Statements only; proofs in Percentile_Proofs.v.

    Reals: [NumR], floor := [Int_part] (Coq Reals).  [pctR l p] = [@percentile NumR Int_part l p],
    [boundsR l w d] = [@lfr_bounds_of NumR Int_part l w d].  [l] is the sorted sample:
    [sortedR l := forall i j, (i <= j < length l)%nat -> nth i l 0 <= nth j l 0], non-empty. *)
From MV Require Import Base Num NumFloat NumLaws Lfr Lfr_Mono Percentile Percentile_Proofs Corr_Percentile.
From Coq Require Import Reals PrimFloat.
Local Open Scope R_scope.

(** (a) percentiles are monotone in the level (the lemma does not even need p2 <= 100) *)
Theorem C06_percentile_mono : forall l : list R, (1 <= length l)%nat -> sortedR l ->
  forall p1 p2 : R, 0 <= p1 <= p2 -> p2 <= 100 -> pctR l p1 <= pctR l p2.
Proof. intros l Hne Hs p1 p2 H _. exact (percentile_mono l Hne Hs p1 p2 H). Qed.

Theorem C06_percentile_mono_gen : forall l : list R, (1 <= length l)%nat -> sortedR l ->
  forall p1 p2 : R, 0 <= p1 <= p2 -> pctR l p1 <= pctR l p2.
Proof. exact percentile_mono. Qed.

(** (b) every percentile lies between the smallest and the largest sample value; level 0 is the
    minimum, level 100 the maximum *)
Theorem C06_percentile_between : forall l : list R, (1 <= length l)%nat -> sortedR l ->
  forall p : R, 0 <= p <= 100 -> firstR l <= pctR l p <= lastR l.
Proof. intros l Hne Hs p [H _]. exact (percentile_between l Hne Hs p H). Qed.

Theorem C06_percentile_0 : forall (l : list R),
  (1 <= length l)%nat -> pctR l 0 = firstR l.
Proof. exact percentile_0. Qed.

Theorem C06_percentile_100 : forall (l : list R),
  (1 <= length l)%nat -> pctR l 100 = lastR l.
Proof. exact percentile_100. Qed.

(** (c) the two branches of numpy's _lerp agree over the reals: the test [g >= 0.5] is only a
    rounding device, and the model's lerp is the plain interpolation *)
Theorem C06_lerp_branches_agree : forall A B g : R,
  B - (B - A) * (1 - g) = A + (B - A) * g.
Proof. exact lerp_branches_agree. Qed.

Theorem C06_lerp_model : forall A B g : R, @lerp NumR A B g = A + (B - A) * g.
Proof. exact lerpR. Qed.

(** (d) same sample, same warning level, smaller detect level (run 2): detect bounds of run 2 enclose
    those of run 1, warning bounds are equal — the relation [brel] assumed by the C17 LFR theorem *)
Theorem C06_lfr_bounds_nested : forall l : list R, (1 <= length l)%nat -> sortedR l ->
  forall w d1 d2 : R, 0 <= d2 <= d1 -> d1 <= 1 / 2 ->
  @brel NumR (boundsR l w d1) (boundsR l w d2).
Proof. exact lfr_bounds_nested. Qed.

Theorem C06_lfr_bounds_nested_unfolded : forall l : list R, (1 <= length l)%nat -> sortedR l ->
  forall w d1 d2 : R, 0 <= d2 <= d1 -> d1 <= 1 / 2 ->
  let b1 := boundsR l w d1 in let b2 := boundsR l w d2 in
  lb_warn b1 = lb_warn b2 /\ ub_warn b1 = ub_warn b2 /\
  lb_detect b2 <= lb_detect b1 /\ ub_detect b1 <= ub_detect b2.
Proof.
  intros l Hne Hs w d1 d2 H H1 b1 b2.
  destruct (lfr_bounds_nested l Hne Hs w d1 d2 H H1) as (A & B & C & D).
  exact (conj A (conj B (conj (proj1 (Rleb_iff _ _) C) (proj1 (Rleb_iff _ _) D)))).
Qed.

(** same for warning_level: run 1 = larger warning level = narrower warning bounds ([wbrel]) *)
Theorem C06_lfr_warn_bounds_nested : forall l : list R, (1 <= length l)%nat -> sortedR l ->
  forall d w1 w2 : R, 0 <= w2 <= w1 -> w1 <= 1 / 2 ->
  @wbrel NumR (boundsR l w1 d) (boundsR l w2 d).
Proof. exact lfr_warn_bounds_nested. Qed.

(** levels up to 1 suffice for both nesting statements *)
Theorem C06_lfr_bounds_nested_gen : forall l : list R, (1 <= length l)%nat -> sortedR l ->
  forall w d1 d2 : R, 0 <= d2 <= d1 -> d1 <= 1 ->
  @brel NumR (boundsR l w d1) (boundsR l w d2).
Proof. exact lfr_bounds_nested_gen. Qed.

Theorem C06_lfr_warn_bounds_nested_gen : forall l : list R, (1 <= length l)%nat -> sortedR l ->
  forall d w1 w2 : R, 0 <= w2 <= w1 -> w1 <= 1 ->
  @wbrel NumR (boundsR l w1 d) (boundsR l w2 d).
Proof. exact lfr_warn_bounds_nested_gen. Qed.

(** with detect_level <= warning_level <= 1/2 the four bounds are ordered *)
Theorem C06_lfr_bounds_ordered : forall l : list R, (1 <= length l)%nat -> sortedR l ->
  forall w d : R, 0 <= d <= w -> w <= 1 / 2 ->
  let b := boundsR l w d in
  lb_detect b <= lb_warn b /\ lb_warn b <= ub_warn b /\ ub_warn b <= ub_detect b.
Proof. exact lfr_bounds_ordered. Qed.

(** the hypotheses are satisfiable and the model interpolates as expected *)
Example C06_percentile_example :
  sortedR [1; 2; 4] /\ pctR [1; 2; 4] 25 = 3 / 2 /\ pctR [1; 2; 4] 75 = 3.
Proof. exact percentile_example. Qed.

(** numpy 2.5.3:  a = [0.3, 0.1, 0.7, 0.2, 0.9, 0.4, 0.4]
      np.percentile(a, 0.05*100)       = 0.13                 (0x1.0a3d70a3d70a4p-3,  g < 0.5 branch)
      np.percentile(a, 100 - 0.05*100) = 0.8399999999999999   (0x1.ae147ae147ae0p-1,  g >= 0.5 branch)
      np.percentile(a, 0.01*100)       = 0.10600000000000001  (0x1.b22d0e560418ap-4)
      np.percentile(a, 100 - 0.01*100) = 0.8879999999999999   (0x1.c6a7ef9db22d0p-1) *)
Definition ex_sorted : list float :=
  [0x1.999999999999ap-4; 0x1.999999999999ap-3; 0x1.3333333333333p-2; 0x1.999999999999ap-2;
   0x1.999999999999ap-2; 0x1.6666666666666p-1; 0x1.ccccccccccccdp-1]%float.

Example C06_chk_percentile_numpy :
  chk_percentile ex_sorted 0x1.4p+2%float 0x1.0a3d70a3d70a4p-3%float = true /\
  chk_percentile ex_sorted 0x1.7cp+6%float 0x1.ae147ae147ae0p-1%float = true /\
  chk_percentile ex_sorted 0%float 0x1.999999999999ap-4%float = true /\
  chk_percentile ex_sorted 0x1.9p+6%float 0x1.ccccccccccccdp-1%float = true /\
  (* the checker is not vacuous: a neighbouring double is rejected *)
  chk_percentile ex_sorted 0x1.7cp+6%float 0x1.ae147ae147ae1p-1%float = false.
Proof. vm_compute. repeat split. Qed.

Example C06_chk_lfr_bounds_numpy :
  chk_lfr_bounds ex_sorted 0x1.999999999999ap-5%float 0x1.47ae147ae147bp-7%float
    0x1.0a3d70a3d70a4p-3%float 0x1.ae147ae147ae0p-1%float
    0x1.b22d0e560418ap-4%float 0x1.c6a7ef9db22d0p-1%float = true.
Proof. vm_compute. reflexivity. Qed.

Print Assumptions C06_percentile_mono.
Print Assumptions C06_percentile_mono_gen.
Print Assumptions C06_percentile_between.
Print Assumptions C06_percentile_0.
Print Assumptions C06_percentile_100.
Print Assumptions C06_lerp_branches_agree.
Print Assumptions C06_lerp_model.
Print Assumptions C06_lfr_bounds_nested.
Print Assumptions C06_lfr_bounds_nested_unfolded.
Print Assumptions C06_lfr_warn_bounds_nested.
Print Assumptions C06_lfr_bounds_nested_gen.
Print Assumptions C06_lfr_warn_bounds_nested_gen.
Print Assumptions C06_lfr_bounds_ordered.
Print Assumptions C06_percentile_example.
Print Assumptions C06_chk_percentile_numpy.
Print Assumptions C06_chk_lfr_bounds_numpy.
