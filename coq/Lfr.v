(** Model of menelaus/concept_drift/lfr.py (Linear Four Rates) as a kernel of the generic machine.
    Oracles (supplied per update by the harness, which logs them from the implementation):
      - the rounded rate used as cache key (numpy's round),
      - the result of _sim_bounds (Monte-Carlo percentiles) whenever the cache misses.
    The model recomputes the arguments of every oracle query and records any disagreement with
    what the implementation actually passed in [l_oracle_ok]. *)
From MV Require Import Base Num Lifecycle.

Section LFR.
Context {N : Num}.
Local Open Scope num_scope.
Notation F := (F N).

Inductive rate := TPR | TNR | PPV | NPV.
Definition rate_eqb (a b : rate) : bool :=
  match a, b with TPR, TPR | TNR, TNR | PPV, PPV | NPV, NPV => true | _, _ => false end.

Record bounds := { lb_warn : F; ub_warn : F; lb_detect : F; ub_detect : F }.

Record lfr_params := {
  l_eta : F; l_burn_in : Z; l_subsample : Z; l_tracked : list rate
}.

(** confusion matrix C[pred][true] *)
Record conf := { c_tn : Z; c_fn : Z; c_fp : Z; c_tp : Z }.
Definition conf0 : conf := {| c_tn := 1; c_fn := 1; c_fp := 1; c_tp := 1 |}.

Definition conf_add (c : conf) (yt yp : bool) : conf :=
  match yp, yt with
  | false, false => {| c_tn := c_tn c + 1; c_fn := c_fn c; c_fp := c_fp c; c_tp := c_tp c |}
  | false, true => {| c_tn := c_tn c; c_fn := c_fn c + 1; c_fp := c_fp c; c_tp := c_tp c |}
  | true, false => {| c_tn := c_tn c; c_fn := c_fn c; c_fp := c_fp c + 1; c_tp := c_tp c |}
  | true, true => {| c_tn := c_tn c; c_fn := c_fn c; c_fp := c_fp c; c_tp := c_tp c + 1 |}
  end.

Definition denom_of (c : conf) (r : rate) : Z :=
  match r with
  | TPR => c_tp c + c_fn c | TNR => c_tn c + c_fp c | PPV => c_fp c + c_tp c | NPV => c_tn c + c_fn c
  end.
Definition numer_of (c : conf) (r : rate) : Z :=
  match r with TPR | PPV => c_tp c | TNR | NPV => c_tn c end.
Definition rate_of (c : conf) (r : rate) : F := fofZ (numer_of c r) / fofZ (denom_of c r).

(** the four test statistics R *)
Record rstats := { r_tpr : F; r_tnr : F; r_ppv : F; r_npv : F }.
Definition rget (s : rstats) (r : rate) : F :=
  match r with TPR => r_tpr s | TNR => r_tnr s | PPV => r_ppv s | NPV => r_npv s end.
Definition rset (s : rstats) (r : rate) (v : F) : rstats :=
  match r with
  | TPR => {| r_tpr := v; r_tnr := r_tnr s; r_ppv := r_ppv s; r_npv := r_npv s |}
  | TNR => {| r_tpr := r_tpr s; r_tnr := v; r_ppv := r_ppv s; r_npv := r_npv s |}
  | PPV => {| r_tpr := r_tpr s; r_tnr := r_tnr s; r_ppv := v; r_npv := r_npv s |}
  | NPV => {| r_tpr := r_tpr s; r_tnr := r_tnr s; r_ppv := r_ppv s; r_npv := v |}
  end.
Definition half : F := f1 / fofZ 2.
Definition rstats0 : rstats := {| r_tpr := half; r_tnr := half; r_ppv := half; r_npv := half |}.

Definition cache := list (F * Z * bounds).       (* key: (rounded rate, denominator) *)
Fixpoint cache_find (k : F) (d : Z) (c : cache) : option bounds :=
  match c with
  | [] => None
  | (k', d', b) :: t => if feqb k k' && (d =? d')%Z then Some b else cache_find k d t
  end.

Record lfr_e := { l_conf : conf; l_r : rstats; l_cache : cache; l_oracle_ok : bool }.
Definition lfr_e0 : lfr_e := {| l_conf := conf0; l_r := rstats0; l_cache := []; l_oracle_ok := true |}.
(** reset(): confusion matrix and statistics restart, the bounds cache survives *)
Definition lfr_reset (e : lfr_e) : lfr_e :=
  {| l_conf := conf0; l_r := rstats0; l_cache := l_cache e; l_oracle_ok := l_oracle_ok e |}.

(** what the harness logged for one evaluated rate: (est_rate passed, denominator passed, rounded key,
    result of _sim_bounds if it was called) *)
Definition oracle_row := (F * Z * F * option bounds)%type.
Definition lfr_input := (bool * bool * list oracle_row)%type.     (* y_true, y_pred, oracle rows *)

Definition outside (v lo hi : F) : bool := (v <? lo) || (hi <? v).

(** the loop over rates_tracked; returns the updated statistics, cache, flags *)
Fixpoint lfr_rates (p : lfr_params) (gated : bool) (agree : bool) (oldc newc : conf)
         (rs : list rate) (orc : list oracle_row) (r : rstats) (ca : cache) (ok warn alarm : bool)
  : rstats * cache * bool * bool * bool :=
  match rs with
  | [] => (r, ca, ok && match orc with [] => true | _ => false end, warn, alarm)
  | rt :: rs' =>
      let newr := if negb (feqb (rate_of newc rt) (rate_of oldc rt))
                  then l_eta p * rget r rt + (f1 - l_eta p) * (if agree then f1 else f0)
                  else rget r rt in
      let r' := rset r rt newr in
      if gated then
        match orc with
        | (est, den, key, sim) :: orc' =>
            let args_ok := feqb est (rate_of newc rt) && (den =? denom_of newc rt)%Z in
            match cache_find key den ca, sim with
            | Some b, None =>
                lfr_rates p gated agree oldc newc rs' orc' r' ca (ok && args_ok)
                          (warn || outside newr (lb_warn b) (ub_warn b))
                          (alarm || outside newr (lb_detect b) (ub_detect b))
            | None, Some b =>
                lfr_rates p gated agree oldc newc rs' orc' r' ((key, den, b) :: ca) (ok && args_ok)
                          (warn || outside newr (lb_warn b) (ub_warn b))
                          (alarm || outside newr (lb_detect b) (ub_detect b))
            | Some b, Some _ =>    (* the implementation simulated although the key was cached *)
                lfr_rates p gated agree oldc newc rs' orc' r' ca false
                          (warn || outside newr (lb_warn b) (ub_warn b))
                          (alarm || outside newr (lb_detect b) (ub_detect b))
            | None, None => lfr_rates p gated agree oldc newc rs' orc' r' ca false warn alarm
            end
        | [] => lfr_rates p gated agree oldc newc rs' [] r' ca false warn alarm
        end
      else lfr_rates p gated agree oldc newc rs' orc r' ca ok warn alarm
  end.

Definition lfr_gated (p : lfr_params) (n : Z) : bool :=
  (l_burn_in p <? n)%Z && (n mod l_subsample p =? 0)%Z.

Definition lfr_step (p : lfr_params) (e : lfr_e) (n : Z) (x : lfr_input) : lfr_e * option dstate :=
  let '(yt, yp, orc) := x in
  let newc := conf_add (l_conf e) yt yp in
  let '(r, ca, ok, warn, alarm) :=
    lfr_rates p (lfr_gated p n) (Bool.eqb yt yp) (l_conf e) newc (l_tracked p) orc (l_r e) (l_cache e)
              (l_oracle_ok e) false false in
  ({| l_conf := newc; l_r := r; l_cache := ca; l_oracle_ok := ok |},
   Some (if alarm then DDrift else if warn then DWarn else DNone)).

Definition LFR (p : lfr_params) : kernel :=
  {| E := lfr_e; X := lfr_input; reset_e := lfr_reset; step_e := lfr_step p; policy := PolFirstWarn |}.

End LFR.
