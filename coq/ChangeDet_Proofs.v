(** Theorems about the Page-Hinkley and CUSUM kernels (every arithmetic instance). *)
From MV Require Import Base Num Lifecycle Lifecycle_Proofs Pairwise ChangeDet.

Section ChangeDetProofs.
Context {N : Num}.
Local Open Scope num_scope.

(** ------------------------------- Page-Hinkley ------------------------------- *)
Definition ph_mean' (e : @ph_e N) (n : Z) (x : F N) : F N := p_mean e + (x - p_mean e) / fofZ n.
Definition ph_sum' (p : @ph_params N) e n x : F N := ((p_sum e + x) - ph_mean' e n x) - ph_delta p.
Definition ph_min' (p : @ph_params N) e n x : F N := if ph_sum' p e n x <? p_min e then ph_sum' p e n x else p_min e.
Definition ph_max' (p : @ph_params N) e n x : F N := if p_max e <? ph_sum' p e n x then ph_sum' p e n x else p_max e.
Definition ph_diff' (p : @ph_params N) e n x : F N :=
  ph_diff (ph_dir p) (ph_sum' p e n x) (ph_min' p e n x) (ph_max' p e n x).
(** the documented test: PH difference above threshold * running mean *)
Definition ph_test (p : @ph_params N) e n x : bool := (ph_threshold p * ph_mean' e n x) <? ph_diff' p e n x.

Lemma if_drift_iff (b : bool) : (if b then Some DDrift else None) = Some DDrift <-> b = true.
Proof. destruct b; split; intros; congruence. Qed.

Lemma ph_step_spec (p : @ph_params N) e n x :
  let e' := fst (ph_step p e n x) in
  p_mean e' = ph_mean' e n x /\ p_sum e' = ph_sum' p e n x /\ p_min e' = ph_min' p e n x /\
  p_max e' = ph_max' p e n x /\
  snd (ph_step p e n x) = (if ph_test p e n x && (ph_burn_in p <? n)%Z then Some DDrift else None).
Proof. cbv zeta. repeat split. Qed.

Lemma ph_alarm_iff (p : @ph_params N) e n x :
  snd (ph_step p e n x) = Some DDrift <-> ph_test p e n x = true /\ (ph_burn_in p < n)%Z.
Proof.
  destruct (ph_step_spec p e n x) as (_ & _ & _ & _ & ->). rewrite if_drift_iff, andb_true_iff, Z.ltb_lt. reflexivity.
Qed.

Lemma ph_no_alarm_in_burn_in (p : @ph_params N) e n x : (n <= ph_burn_in p)%Z -> snd (ph_step p e n x) = None.
Proof.
  intros H. unfold ph_step. cbv zeta. simpl. destruct (Z.ltb_spec (ph_burn_in p) n); [lia|].
  rewrite andb_false_r. reflexivity.
Qed.

(** the decision and the new statistics depend on the observation and on the four running
    statistics only (not on the recorded history rows) *)
Lemma ph_local (p : @ph_params N) e1 e2 n x :
  p_max e1 = p_max e2 -> p_min e1 = p_min e2 -> p_sum e1 = p_sum e2 -> p_mean e1 = p_mean e2 ->
  snd (ph_step p e1 n x) = snd (ph_step p e2 n x) /\
  p_max (fst (ph_step p e1 n x)) = p_max (fst (ph_step p e2 n x)) /\
  p_min (fst (ph_step p e1 n x)) = p_min (fst (ph_step p e2 n x)) /\
  p_sum (fst (ph_step p e1 n x)) = p_sum (fst (ph_step p e2 n x)) /\
  p_mean (fst (ph_step p e1 n x)) = p_mean (fst (ph_step p e2 n x)).
Proof. intros H1 H2 H3 H4. unfold ph_step. cbv zeta. simpl. rewrite H1, H2, H3, H4. repeat split. Qed.

(** one history row per sample of the epoch *)
Lemma ph_rows_grow (p : @ph_params N) e n x :
  length (p_rows (fst (ph_step p e n x))) = S (length (p_rows e)).
Proof. reflexivity. Qed.

(** ------------------------------- CUSUM ------------------------------- *)
Definition cusum_alarm (p : @cusum_params N) (up lo : F N) : bool :=
  match c_dir p with
  | DirBoth => (c_threshold p <? up) || (c_threshold p <? lo)
  | DirPos => c_threshold p <? up
  | DirNeg => c_threshold p <? lo
  end.

(** with known target and sd: the two one-sided recurrences on the standardised observation *)
Lemma cusum_step_known (p : @cusum_params N) e n x t s :
  c_target e = Some t -> c_sd e = Some s ->
  let z := (x - t) / s in
  let up := pymax f0 ((c_up e + z) - c_delta p) in
  let lo := pymax f0 ((c_lo e - c_delta p) - z) in
  let e' := fst (cusum_step p e n x) in
  c_target e' = Some t /\ c_sd e' = Some s /\ c_up e' = up /\ c_lo e' = lo /\
  c_stream e' = x :: c_stream e /\
  snd (cusum_step p e n x) = (if (c_burn_in p <? n)%Z && cusum_alarm p up lo then Some DDrift else None).
Proof. intros Ht Hs. unfold cusum_step, cusum_alarm. rewrite Ht, Hs. cbv zeta. simpl. repeat split. Qed.

Lemma cusum_alarm_iff (p : @cusum_params N) e n x t s :
  c_target e = Some t -> c_sd e = Some s ->
  let z := (x - t) / s in
  (snd (cusum_step p e n x) = Some DDrift <->
   (c_burn_in p < n)%Z /\
   cusum_alarm p (pymax f0 ((c_up e + z) - c_delta p)) (pymax f0 ((c_lo e - c_delta p) - z)) = true).
Proof.
  intros Ht Hs. destruct (cusum_step_known p e n x t s Ht Hs) as (_ & _ & _ & _ & _ & ->).
  cbv zeta. rewrite if_drift_iff, andb_true_iff, Z.ltb_lt. reflexivity.
Qed.

(** before the target is known (first epoch, target not given): silent, statistics stay 0, and at
    the burn_in-th sample the target / sd become numpy's mean / std of everything seen so far *)
Lemma cusum_step_estimating (p : @cusum_params N) e n x :
  c_target e = None -> c_sd e = None ->
  let e' := fst (cusum_step p e n x) in
  ((n <> c_burn_in p)%Z -> c_target e' = None /\ c_up e' = f0 /\ c_lo e' = f0) /\
  ((n = c_burn_in p)%Z ->
     c_target e' = Some (np_mean (rev (x :: c_stream e))) /\ c_sd e' = Some (np_std (rev (x :: c_stream e)))) /\
  ((n <= c_burn_in p)%Z -> snd (cusum_step p e n x) = None).
Proof.
  intros Ht Hs. unfold cusum_step. rewrite Ht, Hs. cbv zeta.
  destruct (Z.eqb_spec n (c_burn_in p)) as [->|Hne]; simpl; repeat split; intros; try reflexivity; try congruence; try lia.
  - rewrite Z.ltb_irrefl. reflexivity.
  - destruct (Z.ltb_spec (c_burn_in p) n); [lia | reflexivity].
Qed.

Lemma cusum_no_alarm_in_burn_in (p : @cusum_params N) e n x : (n <= c_burn_in p)%Z -> snd (cusum_step p e n x) = None.
Proof.
  intros H. unfold cusum_step. cbv zeta.
  destruct (c_target e); [|destruct (n =? c_burn_in p)%Z];
  repeat match goal with |- context [match ?o with Some _ => _ | None => _ end] => destruct o end;
  simpl; destruct (Z.ltb_spec (c_burn_in p) n); try lia; reflexivity.
Qed.

Lemma cusum_drift_needs (p : @cusum_params N) e n x : snd (cusum_step p e n x) = Some DDrift -> (c_burn_in p < n)%Z.
Proof.
  intros H. destruct (Z.lt_ge_cases (c_burn_in p) n) as [L|G]; [exact L|].
  rewrite cusum_no_alarm_in_burn_in in H by lia. discriminate.
Qed.

(** ---- history independence: only the statistics and the observations of the current epoch matter ---- *)
Definition cusum_rel (n : Z) (e1 e2 : @cusum_e N) : Prop :=
  c_target e1 = c_target e2 /\ c_sd e1 = c_sd e2 /\ c_up e1 = c_up e2 /\ c_lo e1 = c_lo e2 /\
  c_target e1 <> None /\
  firstn (Z.to_nat n) (c_stream e1) = firstn (Z.to_nat n) (c_stream e2).

Lemma cusum_step_rel (p : @cusum_params N) n e1 e2 x : (0 <= n)%Z -> cusum_rel n e1 e2 ->
  snd (cusum_step p e1 (n + 1) x) = snd (cusum_step p e2 (n + 1) x) /\
  cusum_rel (n + 1) (fst (cusum_step p e1 (n + 1) x)) (fst (cusum_step p e2 (n + 1) x)).
Proof.
  intros Hn (Ht & Hs & Hu & Hl & Hnn & Hf).
  unfold cusum_step. rewrite <- Ht, <- Hs, <- Hu, <- Hl.
  destruct (c_target e1) as [t|] eqn:Et; [|congruence]. cbv zeta.
  destruct (c_sd e1) as [s|]; simpl; split; try reflexivity;
  unfold cusum_rel; simpl; repeat split; try congruence;
    (replace (Z.to_nat (n + 1)) with (S (Z.to_nat n)) by lia; simpl; rewrite Hf; reflexivity).
Qed.

Lemma cusum_reset_rel (p : @cusum_params N) n e1 e2 : (1 <= c_burn_in p)%Z ->
  cusum_rel n e1 e2 -> (c_burn_in p < n)%Z -> cusum_rel 0 (cusum_reset p e1) (cusum_reset p e2).
Proof.
  intros Hb (Ht & Hs & Hu & Hl & Hnn & Hf) Hlt.
  assert (Hw : last_burn_in (c_burn_in p) (c_stream e1) = last_burn_in (c_burn_in p) (c_stream e2)).
  { unfold last_burn_in. destruct (Z.eqb_spec (c_burn_in p) 0); [lia|]. f_equal.
    assert (Hmin : Nat.min (Z.to_nat (c_burn_in p)) (Z.to_nat n) = Z.to_nat (c_burn_in p)) by lia.
    rewrite <- Hmin, <- !firstn_firstn, Hf. reflexivity. }
  unfold cusum_rel, cusum_reset. simpl. rewrite Hw. repeat split; congruence.
Qed.

End ChangeDetProofs.
