(** C17, Linear Four Rates part - a smaller detect_level (which only widens the detect bounds taken from
    each Monte-Carlo sample) never moves the first reported drift earlier.  Statements only (proofs:
    Lfr_Mono.v, Lifecycle_Mono2.v).  Run 1 = looser, run 2 = stricter.  "Same history and seed schedule":
    the same labels and, at every bounds request, the same simulated sample, so the same estimate,
    denominator and cache key; of the four percentiles the two warning bounds coincide and the detect bounds
    of run 2 enclose those of run 1 ([orel]).  Bit-exact float model: the proof uses only transitivity of
    <= and <, which holds for ALL IEEE doubles (FloatLaws.v), so there is no arithmetic hypothesis. *)
From MV Require Import Base Num NumLaws NumFloat FloatLaws Lifecycle Lifecycle_Mono Lfr Lfr_Mono Corr_C06 Corr_C17.
From Coq Require Import PrimFloat.

Definition TransLawsFloat : TransLaws NumFloat :=
  Build_TransLaws NumFloat float_leb_trans float_ltb_leb_trans float_leb_ltb_trans.

(** pointwise relation of the two input streams (labels equal, oracle rows related) *)
Definition lfr_inputs_related (xs1 xs2 : list (@lfr_input NumFloat)) : Prop :=
  Forall2 (fun x1 x2 =>
    fst (fst x1) = fst (fst x2) /\ snd (fst x1) = snd (fst x2) /\
    Forall2 (fun o1 o2 : @oracle_row NumFloat =>
      fst (fst (fst o1)) = fst (fst (fst o2)) /\ snd (fst (fst o1)) = snd (fst (fst o2)) /\
      snd (fst o1) = snd (fst o2) /\
      match snd o1, snd o2 with
      | Some b1, Some b2 =>
          lb_warn b1 = lb_warn b2 /\ ub_warn b1 = ub_warn b2 /\
          PrimFloat.leb (lb_detect b2) (lb_detect b1) = true /\
          PrimFloat.leb (ub_detect b1) (ub_detect b2) = true
      | None, None => True
      | _, _ => False
      end) (snd x1) (snd x2)) xs1 xs2.

Theorem C17_lfr_first_drift_monotone :
  forall (p : @lfr_params NumFloat) (xs1 xs2 : list (@lfr_input NumFloat)),
  lfr_inputs_related xs1 xs2 ->
  opt_le (first_drift (trace (init (LFR p) lfr_e0) xs1)) (first_drift (trace (init (LFR p) lfr_e0) xs2)).
Proof.
  intros p xs1 xs2 H.
  exact (lfr_first_drift_monotone TransLawsFloat p xs1 xs2 (init (LFR p) lfr_e0) (init (LFR p) lfr_e0) H
           (lfr_erel_refl_nil lfr_e0 eq_refl) eq_refl eq_refl eq_refl eq_refl ltac:(discriminate)).
Qed.

(** while the looser run reports no drift, everything observable is identical in both runs *)
Theorem C17_lfr_same_until_first_drift :
  forall (p : @lfr_params NumFloat) (xs1 xs2 : list (@lfr_input NumFloat)),
  lfr_inputs_related xs1 xs2 ->
  first_drift (trace (init (LFR p) lfr_e0) xs1) = None ->
  trace (init (LFR p) lfr_e0) xs2 = trace (init (LFR p) lfr_e0) xs1.
Proof.
  intros p xs1 xs2 H.
  exact (lfr_same_until_first_drift TransLawsFloat p xs1 xs2 (init (LFR p) lfr_e0) (init (LFR p) lfr_e0) H
           (lfr_erel_refl_nil lfr_e0 eq_refl) eq_refl eq_refl eq_refl eq_refl ltac:(discriminate)).
Qed.

(** from any pair of states that agree on statistics and counters and whose caches hold related bounds
    (what the two runs have reached at any point before the looser run's first drift) *)
Theorem C17_lfr_first_drift_monotone_any_state :
  forall (p : @lfr_params NumFloat) xs1 xs2 (a b : st (LFR p)),
  Forall2 lfr_xrel xs1 xs2 -> lfr_erel (epoch a) (epoch b) ->
  total a = total b -> since a = since b -> ds a = ds b -> recs a = recs b -> ds a <> DDrift ->
  opt_le (first_drift (trace a xs1)) (first_drift (trace b xs2)).
Proof. exact (lfr_first_drift_monotone TransLawsFloat). Qed.

(** the tie to the implementation: whenever the boolean check the harness evaluates on the logged inputs of
    two runs of lfr.py returns true, the hypothesis above holds for those inputs, hence the model's first drifts
    are ordered (and by Corr_C06 the model's traces are the implementation's) *)
Theorem C17_lfr_checked_pair :
  forall eta burn sub tracked (xs1 xs2 : list (@lfr_input NumFloat)),
  chk_lfr_pair xs1 xs2 = true ->
  let p := lfr_p eta burn sub tracked in
  opt_le (first_drift (trace (init (LFR p) lfr_e0) xs1)) (first_drift (trace (init (LFR p) lfr_e0) xs2)).
Proof.
  intros eta burn sub tracked xs1 xs2 H p.
  exact (lfr_first_drift_monotone TransLawsFloat p xs1 xs2 (init (LFR p) lfr_e0) (init (LFR p) lfr_e0)
           (lfr_related_b_sound xs1 xs2 H)
           (lfr_erel_refl_nil lfr_e0 eq_refl) eq_refl eq_refl eq_refl eq_refl ltac:(discriminate)).
Qed.

(** warning_level: run 1 has the looser warning level (its warning bounds lie inside those of run 2, the
    detect bounds coincide).  Over the WHOLE run, through every reset: drifts in exactly the same places,
    every warning of the stricter setting is a warning of the looser one, counters identical. *)
Definition trace_rel (t1 t2 : list obs) : Prop :=
  Forall2 (fun o1 o2 => (o_ds o1 = DDrift <-> o_ds o2 = DDrift) /\ (o_ds o2 = DWarn -> o_ds o1 = DWarn)
                         /\ o_total o1 = o_total o2 /\ o_since o1 = o_since o2) t1 t2.

Theorem C17_lfr_warning_loosening :
  forall (p : @lfr_params NumFloat) (xs1 xs2 : list (@lfr_input NumFloat)),
  Forall2 lfr_wxrel xs1 xs2 ->
  trace_rel (trace (init (LFR p) lfr_e0) xs1) (trace (init (LFR p) lfr_e0) xs2).
Proof.
  intros p xs1 xs2 H.
  exact (lfr_warning_loosening TransLawsFloat p xs1 xs2 (init (LFR p) lfr_e0) (init (LFR p) lfr_e0) H
           (lfr_werel_refl_nil lfr_e0 eq_refl) eq_refl eq_refl (conj (fun h => h) (fun h => h)) (fun h => h)).
Qed.

Theorem C17_lfr_checked_warning_pair :
  forall eta burn sub tracked (xs1 xs2 : list (@lfr_input NumFloat)),
  chk_lfr_wpair xs1 xs2 = true ->
  let p := lfr_p eta burn sub tracked in
  trace_rel (trace (init (LFR p) lfr_e0) xs1) (trace (init (LFR p) lfr_e0) xs2).
Proof.
  intros eta burn sub tracked xs1 xs2 H p.
  exact (C17_lfr_warning_loosening p xs1 xs2 (chk_lfr_wpair_sound xs1 xs2 H)).
Qed.

(** the hypotheses are satisfiable and the conclusion is not vacuous: one tracked rate, one update; the
    statistic 0.75 lies above the looser upper detect bound 0.7 and inside the stricter bounds *)
Example C17_lfr_example :
  let p := @Build_lfr_params NumFloat 0.5%float 0 1 [TPR] in
  let b1 := @Build_bounds NumFloat 0.25%float 0.875%float 0.25%float 0.625%float in
  let b2 := @Build_bounds NumFloat 0.25%float 0.875%float 0.125%float 0.875%float in
  let row b : @oracle_row NumFloat := (0.5%float, 3%Z, 0.5%float, Some b) in
  let xs1 : list (@lfr_input NumFloat) := [(true, true, [row b1])] in
  let xs2 : list (@lfr_input NumFloat) := [(true, true, [row b2])] in
  lfr_inputs_related xs1 xs2 /\
  first_drift (trace (init (LFR p) lfr_e0) xs1) = Some O /\
  first_drift (trace (init (LFR p) lfr_e0) xs2) = None.
Proof.
  cbv zeta. split; [|split; vm_compute; reflexivity].
  repeat constructor.
Qed.

Print Assumptions C17_lfr_first_drift_monotone.
Print Assumptions C17_lfr_same_until_first_drift.
Print Assumptions C17_lfr_first_drift_monotone_any_state.
Print Assumptions C17_lfr_checked_pair.
Print Assumptions C17_lfr_warning_loosening.
Print Assumptions C17_lfr_checked_warning_pair.
