(** Model of menelaus/ensemble/election.py: the four [__call__] bodies, statement by statement.
    Detectors are abstracted to their [drift_state]; parameters are Python ints (any [Z]). *)
From MV Require Import Base.

(** SimpleMajorityElection.__call__ *)
Definition cnt_drift (l : list dstate) : Z := Z.of_nat (length (filter is_drift l)).

Definition simple_majority (l : list dstate) : dstate :=
  let threshold := Z.of_nat (length l) / 2 in
  if threshold <? cnt_drift l then DDrift else DNone.

(** MinimumApprovalElection.__call__: the loop tests the counter after *every* detector *)
Fixpoint min_approval_go (a n : Z) (l : list dstate) : dstate :=
  match l with
  | [] => DNone
  | d :: t =>
      let n' := if is_drift d then n + 1 else n in
      if a <=? n' then DDrift else min_approval_go a n' t
  end.
Definition min_approval (a : Z) (l : list dstate) : dstate := min_approval_go a 0 l.

(** OrderedApprovalElection.__call__: counters move and are tested only on drifting detectors *)
Fixpoint ordered_go (a c na nc : Z) (l : list dstate) : dstate :=
  match l with
  | [] => DNone
  | d :: t =>
      if is_drift d then
        let na' := if na <? a then na + 1 else na in
        let nc' := if na <? a then nc else nc + 1 in
        if (a <=? na') && (c <=? nc') then DDrift else ordered_go a c na' nc' t
      else ordered_go a c na nc t
  end.
Definition ordered_approval (a c : Z) (l : list dstate) : dstate := ordered_go a c 0 0 l.

(** ConfirmedElection: state is [wait_period_counters] ([None] before the first call). *)
Record confirmed := { sensitivity : Z; wait_time : Z }.

(** one iteration of the first loop: (is a voter, is a warning, new counter) *)
Definition vote (st : dstate) (c : Z) : bool * bool * Z :=
  if is_drift st && (c =? 0) then (true, false, c + 1)
  else if is_warn st then (false, true, c)
  else if negb (c =? 0) then (true, false, c + 1)
  else (false, false, c).

Fixpoint tally (sts : list dstate) (cs : list Z) : Z * Z * list Z :=
  match sts, cs with
  | st :: sts', c :: cs' =>
      let '(v, w, c') := vote st c in
      let '(nd, nw, r) := tally sts' cs' in
      ((if v then nd + 1 else nd), (if w then nw + 1 else nw), c' :: r)
  | _, _ => (0, 0, cs)
  end.

Definition expire (p : confirmed) (c : Z) : Z := if wait_time p <? c then 0 else c.

Definition confirmed_call (p : confirmed) (w : option (list Z)) (sts : list dstate)
  : dstate * option (list Z) :=
  let cs := match w with Some cs => cs | None => repeat 0 (length sts) end in
  let '(nd, nw, cs') := tally sts cs in
  let ret := if sensitivity p <=? nd then DDrift
             else if sensitivity p <=? nw + nd then DWarn else DNone in
  (ret, Some (map (expire p) cs')).

(** a whole call history: returns the verdicts and counters after every call *)
Fixpoint confirmed_run (p : confirmed) (w : option (list Z)) (calls : list (list dstate))
  : list (dstate * list Z) :=
  match calls with
  | [] => []
  | sts :: rest =>
      let '(r, w') := confirmed_call p w sts in
      (r, match w' with Some cs => cs | None => [] end) :: confirmed_run p w' rest
  end.

(** ---- checkers used by the correspondence harness ---- *)
Definition chk_majority (l : list dstate) (exp : dstate) : bool := dstate_eqb (simple_majority l) exp.
Definition chk_minapp (a : Z) (l : list dstate) (exp : dstate) : bool := dstate_eqb (min_approval a l) exp.
Definition chk_ordered (a c : Z) (l : list dstate) (exp : dstate) : bool := dstate_eqb (ordered_approval a c l) exp.
Definition chk_confirmed (s wt : Z) (calls : list (list dstate)) (exp : list (dstate * list Z)) : bool :=
  list_eqb (fun x y => dstate_eqb (fst x) (fst y) && list_eqb Z.eqb (snd x) (snd y))
           (confirmed_run {| sensitivity := s; wait_time := wt |} None calls) exp.
