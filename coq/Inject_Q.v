(** Exact (rational) statements about the probability vector that LabelProbabilityInjector hands
    to np.random.choice: the model [p_final]/[p_distribution] of [Inject.v] instantiated with Q. *)
From MV Require Import Base Num Inject Inject_Proofs.
From Coq Require Import QArith Qabs Qfield.

(** the exact instance; [fsqrt], [fabs], [finf] are not used by the probability bookkeeping *)
Definition NumQ : Num := {|
  F := Q; f0 := 0%Q; f1 := 1%Q;
  fadd := Qplus; fsub := Qminus; fmul := Qmult; fdiv := Qdiv;
  fsqrt := fun x => x; fabs := Qabs; fneg := Qopp;
  fleb := Qle_bool; fltb := fun a b => negb (Qle_bool b a); feqb := Qeq_bool;
  fofZ := inject_Z;
  finf := 0%Q
|}.

Local Open Scope Q_scope.

Definition qsum (l : list Q) : Q := fold_left Qplus l 0.

Lemma pysum_is_qsum l : pysum NumQ l = qsum l.
Proof. reflexivity. Qed.

Lemma fold_left_Qplus l : forall a, fold_left Qplus l a == a + qsum l.
Proof.
  unfold qsum. induction l as [|x l IH]; intro a; simpl.
  - ring.
  - rewrite IH. rewrite (IH (0 + x)). ring.
Qed.

Lemma qsum_cons x l : qsum (x :: l) == x + qsum l.
Proof. unfold qsum at 1. simpl. rewrite fold_left_Qplus. ring. Qed.

Lemma qsum_app l1 l2 : qsum (l1 ++ l2) == qsum l1 + qsum l2.
Proof.
  induction l1 as [|x l1 IH]; simpl.
  - unfold qsum at 2. simpl. ring.
  - rewrite !qsum_cons, IH. ring.
Qed.

Lemma qsum_repeat v n : qsum (repeat v n) == inject_Z (Z.of_nat n) * v.
Proof.
  induction n as [|n IH].
  - simpl. unfold qsum. simpl. ring.
  - change (repeat v (S n)) with (v :: repeat v n). rewrite qsum_cons, IH.
    rewrite Nat2Z.inj_succ. unfold Z.succ. rewrite inject_Z_plus. ring.
Qed.

Lemma qsum_map_add lo l : qsum (map (fun x => x + lo) l) == qsum l + inject_Z (len l) * lo.
Proof.
  unfold len. induction l as [|x l IH].
  - simpl. unfold qsum. simpl. ring.
  - change (map (fun x0 => x0 + lo) (x :: l)) with ((x + lo) :: map (fun x0 => x0 + lo) l).
    rewrite !qsum_cons, IH. simpl length. rewrite Nat2Z.inj_succ. unfold Z.succ.
    rewrite inject_Z_plus. ring.
Qed.

Lemma inject_Z_nonzero z : z <> 0%Z -> ~ inject_Z z == 0.
Proof. intros H E. unfold Qeq in E. simpl in E. lia. Qed.

(** ** the vector before the clamp [max(., 0.0)] sums to one *)
Definition p_unclamped (pcs : list (Q * Z)) : list Q :=
  map (fun x => x + p_leftover NumQ (p_blocks NumQ pcs)) (p_blocks NumQ pcs).

Lemma p_unclamped_sums_to_one (pcs : list (Q * Z)) :
  p_blocks NumQ pcs <> [] -> qsum (p_unclamped pcs) == 1.
Proof.
  intro H. unfold p_unclamped. set (p := p_blocks NumQ pcs) in *.
  rewrite qsum_map_add. unfold p_leftover. simpl. change (pysum NumQ p) with (qsum p).
  assert (Hl : ~ inject_Z (len p) == 0).
  { apply inject_Z_nonzero. unfold len. destruct p; [congruence|simpl; lia]. }
  field. exact Hl.
Qed.

(** ** block structure and class masses *)
Lemma map_flat_map {B C D : Type} (f : C -> D) (g : B -> list C) l :
  map f (flat_map g l) = flat_map (fun x => map f (g x)) l.
Proof. induction l; simpl; auto. now rewrite map_app, IHl. Qed.

Lemma map_repeat {B C : Type} (f : B -> C) v n : map f (repeat v n) = repeat (f v) n.
Proof. induction n; simpl; congruence. Qed.

Lemma p_unclamped_blocks (pcs : list (Q * Z)) :
  let lo := p_leftover NumQ (p_blocks NumQ pcs) in
  p_unclamped pcs =
  flat_map (fun pc => repeat (p_individual NumQ (fst pc) (snd pc) + lo) (Z.to_nat (snd pc))) pcs.
Proof.
  cbv zeta. unfold p_unclamped, p_blocks. rewrite map_flat_map.
  apply flat_map_ext. intro pc. now rewrite map_repeat.
Qed.

Lemma p_individual_value (P : Q) (cnt : Z) :
  (0 < cnt)%Z -> p_individual NumQ P cnt == P / inject_Z cnt.
Proof.
  intro H. unfold p_individual. destruct (cnt =? 0)%Z eqn:E; [lia|].
  simpl. destruct (Qeq_bool (P / inject_Z cnt) 0) eqn:E2.
  - apply Qeq_bool_eq in E2. now rewrite E2.
  - reflexivity.
Qed.

(** mass requested by the classes that occur in the window, and number of window rows *)
Definition present_mass (pcs : list (Q * Z)) : Q :=
  fold_right (fun pc acc => (if (0 <? snd pc)%Z then fst pc else 0) + acc) 0 pcs.
Definition total_count (pcs : list (Q * Z)) : Z :=
  fold_right (fun pc acc => (Z.max 0 (snd pc) + acc)%Z) 0%Z pcs.

Lemma qsum_p_blocks pcs : qsum (p_blocks NumQ pcs) == present_mass pcs.
Proof.
  induction pcs as [|[P cnt] pcs IH]; simpl.
  - reflexivity.
  - unfold p_blocks in *. simpl. rewrite qsum_app, IH, qsum_repeat.
    destruct (0 <? cnt)%Z eqn:E.
    + rewrite p_individual_value by lia. rewrite Z2Nat.id by lia.
      field. apply inject_Z_nonzero. lia.
    + replace (Z.to_nat cnt) with 0%nat by lia. simpl. ring.
Qed.

Lemma len_p_blocks pcs : len (p_blocks NumQ pcs) = total_count pcs.
Proof.
  unfold len. induction pcs as [|[P cnt] pcs IH]; simpl; auto.
  unfold p_blocks in *. simpl in *. rewrite app_length, repeat_length, Nat2Z.inj_add, IH. lia.
Qed.

Lemma p_leftover_value pcs :
  p_leftover NumQ (p_blocks NumQ pcs) == (1 - present_mass pcs) / inject_Z (total_count pcs).
Proof.
  unfold p_leftover. simpl. change (pysum NumQ (p_blocks NumQ pcs)) with (qsum (p_blocks NumQ pcs)).
  rewrite qsum_p_blocks, len_p_blocks. reflexivity.
Qed.

(** the mass of the block of a class that occurs [cnt > 0] times in the window *)
Lemma block_mass pcs P cnt :
  (0 < cnt)%Z ->
  let lo := p_leftover NumQ (p_blocks NumQ pcs) in
  qsum (repeat (p_individual NumQ P cnt + lo) (Z.to_nat cnt)) == P + inject_Z cnt * lo.
Proof.
  intro H. cbv zeta. rewrite qsum_repeat, Z2Nat.id by lia.
  rewrite p_individual_value by lia. field. apply inject_Z_nonzero. lia.
Qed.

Lemma block_mass_exact pcs P cnt :
  (0 < cnt)%Z -> present_mass pcs == 1 ->
  let lo := p_leftover NumQ (p_blocks NumQ pcs) in
  lo == 0 /\ qsum (repeat (p_individual NumQ P cnt + lo) (Z.to_nat cnt)) == P.
Proof.
  intros H H1. cbv zeta.
  assert (L : p_leftover NumQ (p_blocks NumQ pcs) == 0).
  { rewrite p_leftover_value, H1. unfold Qdiv. ring. }
  split; auto. rewrite block_mass by auto. rewrite L. ring.
Qed.

(** ** the clamp: never a negative probability; the identity on a legal request *)
Lemma pymax_Q_nonneg (a : Q) : 0 <= pymax (N := NumQ) a 0.
Proof.
  unfold pymax. simpl. destruct (Qle_bool 0 a) eqn:E; simpl.
  - now apply Qle_bool_iff.
  - apply Qle_refl.
Qed.

Lemma pymax_Q_id (a : Q) : 0 <= a -> pymax (N := NumQ) a 0 = a.
Proof.
  intro H. unfold pymax. simpl. apply Qle_bool_iff in H. now rewrite H.
Qed.

Lemma p_final_nonneg (pcs : list (Q * Z)) : Forall (fun x => 0 <= x) (p_final NumQ pcs).
Proof.
  unfold p_final. apply Forall_forall. intros x Hx. apply in_map_iff in Hx as [y [<- _]].
  apply pymax_Q_nonneg.
Qed.

Definition requests_nonneg (pcs : list (Q * Z)) : Prop := Forall (fun pc => 0 <= fst pc) pcs.

Lemma p_individual_nonneg P cnt : 0 <= P -> (0 <= cnt)%Z -> 0 <= p_individual NumQ P cnt.
Proof.
  intros HP Hc. unfold p_individual. destruct (cnt =? 0)%Z eqn:E; [apply Qle_refl|].
  simpl. destruct (Qeq_bool (P / inject_Z cnt) 0); [apply Qle_refl|].
  apply Qle_shift_div_l.
  - change 0 with (inject_Z 0). rewrite <- Zlt_Qlt. lia.
  - now rewrite Qmult_0_l.
Qed.

Lemma p_blocks_nonneg pcs : requests_nonneg pcs -> Forall (fun x => 0 <= x) (p_blocks NumQ pcs).
Proof.
  unfold requests_nonneg, p_blocks. induction pcs as [|[P cnt] pcs IH]; intro H; simpl.
  - constructor.
  - inversion H; subst. apply Forall_app. split; [|auto].
    apply Forall_forall. intros x Hx.
    destruct (Z_le_dec 0 cnt).
    + apply repeat_spec in Hx. subst x. now apply p_individual_nonneg.
    + exfalso. replace (Z.to_nat cnt) with 0%nat in Hx by lia. exact Hx.
Qed.

Lemma total_count_nonneg pcs : (0 <= total_count pcs)%Z.
Proof. induction pcs as [|[P cnt] pcs IH]; simpl; lia. Qed.

Lemma p_leftover_nonneg pcs :
  present_mass pcs <= 1 -> 0 <= p_leftover NumQ (p_blocks NumQ pcs).
Proof.
  intro H. rewrite p_leftover_value. unfold Qdiv. apply Qmult_le_0_compat.
  - unfold Qminus. now rewrite <- Qle_minus_iff.
  - apply Qinv_le_0_compat. change 0 with (inject_Z 0). rewrite <- Zle_Qle. apply total_count_nonneg.
Qed.

Lemma p_final_unclamped pcs :
  requests_nonneg pcs -> present_mass pcs <= 1 -> p_final NumQ pcs = p_unclamped pcs.
Proof.
  intros H1 H2. unfold p_final, p_unclamped. apply map_ext_in. intros x Hx.
  apply pymax_Q_id.
  assert (Hn := p_blocks_nonneg pcs H1). rewrite Forall_forall in Hn.
  assert (Hl := p_leftover_nonneg pcs H2).
  change (0 <= x + p_leftover NumQ (p_blocks NumQ pcs)).
  rewrite <- (Qplus_0_l 0). apply Qplus_le_compat; auto.
Qed.

Lemma p_final_sums_to_one pcs :
  requests_nonneg pcs -> present_mass pcs <= 1 -> p_blocks NumQ pcs <> [] ->
  qsum (p_final NumQ pcs) == 1.
Proof. intros H1 H2 H3. rewrite p_final_unclamped by auto. now apply p_unclamped_sums_to_one. Qed.

Lemma p_final_blocks pcs :
  requests_nonneg pcs -> present_mass pcs <= 1 ->
  let lo := p_leftover NumQ (p_blocks NumQ pcs) in
  p_final NumQ pcs =
  flat_map (fun pc => repeat (p_individual NumQ (fst pc) (snd pc) + lo) (Z.to_nat (snd pc))) pcs.
Proof. intros H1 H2. cbv zeta. rewrite p_final_unclamped by auto. apply p_unclamped_blocks. Qed.

(** ** the table of the real call: blocks of probabilities lie over blocks of pool indices *)
Lemma p_blocks_class_table from to col all cp d :
  p_blocks NumQ (class_table NumQ from to col all cp d) =
  flat_map (fun c => repeat (p_individual NumQ (match lookup NumQ c cp with Some v => v | None => 0 end)
                                          (len (cls_idx Qeq_bool 0 from to col c d)))
                            (length (cls_idx Qeq_bool 0 from to col c d))) all.
Proof.
  unfold p_blocks, class_table. induction all as [|c all IH]; [reflexivity|].
  cbn [map flat_map fst snd]. rewrite IH. unfold len. now rewrite Nat2Z.id.
Qed.

Lemma length_p_blocks_class_table from to col all cp d :
  length (p_blocks NumQ (class_table NumQ from to col all cp d)) =
  length (grouped Qeq_bool 0 from to col all d).
Proof.
  rewrite p_blocks_class_table. unfold grouped.
  induction all as [|c all IH]; [reflexivity|].
  cbn [flat_map]. rewrite !app_length, repeat_length. now rewrite IH.
Qed.

(** ** dictionary completion *)
Lemma lookup_app k (a b : dict NumQ) :
  lookup NumQ k (a ++ b) = match lookup NumQ k a with Some v => Some v | None => lookup NumQ k b end.
Proof.
  induction a as [|[k' v] a IH]; simpl; auto. destruct (Qeq_bool k k'); auto.
Qed.

Lemma lookup_const k v (l : list Q) :
  In k l -> lookup NumQ k (map (fun uc => (uc, v)) l) = Some v.
Proof.
  induction l as [|x l IH]; simpl; [tauto|].
  intros [->|H].
  - now rewrite Qeq_bool_refl.
  - destruct (Qeq_bool k x); auto.
Qed.

Lemma pymax0_Q (x : Q) : 0 <= pymax (N := NumQ) 0 x /\ (0 <= x -> pymax (N := NumQ) 0 x == x).
Proof.
  unfold pymax. simpl. destruct (Qle_bool x 0) eqn:E; simpl.
  - split; [apply Qle_refl|]. intro H. apply Qle_bool_iff in E. now apply Qle_antisym.
  - split; [|reflexivity]. destruct (Qlt_le_dec 0 x) as [L|L]; [now apply Qlt_le_weak|].
    apply Qle_bool_iff in L. congruence.
Qed.

Lemma fill_probabilities_spec (tol : Q) (all : list Q) (cp cp' : dict NumQ) :
  fill_probabilities NumQ tol all cp = Some cp' ->
  let undef := undefined_classes NumQ all cp in
  let missing := pymax (N := NumQ) 0 (1 - qsum (map snd cp)) in
  qsum (map snd cp) <= 1 + tol /\
  (forall k v, In (k, v) cp -> exists c, In c all /\ k == c) /\
  (forall k v, lookup NumQ k cp = Some v -> lookup NumQ k cp' = Some v) /\
  (forall k, In k undef -> lookup NumQ k cp' = Some (missing / inject_Z (len undef))) /\
  0 <= missing /\ (qsum (map snd cp) <= 1 -> missing == 1 - qsum (map snd cp)).
Proof.
  unfold fill_probabilities. cbv zeta. simpl.
  change (pysum NumQ (map snd cp)) with (qsum (map snd cp)).
  destruct (negb (Qle_bool (qsum (map snd cp)) (1 + tol))) eqn:E1; [discriminate|].
  destruct (negb (forallb (fun kv : Q * Q => existsb (Qeq_bool (fst kv)) all) cp)) eqn:E2; [discriminate|].
  intro H. injection H as <-. repeat split.
  - apply Qle_bool_iff. now apply negb_false_iff in E1.
  - intros k v Hin. apply negb_false_iff in E2. rewrite forallb_forall in E2.
    specialize (E2 _ Hin). simpl in E2. apply existsb_exists in E2 as [c [H1 H2]].
    exists c. split; auto. now apply Qeq_bool_eq.
  - intros k v Hl. rewrite lookup_app. simpl in Hl. now rewrite Hl.
  - intros k Hk. rewrite lookup_app.
    assert (Hn : lookup NumQ k cp = None).
    { unfold undefined_classes in Hk. apply filter_In in Hk as [_ Hk]. unfold has_key in Hk.
      now destruct (lookup NumQ k cp). }
    rewrite Hn. now apply lookup_const.
  - apply pymax0_Q.
  - intro Hs. apply pymax0_Q. unfold Qminus. now rewrite <- Qle_minus_iff.
Qed.
