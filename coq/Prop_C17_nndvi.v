(** C17, NN-DVI part - a smaller alpha never moves the first reported drift to an earlier batch.
    Statements only (proofs: Mono_C10.v).  Run 1 = looser (larger alpha), run 2 = stricter.  Same
    history and seed schedule means: the same batch list, the same adjacency oracles and - while
    both runs hold the same reference - the same permutation distances, hence the same fitted
    (mu, sigma); only the quantile level differs.  The threshold oracle is consumed per batch, so
    the two input lists are related element-wise by [in_rel]. *)
From MV Require Import Base Lifecycle Lifecycle_Mono Nnsp Mono_C10.
From Coq Require Import QArith.
Open Scope Z_scope.

(** [theta_le t1 t2]: both numbers with t1 <= t2, or t2 = NaN ([None]; a NaN threshold never lets
    the stricter run drift).  Looser NaN / stricter number is excluded (cannot arise from one fit,
    see C17_nndvi_threshold_oracle). *)
Theorem C17_nndvi_first_drift_monotone :
  forall (ref0 : list point) (xs1 xs2 : list nndvi_in),
  Forall2 (fun x1 x2 => in_test x1 = in_test x2 /\ in_adj x1 = in_adj x2 /\
                        theta_le (in_theta x1) (in_theta x2)) xs1 xs2 ->
  opt_le (first_drift (trace (init NNDVI ref0) xs1)) (first_drift (trace (init NNDVI ref0) xs2)).
Proof. intros ref0 xs1 xs2 H. exact (nndvi_first_drift_monotone xs1 xs2 H (init NNDVI ref0)). Qed.

(** the same from any common state (any earlier history, also one that ended in a drift) *)
Theorem C17_nndvi_first_drift_monotone_any_state :
  forall (s : st NNDVI) (xs1 xs2 : list nndvi_in), Forall2 in_rel xs1 xs2 ->
  opt_le (first_drift (trace s xs1)) (first_drift (trace s xs2)).
Proof. intros s xs1 xs2 H. exact (nndvi_first_drift_monotone xs1 xs2 H s). Qed.

(** before the looser run's first drift the observable traces coincide: drift state, counters
    and the reference batch after each of the first k updates, k = index of the looser run's first
    drift (all updates if it never reports one) *)
Theorem C17_nndvi_same_until_first_drift :
  forall (s : st NNDVI) (xs1 xs2 : list nndvi_in), Forall2 in_rel xs1 xs2 ->
  let k := match first_drift (trace s xs1) with Some k => k | None => length xs1 end in
  firstn k (rtrace s xs2) = firstn k (rtrace s xs1).
Proof. intros s xs1 xs2 H. exact (nndvi_same_until_first_drift xs1 xs2 H s). Qed.

(** oracle side: from one normal fit (mu, sigma) the threshold mu + sigma * z(1 - alpha) (NaN when
    sigma is not positive, for every alpha) is ordered as [theta_le] requires, PROVIDED the
    standard-normal quantile function z is monotone - an explicit hypothesis: scipy's norm.ppf is
    an oracle of the model *)
Theorem C17_nndvi_threshold_oracle : forall (z : Q -> Q),
  (forall p q, (p <= q)%Q -> (z p <= z q)%Q) ->
  forall mu sigma alpha1 alpha2 : Q, (alpha2 <= alpha1)%Q ->
  theta_le (theta_of z mu sigma alpha1) (theta_of z mu sigma alpha2) /\
  ((0 <= sigma)%Q -> (mu + sigma * z (1 - alpha1) <= mu + sigma * z (1 - alpha2))%Q).
Proof.
  intros z Hz mu sigma a1 a2 Ha. split; [exact (theta_of_monotone z Hz mu sigma a1 a2 Ha)|].
  intros Hs. exact (quantile_monotone z Hz mu sigma a1 a2 Hs Ha).
Qed.

(** the hypotheses are satisfiable and the conclusion is not vacuous: one batch, looser threshold
    (distance 1) - the looser threshold 1/10 drifts at once, the stricter thresholds 1 and NaN never do *)
Example C17_nndvi_example :
  let A := [[1; 1; 0; 0]; [1; 1; 0; 0]; [0; 0; 1; 1]; [0; 0; 1; 1]] in
  let x1 : nndvi_in := ([[10]; [11]], A, Some (1 # 10)%Q) in
  let x2 : nndvi_in := ([[10]; [11]], A, Some 1%Q) in
  in_rel x1 x2 /\ knn_ok 2 (build_D [[0]; [1]] [[10]; [11]]) A = true /\
  first_drift (trace (init NNDVI [[0]; [1]]) [x1]) = Some O /\
  first_drift (trace (init NNDVI [[0]; [1]]) [x2; x2]) = None /\
  in_rel x1 (in_test x2, A, None) /\
  first_drift (trace (init NNDVI [[0]; [1]]) [x2; (in_test x2, A, None)]) = None.
Proof. vm_compute. repeat split; discriminate. Qed.

Print Assumptions C17_nndvi_first_drift_monotone.
Print Assumptions C17_nndvi_first_drift_monotone_any_state.
Print Assumptions C17_nndvi_same_until_first_drift.
Print Assumptions C17_nndvi_threshold_oracle.
