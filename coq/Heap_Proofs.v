(** Lemmas about the aliasing model Heap.v (C15).  Everything is structural: induction over action
    lists and event lists, case analysis on container kinds; no axioms. *)
From MV Require Import Base Heap.
From Coq Require Import Arith.
Local Open Scope nat_scope.

(** * lists *)
Lemma set_nth_map {B C : Type} (f : B -> C) n x l : map f (set_nth n x l) = set_nth n (f x) (map f l).
Proof.
  revert n; induction l as [|y l IH]; intros [|n]; simpl; try reflexivity. now rewrite IH.
Qed.

Lemma forallb_set_nth {B : Type} (p : B -> bool) n x l :
  forallb p l = true -> p x = true -> forallb p (set_nth n x l) = true.
Proof.
  revert n; induction l as [|y l IH]; intros [|n] Hl Hx; simpl in *; try reflexivity.
  - apply andb_true_iff in Hl as [_ Hl]. now rewrite Hx, Hl.
  - apply andb_true_iff in Hl as [Hy Hl]. rewrite Hy. simpl. now apply IH.
Qed.

Lemma forallb_nth {B : Type} (p : B -> bool) n l d :
  forallb p l = true -> p d = true -> p (nth n l d) = true.
Proof.
  revert n; induction l as [|y l IH]; intros [|n] Hl Hd; simpl in *; try assumption.
  - now apply andb_true_iff in Hl as [Hy _].
  - apply andb_true_iff in Hl as [_ Hl]. now apply IH.
Qed.

Lemma forallb_app' {B : Type} (p : B -> bool) l1 l2 :
  forallb p (l1 ++ l2) = forallb p l1 && forallb p l2.
Proof. induction l1 as [|x l1 IH]; simpl; [reflexivity|]. now rewrite IH, andb_assoc. Qed.

Section Proofs.
Context {A : Type}.
Notation value := (@value A).
Notation heap := (@heap A).
Notation datum := (@datum A).
Notation action := (@action A).
Notation detector := (@detector A).
Notation event := (@event A).

(** * heap *)
Lemma length_write (h : heap) l v : length (write h l v) = length h.
Proof. revert l; induction h as [|x h IH]; intros [|l]; simpl; try reflexivity. now rewrite IH. Qed.

Lemma read_write_same (h : heap) l v : l < length h -> read (write h l v) l = v.
Proof.
  unfold read. revert l; induction h as [|x h IH]; intros [|l] H; simpl in *; try lia; try reflexivity.
  apply IH. lia.
Qed.

Lemma read_write_other (h : heap) l l' v : l <> l' -> read (write h l v) l' = read h l'.
Proof.
  unfold read. revert l l'; induction h as [|x h IH]; intros [|l] [|l'] H; simpl; try reflexivity; try congruence.
  apply IH. congruence.
Qed.

Lemma write_out_of_range (h : heap) l v : length h <= l -> write h l v = h.
Proof.
  revert l; induction h as [|x h IH]; intros [|l] H; simpl in *; try reflexivity; try lia.
  rewrite IH; [reflexivity | lia].
Qed.

Lemma read_app_old (h t : heap) l : l < length h -> read (h ++ t) l = read h l.
Proof. intros H. unfold read. now rewrite app_nth1. Qed.

Lemma read_app_new (h : heap) v : read (h ++ [v]) (length h) = v.
Proof. unfold read. rewrite app_nth2 by lia. now rewrite Nat.sub_diag. Qed.

Lemma write_app_new (h : heap) x v : write (h ++ [x]) (length h) v = h ++ [v].
Proof. induction h as [|y h IH]; simpl; [reflexivity|]. now rewrite IH. Qed.

Lemma firstn_app_exact (h t : heap) : firstn (length h) (h ++ t) = h.
Proof. rewrite firstn_app, Nat.sub_diag, firstn_all. simpl. now rewrite app_nil_r. Qed.

(** * views *)
Definition vals (sl : list (list datum)) : list (list value) := derefs [] sl.

Definition copies (ds : list datum) : bool := forallb (fun d => negb (is_view d)) ds.

Lemma deref_copy h h' (d : datum) : is_view d = false -> deref h d = deref h' d.
Proof. destruct d; simpl; [reflexivity | discriminate]. Qed.

Lemma copies_deref h h' (ds : list datum) : copies ds = true -> map (deref h) ds = map (deref h') ds.
Proof.
  induction ds as [|d ds IH]; simpl; [reflexivity|]. intros H. apply andb_true_iff in H as [Hd Hs].
  rewrite (deref_copy h h' d), IH; auto. now apply negb_true_iff.
Qed.

Lemma no_view_derefs h h' (sl : list (list datum)) : no_view sl = true -> derefs h sl = derefs h' sl.
Proof.
  unfold derefs, no_view. induction sl as [|ds sl IH]; simpl; [reflexivity|]. intros H.
  apply andb_true_iff in H as [Hd Hs]. rewrite (copies_deref h h' ds Hd), IH; auto.
Qed.

Lemma nth_derefs h (sl : list (list datum)) s : nth s (derefs h sl) [] = map (deref h) (nth s sl []).
Proof. unfold derefs. change (@nil value) with (map (deref h) []). apply map_nth. Qed.

Lemma no_view_repeat n : no_view (repeat (@nil datum) n) = true.
Proof. unfold no_view. induction n; simpl; auto. Qed.

Lemma vals_repeat n : vals (repeat [] n) = repeat [] n.
Proof. unfold vals, derefs. induction n; simpl; [reflexivity|]. now rewrite IHn. Qed.

(** what is shown later does not depend on the heap, hence on nothing the caller does *)
Lemma out_stable (D : detector) (st : state D) h h' :
  no_view (st_slots st) = true -> out D st h = out D st h'.
Proof. intros H. unfold out. now rewrite (no_view_derefs h h'). Qed.

(** * one action *)
Lemma origin_fresh_never_view c k : origin_is_view c k OFresh = false.
Proof. reflexivity. Qed.

Lemma source_copy c k (h : heap) l s :
  source_is_view c k s = false -> source_datum c k h l s = Copy (source_value (read h l) s).
Proof. intros H. unfold source_datum. now rewrite H. Qed.

Lemma apply_safe c k l (sl : list (list datum)) (h : heap) (a : action) :
  action_safe c k a = true -> no_view sl = true ->
  snd (apply_action c k l (sl, h) a) = h /\
  no_view (fst (apply_action c k l (sl, h) a)) = true /\
  vals (fst (apply_action c k l (sl, h) a)) = pure_apply (read h l) (vals sl) a.
Proof.
  intros Ha Hn. destruct a as [s src | s src | s | v]; simpl in *; try discriminate.
  - apply negb_true_iff in Ha. rewrite (source_copy c k h l src Ha).
    split; [reflexivity|]. split.
    + unfold no_view. apply forallb_set_nth; [exact Hn | reflexivity].
    + unfold vals, derefs. now rewrite set_nth_map.
  - apply negb_true_iff in Ha. rewrite (source_copy c k h l src Ha).
    split; [reflexivity|]. split.
    + unfold no_view. apply forallb_set_nth; [exact Hn|].
      rewrite forallb_app'. simpl. rewrite andb_true_r.
      apply (forallb_nth (forallb (fun d : datum => negb (is_view d))) s sl []); [exact Hn | reflexivity].
    + unfold vals at 1. unfold derefs. rewrite set_nth_map, map_app. simpl.
      fold (derefs [] sl). rewrite <- nth_derefs. reflexivity.
  - split; [reflexivity|]. split.
    + unfold no_view. apply forallb_set_nth; [exact Hn | reflexivity].
    + unfold vals, derefs. now rewrite set_nth_map.
Qed.

Lemma fold_safe c k l (acts : list action) : forall (sl : list (list datum)) (h : heap),
  forallb (action_safe c k) acts = true -> no_view sl = true ->
  snd (fold_left (apply_action c k l) acts (sl, h)) = h /\
  no_view (fst (fold_left (apply_action c k l) acts (sl, h))) = true /\
  vals (fst (fold_left (apply_action c k l) acts (sl, h))) = fold_left (pure_apply (read h l)) acts (vals sl).
Proof.
  induction acts as [|a acts IH]; intros sl h Ha Hn.
  - simpl. auto.
  - simpl in Ha. apply andb_true_iff in Ha as [Ha Hs].
    destruct (apply_safe c k l sl h a Ha Hn) as (E1 & E2 & E3).
    cbn [fold_left].
    destruct (apply_action c k l (sl, h) a) as [sl1 h1] eqn:E. cbn [fst snd] in E1, E2, E3. subst h1.
    destruct (IH sl1 h Hs E2) as (F1 & F2 & F3). rewrite F1, F2, F3, E3. auto.
Qed.

(** * one call *)
Lemma call_safe c (D : detector) (st : state D) (h : heap) m k l :
  forallb (action_safe c k) (call_actions D st h m l) = true ->
  no_view (st_slots st) = true ->
  snd (call c D st h m k l) = h /\
  no_view (st_slots (fst (call c D st h m k l))) = true /\
  (st_p (fst (call c D st h m k l)), vals (st_slots (fst (call c D st h m k l))))
  = pure_call D (st_p st, vals (st_slots st)) (m, read h l).
Proof.
  intros Ha Hn. unfold call, call_actions, pure_call in *.
  destruct (accepts D m (st_p st) (read h l)); [|simpl; auto].
  replace (vals (st_slots st)) with (derefs h (st_slots st)) by (apply no_view_derefs; exact Hn).
  destruct (sites D m (st_p st) (derefs h (st_slots st)) (read h l)) as [p' acts]. cbn [snd] in Ha.
  destruct (fold_safe c k l acts (st_slots st) h Ha Hn) as (F1 & F2 & F3).
  destruct (fold_left (apply_action c k l) acts (st_slots st, h)) as [sl' h']. cbn [fst snd st_p st_slots] in *.
  rewrite F3. replace (vals (st_slots st)) with (derefs h (st_slots st)) by (apply no_view_derefs; exact Hn).
  auto.
Qed.

Lemma static_actions_safe c K (D : detector) (st : state D) (h : heap) m k l :
  stores_only_copies c K D -> K k = true -> forallb (action_safe c k) (call_actions D st h m l) = true.
Proof.
  intros S Hk. unfold call_actions. destruct (accepts D m (st_p st) (read h l)); [|reflexivity]. now apply S.
Qed.

(** * histories *)
Lemma clean_noninterference c (D : detector) (evs : list event) : forall (st : state D) (h : heap),
  no_view (st_slots st) = true -> clean_run c D st h evs ->
  trace c D st h evs = pure_trace D (st_p st, vals (st_slots st)) (handed h evs) /\
  snd (final c D st h evs) = caller_heap h evs /\
  no_view (st_slots (fst (final c D st h evs))) = true.
Proof.
  induction evs as [|e evs IH]; intros st h Hn Hc; simpl.
  - auto.
  - destruct e as [m k l | l v | v]; simpl in Hc.
    + destruct Hc as [Ha Hc].
      destruct (call_safe c D st h m k l Ha Hn) as (E1 & E2 & E3).
      destruct (call c D st h m k l) as [st' h'] eqn:E. simpl in *. subst h'.
      destruct (IH st' h E2 Hc) as (T1 & T2 & T3). rewrite T1, T2, T3, <- E3. simpl.
      split; [|auto]. f_equal. unfold out. now rewrite (no_view_derefs h [] _ E2).
    + apply IH; assumption.
    + apply IH; assumption.
Qed.

Lemma static_clean c K (D : detector) (evs : list event) : forall (st : state D) (h : heap),
  stores_only_copies c K D -> forallb (event_kind_ok K) evs = true ->
  no_view (st_slots st) = true -> clean_run c D st h evs.
Proof.
  induction evs as [|e evs IH]; intros st h S Hk Hn; simpl; [exact I|].
  simpl in Hk. apply andb_true_iff in Hk as [Hk Hks].
  destruct e as [m k l | l v | v]; simpl in *.
  - pose proof (static_actions_safe c K D st h m k l S Hk) as Ha. split; [exact Ha|].
    destruct (call_safe c D st h m k l Ha Hn) as (_ & E2 & _). now apply IH.
  - now apply IH.
  - now apply IH.
Qed.

Lemma forallb_all_kinds (evs : list event) : forallb (event_kind_ok all_kinds) evs = true.
Proof. induction evs as [|[m k l | l v | v] evs IH]; simpl; auto. Qed.

Lemma static_noninterference c K (D : detector) (evs : list event) (h : heap) :
  stores_only_copies c K D -> forallb (event_kind_ok K) evs = true ->
  trace c D (init D) h evs = pure_trace D (pure_init D) (handed h evs) /\
  snd (final c D (init D) h evs) = caller_heap h evs.
Proof.
  intros S Hk.
  assert (Hn : no_view (st_slots (init D)) = true) by apply no_view_repeat.
  destruct (clean_noninterference c D evs (init D) h Hn (static_clean c K D evs (init D) h S Hk Hn)) as (T1 & T2 & _).
  split; [|exact T2]. rewrite T1. unfold pure_init. simpl. now rewrite vals_repeat.
Qed.

(** no call writes a caller cell *)
Lemma call_frame c K (D : detector) (st : state D) (h : heap) m k l :
  stores_only_copies c K D -> K k = true -> no_view (st_slots st) = true ->
  snd (call c D st h m k l) = h.
Proof.
  intros S Hk Hn. exact (proj1 (call_safe c D st h m k l (static_actions_safe c K D st h m k l S Hk) Hn)).
Qed.

(** * the private-copy twin *)
Lemma privatize_handed (evs : list event) : forall (h h2 : heap),
  handed h2 (privatize h (length h2) evs) = handed h evs.
Proof.
  induction evs as [|[m k l | l v | v] evs IH]; intros h h2; simpl; auto.
  rewrite read_app_new. f_equal.
  replace (S (length h2)) with (length (h2 ++ [read h l])) by (rewrite app_length; simpl; lia).
  apply IH.
Qed.

Lemma privatize_kinds K (evs : list event) : forall (h : heap) n,
  forallb (event_kind_ok K) (privatize h n evs) = forallb (event_kind_ok K) evs.
Proof. induction evs as [|[m k l | l v | v] evs IH]; intros h n; simpl; auto. now rewrite IH. Qed.

(** the twin never writes: its events are allocations and calls only *)
Definition is_write (e : event) : bool := match e with EWrite _ _ => true | _ => false end.
Lemma privatize_no_write (evs : list event) : forall (h : heap) n,
  existsb is_write (privatize h n evs) = false.
Proof. induction evs as [|[m k l | l v | v] evs IH]; intros h n; simpl; auto. Qed.

Lemma twin_equal c K (D : detector) (evs : list event) (h h2 : heap) :
  stores_only_copies c K D -> forallb (event_kind_ok K) evs = true ->
  trace c D (init D) h evs = trace c D (init D) h2 (privatize h (length h2) evs).
Proof.
  intros S Hk.
  rewrite (proj1 (static_noninterference c K D evs h S Hk)).
  rewrite (proj1 (static_noninterference c K D (privatize h (length h2) evs) h2 S
                    (eq_trans (privatize_kinds K evs h (length h2)) Hk))).
  now rewrite privatize_handed.
Qed.

(** * the storing sites of the library *)
Definition copy_kinds (c : code) (k : kind) : bool := negb (validate_is_view c k).

Lemma validate_copies_all c k : df_validate_copies c = true -> validate_is_view c k = false.
Proof. intros H. unfold validate_is_view. rewrite H. simpl. now rewrite andb_false_r. Qed.

Lemma frame_of_validated_safe c k : validate_is_view c k = false -> origin_is_view c k OFrameOfValidated = false.
Proof. intros H. simpl. rewrite H. apply andb_false_r. Qed.

Ltac sites_tac :=
  repeat match goal with
         | |- context [let '(_, _) := ?e in _] => destruct e
         | |- context [match ?e with _ => _ end] => destruct e
         end; simpl; auto.

Section Sites.
Variable c : code.
Variables (P O : Type) (p0 : P).
Variable ok : method -> P -> value -> bool.
Variable show : P -> list (list value) -> O.

Lemma nndvi_safe f g : stores_only_copies c (copy_kinds c) (nndvi P O p0 ok show f g).
Proof.
  intros m p sl x k Hk. unfold copy_kinds in Hk. apply negb_true_iff in Hk.
  destruct m; simpl.
  - destruct (g p (one sl 0) x) as [[|] p']; reflexivity.
  - unfold source_is_view. simpl. now rewrite Hk.
  - reflexivity.
Qed.

Lemma hdm_safe f g : stores_only_copies c (copy_kinds c) (hdm P O p0 ok show f g).
Proof.
  intros m p sl x k Hk. unfold copy_kinds in Hk. apply negb_true_iff in Hk.
  destruct m; simpl.
  - destruct (g p (one sl 0) x) as [[|] p']; simpl; [|reflexivity].
    unfold source_is_view. simpl origin_of. now rewrite (frame_of_validated_safe c k Hk).
  - destruct (f p x); reflexivity.
  - reflexivity.
Qed.

Lemma kdq_streaming_safe g K : stores_only_copies c K (kdq_streaming P O p0 ok show g).
Proof.
  intros m p sl x k _. destruct m; simpl; try reflexivity.
  destruct (g p (one sl 0) x) as [[| |] p']; reflexivity.
Qed.

Lemma kdq_batch_safe f g K : stores_only_copies c K (kdq_batch P O p0 ok show f g).
Proof.
  intros m p sl x k _. destruct m; simpl; try reflexivity.
  destruct (g p (one sl 1) x) as [[[|] [|]] p']; reflexivity.
Qed.

Lemma pcacd_safe g K : stores_only_copies c K (pcacd P O p0 ok show g).
Proof.
  intros m p sl x k _. destruct m; simpl; try reflexivity.
  destruct (g p (one sl 0) (one sl 1) x) as [[p' r] t]; reflexivity.
Qed.

Lemma cusum_safe g : stores_only_copies c (copy_kinds c) (cusum P O p0 ok show g).
Proof.
  intros m p sl x k Hk. unfold copy_kinds in Hk. apply negb_true_iff in Hk.
  destruct m; simpl; try reflexivity. unfold source_is_view. simpl. now rewrite Hk.
Qed.

Lemma page_hinkley_safe g : stores_only_copies c (copy_kinds c) (page_hinkley P O p0 ok show g).
Proof.
  intros m p sl x k Hk. unfold copy_kinds in Hk. apply negb_true_iff in Hk.
  destruct m; simpl; try reflexivity.
  destruct (g p x) as [[|] p']; simpl; unfold source_is_view; simpl; now rewrite Hk.
Qed.

Lemma scalar_safe g K : stores_only_copies c K (scalar_detector P O p0 ok show g).
Proof. intros m p sl x k _. destruct m; reflexivity. Qed.

Lemma md3_safe ft tg f g lab K :
  md3_oracle_copies c = true -> stores_only_copies c K (md3 c P O p0 ok show ft tg f g lab).
Proof.
  intros Hc m p sl x k _. destruct m; simpl; try reflexivity.
  rewrite Hc. destruct (lab p (one sl 2 ++ x)) as [[|] p']; destruct (nth 2 sl []); reflexivity.
Qed.

(** without the copy at the oracle site: every other site of MD3 is safe *)
Lemma md3_other_sites_safe ft tg f g lab m p sl x k :
  m <> MOracle ->
  forallb (action_safe c k) (snd (sites (md3 c P O p0 ok show ft tg f g lab) m p sl x)) = true.
Proof. intros Hm. destruct m; simpl; try reflexivity. congruence. Qed.

(** ... and so are the oracle calls that find rows already stored (pd.concat) *)
Lemma md3_oracle_next_safe ft tg f g lab p sl x k :
  nth 2 sl [] <> [] ->
  forallb (action_safe c k) (snd (sites (md3 c P O p0 ok show ft tg f g lab) MOracle p sl x)) = true.
Proof.
  intros Hs. simpl. destruct (lab p (one sl 2 ++ x)) as [[|] p']; destruct (nth 2 sl []); try congruence; reflexivity.
Qed.
End Sites.

(** * ensembles *)
Lemma shift_action_safe c k n (a : action) : action_safe c k (shift_action n a) = action_safe c k a.
Proof. destruct a; reflexivity. Qed.

Lemma forallb_shift c k n (a : list action) :
  forallb (action_safe c k) (map (shift_action n) a) = forallb (action_safe c k) a.
Proof. induction a as [|x a IH]; simpl; [reflexivity|]. now rewrite shift_action_safe, IH. Qed.

Lemma ensemble_safe c K (D1 D2 : detector) E elect :
  stores_only_copies c K D1 -> stores_only_copies c K D2 ->
  stores_only_copies c K (ensemble D1 D2 E elect).
Proof.
  intros S1 S2 m p sl x k Hk. simpl.
  pose proof (S1 m (fst p) (firstn (nslots D1) sl) x k Hk) as H1.
  pose proof (S2 m (snd p) (skipn (nslots D1) sl) x k Hk) as H2.
  destruct (accepts D1 m (fst p) x); destruct (accepts D2 m (snd p) x);
    destruct (sites D1 m (fst p) (firstn (nslots D1) sl) x) as [p1 a1];
    destruct (sites D2 m (snd p) (skipn (nslots D1) sl) x) as [p2 a2]; simpl in *;
    rewrite ?forallb_app', ?forallb_shift, ?H1, ?H2; reflexivity.
Qed.

(** weakening of the container filter *)
Lemma stores_only_copies_weaken c (K K' : kind -> bool) (D : detector) :
  (forall k, K' k = true -> K k = true) -> stores_only_copies c K D -> stores_only_copies c K' D.
Proof. intros HK S m p sl x k Hk. apply S. now apply HK. Qed.

Lemma copy_kinds_all c : df_validate_copies c = true -> forall k, all_kinds k = true -> copy_kinds c k = true.
Proof. intros H k _. unfold copy_kinds. now rewrite validate_copies_all. Qed.

(** * injectors *)
Lemma inject_spec c f k (h : heap) l l' k' h' :
  inj_preprocess_copies c = true -> inject c f k h l = Some (l', k', h') ->
  l' = length h /\ h' = h ++ [f (read h l)] /\ container_of k' = container_of k /\
  container_of k <> COther.
Proof.
  intros Hc. unfold inject, inject_kind. rewrite Hc.
  destruct (container_of k) eqn:Ek; intros E; inversion E; subst; clear E; simpl;
    rewrite read_app_new, write_app_new; repeat split; congruence.
Qed.

Lemma inject_refuses c f k (h : heap) l : container_of k = COther -> inject c f k h l = None.
Proof. intros H. unfold inject, inject_kind. now rewrite H. Qed.

Lemma inject_frame c f k (h : heap) l l' k' h' :
  inj_preprocess_copies c = true -> inject c f k h l = Some (l', k', h') ->
  ~ l' < length h /\ firstn (length h) h' = h /\ (forall j, j < length h -> read h' j = read h j) /\
  (l < length h -> l' <> l /\ read h' l = read h l) /\ read h' l' = f (read h l).
Proof.
  intros Hc E. destruct (inject_spec c f k h l l' k' h' Hc E) as (E1 & E2 & _). subst.
  split; [lia|]. split; [apply firstn_app_exact|]. split; [intros j Hj; now apply read_app_old|].
  split; [intros Hl; split; [lia | now apply read_app_old] | apply read_app_new].
Qed.

Lemma inject_with_dict_frame c f g k (h : heap) l ld l' k' h' :
  inj_preprocess_copies c = true -> inj_dict_copies c = true ->
  inject_with_dict c f g k h l ld = Some (l', k', h') ->
  l' = length h /\ firstn (length h) h' = h /\ read h' l' = f (g (read h ld)) (read h l).
Proof.
  intros Hc Hd. unfold inject_with_dict. rewrite Hd. intros E.
  destruct (inject_spec c _ k h l l' k' h' Hc E) as (E1 & E2 & _). subst.
  split; [reflexivity|]. split; [apply firstn_app_exact | apply read_app_new].
Qed.

End Proofs.

(** * the checkers say what the models do *)
(** the origin table the harness uses ([site_origin]) is the one of the models above *)
Lemma site_table (A : Type) c (P O : Type) (p0 : P) ok show :
  (forall f g p sl (x : @value A), snd (sites (nndvi P O p0 ok show f g) MSetReference p sl x)
       = [Store 0 SValidated] /\ origin_of (@SValidated A) = site_origin c SiteNndviRef) /\
  (forall g p sl (x : @value A), snd (sites (cusum P O p0 ok show g) MUpdate p sl x)
       = [Push 0 SValidated] /\ origin_of (@SValidated A) = site_origin c SiteCusumStream) /\
  (forall g p sl (x : @value A), In (Push 0 SValidated) (snd (sites (page_hinkley P O p0 ok show g) MUpdate p sl x))
       /\ origin_of (@SValidated A) = site_origin c SitePhScores) /\
  (forall f g p sl (x : @value A), fst (g p (one sl 0) x) = true ->
       snd (sites (hdm P O p0 ok show f g) MUpdate p sl x) = [Store 0 SFrameOfValidated]
       /\ origin_of (@SFrameOfValidated A) = site_origin c SiteHdmAdopted) /\
  (forall ft tg f g lab p sl (x : @value A), nth 2 sl [] = [] ->
       exists s rest, snd (sites (md3 c P O p0 ok show ft tg f g lab) MOracle p sl x) = Store 2 s :: rest
       /\ origin_of s = site_origin c SiteMd3OracleFirst).
Proof.
  split; [|split; [|split; [|split]]].
  - intros; split; reflexivity.
  - intros; split; reflexivity.
  - intros g p sl x. split; [|reflexivity]. simpl. destruct (g p x) as [[|] p']; simpl; auto.
  - intros f g p sl x Hd. simpl. destruct (g p (one sl 0) x) as [d p']. simpl in Hd. subst. split; reflexivity.
  - intros ft tg f g lab p sl x Hs. simpl. rewrite Hs.
    destruct (lab p (one sl 2 ++ x)) as [full p']. simpl.
    eexists _, _. split; [reflexivity|]. destruct (md3_oracle_copies c); reflexivity.
Qed.

Lemma promises_equal_current ds ks : promises_equal current ds ks = true.
Proof.
  unfold promises_equal. apply forallb_forall. intros d _.
  apply forallb_forall. intros s _. apply forallb_forall. intros k _.
  destruct s, k; reflexivity.
Qed.
