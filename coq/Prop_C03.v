(** C03 — ADWIN keeps the statistics of its adaptive window and cuts it by its rule.
    Statements only; proofs in Adwin_Proofs.v.  The theorems hold for every arithmetic instance and
    every value of the log oracle; the exact-arithmetic reading of mean()/variance() is validated by
    the direct check (exact rational recomputation on every step) and stated in DESIGN.md as partial. *)
From MV Require Import Base Num Adwin Adwin_Proofs.

Section C03.
Context {N : Num}.
Variable dpd : Z -> F N.
Variable p : adwin_params.

(** W grows by one per update and shrinks only in an update that reports drift, in which case
    retraining_recs = [total_samples - W, total_samples - 1] for the retained window. *)
Theorem C03_width_and_recs : forall (s : @adwin_st N) x,
  let s' := adwin_update dpd p s x in
  (a_W s' = a_W s + 1 /\ a_ds s' = DNone) \/
  (a_W s' <= a_W s /\ a_ds s' = DDrift /\ a_recs s' = (Some (a_n s' - a_W s'), Some (a_n s' - 1))).
Proof. exact (adwin_width_step dpd p). Qed.

(** Drift is reported exactly when, on a scheduled check with a large enough window, some admissible
    split at a bucket boundary (older part >= and newer part >= subwindow_size_thresh, not the newest
    bucket) has |mean difference| above the epsilon-cut ([found_cut] on the window including the new
    sample). *)
Theorem C03_drift_iff : forall (s : @adwin_st N) x,
  (a_ds (adwin_update dpd p s x) = DDrift ->
     scheduled p (after_add p s x) = true /\ found_cut dpd p (after_add p s x) = true) /\
  (scheduled p (after_add p s x) = true -> found_cut dpd p (after_add p s x) = true ->
     (0 < n_buckets (a_rows (after_add p s x)))%nat -> a_ds (adwin_update dpd p s x) = DDrift).
Proof. intros s x. exact (conj (adwin_drift_only_if dpd p s x) (adwin_drift_if dpd p s x)). Qed.

(** ... the oldest buckets are dropped until no admissible split exceeds the cut of the retained window *)
Theorem C03_post_no_cut : forall (s : @adwin_st N) x,
  let s' := adwin_update dpd p s x in
  scheduled p (after_add p s x) = true -> a_fuel_out s' = false -> found_cut dpd p s' = false.
Proof. exact (adwin_post_no_cut dpd p). Qed.

(** check schedule and minimum window (C01's warm-up clause for ADWIN) *)
Theorem C03_schedule : forall (s : @adwin_st N) x, a_ds (adwin_update dpd p s x) = DDrift ->
  (a_n s + 1) mod a_new_sample_thresh p = 0 /\ a_window_size_thresh p < a_W s + 1.
Proof. exact (adwin_warmup dpd p). Qed.

(** counters, and the update after a drift clears the recommendation *)
Theorem C03_counters : forall (s : @adwin_st N) x,
  a_n (adwin_update dpd p s x) = a_n s + 1 /\
  a_since (adwin_update dpd p s x) = (if is_none (a_ds s) then a_since s + 1 else 1).
Proof. exact (adwin_counters dpd p). Qed.

Theorem C03_recs_cleared : forall (s : @adwin_st N) x, a_ds s = DDrift ->
  let s' := adwin_update dpd p s x in
  (a_ds s' = DNone -> a_recs s' = recs_none) /\ a_since s' = 1.
Proof. exact (adwin_recs_cleared dpd p). Qed.

(** ADWINAccuracy is ADWIN, with the constructor parameters it was given, on the indicator stream *)
Definition acc_update {L : Type} (eqL : L -> L -> bool) (s : @adwin_st N) (y : L * L) : adwin_st :=
  adwin_update dpd p s (if eqL (fst y) (snd y) then f1 else f0).

Theorem C03_accuracy_is_adwin_on_indicator : forall {L : Type} (eqL : L -> L -> bool) ys (s : @adwin_st N),
  fold_left (acc_update eqL) ys s =
  adwin_run dpd p s (map (fun y : L * L => if eqL (fst y) (snd y) then f1 else f0) ys).
Proof.
  intros L eqL. induction ys as [|y ys IH]; intros s; [reflexivity|]. simpl. rewrite IH. reflexivity.
Qed.

End C03.

Print Assumptions C03_width_and_recs.
Print Assumptions C03_drift_iff.
Print Assumptions C03_post_no_cut.
Print Assumptions C03_schedule.
Print Assumptions C03_counters.
Print Assumptions C03_recs_cleared.
Print Assumptions C03_accuracy_is_adwin_on_indicator.
