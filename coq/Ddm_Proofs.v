(** Theorems about the DDM / EDDM / STEPD kernels, for every arithmetic instance [N]
    (in particular the bit-exact float instance). *)
From MV Require Import Base Num Lifecycle Lifecycle_Proofs Ddm.

Section ErrorRateProofs.
Context {N : Num}.
Local Open Scope num_scope.

(** ------------------------------- DDM ------------------------------- *)
Definition ddm_gate (p : @ddm_params N) (n : Z) : bool := (ddm_n_threshold p <=? n)%Z.

Lemma ddm_gate_iff (p : @ddm_params N) e n x : snd (ddm_step p e n x) = None <-> ddm_gate p n = false.
Proof.
  unfold ddm_step, ddm_gate. destruct (Z.ltb_spec n (ddm_n_threshold p)); simpl; split; intros;
    try reflexivity; try discriminate; try lia.
Qed.

(** no decision is taken (state, recs unchanged) before n_threshold samples of the epoch *)
Lemma ddm_warmup (p : @ddm_params N) e n x d : snd (ddm_step p e n x) = Some d -> (ddm_n_threshold p <= n)%Z.
Proof.
  intros H. destruct (Z.le_gt_cases (ddm_n_threshold p) n) as [L|G]; [exact L|].
  assert (E0 : snd (ddm_step p e n x) = None) by (apply ddm_gate_iff; unfold ddm_gate; lia). congruence.
Qed.

(** the updated statistics *)
Definition ddm_rate' (e : @ddm_e N) (n : Z) (err : bool) : F N :=
  d_rate e + ((if err then f1 else f0) - d_rate e) / fofZ n.
Definition ddm_sd' (e : @ddm_e N) (n : Z) (err : bool) : F N :=
  let c := if err then f1 else f0 in
  fsqrt ((d_std e + (c - ddm_rate' e n err) * (c - d_rate e)) / fofZ n).
(** minimum tracking by the `<=` rule *)
Definition ddm_min_updates (e : @ddm_e N) (n : Z) (err : bool) : bool :=
  (ddm_rate' e n err + ddm_sd' e n err) <=? (d_rate_min e + d_std_min e).
Definition ddm_rmin' e n err : F N := if ddm_min_updates e n err then ddm_rate' e n err else d_rate_min e.

(** decision rule after n_threshold samples: scaled thresholds against the tracked minimum *)
Lemma ddm_decision (p : @ddm_params N) e n err : (ddm_n_threshold p <= n)%Z ->
  let r := ddm_rate' e n err in let sd := ddm_sd' e n err in let rmin := ddm_rmin' e n err in
  let drift := (rmin + ddm_drift_scale p * sd) <=? (r + sd) in
  let warn := (rmin + ddm_warning_scale p * sd) <=? (r + sd) in
  snd (ddm_step p e n err) = Some (if drift then DDrift else if warn then DWarn else DNone).
Proof.
  intros H. unfold ddm_step, ddm_rmin', ddm_min_updates, ddm_sd', ddm_rate'. cbv zeta.
  destruct (Z.ltb_spec n (ddm_n_threshold p)); [lia|]. reflexivity.
Qed.

Lemma ddm_state_update (p : @ddm_params N) e n err :
  let e' := fst (ddm_step p e n err) in
  d_rate e' = ddm_rate' e n err /\ d_std e' = ddm_sd' e n err /\
  ((n < ddm_n_threshold p)%Z -> d_rate_min e' = d_rate_min e /\ d_std_min e' = d_std_min e) /\
  ((ddm_n_threshold p <= n)%Z -> d_rate_min e' = ddm_rmin' e n err).
Proof.
  unfold ddm_step, ddm_rmin', ddm_min_updates, ddm_sd', ddm_rate'. cbv zeta.
  destruct (Z.ltb_spec n (ddm_n_threshold p)); simpl; repeat split; intros; try reflexivity; lia.
Qed.

(** ------------------------------- EDDM ------------------------------- *)
(** correct predictions change nothing at all *)
Lemma eddm_correct_noop (p : @eddm_params N) e n : eddm_step p e n true = (e, None).
Proof. reflexivity. Qed.

Lemma eddm_warmup (p : @eddm_params N) e n x d : snd (eddm_step p e n x) = Some d ->
  x = false /\ (eddm_n_threshold p <= e_n_errors e + 1)%Z.
Proof.
  unfold eddm_step. destruct x; [discriminate|].
  destruct (Z.ltb_spec (e_n_errors e + 1) (eddm_n_threshold p)); simpl; [discriminate|]. intros _. split; [reflexivity | lia].
Qed.

Definition eddm_mean' (e : @eddm_e N) (n : Z) : F N :=
  let dist := fofZ (n - 1 - e_idx_curr e) in e_mean e + (dist - e_mean e) / fofZ (e_n_errors e + 1).
Definition eddm_sd' (e : @eddm_e N) (n : Z) : F N :=
  let dist := fofZ (n - 1 - e_idx_curr e) in
  fsqrt ((e_std e + (dist - eddm_mean' e n) * (dist - e_mean e)) / fofZ (e_n_errors e + 1)).
Definition eddm_num' e n : F N := eddm_mean' e n + fofZ 2 * eddm_sd' e n.
Definition eddm_max' e n : F N := if e_max e <? eddm_num' e n then eddm_num' e n else e_max e.

(** on an error, after n_threshold errors: the ratio test against the running maximum *)
Lemma eddm_decision (p : @eddm_params N) e n : (eddm_n_threshold p <= e_n_errors e + 1)%Z ->
  let stat := eddm_num' e n / eddm_max' e n in
  snd (eddm_step p e n false) =
    Some (if stat <=? eddm_drift_thresh p then DDrift else if stat <=? eddm_warning_thresh p then DWarn else DNone)
  /\ e_n_errors (fst (eddm_step p e n false)) = (e_n_errors e + 1)%Z
  /\ e_max (fst (eddm_step p e n false)) = eddm_max' e n.
Proof.
  intros H. unfold eddm_step, eddm_max', eddm_num', eddm_sd', eddm_mean'. cbv zeta.
  destruct (Z.ltb_spec (e_n_errors e + 1) (eddm_n_threshold p)); [lia|]. simpl. repeat split.
Qed.

(** the error count of the epoch is counted exactly *)
Lemma eddm_counts_errors (p : @eddm_params N) e n x :
  e_n_errors (fst (eddm_step p e n x)) = (e_n_errors e + (if x then 0 else 1))%Z.
Proof.
  unfold eddm_step. destruct x; simpl; [lia|].
  destruct (Z.ltb_spec (e_n_errors e + 1) (eddm_n_threshold p)); reflexivity.
Qed.

(** ------------------------------- STEPD ------------------------------- *)
Definition stepd_gate (p : @stepd_params N) (n : Z) : bool := (2 * stepd_window p <=? n)%Z.

Lemma stepd_gate_iff (p : @stepd_params N) e n x : snd (stepd_step p e n x) = None <-> stepd_gate p n = false.
Proof.
  unfold stepd_step, stepd_gate.
  match goal with |- context [Z.ltb (stepd_window p) ?b] => destruct (Z.ltb (stepd_window p) b) end;
  destruct (Z.leb_spec (2 * stepd_window p) n); simpl; split; intros; try reflexivity; try discriminate.
Qed.

Lemma stepd_gate_mono (p : @stepd_params N) n : stepd_gate p n = true -> stepd_gate p (n + 1) = true.
Proof. unfold stepd_gate. intros H. apply Z.leb_le in H. apply Z.leb_le. lia. Qed.

Lemma stepd_warmup (p : @stepd_params N) e n x d : snd (stepd_step p e n x) = Some d -> (2 * stepd_window p <= n)%Z.
Proof.
  intros H. destruct (Z.le_gt_cases (2 * stepd_window p) n) as [L|G]; [exact L|].
  assert (E0 : snd (stepd_step p e n x) = None) by (apply stepd_gate_iff; unfold stepd_gate; apply Z.leb_gt; lia).
  congruence.
Qed.

(** the window bookkeeping: [stepd_push] is what one update does to (s, r, window) *)
Definition stepd_push (w : Z) (e : @stepd_e N) (c : Z) : Z * Z * list Z :=
  let w1 := s_window e ++ [c] in
  if (w <? zlen w1)%Z then ((s_s e + c - hd 0%Z w1)%Z, (s_r e + hd 0%Z w1)%Z, tl w1)
  else ((s_s e + c)%Z, s_r e, w1).

Lemma stepd_state_update (p : @stepd_params N) e n (x : bool * F N) :
  let c := if fst x then 1%Z else 0%Z in
  let e' := fst (stepd_step p e n x) in
  (s_s e', s_r e', s_window e') = stepd_push (stepd_window p) e c.
Proof.
  unfold stepd_step, stepd_push. cbv zeta.
  match goal with |- context [Z.ltb (stepd_window p) ?b] => destruct (Z.ltb (stepd_window p) b) end;
  destruct (2 * stepd_window p <=? n)%Z; reflexivity.
Qed.

(** decision rule once 2*window_size samples of the epoch have been seen *)
Lemma stepd_decision (p : @stepd_params N) e n x : (2 * stepd_window p <= n)%Z ->
  let e1 := fst (stepd_step p e n x) in
  let recent := stepd_recent e1 in let past := stepd_past e1 n in
  let decreased := recent <? past in
  snd (stepd_step p e n x) =
    Some (if decreased && (snd x <? stepd_alpha_drift p) then DDrift
          else if decreased && (snd x <? stepd_alpha_warning p) then DWarn else DNone)
  /\ s_stat e1 = Some (stepd_statistic (stepd_window p) n recent past (stepd_overall e1 n))
  /\ s_p e1 = Some (snd x).
Proof.
  intros H. unfold stepd_step. cbv zeta.
  match goal with |- context [Z.ltb (stepd_window p) ?b] => destruct (Z.ltb (stepd_window p) b) end;
  (destruct (Z.leb_spec (2 * stepd_window p) n); [|lia]); simpl; repeat split.
Qed.

(** alarms only when accuracy decreased *)
Lemma stepd_alarm_needs_decrease (p : @stepd_params N) e n x d : snd (stepd_step p e n x) = Some d -> d <> DNone ->
  let e1 := fst (stepd_step p e n x) in (stepd_recent e1 <? stepd_past e1 n) = true.
Proof.
  intros H Hd. pose proof (stepd_warmup p e n x d H) as Hw.
  destruct (stepd_decision p e n x Hw) as [Hdec _]. cbv zeta in Hdec. rewrite Hdec in H.
  cbv zeta. destruct (stepd_recent _ <? stepd_past _ n); [reflexivity|]. simpl in H. congruence.
Qed.

(** window invariant: after the outcomes [cs] of an epoch (1 = correct), the window holds the last
    min(|cs|, w) of them, [s] counts the correct ones inside it and [r] those before it *)
Definition zsum (l : list Z) : Z := fold_right Z.add 0%Z l.

Definition stepd_inv (w : Z) (cs : list Z) (e : @stepd_e N) : Prop :=
  exists before, cs = before ++ s_window e /\ s_s e = zsum (s_window e) /\ s_r e = zsum before /\
    (zlen (s_window e) <= Z.max w 0)%Z /\ (before <> [] -> zlen (s_window e) = Z.max w 0)%Z.

Lemma zsum_app a b : zsum (a ++ b) = (zsum a + zsum b)%Z.
Proof. induction a as [|x a IH]; simpl; [reflexivity|]. rewrite IH. lia. Qed.

Lemma zlen_app {A} (a b : list A) : zlen (a ++ b) = (zlen a + zlen b)%Z.
Proof. unfold zlen. rewrite app_length. lia. Qed.

Lemma stepd_inv_step w cs e c : stepd_inv w cs e ->
  let '(s', r', w') := stepd_push w e c in
  forall e', s_s e' = s' -> s_r e' = r' -> s_window e' = w' -> stepd_inv w (cs ++ [c]) e'.
Proof.
  intros (before & Hcs & Hs & Hr & Hlen & Hfull). unfold stepd_push.
  rewrite zlen_app. change (zlen [c]) with 1%Z.
  destruct (Z.ltb_spec w (zlen (s_window e) + 1)) as [L|G]; intros e' Es Er Ew.
  - destruct (s_window e) as [|h t] eqn:Ewin.
    + (* empty window and w < 1: the new element leaves at once *)
      simpl in *. exists (before ++ [c]). rewrite Ew, Es, Er, Hs, Hr, Hcs. simpl.
      rewrite !app_nil_r, zsum_app. simpl. change (zlen (@nil Z)) with 0%Z in *.
      repeat split; try lia; try (intros _; lia).
    + simpl in *. exists (before ++ [h]). rewrite Ew, Es, Er, Hs, Hr, Hcs.
      rewrite <- !app_assoc. simpl. rewrite !zsum_app. simpl.
      unfold zlen in *. simpl length in *. rewrite app_length. simpl length.
      repeat split; try lia; try (intros _; lia).
  - exists before. rewrite Ew, Es, Er, Hs, Hr, Hcs. rewrite app_assoc, zsum_app, zlen_app. simpl.
    change (zlen [c]) with 1%Z. repeat split; try lia. intros Hb. specialize (Hfull Hb). lia.
Qed.

Lemma stepd_inv_init w : stepd_inv w [] (@stepd_e0 N).
Proof.
  exists []. simpl. change (zlen (@nil Z)) with 0%Z. repeat split; try lia. intros H; congruence.
Qed.

Lemma stepd_inv_kernel (p : @stepd_params N) cs e n (x : bool * F N) :
  stepd_inv (stepd_window p) cs e ->
  stepd_inv (stepd_window p) (cs ++ [if fst x then 1%Z else 0%Z]) (fst (stepd_step p e n x)).
Proof.
  intros H. pose proof (stepd_state_update p e n x) as Hu. cbv zeta in Hu.
  pose proof (stepd_inv_step (stepd_window p) cs e (if fst x then 1%Z else 0%Z) H) as Hs.
  destruct (stepd_push (stepd_window p) e (if fst x then 1%Z else 0%Z)) as [[s' r'] w'].
  injection Hu as H1 H2 H3. apply Hs; assumption.
Qed.

(** over a whole epoch: feed the outcomes [xs] to a fresh epoch state *)
Fixpoint stepd_feed (p : @stepd_params N) (e : stepd_e) (n : Z) (xs : list (bool * F N)) : stepd_e :=
  match xs with
  | [] => e
  | x :: t => stepd_feed p (fst (stepd_step p e (n + 1) x)) (n + 1) t
  end.

Lemma stepd_feed_inv (p : @stepd_params N) : forall xs cs e n,
  stepd_inv (stepd_window p) cs e ->
  stepd_inv (stepd_window p) (cs ++ map (fun x : bool * F N => if fst x then 1%Z else 0%Z) xs) (stepd_feed p e n xs).
Proof.
  induction xs as [|x xs IH]; intros cs e n H; simpl.
  - rewrite app_nil_r. exact H.
  - replace (cs ++ (if fst x then 1%Z else 0%Z) :: map _ xs)
      with ((cs ++ [if fst x then 1%Z else 0%Z]) ++ map (fun x : bool * F N => if fst x then 1%Z else 0%Z) xs)
      by (rewrite <- app_assoc; reflexivity).
    apply IH. apply stepd_inv_kernel. exact H.
Qed.

End ErrorRateProofs.
