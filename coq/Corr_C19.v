(** C19: checkers evaluated by the correspondence harness on the bit-exact instance [NumFloat].
    A case is a tree of calls (a single history is a tree whose nodes have one child); every edge
    carries the call (with the oracle values the implementation saw) and what the implementation
    showed after it.  No proofs here. *)
From MV Require Import Base Num NumFloat Md3.
From Coq Require Import PrimFloat.

Definition fstats := @stats NumFloat.
Definition fstate := @state NumFloat.
Definition fop := @op NumFloat.

Definition st4 (a b c d : float) : fstats := @mk_stats NumFloat a b c d.
Definition o_set (cols : list Z) (target n : Z) (st : fstats) : fop := @OSetRef NumFloat cols target n st.
Definition o_upd (nrows : Z) (sig : float) : fop := @OUpdate NumFloat nrows sig.
Definition o_lab (nrows : Z) (cols : list Z) (correct : bool) (st : fstats) : fop :=
  @OLabel NumFloat nrows cols correct st.

(** outcome codes: 0 returned, 1 RWaiting, 2 RNotWaiting, 3 RRows, 4 RCols,
    5 ValueError with an unrecognised message and unchanged state (any refusal), 6 KFold's ValueError *)
Definition code_of (r : @result NumFloat) : Z :=
  match r with
  | Ok _ => 0
  | Refused RWaiting => 1 | Refused RNotWaiting => 2 | Refused RRows => 3 | Refused RCols => 4
  | Crashed _ => 6
  end.
Definition code_ok (model observed : Z) : bool :=
  (model =? observed) || ((observed =? 5) && (1 <=? model) && (model <=? 4)).

Record expect := mk_exp {
  x_code : Z; x_ds : dstate; x_wait : bool; x_nrows : Z; x_req : Z; x_len : Z;
  x_ref : fstats; x_ff : float; x_md : float; x_total : Z; x_since : Z;
  x_cols : option (list Z * list Z)      (* reference feature / target columns, when observed *)
}.

Definition stats_eqb (a b : fstats) : bool :=
  fbits_eqb (r_md a) (r_md b) && fbits_eqb (r_md_std a) (r_md_std b)
  && fbits_eqb (r_acc a) (r_acc b) && fbits_eqb (r_acc_std a) (r_acc_std b).

Definition chk_state (s : fstate) (e : expect) : bool :=
  dstate_eqb (m_ds s) (x_ds e) && Bool.eqb (m_wait s) (x_wait e) && (zlen (m_rows s) =? x_nrows e)
  && (m_req s =? x_req e) && (m_len s =? x_len e) && stats_eqb (m_ref s) (x_ref e)
  && fbits_eqb (m_ff s) (x_ff e) && fbits_eqb (m_md s) (x_md e)
  && (m_total s =? x_total e) && (m_since s =? x_since e)
  && match x_cols e with
     | None => true
     | Some (f, t) => list_eqb Z.eqb (m_feat s) f && list_eqb Z.eqb (m_targ s) t
     end.

Inductive tree := Node (children : list (fop * expect * tree)).

Fixpoint chk_tree (p : @params NumFloat) (s : fstate) (t : tree) : bool :=
  match t with
  | Node cs =>
      forallb (fun c : fop * expect * tree =>
                 let '(o, e, t') := c in
                 let s' := md3_next p s o in
                 code_ok (code_of (md3_step p s o)) (x_code e) && chk_state s' e && chk_tree p s' t') cs
  end.

Definition chk_md3 (k : Z) (sens : float) (req : option Z) (cols : list Z) (target n : Z) (st : fstats)
           (e0 : expect) (t : tree) : bool :=
  let p := @mk_params NumFloat sens k in
  let s := md3_start req cols target n st in
  chk_state s e0 && chk_tree p s t.

(** diagnosis: child indices leading to the first disagreeing edge, the model's outcome and state *)
Fixpoint find_bad (p : @params NumFloat) (s : fstate) (t : tree) : option (list Z * Z * fstate) :=
  match t with
  | Node cs =>
      (fix go (cs : list (fop * expect * tree)) (i : Z) : option (list Z * Z * fstate) :=
         match cs with
         | [] => None
         | (o, e, t') :: rest =>
             let s' := md3_next p s o in
             if code_ok (code_of (md3_step p s o)) (x_code e) && chk_state s' e then
               match find_bad p s' t' with
               | Some (path, c, sb) => Some (i :: path, c, sb)
               | None => go rest (i + 1)
               end
             else Some ([i], code_of (md3_step p s o), s')
         end) cs 0
  end.

Definition show_md3 (k : Z) (sens : float) (req : option Z) (cols : list Z) (target n : Z) (st : fstats)
           (e0 : expect) (t : tree) : option (list Z * Z * fstate) :=
  let p := @mk_params NumFloat sens k in
  let s := md3_start req cols target n st in
  if chk_state s e0 then find_bad p s t else Some ([], 0, s).

(** placeholder for the k-fold oracle of a label that does not complete the collection (never read) *)
Definition z4 : fstats := st4 0 0 0 0.
