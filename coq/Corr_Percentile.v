(** np.percentile on the float instance: bit-for-bit checkers against numpy. *)
From MV Require Import Base Num NumFloat Lfr Percentile.
From Coq Require Import PrimFloat Uint63 FloatOps SpecFloat.

(** floor of a finite double as an integer (exact: value = +-mnt * 2^e; [Z.div] rounds towards
    minus infinity).  Zero, infinities and NaN give 0; the model only calls it with
    0 <= x < n - 1. *)
Definition ffloorZ (x : float) : Z :=
  match Prim2SF x with
  | S754_finite s mnt e =>
      let m := if s then Zneg mnt else Zpos mnt in
      if (0 <=? e)%Z then (m * 2 ^ e)%Z else (m / 2 ^ (- e))%Z
  | _ => 0%Z
  end.

Definition fpercentile (sorted : list float) (p : float) : float :=
  @percentile NumFloat ffloorZ sorted p.

Definition flfr_bounds_of (sorted : list float) (warn detect : float) : @bounds NumFloat :=
  @lfr_bounds_of NumFloat ffloorZ sorted warn detect.

(** the model reproduces numpy's value bit-for-bit; the sample must be non-empty *)
Definition chk_percentile (sorted : list float) (p expected : float) : bool :=
  (1 <=? Z.of_nat (length sorted))%Z && fbits_eqb (fpercentile sorted p) expected.

Definition chk_lfr_bounds (sorted : list float) (warn detect : float) (lbw ubw lbd ubd : float) : bool :=
  let b := flfr_bounds_of sorted warn detect in
  (1 <=? Z.of_nat (length sorted))%Z &&
  fbits_eqb (lb_warn b) lbw && fbits_eqb (ub_warn b) ubw &&
  fbits_eqb (lb_detect b) lbd && fbits_eqb (ub_detect b) ubd.

(** diagnosis *)
Definition show_percentile (sorted : list float) (p : float) :=
  let n := Z.of_nat (length sorted) in
  let v := @virt_index NumFloat n p in
  (v, @pct_index NumFloat ffloorZ n v, fpercentile sorted p).
