(** C15 — detectors and injectors never modify or keep live references to caller data.
    Statements only (model: Heap.v, proofs: Heap_Proofs.v).  All theorems are structural (induction over
    action lists and histories, case analysis on container kinds); no axioms.

    Vocabulary (Heap.v):
      heap, read, write          caller objects are cells; [EWrite l v] is an in-place overwrite
      datum = Copy v | View l    what a detector attribute holds; [deref h] looks through views
      code                       the facts deciding Copy-or-View: [current] (this tree), [pre_S13]
                                 (validation returned X.values), [pre_md3_fix] (MD3 kept the first labelled frame)
      trace c D st h evs         the detector's outputs after every call of a history of calls
                                 interleaved with caller writes / allocations
      pure_trace D ps (handed h evs)
                                 the heap-free reference run: the detector is given the CONTENT each
                                 argument had at the moment of its call, and owns it
      privatize h n evs          the twin history: before each call the caller makes a private copy and
                                 hands that over; no writes at all
      stores_only_copies c K D   every storing action of D on containers of a kind in K stores a copy
                                 and none writes its argument
      clean_run c D st h evs     the same, for the actions executed along this one run
    PARTIAL: Copy-or-View at each site is decided by [code]; that numpy / pandas behave as [current]
    says is measured by harness/c15.py (np.shares_memory at every site, on every run), not proved.

    Findings (both repaired in /repo; the witnesses below replay the old behaviour on the old [code] records):
      S13 (fixed, commit e5126c7): validation returned X.values, a live view of a one-block DataFrame;
          [C15_S13_view_refuted] replays it on [pre_S13] (NNDVI.reference_batch).
      MD3 (fixed, commit "fix: MD3 stores a copy of the first labeled sample instead of the caller's DataFrame"):
          give_oracle_label kept the caller's DataFrame itself as oracle_data until the next labelled row arrived;
          [C15_md3_oracle_alias_refuted] replays it on [pre_md3_fix].
      [C15_copy_sites_safe] / [C15_md3_copy_sites_safe] cover every detector of the current tree. *)
From MV Require Import Base Heap Heap_Proofs.
Local Open Scope nat_scope.

(** ---- noninterference ------------------------------------------------------------------------- *)

(** If no storing action executed along a run stores a view or writes its argument, then whatever the
    caller writes between the calls: the outputs are those of the heap-free run on the contents handed
    over, the heap evolves by the caller's own events only (frame: no call writes a caller cell), and no
    view is held at the end. *)
Theorem C15_noninterference :
  forall (A : Type) (c : code) (D : @detector A) (evs : list event) (st : state D) (h : heap),
  no_view (st_slots st) = true -> clean_run c D st h evs ->
  trace c D st h evs = pure_trace D (st_p st, vals (st_slots st)) (handed h evs) /\
  snd (final c D st h evs) = caller_heap h evs /\
  no_view (st_slots (fst (final c D st h evs))) = true.
Proof. intros A c D evs st h. apply clean_noninterference. Qed.

(** the static form: a detector whose sites store only copies (on the container kinds used) *)
Theorem C15_noninterference_static :
  forall (A : Type) (c : code) (K : kind -> bool) (D : @detector A) (evs : list event) (h : heap),
  stores_only_copies c K D -> forallb (event_kind_ok K) evs = true ->
  trace c D (init D) h evs = pure_trace D (pure_init D) (handed h evs) /\
  snd (final c D (init D) h evs) = caller_heap h evs.
Proof. intros A c K D evs h. apply static_noninterference. Qed.

(** "as if a private copy had been handed over": the outputs equal those of the twin history in which
    every argument is a private copy made just before the call and the caller never writes; the twin
    may start from any heap [h2] *)
Theorem C15_private_copy_twin :
  forall (A : Type) (c : code) (K : kind -> bool) (D : @detector A) (evs : list event) (h h2 : heap),
  stores_only_copies c K D -> forallb (event_kind_ok K) evs = true ->
  trace c D (init D) h evs = trace c D (init D) h2 (privatize h (length h2) evs) /\
  existsb is_write (privatize h (length h2) evs) = false.
Proof.
  intros A c K D evs h h2 S Hk. split; [now apply (twin_equal c K) | apply privatize_no_write].
Qed.

(** outputs read at any later moment do not depend on the heap when no view is held *)
Theorem C15_later_outputs_heap_independent :
  forall (A : Type) (D : @detector A) (st : state D) (h h' : heap),
  no_view (st_slots st) = true -> out D st h = out D st h'.
Proof. intros A D st h h'. apply out_stable. Qed.

(** frame of a single call *)
Theorem C15_call_frame :
  forall (A : Type) (c : code) (K : kind -> bool) (D : @detector A) (st : state D) (h : heap) m k l,
  stores_only_copies c K D -> K k = true -> no_view (st_slots st) = true ->
  snd (call c D st h m k l) = h.
Proof. intros A c K D st h m k l. apply call_frame. Qed.

(** ---- the storing sites of the tree ------------------------------------------------------------ *)

(** Whatever the numeric behaviour (all oracle arguments universally quantified): on the current tree
    the models of NNDVI, HDDDM/CDBD, KdqTreeStreaming, KdqTreeBatch, PCACD, CUSUM, PageHinkley and of the detectors
    that keep numbers only store copies for EVERY container kind, and so does every ensemble of
    detectors that do.  Hence C15_noninterference_static applies with K = all_kinds. *)
Theorem C15_copy_sites_safe :
  forall (A P O : Type) (p0 : P) (ok : method -> P -> @value A -> bool) (show : P -> list (list value) -> O),
  (forall f g, stores_only_copies current all_kinds (nndvi P O p0 ok show f g)) /\
  (forall f g, stores_only_copies current all_kinds (hdm P O p0 ok show f g)) /\
  (forall g, stores_only_copies current all_kinds (kdq_streaming P O p0 ok show g)) /\
  (forall f g, stores_only_copies current all_kinds (kdq_batch P O p0 ok show f g)) /\
  (forall g, stores_only_copies current all_kinds (pcacd P O p0 ok show g)) /\
  (forall g, stores_only_copies current all_kinds (cusum P O p0 ok show g)) /\
  (forall g, stores_only_copies current all_kinds (page_hinkley P O p0 ok show g)) /\
  (forall g, stores_only_copies current all_kinds (scalar_detector P O p0 ok show g)).
Proof.
  intros A P O p0 ok show.
  assert (W : forall D : @detector A, stores_only_copies current (copy_kinds current) D ->
                                      stores_only_copies current all_kinds D).
  { intros D. apply stores_only_copies_weaken. now apply copy_kinds_all. }
  repeat split; intros.
  - apply W, nndvi_safe.
  - apply W, hdm_safe.
  - apply kdq_streaming_safe.
  - apply kdq_batch_safe.
  - apply pcacd_safe.
  - apply W, cusum_safe.
  - apply W, page_hinkley_safe.
  - apply scalar_safe.
Qed.

Theorem C15_ensemble_copy_sites_safe :
  forall (A : Type) (c : code) (K : kind -> bool) (D1 D2 : @detector A) (E : Type) (elect : obs D1 -> obs D2 -> E),
  stores_only_copies c K D1 -> stores_only_copies c K D2 ->
  stores_only_copies c K (ensemble D1 D2 E elect).
Proof. intros A c K D1 D2 E elect. apply ensemble_safe. Qed.

(** MD3 on the current tree (first labelled row copied): every site of every method stores a copy, on
    every container; more generally for every [code] whose oracle site copies *)
Theorem C15_md3_copy_sites_safe :
  forall (A P O : Type) (p0 : P) (ok : method -> P -> @value A -> bool)
         (show : P -> list (list value) -> O) ft tg f g lab,
  stores_only_copies current all_kinds (md3 current P O p0 ok show ft tg f g lab) /\
  (forall c K, md3_oracle_copies c = true -> stores_only_copies c K (md3 c P O p0 ok show ft tg f g lab)).
Proof.
  intros A P O p0 ok show ft tg f g lab. split; [apply md3_safe; reflexivity | intros c K H; now apply md3_safe].
Qed.

(** before the repair of S13 the sites were safe on every container except one-block DataFrames *)
Theorem C15_pre_S13_safe_except_one_block_frames :
  forall (A P O : Type) (p0 : P) (ok : method -> P -> @value A -> bool) (show : P -> list (list value) -> O) f g g' g'',
  let K := fun k => match k with KDFOne => false | _ => true end in
  stores_only_copies pre_S13 K (nndvi P O p0 ok show f g) /\
  stores_only_copies pre_S13 K (cusum P O p0 ok show g') /\
  stores_only_copies pre_S13 K (page_hinkley P O p0 ok show g'').
Proof.
  intros A P O p0 ok show f g g' g'' K.
  assert (HK : forall k, K k = true -> copy_kinds pre_S13 k = true) by (intros [] H; try reflexivity; discriminate).
  repeat split; eapply stores_only_copies_weaken; try exact HK; [apply nndvi_safe | apply cusum_safe | apply page_hinkley_safe].
Qed.

(** ---- witnesses ------------------------------------------------------------------------------- *)
(** demo detectors over integer cells: no numeric behaviour, the output is the stored data itself *)
Definition demo_obs := list (list (@value Z)).
Definition nndvi_demo : @detector Z :=
  nndvi unit demo_obs tt (fun _ _ _ => true) (fun _ sl => sl) (fun p _ => p) (fun p _ _ => (false, p)).
Definition md3_demo (c : code) : @detector Z :=
  md3 c unit demo_obs tt (fun _ _ _ => true) (fun _ sl => sl) (fun x => x) (fun x => x)
      (fun p _ => p) (fun p _ => p) (fun p _ => (false, p)).

Definition ref_batch : @value Z := [[1%Z]; [2%Z]].
Definition test_batch : @value Z := [[3%Z]; [4%Z]].
Definition junk : @value Z := [[99%Z]; [99%Z]].
(** set_reference(df); df.iloc[:, :] = 99; update(batch) *)
Definition s13_history : list (@event Z) :=
  [ECall MSetReference KDFOne 0; EWrite 0 junk; ECall MUpdate KArrC 1].

(** S13 (FIXED in e5126c7): with [ary = X.values] the reference batch of NNDVI was a view of the caller's
    one-block DataFrame: overwriting the DataFrame after set_reference changed reference_batch, so the
    next update compared against junk.  On the current tree the same history is not affected. *)
Example C15_S13_view_refuted :
  trace pre_S13 nndvi_demo (init nndvi_demo) [ref_batch; test_batch] s13_history
    = [[[ref_batch]]; [[junk]]] /\
  pure_trace nndvi_demo (pure_init nndvi_demo) (handed [ref_batch; test_batch] s13_history)
    = [[[ref_batch]]; [[ref_batch]]] /\
  trace current nndvi_demo (init nndvi_demo) [ref_batch; test_batch] s13_history
    = [[[ref_batch]]; [[ref_batch]]] /\
  ~ clean_run pre_S13 nndvi_demo (init nndvi_demo) [ref_batch; test_batch] s13_history.
Proof.
  repeat split; try reflexivity. intros [H _]. vm_compute in H. discriminate.
Qed.

(** the hypotheses of C15_noninterference are satisfiable: that history is a clean run of the current tree *)
Example C15_noninterference_hypotheses_satisfiable :
  no_view (st_slots (init nndvi_demo)) = true /\
  clean_run current nndvi_demo (init nndvi_demo) [ref_batch; test_batch] s13_history.
Proof. split; [reflexivity|]. simpl. repeat split; reflexivity. Qed.

(** MD3 (FIXED by "fix: MD3 stores a copy of the first labeled sample instead of the caller's DataFrame"):
    with [self.oracle_data = labeled_sample] the detector kept the caller's DataFrame itself (any container).
    give_oracle_label(s1); s1.iloc[:, :] = 99; give_oracle_label(s2): oracle_data started with junk.
    This is the PRE-fix behaviour ([pre_md3_fix]); on the current tree the same history is not affected. *)
Definition md3_history : list (@event Z) :=
  [ECall MOracle KDFMixed 0; EWrite 0 junk; ECall MOracle KDFMixed 1].
Example C15_md3_oracle_alias_refuted :
  let c := pre_md3_fix in
  trace c (md3_demo c) (init (md3_demo c)) [ref_batch; test_batch] md3_history
    = [[[]; []; [ref_batch]]; [[]; []; [junk ++ test_batch]]] /\
  pure_trace (md3_demo c) (pure_init (md3_demo c)) (handed [ref_batch; test_batch] md3_history)
    = [[[]; []; [ref_batch]]; [[]; []; [ref_batch ++ test_batch]]] /\
  trace current (md3_demo current) (init (md3_demo current)) [ref_batch; test_batch] md3_history
    = [[[]; []; [ref_batch]]; [[]; []; [ref_batch ++ test_batch]]] /\
  ~ clean_run c (md3_demo c) (init (md3_demo c)) [ref_batch; test_batch] md3_history.
Proof.
  repeat split; try reflexivity. intros [H _]. vm_compute in H. discriminate.
Qed.

(** ---- injectors ------------------------------------------------------------------------------- *)

(** With the copy in _preprocess (the current tree): the result is a NEW location (not a cell of the
    caller's heap), of the container type of the input; every caller cell, the input in particular, is
    unchanged; the result holds the injected data.  Lists, Series, scalars are refused. *)
Theorem C15_inject_fresh_and_frame :
  forall (A : Type) (c : code) (f : @value A -> value) (k : kind) (h : heap) (l l' : loc) (k' : kind) (h' : heap),
  inj_preprocess_copies c = true -> inject c f k h l = Some (l', k', h') ->
  l' = length h /\ ~ l' < length h /\
  container_of k' = container_of k /\ container_of k <> COther /\
  firstn (length h) h' = h /\ (forall j, j < length h -> read h' j = read h j) /\
  (l < length h -> l' <> l /\ read h' l = read h l) /\
  read h' l' = f (read h l).
Proof.
  intros A c f k h l l' k' h' Hc E.
  destruct (inject_spec c f k h l l' k' h' Hc E) as (E1 & _ & E3 & E4).
  destruct (inject_frame c f k h l l' k' h' Hc E) as (F1 & F2 & F3 & F4 & F5).
  repeat split; auto; now apply F4.
Qed.

Theorem C15_inject_refuses_other_containers :
  forall (A : Type) (c : code) (f : @value A -> value) (k : kind) (h : heap) (l : loc),
  container_of k = COther -> inject c f k h l = None.
Proof. intros A c f k h l. apply inject_refuses. Qed.

(** the two label injectors that take a dict: the dict cell is a caller cell like any other *)
Theorem C15_inject_with_dict_frame :
  forall (A : Type) (c : code) (f : @value A -> value -> value) (g : value -> value) (k : kind)
         (h : heap) (l ld l' : loc) (k' : kind) (h' : heap),
  inj_preprocess_copies c = true -> inj_dict_copies c = true ->
  inject_with_dict c f g k h l ld = Some (l', k', h') ->
  l' = length h /\ firstn (length h) h' = h /\ read h' l' = f (g (read h ld)) (read h l).
Proof. intros A c f g k h l ld l' k' h'. apply inject_with_dict_frame. Qed.

Example C15_current_satisfies_injector_hypotheses :
  inj_preprocess_copies current = true /\ inj_dict_copies current = true /\ df_validate_copies current = true.
Proof. repeat split. Qed.

(** mutants: without the copy in _preprocess the input cell itself is rewritten and returned;
    S14a (FIXED in 49ad349): working on the caller's dict rewrote the dict cell *)
Example C15_inject_without_copy_refuted :
  inject (mkCode true true true false true) (fun _ => junk) KArrC [ref_batch] 0 = Some (0, KArrC, [junk]).
Proof. reflexivity. Qed.
Example C15_S14a_dict_refuted :
  inject_with_dict (mkCode true true true true false) (fun _ x => x) (fun d => d ++ [[7%Z]]) KArrC
                   [ref_batch; [[5%Z]]] 0 1
    = Some (2, KArrC, [ref_batch; [[5%Z]; [7%Z]]; ref_batch]) /\
  inject_with_dict current (fun _ x => x) (fun d => d ++ [[7%Z]]) KArrC [ref_batch; [[5%Z]]] 0 1
    = Some (2, KArrC, [ref_batch; [[5%Z]]; ref_batch]).
Proof. split; reflexivity. Qed.

(** ---- the harness checkers are about these models ------------------------------------------------ *)

(** the origins [chk_site] uses for the sites that are not plainly fresh are the ones of the models, and on
    the current tree [chk_twin] demands equal traces for every history *)
Theorem C15_checker_tables :
  forall (A : Type) (c : code) (P O : Type) (p0 : P) ok show,
  ((forall f g p sl (x : @value A), snd (sites (nndvi P O p0 ok show f g) MSetReference p sl x)
       = [Store 0 SValidated] /\ origin_of (@SValidated A) = site_origin c SiteNndviRef) /\
   (forall g p sl (x : @value A), snd (sites (cusum P O p0 ok show g) MUpdate p sl x)
       = [Push 0 SValidated] /\ origin_of (@SValidated A) = site_origin c SiteCusumStream) /\
   (forall g p sl (x : @value A), In (Push 0 SValidated) (snd (sites (page_hinkley P O p0 ok show g) MUpdate p sl x))
       /\ origin_of (@SValidated A) = site_origin c SitePhScores) /\
   (forall f g p sl (x : @value A), fst (g p (one sl 0) x) = true ->
       snd (sites (hdm P O p0 ok show f g) MUpdate p sl x) = [Store 0 SFrameOfValidated]
       /\ origin_of (@SFrameOfValidated A) = site_origin c SiteHdmAdopted) /\
   (forall ft tg f g lab p sl (x : @value A), nth 2 sl [] = [] ->
       exists s rest, snd (sites (md3 c P O p0 ok show ft tg f g lab) MOracle p sl x) = Store 2 s :: rest
       /\ origin_of s = site_origin c SiteMd3OracleFirst)) /\
  (forall ds ks, promises_equal current ds ks = true).
Proof.
  intros A c P O p0 ok show. split; [apply site_table | apply promises_equal_current].
Qed.

Print Assumptions C15_noninterference.
Print Assumptions C15_noninterference_static.
Print Assumptions C15_private_copy_twin.
Print Assumptions C15_later_outputs_heap_independent.
Print Assumptions C15_call_frame.
Print Assumptions C15_copy_sites_safe.
Print Assumptions C15_ensemble_copy_sites_safe.
Print Assumptions C15_md3_copy_sites_safe.
Print Assumptions C15_pre_S13_safe_except_one_block_frames.
Print Assumptions C15_inject_fresh_and_frame.
Print Assumptions C15_inject_refuses_other_containers.
Print Assumptions C15_inject_with_dict_frame.
Print Assumptions C15_checker_tables.
