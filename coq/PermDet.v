(** C18 - the (small) detector-level models that the row-order theorems are about.  Everything below
    the detector level is REUSED: the kdq-tree partitioner is [KdqTree.v] (property C08), the NN space
    partitioner and the NNDVI kernel are [Nnsp.v] (property C10).

    - [KdqBatch]: data_drift/kdq_tree.py, class KdqTreeBatch, on the generic machine of Lifecycle.v.
      Oracles (inputs, never axioms): [kl] = scipy.stats.entropy, and per update the bootstrap
      critical value [_get_critical_kld] as a function of the reference leaf counts (under the numpy
      seed in force at that update it is a deterministic function of [ref_counts]; the sample size
      is [sum ref_counts]).
    - [SumDet]: a batch detector whose decision step reads the reference and the test batch only
      through a summary [summ ref batch] (HDDDM / CDBD with detect_batch = 3: histograms over the
      joint range, the two sizes; everything else - epsilons, beta, t.ppf - is computed from these and
      from the detector's own scalar state).  No drift: the batch is appended to the reference;
      drift: the batch replaces it (histogram_density_method.py, update, last 20 lines).
    - [states]: the successive machine states of a run (so that theorems can speak about private
      observables such as [_test_dist] next to the public trace).
    No proofs in this file (Perm_Proofs.v). *)
From MV Require Import Base Num Lifecycle KdqTree.

Fixpoint states {K : kernel} (s : st K) (xs : list (X K)) : list (st K) :=
  match xs with
  | [] => []
  | x :: t => let s' := update s x in s' :: states s' t
  end.

(** ---------------- KdqTreeBatch ---------------- *)
Section KdqBatch.
Context {N : Num}.
Local Open Scope num_scope.
Notation F := (F N).

Variable trunc : F -> F.          (* int(.) of clb * ptp *)
Variable cub : Z.                 (* count_ubound *)
Variable clb : F.                 (* cutpoint_proportion_lbound *)
Variable m : Z.                   (* number of columns *)
Variable fuel_of : Z -> nat.      (* recursion budget as a function of the number of rows *)
Variable kl : list F -> list F -> F.

(** tree ids: 0 = "build", 1 = "test" *)
Definition kdq_build (ref : list (point N)) : tree N :=
  fst (build trunc cub clb m (fuel_of (len ref)) ref).

Definition ref_counts (t : tree N) : list Z :=
  match all_some (leaf_counts 0 t) with Some c => c | None => [] end.

Record kdq_e := mk_kdq {
  k_tree : tree N;                        (* self._kdqtree *)
  k_crit : F;                             (* self._critical_dist *)
  k_dist : option F;                      (* self._test_dist *)
  k_pending : option (list (point N))     (* self.ref_data: the batch that reported drift *)
}.

(** what one update receives: the batch and the bootstrap oracle in force during that update *)
Definition kdq_in := (list (point N) * (list Z -> F))%type.

(** _inner_set_reference *)
Definition kdq_set_reference (ref : list (point N)) (boot : list Z -> F) : kdq_e :=
  let t := kdq_build ref in
  mk_kdq t (boot (ref_counts t)) None None.

(** update: [if drift_state == "drift": set_reference(self.ref_data)] is folded into the step (the
    rebuild needs the bootstrap oracle of the update it happens in), then _evaluate_kdqtree with
    input_type = "batch": fill under "test" with reset, kl_distance, compare with the critical value.
    [kl_distance = None] (tree without leaves) makes the implementation raise; the model decides
    nothing in that case. *)
Definition kdq_step (e : kdq_e) (n : Z) (x : kdq_in) : kdq_e * option dstate :=
  let e0 := match k_pending e with
            | Some r => kdq_set_reference r (snd x)
            | None => e
            end in
  let t := fill (fst x) (k_tree e0) 1 true in
  match kl_distance kl t 0 1 with
  | None => (mk_kdq t (k_crit e0) None (k_pending e0), None)
  | Some d =>
      if k_crit e0 <? d then (mk_kdq t (k_crit e0) (Some d) (Some (fst x)), Some DDrift)
      else (mk_kdq t (k_crit e0) (Some d) None, None)
  end.

Definition KdqBatch : kernel := {|
  E := kdq_e;
  X := kdq_in;
  reset_e := fun e => e;
  step_e := kdq_step;
  policy := PolNoRecs
|}.

(** the two arguments of the divergence at a state: the corrected leaf distributions *)
Definition kdq_kl_args (e : kdq_e) : option (list F * list F) := kl_args (k_tree e) 0 1.

End KdqBatch.

Arguments kdq_e : clear implicits.
Arguments kdq_in : clear implicits.

(** ---------------- a detector that reads its data through a summary ---------------- *)
Section SumDet.
Variables (R S A O : Type).        (* rows, summaries, scalar detector state, per-update oracles *)
Variable summ : list R -> list R -> S.                       (* reference, test batch *)
Variable decide : A -> Z -> S -> O -> A * option dstate.
Variable areset : A -> A.

Definition sum_step (e : list R * A) (n : Z) (x : list R * O) : (list R * A) * option dstate :=
  let '(a', od) := decide (snd e) n (summ (fst e) (fst x)) (snd x) in
  ((match od with Some DDrift => fst x | _ => fst e ++ fst x end, a'), od).

Definition SumDet : kernel := {|
  E := (list R * A)%type;
  X := (list R * O)%type;
  reset_e := fun e => (fst e, areset (snd e));
  step_e := sum_step;
  policy := PolNoRecs
|}.
End SumDet.
