(** numpy's uniform-bin histogram  np.histogram(x, bins=n, range=(lo, hi))[0]
    (numpy/lib/_histograms_impl.py: _get_outer_edges, _get_bin_edges, the "fast algorithm for equal
    bins" of histogram; numpy/_core/function_base.py: linspace), statement by statement, generic over
    the arithmetic [N : Num].

      first, last = lo, hi;  if first == last: first -= 0.5; last += 0.5          (_get_outer_edges)
      edges = linspace(first, last, n + 1)                                        (_get_bin_edges)
            = [i * ((last - first) / n) + first  for i < n] ++ [last]
              (when the step underflows to 0:  (i / n) * (last - first) + first)
      keep only  first <= x <= last
      f = ((x - first) / (last - first)) * n ;  i = (intp) f ;  if i == n: i -= 1
      if x < edges[i]: i -= 1
      if x >= edges[i + 1] and i != n - 1: i += 1
      counts = bincount(i, minlength = n)

    The C cast double -> intp (truncation towards zero) is the parameter [trunc] (for [NumFloat] it is
    defined through [FloatOps.Prim2SF] in Corr_C07.v, for [NumR] it is the integer part).
    Outside the model: NaN / infinite data, [n < 1] (numpy raises), a range so narrow that two edges
    coincide (numpy raises "Too many bins"), and an index that leaves [0, n] before the correction
    (numpy's fancy indexing would wrap around or raise; cannot happen for finite data inside the
    range with rounding-monotone arithmetic; the theorems state it as a hypothesis).
    No proofs here (lemmas: Hdm_Proofs.v). *)
From MV Require Import Base Num.

Definition zlen {A} (l : list A) : Z := Z.of_nat (length l).

Fixpoint zrange_from (i : Z) (k : nat) : list Z :=
  match k with O => [] | S k' => i :: zrange_from (i + 1) k' end.
(** Python's range(n) *)
Definition zrange (n : Z) : list Z := zrange_from 0 (Z.to_nat n).

Fixpoint zsum_l (l : list Z) : Z := match l with [] => 0 | x :: t => x + zsum_l t end.

(** number of occurrences of [i] (one cell of np.bincount) *)
Definition count_eq (i : Z) (l : list Z) : Z := zlen (filter (Z.eqb i) l).

Section Hist.
Context {N : Num}.
Local Open Scope num_scope.
Notation F := (F N).

Variable trunc : F -> Z.

(** ndarray.min() / .max() of a non-empty array without NaN *)
Definition lmin (l : list F) : F :=
  match l with [] => f0 | x :: t => fold_left (fun a y => if y <? a then y else a) t x end.
Definition lmax (l : list F) : F :=
  match l with [] => f0 | x :: t => fold_left (fun a y => if a <? y then y else a) t x end.

Definition fhalf : F := f1 / fofZ 2.

(** _get_outer_edges: an empty range is widened *)
Definition outer_edges (lo hi : F) : F * F :=
  if feqb lo hi then (lo - fhalf, hi + fhalf) else (lo, hi).

(** np.linspace(first, last, n + 1) *)
Definition linspace (first last : F) (n : Z) : list F :=
  let delta := last - first in
  let step := delta / fofZ n in
  map (fun i => if feqb step f0 then (fofZ i / fofZ n) * delta + first else fofZ i * step + first)
      (zrange n)
  ++ [last].

Definition edge (edges : list F) (i : Z) : F := nth (Z.to_nat i) edges f0.

(** f_indices of one value *)
Definition findex (first last : F) (n : Z) (x : F) : F := ((x - first) / (last - first)) * fofZ n.

Definition bin_index (edges : list F) (first last : F) (n : Z) (x : F) : Z :=
  let i0 := trunc (findex first last n x) in
  let i1 := if (i0 =? n)%Z then (i0 - 1)%Z else i0 in
  let i2 := if x <? edge edges i1 then (i1 - 1)%Z else i1 in
  if (edge edges (i2 + 1) <=? x) && negb (i2 =? n - 1)%Z then (i2 + 1)%Z else i2.

Definition keep (first last x : F) : bool := (first <=? x) && (x <=? last).

(** bin indices of the values that lie in the range, in the order of the data *)
Definition bin_indices (xs : list F) (n : Z) (lo hi : F) : list Z :=
  let '(first, last) := outer_edges lo hi in
  map (bin_index (linspace first last n) first last n) (filter (keep first last) xs).

Definition bincount (idx : list Z) (n : Z) : list Z := map (fun i => count_eq i idx) (zrange n).

(** np.histogram(xs, bins = n, range = (lo, hi))[0] *)
Definition histogram (xs : list F) (n : Z) (lo hi : F) : list Z := bincount (bin_indices xs n lo hi) n.

(** np.histogram(...)[1] *)
Definition hist_edges (n : Z) (lo hi : F) : list F :=
  let '(first, last) := outer_edges lo hi in linspace first last n.

(** the declarative reading of a bin: edges[i] <= x < edges[i+1], the last bin closed on the right *)
Definition in_bin (edges : list F) (n i : Z) (x : F) : bool :=
  (edge edges i <=? x) && (if (i =? n - 1)%Z then x <=? edge edges n else x <? edge edges (i + 1)).

End Hist.
