(** Model of menelaus/change_detection/adwin.py (ADWIN; ADWINAccuracy is ADWIN on the indicator).
    Rows of the exponential histogram: [a_rows] lists row 0 (buckets of 1 sample) first; inside a
    row the oldest bucket comes first.  [log] only occurs in the epsilon-cut through
    delta' = log(c * log(W) / delta), supplied as the oracle [dpd : Z -> F] (indexed by W). *)
From MV Require Import Base Num.

Section Adwin.
Context {N : Num}.
Local Open Scope num_scope.
Notation F := (F N).

Definition bucket := (F * F)%type.          (* (total, variance) *)
Definition brow := list bucket.

Record adwin_params := {
  a_max_buckets : Z; a_new_sample_thresh : Z; a_window_size_thresh : Z; a_sub_thresh : Z;
  a_conservative : bool
}.

Record adwin_st := {
  a_rows : list brow; a_total : F; a_var : F; a_W : Z;
  a_n : Z; a_since : Z; a_ds : dstate; a_recs : recsT;
  a_fuel_out : bool                      (* the shrink loop ran out of fuel (never, see proofs) *)
}.

Definition adwin_init : adwin_st :=
  {| a_rows := [[]]; a_total := f0; a_var := f0; a_W := 0; a_n := 0; a_since := 0; a_ds := DNone;
     a_recs := recs_none; a_fuel_out := false |}.

Definition zlen {A} (l : list A) : Z := Z.of_nat (length l).

(** _compress_buckets: merge the two oldest buckets of a full row into the next row *)
Definition merge (ne : Z) (b0 b1 : bucket) : bucket :=
  let m1 := fst b0 / fofZ ne in
  let m2 := fst b1 / fofZ ne in
  (fst b0 + fst b1, (snd b0 + snd b1) + ((fofZ ne * (m1 - m2)) * (m1 - m2)) / fofZ 2).

Fixpoint compress (M ne : Z) (r : brow) (rest : list brow) {struct rest} : list brow :=
  if (zlen r =? M + 1)%Z then
    match r with
    | b0 :: b1 :: r' =>
        let nb := merge ne b0 b1 in
        match rest with
        | [] => [r'; [nb]]
        | nx :: rest' =>
            let nx' := nx ++ [nb] in
            if (zlen nx' <=? M)%Z then r' :: nx' :: rest' else r' :: compress M (2 * ne) nx' rest'
        end
    | _ => r :: rest
    end
  else r :: rest.

(** buckets in the order the scan visits them (tail row first, oldest bucket first), each with its
    size 2^row and a flag "this is the newest bucket of row 0" *)
Fixpoint flat_rows (ne : Z) (rows : list brow) (is_row0 : bool) : list (Z * bucket * bool) :=
  match rows with
  | [] => []
  | r :: rest =>
      flat_rows (2 * ne) rest false ++
      (fix tag (l : brow) : list (Z * bucket * bool) :=
         match l with
         | [] => []
         | [b] => [(ne, b, is_row0)]
         | b :: l' => (ne, b, false) :: tag l'
         end) r
  end.

Definition variance_of (var : F) (W : Z) : F := if (W =? 0)%Z then f0 else var / fofZ W.
Definition mean_of (total : F) (W : Z) : F := if (W =? 0)%Z then f0 else total / fofZ W.

Section WithOracle.
Variable dpd : Z -> F.                     (* log(2 log W / delta)  resp.  log(4 log W / delta) *)
Variable p : adwin_params.

Definition two_thirds : F := f1 * (fofZ 2 / fofZ 3).

(** _check_epsilon *)
Definition eps_cut (var : F) (W n0 n1 : Z) : F :=
  let h := f1 / fofZ (n0 - a_sub_thresh p + 1) + f1 / fofZ (n1 - a_sub_thresh p + 1) in
  let L := dpd W in
  if a_conservative p then fsqrt (((f1 / fofZ 2) * h) * L)
  else fsqrt (((fofZ 2 * h) * variance_of var W) * L) + (two_thirds * h) * L.

Definition exceeds (var : F) (W n0 n1 : Z) (t0 t1 : F) : bool :=
  eps_cut var W n0 n1 <? fabs (f1 * ((t0 / fofZ n0) - (t1 / fofZ n1))).

(** one pass of the inner loops of _shrink_window: is there an admissible split, visited before the
    newest bucket of row 0, whose difference of means exceeds the cut? *)
Fixpoint scan (bs : list (Z * bucket * bool)) (var : F) (W n0 n1 : Z) (t0 t1 : F) : bool :=
  match bs with
  | [] => false
  | (sz, b, last0) :: rest =>
      let n0' := (n0 + sz)%Z in let n1' := (n1 - sz)%Z in
      let t0' := t0 + fst b in let t1' := t1 - fst b in
      if last0 then false
      else if (a_sub_thresh p <=? n0')%Z && (a_sub_thresh p <=? n1')%Z && exceeds var W n0' n1' t0' t1'
           then true
           else scan rest var W n0' n1' t0' t1'
  end.

Definition found_cut (s : adwin_st) : bool :=
  scan (flat_rows 1 (a_rows s) true) (a_var s) (a_W s) 0 (a_W s) f0 (a_total s).

(** _remove_last: drop the oldest bucket (first bucket of the tail row), then every empty tail row *)
Fixpoint drop_empty_tail (rows : list brow) : list brow :=
  match rows with
  | [] => []
  | [r] => [r]
  | r :: rest =>
      match drop_empty_tail rest with
      | [[]] => [r]
      | rest' => r :: rest'
      end
  end.

Fixpoint pop_tail_bucket (rows : list brow) : option bucket * list brow :=
  match rows with
  | [] => (None, [])
  | [r] => (match r with b :: _ => Some b | [] => None end, [tl r])
  | r :: rest => let '(b, rest') := pop_tail_bucket rest in (b, r :: rest')
  end.

Definition pow2 (k : nat) : Z := 2 ^ Z.of_nat k.

Definition remove_last (s : adwin_st) : adwin_st :=
  let nc := pow2 (length (a_rows s) - 1) in
  let '(ob, rows') := pop_tail_bucket (a_rows s) in
  let b := match ob with Some b => b | None => (f0, f0) end in
  let W' := (a_W s - nc)%Z in
  let total' := a_total s - fst b in
  let mc := fst b / fofZ nc in
  let d := mc - total' / fofZ W' in
  let var' := a_var s - (snd b + ((fofZ (nc * W') * d) * d) / fofZ (nc + W')) in
  {| a_rows := drop_empty_tail rows'; a_total := total'; a_var := var'; a_W := W';
     a_n := a_n s; a_since := a_since s; a_ds := DDrift;
     a_recs := (Some (a_n s - W')%Z, Some (a_n s - 1)%Z); a_fuel_out := a_fuel_out s |}.

Fixpoint shrink (fuel : nat) (s : adwin_st) : adwin_st :=
  if found_cut s then
    match fuel with
    | O => {| a_rows := a_rows s; a_total := a_total s; a_var := a_var s; a_W := a_W s; a_n := a_n s;
              a_since := a_since s; a_ds := a_ds s; a_recs := a_recs s; a_fuel_out := true |}
    | S fuel' => shrink fuel' (remove_last s)
    end
  else s.

Definition n_buckets (rows : list brow) : nat := length (concat rows).

Definition scheduled (s : adwin_st) : bool :=
  (a_n s mod a_new_sample_thresh p =? 0)%Z && (a_window_size_thresh p <? a_W s)%Z.

Definition adwin_update (s : adwin_st) (x : F) : adwin_st :=
  let '(since0, recs0) := if is_none (a_ds s) then (a_since s, a_recs s) else (0%Z, recs_none) in
  let W := (a_W s + 1)%Z in
  let var := if (1 <? W)%Z
             then let d := x - a_total s / fofZ (W - 1) in a_var s + ((fofZ (W - 1) * d) * d) / fofZ W
             else a_var s in
  let total := a_total s + x in
  let rows := match a_rows s with
              | r0 :: rest => compress (a_max_buckets p) 1 (r0 ++ [(x, f0)]) rest
              | [] => compress (a_max_buckets p) 1 [(x, f0)] []
              end in
  let s1 := {| a_rows := rows; a_total := total; a_var := var; a_W := W; a_n := (a_n s + 1)%Z;
               a_since := (since0 + 1)%Z; a_ds := DNone; a_recs := recs0; a_fuel_out := a_fuel_out s |} in
  if scheduled s1 then shrink (n_buckets rows) s1 else s1.

Definition adwin_run (s : adwin_st) (xs : list F) : adwin_st := fold_left adwin_update xs s.

End WithOracle.
End Adwin.
