(** C05 — DDM, EDDM and STEPD decide from the error sequence exactly as specified.
    Statements only (proofs: Ddm_Proofs.v, Lifecycle_Proofs.v).  Every statement holds for every
    arithmetic instance [N], hence for the bit-exact float model that the correspondence check
    runs against the implementation. *)
From MV Require Import Base Num Lifecycle Lifecycle_Proofs Ddm Ddm_Proofs.
Local Open Scope num_scope.

Section C05.
Context {N : Num}.

(** DDM: no decision before n_threshold samples of the epoch; afterwards the scaled-threshold rule
    against the minimum tracked by the `<=` rule, on the running statistics. *)
Theorem C05_ddm_rule : forall (p : @ddm_params N) e n err,
  ((n < ddm_n_threshold p)%Z -> snd (ddm_step p e n err) = None) /\
  ((ddm_n_threshold p <= n)%Z ->
     let r := ddm_rate' e n err in let sd := ddm_sd' e n err in let rmin := ddm_rmin' e n err in
     snd (ddm_step p e n err) =
       Some (if (rmin + ddm_drift_scale p * sd) <=? (r + sd) then DDrift
             else if (rmin + ddm_warning_scale p * sd) <=? (r + sd) then DWarn else DNone)) /\
  d_rate (fst (ddm_step p e n err)) = ddm_rate' e n err /\
  d_std (fst (ddm_step p e n err)) = ddm_sd' e n err /\
  ((ddm_n_threshold p <= n)%Z -> d_rate_min (fst (ddm_step p e n err)) = ddm_rmin' e n err).
Proof.
  intros p e n err. pose proof (ddm_state_update p e n err) as (H1 & H2 & _ & H4).
  exact (conj (fun H => proj2 (ddm_gate_iff p e n err) (proj2 (Z.leb_gt _ _) H))
        (conj (ddm_decision p e n err) (conj H1 (conj H2 H4)))).
Qed.

(** EDDM: correct predictions change nothing; an error updates the distance statistics; from the
    n_threshold-th error of the epoch on, the ratio to the running maximum is tested. *)
Theorem C05_eddm_rule : forall (p : @eddm_params N) e n,
  eddm_step p e n true = (e, None) /\
  ((e_n_errors e + 1 < eddm_n_threshold p)%Z -> snd (eddm_step p e n false) = None) /\
  ((eddm_n_threshold p <= e_n_errors e + 1)%Z ->
     let stat := eddm_num' e n / eddm_max' e n in
     snd (eddm_step p e n false) =
       Some (if stat <=? eddm_drift_thresh p then DDrift
             else if stat <=? eddm_warning_thresh p then DWarn else DNone)
     /\ e_n_errors (fst (eddm_step p e n false)) = (e_n_errors e + 1)%Z
     /\ e_max (fst (eddm_step p e n false)) = eddm_max' e n).
Proof.
  intros p e n. split; [reflexivity|]. split; [|exact (eddm_decision p e n)].
  intros H. destruct (snd (eddm_step p e n false)) as [d|] eqn:E; [|reflexivity].
  destruct (eddm_warmup p e n false d E) as [_ H']. lia.
Qed.

(** STEPD: silent until 2*window_size samples; then drift / warning iff accuracy decreased and the
    one-sided p-value of the continuity-corrected statistic is below the respective alpha. *)
Theorem C05_stepd_rule : forall (p : @stepd_params N) e n (x : bool * F N),
  ((n < 2 * stepd_window p)%Z -> snd (stepd_step p e n x) = None) /\
  ((2 * stepd_window p <= n)%Z ->
     let e1 := fst (stepd_step p e n x) in
     let recent := stepd_recent e1 in let past := stepd_past e1 n in
     let decreased := recent <? past in
     snd (stepd_step p e n x) =
       Some (if decreased && (snd x <? stepd_alpha_drift p) then DDrift
             else if decreased && (snd x <? stepd_alpha_warning p) then DWarn else DNone)
     /\ s_stat e1 = Some (stepd_statistic (stepd_window p) n recent past (stepd_overall e1 n))
     /\ s_p e1 = Some (snd x)).
Proof.
  intros p e n x. split; [|exact (stepd_decision p e n x)].
  intros H. apply stepd_gate_iff. unfold stepd_gate. apply Z.leb_gt. exact H.
Qed.

(** STEPD's counters are what the specification needs: after the outcomes of an epoch the window
    holds the most recent min(n, w) of them, [s] counts the correct ones inside and [r] those before. *)
Theorem C05_stepd_window_invariant : forall (p : @stepd_params N) xs,
  stepd_inv (stepd_window p) (map (fun x : bool * F N => if fst x then 1%Z else 0%Z) xs)
            (stepd_feed p stepd_e0 0 xs).
Proof. intros p xs. exact (stepd_feed_inv p xs [] stepd_e0 0 (stepd_inv_init (stepd_window p))). Qed.

(** retraining_recs of DDM and EDDM: whenever drift is reported, (first warning of the epoch or
    the drift index, drift index = current sample) *)
Theorem C05_ddm_recs : forall (p : @ddm_params N) xs,
  let s := run (init (DDM p) ddm_e0) xs in
  ds s = DDrift -> exists a, recs s = (Some a, Some (total s - 1)%Z) /\ (a <= total s - 1)%Z.
Proof. intros p xs. exact (recs_on_drift_fw (DDM p) ddm_e0 xs eq_refl). Qed.

Theorem C05_eddm_recs : forall (p : @eddm_params N) xs,
  let s := run (init (EDDM p) eddm_e0) xs in
  ds s = DDrift -> exists a, recs s = (Some a, Some (total s - 1)%Z) /\ (a <= total s - 1)%Z.
Proof. intros p xs. exact (recs_on_drift_fw (EDDM p) eddm_e0 xs eq_refl). Qed.

(** STEPD: recs are present exactly while the state is not None and span the current
    uninterrupted warning/drift run, ending at the current sample *)
Theorem C05_stepd_recs : forall (p : @stepd_params N) xs,
  let s := run (init (STEPD p) stepd_e0) xs in
  (ds s = DNone -> recs s = recs_none) /\
  (ds s <> DNone -> exists a, recs s = (Some a, Some (total s - 1)%Z) /\ (a <= total s - 1)%Z).
Proof.
  intros p xs.
  exact (recs_run_contract (STEPD p) (stepd_gate p) (stepd_gate_iff p) (stepd_gate_mono p) stepd_e0 xs eq_refl).
Qed.

End C05.

(** exact arithmetic (reals): DDM's running error rate is the error frequency of the epoch.  In double
    precision the recurrence deviates by rounding; the bit-exact float model is what the code is tied to. *)
From MV Require Import NumLaws Ddm_Exact.
From Coq Require Import Reals.
Theorem C05_ddm_rate_exact_reals : forall (p : @ddm_params NumR) errs, errs <> [] ->
  d_rate (ddm_feed p ddm_e0 0 errs) = (IZR (n_err errs) / IZR (Z.of_nat (length errs)))%R.
Proof. exact ddm_rate_exact. Qed.

(** exact arithmetic (reals): EDDM's mean distance between errors = (index of the last error of the epoch)
    / (number of errors) = the mean of the gaps between consecutive errors *)
Theorem C05_eddm_mean_distance_exact_reals : forall (p : @eddm_params NumR) oks,
  let e := eddm_feed p eddm_e0 0 oks in
  (0 < e_n_errors e)%Z -> e_mean e = (IZR (e_idx_curr e) / IZR (e_n_errors e))%R.
Proof. exact eddm_mean_exact. Qed.

Print Assumptions C05_ddm_rule.
Print Assumptions C05_eddm_rule.
Print Assumptions C05_stepd_rule.
Print Assumptions C05_stepd_window_invariant.
Print Assumptions C05_ddm_recs.
Print Assumptions C05_eddm_recs.
Print Assumptions C05_stepd_recs.
Print Assumptions C05_ddm_rate_exact_reals.
Print Assumptions C05_eddm_mean_distance_exact_reals.
