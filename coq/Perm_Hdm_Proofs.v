(** C18 - lemmas, histogram part: np.histogram counts, the joint range and therefore every quantity
    HDDDM / CDBD compute from a (reference, batch) pair are independent of the order of the rows; for
    detect_batch <> 1 (the reference is never split by position) whole runs on row-permuted inputs
    stay in lock-step.  The models are the ones of property C07 ([Hist.v], [Hdm.v]: imported, unchanged). *)
From MV Require Import Base Num NumLaws KdqTree KdqTree_Proofs PermDet Perm_Proofs Hist Hdm.
From Coq Require Import Permutation ZifyBool.
Open Scope Z_scope.

Lemma zlen_perm {A} (l l' : list A) : Permutation l l' -> zlen l = zlen l'.
Proof. intros H. unfold zlen. rewrite (Permutation_length H). reflexivity. Qed.

Lemma count_eq_perm i (l l' : list Z) : Permutation l l' -> count_eq i l = count_eq i l'.
Proof. intros H. unfold count_eq. apply zlen_perm. apply filter_perm. exact H. Qed.

Lemma bincount_perm (l l' : list Z) n : Permutation l l' -> bincount l n = bincount l' n.
Proof. intros H. unfold bincount. apply map_ext. intros i. apply count_eq_perm. exact H. Qed.

Section HistPerm.
Context {N : Num}.
Local Open Scope num_scope.
Notation F := (F N).
Variable trunc : F -> Z.

Lemma bin_indices_perm (xs xs' : list F) n lo hi :
  Permutation xs xs' -> Permutation (bin_indices trunc xs n lo hi) (bin_indices trunc xs' n lo hi).
Proof.
  intros H. unfold bin_indices. destruct (outer_edges lo hi) as [first last].
  apply Permutation_map. apply filter_perm. exact H.
Qed.

(** np.histogram(xs, bins, range)[0] depends only on the multiset of the values.  No law of the
    arithmetic is needed: every value is binned on its own. *)
Lemma histogram_perm (xs xs' : list F) n lo hi :
  Permutation xs xs' -> histogram trunc xs n lo hi = histogram trunc xs' n lo hi.
Proof. intros H. unfold histogram. apply bincount_perm. apply bin_indices_perm. exact H. Qed.

Lemma lmin_col_min (l : list F) : lmin l = col_min l.
Proof. reflexivity. Qed.
Lemma lmax_col_max (l : list F) : lmax l = col_max l.
Proof. reflexivity. Qed.

Lemma hcol_perm f (r r' : list (@hrow N)) : Permutation r r' -> Permutation (hcol f r) (hcol f r').
Proof. apply Permutation_map. Qed.

Variable PL : PermLaws N.

(** .min() / .max() of the pooled column *)
Lemma feat_range_perm (r r' X X' : list (@hrow N)) f :
  Permutation r r' -> Permutation X X' -> feat_range r X f = feat_range r' X' f.
Proof.
  intros Hr HX. unfold feat_range.
  assert (H : Permutation (hcol f r ++ hcol f X) (hcol f r' ++ hcol f X'))
    by (apply Permutation_app; apply hcol_perm; assumption).
  rewrite !lmin_col_min, !lmax_col_max, (col_min_perm PL _ _ H), (col_max_perm PL _ _ H). reflexivity.
Qed.

Lemma feat_hists_perm bins (r r' X X' : list (@hrow N)) f :
  Permutation r r' -> Permutation X X' -> feat_hists trunc bins r X f = feat_hists trunc bins r' X' f.
Proof.
  intros Hr HX. unfold feat_hists. rewrite (feat_range_perm r r' X X' f Hr HX).
  destruct (feat_range r' X' f) as [lo hi].
  rewrite (histogram_perm _ _ bins lo hi (hcol_perm f r r' Hr)), (histogram_perm _ _ bins lo hi (hcol_perm f X X' HX)).
  reflexivity.
Qed.

Lemma all_hists_perm k bins (r r' X X' : list (@hrow N)) :
  Permutation r r' -> Permutation X X' -> all_hists trunc k bins r X = all_hists trunc k bins r' X'.
Proof. intros Hr HX. unfold all_hists. apply map_ext. intros f. apply feat_hists_perm; assumption. Qed.

(** ---------------------------------------------------------------- the detector *)
Variable sq : F -> F.
Variable dist : list Z -> list Z -> F.
Variable tppf : Z -> F.

Notation hst := (@hst N).
Notation core := (hdm_core trunc sq dist tppf).

(** [s] with the reference (and nothing else) forgotten *)
Definition hforget (s : hst) : hst :=
  mk_hst [] (h_ref_n s) (h_bins s) (h_eps s) (h_tot s) (h_lambda s) (h_prev s) (h_prev_fd s)
         (h_total s) (h_since s) (h_ds s) (h_cur s) (h_beta s) (h_feps s) (h_finfo s)
         (h_dists s) (h_epsv s) (h_thr s) (h_cur_now s) (h_eps_now s) (h_beta_now s) (h_hists s).

(** two detector states that differ at most in the order of the rows of the reference *)
Definition hrel (s s' : hst) : Prop := Permutation (h_ref s) (h_ref s') /\ hforget s = hforget s'.

Lemma hrel_refl s : hrel s s.
Proof. split; reflexivity. Qed.

Lemma hdm_core_rel p s s' X X' boot :
  hrel s s' -> Permutation X X' -> hrel (core p s X boot) (core p s' X' boot).
Proof.
  intros [Hp He] HX. destruct s, s'. unfold hforget in He. simpl in *.
  injection He; intros; subst. unfold hdm_core; simpl.
  rewrite (all_hists_perm _ _ _ _ _ _ Hp HX), (zlen_perm _ _ HX), (zlen_perm _ _ (Permutation_app Hp HX)).
  destruct (adaptive_threshold sq tppf p _ _ _ _ _ _) as [[eps_c tot_c] beta].
  unfold hrel, hforget; simpl. split; [|reflexivity].
  repeat match goal with |- context [if ?b then _ else _] => destruct b; simpl end;
    try assumption; apply Permutation_app; assumption.
Qed.

Lemma hdm_reset_rel p s s' : h_db p <> 1%Z -> hrel s s' ->
  hrel (hdm_reset trunc sq dist tppf p s) (hdm_reset trunc sq dist tppf p s').
Proof.
  intros Hdb [Hp He]. unfold hdm_reset, hdm_reset_base.
  destruct (h_db p =? 1)%Z eqn:E; [lia|].
  destruct s, s'. unfold hforget in He. simpl in *. injection He; intros; subst.
  unfold hrel, hforget; simpl. rewrite (zlen_perm _ _ Hp). split; [exact Hp | reflexivity].
Qed.

Lemma hrel_ds s s' : hrel s s' -> h_ds s = h_ds s'.
Proof. intros [_ He]. apply (f_equal h_ds) in He. exact He. Qed.

Lemma hdm_update_rel p s s' X X' boot : h_db p <> 1%Z ->
  hrel s s' -> Permutation X X' ->
  hrel (hdm_update trunc sq dist tppf p s X boot) (hdm_update trunc sq dist tppf p s' X' boot).
Proof.
  intros Hdb Hs HX. unfold hdm_update. rewrite <- (hrel_ds s s' Hs).
  apply hdm_core_rel; [|exact HX].
  destruct (is_drift (h_ds s)); [apply hdm_reset_rel; assumption | exact Hs].
Qed.

Lemma hdm_set_reference_rel p s s' X X' : h_db p <> 1%Z ->
  hrel s s' -> Permutation X X' ->
  hrel (hdm_set_reference trunc sq dist tppf p s X) (hdm_set_reference trunc sq dist tppf p s' X').
Proof.
  intros Hdb [Hp He] HX. unfold hdm_set_reference.
  destruct (h_db p =? 1)%Z eqn:E; [lia|]. simpl.
  apply hdm_reset_rel; [exact Hdb|].
  destruct s, s'. unfold hforget in He. simpl in *. injection He; intros; subst.
  unfold hrel, with_reference, hforget; simpl. split; [exact HX | reflexivity].
Qed.

(** with detect_batch = 3 the bootstrap estimate (the positional resampling) is never read *)
Lemma hdm_core_boot3 p s X b b' : h_db p = 3%Z -> core p s X b = core p s X b'.
Proof.
  intros Hdb. unfold hdm_core, boot_phase. rewrite Hdb.
  replace (negb (3 =? 3)%Z) with false by reflexivity. rewrite !andb_false_r. reflexivity.
Qed.

Lemma hdm_update_boot3 p s X b b' : h_db p = 3%Z ->
  hdm_update trunc sq dist tppf p s X b = hdm_update trunc sq dist tppf p s X b'.
Proof. intros Hdb. unfold hdm_update. apply hdm_core_boot3. exact Hdb. Qed.

(** related operations: the same calls on row-permuted data.  [same_boot = true]: the bootstrap
    oracle returns the same value on both sides (what has to be ASSUMED for detect_batch = 2, where the
    implementation resamples the reference by position); [false]: arbitrary values on both sides. *)
Inductive hop_rel (same_boot : bool) : @hop N -> @hop N -> Prop :=
| HR_upd X X' b b' : Permutation X X' -> (same_boot = true -> b = b') -> hop_rel same_boot (OUpd X b) (OUpd X' b')
| HR_ref X X' : Permutation X X' -> hop_rel same_boot (ORef X) (ORef X').

Lemma hdm_apply_rel p sb s s' o o' : h_db p <> 1%Z -> (sb = false -> h_db p = 3%Z) ->
  hrel s s' -> hop_rel sb o o' ->
  hrel (hdm_apply trunc sq dist tppf p s o) (hdm_apply trunc sq dist tppf p s' o').
Proof.
  intros Hdb H3 Hs Ho. destruct Ho as [X X' b b' HX Hb | X X' HX]; simpl.
  - destruct sb.
    + rewrite (Hb eq_refl). apply hdm_update_rel; assumption.
    + rewrite (hdm_update_boot3 p s X b b' (H3 eq_refl)). apply hdm_update_rel; assumption.
  - apply hdm_set_reference_rel; assumption.
Qed.

(** observations that agree in everything except the order of the rows of the reference *)
Definition hobs_rel (o o' : @hobs N) : Prop :=
  ho_ds o = ho_ds o' /\ ho_total o = ho_total o' /\ ho_since o = ho_since o'
  /\ ho_cur o = ho_cur o' /\ ho_eps o = ho_eps o' /\ ho_beta o = ho_beta o'
  /\ ho_ref_n o = ho_ref_n o' /\ Permutation (ho_ref o) (ho_ref o')
  /\ ho_epsl o = ho_epsl o' /\ ho_tot o = ho_tot o'.

Lemma hrel_obs s s' : hrel s s' -> hobs_rel (hobserve s) (hobserve s').
Proof.
  intros [Hp He]. destruct s, s'. unfold hforget in He. simpl in *. injection He; intros; subst.
  unfold hobs_rel, hobserve; simpl. repeat split; try reflexivity. exact Hp.
Qed.

Lemma hdm_trace_rel p sb : h_db p <> 1%Z -> (sb = false -> h_db p = 3%Z) ->
  forall ops ops' s s', hrel s s' -> Forall2 (hop_rel sb) ops ops' ->
  Forall2 hobs_rel (hdm_trace trunc sq dist tppf p s ops) (hdm_trace trunc sq dist tppf p s' ops').
Proof.
  intros Hdb H3. induction ops as [|o ops IH]; intros ops' s s' Hs Ho; inversion Ho; subst; simpl.
  - constructor.
  - pose proof (hdm_apply_rel p sb s s' o y Hdb H3 Hs H1) as Hn.
    constructor; [apply hrel_obs; exact Hn | apply IH; assumption].
Qed.

(** one update: same distance, same histograms *)
Lemma hdm_distance_rel p s s' X X' b b' : hrel s s' -> Permutation X X' ->
  h_cur (core p s X b) = h_cur (core p s' X' b') /\ h_hists (core p s X b) = h_hists (core p s' X' b').
Proof.
  intros [Hp He] HX. destruct s, s'. unfold hforget in He. simpl in *. injection He; intros; subst.
  unfold hdm_core; simpl. rewrite (all_hists_perm _ _ _ _ _ _ Hp HX).
  destruct (adaptive_threshold sq tppf p _ _ _ _ _ _) as [[? ?] ?].
  destruct (adaptive_threshold sq tppf p _ _ _ _ _ _) as [[? ?] ?]. simpl. split; reflexivity.
Qed.
End HistPerm.
