(** C01 — drift state, counters and warm-up follow the detector lifecycle contract.
    Statements only.  Generic theorems hold for every kernel of the machine in Lifecycle.v (so for
    DDM, EDDM, STEPD, PageHinkley, CUSUM, LinearFourRates as modelled, for every arithmetic instance);
    ADWIN / ADWINAccuracy have their own machine (Adwin.v).  drift_state in {None, warning, drift} is
    typing in the models ([dstate]); its content is in the correspondence check.  The data-drift
    detectors and MD3 are covered by the direct oracle of this check and by the theorems of their own
    properties (C07, C09, C10, C11, C19). *)
From MV Require Import Base Num Lifecycle Lifecycle_Proofs Ddm Ddm_Proofs Pairwise ChangeDet ChangeDet_Proofs
  Lfr Lfr_Proofs Adwin Adwin_Proofs.

(** total = number of updates; the since-reset counter advances by one except that it restarts to 1 on
    the update that follows a reported drift (no reset() call needed) *)
Theorem C01_counters : forall (K : kernel) e xs (s : st K) x,
  (let r := run (init K e) xs in total r = Z.of_nat (length xs) /\ 0 <= since r <= total r) /\
  total (update s x) = total s + 1 /\
  since (update s x) = (if is_drift (ds s) then 1 else since s + 1).
Proof.
  intros K e xs s x. exact (conj (counters_reachable K e xs) (conj (update_total K s x) (update_since K s x))).
Qed.

(** retraining_recs on drift: a range that starts no later than it ends and ends at the current sample *)
Theorem C01_recs_on_drift_first_warning_policy : forall (K : kernel) e xs, policy K = PolFirstWarn ->
  let s := run (init K e) xs in
  ds s = DDrift -> exists a, recs s = (Some a, Some (total s - 1)) /\ a <= total s - 1.
Proof. exact recs_on_drift_fw. Qed.

(** ... and the following update clears it (only the new warning / drift index can appear) *)
Theorem C01_recs_cleared_first_warning_policy : forall (K : kernel) (s : st K) x, policy K = PolFirstWarn -> ds s = DDrift ->
  let s' := update s x in
  (ds s' = DNone -> recs s' = recs_none) /\
  (ds s' = DWarn -> recs s' = (Some (total s), None)) /\
  (ds s' = DDrift -> recs s' = (Some (total s), Some (total s))).
Proof. exact recs_after_drift_fw. Qed.

Theorem C01_recs_cleared_any_policy : forall (K : kernel) (s : st K) x r', is_drift (ds s) = true ->
  update s x = update (mk_st (epoch s) (total s) (since s) (ds s) r') x.
Proof. exact recs_cleared. Qed.

Section Instances.
Context {N : Num}.

(** warm-up, as invariants of every reachable state *)
Theorem C01_warmup_ddm : forall (p : @ddm_params N) xs,
  let s := run (init (DDM p) ddm_e0) xs in ds s <> DNone -> ddm_n_threshold p <= since s.
Proof.
  intros p xs s H.
  pose proof (warmup_invariant (DDM p) (fun _ n => ddm_n_threshold p <=? n)) as W.
  apply Z.leb_le. apply (W); [| |exact H].
  - intros e n x d Hd _. apply Z.leb_le. exact (ddm_warmup p e n x d Hd).
  - intros e n x _ Hg. apply Z.leb_le in Hg. apply Z.leb_le. lia.
Qed.

Theorem C01_warmup_eddm : forall (p : @eddm_params N) xs,
  let s := run (init (EDDM p) eddm_e0) xs in ds s <> DNone -> eddm_n_threshold p <= e_n_errors (epoch s).
Proof.
  intros p xs s H.
  pose proof (warmup_invariant (EDDM p) (fun e _ => eddm_n_threshold p <=? e_n_errors e)) as W.
  apply Z.leb_le. apply W; [| |exact H].
  - intros e n x d Hd _. apply Z.leb_le. simpl in *. rewrite eddm_counts_errors.
    destruct (eddm_warmup p e n x d Hd) as [-> Hn]. lia.
  - intros e n x _ Hg. apply Z.leb_le in Hg. apply Z.leb_le. simpl. rewrite eddm_counts_errors. destruct x; lia.
Qed.

Theorem C01_warmup_stepd : forall (p : @stepd_params N) xs,
  let s := run (init (STEPD p) stepd_e0) xs in ds s <> DNone -> 2 * stepd_window p <= since s.
Proof.
  intros p xs s H.
  pose proof (warmup_invariant (STEPD p) (fun _ n => 2 * stepd_window p <=? n)) as W.
  apply Z.leb_le. apply W; [| |exact H].
  - intros e n x d Hd _. apply Z.leb_le. exact (stepd_warmup p e n x d Hd).
  - intros e n x _ Hg. apply Z.leb_le in Hg. apply Z.leb_le. lia.
Qed.

Theorem C01_warmup_page_hinkley : forall (p : @ph_params N) xs,
  let s := run (init (PH p) ph_e0) xs in ds s <> DNone -> ph_burn_in p < since s.
Proof.
  intros p xs s H.
  pose proof (warmup_invariant (PH p) (fun _ n => ph_burn_in p <? n)) as W.
  apply Z.ltb_lt. apply W; [| |exact H].
  - intros e n x d Hd _. apply Z.ltb_lt.
    destruct (Z.lt_ge_cases (ph_burn_in p) n) as [L|G]; [exact L|].
    change (snd (ph_step p e n x) = Some d) in Hd. rewrite ph_no_alarm_in_burn_in in Hd by lia. discriminate.
  - intros e n x _ Hg. apply Z.ltb_lt in Hg. apply Z.ltb_lt. lia.
Qed.

Theorem C01_warmup_cusum : forall (p : @cusum_params N) tg sd xs,
  let s := run (init (CUSUM p) (cusum_e0 tg sd)) xs in ds s <> DNone -> c_burn_in p < since s.
Proof.
  intros p tg sd xs s H.
  pose proof (warmup_invariant (CUSUM p) (fun _ n => c_burn_in p <? n)) as W.
  apply Z.ltb_lt. apply W; [| |exact H].
  - intros e n x d Hd _. apply Z.ltb_lt.
    destruct (Z.lt_ge_cases (c_burn_in p) n) as [L|G]; [exact L|].
    change (snd (cusum_step p e n x) = Some d) in Hd. rewrite cusum_no_alarm_in_burn_in in Hd by lia. discriminate.
  - intros e n x _ Hg. apply Z.ltb_lt in Hg. apply Z.ltb_lt. lia.
Qed.

Theorem C01_warmup_lfr : forall (p : @lfr_params N) xs,
  let s := run (init (LFR p) lfr_e0) xs in
  ds s <> DNone -> l_burn_in p < since s /\ since s mod l_subsample p = 0.
Proof.
  intros p xs s H.
  pose proof (warmup_invariant (LFR p) (fun _ n => lfr_gated p n)) as W.
  assert (G : lfr_gated p (since s) = true).
  { apply W; [| |exact H].
    - intros e n x d Hd Hn. destruct (lfr_gated p n) eqn:Eg; [reflexivity|].
      destruct (lfr_step_ungated p e n x Eg) as [Hu _]. change (snd (lfr_step p e n x) = Some d) in Hd. rewrite Hu in Hd. congruence.
    - intros e n x Hnone _. destruct (lfr_step_decides p e n x) as [d Hd]. change (snd (lfr_step p e n x) = None) in Hnone. congruence. }
  unfold lfr_gated in G. apply andb_true_iff in G as [G1 G2]. apply Z.ltb_lt in G1. apply Z.eqb_eq in G2. split; assumption.
Qed.

(** ADWIN / ADWINAccuracy: counters, restart on the update after a drift, check schedule and minimum
    window, recommendation on drift and its clearing *)
Theorem C01_adwin : forall (dpd : Z -> F N) (p : adwin_params) (s : @adwin_st N) x,
  let s' := adwin_update dpd p s x in
  a_n s' = a_n s + 1 /\
  a_since s' = (if is_none (a_ds s) then a_since s + 1 else 1) /\
  (a_ds s' = DDrift -> (a_n s + 1) mod a_new_sample_thresh p = 0 /\ a_window_size_thresh p < a_W s + 1) /\
  (a_ds s' = DDrift -> a_recs s' = (Some (a_n s' - a_W s'), Some (a_n s' - 1)) /\ a_W s' <= a_W s) /\
  (a_ds s = DDrift -> a_ds s' = DNone -> a_recs s' = recs_none).
Proof.
  intros dpd p s x. cbv zeta.
  destruct (adwin_counters dpd p s x) as [H1 H2].
  repeat split; try assumption.
  - exact (proj1 (adwin_warmup dpd p s x H)).
  - exact (proj2 (adwin_warmup dpd p s x H)).
  - destruct (adwin_width_step dpd p s x) as [[_ Hd] | (_ & _ & Hr)]; [cbv zeta in Hd; congruence | exact Hr].
  - destruct (adwin_width_step dpd p s x) as [[_ Hd] | (Hw & _ & _)]; [cbv zeta in Hd; congruence | exact Hw].
  - intros Hd Hn. exact (proj1 (adwin_recs_cleared dpd p s x Hd) Hn).
Qed.

End Instances.

Print Assumptions C01_counters.
Print Assumptions C01_recs_on_drift_first_warning_policy.
Print Assumptions C01_recs_cleared_first_warning_policy.
Print Assumptions C01_recs_cleared_any_policy.
Print Assumptions C01_warmup_ddm.
Print Assumptions C01_warmup_eddm.
Print Assumptions C01_warmup_stepd.
Print Assumptions C01_warmup_page_hinkley.
Print Assumptions C01_warmup_cusum.
Print Assumptions C01_warmup_lfr.
Print Assumptions C01_adwin.
