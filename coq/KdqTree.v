(** Model of menelaus/partitioners/KDQTreePartitioner.py (KDQTreePartitioner + KDQTreeNode),
    statement by statement, generic over the arithmetic [N : Num].

    - points are rows [list (F N)]; a data set is a list of rows plus the column count [m]
      (numpy's [data.shape = (n, m)]);
    - Python's [None] for a (sub)tree is the constructor [Nil]: [build] returns [None] for an empty
      array, so a split whose upper (or lower) part is empty would produce a node with a missing
      child (the fourth clause of the stop rule excludes an empty upper part);
    - the per-tree-id dictionaries [num_samples_in_compared_subtrees] are association lists
      (tree ids are integers; 0 is ["build"]);
    - the recursion of [KDQTreeNode.build] has no structural bound, so [build_node] takes explicit
      fuel and returns an out-of-fuel flag;
    - [int(clb * ptp)] (float -> int truncation) and the divergence [scipy.stats.entropy] are
      parameters ([trunc], [kl]) of the functions that need them.
    No proofs here (KdqTree_Proofs.v). *)
From MV Require Import Base Num.

Definition len {A} (l : list A) : Z := Z.of_nat (length l).

(** ---------------- per-id counts: a Python dict {tree_id: count} ---------------- *)
Definition counts := list (Z * Z).

Fixpoint lookup (id : Z) (c : counts) : option Z :=
  match c with
  | [] => None
  | (k, v) :: t => if k =? id then Some v else lookup id t
  end.

(** [c[id] = v] *)
Fixpoint set_count (id v : Z) (c : counts) : counts :=
  match c with
  | [] => [(id, v)]
  | (k, w) :: t => if k =? id then (k, v) :: t else (k, w) :: set_count id v t
  end.

Definition getd (id : Z) (c : counts) : Z := match lookup id c with Some v => v | None => 0 end.

(** [if tree_id not in c.keys() or reset: c[tree_id] = k  else: c[tree_id] += k] *)
Definition bump (id : Z) (reset : bool) (k : Z) (c : counts) : counts :=
  match lookup id c with
  | None => set_count id k c
  | Some v => if reset then set_count id k c else set_count id (v + k) c
  end.

Fixpoint zsum (l : list Z) : Z := match l with [] => 0 | x :: t => x + zsum t end.

Fixpoint all_some {A} (l : list (option A)) : option (list A) :=
  match l with
  | [] => Some []
  | None :: _ => None
  | Some x :: t => match all_some t with Some r => Some (x :: r) | None => None end
  end.

Section KdqTree.
Context {N : Num}.
Local Open Scope num_scope.
Notation F := (F N).

Definition point := list F.

(** KDQTreeNode: a leaf has axis/midpoint/left/right = None *)
Inductive tree :=
| Nil
| Leaf (c : counts)
| Node (axis : Z) (mid : F) (c : counts) (l r : tree).

Definition is_nil (t : tree) : bool := match t with Nil => true | _ => false end.

(** [data[:, axis]] of one row *)
Definition coord (axis : Z) (p : point) : F := nth (Z.to_nat axis) p f0.
Definition column (axis : Z) (data : list point) : list F := map (coord axis) data.

(** np.min / np.max of a non-empty column (finite values), np.ptp = max - min *)
Definition col_min (col : list F) : F :=
  match col with [] => f0 | x :: t => fold_left (fun a y => if y <? a then y else a) t x end.
Definition col_max (col : list F) : F :=
  match col with [] => f0 | x :: t => fold_left (fun a y => if a <? y then y else a) t x end.
Definition ptp (col : list F) : F := col_max col - col_min col.

(** np.unique(data).size: number of distinct scalars in the whole (flattened) array *)
Fixpoint distinct (l : list F) : Z :=
  match l with
  | [] => 0
  | x :: t => ((if existsb (feqb x) t then 0 else 1) + distinct t)%Z
  end.

Definition two : F := fofZ 2.
Definition half : F := f1 / two.

(** midpoint_at_axis = min + ptp / 2 ; new_cell_size = midpoint - min *)
Definition midpoint (axis : Z) (data : list point) : F :=
  let col := column axis data in col_min col + ptp col / two.
Definition cell_size (axis : Z) (data : list point) : F :=
  midpoint axis data - col_min (column axis data).

(** data[data[:, axis] > mid]  /  data[data[:, axis] <= mid] *)
Definition upper (axis : Z) (mid : F) (data : list point) : list point :=
  filter (fun p => mid <? coord axis p) data.
Definition lower (axis : Z) (mid : F) (data : list point) : list point :=
  filter (fun p => coord axis p <=? mid) data.

Section Build.
Variable m : Z.               (* number of columns *)
Variable cub : Z.             (* count_ubound *)
Variable mins : list F.       (* min_cutpoint_sizes (as the floats they are compared as) *)

Definition axis_of (depth : Z) : Z := depth mod m.

(** n <= count_ubound or np.unique(data).size <= count_ubound or new_cell_size <= min_cutpoint_sizes[axis]
    or midpoint_at_axis >= np.max(data[:, axis])
    (written with [if] so that evaluation short-circuits like Python's [or]; the last clause makes a
    node a leaf when the midpoint rounds up to the maximum, i.e. nothing would lie above it) *)
Definition stop_rule (data : list point) (depth : Z) : bool :=
  let axis := axis_of depth in
  if (len data <=? cub)%Z then true
  else if (distinct (concat data) <=? cub)%Z then true
  else if cell_size axis data <=? nth (Z.to_nat axis) mins f0 then true
  else col_max (column axis data) <=? midpoint axis data.

(** KDQTreeNode.build; the second component is [true] iff the fuel ran out somewhere *)
Fixpoint build_node (fuel : nat) (data : list point) (depth : Z) : tree * bool :=
  match data with
  | [] => (Nil, false)
  | _ :: _ =>
    if m =? 0 then (Nil, false)
    else if stop_rule data depth then (Leaf [(0, len data)], false)
    else match fuel with
      | O => (Nil, true)
      | S fuel' =>
        let axis := axis_of depth in
        let mid := midpoint axis data in
        let up := upper axis mid data in
        let lo := lower axis mid data in
        let '(l, fl) := build_node fuel' lo (depth + 1)%Z in
        let '(r, fr) := build_node fuel' up (depth + 1)%Z in
        (Node axis mid [(0, len up + len lo)%Z] l r, fl || fr)
      end
  end.
End Build.

(** KDQTreePartitioner.build: min_cutpoint_sizes[axis] = int(clb * ptp(data[:, axis])) *)
Definition min_sizes (trunc : F -> F) (clb : F) (m : Z) (data : list point) : list F :=
  map (fun a => trunc (clb * ptp (column (Z.of_nat a) data))) (seq 0 (Z.to_nat m)).

Definition build (trunc : F -> F) (cub : Z) (clb : F) (m : Z) (fuel : nat) (data : list point)
  : tree * bool :=
  build_node m cub (min_sizes trunc clb m data) fuel data 0.

(** KDQTreeNode.fill (visits every node, also with an empty sample) *)
Fixpoint fill (data : list point) (t : tree) (id : Z) (reset : bool) : tree :=
  match t with
  | Nil => Nil
  | Leaf c => Leaf (bump id reset (len data) c)
  | Node axis mid c l r =>
      let up := upper axis mid data in
      let lo := lower axis mid data in
      Node axis mid (bump id reset (len up + len lo)%Z c) (fill lo l id reset) (fill up r id reset)
  end.

(** KDQTreeNode.reset *)
Fixpoint reset_tree (value id : Z) (t : tree) : tree :=
  match t with
  | Nil => Nil
  | Leaf c => Leaf (set_count id value c)
  | Node axis mid c l r =>
      Node axis mid (set_count id value c) (reset_tree value id l) (reset_tree value id r)
  end.

Inductive op :=
| OFill (data : list point) (id : Z) (reset : bool)
| OReset (value id : Z).

Definition apply_op (t : tree) (o : op) : tree :=
  match o with
  | OFill data id reset => fill data t id reset
  | OReset value id => reset_tree value id t
  end.

Definition run_ops (t : tree) (ops : list op) : tree := fold_left apply_op ops t.

(** [self.leaves]: the leaves in the order [build] appends them (left subtree first) *)
Fixpoint leaves (t : tree) : list counts :=
  match t with
  | Nil => []
  | Leaf c => [c]
  | Node _ _ _ l r => leaves l ++ leaves r
  end.

(** leaf_counts(tree_id): [None] entries stand for Python's KeyError *)
Definition leaf_counts (id : Z) (t : tree) : list (option Z) := map (lookup id) (leaves t).

(** _distn_from_counts: (counts + 0.5) / (sum(counts) + len(counts) / 2) *)
Definition distn (cs : list Z) : list F :=
  let den := fofZ (zsum cs) + fofZ (len cs) / two in
  map (fun c => (fofZ c + half) / den) cs.

(** kl_distance: the two arguments handed to scipy.stats.entropy ([None]: no leaves / unknown id) *)
Definition kl_args (t : tree) (id1 id2 : Z) : option (list F * list F) :=
  match leaves t with
  | [] => None
  | _ :: _ =>
      match all_some (leaf_counts id1 t), all_some (leaf_counts id2 t) with
      | Some c1, Some c2 => Some (distn c1, distn c2)
      | _, _ => None
      end
  end.

Definition kl_distance (kl : list F -> list F -> F) (t : tree) (id1 id2 : Z) : option F :=
  match kl_args t id1 id2 with Some (a, b) => Some (kl a b) | None => None end.

(** ---------------- as_flattened_array / to_plotly_dataframe ---------------- *)
Fixpoint size (t : tree) : nat :=
  match t with
  | Nil => 0
  | Leaf _ => 1
  | Node _ _ _ l r => S (size l + size r)
  end.

(** one dictionary of the output; [r_idx] stands for [id(node)] (here: the node's position in a
    pre-order walk of the whole tree); [r_name] = (axis, midpoint, is-left-child) of the parent's
    split, from which the code formats "ax {axis} <= {round(mid, 3)}" / "... > ..." *)
Record row := {
  r_idx : nat; r_parent : option nat; r_depth : nat;
  r_count : Z; r_diff : option Z; r_name : option (Z * F * bool)
}.

Definition node_row (id1 : Z) (id2 : option Z) (c : counts) (v : Z)
           (base : nat) (parent : option nat) (depth : nat) (name : option (Z * F * bool)) : row :=
  {| r_idx := base; r_parent := parent; r_depth := depth; r_count := v;
     r_diff := match id2 with
               | None => None
               | Some j => Some (match lookup j c with Some w => (w - v)%Z | None => (0 - v)%Z end)
               end;
     r_name := name |}.

Fixpoint flatten_go (id1 : Z) (id2 : option Z) (t : tree)
         (base : nat) (parent : option nat) (depth : nat) (name : option (Z * F * bool)) : list row :=
  match t with
  | Nil => []
  | Leaf c =>
      match lookup id1 c with
      | None => []
      | Some v => [node_row id1 id2 c v base parent depth name]
      end
  | Node axis mid c l r =>
      match lookup id1 c with
      | None => []
      | Some v =>
          node_row id1 id2 c v base parent depth name
          :: flatten_go id1 id2 l (S base) (Some base) (S depth) (Some (axis, mid, true))
          ++ flatten_go id1 id2 r (S base + size l) (Some base) (S depth) (Some (axis, mid, false))
      end
  end.

Definition flatten (id1 : Z) (id2 : option Z) (t : tree) : list row :=
  flatten_go id1 id2 t 0 None 0 None.

(** [if max_depth: df = df[df.depth <= max_depth]] *)
Definition plotly_rows (id1 : Z) (id2 : option Z) (max_depth : option nat) (t : tree) : list row :=
  let rows := flatten id1 id2 t in
  match max_depth with
  | None | Some O => rows
  | Some d => filter (fun r => (r_depth r <=? d)%nat) rows
  end.

Fixpoint zmax_list (l : list Z) (acc : Z) : Z :=
  match l with [] => acc | x :: t => zmax_list t (Z.max acc x) end.
Definition zmaximum (l : list Z) : Z := match l with [] => 0 | x :: t => zmax_list t x end.

Definition row_test (r : row) : Z := match r_diff r with Some d => (d + r_count r)%Z | None => r_count r end.

(** _calculate_kss: per row the two two-cell (node vs. rest) corrected distributions handed to
    scipy.stats.entropy *)
Definition kss_args (rows : list row) : list (list F * list F) :=
  let ref_max := zmaximum (map r_count rows) in
  let test_max := zmaximum (map row_test rows) in
  map (fun r => (distn [r_count r; (ref_max - r_count r)%Z],
                 distn [row_test r; (test_max - row_test r)%Z])) rows.

Definition kss (kl : list F -> list F -> F) (rows : list row) : list F :=
  map (fun ab => kl (fst ab) (snd ab)) (kss_args rows).

End KdqTree.

Arguments tree : clear implicits.
Arguments op : clear implicits.
Arguments row : clear implicits.
Arguments point : clear implicits.
