(** Exact-arithmetic reading of DDM's running error rate: over the reals the recurrence
    p_n = p_(n-1) + (c_n - p_(n-1)) / n is the error frequency of the epoch. *)
From MV Require Import Base Num NumLaws Lifecycle Ddm.
From Coq Require Import Reals Lra.

(** feed the outcomes of one epoch ([true] = error) to a fresh epoch state *)
Fixpoint ddm_feed (p : @ddm_params NumR) (e : @ddm_e NumR) (n : Z) (errs : list bool) : @ddm_e NumR :=
  match errs with
  | [] => e
  | x :: t => ddm_feed p (fst (ddm_step p e (n + 1) x)) (n + 1) t
  end.

Definition n_err (l : list bool) : Z := Z.of_nat (length (filter (fun b => b) l)).

Lemma ddm_rate_step (p : @ddm_params NumR) (e : @ddm_e NumR) n x :
  d_rate (fst (ddm_step p e n x)) = (d_rate e + ((if x then 1 else 0) - d_rate e) / IZR n)%R.
Proof.
  unfold ddm_step. cbv zeta. destruct (n <? ddm_n_threshold p)%Z; simpl; destruct x; reflexivity.
Qed.

Lemma ddm_rate_exact_gen (p : @ddm_params NumR) : forall errs (e : @ddm_e NumR) n k,
  (0 <= n)%Z -> (n = 0%Z \/ d_rate e = (IZR k / IZR n)%R) ->
  errs <> [] ->
  d_rate (ddm_feed p e n errs) = (IZR (k * (if (n =? 0)%Z then 0 else 1) + n_err errs) / IZR (n + Z.of_nat (length errs)))%R.
Proof.
  induction errs as [|x errs IH]; intros e n k Hn Hr Hne; [congruence|].
  cbn [ddm_feed].
  assert (Hstep : d_rate (fst (ddm_step p e (n + 1) x)) =
                  (IZR (k * (if (n =? 0)%Z then 0 else 1) + (if x then 1 else 0)) / IZR (n + 1))%R).
  { rewrite ddm_rate_step. rewrite plus_IZR.
    assert (Hn1 : (IZR n + 1 <> 0)%R) by (apply IZR_le in Hn; lra).
    destruct (Z.eqb_spec n 0) as [->|Hn0].
    - destruct Hr as [_|Hr].
      + (* first sample of the epoch: whatever the previous value, p_1 = c *)
        replace (IZR 0 + 1)%R with 1%R by (simpl; lra).
        rewrite Z.mul_0_r, Z.add_0_l. destruct x; simpl; field.
      + replace (IZR 0 + 1)%R with 1%R by (simpl; lra).
        rewrite Z.mul_0_r, Z.add_0_l. destruct x; simpl; field.
    - destruct Hr as [Hr|Hr]; [congruence|]. rewrite Hr.
      assert (Hnz : IZR n <> 0%R) by (apply not_0_IZR; exact Hn0).
      rewrite Z.mul_1_r, plus_IZR. destruct x; simpl; field; split; assumption. }
  destruct errs as [|y errs'].
  - cbn [ddm_feed]. rewrite Hstep. unfold n_err. cbn [filter length]. 
    replace (n + Z.of_nat 1)%Z with (n + 1)%Z by lia.
    destruct x; cbn [filter length]; (apply f_equal2; apply f_equal; lia).
  - rewrite (IH _ (n + 1)%Z (k * (if (n =? 0)%Z then 0 else 1) + (if x then 1 else 0))%Z);
      [|lia|right; exact Hstep|discriminate].
    destruct (Z.eqb_spec (n + 1) 0); [lia|].
    unfold n_err. cbn [filter length]. destruct x; cbn [length]; (apply f_equal2; apply f_equal; lia).
Qed.

(** after the outcomes [errs] of an epoch, DDM's error rate is (#errors) / (#samples), exactly *)
Theorem ddm_rate_exact (p : @ddm_params NumR) errs : errs <> [] ->
  d_rate (ddm_feed p ddm_e0 0 errs) = (IZR (n_err errs) / IZR (Z.of_nat (length errs)))%R.
Proof.
  intros Hne. rewrite (ddm_rate_exact_gen p errs ddm_e0 0 0 (Z.le_refl 0) (or_introl eq_refl) Hne).
  simpl. reflexivity.
Qed.

(** ---------- EDDM: the running mean distance between errors (reals) ---------- *)
Fixpoint eddm_feed (p : @eddm_params NumR) (e : @eddm_e NumR) (n : Z) (oks : list bool) : @eddm_e NumR :=
  match oks with
  | [] => e
  | x :: t => eddm_feed p (fst (eddm_step p e (n + 1) x)) (n + 1) t
  end.

(** invariant: number of errors counted exactly, and mean distance * #errors = index of the last error *)
Definition eddm_exact_inv (e : @eddm_e NumR) : Prop :=
  (0 <= e_n_errors e)%Z /\ (e_n_errors e = 0%Z -> e_idx_curr e = 0%Z /\ e_mean e = 0%R) /\
  (0 < e_n_errors e -> e_mean e = (IZR (e_idx_curr e) / IZR (e_n_errors e))%R)%Z.

Lemma eddm_step_exact (p : @eddm_params NumR) (e : @eddm_e NumR) n x :
  eddm_exact_inv e -> eddm_exact_inv (fst (eddm_step p e n x)).
Proof.
  intros (H0 & Hz & Hp). unfold eddm_step. destruct x; [exact (conj H0 (conj Hz Hp))|]. cbv zeta.
  assert (Hm : (e_mean e + (IZR (n - 1 - e_idx_curr e) - e_mean e) / IZR (e_n_errors e + 1) =
                IZR (n - 1) / IZR (e_n_errors e + 1))%R).
  { assert (Hne : IZR (e_n_errors e + 1) <> 0%R) by (apply not_0_IZR; lia).
    destruct (Z.eq_dec (e_n_errors e) 0) as [E0|E0].
    - destruct (Hz E0) as [Hc Hme]. rewrite Hme, Hc, E0. replace (n - 1 - 0)%Z with (n - 1)%Z by lia. simpl. field.
    - rewrite (Hp ltac:(lia)). rewrite minus_IZR, plus_IZR.
      assert (IZR (e_n_errors e) <> 0%R) by (apply not_0_IZR; exact E0).
      rewrite plus_IZR in Hne. simpl in *. field. split; assumption. }
  destruct (e_n_errors e + 1 <? eddm_n_threshold p)%Z; unfold eddm_exact_inv; cbn [fst e_n_errors e_idx_curr e_mean];
    (split; [lia|]); (split; [intros; lia|]); intros _; exact Hm.
Qed.

Lemma eddm_feed_exact (p : @eddm_params NumR) : forall oks (e : @eddm_e NumR) n,
  eddm_exact_inv e -> eddm_exact_inv (eddm_feed p e n oks).
Proof.
  induction oks as [|x oks IH]; intros e n H; [exact H|]. cbn [eddm_feed]. apply IH. apply eddm_step_exact. exact H.
Qed.

(** after the outcomes of an epoch: EDDM's mean distance between errors is
    (0-based index of the last error in the epoch) / (number of errors), i.e. the mean of the gaps *)
Theorem eddm_mean_exact (p : @eddm_params NumR) oks :
  let e := eddm_feed p eddm_e0 0 oks in
  (0 < e_n_errors e)%Z -> e_mean e = (IZR (e_idx_curr e) / IZR (e_n_errors e))%R.
Proof.
  intros e H. assert (I : eddm_exact_inv e).
  { apply eddm_feed_exact. unfold eddm_exact_inv, eddm_e0; simpl. repeat split; intros; try lia; try reflexivity. }
  destruct I as (_ & _ & Hp). exact (Hp H).
Qed.
