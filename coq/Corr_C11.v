(** C11 — checkers evaluated by the correspondence harness on the bit-exact instance [NumFloat]. *)
From MV Require Import Base Num NumFloat Lifecycle Pairwise ChangeDet Corr Pcacd.
From Coq Require Import PrimFloat Uint63 FloatOps SpecFloat.

(** Python's [round(x)] of a finite double: round-half-even of its exact rational value *)
Definition py_round (x : float) : Z :=
  match Prim2SF x with
  | S754_finite s m e =>
      let v := if (0 <=? e)%Z then (Zpos m * 2 ^ e)%Z
               else let d := (2 ^ (- e))%Z in
                    let q := (Zpos m / d)%Z in
                    let r := (Zpos m mod d)%Z in
                    if (2 * r <? d)%Z then q
                    else if (d <? 2 * r)%Z then (q + 1)%Z
                    else if Z.even q then q else (q + 1)%Z in
      if s then (- v)%Z else v
  | _ => 0%Z
  end.

(** the constructor: step = max(1, min(100, round(sample_period * window_size))), ph_threshold = round(0.01 * window_size),
    bins = floor(sqrt(window_size)) *)
Definition pc_mk (w : Z) (sp delta : float) (inter : bool) : @pc_params NumFloat :=
  @Build_pc_params NumFloat w
    (Z.max 1 (Z.min 100 (py_round (PrimFloat.mul sp (float_ofZ w)))))
    (py_round (PrimFloat.mul 0x1.47ae147ae147bp-7%float (float_ofZ w)))
    (Z.sqrt w) delta inter.

Definition finput := @pc_input NumFloat.
Definition IB : finput := @Build_pc_input NumFloat 0 [] [] [] [].
Definition IBuild (npcs : Z) (r t : list (list float)) : finput := @Build_pc_input NumFloat npcs r t [] [].
Definition IMon (next scores : list float) : finput := @Build_pc_input NumFloat 0 [] [] next scores.

Definition flist_eqb : list float -> list float -> bool := list_eqb fbits_eqb.
Definition hist_eqb (a b : list float * list float) : bool := flist_eqb (fst a) (fst b) && flist_eqb (snd a) (snd b).
Definition call_eqb (a b : Z * Z) : bool := (fst a =? fst b) && (snd a =? snd b).

Definition optcmp {A B} (f : A -> B -> bool) (m : A) (e : option B) : bool :=
  match e with None => true | Some v => f m v end.

(** expected observation after one update; [None] = not observed *)
Record exp_row11 := mkE {
  e_ds : dstate; e_total : Z; e_since : Z;
  e_building : option bool;
  e_npcs : option Z;                        (* Python None = None *)
  e_ref : option (Z * list Z);              (* window length, start indices of the stream ranges that match its content *)
  e_test : option (Z * list Z);
  e_nscores : option Z;                     (* len(_change_score) *)
  e_score : option float;                   (* _change_score[-1] *)
  e_mon : option (dstate * Z * Z * Z * option (list (option float)));   (* monitor: state, total, since, len(to_dataframe()), its last row *)
  e_calls : list (Z * Z);
  e_lower : option (list float); e_upper : option (list float);
  e_dref : option (list (list float * list float));
  e_dtest : option (list (list float * list float));
  e_tlast : option (list float)             (* newest row of _test_pca_projection *)
}.

Definition win_ok (m : list Z) (e : Z * list Z) : bool :=
  let '(len, starts) := e in
  (lenZ m =? len) && ((len =? 0) || existsb (fun a => list_eqb Z.eqb m (rangeZ a len)) starts).

Definition mon_ok (p : @pc_params NumFloat) (m : st (PH (ph_of p))) (e : dstate * Z * Z * Z * option (list (option float))) : bool :=
  let '(d, t, n, nrows, row) := e in
  dstate_eqb (ds m) d && (total m =? t) && (since m =? n) && (lenZ (p_rows (epoch m)) =? nrows) &&
  match row with
  | None => true
  | Some r => extras_ok (ph_extra (ph_of p) m) r
  end.

Definition row_ok (p : @pc_params NumFloat) (s : pc_st p) (e : exp_row11) : bool :=
  dstate_eqb (m_ds p s) (e_ds e) && (m_total p s =? e_total e) && (m_since p s =? e_since e)
  && optcmp Bool.eqb (m_building p s) (e_building e)
  && opt_eqb Z.eqb (m_npcs p s) (e_npcs e)
  && optcmp win_ok (m_ref p s) (e_ref e) && optcmp win_ok (m_test p s) (e_test e)
  && optcmp Z.eqb (lenZ (m_scores p s) + 1) (e_nscores e)
  && optcmp fbits_eqb (match m_scores p s with x :: _ => x | [] => 0%float end) (e_score e)
  && optcmp (mon_ok p) (m_mon p s) (e_mon e)
  && list_eqb call_eqb (m_calls p s) (e_calls e)
  && optcmp flist_eqb (m_lower p s) (e_lower e) && optcmp flist_eqb (m_upper p s) (e_upper e)
  && optcmp (list_eqb hist_eqb) (m_dref p s) (e_dref e)
  && optcmp (list_eqb hist_eqb) (m_dtest p s) (e_dtest e)
  && optcmp flist_eqb (last (m_tproj p s) []) (e_tlast e).

Fixpoint chk_rows (p : @pc_params NumFloat) (scaling : bool) (s : pc_st p) (xs : list finput) (exp : list exp_row11) : bool :=
  match xs, exp with
  | [], [] => true
  | x :: xs', e :: exp' => let s' := pc_update p scaling s x in row_ok p s' e && chk_rows p scaling s' xs' exp'
  | _, _ => false
  end.

(** [step thr bins]: the public attributes of the implementation *)
Definition chk_pcacd (w : Z) (sp delta : float) (inter scaling : bool) (step thr bins : Z)
           (xs : list finput) (exp : list exp_row11) : bool :=
  let p := pc_mk w sp delta inter in
  (pc_step p =? step) && (pc_thr p =? thr) && (pc_bins p =? bins) && chk_rows p scaling (pc_init p) xs exp.

(** diagnosis: index of the first disagreeing update and the model's view of it *)
Fixpoint first_bad11 (p : @pc_params NumFloat) (scaling : bool) (s : pc_st p) (xs : list finput) (exp : list exp_row11) (i : Z) :=
  match xs, exp with
  | x :: xs', e :: exp' =>
      let s' := pc_update p scaling s x in
      if row_ok p s' e then first_bad11 p scaling s' xs' exp' (i + 1)
      else Some (i, (m_ds p s', m_total p s', m_since p s', m_building p s'), (m_npcs p s', m_ref p s', m_test p s'),
                 (m_scores p s', m_comp p s', m_calls p s'), (ds (m_mon p s'), total (m_mon p s'), since (m_mon p s'), ph_extra (ph_of p) (m_mon p s')),
                 (m_lower p s', m_upper p s', m_dref p s', m_dtest p s', last (m_tproj p s') []))
  | _, _ => None
  end.

Definition show_pcacd (w : Z) (sp delta : float) (inter scaling : bool) (step thr bins : Z)
           (xs : list finput) (exp : list exp_row11) :=
  let p := pc_mk w sp delta inter in
  ((pc_step p, pc_thr p, pc_bins p), first_bad11 p scaling (pc_init p) xs exp 0).
