(** C18 - checkers evaluated by the correspondence harness.  The models are evaluated on the original
    AND on the row-permuted inputs of a case; both must reproduce what the implementation exposed, and
    the two model results must be equal - this ties the subjects of the theorems of Prop_C18.v
    (KdqTree.v / Nnsp.v / Hist.v + Hdm.v, PermDet.v) to the implementation on both sides of a
    permutation.  Float instance: [NumFloat]; [ftrunc] / [tree_eqb] are C08's, [ftruncZ] is C07's. *)
From MV Require Import Base Num NumFloat Lifecycle KdqTree Corr_C08 Nnsp PermDet Hist Hdm Corr_C07.
From Coq Require Import PrimFloat QArith.
Open Scope Z_scope.

Definition fdata := list (list float).

(** ---------------- kdq-tree partitioner: build on the reference, fill the batch under id 1 ---------------- *)
Definition kdq_fuel (m : Z) (n : Z) : nat := Z.to_nat ((n + 1) * (m + 1)).

Definition kdq_built_filled (cub : Z) (clb : float) (m : Z) (ref b : fdata) : ftree * bool :=
  let '(t, oof) := fbuild cub clb m ((len ref + 1) * (m + 1)) ref in
  (@fill NumFloat b t 1 true, oof).

(** [exp]: the implementation's tree (KDQTreePartitioner.build on the original reference, fill of the
    original batch under "test" with reset) *)
Definition chk_kdq_pair (cub : Z) (clb : float) (m : Z) (ref ref' b b' : fdata) (exp : ftree) : bool :=
  let '(t, oof) := kdq_built_filled cub clb m ref b in
  let '(t', oof') := kdq_built_filled cub clb m ref' b' in
  negb oof && negb oof' && tree_eqb t exp && tree_eqb t' exp && tree_eqb t t'.

(** ---------------- KdqTreeBatch on the generic machine ---------------- *)
Definition fl_eqb18 := list_eqb fbits_eqb.

(** scipy.stats.entropy as a table of the calls the implementation made inside kl_distance *)
Definition kl_tab (tab : list (list float * list float * float)) (a b : list float) : float :=
  match find (fun e => fl_eqb18 (fst (fst e)) a && fl_eqb18 (snd (fst e)) b) tab with
  | Some e => snd e
  | None => nan
  end.

Definition KB (cub : Z) (clb : float) (m : Z) (tab : list (list float * list float * float)) : kernel :=
  @KdqBatch NumFloat ftrunc cub clb m (kdq_fuel m) (kl_tab tab).

(** one update: the batch and the value of [_critical_dist] the implementation held afterwards (read
    by the model only in an update that rebuilds the reference) *)
Definition kstep := (fdata * float)%type.
Definition kq_in (x : kstep) : kdq_in NumFloat := (fst x, fun _ : list Z => snd x).

(** expected after one update: public observation, [_test_dist], [_critical_dist], leaf counts under
    "build" and "test" (from to_plotly_dataframe, leaves in tree order) *)
Definition kexp := (obs * option float * float * list Z * list Z)%type.

Definition kview (cub : Z) (clb : float) (m : Z) tab (s : st (KB cub clb m tab))
  : obs * option float * float * list (option Z) * list (option Z) :=
  (observe s, k_dist (epoch s), k_crit (epoch s),
   leaf_counts 0 (k_tree (epoch s)), leaf_counts 1 (k_tree (epoch s))).

Definition kview_eqb (a b : obs * option float * float * list (option Z) * list (option Z)) : bool :=
  let '(o, d, c, l0, l1) := a in let '(o', d', c', l0', l1') := b in
  obs_eqb o o' && opt_eqb fbits_eqb d d' && fbits_eqb c c'
  && list_eqb (opt_eqb Z.eqb) l0 l0' && list_eqb (opt_eqb Z.eqb) l1 l1'.

Definition kexp_view (e : kexp) : obs * option float * float * list (option Z) * list (option Z) :=
  let '(o, d, c, l0, l1) := e in (o, d, c, map Some l0, map Some l1).

Definition kdq_views (cub : Z) (clb : float) (m : Z) tab (ref : fdata) (crit0 : float) (xs : list kstep) :=
  map (kview cub clb m tab)
      (states (init (KB cub clb m tab)
                    (@kdq_set_reference NumFloat ftrunc cub clb m (kdq_fuel m) ref (fun _ => crit0)))
              (map kq_in xs)).

Definition chk_kdq_run (cub : Z) (clb : float) (m : Z) tab (ref : fdata) (crit0 : float)
           (xs : list kstep) (exp : list kexp) : bool :=
  list_eqb kview_eqb (kdq_views cub clb m tab ref crit0 xs) (map kexp_view exp).

(** both runs against their own observations, and the two model runs against each other *)
Definition chk_kdq_twin (cub : Z) (clb : float) (m : Z) tab (ref ref' : fdata) (crit0 crit0' : float)
           (xs xs' : list kstep) (exp exp' : list kexp) : bool :=
  chk_kdq_run cub clb m tab ref crit0 xs exp
  && chk_kdq_run cub clb m tab ref' crit0' xs' exp'
  && list_eqb kview_eqb (kdq_views cub clb m tab ref crit0 xs) (kdq_views cub clb m tab ref' crit0' xs').

Definition show_kdq (cub : Z) (clb : float) (m : Z) tab (ref : fdata) (crit0 : float) (xs : list kstep) :=
  kdq_views cub clb m tab ref crit0 xs.

(** ---------------- NN space partitioner: the two builds agree ---------------- *)
Definition chk_nnsp_same (s1 s2 s1' s2' : list Nnsp.point) (A : list (list Z)) : bool :=
  pts_eqb (build_D s1 s2) (build_D s1' s2')
  && zl_eqb (build_v1 s1 s2) (build_v1 s1' s2')
  && zl_eqb (build_v2 s1 s2) (build_v2 s1' s2')
  && Qeq_bool (nnsp_distance s1 s2 A) (nnsp_distance s1' s2' A).

(** per update of a history: (reference before, batch, permuted reference before, permuted batch, A) *)
Definition chk_nnsp_same_all (l : list (list Nnsp.point * list Nnsp.point * list Nnsp.point * list Nnsp.point * list (list Z))) : bool :=
  forallb (fun e => let '(s1, s2, s1', s2', A) := e in chk_nnsp_same s1 s2 s1' s2' A) l.

(** ---------------- histograms of one HDM update ---------------- *)
(** [exp] / [exp']: per feature the (reference, test) counts np.histogram returned inside the
    update of the original / of the permuted run *)
Definition chk_hists (k bins : Z) (ref X ref' X' : fdata) (exp exp' : list (list Z * list Z)) : bool :=
  let h := @all_hists NumFloat ftruncZ k bins ref X in
  let h' := @all_hists NumFloat ftruncZ k bins ref' X' in
  list_eqb hh_eqb h exp && list_eqb hh_eqb h' exp' && list_eqb hh_eqb h h'.

Definition chk_hists_all (l : list (Z * Z * fdata * fdata * fdata * fdata * list (list Z * list Z) * list (list Z * list Z))) : bool :=
  forallb (fun e => let '(k, bins, ref, X, ref', X', exp, exp') := e in chk_hists k bins ref X ref' X' exp exp') l.

Definition show_hists (k bins : Z) (ref X : fdata) := @all_hists NumFloat ftruncZ k bins ref X.
