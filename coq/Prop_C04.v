(** C04 — CUSUM and Page-Hinkley apply their sequential tests to the current observations.
    Statements only; proofs in ChangeDet_Proofs.v / Lifecycle_Proofs.v.  Valid for every arithmetic
    instance, in particular the bit-exact float model. *)
From MV Require Import Base Num Lifecycle Lifecycle_Proofs Pairwise ChangeDet ChangeDet_Proofs.
Local Open Scope num_scope.

Section C04.
Context {N : Num}.

(** Page-Hinkley: running-mean / cumulative-sum / min / max recurrences, and the alarm is exactly
    "PH difference in the chosen direction > threshold * mean, after burn-in". *)
Theorem C04_ph_test : forall (p : @ph_params N) e n x,
  let e' := fst (ph_step p e n x) in
  p_mean e' = ph_mean' e n x /\ p_sum e' = ph_sum' p e n x /\ p_min e' = ph_min' p e n x /\
  p_max e' = ph_max' p e n x /\
  (snd (ph_step p e n x) = Some DDrift <-> ph_test p e n x = true /\ (ph_burn_in p < n)%Z) /\
  ((n <= ph_burn_in p)%Z -> snd (ph_step p e n x) = None).
Proof.
  intros p e n x. destruct (ph_step_spec p e n x) as (H1 & H2 & H3 & H4 & _).
  exact (conj H1 (conj H2 (conj H3 (conj H4 (conj (ph_alarm_iff p e n x) (ph_no_alarm_in_burn_in p e n x)))))).
Qed.

(** each new decision depends on the observation just supplied and the four statistics of the
    current epoch only *)
Theorem C04_ph_local : forall (p : @ph_params N) e1 e2 n x,
  p_max e1 = p_max e2 -> p_min e1 = p_min e2 -> p_sum e1 = p_sum e2 -> p_mean e1 = p_mean e2 ->
  snd (ph_step p e1 n x) = snd (ph_step p e2 n x) /\
  p_max (fst (ph_step p e1 n x)) = p_max (fst (ph_step p e2 n x)) /\
  p_min (fst (ph_step p e1 n x)) = p_min (fst (ph_step p e2 n x)) /\
  p_sum (fst (ph_step p e1 n x)) = p_sum (fst (ph_step p e2 n x)) /\
  p_mean (fst (ph_step p e1 n x)) = p_mean (fst (ph_step p e2 n x)).
Proof. exact ph_local. Qed.

(** CUSUM with known target / sd: s_h = max(0, s_h + z - delta), s_l = max(0, s_l - delta - z) on the
    standardised observation z, alarm iff after burn-in the statistic of the chosen direction(s)
    exceeds the threshold. *)
Theorem C04_cusum_test : forall (p : @cusum_params N) e n x t s,
  c_target e = Some t -> c_sd e = Some s ->
  let z := (x - t) / s in
  let up := pymax f0 ((c_up e + z) - c_delta p) in
  let lo := pymax f0 ((c_lo e - c_delta p) - z) in
  let e' := fst (cusum_step p e n x) in
  c_target e' = Some t /\ c_sd e' = Some s /\ c_up e' = up /\ c_lo e' = lo /\
  (snd (cusum_step p e n x) = Some DDrift <-> (c_burn_in p < n)%Z /\ cusum_alarm p up lo = true).
Proof.
  intros p e n x t s Ht Hs. destruct (cusum_step_known p e n x t s Ht Hs) as (H1 & H2 & H3 & H4 & _ & _).
  exact (conj H1 (conj H2 (conj H3 (conj H4 (cusum_alarm_iff p e n x t s Ht Hs))))).
Qed.

(** CUSUM with unknown target: silent with zero statistics until the burn_in-th sample, at which
    target and sd become numpy's mean and standard deviation of the first burn_in observations;
    and no alarm at all during burn-in, known target or not. *)
Theorem C04_cusum_estimation : forall (p : @cusum_params N) e n x,
  (c_target e = None -> c_sd e = None ->
     let e' := fst (cusum_step p e n x) in
     ((n <> c_burn_in p)%Z -> c_target e' = None /\ c_up e' = f0 /\ c_lo e' = f0) /\
     ((n = c_burn_in p)%Z ->
        c_target e' = Some (np_mean (rev (x :: c_stream e))) /\ c_sd e' = Some (np_std (rev (x :: c_stream e))))) /\
  ((n <= c_burn_in p)%Z -> snd (cusum_step p e n x) = None).
Proof.
  intros p e n x. split; [|exact (cusum_no_alarm_in_burn_in p e n x)].
  intros Ht Hs. destruct (cusum_step_estimating p e n x Ht Hs) as (H1 & H2 & _). exact (conj H1 H2).
Qed.

(** after a drift CUSUM re-estimates target and sd from the last burn_in observations
    (Python's stream[-burn_in:]) and restarts both statistics *)
Theorem C04_cusum_reset : forall (p : @cusum_params N) e,
  let w := last_burn_in (c_burn_in p) (c_stream e) in
  c_target (cusum_reset p e) = Some (np_mean w) /\ c_sd (cusum_reset p e) = Some (np_std w) /\
  c_up (cusum_reset p e) = f0 /\ c_lo (cusum_reset p e) = f0.
Proof. intros p e. repeat split. Qed.

(** ... and nothing older than those statistics influences any later decision: from the update that
    follows a drift on, the whole observable trace is that of a newly constructed CUSUM given the
    re-estimated target / sd and an empty history, fed only the later data (totals shifted). *)
Theorem C04_cusum_clean_slate : forall (p : @cusum_params N) (s : st (CUSUM p)) xs,
  (1 <= c_burn_in p)%Z -> ds s = DDrift ->
  let w := last_burn_in (c_burn_in p) (c_stream (epoch s)) in
  trace s xs =
  map (shift_obs (total s)) (trace (init (CUSUM p) (cusum_e0 (Some (np_mean w)) (Some (np_std w)))) xs).
Proof.
  intros p s xs Hb Hd w.
  rewrite (trace_after_drift (CUSUM p) xs s) by (rewrite Hd; reflexivity).
  apply (trace_rtwin (CUSUM p) cusum_rel (fun n => (c_burn_in p < n)%Z)).
  - intros n e1 e2 x Hn Hr. exact (cusum_step_rel p n e1 e2 x Hn Hr).
  - intros n e1 e2 Hr Hok. exact (cusum_reset_rel p n e1 e2 Hb Hr Hok).
  - intros e n x H. exact (cusum_drift_needs p e n x H).
  - unfold rtwin, do_reset, init, cusum_rel; simpl. repeat split; try lia; try discriminate.
Qed.

(** the reported drift always comes with since > burn_in, so the previous theorem's hypothesis holds
    on every reachable drift state *)
Theorem C04_cusum_drift_after_burn_in : forall (p : @cusum_params N) e n x,
  snd (cusum_step p e n x) = Some DDrift -> (c_burn_in p < n)%Z.
Proof. exact cusum_drift_needs. Qed.

End C04.

(** exact arithmetic (reals): the running mean of Page-Hinkley is the arithmetic mean of the epoch *)
From MV Require Import NumLaws RunMean ChangeDet_Exact.
From Coq Require Import Reals.
Theorem C04_ph_mean_exact_reals : forall (p : @ph_params NumR) xs, xs <> [] ->
  p_mean (ph_feed p ph_e0 0 xs) = (sumR xs / IZR (Z.of_nat (length xs)))%R.
Proof. exact ph_mean_exact. Qed.

(** exact arithmetic (reals): numpy's pairwise summation is the plain sum, so CUSUM's estimates are the
    arithmetic mean and the population standard deviation of the observations they are taken from *)
From MV Require Import Pairwise_Exact.
Theorem C04_numpy_mean_std_exact_reals : forall l : list R,
  @np_mean NumR l = (sumR l / IZR (Z.of_nat (length l)))%R /\
  @np_std NumR l = sqrt (sumR (map (fun x => ((x - sumR l / IZR (Z.of_nat (length l))) * (x - sumR l / IZR (Z.of_nat (length l))))%R) l)
                         / IZR (Z.of_nat (length l))).
Proof. intros l. exact (conj (np_mean_exact l) (np_std_exact l)). Qed.

Theorem C04_cusum_estimates_exact_reals : forall (p : @cusum_params NumR) (e : @cusum_e NumR),
  let w := last_burn_in (c_burn_in p) (c_stream e) in
  c_target (cusum_reset p e) = Some (sumR w / IZR (Z.of_nat (length w)))%R.
Proof. intros p e w. unfold cusum_reset. cbn [c_target]. fold w. rewrite np_mean_exact. reflexivity. Qed.

Print Assumptions C04_ph_test.
Print Assumptions C04_ph_local.
Print Assumptions C04_cusum_test.
Print Assumptions C04_cusum_estimation.
Print Assumptions C04_cusum_reset.
Print Assumptions C04_cusum_clean_slate.
Print Assumptions C04_cusum_drift_after_burn_in.
Print Assumptions C04_ph_mean_exact_reals.
Print Assumptions C04_numpy_mean_std_exact_reals.
Print Assumptions C04_cusum_estimates_exact_reals.
