(** Model of menelaus/injection/{injector,feature_manipulation,label_manipulation,noise}.py.

    A data set is a list of rows, a row is a list of cells.  Row indices, column indices and the
    window bounds [from_index, to_index) are Python ints ([Z]); the model is faithful for
    non-negative indices (numpy's negative-index wrap-around is outside the modelled domain).
    Structural injectors are generic in the cell type; the arithmetic ones are generic in [N : Num].
    Everything random or computed by a library kernel is an argument of the model:
      - np.mean of the window column           ([mean], FeatureShiftInjector)
      - the +1/-1 draws of np.random.choice    ([signs], BrownianNoiseInjector)
      - the positions drawn by np.random.choice ([positions], LabelProbabilityInjector)
      - the vector drawn by np.random.dirichlet ([dir], LabelDirichletInjector)
      - the row labels chosen by pandas groupby(...).sample ([idxs], FeatureCoverInjector).
    No proofs in this file. *)
From MV Require Import Base Num.

(** * positional helpers *)

Definition in_win (from to i : Z) : bool := (from <=? i) && (i <? to).

Fixpoint mapi_from {B C : Type} (f : Z -> B -> C) (i : Z) (l : list B) : list C :=
  match l with
  | [] => []
  | x :: t => f i x :: mapi_from f (i + 1) t
  end.
Definition mapi {B C : Type} (f : Z -> B -> C) (l : list B) : list C := mapi_from f 0 l.

Definition nthZ {B : Type} (i : Z) (l : list B) (d : B) : B :=
  if i <? 0 then d else nth (Z.to_nat i) l d.

(** the elements whose position satisfies [p] (a slice / a boolean mask on positions) *)
Fixpoint sel_from {B : Type} (p : Z -> bool) (i : Z) (l : list B) : list B :=
  match l with
  | [] => []
  | x :: t => if p i then x :: sel_from p (i + 1) t else sel_from p (i + 1) t
  end.

(** the positions of the elements satisfying [q] (np.where(...)[0] followed by a mask) *)
Fixpoint idx_from {B : Type} (q : Z -> B -> bool) (i : Z) (l : list B) : list Z :=
  match l with
  | [] => []
  | x :: t => if q i x then i :: idx_from q (i + 1) t else idx_from q (i + 1) t
  end.

Definition len {B : Type} (l : list B) : Z := Z.of_nat (length l).

(** [ret[from:to] = g(row index, row)] on the rows of the window, other rows untouched *)
Definition on_window {A : Type} (from to : Z) (g : Z -> list A -> list A) (d : list (list A))
  : list (list A) :=
  mapi (fun i r => if in_win from to i then g i r else r) d.

(** one column of a row rewritten *)
Definition upd_col {A : Type} (col : Z) (f : A -> A) (r : list A) : list A :=
  mapi (fun j x => if j =? col then f x else x) r.

(** [ret[from:to]] and [ret[:, col]] *)
Definition win_rows {A : Type} (from to : Z) (d : list (list A)) : list (list A) :=
  sel_from (in_win from to) 0 d.
Definition column {A : Type} (dflt : A) (col : Z) (d : list (list A)) : list A :=
  map (fun r => nthZ col r dflt) d.

(** * FeatureSwapInjector.__call__
    [ret[from:to, [c1, c2]] = ret[from:to, [c2, c1]]] (the right-hand side is a copy) *)
Definition swap_row {A : Type} (c1 c2 : Z) (r : list A) : list A :=
  mapi (fun j x => if j =? c1 then nthZ c2 r x else if j =? c2 then nthZ c1 r x else x) r.
Definition feature_swap {A : Type} (from to c1 c2 : Z) (d : list (list A)) : list (list A) :=
  on_window from to (fun _ => swap_row c1 c2) d.

(** * LabelSwapInjector.__call__
    both index sets are computed before the two assignments; the assignment of [class_1]
    to the former [class_2] cells is executed last *)
Definition label_swap_cell {A : Type} (eqb : A -> A -> bool) (c1 c2 x : A) : A :=
  if eqb x c2 then c1 else if eqb x c1 then c2 else x.
Definition label_swap {A : Type} (eqb : A -> A -> bool) (from to col : Z) (c1 c2 : A)
  (d : list (list A)) : list (list A) :=
  on_window from to (fun _ => upd_col col (label_swap_cell eqb c1 c2)) d.

(** * LabelJoinInjector.__call__ *)
Definition label_join_cell {A : Type} (eqb : A -> A -> bool) (c1 c2 cnew x : A) : A :=
  if eqb x c1 || eqb x c2 then cnew else x.
Definition label_join {A : Type} (eqb : A -> A -> bool) (from to col : Z) (c1 c2 cnew : A)
  (d : list (list A)) : list (list A) :=
  on_window from to (fun _ => upd_col col (label_join_cell eqb c1 c2 cnew)) d.

(** * np.unique of a 1-d array: ascending, duplicates (by [==]) removed *)
Fixpoint uniq_insert {A : Type} (eqb ltb : A -> A -> bool) (x : A) (l : list A) : list A :=
  match l with
  | [] => [x]
  | y :: t => if eqb x y then l else if ltb x y then x :: l else y :: uniq_insert eqb ltb x t
  end.
Definition np_unique {A : Type} (eqb ltb : A -> A -> bool) (l : list A) : list A :=
  fold_right (uniq_insert eqb ltb) [] l.

(** * FeatureCoverInjector.__call__
    [n = sample_size // n_groups if n_groups else 0]; [groupby(col).sample(n)] returns the sampled rows group by
    group (groups in ascending key order); [idxs] are the row labels it returned (oracle);
    then the column is dropped and the index reset. *)
Definition remove_col {B : Type} (col : Z) (r : list B) : list B :=
  sel_from (fun j => negb (j =? col)) 0 r.
Definition cover_n {A : Type} (eqb ltb : A -> A -> bool) (dflt : A) (col sample_size : Z)
  (d : list (list A)) : Z :=
  match np_unique eqb ltb (column dflt col d) with
  | [] => 0                                   (* [n_groups = 0]: data without rows *)
  | classes => sample_size / len classes
  end.
Definition feature_cover {A : Type} (col : Z) (idxs : list Z) (d : list (list A)) : list (list A) :=
  map (fun i => remove_col col (nthZ i d [])) idxs.

(** what a legal answer of the sampling oracle looks like: one chunk of [n] distinct row
    labels per group, in group order, every label a row of that group *)
Fixpoint nodupb (l : list Z) : bool :=
  match l with
  | [] => true
  | x :: t => negb (existsb (Z.eqb x) t) && nodupb t
  end.
Definition row_in_group {A : Type} (eqb : A -> A -> bool) (dflt : A) (col : Z) (d : list (list A))
  (c : A) (i : Z) : bool :=
  (0 <=? i) && (i <? len d) && eqb (nthZ col (nthZ i d []) dflt) c.
Fixpoint chunks_ok {A : Type} (eqb : A -> A -> bool) (dflt : A) (col : Z) (d : list (list A))
  (n : nat) (classes : list A) (idxs : list Z) : bool :=
  match classes with
  | [] => match idxs with [] => true | _ => false end
  | c :: cs =>
      let chunk := firstn n idxs in
      Nat.eqb (length chunk) n && nodupb chunk && forallb (row_in_group eqb dflt col d c) chunk
      && chunks_ok eqb dflt col d n cs (skipn n idxs)
  end.
Definition cover_oracle_ok {A : Type} (eqb ltb : A -> A -> bool) (dflt : A) (col sample_size : Z)
  (idxs : list Z) (d : list (list A)) : bool :=
  (0 <=? cover_n eqb ltb dflt col sample_size d) &&
  chunks_ok eqb dflt col d (Z.to_nat (cover_n eqb ltb dflt col sample_size d))
            (np_unique eqb ltb (column dflt col d)) idxs.

(** * the row part of LabelProbabilityInjector.__call__ *)

(** [cls_idx]: rows of class [cls] inside the window *)
Definition cls_idx {A : Type} (eqb : A -> A -> bool) (dflt : A) (from to col : Z) (cls : A)
  (d : list (list A)) : list Z :=
  idx_from (fun i r => eqb (nthZ col r dflt) cls && ((i <? to) && (from <=? i))) 0 d.
(** [sample_idxs_grouped] *)
Definition grouped {A : Type} (eqb : A -> A -> bool) (dflt : A) (from to col : Z) (classes : list A)
  (d : list (list A)) : list Z :=
  flat_map (fun c => cls_idx eqb dflt from to col c d) classes.
(** [ret[from:to] = ret[sample_idxs]] *)
Definition take_rows {A : Type} (idxs : list Z) (d : list (list A)) : list (list A) :=
  map (fun i => nthZ i d []) idxs.
Definition assign_window {A : Type} (from to : Z) (src : list (list A)) (d : list (list A))
  : list (list A) :=
  on_window from to (fun i r => nthZ (i - from) src r) d.
(** [np.random.choice(a, size, True, p)] is [a[positions]] for the drawn positions *)
Definition sample_idxs (g : list Z) (positions : list Z) : list Z :=
  map (fun p => nthZ p g 0) positions.
Definition resample {A : Type} (eqb ltb : A -> A -> bool) (dflt : A) (from to col : Z)
  (positions : list Z) (d : list (list A)) : list (list A) :=
  let g := grouped eqb dflt from to col (np_unique eqb ltb (column dflt col d)) d in
  match g with
  | [] => d                                   (* nothing to resample in an empty window *)
  | _ => assign_window from to (take_rows (sample_idxs g positions) d) d
  end.

(** * arithmetic injectors *)
Section Numeric.
Variable N : Num.
Local Open Scope num_scope.
Notation FN := (F N).

(** ** FeatureShiftInjector.__call__ ; [mean] stands for np.mean *)
Definition shift_delta (mean : list FN -> FN) (from to col : Z) (sf alpha : FN)
  (d : list (list FN)) : FN :=
  (alpha + mean (column f0 col (win_rows from to d))) * sf.
Definition feature_shift (mean : list FN -> FN) (from to col : Z) (sf alpha : FN)
  (d : list (list FN)) : list (list FN) :=
  let delta := shift_delta mean from to col sf alpha d in
  on_window from to (fun _ => upd_col col (fun x => x + delta)) d.

(** ** BrownianNoiseInjector._random_walk: [w[0] = x0], [w[i] = w[i-1] + yi / sqrt(steps)] *)
Fixpoint walk_tail (st x : FN) (signs : list Z) : list FN :=
  match signs with
  | [] => []
  | s :: t => let x' := x + fofZ s / st in x' :: walk_tail st x' t
  end.
Definition random_walk (steps : Z) (x0 : FN) (signs : list Z) : list FN :=
  if (steps <=? 0)%Z then []
  else x0 :: walk_tail (fsqrt (fofZ steps)) x0 (firstn (Z.to_nat (steps - 1)%Z) signs).
Definition brownian (from to col : Z) (x0 : FN) (signs : list Z) (d : list (list FN))
  : list (list FN) :=
  let w := random_walk (to - from)%Z x0 signs in
  on_window from to (fun i => upd_col col (fun x => x + nthZ (i - from)%Z w f0)) d.

(** ** LabelProbabilityInjector.__call__ : the probability bookkeeping *)

(** Python's [sum(list)]: left to right, starting from the int 0 *)
Definition pysum (l : list FN) : FN := fold_left fadd l f0.

Definition dict := list (FN * FN).
Fixpoint lookup (k : FN) (dc : dict) : option FN :=
  match dc with
  | [] => None
  | (k', v) :: t => if feqb k k' then Some v else lookup k t
  end.
Definition has_key (k : FN) (dc : dict) : bool :=
  match lookup k dc with Some _ => true | None => false end.

Definition undefined_classes (all : list FN) (cp : dict) : list FN :=
  filter (fun k => negb (has_key k cp)) all.

(** [None] = ValueError (probabilities exceed 1 / class not found in the data);
    [tol] is the literal [1e-9] of [sum(...) > 1.0 + 1e-9]; [missing = max(0.0, 1 - sum(...))] *)
Definition fill_probabilities (tol : FN) (all : list FN) (cp : dict) : option dict :=
  let undef := undefined_classes all cp in
  let s := pysum (map snd cp) in
  if (f1 + tol) <? s then None
  else if negb (forallb (fun kv => existsb (feqb (fst kv)) all) cp) then None
  else
    let missing := pymax f0 (f1 - s) in
    Some (cp ++ map (fun uc => (uc, missing / fofZ (len undef))) undef).

(** [(n and p / n) or 0] *)
Definition p_individual (pc : FN) (cnt : Z) : FN :=
  if cnt =? 0 then f0 else let v := pc / fofZ cnt in if feqb v f0 then f0 else v.
(** [_p_distribution] before the leftover correction: one block per class *)
Definition p_blocks (pcs : list (FN * Z)) : list FN :=
  flat_map (fun pc => repeat (p_individual (fst pc) (snd pc)) (Z.to_nat (snd pc))) pcs.
Definition p_leftover (p : list FN) : FN := (f1 - pysum p) / fofZ (len p).
(** [[max(p + p_leftover, 0.0) for p in ...]] *)
Definition p_final (pcs : list (FN * Z)) : list FN :=
  let p := p_blocks pcs in
  let lo := p_leftover p in
  map (fun x => pymax (x + lo) f0) p.

(** requested probability and window count of every class, in np.unique order *)
Definition class_table (from to col : Z) (all : list FN) (cp : dict) (d : list (list FN))
  : list (FN * Z) :=
  map (fun c => (match lookup c cp with Some v => v | None => f0 end,
                 len (cls_idx feqb f0 from to col c d))) all.

(** the vector handed to np.random.choice ([[]] when the window holds no row) *)
Definition p_distribution (tol : FN) (from to col : Z) (cp : dict) (d : list (list FN))
  : option (list FN) :=
  let all := np_unique feqb fltb (column f0 col d) in
  match fill_probabilities tol all cp with
  | None => None
  | Some cp' =>
      match p_blocks (class_table from to col all cp' d) with
      | [] => Some []
      | _ => Some (p_final (class_table from to col all cp' d))
      end
  end.

(** the whole call: [None] = ValueError (also the one np.random.choice raises for a vector with a
    negative entry); [positions] = the draws of np.random.choice *)
Definition label_probability (tol : FN) (from to col : Z) (cp : dict) (positions : list Z)
  (d : list (list FN)) : option (list (list FN)) :=
  match p_distribution tol from to col cp d with
  | None => None
  | Some p =>
      if existsb (fun x => x <? f0) p then None
      else Some (resample feqb fltb f0 from to col positions d)
  end.

(** ** LabelDirichletInjector.__call__ : [dir] = the draw of np.random.dirichlet(alpha.values()) *)
Definition label_dirichlet (tol : FN) (from to col : Z) (alpha_keys : list FN) (dir : list FN)
  (positions : list Z) (d : list (list FN)) : option (list (list FN)) :=
  label_probability tol from to col (combine alpha_keys dir) positions d.

End Numeric.

(** * Injector._preprocess / _postprocess: container kind and column labels *)
Inductive frame (L A : Type) : Type :=
| Arr (rows : list (list A))                       (* numpy.ndarray *)
| DF (cols : list L) (rows : list (list A)).       (* pandas.DataFrame with column labels *)
Arguments Arr {L A}. Arguments DF {L A}.

Inductive colref (L : Type) : Type := ByIdx (i : Z) | ByName (l : L).
Arguments ByIdx {L}. Arguments ByName {L}.

Definition rows_of {L A : Type} (fr : frame L A) : list (list A) :=
  match fr with Arr r => r | DF _ r => r end.
Definition with_rows {L A : Type} (fr : frame L A) (r : list (list A)) : frame L A :=
  match fr with Arr _ => Arr r | DF c _ => DF c r end.

Fixpoint index_of {L : Type} (leqb : L -> L -> bool) (l : L) (cols : list L) (i : Z) : option Z :=
  match cols with
  | [] => None
  | c :: t => if leqb l c then Some i else index_of leqb l t (i + 1)
  end.
(** integer positions for arrays, [columns.get_loc(name)] for data frames; [None] = the call raises *)
Definition resolve {L A : Type} (leqb : L -> L -> bool) (fr : frame L A) (c : colref L) : option Z :=
  match fr, c with
  | Arr _, ByIdx i => Some i
  | DF cols _, ByName l => index_of leqb l cols 0
  | _, _ => None
  end.

Definition call1 {L A : Type} (leqb : L -> L -> bool) (fr : frame L A) (c : colref L)
  (f : Z -> list (list A) -> option (list (list A))) : option (frame L A) :=
  match resolve leqb fr c with
  | None => None
  | Some i => match f i (rows_of fr) with None => None | Some r => Some (with_rows fr r) end
  end.

Definition call_swap {L A : Type} (leqb : L -> L -> bool) (fr : frame L A) (from to : Z)
  (c1 c2 : colref L) : option (frame L A) :=
  match resolve leqb fr c1, resolve leqb fr c2 with
  | Some i1, Some i2 => Some (with_rows fr (feature_swap from to i1 i2 (rows_of fr)))
  | _, _ => None
  end.
Definition call_label_swap {L A : Type} (leqb : L -> L -> bool) (eqb : A -> A -> bool)
  (fr : frame L A) (from to : Z) (c : colref L) (k1 k2 : A) : option (frame L A) :=
  call1 leqb fr c (fun i r => Some (label_swap eqb from to i k1 k2 r)).
Definition call_label_join {L A : Type} (leqb : L -> L -> bool) (eqb : A -> A -> bool)
  (fr : frame L A) (from to : Z) (c : colref L) (k1 k2 knew : A) : option (frame L A) :=
  call1 leqb fr c (fun i r => Some (label_join eqb from to i k1 k2 knew r)).
Definition call_shift {L : Type} (N : Num) (leqb : L -> L -> bool) (mean : list (F N) -> F N)
  (fr : frame L (F N)) (from to : Z) (c : colref L) (sf alpha : F N) : option (frame L (F N)) :=
  call1 leqb fr c (fun i r => Some (feature_shift N mean from to i sf alpha r)).
Definition call_brownian {L : Type} (N : Num) (leqb : L -> L -> bool)
  (fr : frame L (F N)) (from to : Z) (c : colref L) (x0 : F N) (signs : list Z)
  : option (frame L (F N)) :=
  call1 leqb fr c (fun i r => Some (brownian N from to i x0 signs r)).
Definition call_label_probability {L : Type} (N : Num) (leqb : L -> L -> bool) (tol : F N)
  (fr : frame L (F N)) (from to : Z) (c : colref L) (cp : dict N) (positions : list Z)
  : option (frame L (F N)) :=
  call1 leqb fr c (fun i r => label_probability N tol from to i cp positions r).
Definition call_label_dirichlet {L : Type} (N : Num) (leqb : L -> L -> bool) (tol : F N)
  (fr : frame L (F N)) (from to : Z) (c : colref L) (keys dir : list (F N)) (positions : list Z)
  : option (frame L (F N)) :=
  call1 leqb fr c (fun i r => label_dirichlet N tol from to i keys dir positions r).
(** FeatureCoverInjector: the column label disappears together with the column.
    [None]: pandas' ValueError for a negative [n] or for a group with fewer than [n] rows
    (sampling without replacement). *)
Definition group_size {A : Type} (eqb : A -> A -> bool) (dflt : A) (col : Z) (d : list (list A)) (c : A) : Z :=
  len (idx_from (fun _ r => eqb (nthZ col r dflt) c) 0 d).
Definition cover_raises {A : Type} (eqb ltb : A -> A -> bool) (dflt : A) (col sample_size : Z)
  (d : list (list A)) : bool :=
  let classes := np_unique eqb ltb (column dflt col d) in
  let n := cover_n eqb ltb dflt col sample_size d in
  (n <? 0) || existsb (fun c => group_size eqb dflt col d c <? n) classes.
Definition call_cover {L A : Type} (leqb : L -> L -> bool) (eqb ltb : A -> A -> bool) (dflt : A)
  (fr : frame L A) (c : colref L) (sample_size : Z) (idxs : list Z) : option (frame L A) :=
  match resolve leqb fr c with
  | None => None
  | Some i =>
      if cover_raises eqb ltb dflt i sample_size (rows_of fr) then None
      else Some (match fr with
                 | Arr r => Arr (feature_cover i idxs r)
                 | DF cols r => DF (remove_col i cols) (feature_cover i idxs r)
                 end)
  end.

(** * the instance state of an injector: [self._columns]
    [_preprocess] stores the column labels of a DataFrame and resets the attribute to [None] for an
    ndarray (before anything can raise); [_postprocess] reads it to restore the container kind.
    The working copy of FeatureCoverInjector is [pd.DataFrame(copy, columns=self._columns)]. *)
Definition istate (L : Type) := option (list L).

Definition preprocess {L A : Type} (st : istate L) (fr : frame L A) : istate L * list (list A) :=
  match fr with
  | Arr r => (None, r)
  | DF cols r => (Some cols, r)
  end.
Definition postprocess {L A : Type} (st : istate L) (r : list (list A)) : frame L A :=
  match st with
  | Some cols => DF cols r
  | None => Arr r
  end.
(** FeatureCover: a DataFrame keeps its own (reduced) labels, without stored labels [to_numpy()] *)
Definition postprocess_cover {L A : Type} (st : istate L) (i : Z) (r : list (list A)) : frame L A :=
  match st with
  | Some cols => DF (remove_col i cols) r
  | None => Arr r
  end.

(** the calls on an instance whose attribute holds [st]: new attribute value and result *)
Definition call1_st {L A : Type} (leqb : L -> L -> bool) (st : istate L) (fr : frame L A)
  (c : colref L) (f : Z -> list (list A) -> option (list (list A)))
  : istate L * option (frame L A) :=
  let '(st', rows) := preprocess st fr in
  (st', match resolve leqb fr c with
        | None => None
        | Some i => match f i rows with None => None | Some r => Some (postprocess st' r) end
        end).
Definition call_swap_st {L A : Type} (leqb : L -> L -> bool) (st : istate L) (fr : frame L A)
  (from to : Z) (c1 c2 : colref L) : istate L * option (frame L A) :=
  let '(st', rows) := preprocess st fr in
  (st', match resolve leqb fr c1, resolve leqb fr c2 with
        | Some i1, Some i2 => Some (postprocess st' (feature_swap from to i1 i2 rows))
        | _, _ => None
        end).
Definition call_cover_st {L A : Type} (leqb : L -> L -> bool) (eqb ltb : A -> A -> bool) (dflt : A)
  (st : istate L) (fr : frame L A) (c : colref L) (sample_size : Z) (idxs : list Z)
  : istate L * option (frame L A) :=
  let '(st', rows) := preprocess st fr in
  (st', match resolve leqb fr c with
        | None => None
        | Some i =>
            if cover_raises eqb ltb dflt i sample_size rows then None
            else Some (postprocess_cover st' i (feature_cover i idxs rows))
        end).

(** a sequence of calls on one instance *)
Fixpoint run_calls {L A X : Type} (step : istate L -> X -> istate L * option (frame L A))
  (st : istate L) (xs : list X) : list (istate L * option (frame L A)) :=
  match xs with
  | [] => []
  | x :: t => let r := step st x in r :: run_calls step (fst r) t
  end.
