(** Model of menelaus/data_drift/kdq_tree.py (KdqTreeDetector, KdqTreeStreaming, KdqTreeBatch) on top
    of the kdq-tree partitioner model KdqTree.v, statement by statement, generic over [N : Num].

    Oracles (Section variables / inputs, never axioms):
      - [trunc]  : Python's [int(x)] of a double (needed by [KdqTree.build]);
      - [rint]   : [np.around(x).astype(np.intp)] (round half to even), used by np.quantile(method="nearest");
      - [kl]     : scipy.stats.entropy; its two arguments are the corrected leaf distributions
                   computed by [KdqTree.distn] (through [KdqTree.kl_distance]);
      - the list of bootstrap divergences [critical_distances] that [_get_critical_kld] hands to
        np.quantile: it is part of the *input* of every update / set_reference (the random draws of
        that call under the seed schedule); it is read only when that call builds a reference.
    What is modelled exactly: the two state machines (reference buffer, tree construction, test
    window, counters, persistence rule, reset / set_reference, adoption of the drifted batch) and
    np.quantile(list, 1 - alpha, method="nearest") = sorted(list)[around((n-1) * (1-alpha))].
    Ghost fields (not present in the Python objects): [*_oof] (the build ran out of fuel) and
    [*_bootq] (arguments of the last call of [_get_critical_kld]: leaf counts of the reference,
    sample size), both per epoch.
    No proofs here (KdqDet_Proofs.v). *)
From MV Require Import Base Num Lifecycle KdqTree.

Section KdqDet.
Context {N : Num}.
Local Open Scope num_scope.
Notation F := (F N).
Notation tree := (tree N).
Notation point := (point N).

Variable trunc : F -> F.
Variable rint : F -> Z.
Variable kl : list F -> list F -> F.

(** ---------------- np.quantile(a, q, method="nearest") ---------------- *)
Fixpoint insert (x : F) (l : list F) : list F :=
  match l with
  | [] => [x]
  | y :: t => if x <=? y then x :: l else y :: insert x t
  end.
Definition fsort (l : list F) : list F := fold_right insert [] l.

(** the level handed to np.quantile: [1 - self.alpha] *)
Definition qlevel (alpha : F) : F := f1 - alpha.
(** virtual index of method "nearest": [np.around((n - 1) * q).astype(np.intp)] *)
Definition qrank (n : Z) (q : F) : Z := rint (fofZ (n - 1) * q).
(** [take(sorted(a), index)] (numpy partitions instead of sorting; same element) *)
Definition quantile_nearest (l : list F) (q : F) : F :=
  nth (Z.to_nat (qrank (len l) q)) (fsort l) f0.

Definition count_lt (l : list F) (v : F) : Z := len (filter (fun x => x <? v) l).
Definition count_le (l : list F) (v : F) : Z := len (filter (fun x => x <=? v) l).

(** checker: [v] is an element of [l] (up to the order's equivalence) whose rank is the virtual
    index: at most [k] elements lie strictly below it and more than [k] lie at or below it *)
Definition quantile_ok (l : list F) (q : F) (v : F) : bool :=
  let k := qrank (len l) q in
  (0 <=? k)%Z && (k <? len l)%Z
  && existsb (fun x => (x <=? v) && (v <=? x)) l
  && (count_lt l v <=? k)%Z && (k <? count_le l v)%Z.

(** [_get_critical_kld]: np.quantile(critical_distances, 1 - self.alpha, method="nearest") *)
Definition critical_value (alpha : F) (boot : list F) : F := quantile_nearest boot (qlevel alpha).

(** ---------------- shared pieces (KdqTreeDetector) ---------------- *)
Record kdq_params := {
  k_w : Z;          (* window_size (streaming only) *)
  k_pers : F;       (* persistence (streaming only) *)
  k_alpha : F;
  k_cub : Z;        (* count_ubound *)
  k_clb : F;        (* cutpoint_proportion_lbound *)
  k_m : Z           (* number of columns (fixed by input validation) *)
}.

Definition kfuel (data : list point) : nat := S (length data).

(** KDQTreePartitioner(count_ubound, cutpoint_proportion_lbound).build(ary) *)
Definition kbuild (p : kdq_params) (data : list point) : tree * bool :=
  build trunc (k_cub p) (k_clb p) (k_m p) (kfuel data) data.

(** leaf_counts(tree_id) as integers (a missing id reads 0) *)
Definition lcounts (id : Z) (t : tree) : list Z :=
  map (fun o => match o with Some v => v | None => 0%Z end) (leaf_counts id t).

(** self._kdqtree.kl_distance(tree_id1="build", tree_id2="test"); ids: 0 = "build", 1 = "test" *)
Definition divergence (t : tree) : option F := kl_distance kl t 0 1.

(** [test_dist > self._critical_dist] ([None] on either side cannot occur in a run of the code: the
    comparison would raise TypeError; the model reads it as "not above") *)
Definition above (c d : option F) : bool :=
  match c, d with Some c, Some d => c <? d | _, _ => false end.

(** ================= KdqTreeStreaming ================= *)
Record kstream := mk_ks {
  s_total : Z; s_since : Z; s_ds : dstate;
  s_ref : list point;          (* _ref_data: pending reference samples *)
  s_tree : option tree;        (* _kdqtree *)
  s_tsize : Z;                 (* _test_data_size *)
  s_crit : option F;           (* _critical_dist *)
  s_tdist : option F;          (* _test_dist *)
  s_counter : Z;               (* _drift_counter *)
  s_oof : bool;                (* ghost *)
  s_bootq : option (list Z * Z)  (* ghost: (ref_counts, sample_size) of _get_critical_kld *)
}.

(** __init__ (which ends with reset()) *)
Definition ks_init : kstream := mk_ks 0 0 DNone [] None 0 None None 0 false None.

(** KdqTreeStreaming.reset(): StreamingDetector.reset, KdqTreeDetector.reset, _drift_counter = 0 *)
Definition ks_reset (s : kstream) : kstream :=
  mk_ks (s_total s) 0 DNone [] None 0 None None 0 false None.

(** what one update receives: the sample row, and the bootstrap divergences this call would draw *)
Notation sx := (point * list F)%type (only parsing).

(** _inner_set_reference(ary, "stream"): reset() (dynamic dispatch: the streaming reset, so
    samples_since_reset and the drift state restart too), build, critical value with
    sample_size = window_size, _ref_data emptied *)
Definition ks_set_reference (p : kdq_params) (s : kstream) (ary : list point) (boot : list F) : kstream :=
  let s1 := ks_reset s in
  let b := kbuild p ary in
  mk_ks (s_total s1) (s_since s1) (s_ds s1) [] (Some (fst b)) (s_tsize s1)
        (Some (critical_value (k_alpha p) boot)) (s_tdist s1) (s_counter s1)
        (snd b) (Some (lcounts 0 (fst b), k_w p)).

(** _evaluate_kdqtree(ary, "stream") *)
Definition ks_evaluate (p : kdq_params) (s : kstream) (x : point) (boot : list F) : kstream :=
  match s_tree s with
  | None =>
      (* np.vstack([self._ref_data, ary]) if self._ref_data.size else ary *)
      let ref' := s_ref s ++ [x] in
      if (len ref' =? k_w p)%Z then ks_set_reference p s ref' boot
      else mk_ks (s_total s) (s_since s) (s_ds s) ref' None (s_tsize s) (s_crit s) (s_tdist s)
                 (s_counter s) (s_oof s) (s_bootq s)
  | Some t =>
      (* self._kdqtree.fill(ary, tree_id="test", reset=False); self._test_data_size += 1 *)
      let t' := fill [x] t 1 false in
      let ts := (s_tsize s + 1)%Z in
      if (k_w p <=? ts)%Z then
        let d := divergence t' in
        if above (s_crit s) d then
          let c := (s_counter s + 1)%Z in
          mk_ks (s_total s) (s_since s)
                (if (k_pers p * fofZ (k_w p)) <? fofZ c then DDrift else s_ds s)
                (s_ref s) (Some t') ts (s_crit s) d c (s_oof s) (s_bootq s)
        else
          mk_ks (s_total s) (s_since s) (s_ds s) (s_ref s) (Some t') ts (s_crit s) d 0
                (s_oof s) (s_bootq s)
      else
        mk_ks (s_total s) (s_since s) (s_ds s) (s_ref s) (Some t') ts (s_crit s) (s_tdist s)
              (s_counter s) (s_oof s) (s_bootq s)
  end.

(** KdqTreeStreaming.update *)
Definition ks_update (p : kdq_params) (s : kstream) (x : sx) : kstream :=
  let s0 := if is_drift (s_ds s) then ks_reset s else s in
  let s1 := mk_ks (s_total s0 + 1) (s_since s0 + 1) (s_ds s0) (s_ref s0) (s_tree s0) (s_tsize s0)
                  (s_crit s0) (s_tdist s0) (s_counter s0) (s_oof s0) (s_bootq s0) in
  ks_evaluate p s1 (fst x) (snd x).

Definition ks_run (p : kdq_params) (s : kstream) (xs : list sx) : kstream := fold_left (ks_update p) xs s.

Definition ks_observe (s : kstream) : obs := mk_obs (s_ds s) (s_total s) (s_since s) recs_none.

Fixpoint ks_trace (p : kdq_params) (s : kstream) (xs : list sx) : list obs :=
  match xs with
  | [] => []
  | x :: t => let s' := ks_update p s x in ks_observe s' :: ks_trace p s' t
  end.

(** the whole state after every update (for the correspondence check and the state-level theorems) *)
Fixpoint ks_states (p : kdq_params) (s : kstream) (xs : list sx) : list kstream :=
  match xs with
  | [] => []
  | x :: t => let s' := ks_update p s x in s' :: ks_states p s' t
  end.

(** ================= KdqTreeBatch ================= *)
Record kbatch := mk_kb {
  b_total : Z; b_since : Z; b_ds : dstate;
  b_tree : option tree;            (* _kdqtree *)
  b_crit : option F;               (* _critical_dist *)
  b_tdist : option F;              (* _test_dist *)
  b_refdata : option (list point); (* ref_data: the batch that drifted (never cleared by the code) *)
  b_oof : bool;                    (* ghost *)
  b_bootq : option (list Z * Z)    (* ghost *)
}.

Definition kb_init : kbatch := mk_kb 0 0 DNone None None None None false None.

(** what one call receives: the batch, and the bootstrap divergences this call would draw *)
Notation bx := (list point * list F)%type (only parsing).

(** _inner_set_reference(ary, "batch"): reset() (the batch reset: batches_since_reset = 0, state
    None), build, critical value with sample_size = sum(ref_counts) *)
Definition kb_inner_set_reference (p : kdq_params) (s : kbatch) (x : bx) : kbatch :=
  let b := kbuild p (fst x) in
  let rc := lcounts 0 (fst b) in
  mk_kb (b_total s) 0 DNone (Some (fst b)) (Some (critical_value (k_alpha p) (snd x))) None
        (b_refdata s) (snd b) (Some (rc, zsum rc)).

(** KdqTreeBatch.set_reference *)
Definition kb_set_reference := kb_inner_set_reference.

(** KdqTreeBatch.update *)
Definition kb_update (p : kdq_params) (s : kbatch) (x : bx) : kbatch :=
  (* if self.drift_state == "drift": self.set_reference(self.ref_data) *)
  let s0 := if is_drift (b_ds s)
            then match b_refdata s with
                 | Some r => kb_inner_set_reference p s (r, snd x)
                 | None => s     (* AttributeError in the code; unreachable: see kb_wf *)
                 end
            else s in
  (* BatchDetector.update: both counters + 1 *)
  let tot := (b_total s0 + 1)%Z in
  let sin := (b_since s0 + 1)%Z in
  match b_tree s0 with
  | None =>
      (* first batch of a detector without set_reference: it becomes the reference; the reset()
         inside _inner_set_reference puts batches_since_reset back to 0 *)
      kb_inner_set_reference p (mk_kb tot sin (b_ds s0) None (b_crit s0) (b_tdist s0) (b_refdata s0)
                                      (b_oof s0) (b_bootq s0)) x
  | Some t =>
      let t' := fill (fst x) t 1 true in
      let d := divergence t' in
      if above (b_crit s0) d
      then mk_kb tot sin DDrift (Some t') (b_crit s0) d (Some (fst x)) (b_oof s0) (b_bootq s0)
      else mk_kb tot sin (b_ds s0) (Some t') (b_crit s0) d (b_refdata s0) (b_oof s0) (b_bootq s0)
  end.

Inductive bop := BSetRef (x : bx) | BUpdate (x : bx).

Definition kb_apply (p : kdq_params) (s : kbatch) (o : bop) : kbatch :=
  match o with BSetRef x => kb_set_reference p s x | BUpdate x => kb_update p s x end.

Definition kb_run (p : kdq_params) (s : kbatch) (ops : list bop) : kbatch := fold_left (kb_apply p) ops s.

Definition kb_observe (s : kbatch) : obs := mk_obs (b_ds s) (b_total s) (b_since s) recs_none.

Fixpoint kb_trace (p : kdq_params) (s : kbatch) (ops : list bop) : list obs :=
  match ops with
  | [] => []
  | o :: t => let s' := kb_apply p s o in kb_observe s' :: kb_trace p s' t
  end.

Fixpoint kb_states (p : kdq_params) (s : kbatch) (ops : list bop) : list kbatch :=
  match ops with
  | [] => []
  | o :: t => let s' := kb_apply p s o in s' :: kb_states p s' t
  end.

End KdqDet.

Arguments kstream : clear implicits.
Arguments kbatch : clear implicits.
Arguments kdq_params : clear implicits.
Arguments bop : clear implicits.
(** input types (only-parsing abbreviations, so that no alias constant occurs in terms) *)
Notation sx N := (point N * list (F N))%type (only parsing).
Notation bx N := (list (point N) * list (F N))%type (only parsing).
