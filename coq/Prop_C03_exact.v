(** C03 (exact-arithmetic part) — ADWIN keeps EXACT statistics of its adaptive window.
    Statements only; definitions and proofs in Adwin_Exact.v.  The model [Adwin.v] is instantiated at
    the real numbers ([NumLaws.NumR]: F := R, fofZ := IZR, comparisons by [Rle_dec]/[Rlt_dec]); the log
    oracle [dpd] is arbitrary, all parameters are arbitrary except [1 <= a_sub_thresh p]
    ([1 <= a_max_buckets p] is not needed by the proof: the theorems hold for every value of it).

    Vocabulary (Adwin_Exact.v):  [sum l], [len l := IZR (length l)], [mean l := sum l / len l],
    [sqdev m l := sum_{x in l} (x - m)^2], [lastn n l := skipn (length l - n) l],
    [rep_bucket ne b c]: |c| = ne, fst b = sum c, snd b = sqdev (mean c) c;
    [rep_row ne r w]: the buckets of row r, oldest first, summarise consecutive chunks (ne inputs each) of w;
    [rep_rows ne rows w]: w = w_older ++ w_row, the first row represents w_row with bucket size ne, the
    remaining rows represent w_older with bucket sizes 2 ne, 4 ne, ... (higher rows hold older data);
    [weight_from i rows] = sum_j 2^(i+j) * |row j|. *)
From MV Require Import Base Num Adwin Adwin_Proofs NumLaws Adwin_Exact Inject_Q.
From Coq Require Import Reals QArith.

(** After every input list: the window is exactly the W most recent inputs, [a_total] is their sum,
    [a_var] the sum of their squared deviations from their mean, the bucket rows tile the window
    (tail row = oldest data first, a bucket of row i summarising exactly 2^i consecutive inputs with
    exact total and exact sum of squared deviations), W = sum_i 2^i |row i|, and the fuel of the
    shrink loop never runs out. *)
Theorem C03_exact_window : forall (dpd : Z -> R) (p : adwin_params),
  (1 <= a_sub_thresh p)%Z ->
  forall xs : list R,
  let s := @adwin_run NumR dpd p adwin_init xs in
  let W := a_W s in
  let w := lastn (Z.to_nat W) xs in
  (0 <= W <= Z.of_nat (length xs))%Z /\
  Z.of_nat (length w) = W /\
  a_total s = sum w /\
  a_var s = sqdev (mean w) w /\
  rep_rows 1 (a_rows s) w /\
  W = weight_from 0 (a_rows s) /\
  a_fuel_out s = false.
Proof. exact adwin_exact_main. Qed.

(** mean() and variance() are the mean and the population variance of the window; the window is
    non-empty after the first input *)
Theorem C03_exact_mean_variance : forall (dpd : Z -> R) (p : adwin_params),
  (1 <= a_sub_thresh p)%Z ->
  forall xs : list R, xs <> [] ->
  let s := @adwin_run NumR dpd p adwin_init xs in
  let w := lastn (Z.to_nat (a_W s)) xs in
  (1 <= a_W s)%Z /\
  @mean_of NumR (a_total s) (a_W s) = mean w /\
  @variance_of NumR (a_var s) (a_W s) = (sqdev (mean w) w / len w)%R.
Proof. exact adwin_exact_mean_variance. Qed.

(** one step, from any state that represents a window exactly (e.g. a reachable one): the new
    window is a suffix of (old window ++ [x]) and is again represented exactly *)
Theorem C03_exact_step : forall (dpd : Z -> R) (p : adwin_params),
  (1 <= a_sub_thresh p)%Z ->
  forall (s : @adwin_st NumR) (w : list R) (x : R), exact_window s w ->
  exists c w', w ++ [x] = c ++ w' /\ exact_window (@adwin_update NumR dpd p s x) w' /\
    a_fuel_out (@adwin_update NumR dpd p s x) = a_fuel_out s.
Proof. exact update_exact. Qed.

(** the arithmetic behind it: the closed form kept by the code is the sum of squared deviations,
    and combining two non-empty samples follows Chan et al. (its three instances are the Welford
    insertion, the equal-size merge and the removal of the oldest bucket) *)
Theorem C03_exact_chan : forall a b : list R, (0 < len a)%R -> (0 < len b)%R ->
  sqdev (mean (a ++ b)) (a ++ b) =
  (sqdev (mean a) a + sqdev (mean b) b +
   len a * len b / (len a + len b) * ((mean a - mean b) * (mean a - mean b)))%R.
Proof. intros a b Ha Hb. rewrite <- !M2_sqdev. exact (M2_chan a b Ha Hb). Qed.

(** the hypothesis is satisfiable (library defaults) *)
Definition c03_default_params : adwin_params :=
  {| a_max_buckets := 5; a_new_sample_thresh := 32; a_window_size_thresh := 10; a_sub_thresh := 5;
     a_conservative := false |}.
Example C03_exact_hypotheses_satisfiable :
  (1 <= a_max_buckets c03_default_params)%Z /\ (1 <= a_sub_thresh c03_default_params)%Z.
Proof. split; discriminate. Qed.

(** a computed instance over Q (same model, exact rationals; [fsqrt] is not exact there, so the
    conservative cut with oracle value 0 is used: every non-zero difference of means cuts):
    max_buckets = 1, check at every step; the window shrinks and total / variance stay exact *)
Definition c03_q_params : adwin_params :=
  {| a_max_buckets := 1; a_new_sample_thresh := 1; a_window_size_thresh := 2; a_sub_thresh := 1;
     a_conservative := true |}.
Definition c03_q_check (xs : list Q) : bool :=
  let s := @adwin_run NumQ (fun _ => 0%Q) c03_q_params adwin_init xs in
  let w := lastn (Z.to_nat (a_W s)) xs in
  let sm := fold_right Qplus 0%Q w in
  let sq := fold_right (fun x a => Qplus (Qmult x x) a) 0%Q w in
  Qeq_bool (a_total s) sm &&
  Qeq_bool (a_var s) (sq - sm * sm / inject_Z (a_W s))%Q &&
  negb (a_fuel_out s) && (0 <? a_W s)%Z && (a_W s <? Z.of_nat (length xs))%Z.
Example C03_exact_demo_Q :
  c03_q_check [0; 0; 0; 0; 0; 5; 5; 3; 7; 5; 5; 5; 1; 1; 1; 1]%Q = true.
Proof. vm_compute. reflexivity. Qed.

Print Assumptions C03_exact_window.
Print Assumptions C03_exact_mean_variance.
Print Assumptions C03_exact_step.
Print Assumptions C03_exact_chan.
