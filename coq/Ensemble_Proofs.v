(** Lemmas about the ensemble model (C12).  Everything is structural: it holds for every member
    machine, every selector, every election, every history. *)
From Coq Require Import ZArith List Bool Lia ZifyBool.
From MV Require Import Base Election Election_Proofs Ensemble.

Section Proofs.
  Variables (K X Y M R ES : Type).
  Variable mupd : M -> X -> Y -> Y -> M.
  Variable msetref : M -> X -> Y -> Y -> M.
  Variable mreset : M -> M.
  Variable mds : M -> dstate.
  Variable mrecs : M -> option R.
  Variable elect : ES -> list dstate -> dstate * ES.

  Notation member := (member K X M).
  Notation ens := (ens K X M ES).
  Notation op := (op X Y).
  Notation step := (step K X Y M ES mupd msetref mreset mds elect).
  Notation run := (run K X Y M ES mupd msetref mreset mds elect).
  Notation ens_update := (ens_update K X Y M ES mupd mds elect).
  Notation ens_reset := (ens_reset K X M ES mreset).
  Notation ens_set_reference := (ens_set_reference K X Y M ES msetref).
  Notation mstep := (mstep X Y M mupd msetref mreset).
  Notation mrun := (mrun X Y M mupd msetref mreset).
  Notation solo := (solo K X Y M mupd msetref mreset).
  Notation solo_member := (solo_member K X Y M mupd msetref mreset).
  Notation solo_vector := (solo_vector K X Y M mupd msetref mreset mds).
  Notation states := (states K X M mds).
  Notation drift_states := (drift_states K X M ES mds).
  Notation recs_view := (recs_view K X M R mrecs).
  Notation retraining_recs := (retraining_recs K X M R ES mrecs).
  Notation states_after := (states_after K X Y M ES mupd msetref mreset mds elect).
  Notation spec_verdicts := (spec_verdicts K X Y M ES mupd msetref mreset mds elect).
  Notation streaming_run := (streaming_run K X Y M ES mupd msetref mreset mds elect).

  (** what one ensemble operation does to one member *)
  Definition member_step (o : op) (m : member) : member :=
    mk_member (key m) (mstep (mst m) (project (sel m) o)) (sel m).

  Lemma members_step e o : members (step e o) = map (member_step o) (members e).
  Proof.
    destruct o as [x yt yp| |x yt yp]; simpl.
    - unfold Ensemble.ens_update.
      destruct (elect _ _) as [d es']. simpl. reflexivity.
    - reflexivity.
    - reflexivity.
  Qed.

  Lemma solo_nil m : solo m [] = mst m.
  Proof. reflexivity. Qed.

  Lemma solo_cons m o ops : solo m (o :: ops) = solo (member_step o m) ops.
  Proof. reflexivity. Qed.

  Lemma solo_snoc m ops o : solo m (ops ++ [o]) = mstep (solo m ops) (project (sel m) o).
  Proof. unfold Ensemble.solo, Ensemble.mrun. rewrite map_app, fold_left_app. reflexivity. Qed.

  Lemma solo_member_cons ops o m : solo_member (o :: ops) m = solo_member ops (member_step o m).
  Proof. reflexivity. Qed.

  (** the whole member table after any history *)
  Lemma members_run : forall ops e, members (run e ops) = map (solo_member ops) (members e).
  Proof.
    induction ops as [|o ops IH]; intros e.
    - simpl. rewrite <- (map_id (members e)) at 1. apply map_ext. intros [k s f]; reflexivity.
    - change (run e (o :: ops)) with (run (step e o) ops).
      rewrite IH, members_step, map_map. apply map_ext. intros m. reflexivity.
  Qed.

  Lemma member_alone_nth : forall ops e i m,
    nth_error (members e) i = Some m ->
    nth_error (members (run e ops)) i = Some (mk_member (key m) (solo m ops) (sel m)).
  Proof.
    intros ops e i m H. rewrite members_run.
    rewrite nth_error_map, H. reflexivity.
  Qed.

  Lemma length_members_run ops e : length (members (run e ops)) = length (members e).
  Proof. rewrite members_run. apply map_length. Qed.

  Lemma keys_run ops e : map key (members (run e ops)) = map key (members e).
  Proof. rewrite members_run, map_map. reflexivity. Qed.

  (** the member does not see anything its selector drops, nor the other members, nor the election *)
  Lemma solo_depends_on_projection m ops ops' :
    map (project (sel m)) ops = map (project (sel m)) ops' -> solo m ops = solo m ops'.
  Proof. unfold Ensemble.solo. intros ->. reflexivity. Qed.

  (** views *)
  Lemma states_solo ops e : states (members (run e ops)) = solo_vector (members e) ops.
  Proof. rewrite members_run. unfold Ensemble.states, Ensemble.solo_vector. rewrite map_map. reflexivity. Qed.

  Lemma drift_states_run ops e :
    drift_states (run e ops) = map (fun m => (key m, mds (solo m ops))) (members e).
  Proof. unfold Ensemble.drift_states. rewrite members_run, map_map. reflexivity. Qed.

  Lemma recs_view_map_solo ops ms :
    recs_view (map (solo_member ops) ms)
    = flat_map (fun m => match mrecs (solo m ops) with Some r => [(key m, r)] | None => [] end) ms.
  Proof.
    induction ms as [|m ms IH]; simpl; [reflexivity|].
    destruct (mrecs (solo m ops)); simpl; rewrite IH; reflexivity.
  Qed.

  Lemma retraining_recs_run ops e :
    retraining_recs (run e ops)
    = flat_map (fun m => match mrecs (solo m ops) with Some r => [(key m, r)] | None => [] end) (members e).
  Proof. unfold Ensemble.retraining_recs. rewrite members_run. apply recs_view_map_solo. Qed.

  Lemma recs_view_in ms k r :
    In (k, r) (recs_view ms) <-> exists m, In m ms /\ key m = k /\ mrecs (mst m) = Some r.
  Proof.
    induction ms as [|m ms IH]; simpl.
    - split; [tauto | intros (m & [] & _)].
    - destruct (mrecs (mst m)) as [r'|] eqn:E; simpl; rewrite IH; split.
      + intros [H | (m' & H1 & H2)].
        * inversion H; subst. exists m. auto.
        * exists m'. auto.
      + intros (m' & [H | H] & H2 & H3).
        * subst m'. left. congruence.
        * right. exists m'. auto.
      + intros (m' & H1 & H2). exists m'. auto.
      + intros (m' & [H | H] & H2 & H3).
        * subst m'. congruence.
        * exists m'. auto.
  Qed.

  Lemma recs_view_keys_sub ms : incl (map fst (recs_view ms)) (map key ms).
  Proof.
    induction ms as [|m ms IH]; simpl; [apply incl_refl|].
    destruct (mrecs (mst m)); simpl.
    - apply incl_cons; [left; reflexivity | apply incl_tl, IH].
    - apply incl_tl, IH.
  Qed.

  (** one update: order of evaluation *)
  Lemma update_spec e x yt yp :
    let ms := map (member_step (OUpdate x yt yp)) (members e) in
    members (ens_update e x yt yp) = ms /\
    eds (ens_update e x yt yp) = fst (elect (est e) (states ms)) /\
    est (ens_update e x yt yp) = snd (elect (est e) (states ms)) /\
    etotal (ens_update e x yt yp) = etotal e + 1 /\
    esince (ens_update e x yt yp) = esince e + 1.
  Proof.
    unfold Ensemble.ens_update. simpl.
    change (map (member_update K X Y M mupd x yt yp) (members e))
      with (map (member_step (OUpdate x yt yp)) (members e)).
    destruct (elect _ _) as [d es']. simpl. repeat split; reflexivity.
  Qed.

  Lemma reset_spec e :
    members (ens_reset e) = map (fun m => mk_member (key m) (mreset (mst m)) (sel m)) (members e) /\
    eds (ens_reset e) = DNone /\ esince (ens_reset e) = 0 /\
    etotal (ens_reset e) = etotal e /\ est (ens_reset e) = est e.
  Proof. repeat split; reflexivity. Qed.

  Lemma set_reference_spec e x yt yp :
    members (ens_set_reference e x yt yp)
      = map (fun m => mk_member (key m) (msetref (mst m) (select (sel m) x) yt yp) (sel m)) (members e) /\
    eds (ens_set_reference e x yt yp) = eds e /\ esince (ens_set_reference e x yt yp) = esince e /\
    etotal (ens_set_reference e x yt yp) = etotal e /\ est (ens_set_reference e x yt yp) = est e.
  Proof. repeat split; reflexivity. Qed.

  Lemma reset_reaches_nth e i m :
    nth_error (members e) i = Some m ->
    nth_error (members (ens_reset e)) i = Some (mk_member (key m) (mreset (mst m)) (sel m)).
  Proof. intros H. simpl. rewrite nth_error_map, H. reflexivity. Qed.

  Lemma set_reference_reaches_nth e x yt yp i m :
    nth_error (members e) i = Some m ->
    nth_error (members (ens_set_reference e x yt yp)) i
    = Some (mk_member (key m) (msetref (mst m) (select (sel m) x) yt yp) (sel m)).
  Proof. intros H. simpl. rewrite nth_error_map, H. reflexivity. Qed.

  (** the ensemble's verdict along a history = the election run over the solo twins *)
  Lemma verdicts_gen : forall ops ms0 pre e,
    members e = map (solo_member pre) ms0 ->
    map (fun e' => (eds e', est e')) (states_after e ops) = spec_verdicts ms0 (est e) (eds e) pre ops.
  Proof.
    induction ops as [|o ops IH]; intros ms0 pre e Hm; [reflexivity|].
    assert (Hm' : members (step e o) = map (solo_member (pre ++ [o])) ms0).
    { rewrite members_step, Hm, map_map. apply map_ext. intros m.
      unfold Ensemble.solo_member, member_step. simpl. rewrite solo_snoc. reflexivity. }
    simpl states_after. simpl map.
    specialize (IH ms0 (pre ++ [o]) (step e o) Hm').
    destruct o as [x yt yp| |x yt yp].
    - simpl spec_verdicts.
      assert (Hv : states (map (member_update K X Y M mupd x yt yp) (members e))
                   = solo_vector ms0 (pre ++ [OUpdate x yt yp])).
      { change (map (member_update K X Y M mupd x yt yp) (members e))
          with (map (member_step (OUpdate x yt yp)) (members e)).
        rewrite <- members_step, Hm'. unfold Ensemble.states, Ensemble.solo_vector.
        rewrite map_map. reflexivity. }
      revert IH. simpl step. unfold Ensemble.ens_update. rewrite Hv.
      destruct (elect (est e) _) as [d es']. simpl. intros ->. reflexivity.
    - simpl spec_verdicts. revert IH. simpl. intros ->. reflexivity.
    - simpl spec_verdicts. revert IH. simpl. intros ->. reflexivity.
  Qed.

  Lemma verdicts_spec ops e :
    map (fun e' => (eds e', est e')) (states_after e ops)
    = spec_verdicts (members e) (est e) (eds e) [] ops.
  Proof.
    apply verdicts_gen. simpl.
    rewrite <- (map_id (members e)) at 1. apply map_ext. intros [k s f]; reflexivity.
  Qed.

  Lemma run_snoc e ops o : run e (ops ++ [o]) = step (run e ops) o.
  Proof. unfold Ensemble.run. rewrite fold_left_app. reflexivity. Qed.

  (** after an update the verdict is the election of the solo twins, in insertion order *)
  Lemma state_after_update e ops x yt yp :
    let e' := run e (ops ++ [OUpdate x yt yp]) in
    eds e' = fst (elect (est (run e ops)) (solo_vector (members e) (ops ++ [OUpdate x yt yp]))) /\
    est e' = snd (elect (est (run e ops)) (solo_vector (members e) (ops ++ [OUpdate x yt yp]))) /\
    states (members e') = solo_vector (members e) (ops ++ [OUpdate x yt yp]).
  Proof.
    simpl. rewrite <- states_solo. rewrite run_snoc. simpl step.
    destruct (update_spec (run e ops) x yt yp) as (Hm & Hd & He & _).
    rewrite Hm, Hd, He. auto.
  Qed.

  (** counters *)
  Lemma etotal_run : forall ops e, etotal (run e ops) = etotal e + n_updates ops.
  Proof.
    unfold n_updates.
    induction ops as [|o ops IH]; intros e; [simpl; lia|].
    change (run e (o :: ops)) with (run (step e o) ops). rewrite IH.
    destruct o as [x yt yp| |x yt yp]; simpl filter; simpl length.
    - destruct (update_spec e x yt yp) as (_ & _ & _ & Ht & _). simpl step. rewrite Ht. lia.
    - reflexivity.
    - reflexivity.
  Qed.

  Lemma esince_run_noreset : forall ops e,
    forallb (fun o => negb (is_reset o)) ops = true -> esince (run e ops) = esince e + n_updates ops.
  Proof.
    unfold n_updates.
    induction ops as [|o ops IH]; intros e H; [simpl; lia|].
    simpl in H. apply andb_true_iff in H as [H1 H2].
    change (run e (o :: ops)) with (run (step e o) ops). rewrite (IH _ H2).
    destruct o as [x yt yp| |x yt yp]; simpl filter; simpl length.
    - destruct (update_spec e x yt yp) as (_ & _ & _ & _ & Hs). simpl step. rewrite Hs. lia.
    - discriminate.
    - reflexivity.
  Qed.

  Lemma run_app e a b : run e (a ++ b) = run (run e a) b.
  Proof. unfold Ensemble.run. apply fold_left_app. Qed.

  Lemma esince_run_after_reset e before after :
    forallb (fun o => negb (is_reset o)) after = true ->
    esince (run e (before ++ OReset :: after)) = n_updates after.
  Proof.
    intros H. rewrite run_app.
    change (run (run e before) (OReset :: after)) with (run (ens_reset (run e before)) after).
    rewrite (esince_run_noreset _ _ H). simpl. lia.
  Qed.

  (** the ensemble's own drift_state after a reset / a set_reference *)
  Lemma eds_after_reset e ops : eds (run e (ops ++ [OReset])) = DNone.
  Proof. rewrite run_snoc. reflexivity. Qed.

  Lemma eds_after_setref e ops x yt yp : eds (run e (ops ++ [OSetRef x yt yp])) = eds (run e ops).
  Proof. rewrite run_snoc. reflexivity. Qed.

  (** StreamingEnsemble: histories without set_reference; members never receive one *)
  Lemma streaming_members ops e :
    members (streaming_run e ops) = map (solo_member (map embed ops)) (members e).
  Proof. apply members_run. Qed.

  Lemma streaming_no_setref (s : option (X -> X)) (ops : list (sop X Y)) :
    Forall (fun o => match o with MSetRef _ _ _ => False | _ => True end) (map (project s) (map embed ops)).
  Proof.
    induction ops as [|o ops IH]; simpl; constructor; auto. destruct o; simpl; exact I.
  Qed.
End Proofs.

(** ---- instances: the four elections ---- *)
Section Elections.
  Variables (K X Y M : Type).
  Variable mupd : M -> X -> Y -> Y -> M.
  Variable msetref : M -> X -> Y -> Y -> M.
  Variable mreset : M -> M.
  Variable mds : M -> dstate.

  Notation ens := (ens K X M estate).
  Notation run k := (run K X Y M estate mupd msetref mreset mds (elect_of k)).
  Notation solo_vector := (solo_vector K X Y M mupd msetref mreset mds).

  Lemma majority_ensemble (e : ens) ops x yt yp :
    let ops' := ops ++ [OUpdate x yt yp] in
    eds (run EMajority e ops') = DDrift
    <-> Z.of_nat (length (members e)) < 2 * cnt_drift (solo_vector (members e) ops').
  Proof.
    simpl.
    destruct (state_after_update K X Y M estate mupd msetref mreset mds (elect_of EMajority) e ops x yt yp)
      as (Hd & _ & _).
    rewrite Hd. simpl. rewrite majority_iff. unfold Ensemble.solo_vector. rewrite map_length. reflexivity.
  Qed.

  Lemma min_approval_ensemble (e : ens) a ops x yt yp : 1 <= a ->
    let ops' := ops ++ [OUpdate x yt yp] in
    eds (run (EMinApproval a) e ops') = DDrift <-> a <= cnt_drift (solo_vector (members e) ops').
  Proof.
    intros Ha. simpl.
    destruct (state_after_update K X Y M estate mupd msetref mreset mds (elect_of (EMinApproval a)) e ops x yt yp)
      as (Hd & _ & _).
    rewrite Hd. simpl. apply min_approval_iff. exact Ha.
  Qed.

  Lemma ordered_ensemble (e : ens) a c ops x yt yp : 0 <= a -> 0 <= c -> 1 <= a + c ->
    let ops' := ops ++ [OUpdate x yt yp] in
    eds (run (EOrdered a c) e ops') = DDrift <-> a + c <= cnt_drift (solo_vector (members e) ops').
  Proof.
    intros Ha Hc Hac. simpl.
    destruct (state_after_update K X Y M estate mupd msetref mreset mds (elect_of (EOrdered a c)) e ops x yt yp)
      as (Hd & _ & _).
    rewrite Hd. simpl. apply ordered_iff; assumption.
  Qed.

  (** ConfirmedElection: verdict and counters are those of the election object called on the solo
      twins' state vector; reset and set_reference leave its counters alone *)
  Lemma confirmed_ensemble (e : ens) p ops x yt yp :
    let ops' := ops ++ [OUpdate x yt yp] in
    (eds (run (EConfirmed p) e ops'), est (run (EConfirmed p) e ops'))
    = confirmed_call p (est (run (EConfirmed p) e ops)) (solo_vector (members e) ops').
  Proof.
    simpl.
    destruct (state_after_update K X Y M estate mupd msetref mreset mds (elect_of (EConfirmed p)) e ops x yt yp)
      as (Hd & He & _).
    rewrite Hd, He. simpl. destruct (confirmed_call _ _ _); reflexivity.
  Qed.

  Lemma stateless_est k (e : ens) ops :
    match k with EConfirmed _ => False | _ => True end -> est (run k e ops) = est e.
  Proof.
    intros Hk. revert e. induction ops as [|o ops IH]; intros e; [reflexivity|].
    change (run k e (o :: ops)) with (run k (step K X Y M estate mupd msetref mreset mds (elect_of k) e o) ops).
    rewrite IH. destruct o as [x yt yp| |x yt yp]; try reflexivity.
    simpl. unfold Ensemble.ens_update. destruct k; simpl; try reflexivity. contradiction.
  Qed.
End Elections.

(** ---- heterogeneous members: a packed machine run alone is its own machine run alone ---- *)
Section HeteroProofs.
  Variables (X Y R : Type).
  Notation packed := (packed X Y R).
  Notation pmrun := (mrun X Y packed p_upd p_setref p_reset).

  Lemma packed_run_alone (mc : machine X Y R) (s : m_state mc) (ops : list (mop X Y)) :
    pmrun (pack mc s) ops
    = pack mc (mrun X Y (m_state mc) (m_upd mc) (m_setref mc) (m_reset mc) s ops).
  Proof.
    revert s. induction ops as [|o ops IH]; intros s; [reflexivity|].
    unfold Ensemble.mrun in *. simpl fold_left. destruct o; simpl; apply IH.
  Qed.
End HeteroProofs.
