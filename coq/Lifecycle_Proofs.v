(** Theorems about the generic machine: they hold for every kernel, hence for every detector
    model that instantiates it (C01 counters / recs contract, C02 clean slate). *)
From MV Require Import Base Lifecycle.

Ltac feq := repeat match goal with
  | |- Some _ = Some _ => f_equal
  | |- (_, _) = (_, _) => f_equal
  | |- mk_obs _ _ _ _ = mk_obs _ _ _ _ => f_equal
  end; try reflexivity; try lia.

Section Generic.
Variable K : kernel.
Implicit Types s : st K.

Definition pre s : st K := if is_drift (ds s) then do_reset s else s.

Lemma update_eq s x :
  update s x =
  let s0 := pre s in
  let p := step_e K (epoch s0) (since s0 + 1) x in
  mk_st (fst p) (total s0 + 1) (since s0 + 1)
        (match snd p with Some d => d | None => ds s0 end)
        (apply_policy (policy K) (snd p) (total s0 + 1 - 1) (recs s0)).
Proof. unfold update, pre. cbv zeta. destruct (step_e K _ _ x). reflexivity. Qed.

(** ---------- counters ---------- *)
Lemma update_total s x : total (update s x) = total s + 1.
Proof. rewrite update_eq. unfold pre. destruct (is_drift (ds s)); reflexivity. Qed.

Lemma update_since s x :
  since (update s x) = if is_drift (ds s) then 1 else since s + 1.
Proof. rewrite update_eq. unfold pre. destruct (is_drift (ds s)); reflexivity. Qed.

Lemma run_total : forall xs s, total (run s xs) = total s + Z.of_nat (length xs).
Proof.
  induction xs as [|x xs IH]; intros s; simpl; [lia|].
  unfold run in *. simpl. rewrite IH, update_total. lia.
Qed.

Lemma run_since_bounds : forall xs s, 0 <= since s <= total s ->
  0 <= since (run s xs) <= total (run s xs).
Proof.
  induction xs as [|x xs IH]; intros s H; simpl; [exact H|].
  apply IH. rewrite update_since, update_total. destruct (is_drift (ds s)); lia.
Qed.

(** ---------- a reported drift is forgotten by the next update ---------- *)
Lemma update_after_drift s x : is_drift (ds s) = true -> update s x = update (do_reset s) x.
Proof. intros H. unfold update. rewrite H. reflexivity. Qed.

Lemma recs_cleared s x r' : is_drift (ds s) = true ->
  update s x = update (mk_st (epoch s) (total s) (since s) (ds s) r') x.
Proof. intros H. unfold update. simpl. rewrite H. reflexivity. Qed.

Lemma trace_after_drift xs s : is_drift (ds s) = true -> trace s xs = trace (do_reset s) xs.
Proof. intros H. destruct xs as [|x xs]; [reflexivity|]. simpl. rewrite update_after_drift by exact H. reflexivity. Qed.

(** ---------- clean slate: lock-step simulation with a twin that has seen [k] fewer items ---------- *)
Definition twin (k : Z) (a b : st K) : Prop :=
  epoch a = epoch b /\ since a = since b /\ ds a = ds b /\ total a = total b + k
  /\ recs a = shift_recs k (recs b).

Lemma apply_policy_shift pol od i k r :
  apply_policy pol od (i + k) (shift_recs k r) = shift_recs k (apply_policy pol od i r).
Proof.
  destruct r as [[a|] [b|]]; destruct pol; destruct od as [[| |]|]; simpl; unfold shift_recs; simpl;
    feq.
Qed.

Lemma pre_twin k a b : twin k a b -> twin k (pre a) (pre b).
Proof.
  intros (He & Hs & Hd & Ht & Hr). unfold pre. rewrite Hd.
  destruct (is_drift (ds b)); [|repeat split; assumption].
  unfold twin, do_reset; simpl. rewrite He. repeat split. exact Ht.
Qed.

Lemma update_twin k a b x : twin k a b -> twin k (update a x) (update b x).
Proof.
  intros H. apply pre_twin in H. destruct H as (He & Hs & Hd & Ht & Hr).
  rewrite !update_eq. cbv zeta. rewrite He, Hs, Hd.
  unfold twin; simpl. repeat split; try lia.
  rewrite Hr. replace (total (pre a) + 1 - 1) with ((total (pre b) + 1 - 1) + k) by lia.
  apply apply_policy_shift.
Qed.

Lemma observe_twin k a b : twin k a b -> observe a = shift_obs k (observe b).
Proof.
  intros (He & Hs & Hd & Ht & Hr). unfold observe, shift_obs. simpl. rewrite Hs, Hd, Ht, Hr. reflexivity.
Qed.

Lemma trace_twin k : forall xs a b, twin k a b -> trace a xs = map (shift_obs k) (trace b xs).
Proof.
  induction xs as [|x xs IH]; intros a b H; simpl; [reflexivity|].
  pose proof (update_twin k a b x H) as H'. rewrite (observe_twin k _ _ H'). f_equal. apply IH. exact H'.
Qed.

(** After a reported drift the whole future trace is that of a new detector (epoch state as
    reset() leaves it, counters zero) fed only the later data, with indices shifted. *)
Theorem clean_slate s xs : is_drift (ds s) = true ->
  trace s xs = map (shift_obs (total s)) (trace (init K (reset_e K (epoch s))) xs).
Proof.
  intros H. rewrite trace_after_drift by exact H.
  apply trace_twin. unfold twin, do_reset, init; simpl. repeat split; lia.
Qed.

(** nothing but the reset epoch state influences the future: two detectors whose reset states
    agree have the same future decisions, whatever they saw before *)
Corollary no_leak s1 s2 xs : is_drift (ds s1) = true -> is_drift (ds s2) = true ->
  reset_e K (epoch s1) = reset_e K (epoch s2) ->
  map (shift_obs (- total s1)) (trace s1 xs) = map (shift_obs (- total s2)) (trace s2 xs).
Proof.
  intros H1 H2 He. rewrite (clean_slate s1 xs H1), (clean_slate s2 xs H2), He, !map_map.
  apply map_ext. intros [d t n [a b]]. unfold shift_obs, shift_recs; simpl.
  destruct a, b; simpl; feq.
Qed.

(** ---------- retraining_recs contract, "first warning" policy (DDM, EDDM, LFR) ---------- *)
Definition recs_ok_fw s : Prop :=
  (forall a, fst (recs s) = Some a -> a <= total s - 1) /\
  (forall b, snd (recs s) = Some b -> ds s = DDrift /\ b = total s - 1) /\
  (ds s = DDrift -> exists a, recs s = (Some a, Some (total s - 1))).

Lemma pre_recs_ok_fw s : recs_ok_fw s -> recs_ok_fw (pre s) /\ ds (pre s) <> DDrift.
Proof.
  intros H. unfold pre. destruct (is_drift (ds s)) eqn:Ed.
  - split; [|simpl; congruence]. unfold recs_ok_fw, do_reset; simpl. repeat split; intros; discriminate.
  - split; [exact H|]. destruct (ds s); simpl in Ed; congruence.
Qed.

Lemma update_recs_ok_fw s x : policy K = PolFirstWarn -> recs_ok_fw s -> recs_ok_fw (update s x).
Proof.
  intros Hp Hok. destruct (pre_recs_ok_fw s Hok) as [(H1 & H2 & H3) Hnd]. clear Hok.
  rewrite update_eq. cbv zeta. rewrite Hp. set (s0 := pre s) in *.
  assert (Hsnd : snd (recs s0) = None).
  { destruct (snd (recs s0)) as [b|] eqn:Eb; [|reflexivity]. destruct (H2 b eq_refl). contradiction. }
  destruct (fst (recs s0)) as [a0|] eqn:Ef;
  [pose proof (H1 a0 eq_refl) as Ha0|];
  destruct (snd (step_e K (epoch s0) (since s0 + 1) x)) as [[| |]|]; unfold recs_ok_fw; simpl;
    rewrite ?Hsnd, ?Ef; simpl; repeat split; intros; try discriminate; try congruence; eauto;
    repeat match goal with
           | H : Some _ = Some _ |- _ => injection H as <-
           | H : _ /\ _ |- _ => destruct H
           end; try lia; try (eexists; feq).
Qed.

Lemma init_recs_ok_fw e : recs_ok_fw (init K e).
Proof. unfold recs_ok_fw, init; simpl. repeat split; intros; discriminate. Qed.

Lemma run_recs_ok_fw : policy K = PolFirstWarn -> forall xs s, recs_ok_fw s -> recs_ok_fw (run s xs).
Proof.
  intros Hp. induction xs as [|x xs IH]; intros s H; simpl; [exact H|].
  apply IH. apply update_recs_ok_fw; assumption.
Qed.

(** on drift: an index range that starts no later than it ends and ends at the current sample *)
Theorem recs_on_drift_fw e xs : policy K = PolFirstWarn ->
  let s := run (init K e) xs in
  ds s = DDrift -> exists a, recs s = (Some a, Some (total s - 1)) /\ a <= total s - 1.
Proof.
  intros Hp s Hd. destruct (run_recs_ok_fw Hp xs _ (init_recs_ok_fw e)) as (H1 & H2 & H3).
  destruct (H3 Hd) as [a Ha]. exists a. split; [exact Ha|]. apply H1. unfold s in Ha. rewrite Ha. reflexivity.
Qed.

(** the update after a drift leaves: nothing, or only the new warning / drift index *)
Theorem recs_after_drift_fw s x : policy K = PolFirstWarn -> ds s = DDrift ->
  let s' := update s x in
  (ds s' = DNone -> recs s' = recs_none) /\
  (ds s' = DWarn -> recs s' = (Some (total s), None)) /\
  (ds s' = DDrift -> recs s' = (Some (total s), Some (total s))).
Proof.
  intros Hp Hd. cbv zeta. rewrite update_eq. cbv zeta. unfold pre. rewrite Hd, Hp. simpl.
  match goal with |- context [snd (step_e K ?e ?n x)] => destruct (snd (step_e K e n x)) as [[| |]|] end; simpl;
    repeat split; intros; try discriminate; try reflexivity; feq.
Qed.

(** ---------- "uninterrupted run" policy (STEPD), for kernels that decide at every step once
    they have started deciding in an epoch ---------- *)
Variable gate : Z -> bool.
Hypothesis gate_iff : forall e n x, snd (step_e K e n x) = None <-> gate n = false.
Hypothesis gate_mono : forall n, gate n = true -> gate (n + 1) = true.

Definition recs_ok_run s : Prop :=
  (gate (since s) = false -> ds s = DNone /\ recs s = recs_none) /\
  (ds s = DNone -> recs s = recs_none) /\
  (ds s <> DNone -> exists a, recs s = (Some a, Some (total s - 1)) /\ a <= total s - 1).

Lemma gate_back n : gate (n + 1) = false -> gate n = false.
Proof. intros H. destruct (gate n) eqn:E; [|reflexivity]. rewrite (gate_mono n E) in H. discriminate. Qed.

Lemma pre_recs_ok_run s : recs_ok_run s -> recs_ok_run (pre s) \/
  (ds (pre s) = DNone /\ recs (pre s) = recs_none /\ since (pre s) = 0).
Proof.
  intros H. unfold pre. destruct (is_drift (ds s)); [right; repeat split | left; exact H].
Qed.

Lemma update_recs_ok_run s x : policy K = PolRun -> recs_ok_run s -> recs_ok_run (update s x).
Proof.
  intros Hp Hok. pose proof (pre_recs_ok_run s Hok) as Hpre. clear Hok.
  assert (Hnd : ds (pre s) <> DDrift).
  { unfold pre. destruct (is_drift (ds s)) eqn:Ed; [simpl; congruence | destruct (ds s); simpl in Ed; congruence]. }
  rewrite update_eq. cbv zeta. rewrite Hp. set (s0 := pre s) in *.
  pose proof (gate_iff (epoch s0) (since s0 + 1) x) as G.
  assert (Hcase : ds s0 = DNone /\ recs s0 = recs_none \/
                  exists a, recs s0 = (Some a, Some (total s0 - 1)) /\ a <= total s0 - 1).
  { destruct Hpre as [(H1 & H2 & H3) | (Hd & Hr & _)]; [|left; split; assumption].
    destruct (ds s0) eqn:Eds; [left; split; [reflexivity | apply H2; reflexivity] | right; apply H3; congruence | congruence]. }
  destruct (snd (step_e K (epoch s0) (since s0 + 1) x)) as [d|] eqn:Eod.
  - assert (Gt : gate (since s0 + 1) = true).
    { destruct (gate (since s0 + 1)) eqn:Eg; [reflexivity|]. destruct G as [_ G]. specialize (G eq_refl). discriminate. }
    destruct d; unfold recs_ok_run; simpl; repeat split; intros; try discriminate; try congruence; auto;
      (destruct Hcase as [[_ Hr] | [a [Hr Ha]]]; (rewrite Hr; simpl; eexists; (split; [feq | lia]))).
  - destruct G as [G _]. specialize (G eq_refl).
    assert (Hd : ds s0 = DNone /\ recs s0 = recs_none).
    { destruct Hpre as [(H1 & _) | (Hd & Hr & _)]; [|split; assumption]. apply H1. apply gate_back. exact G. }
    destruct Hd as [Hd Hr]. unfold recs_ok_run; simpl. rewrite Hd, Hr.
    repeat split; intros; congruence.
Qed.

Lemma init_recs_ok_run e : recs_ok_run (init K e).
Proof. unfold recs_ok_run, init; simpl. repeat split; intros; congruence. Qed.

Lemma run_recs_ok_run : policy K = PolRun -> forall xs s, recs_ok_run s -> recs_ok_run (run s xs).
Proof.
  intros Hp. induction xs as [|x xs IH]; intros s H; simpl; [exact H|].
  apply IH. apply update_recs_ok_run; assumption.
Qed.

(** STEPD-style recs: present exactly while the state is not None; on drift a range ending at the
    current sample; gone after the next update unless that update starts a new run *)
Theorem recs_run_contract e xs : policy K = PolRun ->
  let s := run (init K e) xs in
  (ds s = DNone -> recs s = recs_none) /\
  (ds s <> DNone -> exists a, recs s = (Some a, Some (total s - 1)) /\ a <= total s - 1).
Proof.
  intros Hp s. destruct (run_recs_ok_run Hp xs _ (init_recs_ok_run e)) as (_ & H2 & H3). split; assumption.
Qed.

End Generic.

(** ---------- clean slate up to a detector-supplied relation on epoch states ----------
    Used when reset() carries something over from a state that the twin does not share
    (CUSUM keeps its whole stream and re-estimates from the last burn_in observations). *)
Section RelTwin.
Variable K : kernel.
Variable erel : Z -> E K -> E K -> Prop.      (* indexed by samples_since_reset *)
Variable drift_ok : Z -> Prop.                (* what is known about [since] when drift is reported *)
Hypothesis step_rel : forall n e1 e2 x, 0 <= n -> erel n e1 e2 ->
  snd (step_e K e1 (n + 1) x) = snd (step_e K e2 (n + 1) x) /\
  erel (n + 1) (fst (step_e K e1 (n + 1) x)) (fst (step_e K e2 (n + 1) x)).
Hypothesis reset_rel : forall n e1 e2, erel n e1 e2 -> drift_ok n -> erel 0 (reset_e K e1) (reset_e K e2).
Hypothesis drift_needs : forall e n x, snd (step_e K e n x) = Some DDrift -> drift_ok n.

Definition rtwin (k : Z) (a b : st K) : Prop :=
  erel (since b) (epoch a) (epoch b) /\ since a = since b /\ ds a = ds b /\ total a = total b + k
  /\ recs a = shift_recs k (recs b) /\ 0 <= since b /\ (ds b = DDrift -> drift_ok (since b)).

Lemma pre_rtwin k a b : rtwin k a b -> rtwin k (pre K a) (pre K b) /\ ds (pre K b) <> DDrift.
Proof.
  intros (He & Hs & Hd & Ht & Hr & Hn & Hok). unfold pre. rewrite Hd.
  destruct (is_drift (ds b)) eqn:Ed.
  - assert (Hdb : ds b = DDrift) by (destruct (ds b); simpl in Ed; congruence).
    split; [|simpl; congruence].
    unfold rtwin, do_reset; simpl. repeat split; try lia; try congruence.
    apply (reset_rel (since b)); [exact He | exact (Hok Hdb)].
  - split; [repeat split; assumption|]. destruct (ds b); simpl in Ed; congruence.
Qed.

Lemma update_rtwin k a b x : rtwin k a b -> rtwin k (update a x) (update b x).
Proof.
  intros H. apply pre_rtwin in H. destruct H as [(He & Hs & Hd & Ht & Hr & Hn & Hok) Hnd].
  rewrite !update_eq. cbv zeta. rewrite Hs.
  destruct (step_rel (since (pre K b)) _ _ x Hn He) as [Hod Hrel].
  rewrite Hod. unfold rtwin; simpl. repeat split; try lia; try assumption.
  - rewrite Hd. reflexivity.
  - rewrite Hr. replace (total (pre K a) + 1 - 1) with ((total (pre K b) + 1 - 1) + k) by lia.
    apply apply_policy_shift.
  - destruct (snd (step_e K (epoch (pre K b)) (since (pre K b) + 1) x)) as [d|] eqn:Eod.
    + intros ->. apply (drift_needs _ _ _ Eod).
    + intros Hb. contradiction.
Qed.

Lemma observe_rtwin k a b : rtwin k a b -> observe a = shift_obs k (observe b).
Proof.
  intros (He & Hs & Hd & Ht & Hr & _). unfold observe, shift_obs. simpl. rewrite Hs, Hd, Ht, Hr. reflexivity.
Qed.

Theorem trace_rtwin k : forall xs a b, rtwin k a b -> trace a xs = map (shift_obs k) (trace b xs).
Proof.
  induction xs as [|x xs IH]; intros a b H; simpl; [reflexivity|].
  pose proof (update_rtwin k a b x H) as H'. rewrite (observe_rtwin k _ _ H'). f_equal. apply IH. exact H'.
Qed.

End RelTwin.

(** ---------- warm-up: no warning / drift before the kernel's gate opens ---------- *)
Section Warmup.
Variable K : kernel.
Variable gate : E K -> Z -> bool.     (* "enough data of the current epoch has been seen" *)
Hypothesis decide_gated : forall e n x d,
  snd (step_e K e n x) = Some d -> d <> DNone -> gate (fst (step_e K e n x)) n = true.
Hypothesis undecided_keeps : forall e n x,
  snd (step_e K e n x) = None -> gate e (n - 1) = true -> gate (fst (step_e K e n x)) n = true.

Definition warm (s : st K) : Prop := ds s <> DNone -> gate (epoch s) (since s) = true.

Lemma update_warm s x : warm s -> warm (update s x).
Proof.
  intros Hw. rewrite update_eq. cbv zeta. unfold warm. simpl.
  destruct (snd (step_e K (epoch (pre K s)) (since (pre K s) + 1) x)) as [d|] eqn:Eod.
  - intros Hd. exact (decide_gated _ _ _ d Eod Hd).
  - intros Hd. apply undecided_keeps; [exact Eod|].
    replace (since (pre K s) + 1 - 1) with (since (pre K s)) by lia.
    unfold pre in *. destruct (is_drift (ds s)) eqn:Ed; [simpl in Hd; congruence|]. apply Hw. exact Hd.
Qed.

Theorem warmup_invariant e xs : warm (run (init K e) xs).
Proof.
  assert (H0 : warm (init K e)) by (unfold warm, init; simpl; congruence).
  revert H0. generalize (init K e). induction xs as [|x xs IH]; intros s Hs; simpl; [exact Hs|].
  apply IH. apply update_warm. exact Hs.
Qed.
End Warmup.

(** counters of every reachable state *)
Theorem counters_reachable (K : kernel) e xs :
  let s := run (init K e) xs in
  total s = Z.of_nat (length xs) /\ 0 <= since s <= total s.
Proof.
  cbv zeta. split.
  - rewrite run_total. reflexivity.
  - apply run_since_bounds. simpl. lia.
Qed.
