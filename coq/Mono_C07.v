(** C17 for HDDDM / CDBD: two runs of the model of Hdm.v on the same history (same batches, same
    bootstrap values, same divergence oracle) that differ only in [significance]:
      statistic = "tstat":  the t quantile is an oracle; the looser run (larger significance) uses
                            [tppf1], the stricter one [tppf2], with tppf1 df <= tppf2 df for all df;
      otherwise ("stdev"):  h_sig p1 <= h_sig p2 (fewer standard deviations = looser).
    Own lock-step argument (the detector is not a kernel of Lifecycle.v).  The arithmetic enters only
    through [MonoLaws N] (NumLaws.v) and two further laws about the quotient sd / sqrt d, stated as
    hypotheses and proved for the reals at the end. *)
From MV Require Import Base Num NumLaws Hist Hdm Hdm_Proofs Lifecycle Lifecycle_Mono.
From Coq Require Import ZifyBool Reals Lra Lia.
Local Open Scope Z_scope.

(** index of the first reported drift in a trace of HDM observations *)
Fixpoint hfirst_drift {N : Num} (l : list (@hobs N)) : option nat :=
  match l with
  | [] => None
  | o :: t => if is_drift (ho_ds o) then Some O
              else match hfirst_drift t with Some k => Some (S k) | None => None end
  end.

Section MonoHdm.
Context {N : Num}.
Notation F := (F N).
Variable trunc : F -> Z.
Variable sq : F -> F.
Variable dist : list Z -> list Z -> F.
Variables tppf1 tppf2 : Z -> F.           (* 1 = looser, 2 = stricter *)
Variables p1 p2 : @hdm_params N.

Hypothesis same_db : h_db p1 = h_db p2.
Hypothesis same_k : h_k p1 = h_k p2.
Hypothesis same_stat : h_tstat p1 = h_tstat p2.
Hypothesis ML : MonoLaws N.
(** further laws: a non-negative number divided by a positive one is non-negative; sqrt of a positive
    integer is positive (both true of the reals and of IEEE doubles) *)
Hypothesis div_nonneg : forall a b : F, fleb f0 a = true -> fltb f0 b = true -> fleb f0 (fdiv a b) = true.
Hypothesis sqrt_ofZ_pos : forall d : Z, 1 <= d -> @fltb N f0 (fsqrt (fofZ d)) = true.
(** the threshold parameter: looser on side 1 *)
Hypothesis looser_t : h_tstat p1 = true -> forall df, fleb (tppf1 df) (tppf2 df) = true.
Hypothesis looser_sig : h_tstat p1 = false -> fleb (h_sig p1) (h_sig p2) = true.

Notation core1 := (hdm_core trunc sq dist tppf1 p1).
Notation core2 := (hdm_core trunc sq dist tppf2 p2).
Notation apply1 := (hdm_apply trunc sq dist tppf1 p1).
Notation apply2 := (hdm_apply trunc sq dist tppf2 p2).
Notation trace1 := (hdm_trace trunc sq dist tppf1 p1).
Notation trace2 := (hdm_trace trunc sq dist tppf2 p2).
Notation hstate := (@hst N).

Let OL : OrdLaws N := ml_ord N ML.

(** ---------------- the threshold is monotone in the parameter ---------------- *)
Lemma beta_monotone eps tot since dl ref_n test_n :
  1 <= thr_d p1 since dl ->
  fleb (snd (adaptive_threshold sq tppf1 p1 eps tot since dl ref_n test_n))
       (snd (adaptive_threshold sq tppf2 p2 eps tot since dl ref_n test_n)) = true.
Proof.
  intros Hd. rewrite !adaptive_threshold_spec. cbv zeta. cbn [snd].
  assert (E1 : thr_eps p2 since eps = thr_eps p1 since eps) by (unfold thr_eps; rewrite same_db; reflexivity).
  assert (E2 : thr_tot p2 since eps tot = thr_tot p1 since eps tot) by (unfold thr_tot; rewrite E1, same_db; reflexivity).
  assert (E3 : thr_d p2 since dl = thr_d p1 since dl) by (unfold thr_d, boot_phase; rewrite same_db; reflexivity).
  rewrite E1, E2, E3, <- same_stat.
  set (d := thr_d p1 since dl) in *.
  set (eh := thr_mean d (thr_tot p1 since eps tot)).
  set (sd := thr_sd sq d (thr_eps p1 since eps) eh).
  assert (Hsd : fleb f0 sd = true) by (unfold sd, thr_sd; apply (sqrt_nonneg N ML)).
  destruct (h_tstat p1) eqn:Et.
  - apply (add_mono_r N ML). apply (mul_mono_nonneg N ML); [apply looser_t; reflexivity|].
    apply div_nonneg; [exact Hsd | apply sqrt_ofZ_pos, Hd].
  - apply (add_mono_r N ML). apply (mul_mono_nonneg N ML); [apply looser_sig; reflexivity | exact Hsd].
Qed.

(** ---------------- same statistics: everything but the recorded thresholds ---------------- *)
Definition hfb (s : hstate) : hstate :=
  mk_hst (h_ref s) (h_ref_n s) (h_bins s) (h_eps s) (h_tot s) (h_lambda s) (h_prev s) (h_prev_fd s)
         (h_total s) (h_since s) (h_ds s) (h_cur s) None (h_feps s) (h_finfo s)
         (h_dists s) (h_epsv s) [] (h_cur_now s) (h_eps_now s) None (h_hists s).
Definition srel (a b : hstate) : Prop := hfb a = hfb b.

Lemma srel_fields a b : srel a b ->
  h_ref a = h_ref b /\ h_ref_n a = h_ref_n b /\ h_bins a = h_bins b /\ h_eps a = h_eps b /\ h_tot a = h_tot b /\
  h_lambda a = h_lambda b /\ h_prev a = h_prev b /\ h_prev_fd a = h_prev_fd b /\ h_total a = h_total b /\
  h_since a = h_since b /\ h_ds a = h_ds b /\ h_cur a = h_cur b /\ h_feps a = h_feps b /\ h_finfo a = h_finfo b /\
  h_dists a = h_dists b /\ h_epsv a = h_epsv b /\ h_cur_now a = h_cur_now b /\ h_eps_now a = h_eps_now b /\
  h_hists a = h_hists b.
Proof. unfold srel, hfb. intros H. injection H. intros. repeat split; assumption. Qed.

Lemma srel_of_fields a b :
  h_ref a = h_ref b -> h_ref_n a = h_ref_n b -> h_bins a = h_bins b -> h_eps a = h_eps b -> h_tot a = h_tot b ->
  h_lambda a = h_lambda b -> h_prev a = h_prev b -> h_prev_fd a = h_prev_fd b -> h_total a = h_total b ->
  h_since a = h_since b -> h_ds a = h_ds b -> h_cur a = h_cur b -> h_feps a = h_feps b -> h_finfo a = h_finfo b ->
  h_dists a = h_dists b -> h_epsv a = h_epsv b -> h_cur_now a = h_cur_now b -> h_eps_now a = h_eps_now b ->
  h_hists a = h_hists b -> srel a b.
Proof.
  intros H1 H2 H3 H4 H5 H6 H7 H8 H9 H10 H11 H12 H13 H14 H15 H16 H17 H18 H19. unfold srel, hfb.
  rewrite H1, H2, H3, H4, H5, H6, H7, H8, H9, H10, H11, H12, H13, H14, H15, H16, H17, H18, H19. reflexivity.
Qed.

(** the observation without the threshold computed by the call *)
Definition obs_nb (o : @hobs N) : @hobs N :=
  mk_hobs (ho_ds o) (ho_total o) (ho_since o) (ho_cur o) (ho_eps o) None (ho_ref_n o) (ho_ref o)
          (ho_epsl o) (ho_tot o) (ho_feps o) (ho_finfo o).

Lemma srel_obs a b : srel a b -> obs_nb (hobserve b) = obs_nb (hobserve a).
Proof.
  intros H. destruct (srel_fields a b H) as (H1 & H2 & H3 & H4 & H5 & H6 & H7 & H8 & H9 & H10 & H11 & H12 & H13 & H14 & H15 & H16 & H17 & H18 & H19).
  unfold obs_nb, hobserve. simpl. rewrite H1, H2, H4, H5, H9, H10, H11, H13, H14, H17, H18. reflexivity.
Qed.

(** ---------------- one pass of update(): lock-step until the looser run reports drift ---------------- *)
Lemma core_lockstep a b X bt : srel a b -> h_ds a <> DDrift ->
  (c_has_beta p1 a = true -> 1 <= thr_d p1 (c_since a) (c_total a - h_lambda a)) ->
  h_ds (core1 a X bt) = DDrift \/
  (h_ds (core1 a X bt) <> DDrift /\ h_ds (core2 b X bt) <> DDrift /\ srel (core1 a X bt) (core2 b X bt)).
Proof.
  intros Hr Hnd Hd.
  destruct (srel_fields a b Hr) as (H1 & H2 & H3 & H4 & H5 & H6 & H7 & H8 & H9 & H10 & H11 & H12 & H13 & H14 & H15 & H16 & H17 & H18 & H19).
  assert (Eh : c_hists trunc p2 b X = c_hists trunc p1 a X) by (unfold c_hists; rewrite H1, H3, same_k; reflexivity).
  assert (Ef : c_fds trunc dist p2 b X = c_fds trunc dist p1 a X) by (unfold c_fds; rewrite Eh; reflexivity).
  assert (Ec : c_cur trunc dist p2 b X = c_cur trunc dist p1 a X) by (unfold c_cur; rewrite Ef, same_k; reflexivity).
  assert (Es : c_since b = c_since a) by (unfold c_since; rewrite H10; reflexivity).
  assert (Et : c_total b = c_total a) by (unfold c_total; rewrite H9; reflexivity).
  assert (Ece : c_ce trunc dist p2 b X = c_ce trunc dist p1 a X) by (unfold c_ce; rewrite Ec, H7; reflexivity).
  assert (Eeb : c_eps_b trunc dist p2 b X bt = c_eps_b trunc dist p1 a X bt)
    by (unfold c_eps_b, boot_phase; rewrite Es, H4, Ece, same_db; reflexivity).
  assert (Ehe : c_has_eps b = c_has_eps a) by (unfold c_has_eps; rewrite Es; reflexivity).
  assert (Ehb : c_has_beta p2 b = c_has_beta p1 a) by (unfold c_has_beta, gate; rewrite Es, Ehe, same_db; reflexivity).
  assert (Efe : c_feps trunc dist p2 b X = c_feps trunc dist p1 a X) by (unfold c_feps; rewrite Es, Ef, H8, H13; reflexivity).
  assert (Eat : fst (c_at trunc sq dist tppf2 p2 b X bt) = fst (c_at trunc sq dist tppf1 p1 a X bt)).
  { unfold c_at. rewrite !adaptive_threshold_spec. cbv zeta. cbn [fst]. rewrite Eeb, Es, H5.
    unfold thr_tot, thr_eps. rewrite same_db. reflexivity. }
  assert (Mb : c_has_beta p1 a = true ->
               fleb (c_beta trunc sq dist tppf1 p1 a X bt) (c_beta trunc sq dist tppf2 p2 b X bt) = true).
  { intros Hb. unfold c_beta, c_at. rewrite Eeb, Es, Et, <- H5, <- H6, <- H2. apply beta_monotone, Hd, Hb. }
  destruct (c_drift trunc sq dist tppf1 p1 a X bt) eqn:D1.
  - left. rewrite core_ds, D1. reflexivity.
  - right.
    assert (D2 : c_drift trunc sq dist tppf2 p2 b X bt = false).
    { unfold c_drift in *. rewrite Ehb, Ece. destruct (c_has_beta p1 a) eqn:Hb; [|reflexivity]. simpl in *.
      destruct (fltb (c_beta trunc sq dist tppf2 p2 b X bt) (c_ce trunc dist p1 a X)) eqn:E2; [|reflexivity].
      rewrite (fle_lt_trans OL _ _ _ (Mb eq_refl) E2) in D1. discriminate. }
    assert (Hid : is_drift (h_ds a) = false) by (destruct (h_ds a); try reflexivity; congruence).
    split; [rewrite core_ds, D1; exact Hnd|]. split; [rewrite core_ds, D2, <- H11; exact Hnd|].
    apply srel_of_fields; rewrite !core_eq; cbv zeta; rewrite D1, D2; cbn;
      rewrite ?Ehb, ?Ehe, ?Eat, ?Eeb, ?Ec, ?Ef, ?Ece, ?Efe, ?Es, ?Et, ?Eh, <- ?H11, ?Hid; cbn;
      rewrite ?H1, ?H2, ?H3, ?H4, ?H5, ?H6, ?H7, ?H8, ?H14, ?H15, ?H16; reflexivity.
Qed.

Lemma reset_base_srel a b : srel a b -> srel (hdm_reset_base p1 a) (hdm_reset_base p2 b).
Proof.
  intros Hr.
  destruct (srel_fields a b Hr) as (H1 & H2 & H3 & H4 & H5 & H6 & H7 & H8 & H9 & H10 & H11 & H12 & H13 & H14 & H15 & H16 & H17 & H18 & H19).
  apply srel_of_fields; unfold hdm_reset_base; cbn; rewrite <- ?same_db, ?H1; try reflexivity; assumption.
Qed.

Lemma reset_srel a b : srel a b ->
  srel (hdm_reset trunc sq dist tppf1 p1 a) (hdm_reset trunc sq dist tppf2 p2 b).
Proof.
  intros Hr. pose proof (reset_base_srel a b Hr) as Hb. unfold hdm_reset. rewrite <- same_db.
  destruct (h_db p1 =? 1) eqn:E; [|exact Hb].
  assert (Hp : hdm_proxy b = hdm_proxy a) by (unfold hdm_proxy; destruct (srel_fields a b Hr) as (-> & _); reflexivity).
  rewrite Hp.
  destruct (core_lockstep (hdm_reset_base p1 a) (hdm_reset_base p2 b) (hdm_proxy a) f0 Hb) as [C | (_ & _ & C)].
  - simpl. discriminate.
  - intros Hhb. destruct (reset_base_since1 trunc sq dist tppf1 p1 a (hdm_proxy a) f0) as (_ & _ & H3).
    cbv zeta in H3. rewrite H3 in Hhb. discriminate.
  - exfalso. rewrite core_ds in C.
    destruct (reset_base_since1 trunc sq dist tppf1 p1 a (hdm_proxy a) f0) as (H1 & _). cbv zeta in H1. rewrite H1 in C.
    simpl in C. discriminate.
  - exact C.
Qed.

(** the denominator of the threshold is at least 1 whenever the threshold is due *)
Lemma denominator_pos a : hinv p1 a -> h_ds a <> DDrift -> c_has_beta p1 a = true ->
  1 <= thr_d p1 (c_since a) (c_total a - h_lambda a).
Proof.
  intros Hi Hnd Hb. rewrite (dscale_since p1 a Hi Hnd).
  rewrite has_beta_gate in Hb. unfold c_since, gate in Hb. destruct Hi as (Hs & _).
  unfold boot_phase. destruct (h_db p1 =? 3) eqn:E3; destruct (h_since a + 1 =? 2) eqn:E2; simpl; lia.
Qed.

(** one call (update or set_reference) *)
Lemma apply_lockstep a b o : srel a b -> h_ds a <> DDrift -> hinv p1 a ->
  h_ds (apply1 a o) = DDrift \/
  (h_ds (apply1 a o) <> DDrift /\ srel (apply1 a o) (apply2 b o) /\ hinv p1 (apply1 a o)).
Proof.
  intros Hr Hnd Hi.
  destruct (srel_fields a b Hr) as (_ & _ & _ & _ & _ & _ & _ & _ & _ & _ & H11 & _).
  assert (Hid : is_drift (h_ds a) = false) by (destruct (h_ds a); try reflexivity; congruence).
  destruct o as [X bt | Y]; simpl.
  - unfold hdm_update. rewrite <- H11, Hid.
    destruct (core_lockstep a b X bt Hr Hnd (denominator_pos a Hi Hnd)) as [C | (C1 & _ & C2)]; [left; exact C|].
    right. split; [exact C1|]. split; [exact C2|]. apply hinv_core; assumption.
  - right. unfold hdm_set_reference. rewrite <- same_db.
    destruct ((h_db p1 =? 1) && (zlen Y <? 3)) eqn:E.
    + split; [exact Hnd|]. split; [exact Hr | exact Hi].
    + assert (Hw : srel (with_reference a Y) (with_reference b Y)).
      { destruct (srel_fields a b Hr) as (H1 & H2 & H3 & H4 & H5 & H6 & H7 & H8 & H9 & H10 & H11' & H12 & H13 & H14 & H15 & H16 & H17 & H18 & H19).
        apply srel_of_fields; unfold with_reference; cbn; try reflexivity; assumption. }
      split; [|split].
      * destruct (reset_fields trunc sq dist tppf1 p1 (with_reference a Y)) as (R & _). rewrite R. discriminate.
      * apply reset_srel, Hw.
      * pose proof (hinv_set_reference trunc sq dist tppf1 p1 a Y Hi) as H. unfold hdm_set_reference in H. rewrite E in H. exact H.
Qed.

(** ---------------- whole histories ---------------- *)
(** the stricter run never reports its first drift before the looser one does *)
Theorem hdm_first_drift_monotone : forall ops a b, srel a b -> h_ds a <> DDrift -> hinv p1 a ->
  opt_le (hfirst_drift (trace1 a ops)) (hfirst_drift (trace2 b ops)).
Proof.
  induction ops as [|o ops IH]; intros a b Hr Hnd Hi; [exact I|].
  cbn [hdm_trace hfirst_drift]. change (ho_ds (hobserve (apply1 a o))) with (h_ds (apply1 a o)).
  change (ho_ds (hobserve (apply2 b o))) with (h_ds (apply2 b o)).
  destruct (apply_lockstep a b o Hr Hnd Hi) as [Hd | (Hnd' & Hr' & Hi')].
  - rewrite Hd. cbn [is_drift].
    destruct (is_drift (h_ds (apply2 b o))); [simpl; lia|].
    destruct (hfirst_drift (trace2 (apply2 b o) ops)); simpl; [lia | exact I].
  - assert (Hds : h_ds (apply2 b o) = h_ds (apply1 a o)).
    { destruct (srel_fields _ _ Hr') as (_ & _ & _ & _ & _ & _ & _ & _ & _ & _ & H & _). congruence. }
    rewrite Hds. destruct (is_drift (h_ds (apply1 a o))) eqn:Ed; [simpl; lia|].
    specialize (IH _ _ Hr' Hnd' Hi').
    destruct (hfirst_drift (trace1 (apply1 a o) ops)), (hfirst_drift (trace2 (apply2 b o) ops)); simpl in *; try lia; exact IH.
Qed.

(** ... and before the looser run's first drift the two runs report the same things (all
    observables except the threshold value itself, which depends on the parameter) *)
Theorem hdm_same_before_first_drift : forall ops a b, srel a b -> h_ds a <> DDrift -> hinv p1 a ->
  let n := match hfirst_drift (trace1 a ops) with Some k => k | None => length ops end in
  firstn n (map obs_nb (trace2 b ops)) = firstn n (map obs_nb (trace1 a ops)).
Proof.
  induction ops as [|o ops IH]; intros a b Hr Hnd Hi; [reflexivity|].
  cbn [hdm_trace hfirst_drift map length]. change (ho_ds (hobserve (apply1 a o))) with (h_ds (apply1 a o)).
  destruct (apply_lockstep a b o Hr Hnd Hi) as [Hd | (Hnd' & Hr' & Hi')].
  - rewrite Hd. reflexivity.
  - assert (Ed : is_drift (h_ds (apply1 a o)) = false) by (destruct (h_ds (apply1 a o)); try reflexivity; congruence).
    rewrite Ed. specialize (IH _ _ Hr' Hnd' Hi'). cbv zeta in IH.
    destruct (hfirst_drift (trace1 (apply1 a o) ops)) as [k|]; cbn [firstn]; rewrite (srel_obs _ _ Hr'), IH; reflexivity.
Qed.

(** the same threshold ordering holds at every deciding batch while the runs are in lock-step *)
Theorem hdm_threshold_ordered : forall a b X bt, srel a b -> h_ds a <> DDrift -> hinv p1 a ->
  gate p1 (h_since a + 1) = true ->
  let b1 := c_beta trunc sq dist tppf1 p1 a X bt in
  let b2 := c_beta trunc sq dist tppf2 p2 b X bt in
  fleb b1 b2 = true /\
  (fltb b2 (c_ce trunc dist p2 b X) = true -> fltb b1 (c_ce trunc dist p1 a X) = true).
Proof.
  intros a b X bt Hr Hnd Hi Hg. cbv zeta.
  assert (Hb : c_has_beta p1 a = true) by (rewrite has_beta_gate; exact Hg).
  destruct (srel_fields a b Hr) as (H1 & H2 & H3 & H4 & H5 & H6 & H7 & H8 & H9 & H10 & H11 & _).
  assert (Ec : c_ce trunc dist p2 b X = c_ce trunc dist p1 a X).
  { unfold c_ce, c_cur, c_fds, c_hists. rewrite H1, H3, H7, same_k. reflexivity. }
  assert (Eeb : c_eps_b trunc dist p2 b X bt = c_eps_b trunc dist p1 a X bt)
    by (unfold c_eps_b, boot_phase, c_since; rewrite H10, H4, Ec, same_db; reflexivity).
  assert (M : fleb (c_beta trunc sq dist tppf1 p1 a X bt) (c_beta trunc sq dist tppf2 p2 b X bt) = true).
  { unfold c_beta, c_at, c_since, c_total. rewrite Eeb, <- H5, <- H10, <- H9, <- H6, <- H2. apply beta_monotone.
    apply (denominator_pos a Hi Hnd Hb). }
  split; [exact M|]. rewrite Ec. intros H. exact (fle_lt_trans OL _ _ _ M H).
Qed.

End MonoHdm.

(** ---------------- the laws hold for the reals ---------------- *)
Lemma div_nonneg_R : forall a b : Num.F NumR, fleb f0 a = true -> fltb f0 b = true -> fleb f0 (fdiv a b) = true.
Proof.
  intros a b. simpl. rewrite !Rleb_iff, Rltb_iff. intros Ha Hb.
  apply Rmult_le_pos; [exact Ha | left; apply Rinv_0_lt_compat, Hb].
Qed.
Lemma sqrt_ofZ_pos_R : forall d : Z, 1 <= d -> @fltb NumR f0 (fsqrt (fofZ d)) = true.
Proof. intros d Hd. simpl. apply Rltb_iff. apply sqrt_lt_R0. apply IZR_lt. lia. Qed.
