(** Model of numpy's [np.percentile(a, q)] (default method "linear", numpy 2.5.3:
    numpy/lib/_function_base_impl.py  _quantile / _get_indexes / _get_gamma / _lerp) as it is used by
    menelaus/concept_drift/lfr.py:401-404 ([_sim_bounds]).

    The model takes the ALREADY SORTED sample (numpy partitions the array so that the two order
    statistics it reads are in place; reading them from the sorted list is the same thing) and a
    parameter [floorZ] = floor of a non-negative value (numpy: [floor(virtual_indexes).astype(intp)]).
    Guard: the sample is non-empty (length >= 1); NaN-free (numpy returns NaN when the sample contains
    a NaN; not modelled).  [p] must lie in [0, 100] (numpy raises ValueError otherwise).

    python reference of the same evaluation order (bit-exact against numpy on 60000 random cases):
<<
      def pct(vals, p):            # p in [0,100]
          a = sorted(vals); n = len(a)
          q = p / 100.0
          virt = (n - 1) * q                    # float product, (n-1) converted to float
          if virt >= n - 1: lo = hi = n - 1; prev = -1
          elif virt < 0:    lo = hi = 0;     prev = 0
          else:             lo = floor(virt); hi = lo + 1; prev = lo
          g = virt - prev                        # float subtraction (prev converted to float)
          A, B = a[lo], a[hi]; d = B - A
          if g >= 0.5: return B - d * (1 - g)
          return A + d * g
>>
    No proofs in this file. *)
From MV Require Import Base Num Lfr.

Section Percentile.
Context {N : Num}.
Local Open Scope num_scope.
Notation F := (F N).
Variable floorZ : F -> Z.

(** [a[i]] for 0 <= i < len(a) *)
Definition nthZ (a : list F) (i : Z) : F := nth (Z.to_nat i) a f0.

(** _get_indexes + the index used by _get_gamma: (lo, hi, prev) *)
Definition pct_index (n : Z) (virt : F) : Z * Z * Z :=
  if fofZ (n - 1) <=? virt then ((n - 1)%Z, (n - 1)%Z, (-1)%Z)      (* virt >= n - 1: both indexes -1 = last *)
  else if virt <? f0 then (0%Z, 0%Z, 0%Z)
  else let k := floorZ virt in (k, (k + 1)%Z, k).

(** _lerp(a, b, t):  a + (b - a) * t,  replaced by  b - (b - a) * (1 - t)  where t >= 0.5 *)
Definition lerp (A B g : F) : F :=
  let d := B - A in
  if @half N <=? g then B - d * (f1 - g) else A + d * g.

(** everything after the virtual index has been computed *)
Definition percentile_virt (a : list F) (virt : F) : F :=
  let n := Z.of_nat (length a) in
  let '(lo, hi, prev) := pct_index n virt in
  let g := virt - fofZ prev in
  lerp (nthZ a lo) (nthZ a hi) g.

(** np.percentile(a, p) for sorted non-empty [a] *)
Definition virt_index (n : Z) (p : F) : F :=
  let q := p / fofZ 100 in
  fofZ (n - 1) * q.

Definition percentile (a : list F) (p : F) : F :=
  percentile_virt a (virt_index (Z.of_nat (length a)) p).

(** lfr.py 401-404 *)
Definition lfr_bounds_of (sorted : list F) (warn detect : F) : @bounds N :=
  {| lb_warn := percentile sorted (warn * fofZ 100);
     ub_warn := percentile sorted (fofZ 100 - warn * fofZ 100);
     lb_detect := percentile sorted (detect * fofZ 100);
     ub_detect := percentile sorted (fofZ 100 - detect * fofZ 100) |}.

End Percentile.
