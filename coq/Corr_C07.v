(** C07 — checkers evaluated by the correspondence harness on the bit-exact instance [NumFloat].
    Oracle tables supplied by the harness (logged from the implementation's own library calls):
      [sqt]  the arguments x on which numpy's scalar x ** 2 (libm pow) differs from the product x*x,
             with the value pow returned (everywhere else sq x = x*x);
      [dt]   (reference histogram, test histogram) |-> value of the divergence function, for the
             Jensen-Shannon / user divergence ([mode] <> 0; mode 0 = Hellinger computed by the model);
      [tt]   df |-> scipy.stats.t.ppf(1 - significance/2, df).
    A query outside a table answers NaN, which no observed value equals. *)
From MV Require Import Base Num NumFloat Hist Hdm.
From Coq Require Import PrimFloat Uint63 FloatOps SpecFloat.

(** the C cast (npy_intp) x of a finite double *)
Definition ftruncZ (x : float) : Z :=
  match Prim2SF x with
  | S754_finite s m e =>
      let q := if (0 <=? e)%Z then (Zpos m * 2 ^ e)%Z else (Zpos m / 2 ^ (- e))%Z in
      if s then (- q)%Z else q
  | _ => 0%Z
  end.

Definition sq_tab (sqt : list (float * float)) (x : float) : float :=
  match find (fun p => fbits_eqb (fst p) x) sqt with
  | Some p => snd p
  | None => PrimFloat.mul x x
  end.

Definition zl_eqb := list_eqb Z.eqb.
Definition dist_tab (dt : list (list Z * list Z * float)) (rh th : list Z) : float :=
  match find (fun e => zl_eqb (fst (fst e)) rh && zl_eqb (snd (fst e)) th) dt with
  | Some e => snd e
  | None => nan
  end.

Definition tppf_tab (tt : list (Z * float)) (df : Z) : float :=
  match find (fun e => (fst e =? df)%Z) tt with Some e => snd e | None => nan end.

Definition fhst := @hst NumFloat.
Definition fparams (db : Z) (tstat : bool) (sig : float) (k : Z) : @hdm_params NumFloat :=
  @Build_hdm_params NumFloat db tstat sig k.

Record oracles := mk_orc {
  o_mode : Z; o_sqt : list (float * float); o_dt : list (list Z * list Z * float); o_tt : list (Z * float) }.

Definition o_sq (o : oracles) := sq_tab (o_sqt o).
Definition o_dist (o : oracles) : list Z -> list Z -> float :=
  if (o_mode o =? 0)%Z then @hellinger NumFloat (o_sq o) else dist_tab (o_dt o).

Definition f_update (o : oracles) p (s : fhst) (X : list (list float)) (boot : float) : fhst :=
  @hdm_update NumFloat ftruncZ (o_sq o) (o_dist o) (tppf_tab (o_tt o)) p s X boot.
Definition f_set_reference (o : oracles) p (s : fhst) (X : list (list float)) : fhst :=
  @hdm_set_reference NumFloat ftruncZ (o_sq o) (o_dist o) (tppf_tab (o_tt o)) p s X.

(** what the harness observed after one call.  Private attributes are optional ([None]: not read). *)
Record hexp := mk_hexp {
  x_ds : dstate; x_total : Z; x_since : Z; x_ref_n : Z;
  x_lambda : option Z; x_bins : option Z;
  x_cur : option float; x_beta : option float;
  x_epsl : list float; x_tot : float;
  x_feps : option (list float);
  x_finfo : option (list float * list float * Z);
  x_dists : list (Z * float); x_epsv : list (Z * float); x_thr : list (Z * float);
  x_hists : option (list (list Z * list Z));
  x_ref : list (Z * Z * Z);            (* reference content as slices (batch, from, to) of the inputs *)
  x_prev : option float
}.

Definition fl_eqb := list_eqb fbits_eqb.
Definition kv_eqb (a b : Z * float) : bool := (fst a =? fst b)%Z && fbits_eqb (snd a) (snd b).
Definition hh_eqb (a b : list Z * list Z) : bool := zl_eqb (fst a) (fst b) && zl_eqb (snd a) (snd b).
Definition finfo_eqb (a b : list float * list float * Z) : bool :=
  let '(e1, d1, i1) := a in let '(e2, d2, i2) := b in fl_eqb e1 e2 && fl_eqb d1 d2 && (i1 =? i2)%Z.
Definition optz_ok (model : Z) (e : option Z) : bool := match e with None => true | Some v => (model =? v)%Z end.

Definition slice (b : list (list float)) (a z : Z) : list (list float) :=
  firstn (Z.to_nat (z - a)) (skipn (Z.to_nat a) b).
Definition ref_of_segs (batches : list (list (list float))) (segs : list (Z * Z * Z)) : list (list float) :=
  concat (map (fun g => let '(i, a, z) := g in slice (nth (Z.to_nat i) batches []) a z) segs).

Definition row_checks (batches : list (list (list float))) (s : fhst) (e : hexp) : list bool :=
  [ dstate_eqb (h_ds s) (x_ds e);
    (h_total s =? x_total e)%Z;
    (h_since s =? x_since e)%Z;
    (h_ref_n s =? x_ref_n e)%Z;
    optz_ok (h_lambda s) (x_lambda e);
    optz_ok (h_bins s) (x_bins e);
    opt_eqb fbits_eqb (h_cur s) (x_cur e);
    opt_eqb fbits_eqb (h_beta s) (x_beta e);
    fl_eqb (h_eps s) (x_epsl e);
    fbits_eqb (h_tot s) (x_tot e);
    opt_eqb fl_eqb (h_feps s) (x_feps e);
    opt_eqb finfo_eqb (h_finfo s) (x_finfo e);
    list_eqb kv_eqb (rev (h_dists s)) (x_dists e);
    list_eqb kv_eqb (rev (h_epsv s)) (x_epsv e);
    list_eqb kv_eqb (rev (h_thr s)) (x_thr e);
    match x_hists e with None => true | Some l => list_eqb hh_eqb (h_hists s) l end;
    list_eqb fl_eqb (h_ref s) (ref_of_segs batches (x_ref e));
    match x_prev e with None => true | Some v => fbits_eqb (h_prev s) v end ].

Definition row_ok batches s e : bool := forallb (fun b => b) (row_checks batches s e).

(** an operation: (kind, batch index, bootstrap value); kind 0 = update, 1 = set_reference *)
Definition fop := (Z * Z * float)%type.

Definition f_apply (o : oracles) p (batches : list (list (list float))) (s : fhst) (op : fop) : fhst :=
  let '(kind, bi, boot) := op in
  let X := nth (Z.to_nat bi) batches [] in
  if (kind =? 0)%Z then f_update o p s X boot else f_set_reference o p s X.

Fixpoint chk_steps (o : oracles) p batches (s : fhst) (ops : list fop) (exp : list hexp) : bool :=
  match ops, exp with
  | [], [] => true
  | op :: ops', e :: exp' =>
      let s' := f_apply o p batches s op in row_ok batches s' e && chk_steps o p batches s' ops' exp'
  | _, _ => false
  end.

Definition chk_hdm (db : Z) (tstat : bool) (sig : float) (k : Z) (o : oracles)
           (batches : list (list (list float))) (ops : list fop) (exp : list hexp) : bool :=
  chk_steps o (fparams db tstat sig k) batches (@hdm_init NumFloat) ops exp.

(** diagnosis: index of the first bad step, which checks failed, and the model's values there *)
Fixpoint show_steps (o : oracles) p batches (s : fhst) (ops : list fop) (exp : list hexp) (i : Z) :=
  match ops, exp with
  | op :: ops', e :: exp' =>
      let s' := f_apply o p batches s op in
      if row_ok batches s' e then show_steps o p batches s' ops' exp' (i + 1)%Z
      else Some (i, row_checks batches s' e,
                 (h_ds s', h_total s', h_since s', h_ref_n s', h_lambda s', h_bins s'),
                 (h_cur s', h_beta s', h_eps s', h_tot s'), (h_feps s', h_finfo s'), h_hists s', h_thr s')
  | _, _ => None
  end.
Definition show_hdm (db : Z) (tstat : bool) (sig : float) (k : Z) (o : oracles)
           (batches : list (list (list float))) (ops : list fop) (exp : list hexp) :=
  show_steps o (fparams db tstat sig k) batches (@hdm_init NumFloat) ops exp 0.

(** histogram alone: np.histogram(xs, bins = n, range = (lo, hi)) -> (counts, edges) *)
Definition chk_hist (xs : list float) (n : Z) (lo hi : float) (counts : list Z) (edges : list float) : bool :=
  zl_eqb (@histogram NumFloat ftruncZ xs n lo hi) counts && fl_eqb (@hist_edges NumFloat n lo hi) edges.
