(** C17 for Linear Four Rates: a smaller detect_level (wider detect bounds from the same Monte-Carlo
    sample) never moves the first reported drift earlier.  The two runs see the same labels and the
    same simulated samples; only the percentiles taken as detect bounds differ, so the inputs carry,
    for every bounds request, the bounds of the looser (1) and of the stricter (2) setting. *)
From MV Require Import Base Num NumLaws Lifecycle Lifecycle_Proofs Lifecycle_Mono Lifecycle_Mono2 Lfr.

Section LfrMono.
Context {N : Num}.
Variable TL : TransLaws N.
Local Open Scope num_scope.

(** bounds of the stricter setting are wider on the detect side, equal on the warning side *)
Definition brel (b1 b2 : @bounds N) : Prop :=
  lb_warn b1 = lb_warn b2 /\ ub_warn b1 = ub_warn b2 /\
  fleb (lb_detect b2) (lb_detect b1) = true /\ fleb (ub_detect b1) (ub_detect b2) = true.

Definition orel (o1 o2 : @oracle_row N) : Prop :=
  fst (fst (fst o1)) = fst (fst (fst o2)) /\ snd (fst (fst o1)) = snd (fst (fst o2)) /\
  snd (fst o1) = snd (fst o2) /\
  match snd o1, snd o2 with
  | Some b1, Some b2 => brel b1 b2
  | None, None => True
  | _, _ => False
  end.

Definition crel (c1 c2 : @cache N) : Prop :=
  Forall2 (fun x y => fst (fst x) = fst (fst y) /\ snd (fst x) = snd (fst y) /\ brel (snd x) (snd y)) c1 c2.

Lemma outside_mono v (b1 b2 : @bounds N) : brel b1 b2 ->
  outside v (lb_detect b2) (ub_detect b2) = true -> outside v (lb_detect b1) (ub_detect b1) = true.
Proof.
  intros (_ & _ & Hl & Hu) H. unfold outside in *. apply orb_true_iff in H. apply orb_true_iff.
  destruct H as [H|H]; [left | right].
  - exact (tl_lt_le_trans N TL _ _ _ H Hl).
  - exact (tl_le_lt_trans N TL _ _ _ Hu H).
Qed.

Lemma cache_find_rel k d : forall c1 c2, crel c1 c2 ->
  match cache_find k d c1, cache_find k d c2 with
  | Some b1, Some b2 => brel b1 b2
  | None, None => True
  | _, _ => False
  end.
Proof.
  induction 1 as [|[[k1 d1] b1] [[k2 d2] b2] c1 c2 (Hk & Hd & Hb) _ IH]; simpl; [exact I|].
  simpl in Hk, Hd. subst k2 d2. destruct (feqb k k1 && (d =? d1)%Z); [exact Hb | exact IH].
Qed.

Lemma warn_rel v (b1 b2 : @bounds N) w1 w2 : brel b1 b2 -> w1 = w2 ->
  w1 || outside v (lb_warn b1) (ub_warn b1) = w2 || outside v (lb_warn b2) (ub_warn b2).
Proof. intros (H1 & H2 & _) ->. rewrite H1, H2. reflexivity. Qed.

Lemma alarm_rel v (b1 b2 : @bounds N) a1 a2 : brel b1 b2 -> (a2 = true -> a1 = true) ->
  a2 || outside v (lb_detect b2) (ub_detect b2) = true -> a1 || outside v (lb_detect b1) (ub_detect b1) = true.
Proof.
  intros Hb Ha H. apply orb_true_iff in H. apply orb_true_iff.
  destruct H as [H|H]; [left; exact (Ha H) | right; exact (outside_mono _ _ _ Hb H)].
Qed.

(** the loop over tracked rates, on related caches and related oracle rows *)
Lemma lfr_rates_rel (p : @lfr_params N) gated agree oldc newc : forall rs orc1 orc2 r c1 c2 ok1 ok2 w1 w2 a1 a2,
  Forall2 orel orc1 orc2 -> crel c1 c2 -> w1 = w2 -> (a2 = true -> a1 = true) ->
  let res1 := lfr_rates p gated agree oldc newc rs orc1 r c1 ok1 w1 a1 in
  let res2 := lfr_rates p gated agree oldc newc rs orc2 r c2 ok2 w2 a2 in
  fst (fst (fst (fst res1))) = fst (fst (fst (fst res2))) /\      (* statistics *)
  crel (snd (fst (fst (fst res1)))) (snd (fst (fst (fst res2)))) /\ (* caches *)
  snd (fst res1) = snd (fst res2) /\                                (* warning flag *)
  (snd res2 = true -> snd res1 = true).                             (* alarm flag *)
Proof.
  induction rs as [|rt rs IH]; intros orc1 orc2 r c1 c2 ok1 ok2 w1 w2 a1 a2 Ho Hc Hw Ha; cbn [lfr_rates].
  - cbv zeta. simpl. repeat split; assumption.
  - destruct gated; [|apply IH; assumption].
    destruct Ho as [|[[[e1 d1] k1] s1] [[[e2 d2] k2] s2] orc1' orc2' (He & Hd & Hk & Hs) Ho'].
    + apply IH; [constructor | assumption | assumption | assumption].
    + simpl in He, Hd, Hk, Hs. subst e2 d2 k2.
      pose proof (cache_find_rel k1 d1 c1 c2 Hc) as Hf.
      destruct (cache_find k1 d1 c1) as [b1|], (cache_find k1 d1 c2) as [b2|]; try contradiction;
        destruct s1 as [t1|], s2 as [t2|]; try contradiction.
      * apply IH; [assumption | assumption | apply warn_rel; assumption | apply alarm_rel; assumption].
      * apply IH; [assumption | assumption | apply warn_rel; assumption | apply alarm_rel; assumption].
      * apply IH; [assumption | constructor; [simpl; split; [reflexivity | split; [reflexivity | exact Hs]] | assumption]
                   | apply warn_rel; assumption | apply alarm_rel; assumption].
      * apply IH; assumption.
Qed.

Definition lfr_erel (e1 e2 : @lfr_e N) : Prop :=
  l_conf e1 = l_conf e2 /\ l_r e1 = l_r e2 /\ crel (l_cache e1) (l_cache e2).
Definition lfr_xrel (x1 x2 : @lfr_input N) : Prop :=
  fst (fst x1) = fst (fst x2) /\ snd (fst x1) = snd (fst x2) /\ Forall2 orel (snd x1) (snd x2).

Lemma lfr_step_rel (p : @lfr_params N) e1 e2 n x1 x2 : lfr_erel e1 e2 -> lfr_xrel x1 x2 ->
  lfr_erel (fst (lfr_step p e1 n x1)) (fst (lfr_step p e2 n x2)) /\
  (snd (lfr_step p e1 n x1) <> Some DDrift -> snd (lfr_step p e2 n x2) = snd (lfr_step p e1 n x1)).
Proof.
  intros (Hc & Hr & Hca) Hx. destruct x1 as [[yt yp] o1], x2 as [[yt2 yp2] o2].
  destruct Hx as (H1 & H2 & Ho). simpl in H1, H2, Ho. subst yt2 yp2.
  unfold lfr_step. rewrite <- Hc, <- Hr.
  pose proof (lfr_rates_rel p (lfr_gated p n) (Bool.eqb yt yp) (l_conf e1) (conf_add (l_conf e1) yt yp)
                (l_tracked p) o1 o2 (l_r e1) (l_cache e1) (l_cache e2) (l_oracle_ok e1) (l_oracle_ok e2)
                false false false false Ho Hca eq_refl (fun H => H)) as R.
  cbv zeta in R.
  destruct (lfr_rates p (lfr_gated p n) (Bool.eqb yt yp) (l_conf e1) (conf_add (l_conf e1) yt yp)
              (l_tracked p) o1 (l_r e1) (l_cache e1) (l_oracle_ok e1) false false) as [[[[r1 ca1] ok1] w1] a1].
  destruct (lfr_rates p (lfr_gated p n) (Bool.eqb yt yp) (l_conf e1) (conf_add (l_conf e1) yt yp)
              (l_tracked p) o2 (l_r e1) (l_cache e2) (l_oracle_ok e2) false false) as [[[[r2 ca2] ok2] w2] a2].
  simpl in R. destruct R as (Rr & Rc & Rw & Ra). subst r2 w2. simpl. split.
  - split; [reflexivity | split; [reflexivity | assumption]].
  - intros Hnd. destruct a1; [exfalso; apply Hnd; reflexivity|].
    destruct a2; [specialize (Ra eq_refl); discriminate | reflexivity].
Qed.

(** the stricter detect_level never reports its first drift before the looser one, from any related pair
    of states (same confusion matrix and statistics, caches with related bounds) *)
Theorem lfr_first_drift_monotone (p : @lfr_params N) xs1 xs2 (a b : st (LFR p)) :
  Forall2 lfr_xrel xs1 xs2 ->
  lfr_erel (epoch a) (epoch b) -> total a = total b -> since a = since b -> ds a = ds b -> recs a = recs b ->
  ds a <> DDrift ->
  opt_le (first_drift (trace a xs1)) (first_drift (trace b xs2)).
Proof.
  intros HF He Ht Hs Hd Hr Hnd.
  exact (first_drift_monotone2 lfr_e lfr_input lfr_input lfr_reset PolFirstWarn (lfr_step p) (lfr_step p) lfr_xrel
           lfr_erel
           (fun e1 e2 n x1 x2 H1 H2 => proj1 (lfr_step_rel p e1 e2 n x1 x2 H1 H2))
           (fun e1 e2 n x1 x2 H1 H2 => proj2 (lfr_step_rel p e1 e2 n x1 x2 H1 H2))
           xs1 xs2 a b HF (conj He (conj Ht (conj Hs (conj Hd Hr)))) Hnd).
Qed.

Theorem lfr_same_until_first_drift (p : @lfr_params N) xs1 xs2 (a b : st (LFR p)) :
  Forall2 lfr_xrel xs1 xs2 ->
  lfr_erel (epoch a) (epoch b) -> total a = total b -> since a = since b -> ds a = ds b -> recs a = recs b ->
  ds a <> DDrift ->
  first_drift (trace a xs1) = None -> trace b xs2 = trace a xs1.
Proof.
  intros HF He Ht Hs Hd Hr Hnd.
  exact (same_until_first_drift2 lfr_e lfr_input lfr_input lfr_reset PolFirstWarn (lfr_step p) (lfr_step p) lfr_xrel
           lfr_erel
           (fun e1 e2 n x1 x2 H1 H2 => proj1 (lfr_step_rel p e1 e2 n x1 x2 H1 H2))
           (fun e1 e2 n x1 x2 H1 H2 => proj2 (lfr_step_rel p e1 e2 n x1 x2 H1 H2))
           xs1 xs2 a b HF (conj He (conj Ht (conj Hs (conj Hd Hr)))) Hnd).
Qed.

Lemma lfr_erel_refl_nil (e : @lfr_e N) : l_cache e = [] -> lfr_erel e e.
Proof. intros H. repeat split. rewrite H. constructor. Qed.

(** ---- warning_level: run 1 = looser warning (narrower warning bounds), detect bounds equal ---- *)
Definition wbrel (b1 b2 : @bounds N) : Prop :=
  lb_detect b1 = lb_detect b2 /\ ub_detect b1 = ub_detect b2 /\
  fleb (lb_warn b2) (lb_warn b1) = true /\ fleb (ub_warn b1) (ub_warn b2) = true.
Definition worel (o1 o2 : @oracle_row N) : Prop :=
  fst (fst (fst o1)) = fst (fst (fst o2)) /\ snd (fst (fst o1)) = snd (fst (fst o2)) /\
  snd (fst o1) = snd (fst o2) /\
  match snd o1, snd o2 with
  | Some b1, Some b2 => wbrel b1 b2
  | None, None => True
  | _, _ => False
  end.
Definition wcrel (c1 c2 : @cache N) : Prop :=
  Forall2 (fun x y => fst (fst x) = fst (fst y) /\ snd (fst x) = snd (fst y) /\ wbrel (snd x) (snd y)) c1 c2.

Lemma wcache_find_rel k d : forall c1 c2, wcrel c1 c2 ->
  match cache_find k d c1, cache_find k d c2 with
  | Some b1, Some b2 => wbrel b1 b2
  | None, None => True
  | _, _ => False
  end.
Proof.
  induction 1 as [|[[k1 d1] b1] [[k2 d2] b2] c1 c2 (Hk & Hd & Hb) _ IH]; simpl; [exact I|].
  simpl in Hk, Hd. subst k2 d2. destruct (feqb k k1 && (d =? d1)%Z); [exact Hb | exact IH].
Qed.

Lemma w_alarm_rel v (b1 b2 : @bounds N) a1 a2 : wbrel b1 b2 -> a1 = a2 ->
  a1 || outside v (lb_detect b1) (ub_detect b1) = a2 || outside v (lb_detect b2) (ub_detect b2).
Proof. intros (H1 & H2 & _) ->. rewrite H1, H2. reflexivity. Qed.

Lemma w_warn_rel v (b1 b2 : @bounds N) w1 w2 : wbrel b1 b2 -> (w2 = true -> w1 = true) ->
  w2 || outside v (lb_warn b2) (ub_warn b2) = true -> w1 || outside v (lb_warn b1) (ub_warn b1) = true.
Proof.
  intros (_ & _ & Hl & Hu) Hw H. apply orb_true_iff in H. apply orb_true_iff.
  destruct H as [H|H]; [left; exact (Hw H) | right].
  unfold outside in *. apply orb_true_iff in H. apply orb_true_iff.
  destruct H as [H|H]; [left; exact (tl_lt_le_trans N TL _ _ _ H Hl) | right; exact (tl_le_lt_trans N TL _ _ _ Hu H)].
Qed.

Lemma lfr_rates_wrel (p : @lfr_params N) gated agree oldc newc : forall rs orc1 orc2 r c1 c2 ok1 ok2 w1 w2 a1 a2,
  Forall2 worel orc1 orc2 -> wcrel c1 c2 -> (w2 = true -> w1 = true) -> a1 = a2 ->
  let res1 := lfr_rates p gated agree oldc newc rs orc1 r c1 ok1 w1 a1 in
  let res2 := lfr_rates p gated agree oldc newc rs orc2 r c2 ok2 w2 a2 in
  fst (fst (fst (fst res1))) = fst (fst (fst (fst res2))) /\
  wcrel (snd (fst (fst (fst res1)))) (snd (fst (fst (fst res2)))) /\
  (snd (fst res2) = true -> snd (fst res1) = true) /\
  snd res1 = snd res2.
Proof.
  induction rs as [|rt rs IH]; intros orc1 orc2 r c1 c2 ok1 ok2 w1 w2 a1 a2 Ho Hc Hw Ha; cbn [lfr_rates].
  - cbv zeta. simpl. repeat split; assumption.
  - destruct gated; [|apply IH; assumption].
    destruct Ho as [|[[[e1 d1] k1] s1] [[[e2 d2] k2] s2] orc1' orc2' (He & Hd & Hk & Hs) Ho'].
    + apply IH; [constructor | assumption | assumption | assumption].
    + simpl in He, Hd, Hk, Hs. subst e2 d2 k2.
      pose proof (wcache_find_rel k1 d1 c1 c2 Hc) as Hf.
      destruct (cache_find k1 d1 c1) as [b1|], (cache_find k1 d1 c2) as [b2|]; try contradiction;
        destruct s1 as [t1|], s2 as [t2|]; try contradiction.
      * apply IH; [assumption | assumption | apply w_warn_rel; assumption | apply w_alarm_rel; assumption].
      * apply IH; [assumption | assumption | apply w_warn_rel; assumption | apply w_alarm_rel; assumption].
      * apply IH; [assumption | constructor; [simpl; split; [reflexivity | split; [reflexivity | exact Hs]] | assumption]
                   | apply w_warn_rel; assumption | apply w_alarm_rel; assumption].
      * apply IH; assumption.
Qed.

Definition lfr_werel (e1 e2 : @lfr_e N) : Prop :=
  l_conf e1 = l_conf e2 /\ l_r e1 = l_r e2 /\ wcrel (l_cache e1) (l_cache e2).
Definition lfr_wxrel (x1 x2 : @lfr_input N) : Prop :=
  fst (fst x1) = fst (fst x2) /\ snd (fst x1) = snd (fst x2) /\ Forall2 worel (snd x1) (snd x2).

Lemma lfr_step_wrel (p : @lfr_params N) e1 e2 n x1 x2 : lfr_werel e1 e2 -> lfr_wxrel x1 x2 ->
  lfr_werel (fst (lfr_step p e1 n x1)) (fst (lfr_step p e2 n x2)) /\
  (snd (lfr_step p e1 n x1) = Some DDrift <-> snd (lfr_step p e2 n x2) = Some DDrift) /\
  (snd (lfr_step p e1 n x1) = None <-> snd (lfr_step p e2 n x2) = None) /\
  (snd (lfr_step p e2 n x2) = Some DWarn -> snd (lfr_step p e1 n x1) = Some DWarn).
Proof.
  intros (Hc & Hr & Hca) Hx. destruct x1 as [[yt yp] o1], x2 as [[yt2 yp2] o2].
  destruct Hx as (H1 & H2 & Ho). simpl in H1, H2, Ho. subst yt2 yp2.
  unfold lfr_step. rewrite <- Hc, <- Hr.
  pose proof (lfr_rates_wrel p (lfr_gated p n) (Bool.eqb yt yp) (l_conf e1) (conf_add (l_conf e1) yt yp)
                (l_tracked p) o1 o2 (l_r e1) (l_cache e1) (l_cache e2) (l_oracle_ok e1) (l_oracle_ok e2)
                false false false false Ho Hca (fun H => H) eq_refl) as R.
  cbv zeta in R.
  destruct (lfr_rates p (lfr_gated p n) (Bool.eqb yt yp) (l_conf e1) (conf_add (l_conf e1) yt yp)
              (l_tracked p) o1 (l_r e1) (l_cache e1) (l_oracle_ok e1) false false) as [[[[r1 ca1] ok1] w1] a1].
  destruct (lfr_rates p (lfr_gated p n) (Bool.eqb yt yp) (l_conf e1) (conf_add (l_conf e1) yt yp)
              (l_tracked p) o2 (l_r e1) (l_cache e2) (l_oracle_ok e2) false false) as [[[[r2 ca2] ok2] w2] a2].
  simpl in R. destruct R as (Rr & Rc & Rw & Ra). subst r2 a2. simpl. split; [|split; [|split]].
  - split; [reflexivity | split; [reflexivity | assumption]].
  - destruct a1; [split; reflexivity|]. destruct w1, w2; split; discriminate.
  - split; discriminate.
  - destruct a1; [discriminate|]. destruct w2; [rewrite (Rw eq_refl); reflexivity | discriminate].
Qed.

Lemma lfr_reset_wrel (e1 e2 : @lfr_e N) : lfr_werel e1 e2 -> lfr_werel (lfr_reset e1) (lfr_reset e2).
Proof. intros (_ & _ & H). split; [reflexivity | split; [reflexivity | exact H]]. Qed.

(** loosening only warning_level: drifts in exactly the same places over the whole run (through resets),
    every warning of the stricter setting is a warning of the looser one *)
Theorem lfr_warning_loosening (p : @lfr_params N) xs1 xs2 (a b : st (LFR p)) :
  Forall2 lfr_wxrel xs1 xs2 ->
  lfr_werel (epoch a) (epoch b) -> total a = total b -> since a = since b ->
  (ds a = DDrift <-> ds b = DDrift) -> (ds b = DWarn -> ds a = DWarn) ->
  Forall2 (fun o1 o2 => (o_ds o1 = DDrift <-> o_ds o2 = DDrift) /\ (o_ds o2 = DWarn -> o_ds o1 = DWarn)
                         /\ o_total o1 = o_total o2 /\ o_since o1 = o_since o2)
          (trace a xs1) (trace b xs2).
Proof.
  intros HF He Ht Hs Hd Hw.
  exact (warning_loosening2 lfr_e lfr_input lfr_input lfr_reset PolFirstWarn (lfr_step p) (lfr_step p) lfr_wxrel
           lfr_werel lfr_reset_wrel
           (fun e1 e2 n x1 x2 H1 H2 => proj1 (lfr_step_wrel p e1 e2 n x1 x2 H1 H2))
           (fun e1 e2 n x1 x2 H1 H2 => proj1 (proj2 (lfr_step_wrel p e1 e2 n x1 x2 H1 H2)))
           (fun e1 e2 n x1 x2 H1 H2 => proj1 (proj2 (proj2 (lfr_step_wrel p e1 e2 n x1 x2 H1 H2))))
           (fun e1 e2 n x1 x2 H1 H2 => proj2 (proj2 (proj2 (lfr_step_wrel p e1 e2 n x1 x2 H1 H2))))
           xs1 xs2 a b HF (conj He (conj Ht (conj Hs (conj Hd Hw))))).
Qed.

Lemma lfr_werel_refl_nil (e : @lfr_e N) : l_cache e = [] -> lfr_werel e e.
Proof. intros H. split; [reflexivity | split; [reflexivity|]]. rewrite H. constructor. Qed.
End LfrMono.
