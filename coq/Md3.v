(** Model of menelaus/concept_drift/md3.py (MD3 on the deprecated DriftDetector base), statement by
    statement.  No proofs here.

    What is an oracle input of the model (never an axiom):
      - the k-fold reference statistics (md, md_std, acc, acc_std) that calculate_distribution_statistics
        returns at each set_reference (explicit, or the implicit one at a resolution): [stats];
      - the margin-inclusion signal the (user) margin function returns for an update's sample: a value
        of the arithmetic, not only 0/1;
      - for every labelled row, whether [classifier.predict] agrees with its label: a bit.
    Everything else (refusal rules and their order, label counting, the recurrence, both threshold
    tests, the accuracy quotient, the forgetting factor, the reset prologue, counters, column
    bookkeeping) is computed by the model.  Columns are integers (names are encoded by the harness).

    The state machine starts at [md3_start]: the state after __init__ and the first set_reference
    (before that, update fails with AttributeError; outside the property). *)
From MV Require Import Base Num.

Definition zlen {A} (l : list A) : Z := Z.of_nat (length l).

(** `len(labeled) != len(reference) or set(labeled) != set(reference)` -> refuse *)
Definition col_mem (c : Z) (l : list Z) : bool := existsb (Z.eqb c) l.
Definition col_subset (a b : list Z) : bool := forallb (fun c => col_mem c b) a.
Definition cols_match (lab ref : list Z) : bool :=
  (zlen lab =? zlen ref) && (col_subset lab ref && col_subset ref lab).

(** which ValueError a refused call raised (the four messages of md3.py) *)
Inductive refusal := RWaiting | RNotWaiting | RRows | RCols.

Section Md3.
Context {N : Num}.
Local Open Scope num_scope.
Notation F := (F N).

(** k-fold results; "len" is not an oracle: it is the number of rows handed to set_reference *)
Record stats := mk_stats { r_md : F; r_md_std : F; r_acc : F; r_acc_std : F }.

Record params := mk_params { p_sens : F; p_k : Z }.

(** one row of oracle_data: its column list (only the first row's order matters, pd.concat aligns by
    name) and whether the classifier predicts its label *)
Record lrow := mk_lrow { l_cols : list Z; l_correct : bool }.

Record state := mk_state {
  m_wait : bool;            (* waiting_for_oracle *)
  m_rows : list lrow;       (* oracle_data; [] is None (an accepted label always leaves >= 1 row) *)
  m_req : Z;                (* oracle_data_length_required, once resolved at the first set_reference *)
  m_len : Z;                (* reference_distribution["len"] *)
  m_ref : stats;            (* reference_distribution md / md_std / acc / acc_std *)
  m_ff : F;                 (* forgetting_factor *)
  m_md : F;                 (* curr_margin_density *)
  m_feat : list Z;          (* reference_batch_features.columns *)
  m_targ : list Z;          (* reference_batch_target.columns *)
  m_ds : dstate; m_total : Z; m_since : Z   (* drift_state, total_updates, updates_since_reset *)
}.

(** set_reference(X, target_name) with [cols] = X.columns, [n] = len(X), [st] = the k-fold oracle.
    md3.py:120-133.  `if self.oracle_data_length_required is None` can only hold at the very first
    call, which [md3_start] handles; waiting flag, oracle_data, drift_state and counters are not
    touched. *)
Definition md3_set_reference (s : state) (cols : list Z) (target : Z) (n : Z) (st : stats) : state :=
  mk_state (m_wait s) (m_rows s) (m_req s)
           n st (fofZ (n - 1) / fofZ n) (r_md st)
           (filter (fun c => negb (c =? target)%Z) cols) (filter (fun c => (c =? target)%Z) cols)
           (m_ds s) (m_total s) (m_since s).

(** __init__ followed by the first set_reference *)
Definition md3_start (req : option Z) (cols : list Z) (target : Z) (n : Z) (st : stats) : state :=
  md3_set_reference
    (mk_state false [] (match req with Some r => r | None => n end)
              0 st f0 f0 [] [] DNone 0 0)
    cols target n st.

(** reset(): DriftDetector.reset, then curr_margin_density = reference md.  md3.py:318-324 *)
Definition md3_reset (s : state) : state :=
  mk_state (m_wait s) (m_rows s) (m_req s) (m_len s) (m_ref s) (m_ff s) (r_md (m_ref s))
           (m_feat s) (m_targ s) DNone (m_total s) 0.

Inductive result :=
| Ok (s : state)              (* the call returned *)
| Refused (r : refusal)       (* ValueError before anything was assigned *)
| Crashed (s : state).        (* KFold's ValueError inside the implicit set_reference: state changed *)

(** update(X) with [nrows] = len(X) and [sig] = margin function's value.  md3.py:220-253 *)
Definition md3_update (p : params) (s : state) (nrows : Z) (sig : F) : result :=
  if m_wait s then Refused RWaiting
  else if negb (nrows =? 1)%Z then Refused RRows
  else
    let s0 := if is_drift (m_ds s) then md3_reset s else s in
    let total' := (m_total s0 + 1)%Z in
    let since' := (m_since s0 + 1)%Z in
    let md' := m_ff s0 * m_md s0 + (f1 - m_ff s0) * sig in
    let warning_level := fabs (md' - r_md (m_ref s0)) in
    let warning_threshold := p_sens p * r_md_std (m_ref s0) in
    let warn := warning_threshold <? warning_level in        (* level > threshold *)
    Ok (mk_state (if warn then true else m_wait s0) (m_rows s0) (m_req s0) (m_len s0) (m_ref s0)
                 (m_ff s0) md' (m_feat s0) (m_targ s0)
                 (if warn then DWarn else m_ds s0) total' since').

Definition n_correct (rows : list lrow) : Z := zlen (filter l_correct rows).

(** accuracy_score on the collected rows: correct / n in double arithmetic *)
Definition label_accuracy (rows : list lrow) : F := fofZ (n_correct rows) / fofZ (zlen rows).

(** give_oracle_label(labeled_sample) with [nrows] = len(sample), [cols] = its columns, [correct] =
    the classifier predicts its label, [newref] = k-fold statistics of the collected rows (read only
    when this label completes the collection).  md3.py:266-316 *)
Definition md3_label (p : params) (s : state) (nrows : Z) (cols : list Z) (correct : bool)
           (newref : stats) : result :=
  if negb (m_wait s) then Refused RNotWaiting
  else if negb (nrows =? 1)%Z then Refused RRows
  else if negb (cols_match cols (m_feat s ++ m_targ s)) then Refused RCols
  else
    let rows := m_rows s ++ [mk_lrow cols correct] in
    if (zlen rows =? m_req s)%Z then
      let drift_level := r_acc (m_ref s) - label_accuracy rows in
      let drift_threshold := p_sens p * r_acc_std (m_ref s) in
      let d := if drift_threshold <? drift_level then DDrift else DNone in
      (* oracle_data keeps the reference's column order (labeled_sample[reference_columns], md3.py) *)
      let ocols := m_feat s ++ m_targ s in
      let s1 := mk_state (m_wait s) rows (m_req s) (m_len s) (m_ref s) (m_ff s) (m_md s)
                         (m_feat s) (m_targ s) d (m_total s) (m_since s) in
      let target := hd 0%Z (m_targ s) in
      if (zlen rows <? p_k p)%Z then
        (* the column frames are assigned, then KFold.split raises: n_splits > n_samples *)
        Crashed (mk_state (m_wait s) rows (m_req s) (m_len s) (m_ref s) (m_ff s) (m_md s)
                          (filter (fun c => negb (c =? target)%Z) ocols)
                          (filter (fun c => (c =? target)%Z) ocols)
                          d (m_total s) (m_since s))
      else
        let s2 := md3_set_reference s1 ocols target (zlen rows) newref in
        Ok (mk_state false [] (m_req s2) (m_len s2) (m_ref s2) (m_ff s2) (m_md s2)
                     (m_feat s2) (m_targ s2) (m_ds s2) (m_total s2) (m_since s2))
    else
      Ok (mk_state (m_wait s) rows (m_req s) (m_len s) (m_ref s) (m_ff s) (m_md s)
                   (m_feat s) (m_targ s) DNone (m_total s) (m_since s)).

(** the calls a user can make after the first set_reference *)
Inductive op :=
| OSetRef (cols : list Z) (target : Z) (n : Z) (st : stats)
| OUpdate (nrows : Z) (sig : F)
| OLabel (nrows : Z) (cols : list Z) (correct : bool) (newref : stats).

Definition md3_step (p : params) (s : state) (o : op) : result :=
  match o with
  | OSetRef cols target n st => Ok (md3_set_reference s cols target n st)
  | OUpdate nrows sig => md3_update p s nrows sig
  | OLabel nrows cols correct newref => md3_label p s nrows cols correct newref
  end.

(** the detector's state after the call, whatever its outcome *)
Definition md3_next (p : params) (s : state) (o : op) : state :=
  match md3_step p s o with Ok s' => s' | Refused _ => s | Crashed s' => s' end.

Definition md3_run (p : params) (s : state) (ops : list op) : state := fold_left (md3_next p) ops s.

(** vocabulary of the statements: which calls of a history were accepted *)
Definition is_refused (r : result) : bool := match r with Refused _ => true | _ => false end.

Definition label_accepted (p : params) (s : state) (o : op) : bool :=
  match o with OLabel _ _ _ _ => negb (is_refused (md3_step p s o)) | _ => false end.
Definition update_accepted (p : params) (s : state) (o : op) : bool :=
  match o with OUpdate _ _ => negb (is_refused (md3_step p s o)) | _ => false end.

Fixpoint count_along (f : params -> state -> op -> bool) (p : params) (s : state) (ops : list op) : Z :=
  match ops with
  | [] => 0
  | o :: t => ((if f p s o then 1 else 0) + count_along f p (md3_next p s o) t)%Z
  end.
Definition n_labels_accepted := count_along label_accepted.
Definition n_updates_accepted := count_along update_accepted.

(** the margin density after a run of samples, none of which is refused, warns or follows a drift:
    the plain recurrence *)
Definition md_fold (ff m : F) (sigs : list F) : F :=
  fold_left (fun m sig => ff * m + (f1 - ff) * sig) sigs m.

End Md3.
