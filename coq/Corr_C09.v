(** C09 — checkers evaluated by the correspondence harness on the bit-exact instance [NumFloat].
    The oracles of KdqDet.v are instantiated here:
      [trunc] := Corr_C08.ftrunc (Python's int() of a double),
      [rint]  := frint (np.around(.).astype(intp): round half to even, computed exactly from the
                 double's mantissa / exponent),
      [kl]    := lookup in the table of scipy.stats.entropy calls logged from the implementation
                 (arguments compared bit-for-bit; an argument pair the implementation never passed
                 yields NaN, which makes the comparison with the observed divergence fail),
      bootstrap divergences := the list logged from _get_critical_kld, part of each input. *)
From MV Require Import Base Num NumFloat Lifecycle KdqTree KdqDet Corr_C08.
From Coq Require Import PrimFloat Uint63 FloatOps SpecFloat.

(** np.around of a finite double, as an integer (round half to even) *)
Definition frint (x : float) : Z :=
  match Prim2SF x with
  | S754_finite s mnt e =>
      let v := if (0 <=? e)%Z then (Zpos mnt * 2 ^ e)%Z
               else let d := (2 ^ (- e))%Z in
                    let q := (Zpos mnt / d)%Z in
                    let r := (Zpos mnt mod d)%Z in
                    if (2 * r <? d)%Z then q
                    else if (d <? 2 * r)%Z then (q + 1)%Z
                    else if Z.even q then q else (q + 1)%Z in
      if s then (- v)%Z else v
  | _ => 0%Z
  end.

(** table of logged scipy.stats.entropy calls, grouped by the first argument *)
Definition kltab := list (list float * list (list float * float)).

Fixpoint find_snd (b : list float) (g : list (list float * float)) : option float :=
  match g with
  | [] => None
  | (b', v) :: t => if flist_eqb b b' then Some v else find_snd b t
  end.

Fixpoint tab_kl (tab : kltab) (a b : list float) : float :=
  match tab with
  | [] => nan
  | (a', g) :: t =>
      if flist_eqb a a' then match find_snd b g with Some v => v | None => tab_kl t a b end
      else tab_kl t a b
  end.

Definition fparams := kdq_params NumFloat.
Definition mkp (w : Z) (pers alpha : float) (cub : Z) (clb : float) (m : Z) : fparams :=
  @Build_kdq_params NumFloat w pers alpha cub clb m.

Definition fstream := kstream NumFloat.
Definition fbatch := kbatch NumFloat.

Definition optoptf_ok (model : option float) (e : option (option float)) : bool :=
  match e with None => true | Some v => optf_eqb model v end.
Definition optz_ok (model : Z) (e : option Z) : bool :=
  match e with None => true | Some v => (model =? v)%Z end.
Definition zl_eqb := list_eqb Z.eqb.
Definition bootq_eqb (a b : list Z * Z) : bool := zl_eqb (fst a) (fst b) && (snd a =? snd b)%Z.
Definition bootq_ok (model : option (list Z * Z)) (e : option (list Z * Z)) : bool :=
  match e with None => true | Some q => opt_eqb bootq_eqb model (Some q) end.

(** public leaf counts (read off to_plotly_dataframe): [] stands for "no tree" / "id never filled" *)
Definition pub_counts (id : Z) (t : option ftree) : list Z :=
  match t with
  | None => []
  | Some t => match all_some (leaf_counts id t) with Some l => l | None => [] end
  end.
Definition counts_ok (id : Z) (t : option ftree) (e : option (list Z)) : bool :=
  match e with None => true | Some l => zl_eqb (pub_counts id t) l end.

(** one expected row: observation, _test_data_size, _drift_counter, _test_dist, _critical_dist,
    arguments of _get_critical_kld if it was called in this update, public build / test leaf counts;
    every private observable is optional ([None] = not observed) *)
Definition erow9 := (obs * option Z * option Z * option (option float) * option (option float)
                     * option (list Z * Z) * option (list Z) * option (list Z))%type.

Definition srow_ok (s : fstream) (e : erow9) : bool :=
  let '(o, ts, cn, td, cr, bq, rc, tc) := e in
  obs_eqb (ks_observe s) o && optz_ok (s_tsize s) ts && optz_ok (s_counter s) cn
  && optoptf_ok (s_tdist s) td && optoptf_ok (s_crit s) cr && bootq_ok (s_bootq s) bq
  && counts_ok 0 (s_tree s) rc && counts_ok 1 (s_tree s) tc && negb (s_oof s).

Fixpoint rows_ok {A} (f : A -> erow9 -> bool) (ss : list A) (es : list erow9) : bool :=
  match ss, es with
  | [], [] => true
  | s :: ss', e :: es' => f s e && rows_ok f ss' es'
  | _, _ => false
  end.

(** the bootstrap lists logged from the implementation, with the critical value it returned:
    the model's quantile reproduces it bit-for-bit and the checker [quantile_ok] accepts it *)
Definition crit_ok (alpha : float) (q : list float * float) : bool :=
  fbits_eqb (@critical_value NumFloat frint alpha (fst q)) (snd q)
  && @quantile_ok NumFloat frint (fst q) (@qlevel NumFloat alpha) (snd q).

Definition chk_stream (p : fparams) (tab : kltab) (xs : list (list float * list float))
           (rows : list erow9) (qs : list (list float * float)) : bool :=
  rows_ok srow_ok (@ks_states NumFloat ftrunc frint (tab_kl tab) p (@ks_init NumFloat) xs) rows
  && forallb (crit_ok (k_alpha p)) qs.

Definition show_stream (p : fparams) (tab : kltab) (xs : list (list float * list float)) :=
  map (fun s : fstream => (ks_observe s, s_tsize s, s_counter s, s_tdist s, s_crit s, s_bootq s,
                           pub_counts 0 (s_tree s), pub_counts 1 (s_tree s), s_oof s))
      (@ks_states NumFloat ftrunc frint (tab_kl tab) p (@ks_init NumFloat) xs).

(** batch: operations  (true = set_reference, false = update) *)
Definition fbop (o : bool * (list (list float) * list float)) : bop NumFloat :=
  if fst o then @BSetRef NumFloat (snd o) else @BUpdate NumFloat (snd o).

Definition flist2_eqb := list_eqb flist_eqb.

(** batch row: as above without the streaming-only fields, plus the public [ref_data] attribute
    (compared when the state is "drift") *)
Definition brow9 := (obs * option (option float) * option (option float) * option (list Z * Z)
                     * option (list Z) * option (list Z) * option (list (list float)))%type.

Definition brow_ok (s : fbatch) (e : brow9) : bool :=
  let '(o, td, cr, bq, rc, tc, rd) := e in
  obs_eqb (kb_observe s) o && optoptf_ok (b_tdist s) td && optoptf_ok (b_crit s) cr
  && bootq_ok (b_bootq s) bq && counts_ok 0 (b_tree s) rc && counts_ok 1 (b_tree s) tc
  && match rd with None => true | Some d => opt_eqb flist2_eqb (b_refdata s) (Some d) end
  && negb (b_oof s).

Fixpoint browss_ok (ss : list fbatch) (es : list brow9) : bool :=
  match ss, es with
  | [], [] => true
  | s :: ss', e :: es' => brow_ok s e && browss_ok ss' es'
  | _, _ => false
  end.

Definition chk_batch (p : fparams) (tab : kltab) (ops : list (bool * (list (list float) * list float)))
           (rows : list brow9) (qs : list (list float * float)) : bool :=
  browss_ok (@kb_states NumFloat ftrunc frint (tab_kl tab) p (@kb_init NumFloat) (map fbop ops)) rows
  && forallb (crit_ok (k_alpha p)) qs.

Definition show_batch (p : fparams) (tab : kltab) (ops : list (bool * (list (list float) * list float))) :=
  map (fun s : fbatch => (kb_observe s, b_tdist s, b_crit s, b_bootq s,
                          pub_counts 0 (b_tree s), pub_counts 1 (b_tree s), b_oof s))
      (@kb_states NumFloat ftrunc frint (tab_kl tab) p (@kb_init NumFloat) (map fbop ops)).

(** np.quantile(l, 1 - alpha, method="nearest") alone *)
Definition chk_quantile (l : list float) (alpha : float) (v : float) : bool := crit_ok alpha (l, v).

(** a smaller alpha has a rank at least as large and a critical value at least as large
    (float-level validation of the hypotheses / conclusion of quantile_nearest_antitone_alpha) *)
Definition chk_antitone (l : list float) (a1 a2 : float) : bool :=
  let k1 := @qrank NumFloat frint (len l) (@qlevel NumFloat a1) in
  let k2 := @qrank NumFloat frint (len l) (@qlevel NumFloat a2) in
  (0 <=? k2)%Z && (k2 <=? k1)%Z && (k1 <? len l)%Z
  && PrimFloat.leb (@critical_value NumFloat frint a2 l) (@critical_value NumFloat frint a1 l).
