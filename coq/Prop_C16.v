(** C16 — only agreement between label and prediction matters.
    In the models the error-based detectors receive nothing but the agreement bit (the code computes
    int(y_pred != y_true) / int(y_pred == y_true) first) and LFR nothing but the confusion cell, and
    the documented-unused arguments are not parameters of the models at all.  The theorems state the
    consequence for arbitrary label types; that the *implementation* has this shape is what the
    correspondence check establishes under every encoding. *)
From MV Require Import Base Num Lifecycle Ddm Adwin Lfr.

Section C16.
Context {N : Num}.
Variable L : Type.                         (* any label type *)
Variable eqL : L -> L -> bool.             (* how the implementation compares labels *)

Definition agree (y : L * L) : bool := eqL (fst y) (snd y).

(** DDM / EDDM / STEPD on a labelled stream *)
Definition ddm_on_labels (p : @ddm_params N) (ys : list (L * L)) : list obs :=
  trace (init (DDM p) ddm_e0) (map (fun y => negb (agree y)) ys).
Definition eddm_on_labels (p : @eddm_params N) (ys : list (L * L)) : list obs :=
  trace (init (EDDM p) eddm_e0) (map agree ys).
Definition stepd_on_labels (p : @stepd_params N) (ys : list (L * L)) (pvals : list (F N)) : list obs :=
  trace (init (STEPD p) stepd_e0) (combine (map agree ys) pvals).
Definition adwin_acc_on_labels (dpd : Z -> F N) (p : adwin_params) (ys : list (L * L)) : @adwin_st N :=
  adwin_run dpd p adwin_init (map (fun y => if agree y then f1 else f0) ys).

(** any re-encoding of the labels, and any replacement of a pair by another pair with the same
    agreement - possibly over a different label type - leaves every output unchanged *)
Theorem C16_agreement_only : forall (L' : Type) (eqL' : L' -> L' -> bool) (ys : list (L * L)) (ys' : list (L' * L')),
  map agree ys = map (fun y => eqL' (fst y) (snd y)) ys' ->
  (forall p, ddm_on_labels p ys = trace (init (DDM p) ddm_e0) (map (fun y => negb (eqL' (fst y) (snd y))) ys')) /\
  (forall p, eddm_on_labels p ys = trace (init (EDDM p) eddm_e0) (map (fun y => eqL' (fst y) (snd y)) ys')) /\
  (forall p pv, stepd_on_labels p ys pv = trace (init (STEPD p) stepd_e0) (combine (map (fun y => eqL' (fst y) (snd y)) ys') pv)) /\
  (forall dpd p, adwin_acc_on_labels dpd p ys =
     adwin_run dpd p adwin_init (map (fun y => if eqL' (fst y) (snd y) then f1 else f0) ys')).
Proof.
  intros L' eqL' ys ys' H.
  assert (Hn : map (fun y => negb (agree y)) ys = map (fun y => negb (eqL' (fst y) (snd y))) ys').
  { rewrite <- (map_map agree negb), H, map_map. reflexivity. }
  assert (Hf : map (fun y => if agree y then @f1 N else f0) ys = map (fun y => if eqL' (fst y) (snd y) then f1 else f0) ys').
  { rewrite <- (map_map agree (fun b : bool => if b then @f1 N else f0)), H, map_map. reflexivity. }
  unfold ddm_on_labels, eddm_on_labels, stepd_on_labels, adwin_acc_on_labels.
  repeat split; intros; rewrite ?Hn, ?H, ?Hf; reflexivity.
Qed.

(** Linear Four Rates depends on each 0/1 pair only through its confusion-matrix cell *)
Theorem C16_lfr_cell_only : forall (c : conf) (yt yp yt' yp' : bool),
  yt = yt' -> yp = yp' -> conf_add c yt yp = conf_add c yt' yp'.
Proof. intros c yt yp yt' yp' -> ->. reflexivity. Qed.

Theorem C16_lfr_distinct_cells : forall (c : conf) (yt yp yt' yp' : bool),
  conf_add c yt yp = conf_add c yt' yp' -> yt = yt' /\ yp = yp'.
Proof.
  intros c yt yp yt' yp' H. destruct c as [tn fn fp tp].
  destruct yt, yp, yt', yp'; simpl in H; split; try reflexivity; injection H; intros; lia.
Qed.

End C16.

Print Assumptions C16_agreement_only.
Print Assumptions C16_lfr_cell_only.
Print Assumptions C16_lfr_distinct_cells.
